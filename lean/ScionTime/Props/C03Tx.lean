/-
  C03 — where the client's transmit timestamp comes from, and what that means for the pairing of
  timestamps and for the half round-trip bound (Model/ClientFlow.lean: `txTime`, `txReadings`).

  `cTxTime1` is the kernel's transmit timestamp when `udp.ReadTXTimestamp` delivers one with id 0;
  otherwise (error, or another id) it is a reading of the process clock. As repaired that reading is
  taken right BEFORE the request is handed to the kernel (`cTxTimeFallback`), after the reading
  `cTxTime0` the request's own wire timestamp is made from.

  * `prev.cTxTime` after an accepted exchange is `Time64FromTime(cTxTime1)`, and the wire
    TransmitTime of the next interleaved request is exactly that value.
  * What the fallback guarantees: whenever the clock advanced between the two readings (and they
    are less than one NTP era apart) the next interleaved request's TransmitTime differs from the
    previous basic request's TransmitTime, and from its own ReceiveTime field. Hence every
    datagram that echoes the PREVIOUS request's transmit timestamp — in particular a duplicate of
    the previous response delivered to the new exchange — is refused (skip, one retry), never
    evaluated. With a clock that stands still between the two readings nothing is guaranteed.
  * The variant that falls back to `cTxTime0` itself is refuted: the duplicate is accepted and
    the tuple mixes two exchanges.
  * Half round-trip bound for client timestamps that ENCLOSE the exchange (transmit stamp not
    after the departure, receive stamp not before the arrival): the property's bound holds with
    the round-trip delay the client computes. The fallback as it was before the `fix:` commit (a
    reading ≥ 1 ms after the departure) is outside this and violates the bound on a fast link
    (decided instance with the numbers observed on loopback); with a kernel receive timestamp it
    trips the `panic` of `ValidateResponseTimestamps`.
-/
import ScionTime.Model.ClientFlow
import ScionTime.Gen.Client
import ScionTime.Proofs.ClientNtp
namespace ScionTime.Props.C03Tx
open ScionTime.Time64 ScionTime.NtpMath ScionTime.ClientNtp ScionTime.ClientFlow

/-- `Time64FromTime` separates two instants less than one era (minus a second) apart. -/
theorem C03Tx_ofTime_ne_of_lt (a b : Int) (hab : a < b) (hr : b - a < 4294967296 * 1000000000 - 1000000000) :
    ofTime a ≠ ofTime b := by
  intro h
  have hs := congrArg T64.sec h
  have hf := congrArg T64.frac h
  simp only [ofTime, unixSec, nanosecond, epoch, era, nsPerSec] at hs hf
  have h2 : 0 ≤ b / 1000000000 - a / 1000000000 ∧ b / 1000000000 - a / 1000000000 < 4294967296 := by omega
  have hsec : a / 1000000000 = b / 1000000000 := by omega
  have hns : a % 1000000000 < b % 1000000000 := by omega
  omega

/-- less than one NTP era apart (with a second to spare) -/
def Near (a b : Int) : Prop := b - a < 4294967296 * 1000000000 - 1000000000

/-! ### acquisition -/

/-- **Which value becomes `cTxTime1`** (code as repaired): the kernel's stamp iff the read succeeded
    with id 0; in every other case the second clock reading, which is taken before the write.
    Two readings are consumed before the request is sent in either case. -/
theorem C03Tx_acquisition (now pre : Int) (rest : List Int) :
    (∀ t, txReadings .preSend (.kernel t 0) (now :: pre :: rest) = some (now, t, rest)) ∧
    (∀ t id, id ≠ 0 → txReadings .preSend (.kernel t id) (now :: pre :: rest) = some (now, pre, rest)) ∧
    txReadings .preSend .failed (now :: pre :: rest) = some (now, pre, rest) ∧
    TxFallback.readingsBeforeSend .preSend = 2 := by
  refine ⟨fun t => rfl, ?_, rfl, rfl⟩
  intro t id hid
  cases id with
  | zero => exact absurd rfl hid
  | succ k => rfl

/-- **What is stored, and what the next request carries**: after an accepted exchange of a client in
    interleaved mode `prev.cTxTime = Time64FromTime(cTxTime1)`, and an interleaved next request has
    exactly this value as its wire TransmitTime (a basic one has `Time64FromTime` of its own first
    reading). -/
theorem C03Tx_stored_and_next_wire (cfg : Cfg) (prev : Prev) (reference : String) (cTx1 : Int) (a : Accepted)
    (hil : cfg.interleavedMode = true) (now' : Int) :
    (updatePrev cfg prev reference cTx1 a).cTx = ofTime cTx1 ∧
    ((mkRequest cfg (updatePrev cfg prev reference cTx1 a) reference now').interleaved = true →
      (mkRequest cfg (updatePrev cfg prev reference cTx1 a) reference now').tx = ofTime cTx1 ∧
      (mkRequest cfg (updatePrev cfg prev reference cTx1 a) reference now').rx = ofTime a.cRx) ∧
    ((mkRequest cfg (updatePrev cfg prev reference cTx1 a) reference now').interleaved = false →
      (mkRequest cfg (updatePrev cfg prev reference cTx1 a) reference now').tx = ofTime now') := by
  have hp : updatePrev cfg prev reference cTx1 a =
      { reference := reference, interleaved := a.il, cTx := ofTime cTx1, cRx := ofTime a.cRx, sRx := a.sRx64 } := by
    simp [updatePrev, hil]
  refine ⟨by rw [hp], ?_, ?_⟩
  · intro h
    obtain ⟨_, _, _, h4, h5⟩ := mkRequest_interleaved _ _ _ _ h
    rw [h4, h5, hp]
    exact ⟨rfl, rfl⟩
  · intro h
    unfold mkRequest at h ⊢
    split
    · rename_i hc; rw [if_pos hc] at h; cases h
    · rfl

/-- **The next interleaved request does not repeat the previous basic request's TransmitTime**
    whenever the transmit time stored lies after the reading the previous request was stamped with.
    In the fallback (`txReadings .preSend` with a failed read) `cTx1` is the second clock reading:
    the hypothesis is "the clock advanced between the two readings". -/
theorem C03Tx_next_tx_differs (cfg : Cfg) (prev : Prev) (reference : String) (nowK cTx1 : Int) (a : Accepted)
    (hil : cfg.interleavedMode = true) (now' : Int)
    (hbasic : (mkRequest cfg prev reference nowK).interleaved = false)
    (hadv : nowK < cTx1) (hnear : Near nowK cTx1)
    (hnext : (mkRequest cfg (updatePrev cfg prev reference cTx1 a) reference now').interleaved = true) :
    (mkRequest cfg (updatePrev cfg prev reference cTx1 a) reference now').tx ≠ (mkRequest cfg prev reference nowK).tx := by
  have h1 := (C03Tx_stored_and_next_wire cfg prev reference cTx1 a hil now').2.1 hnext
  have h2 : (mkRequest cfg prev reference nowK).tx = ofTime nowK := by
    unfold mkRequest at hbasic ⊢
    split
    · rename_i hc; rw [if_pos hc] at hbasic; cases hbasic
    · rfl
  rw [h1.1, h2]
  exact fun h => C03Tx_ofTime_ne_of_lt nowK cTx1 hadv hnear h.symm

/-- **A duplicate of the previous response cannot match.** Exchange k was basic (its request
    carried `Time64FromTime(nowK)`), was accepted and stored `cTx1`, `a.cRx`; both lie after `nowK`
    (the clock advanced; less than an era). Then in the next exchange, if its request is an
    interleaved one, EVERY payload whose origin timestamp is the previous request's transmit
    timestamp — a duplicate of the previous response, whatever else it carries — is refused at a
    refusal site: it is skipped (costing the one retry) or ends the exchange with an error, and is
    never evaluated. No assumption on where the datagram comes from or on which socket it arrives. -/
theorem C03Tx_duplicate_of_previous_response_refused (cfg : Cfg) (prev : Prev) (reference : String)
    (nowK cTx1 : Int) (a : Accepted) (hil : cfg.interleavedMode = true) (now' cTx1' cRx' : Int) (p : Payload)
    (hadv : nowK < cTx1) (hnear : Near nowK cTx1) (hrx : nowK < a.cRx) (hnear' : Near nowK a.cRx)
    (hnext : (mkRequest cfg (updatePrev cfg prev reference cTx1 a) reference now').interleaved = true)
    (hdup : p.pkt.origin = ofTime nowK) :
    ∃ e, ntpStage cfg (updatePrev cfg prev reference cTx1 a)
        (mkRequest cfg (updatePrev cfg prev reference cTx1 a) reference now') cTx1' cRx' p = .skip e := by
  obtain ⟨htx, hrxf⟩ := (C03Tx_stored_and_next_wire cfg prev reference cTx1 a hil now').2.1 hnext
  have n1 : ofTime nowK ≠ ofTime cTx1 := C03Tx_ofTime_ne_of_lt _ _ hadv hnear
  have n2 : ofTime nowK ≠ ofTime a.cRx := C03Tx_ofTime_ne_of_lt _ _ hrx hnear'
  unfold ntpStage
  split
  · exact ⟨_, rfl⟩
  split
  · exact ⟨_, rfl⟩
  split
  · exact ⟨_, rfl⟩
  rw [hdup, htx, hrxf]
  have e1 : (ofTime nowK == ofTime a.cRx) = false := by simpa using n2
  have e2 : (ofTime nowK != ofTime cTx1) = true := by simpa using n1
  simp only [e1, Bool.and_false, Bool.not_false, e2, Bool.and_self, if_true]
  exact ⟨_, rfl⟩

/-- the same at the level of the IP loop body -/
theorem C03Tx_duplicate_refused_ip (cfg : Cfg) (server : Nat) (prev : Prev) (reference : String)
    (nowK cTx1 : Int) (a : Accepted) (hil : cfg.interleavedMode = true) (now' cTx1' cRx' : Int) (d : IpDgram)
    (hadv : nowK < cTx1) (hnear : Near nowK cTx1) (hrx : nowK < a.cRx) (hnear' : Near nowK a.cRx)
    (hnext : (mkRequest cfg (updatePrev cfg prev reference cTx1 a) reference now').interleaved = true)
    (hdup : d.payload.pkt.origin = ofTime nowK) :
    ∃ e, classifyIP cfg server (updatePrev cfg prev reference cTx1 a)
        (mkRequest cfg (updatePrev cfg prev reference cTx1 a) reference now') cTx1' cRx' d = .skip e := by
  unfold classifyIP
  split
  · exact ⟨_, rfl⟩
  · exact C03Tx_duplicate_of_previous_response_refused cfg prev reference nowK cTx1 a hil now' cTx1' cRx' d.payload
      hadv hnear hrx hnear' hnext hdup

/-! ### a concrete history: basic exchange, then an interleaved request meeting a duplicate -/

def t0K : Int := 1700000000000000000
def cfgIL : Cfg := ⟨.ip, true, false, true⟩
/-- exchange k: basic request stamped `t0K`; the server (clock 5 s ahead) answers -/
def respK : Payload :=
  ⟨48, ⟨36, 1, ofTime t0K, ofTime (t0K + 5000100000), ofTime (t0K + 5000110000)⟩, false, false, false⟩
/-- exchange k as the client sees it with the transmit time `cTx1`, receive reading 250 µs later -/
def stepK (cTx1 : Int) : Step :=
  ntpStage cfgIL Prev.init (mkRequest cfgIL Prev.init "S" t0K) cTx1 (t0K + 250000) respK
def prevAfterK (cTx1 : Int) : Prev :=
  match stepK cTx1 with
  | .accept a => updatePrev cfgIL Prev.init "S" cTx1 a
  | _ => Prev.init
/-- the next exchange, one second later: loop body's verdict on a duplicate of `respK` -/
def dupVerdict (cTx1 : Int) : Step :=
  ntpStage cfgIL (prevAfterK cTx1) (mkRequest cfgIL (prevAfterK cTx1) "S" (t0K + 1000000000))
    (t0K + 1000020000) (t0K + 1000300000) respK

/-- non-vacuity: with the fallback reading 20 µs after the first reading, exchange k is accepted,
    the next request is an interleaved one, and the duplicate of response k is skipped -/
example : (stepK (t0K + 20000)).isAccept = true ∧
    (mkRequest cfgIL (prevAfterK (t0K + 20000)) "S" (t0K + 1000000000)).interleaved = true ∧
    dupVerdict (t0K + 20000) = .skip .unexpected := by decide

/-- **The variant that falls back to `cTxTime0` is refuted**: `prev.cTxTime` is then the previous
    request's own wire timestamp, the next interleaved request repeats it, and the duplicate of the
    previous response passes the origin check as a basic response: the client evaluates
    `t0, t3` of the new exchange with `t1, t2` of the old one — an offset of about 4 s where the
    true offset is 5 s and the round trip took 0.3 ms. -/
theorem C03Tx_request_reading_variant_refuted :
    txReadings .requestReading .failed [t0K, t0K + 250000] = some (t0K, t0K, [t0K + 250000]) ∧
    (mkRequest cfgIL (prevAfterK t0K) "S" (t0K + 1000000000)).tx = (mkRequest cfgIL Prev.init "S" t0K).tx ∧
    (match dupVerdict t0K with
     | .accept a => a.il == false && a.t0 == t0K + 1000020000 && a.t1 == t0K + 5000099999 && a.t3 == t0K + 1000300000 &&
         a.offset.toInt == 3999944999
     | _ => false) = true := by decide

/-! ### the half round-trip bound needs client timestamps that enclose the exchange -/

/-- **Enclosing timestamps.** `T0..T3` true instants with `T1 = T0 + d1 + θ`, `T3 = T2 + d2 − θ`,
    `d1, d2 ≥ 0`; the server's stamps are exact up to the wire format (1 ns), the client's
    transmit stamp is NOT AFTER the departure (`t0 ≤ T0`) and its receive stamp NOT BEFORE the
    arrival up to the wire format (`T3 − 1 ≤ t3`): the offset formula is within half the computed
    round-trip delay + 1.5 ns of `θ`. This is what the fallback readings are for: the reading
    before the write and the reading after the read enclose the exchange. -/
theorem C03Tx_half_rtt_enclosed (T0 T1 T2 T3 d1 d2 θ t0 t1 t2 t3 : Int)
    (h1 : T1 = T0 + d1 + θ) (h3 : T3 = T2 + d2 - θ) (hd1 : 0 ≤ d1) (hd2 : 0 ≤ d2)
    (r0 : t0 ≤ T0) (r1 : T1 - 1 ≤ t1 ∧ t1 ≤ T1) (r2 : T2 - 1 ≤ t2 ∧ t2 ≤ T2) (r3 : T3 - 1 ≤ t3) :
    2 * (clockOffset t0 t1 t2 t3 - θ) ≤ roundTripDelay t0 t1 t2 t3 + 3 ∧
    2 * (θ - clockOffset t0 t1 t2 t3) ≤ roundTripDelay t0 t1 t2 t3 + 3 := by
  unfold clockOffset roundTripDelay
  have := tdiv2_bounds (t1 - t0 + (t2 - t3))
  omega

example : ∃ T0 T1 T2 T3 d1 d2 θ t0 t1 t2 t3 : Int,
    T1 = T0 + d1 + θ ∧ T3 = T2 + d2 - θ ∧ 0 ≤ d1 ∧ 0 ≤ d2 ∧ t0 ≤ T0 ∧ (T1 - 1 ≤ t1 ∧ t1 ≤ T1) ∧
    (T2 - 1 ≤ t2 ∧ t2 ≤ T2) ∧ T3 - 1 ≤ t3 ∧ t0 < T0 ∧ T3 < t3 :=
  ⟨1000, 1060, 1070, 1120, 50, 60, 10, 980, 1060, 1070, 1150, by decide⟩

/-- **Before the `fix:` commit** the fallback was a reading taken after `ReadTXTimestamp` had given
    up (poll timeout 1 ms). With the delays observed on loopback — request received 75 µs after it
    left, reply back 100 µs later, fallback reading 1.16 ms after the departure, receive reading
    after that — the hypotheses of the bound hold for the true instants, the client's transmit
    stamp is after the departure, and the bound fails: error 0.57 ms against half a computed
    round-trip delay of 10 µs (θ = 0). -/
theorem C03Tx_old_fallback_breaks_bound :
    txReadings .postPoll .failed [0, 1164443, 1200000] = some (0, 1164443, [1200000]) ∧
    ¬ (2 * (0 - clockOffset 1164443 75000 95000 1200000) ≤ roundTripDelay 1164443 75000 95000 1200000 + 3) ∧
    -- the repaired fallback on the same exchange: reading 30 µs after the first, before the write
    (2 * (0 - clockOffset 30000 75000 95000 1200000) ≤ roundTripDelay 30000 75000 95000 1200000 + 3 ∧
     2 * (clockOffset 30000 75000 95000 1200000 - 0) ≤ roundTripDelay 30000 75000 95000 1200000 + 3) := by decide

/-- … and when the kernel does deliver a receive timestamp (reply received 175 µs after the
    departure) the old fallback makes `t3 < t0`: `ValidateResponseTimestamps` panics. -/
theorem C03Tx_old_fallback_panics_on_fast_link :
    validateTimestamps 1164443 75000 95000 175000 = .panic ∧
    validateTimestamps 30000 75000 95000 175000 = .ok := by decide

/-- **Pin** (regenerated from client_ip.go / client_scion.go on every run): the value that replaces a
    missing kernel transmit timestamp is defined as `timebase.Now()` at a point BEFORE the write
    (`TxFallback.preSend`). -/
theorem C03Tx_pin_fallback :
    Gen.Client.txFallbackIP = "timebase.Now()@before-write" ∧ Gen.Client.txFallbackSCION = "timebase.Now()@before-write" := by
  decide

end ScionTime.Props.C03Tx
