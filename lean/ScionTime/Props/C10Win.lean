/-
  C10 (client clause over SCION) — the NTP header a client evaluates is the one the authenticator
  covered: which bytes of a received SCION/UDP packet go to `ntp.DecodePacket`, to
  `nts.DecodePacket` / `nts.ProcessResponse`, and as `Pld` into the packet authenticator's MAC
  (Model/ClientFlow.lean: `Rx`, `udpDecode`, `tailWindow`, `windows`).

  The UDP layer decoder hands out `Payload = data[8:min(Length, len(data))]` — a window counted from
  the START of the L4 data; `buf[len(buf)-Length:]` is a window counted from the END of the
  datagram. They are the same bytes iff the length field equals the L4 length; the layer check of
  the receive loop (`len(buf) < Length` refuses) admits every smaller value.

  * `C10Win_same_window`: for every buffer and every value of the length field the code (as
    repaired) gives NTS the very byte string it gives the NTP decoder, and the packet authenticator
    the UDP header followed by that string.
  * `C10Win_header_is_authenticated`: hence the 48 header bytes evaluated are the first 48 bytes of
    the associated data `b[:pos]` the NTS authenticator is verified over (C10_authPos, C10_resp_needs_uid).
  * `C10Win_wellformed_windows_agree`: with a consistent length field the tail window is the L4 data —
    the variants are indistinguishable from the code on well-formed traffic.
  * `C10Win_reframed`: for every re-framed packet the variants authenticate one byte string and
    evaluate another; decided instance `C10Win_tail_variants_refuted`.
-/
import ScionTime.Model.ClientFlow
import ScionTime.Gen.Client
import ScionTime.Props.C10
namespace ScionTime.Props.C10Win
open ScionTime.ClientFlow

/-- **Same window.** Whatever was received and whatever the UDP length field says: NTS verifies the
    byte string the NTP header is decoded from, and the packet authenticator covers the UDP
    header followed by exactly that byte string. -/
theorem C10Win_same_window (r : Rx) (w : Windows) (h : windows r = some w) :
    w.nts = w.ntp ∧ ∃ c, udpDecode r.l4 = some (c, w.ntp) ∧ w.spao = c ++ w.ntp := by
  unfold windows at h
  cases hd : udpDecode r.l4 with
  | none => rw [hd] at h; cases h
  | some cp =>
    obtain ⟨c, p⟩ := cp
    rw [hd] at h
    simp only [Option.map_some, Option.some.injEq] at h
    subst h
    exact ⟨rfl, c, rfl, rfl⟩

/-- the NTP header of a byte string: what `ntp.DecodePacket` reads -/
def ntpHeader (b : Bytes) : Bytes := b.take 48

/-- **The header evaluated is authenticated.** When the NTS decoder accepts the NTS window, the
    authenticator sits at `pos ≥ 48` and the bytes `b[:pos]` it is verified over (C10_auth_sound /
    C10_resp_needs_uid) begin with the 48 bytes `ntp.DecodePacket` reads from the NTP window. -/
theorem C10Win_header_is_authenticated (r : Rx) (w : Windows) (h : windows r = some w)
    (d : ScionTime.Nts.Decoded) (hd : ScionTime.Nts.decodePacket w.nts = .ok d) :
    48 ≤ d.pos ∧ ntpHeader (w.nts.take d.pos) = ntpHeader w.ntp := by
  obtain ⟨heq, _⟩ := C10Win_same_window r w h
  obtain ⟨pre, x, y, z, v, body, hb, hp, h48, _, _, _⟩ := ScionTime.C10.C10_authPos w.nts d hd
  have h48' : 48 ≤ d.pos := by rw [hp]; exact h48
  refine ⟨h48', ?_⟩
  unfold ntpHeader
  rw [← heq, List.take_take]
  congr 1
  omega

theorem udpDecode_cons8 (a0 a1 a2 a3 a4 a5 a6 a7 k : Nat) (rest : Bytes) (hL : a4 * 256 + a5 = 8 + k) :
    udpLengthField (a0 :: a1 :: a2 :: a3 :: a4 :: a5 :: a6 :: a7 :: rest) = 8 + k ∧
    udpDecode (a0 :: a1 :: a2 :: a3 :: a4 :: a5 :: a6 :: a7 :: rest) =
      some ([a0, a1, a2, a3, a4, a5, a6, a7], rest.take k) := by
  have hl : udpLengthField (a0 :: a1 :: a2 :: a3 :: a4 :: a5 :: a6 :: a7 :: rest) = 8 + k := by
    simp [udpLengthField, hL]
  refine ⟨hl, ?_⟩
  unfold udpDecode
  simp only [hl]
  simp
  rw [show 8 + k = k + 1 + 1 + 1 + 1 + 1 + 1 + 1 + 1 by omega]
  simp [List.take_succ_cons]

theorem tailWindow_append (pre x : Bytes) : tailWindow (pre ++ x) x.length = x := by
  unfold tailWindow
  simp

/-- **Re-framed packets, for every header, forged part and authentic payload.** `h` an 8-byte UDP
    header whose length field says `8 + |p|`, `f` as long as `p`, any bytes in front: the layer check
    admits the packet; the code (as repaired) hands `f` to the NTP decoder AND to NTS, and `h ++ f` to
    the packet authenticator — an authenticator over `p` never vouches for `f`. The variant verifies
    NTS over `p` while the NTP header comes from `f`; the code before the `fix:` commit computed the
    packet authenticator's MAC over `h ++ p` while evaluating `f`. -/
theorem C10Win_reframed (pre f p : Bytes) (a0 a1 a2 a3 a4 a5 a6 a7 : Nat)
    (hlen : a4 * 256 + a5 = 8 + p.length) (hf : f.length = p.length) :
    let h := [a0, a1, a2, a3, a4, a5, a6, a7]
    lengthAdmitted (reframed pre h f p) = true ∧
    windows (reframed pre h f p) = some ⟨f, f, h ++ f⟩ ∧
    windowsTailNts (reframed pre h f p) = some ⟨f, p, h ++ p⟩ ∧
    windowsOld (reframed pre h f p) = some ⟨f, f, h ++ p⟩ := by
  intro h
  obtain ⟨hl, hd⟩ := udpDecode_cons8 a0 a1 a2 a3 a4 a5 a6 a7 p.length (f ++ (h ++ p)) hlen
  have hd' : udpDecode (reframed pre h f p).l4 = some (h, f) := by
    have : (f ++ (h ++ p)).take p.length = f := by rw [← hf]; simp
    rw [this] at hd
    exact hd
  have hl' : udpLengthField (reframed pre h f p).l4 = (h ++ p).length := by
    show udpLengthField (h ++ (f ++ (h ++ p))) = _
    rw [show h ++ (f ++ (h ++ p)) = a0 :: a1 :: a2 :: a3 :: a4 :: a5 :: a6 :: a7 :: (f ++ (h ++ p)) from rfl, hl]
    simp [h]; omega
  have ht : tailWindow (reframed pre h f p).buf (udpLengthField (reframed pre h f p).l4) = h ++ p := by
    rw [hl']
    have : (reframed pre h f p).buf = (pre ++ h ++ f) ++ (h ++ p) := by simp [reframed, Rx.buf]
    rw [this]
    exact tailWindow_append _ _
  refine ⟨?_, ?_, ?_, ?_⟩
  · unfold lengthAdmitted
    rw [hl']
    simp [reframed, Rx.buf]; omega
  · simp [windows, hd']
  · simp only [windowsTailNts, hd', ht, Option.map_some]
    simp [h]
  · simp [windowsOld, hd', ht]

/-- **Well-formed traffic cannot tell the variants apart**: when the length field equals the length
    of the L4 data (what every conformant sender produces) the last `Length` bytes of the buffer
    are the L4 data, and all three window selections coincide. -/
theorem C10Win_wellformed_windows_agree (r : Rx) (h8 : 8 ≤ r.l4.length) (hl : udpLengthField r.l4 = r.l4.length) :
    tailWindow r.buf (udpLengthField r.l4) = r.l4 ∧
    windowsTailNts r = windows r ∧ windowsOld r = windows r := by
  have ht : tailWindow r.buf (udpLengthField r.l4) = r.l4 := by
    rw [hl]; exact tailWindow_append r.pre r.l4
  have hd : udpDecode r.l4 = some (r.l4.take 8, r.l4.drop 8) := by
    unfold udpDecode
    rw [hl]
    have : ¬ r.l4.length < 8 := by omega
    simp [this, h8]
  refine ⟨ht, ?_, ?_⟩
  · simp [windowsTailNts, windows, hd, ht]
  · simp [windowsOld, windows, hd, ht]

/-- a small re-framed packet: header `[0,7,0,9,0,12,0,0]` (length field 12), authentic payload
    `[1,2,3,4]`, forged `[9,9,9,9]` -/
def exRx : Rx := reframed [70, 71] [0, 7, 0, 9, 0, 12, 0, 0] [9, 9, 9, 9] [1, 2, 3, 4]

/-- **Refuted variants, decided**: on `exRx` the layer check passes; the code evaluates and
    authenticates `[9,9,9,9]`; the variant evaluates `[9,9,9,9]` but verifies NTS over `[1,2,3,4]`;
    the code before the `fix:` commit verified the packet authenticator over the authentic
    header + payload while evaluating `[9,9,9,9]`. -/
theorem C10Win_tail_variants_refuted :
    lengthAdmitted exRx = true ∧
    windows exRx = some ⟨[9, 9, 9, 9], [9, 9, 9, 9], [0, 7, 0, 9, 0, 12, 0, 0, 9, 9, 9, 9]⟩ ∧
    windowsTailNts exRx = some ⟨[9, 9, 9, 9], [1, 2, 3, 4], [0, 7, 0, 9, 0, 12, 0, 0, 1, 2, 3, 4]⟩ ∧
    windowsOld exRx = some ⟨[9, 9, 9, 9], [9, 9, 9, 9], [0, 7, 0, 9, 0, 12, 0, 0, 1, 2, 3, 4]⟩ := by decide

/-- a length field larger than the datagram is refused by the layer check (nothing is sliced) -/
example : lengthAdmitted ⟨[70, 71], [0, 7, 0, 9, 0, 40, 0, 0, 1, 2, 3, 4]⟩ = false := by decide

/-- **Pin** (regenerated from client_scion.go on every run): the byte strings handed to
    `ntp.DecodePacket`, `nts.DecodePacket`, `nts.ProcessResponse` are all `udpLayer.Payload`, and the
    response's packet authenticator is computed over the UDP header followed by it (`windows`). -/
theorem C10Win_pin_windows :
    Gen.Client.scionPayloadWindows =
      "spao=buffer.Bytes() | spao=udpLayer.Contents[:len(udpLayer.Contents)+len(udpLayer.Payload)] | ntp=udpLayer.Payload | nts.decode=udpLayer.Payload | nts.process=udpLayer.Payload" := by
  rfl

end ScionTime.Props.C10Win
