/-
  Props/C15Pather.lean — C15 across ROUNDS: `MeasureClockOffsetSCION` consumes its path list in
  place (swap-removes, Sample's picks). The round model takes the list by value; here the writes
  are made explicit (`arrayAfter`, memory of arrays by address) and it is proved that a round's
  result is a function of the array's contents, that its writes land in the array it was handed
  and nowhere else, and that with `Pather.Paths` handing out a copy (net/scion/pather.go) the
  Pather's table is the same before and after any history of rounds — every round of a history is
  offered the same table, so the per-round theorems of Props/C15.lean (distinct paths, an
  interleaved client keeps its path while it is still offered, …) apply round after round with
  "offered" = the table. The aliased variant (Paths returns the table itself) is refuted with a
  decided two-round history: a path is lost and another one doubled in the table, a client
  whose path the table originally offered is reset, and two clients probe the same path.
-/
import ScionTime.Proofs.Multipath
import ScionTime.Gen.Scion
namespace ScionTime.C15Pather
open ScionTime.Sample ScionTime.Multipath List

/-- `Pather.Paths` returns a copy (harness/extract/x_c15.go) -/
theorem C15Pather_pin_copy :
    Gen.Scion.Pather_Paths_returns = "nil | append(make([]snet.Path, 0, len(paths)), paths...)" := rfl

/-- the by-value round of Props/C15.lean is `roundP` on the offered positions -/
theorem C15Pather_round_is_roundP (ftm : List Int → Int) (f11 f12 : Bool) (cs : List Client)
    (offered : List Fp) (c : Bool) (s : Stream) (succ : List (Option Int)) :
    round ftm f11 f12 cs offered c s succ = roundP ftm f11 f12 cs (offeredPaths offered) c s succ := rfl

/-! ### the writes -/

theorem applyPicks_length {α : Type} : ∀ (picks : List (Nat × Nat)) (l : List α),
    (applyPicks l picks).length = l.length
  | [], _ => rfl
  | (d, s) :: rest, l => by
    simp only [applyPicks]
    split
    · rw [applyPicks_length rest]; simp
    · exact applyPicks_length rest l

theorem stickyStep_tail_length (f : Bool) (c : Client) (ps : List Path) :
    (stickyStep f c ps).2.length + (ps.drop (stickyStep f c ps).2.length).length = ps.length := by
  rcases stickyStep_cases f c ps with ⟨_, h2⟩ | ⟨j, hj, _, _, _, h2⟩
  · rw [h2]; simp
  · rw [h2]
    have := swapRemove_length ps j hj
    simp only [length_drop]; omega

theorem stickyLoop_tail_length (f : Bool) : ∀ (cs : List Client) (ps tail : List Path),
    (stickyLoop f cs ps).2.length + (stickyLoopTail f cs ps tail).length = ps.length + tail.length
  | [], _, _ => by simp [stickyLoop, stickyLoopTail]
  | c :: cs, ps, tail => by
    have h := stickyStep_tail_length f c ps
    have ih := stickyLoop_tail_length f cs (stickyStep f c ps).2 (ps.drop (stickyStep f c ps).2.length ++ tail)
    simp only [stickyLoop, stickyLoopTail]
    simp only [length_append] at ih
    omega

/-- the in-place writes are writes THROUGH the slice: the caller's array keeps its length,
    whatever the clients, paths and random stream -/
theorem C15Pather_array_length (f : Bool) (cs : List Client) (ps : List Path) (c : Bool) (s : Stream) :
    (arrayAfter f cs ps c s).length = ps.length := by
  have h := stickyLoop_tail_length f cs ps []
  simp only [arrayAfter]
  split <;> simp only [length_append, applyPicks_length] <;> simpa using h

/-- **A round reads its array's contents and writes only that array.** The result of
    `MeasureClockOffsetSCION(…, ps)` is the by-value round on the contents of `ps`'s array (two
    memories that agree at that address give the same result), and every other array of the
    memory is the same afterwards. -/
theorem C15Pather_round_frame (ftm : List Int → Int) (f11 f12 : Bool) (m : Mem) (a : Nat)
    (cs : List Client) (c : Bool) (s : Stream) (succ : List (Option Int)) :
    (roundAt ftm f11 f12 m a cs c s succ).1 = roundP ftm f11 f12 cs (m.getD a []) c s succ ∧
    (∀ m' : Mem, m'.getD a [] = m.getD a [] →
      (roundAt ftm f11 f12 m' a cs c s succ).1 = (roundAt ftm f11 f12 m a cs c s succ).1) ∧
    (∀ b, b ≠ a → (roundAt ftm f11 f12 m a cs c s succ).2.getD b [] = m.getD b []) ∧
    (roundAt ftm f11 f12 m a cs c s succ).2.length = m.length := by
  refine ⟨rfl, ?_, ?_, by simp [roundAt]⟩
  · intro m' h; simp only [roundAt, h]
  · intro b hb
    simp only [roundAt, getD_eq_getElem?_getD]
    rw [getElem?_set_ne (Ne.symm hb)]

/-- **With the copy, a round leaves the Pather's table as it was** and is offered exactly the
    table: result = by-value round on the table's contents; the table (and every other array
    that existed) is unchanged; the only new thing in memory is the consumed copy. -/
theorem C15Pather_copy_round (ftm : List Int → Int) (f11 f12 : Bool) (m : Mem) (table : Nat)
    (cs : List Client) (c : Bool) (s : Stream) (succ : List (Option Int)) :
    let o := refclkRound pathsCopy ftm f11 f12 m table cs c s succ
    o.1 = roundP ftm f11 f12 cs (m.getD table []) c s succ ∧
    (∀ b, b < m.length → o.2.getD b [] = m.getD b []) ∧ o.2.length = m.length + 1 := by
  simp only [refclkRound, pathsCopy]
  obtain ⟨h1, _, h3, h4⟩ := C15Pather_round_frame ftm f11 f12 (m ++ [m.getD table []]) m.length cs c s succ
  refine ⟨?_, ?_, by rw [h4]; simp⟩
  · rw [h1]; simp [getD_eq_getElem?_getD]
  · intro b hb
    rw [h3 b (by omega)]
    simp only [getD_eq_getElem?_getD]
    rw [getElem?_append_left hb]

/-- **Round after round**: over any history of rounds on one Pather (any clients' states,
    streams, outcomes), the table is untouched and round k's result is the by-value round on
    the table — the paths offered never depend on what earlier rounds did. -/
theorem C15Pather_copy_history (ftm : List Int → Int) (f11 f12 : Bool) (table : Nat) :
    ∀ (rs : List RoundIn) (m : Mem), table < m.length →
      (refclkHistory pathsCopy ftm f11 f12 m table rs).1 =
        rs.map (fun r => roundP ftm f11 f12 r.cs (m.getD table []) r.cancelled r.s r.succ) ∧
      (∀ b, b < m.length → (refclkHistory pathsCopy ftm f11 f12 m table rs).2.getD b [] = m.getD b [])
  | [], m, _ => by simp [refclkHistory]
  | r :: rs, m, ht => by
    obtain ⟨h1, h2, h3⟩ := C15Pather_copy_round ftm f11 f12 m table r.cs r.cancelled r.s r.succ
    have ih := C15Pather_copy_history ftm f11 f12 table rs
      (refclkRound pathsCopy ftm f11 f12 m table r.cs r.cancelled r.s r.succ).2 (by omega)
    simp only [refclkHistory, map_cons]
    refine ⟨?_, ?_⟩
    · rw [ih.1, h1, h2 table ht]
    · intro b hb
      rw [ih.2 b (by omega), h2 b hb]

/-! ### the aliased variant -/

/-- three clients of a reference clock in interleaved mode, on the paths f0, f1, f2 they were
    assigned in an earlier round -/
def ilClients : List Client := [⟨true, true, true, "f0"⟩, ⟨true, true, true, "f1"⟩, ⟨true, true, true, "f2"⟩]

def tbl : List Path := offeredPaths ["f0", "f1", "f2"]

def rin : RoundIn := { cs := ilClients, s := [1, 2, 3, 4, 5, 6, 7, 8, 9, 10, 11, 12, 13, 14, 15, 16], succ := [some 10, some 20, some 30] }

/-- a stand-in for the fault-tolerant midpoint that the kernel can evaluate (the theorems above
    hold for every `ftm`) -/
def sumF (l : List Int) : Int := l.foldl (· + ·) 0

/-- with the copy: both rounds keep every client on its path (0, 1, 2), nobody is reset, the
    table is [f0, f1, f2] afterwards (non-vacuity of the history theorem: `ok` results) -/
example :
    let o := refclkHistory pathsCopy sumF true true [tbl] 0 [rin, rin]
    o.1.map (·.assigned) = [[some 0, some 1, some 2], [some 0, some 1, some 2]] ∧
    o.1.map (·.reset) = [[false, false, false], [false, false, false]] ∧
    o.1.map (·.res) = [.ok 60, .ok 60] ∧ o.2.getD 0 [] = tbl := by decide +kernel

/-- **`ps` aliasing breaks the property.** If `Paths` handed out the table itself, the first
    of these two rounds (every client keeps its path: three swap-removes) would leave the table
    as [f2, f1, f2] — path 0 lost, path 2 twice — and in the second round client 0, whose path
    the Pather's source still offers, is reset and moved, and clients 0 and 2 probe the same
    path (position 2 of the original table): "pairwise distinct paths" and "keeps its path
    while it is still offered" both fail, silently (both rounds return an offset). -/
theorem C15Pather_alias_refuted :
    let o := refclkHistory pathsAlias sumF true true [tbl] 0 [rin, rin]
    (refclkHistory pathsAlias sumF true true [tbl] 0 [rin]).2.getD 0 [] = [(2, "f2"), (1, "f1"), (2, "f2")] ∧
    o.1.map (·.assigned) = [[some 0, some 1, some 2], [some 2, some 1, some 2]] ∧
    o.1.map (·.reset) = [[false, false, false], [true, false, false]] ∧
    o.1.map (·.res) = [.ok 60, .ok 60] := by decide +kernel

end ScionTime.C15Pather
