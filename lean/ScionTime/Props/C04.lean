/-
  C04 — NTP timestamp conversion is exact to 1 ns within ±2^31 s, across eras.
  Property theorems (kept apart from helper lemmas); model: ScionTime/Model/Time64.lean.
-/
import ScionTime.Model.Time64
import ScionTime.Gen.Ntp
namespace ScionTime.C04
open ScionTime.Time64

/-- Pins: the model's constants are those of /repo's current source (Gen is regenerated
    on every run; a changed constant breaks these and thereby the build). -/
theorem C04_pin_nsPerSec : Gen.Ntp.nanosecondsPerSecond = nsPerSec := by decide
theorem C04_pin_epoch : Gen.Ntp.epoch = epoch := by decide
theorem C04_pin_era : Gen.Ntp.secondsPerEra = era := by decide


/-- The decoding window as the code computes it: the reference enters only through
    `t0.Unix()` (whole seconds), and references are not before the NTP epoch (1900; the
    property quantifies over references from 1970 on). -/
def InWindow (t t0 : Int) : Prop :=
  epoch ≤ unixSec t0 ∧ -2147483648 ≤ unixSec t - unixSec t0 ∧ unixSec t - unixSec t0 < 2147483648

/-- Nanosecond-granular window of the property statement; its upper edge is one second
    tighter than `2^31 s` because the code reads the reference at whole seconds. -/
theorem C04_window_ns (t t0 : Int) (h0 : 0 ≤ t0)
    (hlo : -2147483648 * 1000000000 ≤ t - t0) (hhi : t - t0 < 2147483647 * 1000000000) :
    InWindow t t0 := by
  unfold InWindow unixSec; t64c
  omega

/-- Seconds round-trip exactly, on the whole window, on either side of an era boundary. -/
theorem C04_seconds_exact (sec tref : Int) (h0 : epoch ≤ tref)
    (hlo : -2147483648 ≤ sec - tref) (hhi : sec - tref < 2147483648) :
    decSec ((sec - epoch) % era) tref = sec := by
  have hq : Int.tdiv (tref - epoch) era = (tref - epoch) / era := by
    apply Int.tdiv_eq_ediv_of_nonneg; omega
  unfold decSec
  rw [hq]
  t64c
  simp only
  split
  · omega
  · split <;> omega

/-- Sub-second part: never later, at most 1 ns earlier, for all 10^9 values. -/
theorem C04_subsecond (ns : Int) :
    ns - 1 ≤ decNs (ns * era / nsPerSec) ∧ decNs (ns * era / nsPerSec) ≤ ns := by
  unfold decNs; t64c
  omega

/-- Main statement: time -> Time64 -> time relative to any reference in the window returns
    the original time to within one nanosecond and never later. -/
theorem C04_roundtrip (t t0 : Int) (h : InWindow t t0) :
    t - 1 ≤ toTime (ofTime t) t0 ∧ toTime (ofTime t) t0 ≤ t := by
  obtain ⟨h0, hlo, hhi⟩ := h
  have hs := C04_seconds_exact (unixSec t) (unixSec t0) h0 hlo hhi
  have hn0 : 0 ≤ nanosecond t := by unfold nanosecond; t64c; omega
  have hn1 : nanosecond t < 1000000000 := by unfold nanosecond; t64c; omega
  have hn := C04_subsecond (nanosecond t)
  unfold toTime ofTime mkTime
  simp only
  rw [hs]
  have ht : t = unixSec t * nsPerSec + nanosecond t := by
    unfold unixSec nanosecond; t64c; omega
  t64c
  omega

/-- The decoded time lies in the same second as the original. -/
theorem C04_roundtrip_same_second (t t0 : Int) (h : InWindow t t0) :
    unixSec (toTime (ofTime t) t0) = unixSec t := by
  obtain ⟨h0, hlo, hhi⟩ := h
  have hs := C04_seconds_exact (unixSec t) (unixSec t0) h0 hlo hhi
  have hn0 : 0 ≤ nanosecond t := by unfold nanosecond; t64c; omega
  have hn1 : nanosecond t < 1000000000 := by unfold nanosecond; t64c; omega
  have hn := C04_subsecond (nanosecond t)
  have hd0 : 0 ≤ decNs (nanosecond t * era / nsPerSec) := by
    unfold decNs; t64c; omega
  unfold toTime ofTime mkTime
  simp only
  rw [hs]
  unfold unixSec at *; t64c
  omega

/-- Distinct nanosecond values get distinct fractions (2^32 > 10^9): encoding is injective
    on the sub-second part and strictly monotone. -/
theorem C04_frac_strict_mono (a b : Int) (hab : a < b) :
    a * era / nsPerSec < b * era / nsPerSec := by
  t64c
  omega

/-- Conversion preserves order within the window. -/
theorem C04_order_preserved (t u t0 : Int) (ht : InWindow t t0) (hu : InWindow u t0)
    (h : t ≤ u) : toTime (ofTime t) t0 ≤ toTime (ofTime u) t0 := by
  have rt := C04_roundtrip t t0 ht
  have ru := C04_roundtrip u t0 hu
  have st := C04_roundtrip_same_second t t0 ht
  have su := C04_roundtrip_same_second u t0 hu
  -- either u is at least 2 ns later (then the 1 ns slack cannot reorder), or compare directly
  by_cases hfar : t + 1 < u
  · omega
  · -- t ≤ u ≤ t + 1
    by_cases hsec : unixSec t = unixSec u
    · -- same second: fraction monotone, decNs monotone
      have hn : nanosecond t ≤ nanosecond u := by
        unfold unixSec nanosecond at *; t64c; omega
      obtain ⟨h0, hlo, hhi⟩ := ht
      obtain ⟨_, hlo', hhi'⟩ := hu
      have hs := C04_seconds_exact (unixSec t) (unixSec t0) h0 hlo hhi
      have hs' := C04_seconds_exact (unixSec u) (unixSec t0) h0 hlo' hhi'
      unfold toTime ofTime mkTime
      simp only
      rw [hs, hs', hsec]
      have hn0 : 0 ≤ nanosecond t := by unfold nanosecond; t64c; omega
      unfold decNs; t64c
      omega
    · -- different seconds: decoded values stay in their own seconds
      have hlt : unixSec t < unixSec u := by
        unfold unixSec at *; t64c; omega
      unfold unixSec at *; t64c
      omega

/-- `Before`/`After` are the strict lexicographic order on (seconds, fraction). -/
theorem C04_before_iff (a b : T64) :
    before a b = true ↔ a.sec < b.sec ∨ (a.sec = b.sec ∧ a.frac < b.frac) := by
  unfold before; simp

theorem C04_after_eq_before_swap (a b : T64) : after a b = before b a := by
  unfold after before
  simp only [gt_iff_lt]
  congr 2
  rw [Bool.eq_iff_iff]; simp only [beq_iff_eq]; exact eq_comm

/-- Within one era, encoding is strictly order preserving w.r.t. `Before`. -/
theorem C04_encode_order_same_era (t u : Int) (hlt : t < u)
    (hera : (unixSec t - epoch) / era = (unixSec u - epoch) / era) :
    after (ofTime t) (ofTime u) = false := by
  unfold after ofTime
  simp only [gt_iff_lt, Bool.or_eq_false_iff, Bool.and_eq_false_iff, decide_eq_false_iff_not,
    beq_eq_false_iff_ne, ne_eq]
  have hsu : unixSec t ≤ unixSec u := by unfold unixSec; t64c; omega
  t64c
  constructor
  · omega
  · by_cases hs : unixSec t = unixSec u
    · right
      have : nanosecond t < nanosecond u := by
        unfold unixSec nanosecond at *; t64c; omega
      have h0 : 0 ≤ nanosecond t := by unfold nanosecond; t64c; omega
      t64c
      omega
    · left; omega

/-! Non-vacuity: the hypotheses are met across the February 2036 era boundary. -/
example : InWindow (2085978491 * 1000000000 + 999999999) (2085978506 * 1000000000) := by
  unfold InWindow unixSec; t64c; omega
example : toTime (ofTime (2085978491 * 1000000000 + 999999999)) (2085978506 * 1000000000)
    = 2085978491 * 1000000000 + 999999998 := by decide
example : toTime (ofTime (2085978491 * 1000000000 + 500000000)) (2085978506 * 1000000000)
    = 2085978491 * 1000000000 + 500000000 := by decide

/-! Finding F1 (fixed in /repo by a `fix:` commit): the function as it was at the pinned
    commit never unfolded towards the previous era. Reference 10 s after the 2036
    rollover, time 5 s before it: decoded 2^32 s (136 years) late. -/
theorem C04_old_code_counterexample :
    decSecOld ((2085978491 - epoch) % era) 2085978506 = 2085978491 + era := by decide

/-- What held of the old function: exact when the time is not before the reference's era. -/
theorem C04_old_code_partial (sec tref : Int) (h0 : epoch ≤ tref)
    (hlo : -2147483648 ≤ sec - tref) (hhi : sec - tref < 2147483648)
    (hsame : epoch + (tref - epoch) / era * era ≤ sec) :
    decSecOld ((sec - epoch) % era) tref = sec := by
  have hq : Int.tdiv (tref - epoch) era = (tref - epoch) / era := by
    apply Int.tdiv_eq_ediv_of_nonneg; omega
  unfold decSecOld
  rw [hq]
  t64c
  simp only
  split <;> omega

end ScionTime.C04
