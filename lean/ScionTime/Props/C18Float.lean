/-
  C18 (floating-point clauses) — frequency <-> scaled-ppm conversion round-trips to within
  one unit in the last place; the drift allowance is proportional to the interval.
  Model: ScionTime/Model/UnixutilFloat.lean over the software double Model/F64.lean;
  rounding lemmas: ScionTime/Proofs/F64.lean.
-/
import ScionTime.Model.UnixutilFloat
import ScionTime.Proofs.F64
import ScionTime.Proofs.C18Float
import ScionTime.Gen.Unixutil
namespace ScionTime.C18Float
open ScionTime.F64 ScionTime.UnixutilFloat

/-! ### scaled ppm -> frequency -> scaled ppm -/

/-- C18: `ScaledPPMFromFreq (FreqFromScaledPPM x)` is within one unit of `x`, for
    `|x| ≤ 2^51` (the kernel's range `|x| ≤ 32768000` included; see the corollary). -/
theorem C18_scaledppm_roundtrip (x : Int) (h : x.natAbs ≤ 2 ^ 51) :
    (scaledPPMFromFreq (freqFromScaledPPM x) - x).natAbs ≤ 1 := by
  unfold scaledPPMFromFreq freqFromScaledPPM
  rw [scaleF_eq]
  by_cases h0 : x = 0
  · subst h0; rw [ofInt_zero]; simp [div, mul, toInt64]
  · rw [ofInt_exact h0 (by omega)]
    obtain ⟨hx1, hx2⟩ := intCast_bounds h
    have hx0 := one_le_abs_intCast h0
    simp only [Int.cast_ofNat_Int, Nat.reducePow, Rat.intCast_ofNat] at hx1 hx2
    -- first rounding: the quotient is a normal number
    have hq1 : pow2 (-37) ≤ ((x : Rat) / 65536000000).abs := by
      rw [pow2_m37]; simp only [Rat.abs] at hx0 ⊢; grind
    have hq1' : ((x : Rat) / 65536000000).abs ≤ maxFin := by
      refine Rat.le_trans ?_ (pow2_le_maxFin (K := 53) (by decide))
      rw [pow2_53_lit]; simp only [Rat.abs]; grind
    have hfin1 := roundNE_fin (Rat.le_trans (pow2_mono (by decide)) hq1) hq1'
    have e1 := rnd_err_rel (Rat.le_trans (pow2_mono (by decide)) hq1)
    rw [pow2_53_lit] at e1
    simp only [div, mul]
    rw [hfin1]
    generalize rnd ((x : Rat) / 65536000000) = f at *
    -- second rounding
    have e2 := rnd_err_gen (f * 65536000000)
    rw [pow2_53_lit] at e2
    have e2' := Rat.le_trans e2 (Rat.add_le_add_left.2 eta_le)
    obtain ⟨hr, hq2⟩ := rt_arith hx1 hx2 e1 e2'
    have hq2' : (f * 65536000000).abs ≤ maxFin := by
      refine Rat.le_trans hq2 (Rat.le_trans ?_ (pow2_le_maxFin (K := 53) (by decide)))
      rw [pow2_53_lit]; grind
    have hval := toRat_roundNE_of_le hq2'
    have hfin := isFinite_roundNE_of_le hq2'
    generalize rnd (f * 65536000000) = r at *
    rw [toInt64_eq_trunc hfin (by rw [hval, pow2_63_lit]; rw [abs_lt_iff] at hr; grind)
      (by rw [hval, pow2_63_lit]; rw [abs_lt_iff] at hr; grind), hval]
    exact trunc_near hr

/-- the kernel's range: ±500 ppm = ±32 768 000 scaled units -/
theorem C18_scaledppm_roundtrip_kernel (x : Int) (h1 : -32768000 ≤ x) (h2 : x ≤ 32768000) :
    x - 1 ≤ scaledPPMFromFreq (freqFromScaledPPM x) ∧
    scaledPPMFromFreq (freqFromScaledPPM x) ≤ x + 1 := by
  have := C18_scaledppm_roundtrip x (by omega)
  omega

example : (32768000 : Int).natAbs ≤ 2 ^ 51 := by decide

/-! ### frequency -> scaled ppm -> frequency -/

/-- C18, reverse direction, "within one unit in the last place of the scaled value":
    for a finite frequency `f` whose scaled value `f · 65536·10^6` is at most `2^40` in
    magnitude (the kernel's range is `2^25`), converting to scaled ppm and back gives a
    finite frequency whose scaled value differs from that of `f` by at most `1 + 2^-11`
    scaled units (1 from the truncation to an integer, the rest from three roundings). -/
theorem C18_freq_roundtrip (f : F64) (hf : isFinite f = true)
    (h : (toRat f * 65536000000).abs ≤ pow2 40) :
    isFinite (freqFromScaledPPM (scaledPPMFromFreq f)) = true ∧
    (toRat (freqFromScaledPPM (scaledPPMFromFreq f)) * 65536000000 - toRat f * 65536000000).abs
      ≤ 1 + pow2 (-11) := by
  unfold freqFromScaledPPM scaledPPMFromFreq
  rw [pow2_40_lit] at h
  have hmax : (1099511627778 : Rat) ≤ maxFin := by
    refine Rat.le_trans ?_ (pow2_le_maxFin (K := 53) (by decide)); rw [pow2_53_lit]; grind
  -- the product
  obtain ⟨fin1, val1⟩ := toRat_mul hf isFinite_scaleF
    (by rw [toRat_scaleF]; exact Rat.le_trans h (Rat.le_trans (by grind) hmax))
  rw [toRat_scaleF] at val1
  have e1 := Rat.le_trans (rnd_err_gen (toRat f * 65536000000)) (Rat.add_le_add_left.2 eta_le')
  rw [pow2_53_lit] at e1
  generalize toRat f * 65536000000 = p at *
  generalize mul f scaleF = y at *
  -- the truncation
  have et := trunc_err (toRat y)
  obtain ⟨hr, hS⟩ := rtf_arith0 h (by rw [← val1] at e1; exact e1) et
  rw [abs_le_iff] at hr hS
  rw [toInt64_eq_trunc fin1 (by rw [pow2_63_lit]; grind) (by rw [pow2_63_lit]; grind)]
  generalize trunc (toRat y) = s at *
  have hs : s.natAbs ≤ 2 ^ 53 := by
    have := natAbs_le_of_bounds (s := s) (n := 1099511627778) (by simpa using hS.1) (by simpa using hS.2)
    omega
  -- the quotient
  have hq : ((s : Rat) / 65536000000).abs ≤ maxFin := by
    refine Rat.le_trans ?_ hmax; rw [abs_le_iff]; grind
  obtain ⟨fin2, val2⟩ := toRat_div (isFinite_ofInt_exact hs) isFinite_scaleF
    (by rw [toRat_scaleF]; decide) (by rw [toRat_scaleF, toRat_ofInt_exact hs]; exact hq)
  rw [toRat_scaleF, toRat_ofInt_exact hs] at val2
  refine ⟨fin2, ?_⟩
  have e2 := Rat.le_trans (rnd_err_gen ((s : Rat) / 65536000000)) (Rat.add_le_add_left.2 eta_le')
  rw [pow2_53_lit] at e2
  rw [val2, pow2_m11]
  exact rtf_arith h (by rw [← val1] at e1; exact e1) et e2

/-- the hypothesis is met by every frequency within the kernel's ±500 ppm -/
example : ((500 : Rat) / 1000000 * 65536000000).abs ≤ pow2 40 := by
  rw [pow2_40_lit, abs_le_iff]; grind

end ScionTime.C18Float
