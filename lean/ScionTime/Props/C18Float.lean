/-
  C18 — floating-point clauses: frequency <-> scaled ppm, drift allowance.
  Model: ScionTime/Model/FreqDrift.lean over the software double ScionTime/Model/F64.lean;
  rounding lemmas: ScionTime/Proofs/F64Round.lean, ScionTime/Proofs/F64Apply.lean.
-/
import ScionTime.Model.FreqDrift
import ScionTime.Proofs.F64Apply
namespace ScionTime.C18
open ScionTime.F64 ScionTime.FreqDrift

theorem C18_scale_exact : ofInt scale = .fin 65536000000 := by
  have := ofInt_exact scale (by decide) (by decide) (by decide)
  rw [this]; unfold scale; simp

/-- scaledppm_roundtrip.  For every scaled-ppm value in the kernel's range
    (|x| ≤ 32768000 = 500 ppm), converting to a frequency (one division, rounded) and back
    (one multiplication, rounded, then truncation toward zero) returns `x` or the neighbour
    of `x` towards zero — never more than one unit away, never larger in magnitude. -/
theorem C18_scaledppm_roundtrip (x : Int) (hlo : -32768000 ≤ x) (hhi : x ≤ 32768000) :
    (0 ≤ x → x - 1 ≤ scaledPPMFromFreq (freqFromScaledPPM x) ∧ scaledPPMFromFreq (freqFromScaledPPM x) ≤ x) ∧
    (x ≤ 0 → x ≤ scaledPPMFromFreq (freqFromScaledPPM x) ∧ scaledPPMFromFreq (freqFromScaledPPM x) ≤ x + 1) := by
  unfold scaledPPMFromFreq freqFromScaledPPM
  rw [C18_scale_exact]
  by_cases hx0 : x = 0
  · subst hx0
    rw [ofInt_zero]
    simp [F64.div, F64.mul, toInt64]
  · rw [ofInt_exact x hx0 (by omega) (by omega)]
    have hdiv : F64.div (.fin (x : Rat)) (.fin 65536000000) = roundNE ((x : Rat) / 65536000000) := rfl
    rw [hdiv]
    have hXlo : (-32768000 : Rat) ≤ (x : Rat) := by
      have := Rat.intCast_le_intCast.mpr hlo; simpa using this
    have hXhi : (x : Rat) ≤ 32768000 := by
      have := Rat.intCast_le_intCast.mpr hhi; simpa using this
    have hXne : (x : Rat) ≠ 0 := fun h => hx0 (Rat.intCast_eq_zero_iff.mp h)
    rcases Int.lt_or_gt_of_ne hx0 with hneg | hpos
    · -- x < 0
      have hX : (x : Rat) ≤ -1 := by
        have := Rat.intCast_le_intCast.mpr (show x ≤ -1 by omega); simpa using this
      have hc1 : ((-x - 1 : Int) : Rat) = -(x : Rat) - 1 := by simp [Rat.intCast_sub, Rat.intCast_neg]
      have hc2 : ((-x + 1 : Int) : Rat) = -(x : Rat) + 1 := by simp [Rat.intCast_add, Rat.intCast_neg]
      generalize (x : Rat) = X at *
      have hq1 : X / 65536000000 < 0 := by grind
      obtain ⟨a1, a2⟩ := absR_eq (X / 65536000000)
      obtain ⟨f, hf, _, hfn⟩ := round_step (X / 65536000000) (by grind)
        (by rw [a1 hq1]; grind) (by rw [a1 hq1]; grind)
      obtain ⟨hf0, hf1, hf2⟩ := hfn hq1
      rw [hf]
      have hmul : F64.mul (.fin f) (.fin 65536000000) = roundNE (f * 65536000000) := rfl
      rw [hmul]
      have hq2 : f * 65536000000 < 0 := by grind
      obtain ⟨b1, b2⟩ := absR_eq (f * 65536000000)
      obtain ⟨g, hg, _, hgn⟩ := round_step (f * 65536000000) (by grind)
        (by rw [b1 hq2]; grind) (by rw [b1 hq2]; grind)
      obtain ⟨hg0, hg1, hg2⟩ := hgn hq2
      rw [hg]
      have hgl : X - 1/2 < g := by grind
      have hgu : g < X + 1/2 := by grind
      have hF1 : -x - 1 ≤ (-g).floor := Rat.le_floor_iff.mpr (by rw [hc1]; grind)
      have hF2 : (-g).floor < -x + 1 := Rat.floor_lt_iff.mpr (by rw [hc2]; grind)
      unfold toInt64
      simp only [hg0, if_true]
      generalize (-g).floor = F at *
      rw [if_neg (by omega)]
      omega
    · -- x > 0
      have hX : (1 : Rat) ≤ (x : Rat) := by
        have := Rat.intCast_le_intCast.mpr (show 1 ≤ x by omega); simpa using this
      have hc1 : ((x - 1 : Int) : Rat) = (x : Rat) - 1 := by simp [Rat.intCast_sub]
      have hc2 : ((x + 1 : Int) : Rat) = (x : Rat) + 1 := by simp [Rat.intCast_add]
      generalize (x : Rat) = X at *
      have hq1 : 0 < X / 65536000000 := by grind
      obtain ⟨a1, a2⟩ := absR_eq (X / 65536000000)
      have a2' := a2 (by grind)
      obtain ⟨f, hf, hfp, _⟩ := round_step (X / 65536000000) (by grind)
        (by rw [a2']; grind) (by rw [a2']; grind)
      obtain ⟨hf0, hf1, hf2⟩ := hfp hq1
      rw [hf]
      have hmul : F64.mul (.fin f) (.fin 65536000000) = roundNE (f * 65536000000) := rfl
      rw [hmul]
      have hq2 : 0 < f * 65536000000 := by grind
      obtain ⟨b1, b2⟩ := absR_eq (f * 65536000000)
      have b2' := b2 (by grind)
      obtain ⟨g, hg, hgp, _⟩ := round_step (f * 65536000000) (by grind)
        (by rw [b2']; grind) (by rw [b2']; grind)
      obtain ⟨hg0, hg1, hg2⟩ := hgp hq2
      rw [hg]
      have hgl : X - 1/2 < g := by grind
      have hgu : g < X + 1/2 := by grind
      have hF1 : x - 1 ≤ g.floor := Rat.le_floor_iff.mpr (by rw [hc1]; grind)
      have hF2 : g.floor < x + 1 := Rat.floor_lt_iff.mpr (by rw [hc2]; grind)
      unfold toInt64
      have hgn : ¬ g < 0 := by grind
      simp only [hgn, if_false]
      generalize g.floor = F at *
      rw [if_neg (by omega)]
      omega

end ScionTime.C18
