/-
  C18 — floating-point clauses: frequency <-> scaled ppm, drift allowance.
  Model: ScionTime/Model/FreqDrift.lean over the software double ScionTime/Model/F64.lean;
  rounding lemmas: ScionTime/Proofs/F64Round.lean, ScionTime/Proofs/F64Apply.lean.
-/
import ScionTime.Model.FreqDrift
import ScionTime.Proofs.F64Apply
import ScionTime.Proofs.F64Duration
import ScionTime.Gen.Unixutil
import ScionTime.Gen.Timemath
namespace ScionTime.C18
open ScionTime.F64 ScionTime.FreqDrift

/-- Pin: the constant expression `65536.0 * 1e6` in both functions of freq.go (folded by the
    extractor exactly as the Go compiler does) is the model's `scale`. -/
theorem C18_pin_scale :
    Gen.Unixutil.scaledPPMFromFreqScale = scale ∧ Gen.Unixutil.freqFromScaledPPMScale = scale := by decide

theorem C18_scale_exact : ofInt scale = .fin 65536000000 := by
  have := ofInt_exact scale (by decide) (by decide) (by decide)
  rw [this]; unfold scale; simp

/-- scaledppm_roundtrip.  For every scaled-ppm value in the kernel's range
    (|x| ≤ 32768000 = 500 ppm), converting to a frequency (one division, rounded) and back
    (one multiplication, rounded, then truncation toward zero) returns `x` or the neighbour
    of `x` towards zero — never more than one unit away, never larger in magnitude. -/
theorem C18_scaledppm_roundtrip (x : Int) (hlo : -32768000 ≤ x) (hhi : x ≤ 32768000) :
    (0 ≤ x → x - 1 ≤ scaledPPMFromFreq (freqFromScaledPPM x) ∧ scaledPPMFromFreq (freqFromScaledPPM x) ≤ x) ∧
    (x ≤ 0 → x ≤ scaledPPMFromFreq (freqFromScaledPPM x) ∧ scaledPPMFromFreq (freqFromScaledPPM x) ≤ x + 1) := by
  unfold scaledPPMFromFreq freqFromScaledPPM
  rw [C18_scale_exact]
  by_cases hx0 : x = 0
  · subst hx0
    rw [ofInt_zero]
    simp [F64.div, F64.mul, toInt64]
  · rw [ofInt_exact x hx0 (by omega) (by omega)]
    have hdiv : F64.div (.fin (x : Rat)) (.fin 65536000000) = roundNE ((x : Rat) / 65536000000) := rfl
    rw [hdiv]
    have hXlo : (-32768000 : Rat) ≤ (x : Rat) := by
      have := Rat.intCast_le_intCast.mpr hlo; simpa using this
    have hXhi : (x : Rat) ≤ 32768000 := by
      have := Rat.intCast_le_intCast.mpr hhi; simpa using this
    have hXne : (x : Rat) ≠ 0 := fun h => hx0 (Rat.intCast_eq_zero_iff.mp h)
    rcases Int.lt_or_gt_of_ne hx0 with hneg | hpos
    · -- x < 0
      have hX : (x : Rat) ≤ -1 := by
        have := Rat.intCast_le_intCast.mpr (show x ≤ -1 by omega); simpa using this
      have hc1 : ((-x - 1 : Int) : Rat) = -(x : Rat) - 1 := by simp [Rat.intCast_sub, Rat.intCast_neg]
      have hc2 : ((-x + 1 : Int) : Rat) = -(x : Rat) + 1 := by simp [Rat.intCast_add, Rat.intCast_neg]
      generalize (x : Rat) = X at *
      have hq1 : X / 65536000000 < 0 := by grind
      obtain ⟨a1, a2⟩ := absR_eq (X / 65536000000)
      obtain ⟨f, hf, _, hfn⟩ := round_step (X / 65536000000) (by grind)
        (by rw [a1 hq1]; grind) (by rw [a1 hq1]; grind)
      obtain ⟨hf0, hf1, hf2⟩ := hfn hq1
      rw [hf]
      have hmul : F64.mul (.fin f) (.fin 65536000000) = roundNE (f * 65536000000) := rfl
      rw [hmul]
      have hq2 : f * 65536000000 < 0 := by grind
      obtain ⟨b1, b2⟩ := absR_eq (f * 65536000000)
      obtain ⟨g, hg, _, hgn⟩ := round_step (f * 65536000000) (by grind)
        (by rw [b1 hq2]; grind) (by rw [b1 hq2]; grind)
      obtain ⟨hg0, hg1, hg2⟩ := hgn hq2
      rw [hg]
      have hgl : X - 1/2 < g := by grind
      have hgu : g < X + 1/2 := by grind
      have hF1 : -x - 1 ≤ (-g).floor := Rat.le_floor_iff.mpr (by rw [hc1]; grind)
      have hF2 : (-g).floor < -x + 1 := Rat.floor_lt_iff.mpr (by rw [hc2]; grind)
      unfold toInt64
      simp only [hg0, if_true]
      generalize (-g).floor = F at *
      rw [if_neg (by omega)]
      omega
    · -- x > 0
      have hX : (1 : Rat) ≤ (x : Rat) := by
        have := Rat.intCast_le_intCast.mpr (show 1 ≤ x by omega); simpa using this
      have hc1 : ((x - 1 : Int) : Rat) = (x : Rat) - 1 := by simp [Rat.intCast_sub]
      have hc2 : ((x + 1 : Int) : Rat) = (x : Rat) + 1 := by simp [Rat.intCast_add]
      generalize (x : Rat) = X at *
      have hq1 : 0 < X / 65536000000 := by grind
      obtain ⟨a1, a2⟩ := absR_eq (X / 65536000000)
      have a2' := a2 (by grind)
      obtain ⟨f, hf, hfp, _⟩ := round_step (X / 65536000000) (by grind)
        (by rw [a2']; grind) (by rw [a2']; grind)
      obtain ⟨hf0, hf1, hf2⟩ := hfp hq1
      rw [hf]
      have hmul : F64.mul (.fin f) (.fin 65536000000) = roundNE (f * 65536000000) := rfl
      rw [hmul]
      have hq2 : 0 < f * 65536000000 := by grind
      obtain ⟨b1, b2⟩ := absR_eq (f * 65536000000)
      have b2' := b2 (by grind)
      obtain ⟨g, hg, hgp, _⟩ := round_step (f * 65536000000) (by grind)
        (by rw [b2']; grind) (by rw [b2']; grind)
      obtain ⟨hg0, hg1, hg2⟩ := hgp hq2
      rw [hg]
      have hgl : X - 1/2 < g := by grind
      have hgu : g < X + 1/2 := by grind
      have hF1 : x - 1 ≤ g.floor := Rat.le_floor_iff.mpr (by rw [hc1]; grind)
      have hF2 : g.floor < x + 1 := Rat.floor_lt_iff.mpr (by rw [hc2]; grind)
      unfold toInt64
      have hgn : ¬ g < 0 := by grind
      simp only [hgn, if_false]
      generalize g.floor = F at *
      rw [if_neg (by omega)]
      omega

end ScionTime.C18

namespace ScionTime.C18
open ScionTime.F64 ScionTime.FreqDrift

/-- `UnknownDrift` (the value the service configures everywhere at the pinned commit) makes
    `Drift` return `MaxInt64` for every interval. -/
theorem C18_drift_unknown (d : Int) : drift unknownDrift d = 9223372036854775807 := by
  unfold drift unknownDrift; rfl

end ScionTime.C18

namespace ScionTime.C18
open ScionTime.F64 ScionTime.FreqDrift

/-- drift_proportional.  For a clock whose drift field is the positive double `C`
    (`2^-30 ≤ C ≤ 1024` s/s) and every interval `0 < d < 2^62` ns whose exact allowance
    `E = d·C` is at most `2^62` ns, `Drift(d)` is `E` up to truncation to whole nanoseconds and
    a relative error of `2^-50` (four correctly rounded operations): the allowance is
    proportional to the interval. -/
theorem C18_drift_proportional (C : Rat) (d : Int) (hd : 0 < d) (hd2 : d < 4611686018427387904)
    (hC1 : 1 / 1073741824 ≤ C) (hC2 : C ≤ 1024) (hE : (d : Rat) * C ≤ 4611686018427387904) :
    ((drift (.fin C) d : Int) : Rat) ≤ (d : Rat) * C + (d : Rat) * C / 1125899906842624 ∧
    (d : Rat) * C - (d : Rat) * C / 1125899906842624 - 1 < ((drift (.fin C) d : Int) : Rat) := by
  have hC0 : (0 : Rat) < C := by grind
  obtain ⟨s, hs, s0, s1, s2⟩ := durationSeconds_pos d hd hd2
  have hD1 : (1 : Rat) ≤ (d : Rat) := by simpa using Rat.intCast_le_intCast.mpr (show 1 ≤ d by omega)
  unfold drift
  have hb : beq (.fin C) unknownDrift = false := by
    unfold beq unknownDrift toRat
    simp; grind
  rw [hb]
  simp only [Bool.false_eq_true, if_false]
  unfold duration toDuration
  rw [hs, ofInt_e9]
  have hmul1 : F64.mul (.fin s) (.fin C) = roundNE (s * C) := rfl
  rw [hmul1]
  -- exact allowance E = d·C, and S·C
  have k1 := Rat.mul_le_mul_of_nonneg_right s1 (Rat.le_of_lt hC0)
  have k2 := Rat.mul_le_mul_of_nonneg_right s2 (Rat.le_of_lt hC0)
  have k3 := Rat.mul_le_mul_of_nonneg_right hD1 (Rat.le_of_lt hC0)
  have e1 : (s * 1000000000 - (d : Rat)) * 9007199254740992 * C
      = (s * C * 1000000000 - (d : Rat) * C) * 9007199254740992 := by grind
  have e2 : ((d : Rat) - s * 1000000000) * 9007199254740992 * C
      = ((d : Rat) * C - s * C * 1000000000) * 9007199254740992 := by grind
  have e3 : 3 * (d : Rat) * C = 3 * ((d : Rat) * C) := by grind
  rw [e1, e3] at k1
  rw [e2, e3] at k2
  generalize (d : Rat) * C = E at *
  generalize hSC : s * C = SC at *
  have hSCpos : 0 < SC := by rw [← hSC]; exact Rat.mul_pos s0 hC0
  obtain ⟨_, a2⟩ := absR_eq SC
  have a2' := a2 (by grind)
  obtain ⟨p, hp, hpp, _⟩ := round_step SC (by grind) (by rw [a2']; grind) (by rw [a2']; grind)
  obtain ⟨p0, p1, p2⟩ := hpp hSCpos
  rw [hp]
  have hmul2 : F64.mul (.fin p) (.fin 1000000000) = roundNE (p * 1000000000) := rfl
  rw [hmul2]
  have hq0 : 0 < p * 1000000000 := by grind
  obtain ⟨_, b2⟩ := absR_eq (p * 1000000000)
  have b2' := b2 (by grind)
  obtain ⟨r, hr, hrp, _⟩ := round_step (p * 1000000000) (by grind) (by rw [b2']; grind) (by rw [b2']; grind)
  obtain ⟨r0, r1, r2⟩ := hrp hq0
  rw [hr]
  unfold toInt64
  have hrn : ¬ r < 0 := by grind
  simp only [hrn, if_false]
  have f1 := Rat.floor_le r
  have f2 := Rat.lt_floor_add_one r
  have f2' : r < (r.floor : Rat) + 1 := by
    have : ((r.floor + 1 : Int) : Rat) = (r.floor : Rat) + 1 := by simp [Rat.intCast_add]
    rw [this] at f2; exact f2
  have hfl0 : 0 ≤ r.floor := Rat.le_floor_iff.mpr (by simpa using Rat.le_of_lt r0)
  have hfl1 : r.floor ≤ 9223372036854775807 := by
    have : r.floor < 9223372036854775808 := Rat.floor_lt_iff.mpr (by simp; grind)
    omega
  rw [if_neg (by omega)]
  constructor <;> grind

end ScionTime.C18

namespace ScionTime.C18
/-- The hypotheses of `C18_drift_proportional` are met, e.g., by a drift of 2^-16 s/s
    (15 ppm, exactly a double) over a 64 s interval. -/
example : (1 : Rat) / 1073741824 ≤ 1 / 65536 ∧ (1 : Rat) / 65536 ≤ 1024 ∧
    ((64000000000 : Int) : Rat) * (1 / 65536) ≤ 4611686018427387904 := by
  refine ⟨by grind, by grind, ?_⟩
  simp; grind
end ScionTime.C18

namespace ScionTime.C18
open ScionTime.F64 ScionTime.FreqDrift

/-! ### frequency → scaled ppm → frequency

`C18_freq_roundtrip` (end of file) is the full statement: for every finite non-zero double `f`
with `|f| ≤ 500e-6`, `|FreqFromScaledPPM (ScaledPPMFromFreq f) − f| ≤ one scaled-ppm unit
(1/65536e6)` up to rounding; `C18_freq_roundtrip_zero` covers `±0`. It is assembled from four
ranges: at least one unit (sharper, one-sided bounds: the round trip truncates towards zero)
and below one unit (where `f·65536e6` may underflow: `roundNE_small_pos/neg`), each sign.
Infinities and NaN are outside the property's quantifier (`int64(f*…)` yields MinInt64 for
them — exercised by the correspondence's boundary stream). -/

/-- Positive frequencies from one unit (2^-16 ppm) up to 500 ppm: the round trip is never
    above `f` by more than rounding noise (10^-6 unit) and below it by at most one unit. -/
theorem C18_freq_roundtrip_pos (F : Rat) (h1 : 1 / 65536000000 ≤ F) (h2 : F ≤ 1 / 2000) :
    isFinite (freqFromScaledPPM (scaledPPMFromFreq (.fin F))) = true ∧
    (toRat (freqFromScaledPPM (scaledPPMFromFreq (.fin F))) - F) * 65536000000 ≤ 1 / 1000000 ∧
    (F - toRat (freqFromScaledPPM (scaledPPMFromFreq (.fin F)))) * 65536000000 ≤ 1 + 1 / 1000000 := by
  unfold scaledPPMFromFreq freqFromScaledPPM
  rw [C18_scale_exact]
  have hmul : F64.mul (.fin F) (.fin 65536000000) = roundNE (F * 65536000000) := rfl
  rw [hmul]
  have hq0 : 0 < F * 65536000000 := by grind
  obtain ⟨_, a2⟩ := absR_eq (F * 65536000000)
  have a2' := a2 (by grind)
  obtain ⟨g, hg, hgp, _⟩ := round_step (F * 65536000000) (by grind) (by rw [a2']; grind) (by rw [a2']; grind)
  obtain ⟨g0, g1, g2⟩ := hgp hq0
  rw [hg]
  unfold toInt64
  have hgn : ¬ g < 0 := by grind
  simp only [hgn, if_false]
  have f1 := Rat.floor_le g
  have f2 := Rat.lt_floor_add_one g
  have f2' : g < (g.floor : Rat) + 1 := by
    have : ((g.floor + 1 : Int) : Rat) = (g.floor : Rat) + 1 := by simp [Rat.intCast_add]
    rw [this] at f2; exact f2
  have hfl0 : 0 ≤ g.floor := Rat.le_floor_iff.mpr (by simpa using Rat.le_of_lt g0)
  have hfl1 : g.floor < 32768002 := Rat.floor_lt_iff.mpr (by simp; grind)
  rw [if_neg (by omega)]
  generalize hY : g.floor = y at *
  by_cases hy : y = 0
  · subst hy
    rw [ofInt_zero]
    have : F64.div (.zero false) (.fin 65536000000) = .zero (false != decide ((65536000000 : Rat) < 0)) := rfl
    rw [this]
    simp only [isFinite, toRat, true_and]
    have : ((0 : Int) : Rat) = 0 := rfl
    constructor <;> grind
  · rw [ofInt_exact y hy (by omega) (by omega)]
    have hdiv : F64.div (.fin (y : Rat)) (.fin 65536000000) = roundNE ((y : Rat) / 65536000000) := rfl
    rw [hdiv]
    have hY1 : (1 : Rat) ≤ (y : Rat) := by simpa using Rat.intCast_le_intCast.mpr (show 1 ≤ y by omega)
    generalize (y : Rat) = Y at *
    have hp0 : 0 < Y / 65536000000 := by grind
    obtain ⟨_, b2⟩ := absR_eq (Y / 65536000000)
    have b2' := b2 (by grind)
    obtain ⟨r, hr, hrp, _⟩ := round_step (Y / 65536000000) (by grind) (by rw [b2']; grind) (by rw [b2']; grind)
    obtain ⟨r0, r1, r2⟩ := hrp hp0
    rw [hr]
    simp only [isFinite, toRat, true_and]
    constructor <;> grind

/-- Reverse direction, negative frequencies (mirror image). -/
theorem C18_freq_roundtrip_neg (F : Rat) (h1 : F ≤ -(1 / 65536000000)) (h2 : -(1 / 2000) ≤ F) :
    isFinite (freqFromScaledPPM (scaledPPMFromFreq (.fin F))) = true ∧
    (F - toRat (freqFromScaledPPM (scaledPPMFromFreq (.fin F)))) * 65536000000 ≤ 1 / 1000000 ∧
    (toRat (freqFromScaledPPM (scaledPPMFromFreq (.fin F))) - F) * 65536000000 ≤ 1 + 1 / 1000000 := by
  unfold scaledPPMFromFreq freqFromScaledPPM
  rw [C18_scale_exact]
  have hmul : F64.mul (.fin F) (.fin 65536000000) = roundNE (F * 65536000000) := rfl
  rw [hmul]
  have hq0 : F * 65536000000 < 0 := by grind
  obtain ⟨a1, _⟩ := absR_eq (F * 65536000000)
  have a1' := a1 hq0
  obtain ⟨g, hg, _, hgn⟩ := round_step (F * 65536000000) (by grind) (by rw [a1']; grind) (by rw [a1']; grind)
  obtain ⟨g0, g1, g2⟩ := hgn hq0
  rw [hg]
  unfold toInt64
  simp only [g0, if_true]
  have f1 := Rat.floor_le (-g)
  have f2 := Rat.lt_floor_add_one (-g)
  have f2' : -g < ((-g).floor : Rat) + 1 := by
    have : (((-g).floor + 1 : Int) : Rat) = ((-g).floor : Rat) + 1 := by simp [Rat.intCast_add]
    rw [this] at f2; exact f2
  have hfl0 : 0 ≤ (-g).floor := Rat.le_floor_iff.mpr (by simp; grind)
  have hfl1 : (-g).floor < 32768002 := Rat.floor_lt_iff.mpr (by simp; grind)
  rw [if_neg (by omega)]
  generalize hY : (-g).floor = w at *
  by_cases hy : w = 0
  · subst hy
    have : (-(0 : Int)) = 0 := rfl
    rw [this, ofInt_zero]
    have : F64.div (.zero false) (.fin 65536000000) = .zero (false != decide ((65536000000 : Rat) < 0)) := rfl
    rw [this]
    simp only [isFinite, toRat, true_and]
    have : ((0 : Int) : Rat) = 0 := rfl
    constructor <;> grind
  · rw [ofInt_exact (-w) (by omega) (by omega) (by omega)]
    have hdiv : F64.div (.fin ((-w : Int) : Rat)) (.fin 65536000000) = roundNE (((-w : Int) : Rat) / 65536000000) := rfl
    rw [hdiv]
    have hW1 : (1 : Rat) ≤ (w : Rat) := by simpa using Rat.intCast_le_intCast.mpr (show 1 ≤ w by omega)
    have hneg : ((-w : Int) : Rat) = -(w : Rat) := by simp [Rat.intCast_neg]
    rw [hneg]
    generalize (w : Rat) = W at *
    have hp0 : -W / 65536000000 < 0 := by grind
    obtain ⟨b1, _⟩ := absR_eq (-W / 65536000000)
    have b1' := b1 hp0
    obtain ⟨r, hr, _, hrn⟩ := round_step (-W / 65536000000) (by grind) (by rw [b1']; grind) (by rw [b1']; grind)
    obtain ⟨r0, r1, r2⟩ := hrn hp0
    rw [hr]
    simp only [isFinite, toRat, true_and]
    constructor <;> grind

/-- Zero round-trips to zero (the sign of `-0` is dropped by the integer conversion). -/
theorem C18_freq_roundtrip_zero (b : Bool) :
    freqFromScaledPPM (scaledPPMFromFreq (.zero b)) = .zero false := by
  unfold scaledPPMFromFreq freqFromScaledPPM
  rw [C18_scale_exact]
  have h1 : F64.mul (.zero b) (.fin 65536000000) = .zero (b != decide ((65536000000 : Rat) < 0)) := rfl
  rw [h1]
  have h2 : toInt64 (.zero (b != decide ((65536000000 : Rat) < 0))) = 0 := rfl
  rw [h2, ofInt_zero]
  have h3 : F64.div (.zero false) (.fin 65536000000) = .zero (false != decide ((65536000000 : Rat) < 0)) := rfl
  rw [h3]
  have : decide ((65536000000 : Rat) < 0) = false := by simp; grind
  rw [this]; rfl

end ScionTime.C18

namespace ScionTime.C18
open ScionTime.F64 ScionTime.FreqDrift

/-- Below one unit (positive): the result is 0 or one unit; the error stays within one unit. -/
theorem C18_freq_roundtrip_pos_small (F : Rat) (h1 : 0 < F) (h2 : F < 1 / 65536000000) :
    isFinite (freqFromScaledPPM (scaledPPMFromFreq (.fin F))) = true ∧
    (toRat (freqFromScaledPPM (scaledPPMFromFreq (.fin F))) - F) * 65536000000 ≤ 1 + 1 / 1000000 ∧
    (F - toRat (freqFromScaledPPM (scaledPPMFromFreq (.fin F)))) * 65536000000 ≤ 1 + 1 / 1000000 := by
  unfold scaledPPMFromFreq freqFromScaledPPM
  rw [C18_scale_exact]
  have hmul : F64.mul (.fin F) (.fin 65536000000) = roundNE (F * 65536000000) := rfl
  rw [hmul]
  have hzero : F64.div (ofInt 0) (.fin 65536000000) = .zero false := by
    rw [ofInt_zero]
    have : F64.div (.zero false) (.fin 65536000000) = .zero (false != decide ((65536000000 : Rat) < 0)) := rfl
    rw [this]
    have : decide ((65536000000 : Rat) < 0) = false := by rw [decide_eq_false_iff_not]; grind
    rw [this]; rfl
  rcases roundNE_small_pos (F * 65536000000) (by grind) (by grind) with hz | ⟨v, hv, v0, v1⟩
  · rw [hz]
    have : toInt64 (.zero false) = 0 := rfl
    rw [this, hzero]
    simp only [isFinite, toRat, true_and]
    constructor <;> grind
  · rw [hv]
    unfold toInt64
    have hvn : ¬ v < 0 := by grind
    simp only [hvn, if_false]
    have hfl0 : 0 ≤ v.floor := Rat.le_floor_iff.mpr (by simpa using Rat.le_of_lt v0)
    have hfl1 : v.floor < 2 := Rat.floor_lt_iff.mpr (by simp; grind)
    rw [if_neg (by omega)]
    generalize v.floor = y at *
    have hy : y = 0 ∨ y = 1 := by omega
    rcases hy with rfl | rfl
    · rw [hzero]
      simp only [isFinite, toRat, true_and]
      constructor <;> grind
    · rw [ofInt_exact 1 (by decide) (by decide) (by decide)]
      have hdiv : F64.div (.fin ((1 : Int) : Rat)) (.fin 65536000000) = roundNE (((1 : Int) : Rat) / 65536000000) := rfl
      rw [hdiv]
      have h1c : ((1 : Int) : Rat) = 1 := rfl
      rw [h1c]
      obtain ⟨_, b2⟩ := absR_eq ((1 : Rat) / 65536000000)
      have b2' := b2 (by grind)
      obtain ⟨r, hr, hrp, _⟩ := round_step ((1 : Rat) / 65536000000) (by grind) (by rw [b2']; grind) (by rw [b2']; grind)
      obtain ⟨r0, r1, r2⟩ := hrp (by grind)
      rw [hr]
      simp only [isFinite, toRat, true_and]
      constructor <;> grind

/-- Below one unit (negative). -/
theorem C18_freq_roundtrip_neg_small (F : Rat) (h1 : F < 0) (h2 : -(1 / 65536000000) < F) :
    isFinite (freqFromScaledPPM (scaledPPMFromFreq (.fin F))) = true ∧
    (toRat (freqFromScaledPPM (scaledPPMFromFreq (.fin F))) - F) * 65536000000 ≤ 1 + 1 / 1000000 ∧
    (F - toRat (freqFromScaledPPM (scaledPPMFromFreq (.fin F)))) * 65536000000 ≤ 1 + 1 / 1000000 := by
  unfold scaledPPMFromFreq freqFromScaledPPM
  rw [C18_scale_exact]
  have hmul : F64.mul (.fin F) (.fin 65536000000) = roundNE (F * 65536000000) := rfl
  rw [hmul]
  have hzero : F64.div (ofInt 0) (.fin 65536000000) = .zero false := by
    rw [ofInt_zero]
    have : F64.div (.zero false) (.fin 65536000000) = .zero (false != decide ((65536000000 : Rat) < 0)) := rfl
    rw [this]
    have : decide ((65536000000 : Rat) < 0) = false := by rw [decide_eq_false_iff_not]; grind
    rw [this]; rfl
  rcases roundNE_small_neg (F * 65536000000) (by grind) (by grind) with hz | ⟨v, hv, v0, v1⟩
  · rw [hz]
    have : toInt64 (.zero true) = 0 := rfl
    rw [this, hzero]
    simp only [isFinite, toRat, true_and]
    constructor <;> grind
  · rw [hv]
    unfold toInt64
    simp only [v0, if_true]
    have hfl0 : 0 ≤ (-v).floor := Rat.le_floor_iff.mpr (by simp; grind)
    have hfl1 : (-v).floor < 2 := Rat.floor_lt_iff.mpr (by simp; grind)
    rw [if_neg (by omega)]
    generalize (-v).floor = w at *
    have hw : w = 0 ∨ w = 1 := by omega
    rcases hw with rfl | rfl
    · have : (-(0 : Int)) = 0 := rfl
      rw [this, hzero]
      simp only [isFinite, toRat, true_and]
      constructor <;> grind
    · rw [ofInt_exact (-1) (by decide) (by decide) (by decide)]
      have hdiv : F64.div (.fin ((-1 : Int) : Rat)) (.fin 65536000000) = roundNE (((-1 : Int) : Rat) / 65536000000) := rfl
      rw [hdiv]
      have h1c : ((-1 : Int) : Rat) = -1 := rfl
      rw [h1c]
      obtain ⟨b1, _⟩ := absR_eq ((-1 : Rat) / 65536000000)
      have b1' := b1 (by grind)
      obtain ⟨r, hr, _, hrn⟩ := round_step ((-1 : Rat) / 65536000000) (by grind) (by rw [b1']; grind) (by rw [b1']; grind)
      obtain ⟨r0, r1, r2⟩ := hrn (by grind)
      rw [hr]
      simp only [isFinite, toRat, true_and]
      constructor <;> grind

/-- freq_roundtrip (full): for every double `f` (finite, given by its rational value `F`, or a
    zero) with `|f| ≤ 500 ppm`, `FreqFromScaledPPM (ScaledPPMFromFreq f)` is finite and differs
    from `f` by at most one scaled-ppm unit (1/65536e6) plus 10^-6 of a unit of rounding. -/
theorem C18_freq_roundtrip (F : Rat) (h1 : -(1 / 2000) ≤ F) (h2 : F ≤ 1 / 2000) (h0 : F ≠ 0) :
    isFinite (freqFromScaledPPM (scaledPPMFromFreq (.fin F))) = true ∧
    (toRat (freqFromScaledPPM (scaledPPMFromFreq (.fin F))) - F) * 65536000000 ≤ 1 + 1 / 1000000 ∧
    (F - toRat (freqFromScaledPPM (scaledPPMFromFreq (.fin F)))) * 65536000000 ≤ 1 + 1 / 1000000 := by
  by_cases hp : 0 < F
  · by_cases hs : F < 1 / 65536000000
    · exact C18_freq_roundtrip_pos_small F hp hs
    · obtain ⟨a, b, c⟩ := C18_freq_roundtrip_pos F (by grind) h2
      exact ⟨a, by grind, c⟩
  · have hn : F < 0 := by grind
    by_cases hs : -(1 / 65536000000) < F
    · exact C18_freq_roundtrip_neg_small F hn hs
    · obtain ⟨a, b, c⟩ := C18_freq_roundtrip_neg F (by grind) h1
      exact ⟨a, c, by grind⟩

end ScionTime.C18

namespace ScionTime.C18
open ScionTime.F64 ScionTime.FreqDrift

/-- The same in terms of the constructor argument: a clock created with
    `NewSystemClock(log, dr)` for a drift of `1 ns/s ≤ dr ≤ 1 s/s` allows, over an interval
    `0 < d < 2^61` ns, `d·dr/10^9` ns up to truncation and a relative error of `2^-49`. -/
theorem C18_drift_of_clock (dr d : Int) (hdr1 : 1 ≤ dr) (hdr2 : dr ≤ 1000000000)
    (hd : 0 < d) (hd2 : d < 2305843009213693952) :
    ((drift (clockDrift dr) d : Int) : Rat) ≤
        (d : Rat) * dr / 1000000000 + (d : Rat) * dr / 1000000000 / 562949953421312 ∧
    (d : Rat) * dr / 1000000000 - (d : Rat) * dr / 1000000000 / 562949953421312 - 1 <
        ((drift (clockDrift dr) d : Int) : Rat) := by
  obtain ⟨s, hs, s0, s1, s2⟩ := durationSeconds_pos dr (by omega) (by omega)
  have hDR1 : (1 : Rat) ≤ (dr : Rat) := by simpa using Rat.intCast_le_intCast.mpr hdr1
  have hDR2 : (dr : Rat) ≤ 1000000000 := by simpa using Rat.intCast_le_intCast.mpr hdr2
  have hD1 : (1 : Rat) ≤ (d : Rat) := by simpa using Rat.intCast_le_intCast.mpr (show 1 ≤ d by omega)
  have hD2 : (d : Rat) ≤ 2305843009213693952 := by
    simpa using Rat.intCast_le_intCast.mpr (show d ≤ 2305843009213693952 by omega)
  have hD0 : (0 : Rat) ≤ (d : Rat) := by grind
  unfold clockDrift
  rw [hs]
  -- s is within [2^-30, 1024] and d·s ≤ 2^62
  have hs_lo : 1 / 1073741824 ≤ s := by grind
  have hs_hi : s ≤ 1024 := by grind
  have hs_le : s ≤ 2 := by grind
  have hE : (d : Rat) * s ≤ 4611686018427387904 := by
    have := Rat.mul_le_mul_of_nonneg_left hs_le hD0
    grind
  obtain ⟨t1, t2⟩ := C18_drift_proportional s d hd (by omega) hs_lo hs_hi hE
  -- d·s versus d·dr/10^9
  have k1 := Rat.mul_le_mul_of_nonneg_left s1 hD0
  have k2 := Rat.mul_le_mul_of_nonneg_left s2 hD0
  have e1 : (d : Rat) * ((s * 1000000000 - (dr : Rat)) * 9007199254740992)
      = ((d : Rat) * s * 1000000000 - (d : Rat) * dr) * 9007199254740992 := by grind
  have e2 : (d : Rat) * (((dr : Rat) - s * 1000000000) * 9007199254740992)
      = ((d : Rat) * dr - (d : Rat) * s * 1000000000) * 9007199254740992 := by grind
  have e3 : (d : Rat) * (3 * (dr : Rat)) = 3 * ((d : Rat) * dr) := by grind
  rw [e1, e3] at k1
  rw [e2, e3] at k2
  have hpos : 0 ≤ (d : Rat) * dr := by
    have := Rat.mul_le_mul_of_nonneg_left (show (0 : Rat) ≤ (dr : Rat) by grind) hD0
    grind
  generalize ((drift (.fin s) d : Int) : Rat) = T at *
  generalize (d : Rat) * s = DS at *
  generalize (d : Rat) * dr = DD at *
  constructor <;> grind

/-- e.g. `NewSystemClock(log, 10*time.Microsecond)` (10 ppm) over 64 s. -/
example : (1 : Int) ≤ 10000 ∧ (10000 : Int) ≤ 1000000000 ∧ (0 : Int) < 64000000000 ∧
    (64000000000 : Int) < 2305843009213693952 := by decide

end ScionTime.C18
