/-
  C18 (floating-point clauses) — frequency <-> scaled-ppm conversion round-trips to within
  one unit in the last place; the drift allowance is proportional to the interval.
  Model: ScionTime/Model/UnixutilFloat.lean over the software double Model/F64.lean;
  rounding lemmas: ScionTime/Proofs/F64.lean.
-/
import ScionTime.Model.UnixutilFloat
import ScionTime.Proofs.F64
import ScionTime.Proofs.C18Float
import ScionTime.Gen.Unixutil
namespace ScionTime.C18Float
open ScionTime.F64 ScionTime.UnixutilFloat

/-! ### scaled ppm -> frequency -> scaled ppm -/

/-- C18: `ScaledPPMFromFreq (FreqFromScaledPPM x)` is within one unit of `x`, for
    `|x| ≤ 2^51` (the kernel's range `|x| ≤ 32768000` included; see the corollary). -/
theorem C18_scaledppm_roundtrip (x : Int) (h : x.natAbs ≤ 2 ^ 51) :
    (scaledPPMFromFreq (freqFromScaledPPM x) - x).natAbs ≤ 1 := by
  unfold scaledPPMFromFreq freqFromScaledPPM
  rw [scaleF_eq]
  by_cases h0 : x = 0
  · subst h0; rw [ofInt_zero]; simp [div, mul, toInt64]
  · rw [ofInt_exact h0 (by omega)]
    obtain ⟨hx1, hx2⟩ := intCast_bounds h
    have hx0 := one_le_abs_intCast h0
    simp only [Int.cast_ofNat_Int, Nat.reducePow, Rat.intCast_ofNat] at hx1 hx2
    -- first rounding: the quotient is a normal number
    have hq1 : pow2 (-37) ≤ ((x : Rat) / 65536000000).abs := by
      rw [pow2_m37]; simp only [Rat.abs] at hx0 ⊢; grind
    have hq1' : ((x : Rat) / 65536000000).abs ≤ maxFin := by
      refine Rat.le_trans ?_ (pow2_le_maxFin (K := 53) (by decide))
      rw [pow2_53_lit]; simp only [Rat.abs]; grind
    have hfin1 := roundNE_fin (Rat.le_trans (pow2_mono (by decide)) hq1) hq1'
    have e1 := rnd_err_rel (Rat.le_trans (pow2_mono (by decide)) hq1)
    rw [pow2_53_lit] at e1
    simp only [div, mul]
    rw [hfin1]
    generalize rnd ((x : Rat) / 65536000000) = f at *
    -- second rounding
    have e2 := rnd_err_gen (f * 65536000000)
    rw [pow2_53_lit] at e2
    have e2' := Rat.le_trans e2 (Rat.add_le_add_left.2 eta_le)
    obtain ⟨hr, hq2⟩ := rt_arith hx1 hx2 e1 e2'
    have hq2' : (f * 65536000000).abs ≤ maxFin := by
      refine Rat.le_trans hq2 (Rat.le_trans ?_ (pow2_le_maxFin (K := 53) (by decide)))
      rw [pow2_53_lit]; grind
    have hval := toRat_roundNE_of_le hq2'
    have hfin := isFinite_roundNE_of_le hq2'
    generalize rnd (f * 65536000000) = r at *
    rw [toInt64_eq_trunc hfin (by rw [hval, pow2_63_lit]; rw [abs_lt_iff] at hr; grind)
      (by rw [hval, pow2_63_lit]; rw [abs_lt_iff] at hr; grind), hval]
    exact trunc_near hr

/-- the kernel's range: ±500 ppm = ±32 768 000 scaled units -/
theorem C18_scaledppm_roundtrip_kernel (x : Int) (h1 : -32768000 ≤ x) (h2 : x ≤ 32768000) :
    x - 1 ≤ scaledPPMFromFreq (freqFromScaledPPM x) ∧
    scaledPPMFromFreq (freqFromScaledPPM x) ≤ x + 1 := by
  have := C18_scaledppm_roundtrip x (by omega)
  omega

example : (32768000 : Int).natAbs ≤ 2 ^ 51 := by decide

end ScionTime.C18Float
