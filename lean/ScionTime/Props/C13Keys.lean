/-
  C13Keys — which DRKey the SCION listener and client authenticate with, over time.
  Model: ScionTime/Model/DrkeyFetch.lean (NewDaemonConnector, scion.FetchHostASKey,
  Fetcher.FetchHostASKey with its per-AS cache, FetchHostHostKey, DeriveHostHostKey as an
  oracle, the two call sites). C13's decision logic (Props/C13.lean, Model/ScionSrv.lean) takes
  "the host-to-host key" as given; here it is shown which key that is at a validity instant `t`,
  for all call histories and all daemon behaviours.

  What the code guarantees is less than "never an expired key": on a cache miss the Fetcher
  stores and returns whatever the connector answers *without looking at its epoch or identity*.
  So the validity statement is proved for every *honest* connector (one that answers a request
  for (identity, t) with a key of that identity whose epoch contains t, or with an error) —
  `C13_fetch_key_valid_at_instant` — and the gap is stated exactly
  (`C13_fetch_step_exact`, `C13_fetch_does_not_check_fetched_key`). That the connector the
  Fetcher gets from `NewDaemonConnector` *is* the SCION daemon's own (no layer in between that
  could answer from state of its own) is the pinned fact `C13_pin_daemon_connector`, and is
  executed on every run against a stand-in gRPC daemon with rotating epochs (harness c13fk).
-/
import ScionTime.Proofs.DrkeyFetch
import ScionTime.Gen.Scion
import ScionTime.Gen.Server
import ScionTime.Gen.Client
namespace ScionTime.C13Keys
open ScionTime.Drkey

/-! ### Pins -/

set_option maxRecDepth 100000 in
/-- `NewDaemonConnector` returns `nil`, `nil` or the value of `daemon.Service.Connect` itself,
    and package net/scion declares no type with `DRKeyGet…` methods (no connector of its own
    that could sit between the Fetcher and the daemon); `scion.FetchHostASKey` is a nil check
    followed by the daemon call with the caller's meta. -/
theorem C13_pin_daemon_connector :
    Gen.Scion.daemonConnectorReturns = ["nil", "nil", "c"] ∧
    Gen.Scion.daemonConnectorSource = "s.Connect(ctx)" ∧
    Gen.Scion.connectorImpls = [] ∧
    Gen.Scion.fetchHostASKeyBody = "if dc == nil; return dc.DRKeyGetHostASKey(ctx, meta)" := by decide

set_option maxRecDepth 100000 in
/-- The cache of `Fetcher.FetchHostASKey`: looked up under `meta.DstIA`, stored under the
    *returned key's* `DstIA`, refetch condition and expiry test as modelled (`stale`);
    `FetchHostHostKey` does not touch the cache; the mock epochs are now ∓ 6 h. -/
theorem C13_pin_fetcher :
    Gen.Scion.fetcherLookupKey = "meta.DstIA" ∧ Gen.Scion.fetcherStoreKey = "hak.DstIA" ∧
    Gen.Scion.fetcherRefetchCond =
      "!ok || expired || hak.ProtoId != meta.ProtoId || hak.SrcIA != meta.SrcIA || hak.DstIA != meta.DstIA || hak.SrcHost != meta.SrcHost" ∧
    Gen.Scion.fetcherExpiredDef = "ok && !hak.Epoch.Contains(meta.Validity)" ∧
    Gen.Scion.fetcherHostHostUsesCache = false ∧
    Gen.Scion.fetcherMockOffsetsNs =
      [-mockHalfValidityNs, mockHalfValidityNs, -mockHalfValidityNs, mockHalfValidityNs] ∧
    Gen.Scion.DRKeyProtocolTS = (protocolTS : Int) := by decide

set_option maxRecDepth 100000 in
/-- The call sites: the listener asks for (TS, validity = receive time, fast side = the
    addressed AS and host, slow side = the sender's AS) and derives for the sender's host; the
    client asks for (TS, validity = transmit time, fast side = the server, slow side = itself). -/
theorem C13_pin_call_sites :
    Gen.Server.scionServerHostASMeta =
      "ProtoId:scion.DRKeyProtocolTS;Validity:rxt;SrcIA:scionLayer.DstIA;DstIA:scionLayer.SrcIA;SrcHost:dstAddr.String()" ∧
    Gen.Server.scionServerDeriveArgs = "hostASKey, srcAddr.String()" ∧
    Gen.Client.scionClientHostHostMeta =
      "ProtoId:scion.DRKeyProtocolTS;Validity:cTxTime0;SrcIA:remoteAddr.IA;DstIA:localAddr.IA;SrcHost:remoteAddr.Host.IP.String();DstHost:localAddr.Host.IP.String()" := by
  decide

/-! ### One call, exactly -/

/-- **What one `FetchHostASKey` call does (real keys), for every state, request and answer.**
    Either the cache holds, under the asked remote AS, a key of exactly the asked identity whose
    epoch contains the asked instant: that key is returned, nothing changes, the daemon is not
    asked. Or the connector is asked (a nil connector: error) with this very request, and
    — an error: the error is returned and **nothing is stored**;
    — a key: it is returned **as it is** and stored under **its own** remote AS, replacing what
      was there; no check of its epoch or identity is made. -/
theorem C13_fetch_step_exact (cfg : Cfg) (hm : cfg.mock = false) (f : Fetcher) (m : HostASMeta) (now : Int)
    (ans : Option HostASKey) :
    let r := f.fetchHostAS cfg m now ans
    (∃ k, f.lookup m.id.dstIA = some k ∧ k.id = m.id ∧ k.epoch.contains m.validity = true ∧
        r.out = some k ∧ r.fetcher = f ∧ r.asked = false) ∨
    (stale (f.lookup m.id.dstIA) m = true ∧ r.asked = decide (cfg.dc = .daemon) ∧
      ((r.out = none ∧ r.fetcher = f ∧ (cfg.dc = .nil ∨ ans = none)) ∨
       (∃ k, cfg.dc = .daemon ∧ ans = some k ∧ r.out = some k ∧ r.fetcher = f.insert k.id.dstIA k))) := by
  intro r
  by_cases hs : stale (f.lookup m.id.dstIA) m = false
  · obtain ⟨k, hk, hid, hc⟩ := (stale_false_iff _ _).mp hs
    have hs2 := hs
    rw [hk] at hs2
    refine .inl ⟨k, hk, hid, hc, ?_, ?_, ?_⟩ <;> simp [r, Fetcher.fetchHostAS, hk, hs2]
  · have hs' : stale (f.lookup m.id.dstIA) m = true := by simpa using hs
    refine .inr ⟨hs', ?_⟩
    cases hdc : cfg.dc with
    | nil =>
      simp [r, Fetcher.fetchHostAS, hs', hm, connectorFetch, hdc]
    | daemon =>
      cases ans with
      | none => simp [r, Fetcher.fetchHostAS, hs', hm, connectorFetch, hdc]
      | some k => simp [r, Fetcher.fetchHostAS, hs', hm, connectorFetch, hdc]

/-- **Errors are not cached**: a failed call leaves the Fetcher as it was, and the next call
    for the same request goes to the connector again (whatever it answered before). -/
theorem C13_fetch_error_not_cached (cfg : Cfg) (hm : cfg.mock = false) (f : Fetcher) (m : HostASMeta)
    (now now' : Int) (ans ans' : Option HostASKey) (herr : (f.fetchHostAS cfg m now ans).out = none) :
    (f.fetchHostAS cfg m now ans).fetcher = f ∧
    ((f.fetchHostAS cfg m now ans).fetcher.fetchHostAS cfg m now' ans').asked = decide (cfg.dc = .daemon) ∧
    ((f.fetchHostAS cfg m now ans).fetcher.fetchHostAS cfg m now' ans').out = (connectorFetch cfg.dc ans').1 := by
  have h1 := C13_fetch_step_exact cfg hm f m now ans
  simp only at h1
  rcases h1 with ⟨k, _, _, _, ho, _, _⟩ | ⟨hs, _, h⟩
  · rw [ho] at herr; cases herr
  · have hf : (f.fetchHostAS cfg m now ans).fetcher = f := by
      rcases h with ⟨_, hf, _⟩ | ⟨k, _, _, ho, _⟩
      · exact hf
      · rw [ho] at herr; cases herr
    rw [hf]
    refine ⟨rfl, ?_, ?_⟩
    · have h2 := C13_fetch_step_exact cfg hm f m now' ans'
      simp only at h2
      rcases h2 with ⟨k, hk, hid, hc, _⟩ | ⟨_, ha, _⟩
      · have := (stale_false_iff _ _).mpr ⟨k, hk, hid, hc⟩
        rw [this] at hs; cases hs
      · exact ha
    · cases hdc : cfg.dc <;> cases ans' <;> simp [Fetcher.fetchHostAS, hs, hm, connectorFetch, hdc]

/-- **The cache never serves a key of another identity, nor an expired one**: whenever a call
    is answered without asking the daemon (real keys, a daemon connector present), the key has
    exactly the asked protocol, local AS, remote AS and local host, and its epoch contains the
    asked instant. -/
theorem C13_fetch_hit_identity (cfg : Cfg) (hm : cfg.mock = false) (hdc : cfg.dc = .daemon)
    (f : Fetcher) (m : HostASMeta) (now : Int) (ans : Option HostASKey) (k : HostASKey)
    (hout : (f.fetchHostAS cfg m now ans).out = some k) (hna : (f.fetchHostAS cfg m now ans).asked = false) :
    k.id = m.id ∧ k.epoch.contains m.validity = true ∧ f.lookup m.id.dstIA = some k := by
  have h1 := C13_fetch_step_exact cfg hm f m now ans
  simp only at h1
  rcases h1 with ⟨k', hk, hid, hc, ho, _, _⟩ | ⟨_, ha, _⟩
  · rw [ho] at hout; cases hout; exact ⟨hid, hc, hk⟩
  · rw [hna, hdc] at ha; simp at ha

/-- **Replacement rule**: a call changes at most the entry of one remote AS — the one of the key
    it obtained; every other AS's cached key stays. -/
theorem C13_fetch_other_ias_untouched (cfg : Cfg) (hm : cfg.mock = false) (f : Fetcher) (m : HostASMeta)
    (now : Int) (ans : Option HostASKey) :
    let r := f.fetchHostAS cfg m now ans
    (r.fetcher = f) ∨
    (∃ k, r.out = some k ∧ r.fetcher.lookup k.id.dstIA = some k ∧
      ∀ a, a ≠ k.id.dstIA → r.fetcher.lookup a = f.lookup a) := by
  intro r
  have h1 := C13_fetch_step_exact cfg hm f m now ans
  simp only at h1
  rcases h1 with ⟨_, _, _, _, _, hf, _⟩ | ⟨_, _, h⟩
  · exact .inl hf
  · rcases h with ⟨_, hf, _⟩ | ⟨k, _, _, ho, hf⟩
    · exact .inl hf
    · refine .inr ⟨k, ho, ?_, ?_⟩
      · show (f.fetchHostAS cfg m now ans).fetcher.lookup _ = _
        rw [hf]; exact lookup_insert_same _ _ _
      · intro a ha
        show (f.fetchHostAS cfg m now ans).fetcher.lookup _ = _
        rw [hf]; exact lookup_insert_other _ _ _ _ ha

/-! ### Histories -/

/-- the connector's answer to a call is *honest*: an error, or a key of the asked identity whose
    epoch contains the asked validity instant -/
def Honest (c : Call) : Prop :=
  ∀ k, c.ans = some k → k.id = c.m.id ∧ k.epoch.contains c.m.validity = true

/-- General induction principle for histories: a property `I` of keys that holds for every
    cached key at the start and for every key the connector hands out holds for every key any
    call returns, and for every cached key afterwards. -/
theorem C13_fetch_history_invariant (cfg : Cfg) (hm : cfg.mock = false) (I : HostASKey → Prop) (cs : List Call)
    (hans : ∀ c ∈ cs, ∀ k, c.ans = some k → I k) :
    ∀ f : Fetcher, (∀ e ∈ f.haks, I e.2) →
      (∀ r ∈ (runCalls cfg f cs).2, ∀ k, r.out = some k → I k) ∧
      (∀ e ∈ (runCalls cfg f cs).1.haks, I e.2) := by
  induction cs with
  | nil => intro f hf; exact ⟨by simp [runCalls], hf⟩
  | cons c cs ih =>
    intro f hf
    have hstep := C13_fetch_step_exact cfg hm f c.m c.now c.ans
    simp only at hstep
    have hnext : ∀ e ∈ (f.fetchHostAS cfg c.m c.now c.ans).fetcher.haks, I e.2 := by
      rcases hstep with ⟨_, _, _, _, _, hfe, _⟩ | ⟨_, _, h⟩
      · rw [hfe]; exact hf
      · rcases h with ⟨_, hfe, _⟩ | ⟨k, _, hk, _, hfe⟩
        · rw [hfe]; exact hf
        · rw [hfe]
          intro e he
          rcases mem_insert he with rfl | ⟨he', _⟩
          · exact hans c (List.mem_cons_self) k hk
          · exact hf e he'
    have hout : ∀ k, (f.fetchHostAS cfg c.m c.now c.ans).out = some k → I k := by
      intro k hk
      rcases hstep with ⟨k', hl, _, _, ho, _, _⟩ | ⟨_, _, h⟩
      · rw [ho] at hk; cases hk
        exact hf _ (lookup_mem hl)
      · rcases h with ⟨ho, _, _⟩ | ⟨k', _, hk', ho, _⟩
        · rw [ho] at hk; cases hk
        · rw [ho] at hk; cases hk
          exact hans c (List.mem_cons_self) k hk'
    obtain ⟨ih1, ih2⟩ := ih (fun c' hc' => hans c' (List.mem_cons_of_mem _ hc')) _ hnext
    simp only [runCalls]
    refine ⟨?_, ih2⟩
    intro r hr
    rcases List.mem_cons.mp hr with rfl | hr
    · exact hout
    · exact ih1 r hr

/-- **The key used at instant t was issued for an epoch containing t.** For every history of
    `FetchHostASKey` calls on one Fetcher (real keys, starting empty) against a connector whose
    answers are honest — however they vary from call to call, errors included —, every key a
    call returns has exactly the identity asked for in *that* call (protocol, local AS, remote
    AS, local host), an epoch that contains *that* call's validity instant, and is a key the
    connector issued in this history. -/
theorem C13_fetch_key_valid_at_instant (cfg : Cfg) (hm : cfg.mock = false) (cs : List Call)
    (hh : ∀ c ∈ cs, Honest c) :
    ∀ p ∈ cs.zip (runCalls cfg {} cs).2, ∀ k, p.2.out = some k →
      k.id = p.1.m.id ∧ k.epoch.contains p.1.m.validity = true ∧ ∃ c ∈ cs, c.ans = some k := by
  -- the pairing is handled by a second induction carrying the set of issued keys
  have issued := (C13_fetch_history_invariant cfg hm (fun k => ∃ c ∈ cs, c.ans = some k) cs
    (fun c hc k hk => ⟨c, hc, hk⟩) {} (by simp)).1
  have valid : ∀ (cs' : List Call), (∀ c ∈ cs', Honest c) → ∀ f : Fetcher,
      ∀ p ∈ cs'.zip (runCalls cfg f cs').2, ∀ k, p.2.out = some k →
        k.id = p.1.m.id ∧ k.epoch.contains p.1.m.validity = true := by
    intro cs'
    induction cs' with
    | nil => intro _ f p hp; simp [runCalls] at hp
    | cons c cs' ih =>
      intro hh' f p hp k hk
      simp only [runCalls, List.zip_cons_cons, List.mem_cons] at hp
      rcases hp with rfl | hp
      · have hstep := C13_fetch_step_exact cfg hm f c.m c.now c.ans
        simp only at hstep hk
        rcases hstep with ⟨k', _, hid, hc, ho, _, _⟩ | ⟨_, _, h⟩
        · rw [ho] at hk; cases hk; exact ⟨hid, hc⟩
        · rcases h with ⟨ho, _, _⟩ | ⟨k', _, hk', ho, _⟩
          · rw [ho] at hk; cases hk
          · rw [ho] at hk; cases hk
            exact hh' c (List.mem_cons_self) k hk'
      · exact ih (fun c' hc' => hh' c' (List.mem_cons_of_mem _ hc')) _ p hp k hk
  intro p hp k hk
  obtain ⟨h1, h2⟩ := valid cs hh {} p hp k hk
  exact ⟨h1, h2, issued p.2 (List.of_mem_zip hp).2 k hk⟩

/-- a history meeting the hypotheses, across an epoch change, with an error in between: the
    second call is served from the cache, the third (next epoch) fails and caches nothing, the
    fourth obtains the new epoch's key -/
def exId : KeyId := ⟨123, 1, 2, "10.0.0.1"⟩
def exK1 : HostASKey := ⟨exId, ⟨0, 99⟩, [1]⟩
def exK2 : HostASKey := ⟨exId, ⟨100, 199⟩, [2]⟩
def exCalls : List Call :=
  [⟨⟨exId, 10⟩, 0, some exK1⟩, ⟨⟨exId, 50⟩, 0, none⟩, ⟨⟨exId, 120⟩, 0, none⟩, ⟨⟨exId, 130⟩, 0, some exK2⟩]

example : (∀ c ∈ exCalls, Honest c) ∧
    ((runCalls {} {} exCalls).2.map fun r => (r.out.map (·.key), r.asked)) =
      [(some [1], true), (some [1], false), (none, true), (some [2], true)] := by
  refine ⟨?_, by decide⟩
  intro c hc k hk
  simp only [exCalls, List.mem_cons, List.not_mem_nil, or_false] at hc
  rcases hc with rfl | rfl | rfl | rfl <;> simp at hk <;> subst hk <;> decide

/-- **The cache is transparent for an epoch-determined daemon.** Let the daemon be any function
    `D` of (identity, validity instant) that is honest and whose keys are determined by the
    epoch (a key issued for one instant is the answer for every instant of its epoch). Then in
    every history every key a call returns is `D`'s answer for that call's own identity and
    instant — cached or not. (This is the assumption under which Model/ScionSrv treats the key
    as a function of the packet alone.) -/
theorem C13_fetcher_transparent (cfg : Cfg) (hm : cfg.mock = false) (D : KeyId → Int → Option HostASKey)
    (hH : ∀ id t k, D id t = some k → k.id = id ∧ k.epoch.contains t = true)
    (hE : ∀ id t k t', D id t = some k → k.epoch.contains t' = true → D id t' = some k)
    (cs : List Call) (hans : ∀ c ∈ cs, c.ans = D c.m.id c.m.validity) :
    ∀ f : Fetcher, (∀ e ∈ f.haks, ∃ t, D e.2.id t = some e.2) →
      ∀ p ∈ cs.zip (runCalls cfg f cs).2, ∀ k, p.2.out = some k → D p.1.m.id p.1.m.validity = some k := by
  induction cs with
  | nil => intro f _ p hp; simp [runCalls] at hp
  | cons c cs ih =>
    intro f hf p hp k hk
    have hstep := C13_fetch_step_exact cfg hm f c.m c.now c.ans
    simp only at hstep
    simp only [runCalls, List.zip_cons_cons, List.mem_cons] at hp
    rcases hp with rfl | hp
    · simp only at hk
      rcases hstep with ⟨k', hl, hid, hc, ho, _, _⟩ | ⟨_, _, h⟩
      · rw [ho] at hk; cases hk
        obtain ⟨t, ht⟩ := hf _ (lookup_mem hl)
        simp only at ht
        rw [← hid]
        exact hE _ _ _ _ ht hc
      · rcases h with ⟨ho, _, _⟩ | ⟨k', _, hk', ho, _⟩
        · rw [ho] at hk; cases hk
        · rw [ho] at hk; cases hk
          rw [← hans c (List.mem_cons_self)]; exact hk'
    · refine ih (fun c' hc' => hans c' (List.mem_cons_of_mem _ hc')) _ ?_ p hp k hk
      rcases hstep with ⟨_, _, _, _, _, hfe, _⟩ | ⟨_, _, h⟩
      · rw [hfe]; exact hf
      · rcases h with ⟨_, hfe, _⟩ | ⟨k', _, hk', _, hfe⟩
        · rw [hfe]; exact hf
        · rw [hfe]
          intro e he
          rcases mem_insert he with rfl | ⟨he', _⟩
          · have := hans c (List.mem_cons_self)
            rw [hk'] at this
            have hid := (hH _ _ _ this.symm).1
            exact ⟨c.m.validity, by simp only; rw [hid]; exact this.symm⟩
          · exact hf e he'

/-- such daemons exist: keys rotate every 100 ns, key = the epoch number -/
def exDaemon (id : KeyId) (t : Int) : Option HostASKey :=
  some ⟨id, ⟨t / 100 * 100, t / 100 * 100 + 99⟩, [(t / 100).toNat]⟩

example : (∀ id t k, exDaemon id t = some k → k.id = id ∧ k.epoch.contains t = true) ∧
    (∀ id t k t', exDaemon id t = some k → k.epoch.contains t' = true → exDaemon id t' = some k) := by
  constructor
  · intro id t k h
    simp only [exDaemon, Option.some.injEq] at h
    subst h
    simp only [Epoch.contains, Bool.and_eq_true, decide_eq_true_eq, true_and]
    omega
  · intro id t k t' h hc
    simp only [exDaemon, Option.some.injEq] at h
    subst h
    simp only [Epoch.contains, Bool.and_eq_true, decide_eq_true_eq] at hc
    have : t' / 100 = t / 100 := by omega
    simp [exDaemon, this]

/-! ### The gap, stated -/

/-- **What the Fetcher does *not* check** (the real code guarantees no more than
    `C13_fetch_step_exact`): a connector that keeps answering with the key it handed out first
    — e.g. a layer that remembers level-2 keys by identity and ignores the validity instant —
    makes the Fetcher use the expired key for good: at instant 150, after the epoch [0, 99] has
    ended, the Fetcher notices that its cached key is expired, asks again, and stores and
    returns the same expired key (and so on at every later call); likewise a key of another
    remote AS is returned for the asked one and stored under its own AS. With the daemon's own
    connector (pinned) the answer is the daemon's for the asked instant. -/
theorem C13_fetch_does_not_check_fetched_key :
    let stale1 : List Call := [⟨⟨exId, 10⟩, 0, some exK1⟩, ⟨⟨exId, 150⟩, 0, some exK1⟩, ⟨⟨exId, 160⟩, 0, some exK1⟩]
    ((runCalls {} {} stale1).2.map fun r => (r.out.map (·.epoch.contains 150), r.asked)) =
      [(some false, true), (some false, true), (some false, true)] ∧
    (let other : HostASKey := ⟨⟨123, 1, 7, "10.0.0.1"⟩, ⟨0, 999⟩, [9]⟩
     let r := ({} : Fetcher).fetchHostAS {} ⟨exId, 10⟩ 0 (some other)
     r.out = some other ∧ r.fetcher.lookup 7 = some other ∧ r.fetcher.lookup 2 = none) := by
  decide

/-! ### The call sites -/

/-- **The listener's key at receive time.** Real keys, honest connector: whenever the listener
    gets a key for an authenticated request received at `rxt`, it is the derivation, for the
    sender's host, of a level-2 key for (time-service protocol, the addressed AS, the sender's AS,
    the addressed host) whose epoch contains `rxt` — taken from the cache (where it sat under the
    sender's AS) or just issued by the connector for exactly this request. A fetch error yields
    `noKey` (then the request is processed unauthenticated, `C13_no_key_served_unauthenticated`),
    never a stale key. -/
theorem C13_listener_key_valid (cfg : Cfg) (hm : cfg.mock = false)
    (derive : HostASKey → String → Option Bytes) (f : Fetcher) (r : ReqInfo) (now : Int)
    (ans : Option HostASKey) (hh : Honest ⟨listenerMeta r, now, ans⟩) (b : Bytes)
    (h : (listenerKey cfg derive f r now ans).2 = .key b) :
    ∃ k : HostASKey, k.id = ⟨protocolTS, r.dstIA, r.srcIA, r.dstHost⟩ ∧ k.epoch.contains r.rxt = true ∧
      derive k r.srcHost = some b ∧ (f.lookup r.srcIA = some k ∨ ans = some k) := by
  unfold listenerKey at h
  have hstep := C13_fetch_step_exact cfg hm f (listenerMeta r) now ans
  simp only at hstep
  cases hout : (f.fetchHostAS cfg (listenerMeta r) now ans).out with
  | none => simp [hout] at h
  | some k =>
    simp only [hout] at h
    cases hd : derive k r.srcHost with
    | none => simp [deriveHostHost, hd] at h
    | some b' =>
      simp only [deriveHostHost, hd, Option.map_some, hm, Bool.false_eq_true, if_false, KeyUse.key.injEq] at h
      subst h
      rcases hstep with ⟨k', hl, hid, hc, ho, _, _⟩ | ⟨_, _, hx⟩
      · rw [ho] at hout; cases hout
        exact ⟨k, hid, hc, hd, .inl hl⟩
      · rcases hx with ⟨ho, _, _⟩ | ⟨k', _, hk', ho, _⟩
        · rw [ho] at hout; cases hout
        · rw [ho] at hout; cases hout
          obtain ⟨h1, h2⟩ := hh k hk'
          exact ⟨k, h1, h2, hd, .inr hk'⟩

example : (listenerKey {} (fun k h => some (k.key ++ [h.length])) {} ⟨2, 1, "10.0.0.9", "10.0.0.1", 10⟩ 0 (some exK1)).2
    = .key [1, 8] := by decide

/-- **The client's key is the daemon's answer, every time**: `FetchHostHostKey` keeps no state —
    with real keys its result is the connector's answer to (identity, transmit time) of this very
    call (an error without a connector). There is nothing that could outlive an epoch. -/
theorem C13_client_key_uncached (cfg : Cfg) (hm : cfg.mock = false) (id : HHId) (now : Int)
    (ans : Option HostHostKey) :
    fetchHostHost cfg id now ans = (match cfg.dc with | .nil => (none, false) | .daemon => (ans, true)) := by
  obtain ⟨mock, dc⟩ := cfg
  simp only at hm
  subst hm
  cases dc <;> rfl

/-- **Mock keys** (`USE_MOCK_KEYS`): the daemon is never asked; a call returns the cached key
    (same identity, epoch containing the instant) or a fresh zero key of the asked identity with
    epoch now ∓ 6 h, stored under the asked remote AS. -/
theorem C13_mock_keys (cfg : Cfg) (hm : cfg.mock = true) (f : Fetcher) (m : HostASMeta) (now : Int)
    (ans : Option HostASKey) :
    let r := f.fetchHostAS cfg m now ans
    r.asked = false ∧ ∃ k, r.out = some k ∧ k.id = m.id ∧
      ((f.lookup m.id.dstIA = some k ∧ k.epoch.contains m.validity = true ∧ r.fetcher = f) ∨
       (k = ⟨m.id, ⟨now - mockHalfValidityNs, now + mockHalfValidityNs⟩, List.replicate 16 0⟩ ∧
        r.fetcher = f.insert m.id.dstIA k)) := by
  intro r
  by_cases hs : stale (f.lookup m.id.dstIA) m = false
  · obtain ⟨k, hk, hid, hc⟩ := (stale_false_iff _ _).mp hs
    have hs2 := hs
    rw [hk] at hs2
    refine ⟨by simp [r, Fetcher.fetchHostAS, hk, hs2], k, by simp [r, Fetcher.fetchHostAS, hk, hs2], hid, .inl ⟨hk, hc, ?_⟩⟩
    simp [r, Fetcher.fetchHostAS, hk, hs2]
  · have hs' : stale (f.lookup m.id.dstIA) m = true := by simpa using hs
    refine ⟨by simp [r, Fetcher.fetchHostAS, hs', hm], _, ?_, rfl, .inr ⟨rfl, ?_⟩⟩ <;>
      simp [r, Fetcher.fetchHostAS, hs', hm]

end ScionTime.C13Keys
