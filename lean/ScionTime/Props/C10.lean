/-
  C10 — NTS authentication is sound: only untampered packets under the right key pass.
  Models: ScionTime/Model/Nts.lean, Cookies.lean. The AEAD is a parameter: soundness theorems say
  *which* key, nonce, ciphertext and associated bytes the code hands to `Open`; completeness
  holds for every AEAD with the round-trip law. That a forged tag does not verify is the AEAD's
  strength — assumed, and tested by the correspondence harness on every mutation.
-/
import ScionTime.Proofs.NtsReply
import ScionTime.Proofs.NtsSound
import ScionTime.Gen.Nts
namespace ScionTime.C10
open ScionTime.Nts

theorem C10_pin_ntpPacketLen : Gen.Nts.ntpPacketLen = (ntpPacketLen : Int) := by decide
theorem C10_pin_extAuthenticator : Gen.Nts.extAuthenticator = (extAuthenticator : Int) := by decide

/-! ### soundness -/

/-- **auth_sound.** A server accepts a request (`ProcessRequest` returns nil) only if the
    authenticator verifies: `Open` succeeded under *the given key* (the C2S key the listener took
    from the cookie), with the nonce and ciphertext the decoder extracted, over *exactly*
    `b[0 : pos]` — all bytes that precede the authenticator field; the key has a valid size, the nonce
    16 bytes, and the unique identifier at least 32 bytes. -/
theorem C10_auth_sound (A : AEAD) (b key : Bytes) (d : Decoded) (cs : List Bytes)
    (h : processRequest A b key d = .ok cs) :
    keyOk key = true ∧ d.nonce.length = 16 ∧ 32 ≤ d.uid.length ∧
      ∃ pt, A.openF key d.nonce d.ct (some (b.take d.pos)) = some pt := by
  unfold processRequest processRequestG at h
  by_cases hu : d.uid.length < 32
  · simp [hu] at h
  · by_cases hr : noRoomForCookie d = true
    · simp [hu, hr] at h
    · simp only [Bool.true_and, hu, decide_false, Bool.false_eq_true, if_false, hr] at h
      obtain ⟨a, b', c⟩ := authenticate_ok A b key d cs h
      exact ⟨a, b', by omega, c⟩

/-- **resp_needs_uid.** A client accepts a response only if its unique identifier equals that
    of the outstanding request *and* the authenticator verifies under the given (S2C) key over
    the bytes preceding it. -/
theorem C10_resp_needs_uid (A : AEAD) (b key : Bytes) (d : Decoded) (reqId : Bytes) (cs : List Bytes)
    (h : processResponse A b key d reqId = .ok cs) :
    d.uid = reqId ∧ keyOk key = true ∧ d.nonce.length = 16 ∧
      ∃ pt, A.openF key d.nonce d.ct (some (b.take d.pos)) = some pt := by
  unfold processResponse processResponseG at h
  by_cases hu : reqId = d.uid
  · simp only [hu, ne_eq, not_true_eq_false, if_false] at h
    exact ⟨hu.symm, authenticate_ok A b key d cs h⟩
  · simp [hu] at h

/-- The position handed to the AEAD really is where the decoder found the authenticator: if
    `DecodePacket` succeeds then `b = pre ++ a` with `pos = |pre| ≥ 48`, `a` starts with the
    authenticator type and the nonce / ciphertext come from `a` (so the associated data `b[:pos]`
    is *everything* before the authenticator, and nothing after `pos` is trusted without the tag). -/
theorem C10_authPos (b : Bytes) (d : Decoded) (h : decodePacket b = .ok d) :
    ∃ pre x y z w body, b = pre ++ x :: y :: z :: w :: body ∧ d.pos = pre.length ∧ ntpPacketLen ≤ pre.length ∧
      b.take d.pos = pre ∧ u16 x y = extAuthenticator ∧ unpackAuth body = .ok (d.nonce, d.ct) := by
  unfold decodePacket decodePacketG at h
  split at h
  · rename_i fu fa d0 hl
    by_cases hfu : fu = true
    · by_cases hfa : fa = true
      · subst hfu hfa
        simp only [Bool.not_true, Bool.false_eq_true, if_false, Res.ok.injEq] at h
        subst h
        obtain ⟨pre, x, y, z, w, body, hr, hp, ht, hu⟩ := decLoop_auth_inv _ _ _ _ _ _ _ hl
        have hlen : ntpPacketLen ≤ b.length := by
          by_cases hc : ntpPacketLen ≤ b.length
          · exact hc
          · have : b.drop ntpPacketLen = [] := List.drop_of_length_le (by omega)
            rw [this] at hr
            cases pre <;> simp at hr
        have htk : (b.take ntpPacketLen).length = ntpPacketLen := by simp; omega
        have hb : b = (b.take ntpPacketLen ++ pre) ++ x :: y :: z :: w :: body := by
          rw [List.append_assoc, ← hr, List.take_append_drop]
        have h48 : ntpPacketLen ≤ (b.take ntpPacketLen ++ pre).length := by
          rw [List.length_append, htk]; omega
        generalize b.take ntpPacketLen ++ pre = pre' at hb h48
        subst hb
        have hpos : d0.pos = pre'.length := by
          rw [hp]; simp
        exact ⟨pre', x, y, z, w, body, rfl, hpos, h48, by rw [hpos]; exact List.take_left' rfl, ht, hu⟩
      · simp [hfu, hfa] at h
    · simp [hfu] at h
  all_goals cases h

/-! ### completeness -/

/-- **auth_complete (requests).** For every AEAD with the round-trip law (and SIV's size law),
    every well-formed request the encoder can produce (identifier ≥ 32 bytes, aligned lengths, a
    first cookie, no encrypted fields, fits `MaxPacketLen`): it decodes, and `ProcessRequest`
    under the key it was sealed with accepts it, returning exactly its cookies. -/
theorem C10_auth_complete_request (A : AEAD) (hl : A.Lawful) (hs : A.Sized) (hdr : Bytes) (p : Packet) (nonce : Bytes)
    (hh : hdr.length = ntpPacketLen) (wf : WellFormed p) (fit : packetLen p ≤ maxPacketLen)
    (hn : nonce.length = 16) (hpt : p.pt = []) (hc : p.cookies ≠ []) :
    ∃ b d, encodePacket A hdr p nonce = .ok b ∧ decodePacket b = .ok d ∧
      processRequest A b p.key d = .ok p.cookies := by
  obtain ⟨b, he0, he, hd⟩ := encode_decode A hs hdr p nonce hh wf fit hn
  refine ⟨b, _, he0, hd, ?_⟩
  have hu : ¬ (p.uid.length < 32) := by have := wf.uid32; omega
  obtain ⟨c, cs, hcs⟩ : ∃ c cs, p.cookies = c :: cs := by
    cases hp : p.cookies with
    | nil => exact absurd hp hc
    | cons c cs => exact ⟨c, cs, rfl⟩
  have hca : c.length % 4 = 0 := wf.cA c (by simp [hcs])
  have hua := wf.uidA
  have hmax : ¬ (maxNumCookies p.uid.length c.length < 1) := by
    unfold packetLen ntpPacketLen maxPacketLen at fit
    rw [hcs] at fit
    simp only [fieldsLen] at fit
    unfold maxNumCookies maxPacketLen ntpPacketLen
    rw [pad4_aligned _ hca, pad4_aligned _ hua]
    have : 4 + c.length ≤ 1024 - 48 - (4 + p.uid.length) - 40 := by omega
    have hpos : 0 < 4 + c.length := by omega
    have := Nat.div_le_div_right (c := 4 + c.length) this
    rw [Nat.div_self hpos] at this
    omega
  unfold processRequest processRequestG authenticateG
  have hk : (!keyOk p.key) = false := by simp [wf.key]
  simp only [Bool.true_and, hu, decide_false, Bool.false_eq_true, if_false, noRoomForCookie, hcs, hmax, hk,
    hn, ne_eq, not_true_eq_false, openC, bind, Res.bind]
  rw [he, List.take_left' rfl, hl]
  simp [hpt, ptLoop]

/-- **auth_complete (responses).** A response as the server builds it — no plain extension
    fields besides the identifier, the fresh cookies packed as cookie fields into the encrypted
    plaintext (aligned, at least 24 bytes each, fitting `MaxPacketLen`) — decodes, and
    `ProcessResponse` under the sealing key and with the request's identifier accepts it and
    recovers exactly the encrypted cookies, in order. -/
theorem C10_auth_complete_response (A : AEAD) (hl : A.Lawful) (hs : A.Sized) (hdr uid key nonce : Bytes) (cs : List Bytes)
    (hh : hdr.length = ntpPacketLen) (hu32 : 32 ≤ uid.length) (hua : uid.length % 4 = 0)
    (hk : keyOk key = true) (hn : nonce.length = 16) (hca : Aligned cs) (hlong : Long cs)
    (fit : ntpPacketLen + (4 + uid.length) + (40 + fieldsLen cs) ≤ maxPacketLen) :
    ∃ b d, encodePacket A hdr ⟨uid, [], [], key, fields extCookie cs⟩ nonce = .ok b ∧ decodePacket b = .ok d ∧
      processResponse A b key d uid = .ok cs := by
  obtain ⟨b, d, h1, h2, _, h3⟩ := response_complete A hl hs hdr uid key nonce cs hh hu32 hua hk hn hca hlong fit
  exact ⟨b, d, h1, h2, h3⟩

/-! ### cookies -/

/-- **cookie_roundtrip.** For every AEAD with the round-trip law: a cookie sealed under a server
    key (valid size, 16-byte nonce; algorithm and key lengths within the 16-bit length fields)
    survives the wire encoding and opens under the same key to exactly the sealed algorithm and
    keys. -/
theorem C10_cookie_roundtrip (A : AEAD) (hl : A.Lawful) (c : Triple) (key nonce : Bytes) (keyid : Nat)
    (hk : keyOk key = true) (hn : nonce.length = 16)
    (hnum : c.num < 65536) (hx : c.x.length < 65536) (hy : c.y.length < 65536)
    (hct : (A.sealF key nonce (scEncode c) none).length < 65536) :
    ∃ ec, encryptCookie A c key keyid nonce = .ok ec ∧ ecDecode (ecEncode ec) = .ok ec ∧
      decryptCookie A ec key = .ok c := by
  have hkn : (!keyOk key) = false := by simp [hk]
  refine ⟨⟨keyid % 65536, nonce, A.sealF key nonce (scEncode c) none⟩, ?_, ?_, ?_⟩
  · simp [encryptCookie, hkn, sealC, hn, bind, Res.bind]
  · exact decodeTLV_encodeTLV true _ _ _ _ (by decide) (by decide) (by decide) (by decide) (by decide) (by decide)
      (Nat.mod_lt _ (by decide)) (by simp [hn]) hct
  · simp only [decryptCookie, decryptCookieG, hkn, Bool.false_eq_true, if_false, hn, ne_eq, not_true_eq_false,
      decide_false, Bool.and_false, openC, hl key nonce (scEncode c) none, bind, Res.bind]
    exact decodeTLV_encodeTLV true _ _ _ c (by decide) (by decide) (by decide) (by decide) (by decide) (by decide) hnum hx hy

/-- A cookie opens only under the key it is presented with: `Decrypt` succeeds only if `Open`
    succeeded under that key on the cookie's own nonce and ciphertext (no associated data), and the
    result is the decoding of that plaintext. -/
theorem C10_cookie_sound (A : AEAD) (ec : Triple) (key : Bytes) (c : Triple)
    (h : decryptCookie A ec key = .ok c) :
    keyOk key = true ∧ ec.x.length = 16 ∧
      ∃ pt, A.openF key ec.x ec.y none = some pt ∧ scDecode pt = .ok c := by
  unfold decryptCookie decryptCookieG at h
  by_cases hk : keyOk key = true
  · by_cases hn : ec.x.length = 16
    · refine ⟨hk, hn, ?_⟩
      simp only [hk, Bool.not_true, Bool.false_eq_true, if_false, hn, ne_eq, not_true_eq_false, decide_false,
        Bool.and_false, openC, bind, Res.bind] at h
      cases ho : A.openF key ec.x ec.y none with
      | some pt => rw [ho] at h; exact ⟨pt, rfl, h⟩
      | none => simp [ho] at h
    · simp [hk, hn] at h
  · simp [hk] at h

/-! ### instances and the pinned commit -/

/-- a toy AEAD satisfying both laws (tag = 16 zero bytes): the hypotheses are satisfiable. -/
def toyAEAD : AEAD where
  sealF _ _ p _ := p ++ zeros 16
  openF _ _ c _ := some (c.take (c.length - 16))

example : toyAEAD.Sized ∧ toyAEAD.Lawful :=
  ⟨by intro k n p ad; simp [toyAEAD], by intro k n p ad; simp [toyAEAD]⟩

def samplePacket : Packet :=
  { uid := zeros 32, cookies := [List.replicate 124 7], placeholders := [zeros 124, zeros 124], key := zeros 32, pt := [] }

set_option maxRecDepth 20000 in
/-- the hypotheses of `C10_auth_complete_request` are met by a packet of the project's shape -/
example : WellFormed samplePacket ∧ packetLen samplePacket ≤ maxPacketLen ∧ samplePacket.pt = [] ∧ samplePacket.cookies ≠ [] := by
  refine ⟨⟨by decide, by decide, ?_, ?_, by decide, by decide⟩, by decide, rfl, by decide⟩
  · intro v hv; simp [samplePacket] at hv; subst hv; decide
  · intro v hv; simp [samplePacket] at hv; subst hv; decide

/-- F16 at the pinned commit, for *every* AEAD: a well-formed cookie whose nonce TLV is empty
    makes `Decrypt` panic inside the library (listener crash); after the fix it is an error. -/
theorem C10_cookie_nonce_length_old (A : AEAD) (ct : Bytes) :
    decryptCookieOld A ⟨1, [], ct⟩ (zeros 32) = .panic .nonceLen ∧
    decryptCookie A ⟨1, [], ct⟩ (zeros 32) = .err .nonceLen := by
  constructor <;> rfl

/-- F16, authenticator: a 15-byte nonce. -/
theorem C10_auth_nonce_length_old (A : AEAD) (b : Bytes) (d : Decoded) (h : d.nonce.length = 15) :
    authenticateG false A b (zeros 32) d = .panic .nonceLen ∧
    authenticateG true A b (zeros 32) d = .err .nonceLen := by
  simp [authenticateG, keyOk, zeros, openC, h, bind, Res.bind]

/-! ### earlier results stay what they were (no shared state between calls) -/

/-- **calls_independent.** In a sequence of `Decrypt` / `Decode` / `ProcessRequest` /
    `ProcessResponse` calls whose results are all looked at after the last call, the i-th result
    is the result of that call alone: it depends only on that call's own arguments (for `Decrypt`:
    key and cookie), not on the calls before or after it. (The model is a pure function, so this is
    what the correspondence op `seq.run` compares the real code against: there, results are
    rendered only after the last call.) -/
theorem C10_calls_independent (A : AEAD) (cs : List Call) (i : Nat) :
    (runCalls A cs)[i]? = (cs[i]?).map (Call.run A) := by
  simp [runCalls]

/-- …in particular inserting or removing other calls around a call does not change its result. -/
theorem C10_calls_frame (A : AEAD) (pre post pre' post' : List Call) (c : Call) :
    (runCalls A (pre ++ c :: post))[pre.length]? = (runCalls A (pre' ++ c :: post'))[pre'.length]? := by
  simp [runCalls]

/-- **cookie_roundtrip_interleaved.** For every lawful AEAD: the cookies of two associations
    (sealed under server keys `keyA`, `keyB`, which may be the same key) opened alternately —
    A, B, A — yield A's, B's and again A's sealed algorithm and keys, all still intact after the
    last call. -/
theorem C10_cookie_roundtrip_interleaved (A : AEAD) (hl : A.Lawful) (cA cB : Triple)
    (keyA keyB nonceA nonceB : Bytes) (idA idB : Nat)
    (hkA : keyOk keyA = true) (hnA : nonceA.length = 16)
    (hA1 : cA.num < 65536) (hA2 : cA.x.length < 65536) (hA3 : cA.y.length < 65536)
    (hA4 : (A.sealF keyA nonceA (scEncode cA) none).length < 65536)
    (hkB : keyOk keyB = true) (hnB : nonceB.length = 16)
    (hB1 : cB.num < 65536) (hB2 : cB.x.length < 65536) (hB3 : cB.y.length < 65536)
    (hB4 : (A.sealF keyB nonceB (scEncode cB) none).length < 65536) :
    ∃ ecA ecB, encryptCookie A cA keyA idA nonceA = .ok ecA ∧ encryptCookie A cB keyB idB nonceB = .ok ecB ∧
      runCalls A [.decrypt (ecEncode ecA) keyA, .decrypt (ecEncode ecB) keyB, .decrypt (ecEncode ecA) keyA] =
        [.cookie (.ok cA), .cookie (.ok cB), .cookie (.ok cA)] := by
  obtain ⟨ecA, eA, dA, oA⟩ := C10_cookie_roundtrip A hl cA keyA nonceA idA hkA hnA hA1 hA2 hA3 hA4
  obtain ⟨ecB, eB, dB, oB⟩ := C10_cookie_roundtrip A hl cB keyB nonceB idB hkB hnB hB1 hB2 hB3 hB4
  refine ⟨ecA, ecB, eA, eB, ?_⟩
  simp [runCalls, Call.run, dA, dB, oA, oB, bind, Res.bind]

set_option maxRecDepth 20000 in
/-- the hypotheses are met by two associations of the project's shape under one server key -/
example :
    runCalls toyAEAD [.decrypt (ecEncode ⟨1, zeros 16, scEncode ⟨15, zeros 32, List.replicate 32 1⟩ ++ zeros 16⟩) (zeros 32),
      .decrypt (ecEncode ⟨1, zeros 16, scEncode ⟨15, List.replicate 32 2, List.replicate 32 3⟩ ++ zeros 16⟩) (zeros 32)] =
    [.cookie (.ok ⟨15, zeros 32, List.replicate 32 1⟩), .cookie (.ok ⟨15, List.replicate 32 2, List.replicate 32 3⟩)] := by
  decide

end ScionTime.C10
