import ScionTime.Model.Nts
namespace ScionTime.C10
end ScionTime.C10
