import ScionTime.Gen.SkelC10
import ScionTime.Model.Skel.Nts
import ScionTime.Model.Skel.Cookies
import ScionTime.Model.Skel.NtsExt

/-!
  Control-skeleton pins, group C10 (notes/SKEL.md): the control structure and the text of every
  condition, call and assignment of the functions below, re-read from /repo on every run
  (`Gen.Skel.*`, harness/extract/skeleton.go), are exactly the ones the hand-written models were
  written against (`Model.Skel.*`, annotated row by row with the model definition that mirrors
  each statement).  A broken pin means the code was edited inside a modelled function: the model
  has to be re-read against the rows named by the `SKEL-DIFF` diagnostic.
-/
namespace ScionTime

/-! diagnostics (not obligations): name the rows that differ when a pin below breaks -/
#eval Model.Skel.check "Nts.NewRequestPacket" Gen.Skel.Nts.NewRequestPacket Model.Skel.Nts.NewRequestPacket
#eval Model.Skel.check "Nts.maxNumCookies" Gen.Skel.Nts.maxNumCookies Model.Skel.Nts.maxNumCookies
#eval Model.Skel.check "Nts.EncodePacket" Gen.Skel.Nts.EncodePacket Model.Skel.Nts.EncodePacket
#eval Model.Skel.check "Nts.DecodePacket" Gen.Skel.Nts.DecodePacket Model.Skel.Nts.DecodePacket
#eval Model.Skel.check "Nts.Packet_FirstCookie" Gen.Skel.Nts.Packet_FirstCookie Model.Skel.Nts.Packet_FirstCookie
#eval Model.Skel.check "Nts.Packet_authenticate" Gen.Skel.Nts.Packet_authenticate Model.Skel.Nts.Packet_authenticate
#eval Model.Skel.check "Nts.ProcessResponse" Gen.Skel.Nts.ProcessResponse Model.Skel.Nts.ProcessResponse
#eval Model.Skel.check "Nts.NewResponsePacket" Gen.Skel.Nts.NewResponsePacket Model.Skel.Nts.NewResponsePacket
#eval Model.Skel.check "Nts.ProcessRequest" Gen.Skel.Nts.ProcessRequest Model.Skel.Nts.ProcessRequest
#eval Model.Skel.check "Cookies.ServerCookie_Encode" Gen.Skel.Cookies.ServerCookie_Encode Model.Skel.Cookies.ServerCookie_Encode
#eval Model.Skel.check "Cookies.ServerCookie_Decode" Gen.Skel.Cookies.ServerCookie_Decode Model.Skel.Cookies.ServerCookie_Decode
#eval Model.Skel.check "Cookies.EncryptedServerCookie_Encode" Gen.Skel.Cookies.EncryptedServerCookie_Encode Model.Skel.Cookies.EncryptedServerCookie_Encode
#eval Model.Skel.check "Cookies.EncryptedServerCookie_Decode" Gen.Skel.Cookies.EncryptedServerCookie_Decode Model.Skel.Cookies.EncryptedServerCookie_Decode
#eval Model.Skel.check "Cookies.ServerCookie_EncryptWithNonce" Gen.Skel.Cookies.ServerCookie_EncryptWithNonce Model.Skel.Cookies.ServerCookie_EncryptWithNonce
#eval Model.Skel.check "Cookies.EncryptedServerCookie_Decrypt" Gen.Skel.Cookies.EncryptedServerCookie_Decrypt Model.Skel.Cookies.EncryptedServerCookie_Decrypt
#eval Model.Skel.check "NtsExt.extHdr_pack" Gen.Skel.NtsExt.extHdr_pack Model.Skel.NtsExt.extHdr_pack
#eval Model.Skel.check "NtsExt.extHdr_unpack" Gen.Skel.NtsExt.extHdr_unpack Model.Skel.NtsExt.extHdr_unpack
#eval Model.Skel.check "NtsExt.UniqueIdentifier_pack" Gen.Skel.NtsExt.UniqueIdentifier_pack Model.Skel.NtsExt.UniqueIdentifier_pack
#eval Model.Skel.check "NtsExt.UniqueIdentifier_unpack" Gen.Skel.NtsExt.UniqueIdentifier_unpack Model.Skel.NtsExt.UniqueIdentifier_unpack
#eval Model.Skel.check "NtsExt.newID" Gen.Skel.NtsExt.newID Model.Skel.NtsExt.newID
#eval Model.Skel.check "NtsExt.Cookie_pack" Gen.Skel.NtsExt.Cookie_pack Model.Skel.NtsExt.Cookie_pack
#eval Model.Skel.check "NtsExt.Cookie_unpack" Gen.Skel.NtsExt.Cookie_unpack Model.Skel.NtsExt.Cookie_unpack
#eval Model.Skel.check "NtsExt.CookiePlaceholder_pack" Gen.Skel.NtsExt.CookiePlaceholder_pack Model.Skel.NtsExt.CookiePlaceholder_pack
#eval Model.Skel.check "NtsExt.CookiePlaceholder_unpack" Gen.Skel.NtsExt.CookiePlaceholder_unpack Model.Skel.NtsExt.CookiePlaceholder_unpack
#eval Model.Skel.check "NtsExt.Authenticator_pack" Gen.Skel.NtsExt.Authenticator_pack Model.Skel.NtsExt.Authenticator_pack
#eval Model.Skel.check "NtsExt.Authenticator_unpack" Gen.Skel.NtsExt.Authenticator_unpack Model.Skel.NtsExt.Authenticator_unpack

/-! the pins -/
theorem C10_skel_Nts_NewRequestPacket : Gen.Skel.Nts.NewRequestPacket = Model.Skel.Nts.NewRequestPacket := rfl
theorem C10_skel_Nts_maxNumCookies : Gen.Skel.Nts.maxNumCookies = Model.Skel.Nts.maxNumCookies := rfl
theorem C10_skel_Nts_EncodePacket : Gen.Skel.Nts.EncodePacket = Model.Skel.Nts.EncodePacket := rfl
theorem C10_skel_Nts_DecodePacket : Gen.Skel.Nts.DecodePacket = Model.Skel.Nts.DecodePacket := rfl
theorem C10_skel_Nts_Packet_FirstCookie : Gen.Skel.Nts.Packet_FirstCookie = Model.Skel.Nts.Packet_FirstCookie := rfl
theorem C10_skel_Nts_Packet_authenticate : Gen.Skel.Nts.Packet_authenticate = Model.Skel.Nts.Packet_authenticate := rfl
theorem C10_skel_Nts_ProcessResponse : Gen.Skel.Nts.ProcessResponse = Model.Skel.Nts.ProcessResponse := rfl
theorem C10_skel_Nts_NewResponsePacket : Gen.Skel.Nts.NewResponsePacket = Model.Skel.Nts.NewResponsePacket := rfl
theorem C10_skel_Nts_ProcessRequest : Gen.Skel.Nts.ProcessRequest = Model.Skel.Nts.ProcessRequest := rfl
theorem C10_skel_Cookies_ServerCookie_Encode : Gen.Skel.Cookies.ServerCookie_Encode = Model.Skel.Cookies.ServerCookie_Encode := rfl
theorem C10_skel_Cookies_ServerCookie_Decode : Gen.Skel.Cookies.ServerCookie_Decode = Model.Skel.Cookies.ServerCookie_Decode := rfl
theorem C10_skel_Cookies_EncryptedServerCookie_Encode : Gen.Skel.Cookies.EncryptedServerCookie_Encode = Model.Skel.Cookies.EncryptedServerCookie_Encode := rfl
theorem C10_skel_Cookies_EncryptedServerCookie_Decode : Gen.Skel.Cookies.EncryptedServerCookie_Decode = Model.Skel.Cookies.EncryptedServerCookie_Decode := rfl
theorem C10_skel_Cookies_ServerCookie_EncryptWithNonce : Gen.Skel.Cookies.ServerCookie_EncryptWithNonce = Model.Skel.Cookies.ServerCookie_EncryptWithNonce := rfl
theorem C10_skel_Cookies_EncryptedServerCookie_Decrypt : Gen.Skel.Cookies.EncryptedServerCookie_Decrypt = Model.Skel.Cookies.EncryptedServerCookie_Decrypt := rfl
theorem C10_skel_NtsExt_extHdr_pack : Gen.Skel.NtsExt.extHdr_pack = Model.Skel.NtsExt.extHdr_pack := rfl
theorem C10_skel_NtsExt_extHdr_unpack : Gen.Skel.NtsExt.extHdr_unpack = Model.Skel.NtsExt.extHdr_unpack := rfl
theorem C10_skel_NtsExt_UniqueIdentifier_pack : Gen.Skel.NtsExt.UniqueIdentifier_pack = Model.Skel.NtsExt.UniqueIdentifier_pack := rfl
theorem C10_skel_NtsExt_UniqueIdentifier_unpack : Gen.Skel.NtsExt.UniqueIdentifier_unpack = Model.Skel.NtsExt.UniqueIdentifier_unpack := rfl
theorem C10_skel_NtsExt_newID : Gen.Skel.NtsExt.newID = Model.Skel.NtsExt.newID := rfl
theorem C10_skel_NtsExt_Cookie_pack : Gen.Skel.NtsExt.Cookie_pack = Model.Skel.NtsExt.Cookie_pack := rfl
theorem C10_skel_NtsExt_Cookie_unpack : Gen.Skel.NtsExt.Cookie_unpack = Model.Skel.NtsExt.Cookie_unpack := rfl
theorem C10_skel_NtsExt_CookiePlaceholder_pack : Gen.Skel.NtsExt.CookiePlaceholder_pack = Model.Skel.NtsExt.CookiePlaceholder_pack := rfl
theorem C10_skel_NtsExt_CookiePlaceholder_unpack : Gen.Skel.NtsExt.CookiePlaceholder_unpack = Model.Skel.NtsExt.CookiePlaceholder_unpack := rfl
theorem C10_skel_NtsExt_Authenticator_pack : Gen.Skel.NtsExt.Authenticator_pack = Model.Skel.NtsExt.Authenticator_pack := rfl
theorem C10_skel_NtsExt_Authenticator_unpack : Gen.Skel.NtsExt.Authenticator_unpack = Model.Skel.NtsExt.Authenticator_unpack := rfl

end ScionTime
