/-
  Props/C19Gen.lean — the C19 theorems stated ABOUT THE CODE AS IT IS IN /repo NOW:
  about `adjustments_Pll_Do`, the Lean definition regenerated from the Go AST of `(*Pll).Do`
  (core/sync/adjustments/pll.go) on every run (Gen/Leaf.lean), not about the hand-written model.

  They are corollaries of the theorems of Props/C19.lean through the tie `C19_leaf_Do`
  (Props/LeafC19.lean: generated definition = model, for all inputs), carried to histories:
  a history is any list of calls `Do(offset, weight)` together with what `l.clk.Epoch()`,
  `l.clk.Now()` and `math.Pow` returned during each call; `gtrace` folds the generated definition
  over it (a panic — `none` — leaves the receiver as it was: in all four panic branches `Do` has
  not written to it).

  What the statements are about, exactly: the translator's reading of `Do` (tagged switch,
  `l.mode++`, one parameter per `Epoch()`/`Now()` call site, `math.Pow` a function applied to its arguments, `Step`/`Adjust` as recorded calls,
  panics as `none`, log statements skipped), over the software double `F64` (tied to the hardware
  by harness f64) and `Int64`. Offsets are `Int64` here, so the model's hypothesis "offsets are
  int64 values" is gone.
-/
import ScionTime.Props.LeafC19
import ScionTime.Props.C19
namespace ScionTime.Props.C19Gen
open ScionTime ScionTime.F64 ScionTime.Pll ScionTime.Gen.Leaf ScionTime.LeafTieC19 ScionTime.Props.C19

/-! ## histories of calls of the generated `Do` -/

/-- one call `l.Do(off, w)` with what the clock and `math.Pow` returned during it -/
structure Call where
  epoch : UInt64
  now : Int
  off : Int64
  w : F64
  pw : F64

/-- the same call as an input of the model -/
def Call.toIn (x : Call) : Input := ⟨x.epoch.toNat, x.now, x.off.toInt, x.w, x.pw⟩

abbrev Res := Option (S_Pll × List Go.ClkAction)

/-- The generated `(*Pll).Do` in a call during which both readings of `l.clk.Epoch()` returned `e`
    and `math.Pow`, at the arguments the code passes, returned `pw`. EVERY call of the generated
    definition is such an instance (`C19_gen_every_call` below: any two epoch readings, any function
    for `math.Pow`), so the theorems of this file, stated for `genDo`, are about every call. -/
abbrev genDo (l : S_Pll) (off : Int64) (w : F64) (e : UInt64) (now : Int) (pw : F64) : Res :=
  adjustments_Pll_Do l off w e e now (fun _ _ => pw)

/-- every call of the regenerated `Do` — two epoch readings `e1`, `e2`, any function `pf` for
    `math.Pow` — is `genDo` on the receiver after the epoch test, under the epoch kept, with the value
    of `pf` at `(stiffenRate, dt)` -/
theorem C19_gen_every_call (l : S_Pll) (off : Int64) (w : F64) (e1 e2 : UInt64) (now : Int) (pf : F64 → F64 → F64) :
    adjustments_Pll_Do l off w e1 e2 now pf =
      genDo (readEpoch l e1 e2).1 off w (readEpoch l e1 e2).2 now (pf stiffenRate (dtOf l now)) := by
  rw [C19_leaf_Do_pow_args, C19_leaf_Do_two_readings]

/-- the generated `(*Pll).Do` on one call -/
def doCall (l : S_Pll) (x : Call) : Res := genDo l x.off x.w x.epoch x.now x.pw

/-- receiver after a call (a panic has not written to it) -/
def next (l : S_Pll) : Res → S_Pll
  | some (l', _) => l'
  | none => l

/-- (receiver before, call, result) for every call of a history -/
def gtrace (l : S_Pll) : List Call → List (S_Pll × Call × Res)
  | [] => []
  | x :: xs => (l, x, doCall l x) :: gtrace (next l (doCall l x)) xs

/-- `NewPLL`: `&Pll{clk: clk}`, every field its zero value (`time.Time{}` = year 1) -/
def gInit : S_Pll :=
  { epoch := 0, mode := 0, t0 := zeroTime, t := zeroTime, a := fzero, b := fzero, i := fzero }

theorem pl_gInit : pl gInit = init := rfl

/-! ## transfer -/

theorem doCall_agree (l : S_Pll) (x : Call) : Agree (doCall l x) (stepIn (pl l) x.toIn) :=
  C19_leaf_Do_const l x.off x.w x.epoch x.now x.pw

theorem doCall_some {l l' : S_Pll} {x : Call} {acts : List Go.ClkAction} (h : doCall l x = some (l', acts)) :
    stepIn (pl l) x.toIn = .ok (pl l') (acts.map act) := by
  have := doCall_agree l x
  rw [h] at this
  cases hs : stepIn (pl l) x.toIn with
  | panic k => rw [hs] at this; exact this.elim
  | ok s a => rw [hs] at this; obtain ⟨h1, h2⟩ := this; rw [h1, h2]

theorem doCall_none {l : S_Pll} {x : Call} (h : doCall l x = none) :
    ∃ k, stepIn (pl l) x.toIn = .panic k := by
  have := doCall_agree l x
  rw [h] at this
  cases hs : stepIn (pl l) x.toIn with
  | panic k => exact ⟨k, rfl⟩
  | ok s a => rw [hs] at this; exact this.elim

theorem doCall_of_ok {l : S_Pll} {x : Call} {s : State} {a : List Action} (h : stepIn (pl l) x.toIn = .ok s a) :
    ∃ l' acts, doCall l x = some (l', acts) ∧ s = pl l' ∧ a = acts.map act := by
  have := doCall_agree l x
  rw [h] at this
  cases hd : doCall l x with
  | none => rw [hd] at this; exact this.elim
  | some r => obtain ⟨l', acts⟩ := r; rw [hd] at this; exact ⟨l', acts, rfl, this.1, this.2⟩

theorem pl_next (l : S_Pll) (x : Call) : pl (next l (doCall l x)) = (stepIn (pl l) x.toIn).next (pl l) := by
  cases hd : doCall l x with
  | none => obtain ⟨k, hk⟩ := doCall_none hd; rw [hk]; rfl
  | some r => obtain ⟨l', acts⟩ := r; rw [doCall_some hd]; rfl

/-- every entry of a history of the generated definition is an entry of the model's history of the
    translated inputs: same state, same input, agreeing outcome -/
theorem gtrace_mem {l : S_Pll} {xs : List Call} {τ : S_Pll × Call × Res} (h : τ ∈ gtrace l xs) :
    (pl τ.1, τ.2.1.toIn, stepIn (pl τ.1) τ.2.1.toIn) ∈ trace (pl l) (xs.map Call.toIn) ∧
      τ.2.2 = doCall τ.1 τ.2.1 := by
  induction xs generalizing l with
  | nil => simp [gtrace] at h
  | cons x xs ih =>
    simp only [gtrace, List.mem_cons] at h
    simp only [List.map_cons, trace, List.mem_cons]
    rcases h with rfl | h
    · exact ⟨Or.inl rfl, rfl⟩
    · have := ih h
      rw [pl_next] at this
      exact ⟨Or.inr this.1, this.2⟩

theorem int64_ext {a b : Int64} (h : a.toInt = b.toInt) : a = b := Int64.toInt_inj.mp h

theorem act_inj {a b : Go.ClkAction} (h : act a = act b) : a = b := by
  cases a <;> cases b <;> simp only [act, Action.step.injEq, Action.adjust.injEq, reduceCtorEq] at h
  · rw [int64_ext h]
  · rw [int64_ext h.1, int64_ext h.2.1, h.2.2]

theorem map_act_singleton {acts : List Go.ClkAction} {a : Go.ClkAction} (h : acts.map act = [act a]) :
    acts = [a] := by
  cases acts with
  | nil => simp at h
  | cons b bs =>
    cases bs with
    | nil =>
      simp only [List.map_cons, List.map_nil, List.cons.injEq, and_true] at h
      rw [act_inj h]
    | cons c cs => simp at h

theorem mem_step {acts : List Go.ClkAction} {x : Int64} (h : Go.ClkAction.step x ∈ acts) :
    Action.step x.toInt ∈ acts.map act := List.mem_map_of_mem (f := act) h

theorem mem_adjust {acts : List Go.ClkAction} {o d : Int64} {f : F64} (h : Go.ClkAction.adjust o d f ∈ acts) :
    Action.adjust o.toInt d.toInt f ∈ acts.map act := List.mem_map_of_mem (f := act) h

theorem no_step_of_map {acts : List Go.ClkAction} (h : ∀ x, Action.step x ∉ acts.map act) :
    ∀ x, Go.ClkAction.step x ∉ acts := fun _ hx => h _ (mem_step hx)

theorem off_range (o : Int64) : minI64 ≤ o.toInt ∧ o.toInt ≤ maxI64 := by
  have h1 := Int64.le_toInt o
  have h2 := Int64.toInt_lt o
  unfold minI64 maxI64
  constructor <;> omega

theorem mode_iff (l : S_Pll) (k : Nat) (hk : k < 4) : (pl l).mode = k ↔ l.mode = UInt64.ofNat k := by
  have hh := mode_eq l.mode k hk
  constructor
  · intro h
    have : decide (l.mode.toNat = k) = true := decide_eq_true h
    rw [← hh] at this
    exact eq_of_beq this
  · intro h
    have : (l.mode == UInt64.ofNat k) = true := by rw [h]; exact beq_self_eq_true _
    rw [hh] at this
    exact of_decide_eq_true this

theorem epoch_iff (l : S_Pll) (e : UInt64) : e.toNat = (pl l).epoch ↔ e = l.epoch :=
  ⟨fun h => UInt64.toNat_inj.mp h, fun h => by rw [h]; rfl⟩

/-! ## 1. Step: only while awaiting the initial step, by exactly the measured offset -/

/-- The code steps the clock only in mode 1 of the current epoch, more than 2 s after the epoch's
    first update, with weight > 3 and |offset| > 1 ms; the `Step` is the only call of that update,
    moves the controller to mode 2, and its argument is the measured offset (`MinInt64 + 1` for
    `MinInt64`). For every call and every receiver state. -/
theorem C19_gen_step_only_when {l l' : S_Pll} {off : Int64} {w pw : F64} {e : UInt64} {now : Int}
    {acts : List Go.ClkAction} {x : Int64}
    (h : genDo l off w e now pw = some (l', acts)) (hx : Go.ClkAction.step x ∈ acts) :
    e = l.epoch ∧ l.mode = 1 ∧ timeSub now l.t0 > 2000000000 ∧ gt w (ofInt 3) = true ∧
    (off.toInt > 1000000 ∨ off.toInt < -1000000) ∧
    x = (if off = Int64.minValue then Int64.minValue + 1 else off) ∧ l'.mode = 2 ∧ acts = [.step x] := by
  have hm := doCall_some (x := ⟨e, now, off, w, pw⟩) h
  have := C19_step_only_when (off_range off) hm (mem_step hx)
  obtain ⟨h1, h2, h3, h4, h5, h6, h7, h8⟩ := this
  refine ⟨(epoch_iff l e).mp h1, (mode_iff l 1 (by omega)).mp h2, h3, h4, h5, ?_,
    (mode_iff l' 2 (by omega)).mp h7, map_act_singleton h8⟩
  apply int64_ext
  rw [h6]
  by_cases hmin : off = Int64.minValue
  · subst hmin; decide
  · have : off.toInt ≠ minI64 := fun hh => hmin (int64_ext (by rw [hh]; rfl))
    rw [if_neg hmin, if_neg this]

/-- For every offset but `MinInt64` the clock is stepped by exactly the measured offset. -/
theorem C19_gen_step_exact {l l' : S_Pll} {off : Int64} {w pw : F64} {e : UInt64} {now : Int}
    {acts : List Go.ClkAction} {x : Int64} (hoff : off ≠ Int64.minValue)
    (h : genDo l off w e now pw = some (l', acts)) (hx : Go.ClkAction.step x ∈ acts) : x = off := by
  rw [(C19_gen_step_only_when h hx).2.2.2.2.2.1, if_neg hoff]

/-- non-vacuity: 2 s + 1 ns after the epoch start, weight 4, 5 ms: the code steps by 5 ms -/
example : (genDo { gInit with mode := 1, t0 := 0, t := 0 } 5000000 (ofInt 4) 0 2000000001 fzero).map (·.2)
    = some [.step 5000000] := by decide +kernel

/-! ## 2. Once tracking: only slews; tracking is left only through an epoch change -/

/-- In mode 2 or 3, with the clock epoch unchanged, the code never steps and the mode does not go
    back. -/
theorem C19_gen_no_step_after_step_phase {l l' : S_Pll} {off : Int64} {w pw : F64} {e : UInt64} {now : Int}
    {acts : List Go.ClkAction} (he : e = l.epoch) (hm : l.mode = 2 ∨ l.mode = 3)
    (h : genDo l off w e now pw = some (l', acts)) :
    l.mode.toNat ≤ l'.mode.toNat ∧ ∀ x, Go.ClkAction.step x ∉ acts := by
  have hs := doCall_some (x := ⟨e, now, off, w, pw⟩) h
  have hm' : 2 ≤ (pl l).mode := by
    rcases hm with hm | hm
    · rw [(mode_iff l 2 (by omega)).mpr hm]; omega
    · rw [(mode_iff l 3 (by omega)).mpr hm]; omega
  have := C19_no_step_after_step_phase (now := now) (off := off.toInt) (w := w) (pw := pw)
    ((epoch_iff l e).mpr he) hm'
  simp only [stepIn, Call.toIn] at hs
  rw [hs] at this
  exact ⟨this.1, no_step_of_map this.2⟩

/-- Tracking (mode 3) never steps and stays in mode 3 while the clock epoch is unchanged. -/
theorem C19_gen_tracking_no_step {l l' : S_Pll} {off : Int64} {w pw : F64} {e : UInt64} {now : Int}
    {acts : List Go.ClkAction} (he : e = l.epoch) (hm : l.mode = 3)
    (h : genDo l off w e now pw = some (l', acts)) :
    l'.mode = 3 ∧ l'.epoch = l.epoch ∧ ∀ x, Go.ClkAction.step x ∉ acts := by
  have hs := doCall_some (x := ⟨e, now, off, w, pw⟩) h
  have := C19_tracking_no_step (now := now) (off := off.toInt) (w := w) (pw := pw)
    ((epoch_iff l e).mpr he) ((mode_iff l 3 (by omega)).mpr hm)
  simp only [stepIn, Call.toIn] at hs
  rw [hs] at this
  exact ⟨(mode_iff l' 3 (by omega)).mp this.1, UInt64.toNat_inj.mp this.2.1, no_step_of_map this.2.2⟩

/-- History form: from a receiver in mode 3, for as long as the clock epoch does not change, every
    call starts in mode 3 and none steps — for any readings, weights, offsets, floats. -/
theorem C19_gen_tracking_stays (l : S_Pll) (xs : List Call) (hm : l.mode = 3)
    (he : ∀ x ∈ xs, x.epoch = l.epoch) :
    ∀ τ ∈ gtrace l xs, τ.1.mode = 3 ∧ ∀ l' acts, τ.2.2 = some (l', acts) → ∀ x, Go.ClkAction.step x ∉ acts := by
  induction xs generalizing l with
  | nil => simp [gtrace]
  | cons x xs ih =>
    simp only [gtrace, List.mem_cons]
    rintro τ (rfl | hτ)
    · exact ⟨hm, fun l' acts ho => (C19_gen_tracking_no_step (he x (List.mem_cons_self ..)) hm ho).2.2⟩
    · cases hd : doCall l x with
      | none =>
        rw [hd] at hτ
        exact ih l hm (fun y hy => he y (List.mem_cons_of_mem _ hy)) τ hτ
      | some r =>
        obtain ⟨l', acts⟩ := r
        rw [hd] at hτ
        have h := C19_gen_tracking_no_step (he x (List.mem_cons_self ..)) hm hd
        exact ih l' h.1 (fun y hy => by rw [h.2.1]; exact he y (List.mem_cons_of_mem _ hy)) τ hτ

/-! ## 3. A new clock epoch restarts the start-up sequence -/

theorem pl_inj {l l' : S_Pll} (h : pl l = pl l') : l = l' := by
  cases l; cases l'
  simp only [pl, State.mk.injEq] at h
  obtain ⟨h1, h2, h3, h4, h5, h6, h7⟩ := h
  rw [UInt64.toNat_inj.mp h1, UInt64.toNat_inj.mp h2, h3, h4, h5, h6, h7]

/-- Whatever the receiver's state, a call that sees a new clock epoch makes no call on the clock and
    leaves the controller in mode 1 with `t0 = t = now` (gains and integrator kept) — never a panic. -/
theorem C19_gen_epoch_restarts (l : S_Pll) (off : Int64) (w pw : F64) {e : UInt64} (now : Int) (he : e ≠ l.epoch) :
    genDo l off w e now pw = some ({ l with epoch := e, mode := 1, t0 := now, t := now }, []) := by
  have hne : e.toNat ≠ (pl l).epoch := fun h => he ((epoch_iff l e).mp h)
  have hm := C19_epoch_restarts (pl l) now off.toInt w pw hne
  obtain ⟨l', acts, hd, hs, ha⟩ := doCall_of_ok (x := ⟨e, now, off, w, pw⟩) hm
  have hl : l' = { l with epoch := e, mode := 1, t0 := now, t := now } :=
    (pl_inj (l := { l with epoch := e, mode := 1, t0 := now, t := now }) hs).symm
  have hacts : acts = [] := by cases acts with
    | nil => rfl
    | cons a as => simp at ha
  simp only [doCall] at hd
  rw [hd, hl, hacts]

/-- The first call on a fresh controller does the same. -/
theorem C19_gen_first_update (off : Int64) (w pw : F64) (e : UInt64) (now : Int) :
    genDo gInit off w e now pw = some ({ gInit with epoch := e, mode := 1, t0 := now, t := now }, []) := by
  have hm := C19_first_update e.toNat now off.toInt w pw
  rw [← pl_gInit] at hm
  obtain ⟨l', acts, hd, hs, ha⟩ := doCall_of_ok (l := gInit) (x := ⟨e, now, off, w, pw⟩) hm
  have hl : l' = { gInit with epoch := e, mode := 1, t0 := now, t := now } :=
    (pl_inj (l := { gInit with epoch := e, mode := 1, t0 := now, t := now }) hs).symm
  have hacts : acts = [] := by cases acts with
    | nil => rfl
    | cons a as => simp at ha
  simp only [doCall] at hd
  rw [hd, hl, hacts]

/-! ## 4. Adjust: only while tracking, positive duration, bounded slew, finite frequency -/

/-- The code calls `Adjust` only in mode 3 of the current epoch; it is the only call of that update
    and its frequency argument is the integrator after the update. -/
theorem C19_gen_adjust_only_tracking {l l' : S_Pll} {off : Int64} {w pw : F64} {e : UInt64} {now : Int}
    {acts : List Go.ClkAction} {o d : Int64} {f : F64}
    (h : genDo l off w e now pw = some (l', acts)) (ha : Go.ClkAction.adjust o d f ∈ acts) :
    e = l.epoch ∧ l.mode = 3 ∧ l'.mode = 3 ∧ acts = [.adjust o d f] ∧ f = l'.i ∧
    gt (ceil (durationSeconds (timeSub now l.t))) fzero = true := by
  have hs := doCall_some (x := ⟨e, now, off, w, pw⟩) h
  obtain ⟨h1, h2, h3, h4, h5, h6⟩ := C19_adjust_only_tracking hs (mem_adjust ha)
  exact ⟨(epoch_iff l e).mp h1, (mode_iff l 3 (by omega)).mp h2, (mode_iff l' 3 (by omega)).mp h3,
    map_act_singleton h4, h5, h6⟩

/-- `Adjust` is never asked for a non-positive duration: with a reading not before the previous one
    and less than 9 223 372 036 s after it, the duration is `D` seconds, `D = ⌈dt⌉`,
    `1 ≤ D ≤ ⌊gap/10⁹⌋ + 1`, at least one second, no int64 overflow. -/
theorem C19_gen_adjust_duration_pos {l l' : S_Pll} {off : Int64} {w pw : F64} {e : UInt64} {now : Int}
    {acts : List Go.ClkAction} {o d : Int64} {f : F64}
    (hmono : l.t ≤ now) (hgap : now - l.t ≤ 9223372035999999999)
    (h : genDo l off w e now pw = some (l', acts)) (ha : Go.ClkAction.adjust o d f ∈ acts) :
    ∃ D : Int, D = (toRat (durationSeconds (timeSub now l.t))).ceil ∧ 1 ≤ D ∧
      D ≤ (now - l.t) / 1000000000 + 1 ∧ d.toInt = toDuration (.fin (D : Rat)) ∧
      1000000000 ≤ d.toInt ∧ d.toInt ≤ 9223372036854774784 :=
  C19_adjust_duration_pos (s := pl l) hmono hgap (doCall_some (x := ⟨e, now, off, w, pw⟩) h) (mem_adjust ha)

/-- `slew_bound`: gains in their range (an invariant of every history, `C19_gen_gain_invariant`),
    `0 ≤ pow ≤ 1`, a reading not before the previous one and at most 7 999 999 999 s after it:
    the slew handed to `Adjust` satisfies `|slew| ≤ 500 000 ns · D`, `D = ⌈dt⌉` whole seconds —
    whatever the offset and the weight (all three gain regimes). -/
theorem C19_gen_slew_bound {l l' : S_Pll} {off : Int64} {w pw : F64} {e : UInt64} {now : Int}
    {acts : List Go.ClkAction} {o d : Int64} {f : F64}
    (hg : Gain (pl l)) (hpw : Bd 1 pw) (hmono : l.t ≤ now) (hgap : now - l.t ≤ 7999999999000000000)
    (h : genDo l off w e now pw = some (l', acts)) (ha : Go.ClkAction.adjust o d f ∈ acts) :
    ∃ D : Int, D = (toRat (durationSeconds (timeSub now l.t))).ceil ∧ 1 ≤ D ∧
      D ≤ (now - l.t) / 1000000000 + 1 ∧
      -(500000 * D) ≤ o.toInt ∧ o.toInt ≤ 500000 * D ∧ d.toInt = toDuration (.fin (D : Rat)) :=
  C19_slew_bound (s := pl l) hg hpw (off_range off) hmono hgap
    (doCall_some (x := ⟨e, now, off, w, pw⟩) h) (mem_adjust ha)

/-! ## 5. Histories of the generated definition -/

/-- readings never decrease / per-epoch / gaps, on calls -/
def NonDecr (xs : List Call) : Prop := NonDecreasing (xs.map Call.toIn)
def GapLe (g : Int) (xs : List Call) : Prop := Consec (fun x y => y.now - x.now ≤ g) (xs.map Call.toIn)

/-- The mode stays in 0..3 in every history of the code: `panic("unexpected PLL mode")` is
    unreachable from `NewPLL` (any readings, epochs, floats). -/
theorem C19_gen_mode_invariant (xs : List Call) :
    ∀ τ ∈ gtrace gInit xs, τ.1.mode.toNat ≤ 3 := by
  intro τ hτ
  have h := (gtrace_mem hτ).1
  rw [pl_gInit] at h
  exact ((C19_mode_invariant (xs.map Call.toIn)).1 _ h).1

/-- With non-decreasing clock readings no call of any history panics. -/
theorem C19_gen_no_panic (xs : List Call) (hmono : NonDecr xs) :
    ∀ τ ∈ gtrace gInit xs, ∃ l' acts, τ.2.2 = some (l', acts) := by
  intro τ hτ
  obtain ⟨h, hd⟩ := gtrace_mem hτ
  rw [pl_gInit] at h
  have hrun : stepIn (pl τ.1) τ.2.1.toIn ∈ run init (xs.map Call.toIn) := by
    rw [run_eq_trace, List.mem_map]; exact ⟨_, h, rfl⟩
  obtain ⟨s', a, hs⟩ := C19_no_panic_nondecreasing _ hmono _ hrun
  obtain ⟨l', acts, hd', _⟩ := doCall_of_ok hs
  exact ⟨l', acts, by rw [hd, hd']⟩

/-- The gains stay in `[0, 0.33]`, `[0, 0.33/60]` in every history with `math.Pow` results in [0,1]. -/
theorem C19_gen_gain_invariant (xs : List Call) (hpw : ∀ x ∈ xs, Bd 1 x.pw) :
    ∀ τ ∈ gtrace gInit xs, Gain (pl τ.1) := by
  intro τ hτ
  have h := (gtrace_mem hτ).1
  rw [pl_gInit] at h
  have hpw' : ∀ y ∈ xs.map Call.toIn, Bd 1 y.pow := by
    intro y hy
    obtain ⟨x, hx, rfl⟩ := List.mem_map.mp hy
    exact hpw x hx
  exact C19_gain_invariant _ hpw' _ h

/-- THE PROPERTY ABOUT THE CODE, over histories. For every history of calls of the regenerated
    `(*Pll).Do` from `NewPLL` at non-decreasing clock readings — consecutive readings at most
    7 999 999 999 s apart, arbitrary int64 offsets, arbitrary weights (NaN, infinities), arbitrary
    clock epochs changing at any point, `math.Pow` results in [0,1], fewer than 2⁵³ calls — every
    call returns (no panic), and
    * `Step` is called only in mode 1 of the current epoch, more than 2 s after the epoch's first
      update, with weight > 3 and |offset| > 1 ms, by the measured offset (`MinInt64+1` for `MinInt64`);
    * `Adjust` is called only in mode 3, with a duration of at least one second, a finite frequency,
      and a slew of at most 500 000 ns per whole second `D = ⌈dt⌉`, `D ≤ ⌊gap/10⁹⌋ + 1`. -/
theorem C19_gen_history (xs : List Call) (hmono : NonDecr xs) (hgap : GapLe 7999999999000000000 xs)
    (hpw : ∀ x ∈ xs, Bd 1 x.pw) (hlen : xs.length < 2 ^ 53) :
    ∀ τ ∈ gtrace gInit xs, ∃ l' acts, τ.2.2 = some (l', acts) ∧
      (∀ x, Go.ClkAction.step x ∈ acts →
        τ.1.mode = 1 ∧ τ.2.1.epoch = τ.1.epoch ∧ timeSub τ.2.1.now τ.1.t0 > 2000000000 ∧
        gt τ.2.1.w (ofInt 3) = true ∧ (τ.2.1.off.toInt > 1000000 ∨ τ.2.1.off.toInt < -1000000) ∧
        x = (if τ.2.1.off = Int64.minValue then Int64.minValue + 1 else τ.2.1.off)) ∧
      (∀ o d f, Go.ClkAction.adjust o d f ∈ acts →
        τ.1.mode = 3 ∧ τ.2.1.epoch = τ.1.epoch ∧ 1000000000 ≤ d.toInt ∧ isFinite f = true ∧
        ∃ D : Int, 1 ≤ D ∧ D ≤ (τ.2.1.now - τ.1.t) / 1000000000 + 1 ∧
          -(500000 * D) ≤ o.toInt ∧ o.toInt ≤ 500000 * D ∧ d.toInt = toDuration (.fin (D : Rat))) := by
  intro τ hτ
  obtain ⟨hmem, hd⟩ := gtrace_mem hτ
  rw [pl_gInit] at hmem
  have hpw' : ∀ y ∈ xs.map Call.toIn, Bd 1 y.pow := by
    intro y hy
    obtain ⟨x, hx, rfl⟩ := List.mem_map.mp hy
    exact hpw x hx
  have hoff' : ∀ y ∈ xs.map Call.toIn, minI64 ≤ y.offset ∧ y.offset ≤ maxI64 := by
    intro y hy
    obtain ⟨x, _, rfl⟩ := List.mem_map.mp hy
    exact off_range x.off
  have hlen' : (xs.map Call.toIn).length < 2 ^ 53 := by rw [List.length_map]; exact hlen
  obtain ⟨s', a, hok, hstep, hadj⟩ := C19_history _ hmono hgap hpw' hoff' hlen' _ hmem
  simp only at hok hstep hadj
  obtain ⟨l', acts, hd', hs', ha'⟩ := doCall_of_ok hok
  subst ha'
  refine ⟨l', acts, by rw [hd, hd'], ?_, ?_⟩
  · intro x hx
    rw [hd] at *
    simp only [doCall] at hd'
    have := C19_gen_step_only_when hd' hx
    exact ⟨this.2.1, this.1, this.2.2.1, this.2.2.2.1, this.2.2.2.2.1, this.2.2.2.2.2.1⟩
  · intro o d f ha
    obtain ⟨h1, h2, h3, h4, D, h5⟩ := hadj _ _ _ (mem_adjust ha)
    exact ⟨(mode_iff τ.1 3 (by omega)).mp h1, (epoch_iff τ.1 τ.2.1.epoch).mp h2, h3, h4, D, h5⟩

/-- A history meeting every hypothesis of `C19_gen_history` in which all of it happens in the
    generated code: start-up, a step by the measured 5 ms, tracking, a clamped slew in the
    stiffening regime (weight 1000; 1 s offset after 16 s: 8 ms over 16 s), a restart on a new
    epoch. -/
def demo : List Call :=
  [⟨7, 0, 5000000, ofInt 1000, ofInt 1⟩, ⟨7, 2000000001, 5000000, ofInt 1000, ofInt 1⟩,
   ⟨7, 9000000000, 100, ofInt 1000, ofInt 1⟩, ⟨7, 25000000000, 1000000000, ofInt 1000, ofInt 1⟩,
   ⟨8, 26000000000, 1000000000, ofInt 1000, ofInt 1⟩]

example : NonDecr demo ∧ GapLe 7999999999000000000 demo ∧ (∀ x ∈ demo, Bd 1 x.pw) := by
  refine ⟨by simp [demo, NonDecr, NonDecreasing, Call.toIn], by simp [demo, GapLe, Consec, Call.toIn], ?_⟩
  intro x hx; simp [demo] at hx
  rcases hx with rfl | rfl | rfl | rfl | rfl <;> exact ⟨by decide +kernel, by decide +kernel, by decide +kernel⟩

example : (gtrace gInit demo).map (fun τ => match τ.2.2 with
      | some (l, acts) => (l.mode, acts.map (fun (a : Go.ClkAction) => match a with
          | .step x => [x] | .adjust o d _ => [o, d]))
      | none => (99, []))
    = [(1, []), (2, [[5000000]]), (3, []), (3, [[8000000, 16000000000]]), (1, [])] := by
  decide +kernel

end ScionTime.Props.C19Gen
