/-
  C17 (numeric part) — the unfiltered Ntimed output is the raw NTP offset up to float
  rounding.  Built on the `fl` lemmas of Proofs/F64.lean (relative error 2⁻⁵³ + 2⁻¹⁰⁷⁵ per
  rounding, exact small integers, truncation of `int64(·)`); the analysis is in
  Proofs/C17Num.lean.  The structural theorems (which branch, which expression, resets) are
  in Props/C17.lean and do not depend on this file.

  Bound certified (DESIGN §8 named `1 ns + 2⁻⁵⁰·|raw|` as a target; that is not true —
  the error is relative to the two legs, not to their half-sum, which may cancel):
      |out − raw| ≤ 1 ns + 2⁻⁵⁰ · (|cTx − sRx| + |cRx − sTx|)
  i.e. one nanosecond for legs up to 13 days, on the domain where neither `Time.Sub`
  saturates nor `ClockOffset` wraps (both legs below 2^62 ns ≈ 146 years).
-/
import ScionTime.Props.C17
import ScionTime.Proofs.C17Num
namespace ScionTime.C17
open ScionTime.Filters ScionTime.F64

/-- The no-saturation domain: both legs `cTx − sRx`, `cRx − sTx` below `2^62` ns. -/
def InDomain (x : Sample) : Prop :=
  -4611686018427387904 < x.cTx - x.sRx ∧ x.cTx - x.sRx < 4611686018427387904 ∧
  -4611686018427387904 < x.cRx - x.sTx ∧ x.cRx - x.sTx < 4611686018427387904

/-- `|cTx − sRx| + |cRx − sTx|` in nanoseconds. -/
def legs (x : Sample) : Int := ((x.cTx - x.sRx).natAbs : Int) + ((x.cRx - x.sTx).natAbs : Int)

/-- The raw offset `ntp.ClockOffset(cTx, sRx, sTx, cRx)` in nanoseconds. -/
def rawOffset (x : Sample) : Int := (clockOffset x.cTx x.sRx x.sTx x.cRx).toInt

/-- `|v − w| ≤ 1 + 2⁻⁵⁰·legs`, multiplied out. -/
def Close (x : Sample) (v w : Int) : Prop :=
  -(1125899906842624 + legs x) ≤ 1125899906842624 * (v - w) ∧
  1125899906842624 * (v - w) ≤ 1125899906842624 + legs x

/-- The unfiltered value `Inv(Duration((lo+hi)/2))` is the raw offset — sign convention
    included — within `1 ns + 2⁻⁵⁰·(|cTx−sRx| + |cRx−sTx|)`. -/
theorem C17_ntimed_raw_close (x : Sample) (hd : InDomain x) :
    Close x (ntimedRaw x) (rawOffset x) :=
  ntimed_num x hd.1 hd.2.1 hd.2.2.1 hd.2.2.2

/-- **ntimed_raw_early, numeric clause.** -/
theorem C17_ntimed_early_close (e : Nat) (s : Ntimed) (xs : List Sample) (x : Sample)
    (hlen : xs.length < 3) (hd : InDomain x) :
    Close x (ntimedDo e (ntimedFinal (ntimedReset e s) (xs.map (NOp.sample e))) x).2 (rawOffset x) := by
  rw [(C17_ntimed_raw_early e s xs x hlen).2]
  exact C17_ntimed_raw_close x hd

/-- **ntimed_raw_inbounds, numeric clause.** -/
theorem C17_ntimed_inbounds_close (e : Nat) (f : Ntimed) (x : Sample)
    (hlo : (ntimedDoFull e f x).failLo = false) (hhi : (ntimedDoFull e f x).failHi = false)
    (hd : InDomain x) :
    Close x (ntimedDo e f x).2 (rawOffset x) := by
  rw [(C17_ntimed_raw_inbounds e f x hlo hhi).2]
  exact C17_ntimed_raw_close x hd

/-- Correct sign: whenever the raw offset exceeds the error bound in magnitude, the
    unfiltered output has the same sign (it is `ClockOffset`, not Ntimed's negated `mid`). -/
theorem C17_ntimed_raw_sign (x : Sample) (hd : InDomain x) :
    (1125899906842624 + legs x < 1125899906842624 * rawOffset x → 0 < ntimedRaw x) ∧
    (1125899906842624 * rawOffset x < -(1125899906842624 + legs x) → ntimedRaw x < 0) := by
  have h := C17_ntimed_raw_close x hd
  unfold Close at h
  constructor <;> intro _ <;> omega

/-- The bound cannot be relative to `|raw|` (DESIGN's target): legs of 10^18 ns that cancel to
    a half-sum of 3 ns give output 0, i.e. an error of 3 ns > 1 + 2⁻⁵⁰·3. -/
example : ntimedRaw ⟨0, -1000000000000000001, 1000000000000000000, 6⟩ = 0 ∧
    rawOffset ⟨0, -1000000000000000001, 1000000000000000000, 6⟩ = -3 := by decide +kernel

/-- Non-vacuity: a present-day exchange (10 ms each way, 1 ms offset) is in the domain, and
    there the bound is one nanosecond. -/
example : InDomain ⟨1700000000000000000, 1700000000011000000, 1700000000011050000, 1700000000020050000⟩ := by
  unfold InDomain; simp only; omega
example (x : Sample) (v w : Int) (h : Close x v w) (hl : legs x < 1125899906842624) :
    -1 ≤ v - w ∧ v - w ≤ 1 := by
  unfold Close at h; omega

end ScionTime.C17
