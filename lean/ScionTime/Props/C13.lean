/-
  C13 — SCION packet authentication and reply addressing (server side).
  Property theorems over the model `ScionTime/Model/ScionSrv.lean` of
  core/server/server_scion.go `runSCIONServer` and net/scion/auth.go.

  Proved here: the *decision logic* of the listener over an abstract parsed packet, for all
  packets and configurations.  Oracles (trusted, exercised by the loopback tie of
  harness/cmd/c13): `spao.ComputeAuthCMAC` (`Pkt.mac`), `Path.Reverse` (`Pkt.rev`), the NTP/NTS
  layer's verdict (`Pkt.ntpOk`), gopacket/slayers parsing and serialisation.  The client side
  (acceptance of responses) is in C05's model.
-/
import ScionTime.Model.ScionSrv
import ScionTime.Gen.Scion
namespace ScionTime.C13
open ScionTime.ScionSrv

/-! ## constants of /repo (Gen is regenerated on every run) -/

theorem C13_pin_EndhostPort : Gen.Scion.EndhostPort = (EndhostPort : Int) := by decide
theorem C13_pin_PacketAuthOptDataLen : Gen.Scion.PacketAuthOptDataLen = (optDataLen : Int) := by decide
theorem C13_pin_PacketAuthMetadataLen : Gen.Scion.PacketAuthMetadataLen = (metadataLen : Int) := by decide
theorem C13_pin_PacketAuthMACLen : Gen.Scion.PacketAuthMACLen = (macLen : Int) := by decide
theorem C13_pin_PacketAuthAlgorithm : Gen.Scion.PacketAuthAlgorithm = (algorithm : Int) := by decide
theorem C13_pin_PacketAuthSPIClient : Gen.Scion.PacketAuthSPIClient = (spiClient : Int) := by decide
theorem C13_pin_PacketAuthSPIServer : Gen.Scion.PacketAuthSPIServer = (spiServer : Int) := by decide
theorem C13_pin_optDataLen_sum : optDataLen = metadataLen + macLen := by decide

/-- The two directions use different SPIs (a reflected request is not a valid response). -/
theorem C13_spi_distinct : Gen.Scion.PacketAuthSPIClient ≠ Gen.Scion.PacketAuthSPIServer := by decide

/-- Bit layout: type host-host (1) in bit 17, direction in bit 16, protocol 123 in the low bits;
    client = receiver side (1), server = sender side (0). -/
theorem C13_spi_layout_client :
    Gen.Scion.PacketAuthSPIClient = ((1 <<< 17 ||| 1 <<< 16 ||| 123 : Nat) : Int) := by decide
theorem C13_spi_layout_server :
    Gen.Scion.PacketAuthSPIServer = ((1 <<< 17 ||| 0 <<< 16 ||| 123 : Nat) : Int) := by decide
theorem C13_spi_layout_gen :
    Gen.Scion.PacketAuthSPIClient =
      Gen.Scion.drkeyTypeHostHost * 2 ^ 17 + Gen.Scion.drkeyDirectionReceiverSide * 2 ^ 16 + Gen.Scion.DRKeyProtocolTS ∧
    Gen.Scion.PacketAuthSPIServer =
      Gen.Scion.drkeyTypeHostHost * 2 ^ 17 + Gen.Scion.drkeyDirectionSenderSide * 2 ^ 16 + Gen.Scion.DRKeyProtocolTS ∧
    Gen.Scion.PacketAuthSPIClient - Gen.Scion.PacketAuthSPIServer = 2 ^ 16 := by decide

/-! ## net/scion/auth.go: metadata (prepare spi alg) = (spi, alg) -/

/-- `PacketAuthOptMetadata` reads back what `PreparePacketAuthOpt` wrote, for every 28-byte
    option, every 32-bit SPI and every algorithm byte; the MAC field is zeroed. -/
theorem C13_meta_prepare (d : List Nat) (spi alg : Nat)
    (hd : d.length = optDataLen) (hs : spi < 4294967296) (ha : alg < 256) :
    ∃ x, authPrepare d spi alg = .ok x ∧ x.length = optDataLen ∧
      authMeta x = .ok (spi, alg) ∧ authMAC x = .ok (List.replicate 16 0) := by
  have h28 : d.drop 28 = [] := by
    apply List.drop_of_length_le; unfold optDataLen at hd; omega
  unfold authPrepare
  rw [if_neg (by omega)]
  refine ⟨_, rfl, ?_, ?_, ?_⟩
  · simp [optDataLen, h28]
  · unfold authMeta
    simp only [optDataLen, h28]
    simp
    refine ⟨by omega, by omega⟩
  · unfold authMAC
    simp only [optDataLen, h28, metadataLen]
    simp

example : authMeta [0, 3, 0, 123, 0, 0, 0, 0, 0, 0, 0, 0, 1, 2, 3, 4, 5, 6, 7, 8, 9, 10, 11, 12, 13, 14, 15, 16]
    = .ok (spiClient, algorithm) := by decide

/-- Option data of any other length: `PacketAuthOptMetadata`/`PacketAuthOptMAC` panic
    (the listener must therefore check the length first — see C08Scion). -/
theorem C13_meta_panics_iff (d : List Nat) :
    (∃ c, authMeta d = .panic c) ↔ d.length ≠ optDataLen := by
  unfold authMeta; split <;> simp_all

/-! ## the DRKey check -/

/-- Exactly when a request counts as verified. -/
theorem C13_verified_iff (cfg : Cfg) (p : Pkt) :
    verified cfg p ↔
      cfg.fetcher = true ∧ p.e2e = true ∧
      ∃ d, p.auth = some d ∧ d.length = optDataLen ∧ authMeta d = .ok (spiClient, algorithm) ∧
        fetchKey true cfg = .ok ∧ p.mac = some (d.drop metadataLen) := by
  unfold verified authCheck
  constructor
  · intro h
    split at h
    · rename_i hfe
      simp only [Bool.and_eq_true] at hfe
      split at h
      · simp at h
      · rename_i d hd
        split at h
        · simp at h
        · rename_i hlen
          split at h
          · simp at h
          · rename_i spi alg hm
            split at h
            · rename_i hsa
              split at h
              · simp at h
              · simp at h
              · split at h
                · simp at h
                · rename_i m hmac
                  split at h
                  · rename_i heq
                    refine ⟨hfe.1, hfe.2, d, hd, by omega, ?_, by assumption, ?_⟩
                    · rw [hm, hsa.1, hsa.2]
                    · rw [hmac, heq]
                  · simp at h
            · simp at h
    · simp at h
  · rintro ⟨hf, he, d, hd, hlen, hm, hk, hmac⟩
    simp [hf, he, hd, hlen, hm, hk, hmac]

example : verified (serverCfg 10123 10123 46 true true false)
    { lastHop := 0, tc := 0, srcIA := 1, dstIA := 2, srcType := 0, dstType := 0,
      srcAddr := [10, 0, 0, 1], dstAddr := [10, 0, 0, 2], pathType := 0, path := [], rev := some (0, []),
      l4 := .udp, srcPort := 5000, dstPort := 10123, udpLenOk := true, e2e := true,
      auth := some ([0, 3, 0, 123, 0, 0, 0, 0, 0, 0, 0, 0] ++ List.replicate 16 7),
      mac := some (List.replicate 16 7), payload := [], ntpOk := true } := by unfold verified; decide

/-- **A request that carries an authenticator for the time-service DRKey (client SPI, expected
    algorithm) whose MAC differs from the one the server computes (or whose MAC cannot be
    computed) is never answered** — whenever authentication is enabled (fetcher present) and
    the key is obtainable.  It is dropped, or (not addressed to this service at all) forwarded
    untouched to another end-host port. -/
theorem C13_bad_mac_never_served (cfg : Cfg) (p : Pkt) (d : List Nat)
    (hl4 : p.l4 = .udp) (hf : cfg.fetcher = true) (he : p.e2e = true) (ha : p.auth = some d)
    (hlen : d.length = optDataLen) (hmeta : authMeta d = .ok (spiClient, algorithm))
    (hkey : fetchKey true cfg = .ok) (hmac : p.mac ≠ some (d.drop metadataLen)) :
    (∀ r, handle cfg p ≠ .reply r) ∧
    ((∃ reason, handle cfg p = .drop reason) ∨
     (∃ f, handle cfg p = .forward f ∧ p.dstPort ≠ cfg.localHostPort)) := by
  have hac : ∃ reason, authCheck true cfg p = .drop reason := by
    unfold authCheck
    simp only [hf, he, ha, Bool.and_self, if_true, hmeta, hkey]
    rw [if_neg (by omega)]
    simp only [and_self, if_true]
    cases hm : p.mac with
    | none => exact ⟨_, rfl⟩
    | some m =>
      have : ¬ (d.drop metadataLen = m) := by
        intro h; apply hmac; rw [hm, h]
      simp [this]
  obtain ⟨reason, hac⟩ := hac
  unfold handle handleG
  simp only [hl4, hac]
  constructor
  · intro r
    split <;> (try split) <;> (try split) <;> (try split) <;> (try split) <;> simp
  · split
    · exact Or.inl ⟨_, rfl⟩
    · split
      · exact Or.inl ⟨_, rfl⟩
      · split
        · exact Or.inl ⟨_, rfl⟩
        · split
          · rename_i hne
            split
            · exact Or.inl ⟨_, rfl⟩
            · exact Or.inr ⟨_, rfl, hne⟩
          · split
            · exact Or.inl ⟨_, rfl⟩
            · exact Or.inl ⟨_, rfl⟩

/-- non-vacuity: a request to the service port with one MAC bit wrong meets the hypotheses
    (and is dropped). -/
example : handle (serverCfg 10123 10123 46 true true false)
    { lastHop := 0, tc := 0, srcIA := 1, dstIA := 2, srcType := 0, dstType := 0,
      srcAddr := [10, 0, 0, 1], dstAddr := [10, 0, 0, 2], pathType := 0, path := [], rev := some (0, []),
      l4 := .udp, srcPort := 5000, dstPort := 10123, udpLenOk := true, e2e := true,
      auth := some ([0, 3, 0, 123, 0, 0, 0, 0, 0, 0, 0, 0] ++ List.replicate 16 7),
      mac := some (6 :: List.replicate 15 7), payload := [], ntpOk := true } = .drop "bad-mac" := by decide

/-- What the code does when the key is *not* obtainable (fetch error): the request is served
    without authentication, whatever its MAC — recorded, not endorsed. -/
theorem C13_no_key_served_unauthenticated (cfg : Cfg) (p : Pkt) (d : List Nat)
    (hf : cfg.fetcher = true) (he : p.e2e = true) (ha : p.auth = some d)
    (hlen : d.length = optDataLen) (hmeta : authMeta d = .ok (spiClient, algorithm))
    (hkey : fetchKey true cfg = .error) :
    authCheck true cfg p = .go false := by
  unfold authCheck
  simp only [hf, he, ha, Bool.and_self, if_true, hmeta, hkey]
  rw [if_neg (by omega)]
  simp

/-! ## the key is that of the addressed host, whatever was served before -/

/-- **A request whose MAC was computed under another key than the one of its own addressing
    (`keyOf`: server IA, addressed server host, client IA, client host) — e.g. under the key of
    another local host address of the same server — is never served.**  `macF k p` is the MAC
    oracle as a function of the key; `Pkt.mac` is `macF (keyOf p) p`; that distinct keys give
    distinct MACs is the (assumed) strength of AES-CMAC, stated as hypothesis `hdiff`. -/
theorem C13_key_of_addressed_host (macF : KeyId → Pkt → Option (List Nat))
    (cfg : Cfg) (p : Pkt) (d : List Nat) (k' : KeyId)
    (horacle : p.mac = macF (keyOf p) p)
    (hother : macF k' p = some (d.drop metadataLen))
    (hdiff : macF k' p ≠ macF (keyOf p) p)
    (hl4 : p.l4 = .udp) (hf : cfg.fetcher = true) (he : p.e2e = true) (ha : p.auth = some d)
    (hlen : d.length = optDataLen) (hmeta : authMeta d = .ok (spiClient, algorithm))
    (hkey : fetchKey true cfg = .ok) :
    ∀ r, handle cfg p ≠ .reply r := by
  have hmac : p.mac ≠ some (d.drop metadataLen) := by
    rw [horacle, ← hother]; exact fun h => hdiff h.symm
  exact (C13_bad_mac_never_served cfg p d hl4 hf he ha hlen hmeta hkey hmac).1

/-- **An honest request is served and answered with an authenticator**: verified under the key
    of its own addressing, to the service port of a listener, acceptable to the NTP layer, over
    a reversible path. -/
theorem C13_honest_request_served (cfg : Cfg) (p : Pkt) (rt : Nat) (rp : List Nat)
    (hv : verified cfg p) (hl4 : p.l4 = .udp) (hu : p.udpLenOk = true)
    (hs : addrOk p.srcAddr = true) (hd : addrOk p.dstAddr = true)
    (hp : p.dstPort = cfg.localHostPort) (hne : cfg.localHostPort ≠ EndhostPort)
    (hn : p.ntpOk = true) (hr : p.rev = some (rt, rp)) :
    handle cfg p = .reply (ntpReply cfg p true true rt rp) ∧
    (ntpReply cfg p true true rt rp).auth.isSome = true := by
  have hac : authCheck true cfg p = .go true := hv
  obtain ⟨_, _, d, hda, _⟩ := (C13_verified_iff cfg p).mp hv
  constructor
  · unfold handle handleG
    simp [hl4, hu, hs, hd, hp, hne, hac, hn, hr]
  · simp [ntpReply, hda]

/-- The outcome for a datagram does not depend on the datagrams handled before it: the i-th
    outcome of any history is `handle` of the i-th datagram alone (in particular two requests
    that differ only in the addressed host are each checked against their own oracle MAC). -/
theorem C13_history_independent (cfg : Cfg) (before after : List Pkt) (p : Pkt) :
    (serve cfg (before ++ p :: after))[before.length]? = some (handle cfg p) := by
  simp [serve]

/-- non-vacuity for `C13_key_of_addressed_host`: hosts A = 10.2.0.1 and B = 10.2.0.2 with an
    oracle that gives distinct MACs for distinct server hosts; the request addressed to B with
    the MAC under A's key is dropped, the honest one to B is served (see also the key histories
    of harness/cmd/c13 on the real listener with real-derivation keys). -/
example :
    let macF : KeyId → Pkt → Option (List Nat) := fun k _ => some (List.replicate 16 (k.serverHost.getD 3 0))
    let toB (macByte : Nat) : Pkt :=
      { lastHop := 0, tc := 0, srcIA := 1, dstIA := 2, srcType := 0, dstType := 0,
        srcAddr := [10, 1, 0, 9], dstAddr := [10, 2, 0, 2], pathType := 0, path := [], rev := some (0, []),
        l4 := .udp, srcPort := 5000, dstPort := 10123, udpLenOk := true, e2e := true,
        auth := some ([0, 3, 0, 123, 0, 0, 0, 0, 0, 0, 0, 0] ++ List.replicate 16 macByte),
        mac := some (List.replicate 16 2), payload := [], ntpOk := true }
    (toB 1).mac = macF (keyOf (toB 1)) (toB 1) ∧
    macF { keyOf (toB 1) with serverHost := [10, 2, 0, 1] } (toB 1) = some (List.replicate 16 1) ∧
    handle (serverCfg 10123 10123 46 false false true) (toB 1) = .drop "bad-mac" ∧
    (match handle (serverCfg 10123 10123 46 false false true) (toB 2) with
      | .reply r => r.auth.isSome | _ => false) = true := by decide

/-! ## reply addressing -/

/-- Shape of every reply: built by `scmpReply` (SCMP echo/traceroute request) or by
    `ntpReply` (accepted NTP request) from the reversed path the oracle returned. -/
theorem C13_reply_shape (cfg : Cfg) (p : Pkt) (r : Reply) (h : handle cfg p = .reply r) :
    (∃ t c rt rp, p.l4 = .scmp t c ∧ (t = scmpEchoRequest ∨ t = scmpTracerouteRequest) ∧
        p.rev = some (rt, rp) ∧ r = scmpReply p true t rt rp) ∨
    (∃ a rt rp, p.l4 = .udp ∧ p.udpLenOk = true ∧ addrOk p.srcAddr = true ∧ addrOk p.dstAddr = true ∧
        p.dstPort = cfg.localHostPort ∧ cfg.localHostPort ≠ EndhostPort ∧
        authCheck true cfg p = .go a ∧ p.ntpOk = true ∧
        p.rev = some (rt, rp) ∧ r = ntpReply cfg p true a rt rp) := by
  unfold handle handleG at h
  split at h
  · simp at h
  · rename_i t c hl4
    split at h
    · rename_i ht
      split at h
      · simp at h
      · rename_i rt rp hrev
        simp only [Outcome.reply.injEq] at h
        exact Or.inl ⟨t, c, rt, rp, hl4, ht, hrev, h.symm⟩
    · simp at h
  · rename_i hl4
    repeat' (split at h)
    all_goals (try (simp at h; done))
    rename_i a hac _ _ rt rp hrev
    simp only [Outcome.reply.injEq] at h
    refine Or.inr ⟨a, rt, rp, hl4, ?_, ?_, ?_, ?_, ?_, hac, ?_, hrev, h.symm⟩ <;> simp_all

/-- **Every reply (NTP, SCMP echo, SCMP traceroute) goes to the previous hop, with source and
    destination ISD-AS, address type and host address exchanged, over the path `Reverse()`
    returned (type and bytes).** -/
theorem C13_reply_addressing (cfg : Cfg) (p : Pkt) (r : Reply) (h : handle cfg p = .reply r) :
    r.nextHop = p.lastHop ∧
    r.srcIA = p.dstIA ∧ r.dstIA = p.srcIA ∧
    r.srcType = p.dstType ∧ r.dstType = p.srcType ∧
    r.srcAddr = p.dstAddr ∧ r.dstAddr = p.srcAddr ∧
    p.rev = some (r.pathType, r.path) := by
  rcases C13_reply_shape cfg p r h with ⟨t, c, rt, rp, _, _, hrev, hr⟩ | ⟨a, rt, rp, _, _, _, _, _, _, _, _, hrev, hr⟩
  · subst hr; simp [scmpReply, mkReply, hrev]
  · subst hr; simp [ntpReply, mkReply, hrev]

/-- SCMP: only echo and traceroute requests are answered, with the matching reply type, code 0,
    the payload echoed intact, the request's traffic class, and no authenticator. -/
theorem C13_reply_scmp (cfg : Cfg) (p : Pkt) (r : Reply) (t c : Nat)
    (hl4 : p.l4 = .scmp t c) (h : handle cfg p = .reply r) :
    ((t = scmpEchoRequest ∧ r.l4 = .scmp scmpEchoReply 0) ∨
     (t = scmpTracerouteRequest ∧ r.l4 = .scmp scmpTracerouteReply 0)) ∧
    r.payload = .echo p.payload ∧ r.tc = p.tc ∧ r.auth = none := by
  rcases C13_reply_shape cfg p r h with ⟨t', c', rt, rp, hl4', ht, _, hr⟩ | ⟨a, rt, rp, hl4', _⟩
  · rw [hl4] at hl4'
    injection hl4' with h1 h2
    subst h1 h2 hr
    simp only [scmpReply, mkReply, and_self, and_true]
    rcases ht with ht | ht
    · left; simp [ht]
    · right; subst ht; simp [scmpTracerouteRequest, scmpEchoRequest]
  · rw [hl4] at hl4'; simp at hl4'

/-- NTP: only a UDP datagram to the service port, on a listener whose service port is not the
    end-host port, with acceptable lengths/addresses and a payload the NTP layer accepts is
    answered; ports exchanged, traffic class `dscp << 2`. -/
theorem C13_reply_udp (cfg : Cfg) (p : Pkt) (r : Reply)
    (hl4 : p.l4 = .udp) (h : handle cfg p = .reply r) :
    r.l4 = .udp ∧ r.srcPort = p.dstPort ∧ r.dstPort = p.srcPort ∧
    p.dstPort = cfg.localHostPort ∧ cfg.localHostPort ≠ EndhostPort ∧
    r.tc = tcOfDscp cfg.dscp ∧ r.payload = .ntpResponse ∧ p.ntpOk = true ∧ p.udpLenOk = true ∧
    addrOk p.srcAddr = true ∧ addrOk p.dstAddr = true := by
  rcases C13_reply_shape cfg p r h with ⟨t', c', rt, rp, hl4', _⟩ | ⟨a, rt, rp, _, h1, h2, h3, h4, h5, _, h6, _, hr⟩
  · rw [hl4] at hl4'; simp at hl4'
  · subst hr
    simp [ntpReply, h1, h2, h3, h4, h5, h6]

/-- The reply carries an authenticator iff the request verified (and is an NTP request); it then
    has the server SPI, the expected algorithm and zeroed timestamp/sequence bytes (the MAC
    itself is the oracle's). -/
theorem C13_reply_auth_iff (cfg : Cfg) (p : Pkt) (r : Reply) (h : handle cfg p = .reply r) :
    (r.auth.isSome ↔ verified cfg p ∧ p.l4 = .udp) ∧
    (∀ m, r.auth = some m → m = [0, 2, 0, 123, 0, 0, 0, 0, 0, 0, 0, 0]) := by
  rcases C13_reply_shape cfg p r h with ⟨t, c, rt, rp, hl4, _, _, hr⟩ | ⟨a, rt, rp, hl4, _, _, _, _, _, hac, _, _, hr⟩
  · subst hr; simp [scmpReply, mkReply, hl4]
  · subst hr
    cases a with
    | false => simp [ntpReply, verified, hac]
    | true =>
      have hv : verified cfg p := hac
      obtain ⟨_, _, d, hd, hlen, _⟩ := (C13_verified_iff cfg p).mp hv
      have h28 : d.length = 28 := hlen
      simp only [ntpReply, hd, Option.map_some, if_true, Option.isSome_some, true_iff, Option.some.injEq]
      refine ⟨⟨hv, hl4⟩, ?_⟩
      intro m hm
      subst hm
      unfold replyAuthMeta authPrepare
      rw [if_neg (by unfold optDataLen; omega)]
      simp [metadataLen, spiServer, algorithm]

/-- SPI decoded from the bytes of `C13_reply_auth_iff` is the server SPI. -/
theorem C13_reply_auth_spi :
    (123 + 0 * 256 + 2 * 65536 + 0 * 16777216 : Nat) = spiServer ∧ spiServer ≠ spiClient := by decide

example : (match handle (serverCfg 10123 30041 46 true true false)
    { lastHop := 1, tc := 9, srcIA := 1, dstIA := 2, srcType := 0, dstType := 3,
      srcAddr := [10, 0, 0, 1], dstAddr := List.replicate 16 1, pathType := 2, path := [1, 2], rev := some (1, [2, 1]),
      l4 := .scmp 128 0, srcPort := 0, dstPort := 0, udpLenOk := true, e2e := false,
      auth := none, mac := none, payload := [5, 6], ntpOk := false } with
    | .reply r => r.pathType == 1 && r.l4 == .scmp 129 0 && r.nextHop == 1
    | _ => false) = true := by decide

/-! ## forwarding -/

/-- **A packet is forwarded iff it is a UDP datagram for another port than the service port,
    received on the end-host port, and not addressed to the end-host port itself.** -/
theorem C13_forward_iff (cfg : Cfg) (p : Pkt) :
    (∃ f, handle cfg p = .forward f) ↔
      (p.l4 = .udp ∧ p.udpLenOk = true ∧ addrOk p.srcAddr = true ∧ addrOk p.dstAddr = true ∧
       p.dstPort ≠ cfg.localHostPort ∧ cfg.connPort = EndhostPort ∧ p.dstPort ≠ EndhostPort) := by
  unfold handle handleG
  constructor
  · rintro ⟨f, h⟩
    repeat' (split at h)
    all_goals (try (simp at h; done))
    simp_all
  · rintro ⟨hl4, hu, hs, hd, hp, hc, he⟩
    simp [hl4, hu, hs, hd, hp, hc, he]

/-- What is forwarded: the packet as received (header, ports, payload unchanged), to the
    destination host and UDP destination port of the packet; never to the end-host port, never
    the listener's own service port. -/
theorem C13_forward_fields (cfg : Cfg) (p : Pkt) (f : Fwd) (h : handle cfg p = .forward f) :
    f.toAddr = p.dstAddr ∧ f.toPort = p.dstPort ∧ f.pkt = p ∧
    f.toPort ≠ EndhostPort ∧ f.toPort ≠ cfg.localHostPort ∧ cfg.connPort = EndhostPort := by
  unfold handle handleG at h
  repeat' (split at h)
  all_goals (try (simp at h; done))
  simp only [Outcome.forward.injEq] at h
  subst h
  simp_all

/-- The socket group bound to the service port never forwards. -/
theorem C13_service_socket_never_forwards (cfg : Cfg) (p : Pkt) (hc : cfg.connPort ≠ EndhostPort) :
    ∀ f, handle cfg p ≠ .forward f := by
  intro f h
  exact hc (C13_forward_fields cfg p f h).2.2.2.2.2

/-- The dispatcher (`StartSCIONDispatcher`) never serves NTP: UDP is forwarded or dropped. -/
theorem C13_dispatcher_never_serves (p : Pkt) (hl4 : p.l4 = .udp) :
    ∀ r, handle dispatcherCfg p ≠ .reply r := by
  intro r h
  have := C13_reply_udp dispatcherCfg p r hl4 h
  exact this.2.2.2.2.1 rfl

example : (match handle (serverCfg 10123 30041 46 true true false)
    { lastHop := 1, tc := 9, srcIA := 1, dstIA := 2, srcType := 0, dstType := 0,
      srcAddr := [10, 0, 0, 1], dstAddr := [127, 0, 13, 3], pathType := 0, path := [], rev := some (0, []),
      l4 := .udp, srcPort := 7, dstPort := 30040, udpLenOk := true, e2e := false,
      auth := none, mac := none, payload := [5, 6], ntpOk := false } with
    | .forward f => f.toPort == 30040 && f.toAddr == [127, 0, 13, 3]
    | _ => false) = true := by decide

end ScionTime.C13
