/-
  C11 (client clause) — the cookie flow of the NTS clients' exchanges, composed with the pool
  (Model/ClientFlow.lean `flowStep` over Model/NtsPool.lean `fetchData` / `storeCookie`).

  One call of `measureClockOffsetIP` / `measureClockOffsetSCION` with NTS takes the head of the
  pool before the request is built (`FetchData`) and afterwards stores exactly the cookies of the ONE
  datagram that passed `ProcessResponse` (C11_recv_loop_pool) — nothing when the exchange is lost,
  times out behind refused datagrams, or fails; in particular the cookie that went into the request
  is never handed back, whether or not the kernel confirmed the transmission.

  * `C11Flow_as_pool_history`: a history of exchanges with ANY outcomes (success with k cookies,
    loss, refused datagrams, missing transmit timestamp, timeout) is a pool history of `request` /
    `store` events (Props/C11.lean `stepEv`).
  * `C11Flow_single_use`: as long as the cookies the server issues are fresh (never seen before in
    the history), no cookie is sent twice and nothing sent is ever back in the pool — for every
    such history.
  * `C11Flow_give_back_refuted`: the variant that returns the request's cookie to the fetcher when
    the transmit timestamp could not be read and the exchange timed out sends the same cookie
    again (eight exchanges later with a full pool; decided on a pool of three and on a pool of eight).
-/
import ScionTime.Model.ClientFlow
import ScionTime.Gen.Client
import ScionTime.Props.C11
namespace ScionTime.Props.C11Flow
open ScionTime.ClientFlow ScionTime.NtsPool ScionTime.C11

/-- the pool events of one exchange: the request, then one store per authenticated cookie -/
def exchEvs (e : Exch) : List Ev := .request :: e.stored.map .store

def toPS (s : Flow) : PS := ⟨s.pool, s.sent⟩

theorem run_append (s : PS) (a b : List Ev) : run s (a ++ b) = run (run s a) b := by
  induction a generalizing s with
  | nil => rfl
  | cons e es ih => simp only [List.cons_append, run]; exact ih _

theorem run_stores (s : PS) (cs : List Nat) : run s (cs.map .store) = ⟨cs.foldl storeCookie s.pool, s.sent⟩ := by
  induction cs generalizing s with
  | nil => rfl
  | cons c cs ih =>
    simp only [List.map_cons, run, stepEv, List.foldl_cons]
    rw [ih]

/-- one exchange of the code is `request` followed by the stores of the authenticated cookies —
    whatever `txFailed` and `timedOut` say -/
theorem flowStep_as_events (s : Flow) (e : Exch) (hne : s.pool ≠ []) :
    toPS (flowStep false s e) = run (toPS s) (exchEvs e) := by
  cases hp : s.pool with
  | nil => exact absurd hp hne
  | cons c rest =>
    simp only [exchEvs, run, stepEv, toPS, flowStep, fetchData, hp, Bool.false_and, Bool.false_eq_true,
      if_false, List.nil_append, List.take_succ_cons, List.take_zero]
    rw [run_stores]

/-- **Histories of exchanges are pool histories.** (An exchange on an empty pool is a key exchange,
    C20: excluded by `NonEmpty`.) -/
def NonEmpty (s : Flow) : List Exch → Prop
  | [] => True
  | e :: es => s.pool ≠ [] ∧ NonEmpty (flowStep false s e) es

theorem C11Flow_as_pool_history (es : List Exch) : ∀ (s : Flow), NonEmpty s es →
    toPS (flowRun false s es) = run (toPS s) (es.flatMap exchEvs) := by
  induction es with
  | nil => intro s _; rfl
  | cons e es ih =>
    intro s h
    simp only [flowRun, List.flatMap_cons, run_append]
    rw [ih _ h.2, flowStep_as_events s e h.1]

/-- **Single use, for every history of exchange outcomes.** Starting from a pool of distinct cookies
    none of which was sent yet, along any sequence of exchanges — successful with any number of
    cookies, lost, refused, with or without a transmit timestamp, timed out — in which the cookies
    of authenticated replies are fresh: no cookie value is sent twice, and no cookie that was sent
    is in the pool afterwards. -/
theorem C11Flow_single_use (es : List Exch) (s : Flow) (hne : NonEmpty s es)
    (hd : (s.pool ++ s.sent).Nodup) (hf : FreshRun (toPS s) (es.flatMap exchEvs)) :
    (flowRun false s es).sent.Nodup ∧ ∀ t ∈ (flowRun false s es).sent, t ∉ (flowRun false s es).pool := by
  have h := C11_single_use (es.flatMap exchEvs) (toPS s) hd hf
  rw [← C11Flow_as_pool_history es s hne] at h
  exact h

/-- non-vacuity: a full pool, a lost exchange without transmit timestamp, two answered ones -/
example : NonEmpty ⟨[1, 2, 3, 4, 5, 6, 7, 8], []⟩ [⟨[], true, true⟩, ⟨[9, 10], false, false⟩, ⟨[11], true, false⟩] ∧
    FreshRun (toPS ⟨[1, 2, 3, 4, 5, 6, 7, 8], []⟩)
      ([⟨[], true, true⟩, ⟨[9, 10], false, false⟩, ⟨[11], true, false⟩].flatMap exchEvs) := by
  simp [NonEmpty, FreshRun, flowStep, exchEvs, stepEv, toPS, fetchData, storeCookie]

/-- **The give-back variant is refuted.** Exchange 1 is lost and its transmit timestamp could not be
    read: the variant stores cookie 1 again; with a pool of two it is sent again in exchange 3
    (with three, the pool just does not shrink), with a full pool of eight and eight answered exchanges (one fresh cookie
    each) in exchange 9. The code never sends a cookie twice on the same histories. -/
theorem C11Flow_give_back_refuted :
    (flowRun true ⟨[1, 2, 3], []⟩ [⟨[], true, true⟩, ⟨[], false, true⟩, ⟨[], false, true⟩]).sent = [1, 2, 3] ∧
    (flowRun true ⟨[1, 2], []⟩ [⟨[], true, true⟩, ⟨[], false, true⟩, ⟨[], false, true⟩]).sent = [1, 2, 1] ∧
    (flowRun true ⟨[1, 2, 3, 4, 5, 6, 7, 8], []⟩
      [⟨[], true, true⟩, ⟨[12], false, false⟩, ⟨[13], false, false⟩, ⟨[14], false, false⟩, ⟨[15], false, false⟩,
       ⟨[16], false, false⟩, ⟨[17], false, false⟩, ⟨[18], false, false⟩, ⟨[19], false, false⟩]).sent =
      [1, 2, 3, 4, 5, 6, 7, 8, 1] ∧
    (flowRun false ⟨[1, 2, 3, 4, 5, 6, 7, 8], []⟩
      [⟨[], true, true⟩, ⟨[12], false, false⟩, ⟨[13], false, false⟩, ⟨[14], false, false⟩, ⟨[15], false, false⟩,
       ⟨[16], false, false⟩, ⟨[17], false, false⟩, ⟨[18], false, false⟩, ⟨[19], false, false⟩]).sent =
      [1, 2, 3, 4, 5, 6, 7, 8, 12] := by decide

/-- **Pin** (regenerated from core/client on every run): the clients themselves never call
    `StoreCookie` — cookies enter the pool through `nts.ProcessResponse` only (`flowStep false`). -/
theorem C11Flow_pin_no_store_in_client : Gen.Client.clientStoreCookieCalls = 0 := by decide

end ScionTime.Props.C11Flow
