/-
  C08 (unit: net/udp txTimestamp, the error-queue twin) — total and panic-free on every
  control buffer that meets the kernel's contract `KernelChain`; outside the contract it can panic
  (decided witnesses). The input is kernel ancillary data (recvmsg MSG_ERRQUEUE), not bytes of a
  peer: the panics are an observation, not a C08 violation.
-/
import ScionTime.Model.UdpTx
import ScionTime.Props.C08Udp
namespace ScionTime.C08UdpTx
open ScionTime.Udp ScionTime.UdpTx

def Good (o : TxOutcome) : Prop :=
  (∃ a b i, o = .ok a b i) ∨ o = .errUnexpectedData ∨ o = .errNotFound

theorem finish_good (st : St) : Good (finish st) := by
  unfold finish Good
  split
  · left; exact ⟨_, _, _, rfl⟩
  · right; right; rfl

theorem cmsgSpace_sub (n : Nat) : cmsgSpace n - cmsgSpace 0 = align8 n := by
  have a0 : align8 0 = 0 := by decide
  unfold cmsgSpace; omega

/-- With fuel at least the buffer length, on a buffer that meets the kernel's contract the walk
    returns a (timestamp, id) pair or one of the two errors: no slice panic, no explicit panic,
    no fuel artefact — for every loop state. -/
theorem C08_udptx_walk_total (oob : List Nat) (hk : KernelChain oob) :
    ∀ (fuel : Nat) (st : St), oob.length ≤ fuel → Good (walk fuel st oob) := by
  induction hk with
  | done oob h =>
    intro fuel st _
    have : oob.length < cmsgSpace 0 := by unfold cmsgSpace align8; omega
    unfold walk; simp only [this, if_true]; exact finish_good st
  | cons oob h16 hfit htriple hrest ih =>
    intro fuel st hf
    unfold walk
    split
    · exact finish_good st
    · rename_i hlen16
      cases fuel with
      | zero =>
        exfalso
        have : cmsgSpace 0 = 16 := by decide
        omega
      | succ f =>
        simp only []
        have hadv : cmsgSpace (leU oob 0 8) - cmsgSpace 0 = align8 (leU oob 0 8) := cmsgSpace_sub _
        have hnext : ∀ st' : St,
            Good (if cmsgSpace (leU oob 0 8) - cmsgSpace 0 > oob.length then TxOutcome.panicSlice
                  else walk f st' (oob.drop (cmsgSpace (leU oob 0 8) - cmsgSpace 0))) := by
          intro st'
          rw [hadv]
          have hng : ¬ (align8 (leU oob 0 8) > oob.length) := by omega
          simp only [hng, if_false]
          apply ih
          simp only [List.length_drop]
          have := C08Udp.align8_ge (leU oob 0 8)
          omega
        split
        · right; left; rfl
        · split
          · rename_i hlev
            split
            · rename_i htyp
              split
              · right; left; rfl
              · rename_i h64
                have h64' : leU oob 0 8 = 64 := by
                  have : cmsgSpace 48 = 64 := by decide
                  rw [this] at h64; exact Decidable.of_not_not h64
                obtain ⟨z1, z2, hz⟩ := htriple hlev htyp h64'
                split
                · rename_i h2
                  have h0 : leI64 oob 16 = 0 ∧ leI64 oob 24 = 0 := by
                    rcases hz with ⟨a, b⟩ | h0
                    · exfalso
                      rcases h2 with h | h
                      · exact h a
                      · exact h b
                    · exact h0
                  have : ¬ (leI64 oob 16 ≠ 0 ∨ leI64 oob 24 ≠ 0 ∨ leI64 oob 32 ≠ 0 ∨ leI64 oob 40 ≠ 0) := by
                    simp [h0.1, h0.2, z1, z2]
                  simp only [this, if_false]
                  exact hnext _
                · have : ¬ (leI64 oob 32 ≠ 0 ∨ leI64 oob 40 ≠ 0) := by simp [z1, z2]
                  simp only [this, if_false]
                  exact hnext _
            · exact hnext _
          · split
            · split
              · right; left; rfl
              · split
                · right; left; rfl
                · split
                  · right; left; rfl
                  · exact hnext _
            · exact hnext _

/-- `txTimestamp` is total and panic-free under the kernel's contract. -/
theorem C08_udptx_no_panic_under_kernel_contract (oob : List Nat) (hk : KernelChain oob) :
    Good (txTimestamp oob) :=
  C08_udptx_walk_total oob hk oob.length {} (Nat.le_refl _)

/-- The fuel artefact never shows, contract or not: the walk always ends within one iteration per
    16 bytes. -/
theorem C08_udptx_terminates (fuel : Nat) (st : St) (oob : List Nat) (h : oob.length ≤ fuel) :
    walk fuel st oob ≠ .fuel := by
  induction fuel generalizing oob st with
  | zero =>
    have : oob.length < cmsgSpace 0 := by unfold cmsgSpace align8; omega
    unfold walk; simp only [this, if_true]
    unfold finish; split <;> simp
  | succ f ih =>
    unfold walk
    have hnext : ∀ st' : St, 16 ≤ leU oob 0 8 →
        (if cmsgSpace (leU oob 0 8) - cmsgSpace 0 > oob.length then TxOutcome.panicSlice
         else walk f st' (oob.drop (cmsgSpace (leU oob 0 8) - cmsgSpace 0))) ≠ .fuel := by
      intro st' h16
      rw [cmsgSpace_sub]
      split
      · simp
      · apply ih
        simp only [List.length_drop]
        have := C08Udp.align8_ge (leU oob 0 8)
        omega
    split
    · unfold finish; split <;> simp
    · simp only []
      split
      · simp
      · rename_i hl
        have h16 : 16 ≤ leU oob 0 8 := by unfold sizeofCmsghdr at hl; omega
        have hwalk : ∀ st' : St,
            walk f st' (oob.drop (cmsgSpace (leU oob 0 8) - cmsgSpace 0)) ≠ .fuel := by
          intro st'
          apply ih
          rw [cmsgSpace_sub]
          simp only [List.length_drop]
          have := C08Udp.align8_ge (leU oob 0 8)
          omega
        repeat' split
        all_goals first | (simp; done) | exact hwalk _ | exact hnext _ h16

/-! ### instances -/

/-- what the kernel queues for a software transmit timestamp of an IPv4 datagram: an
    scm_timestamping triple (ts[0] = 1700000000 s, 5 ns) and an IP_RECVERR message with
    sock_extended_err {ENOMSG, SO_EE_ORIGIN_TIMESTAMPING, data = 7} followed by the offender
    address (48 bytes) -/
def kernelTx : List Nat :=
  [64,0,0,0,0,0,0,0, 1,0,0,0, 65,0,0,0] ++ [0,241,83,101,0,0,0,0, 5,0,0,0,0,0,0,0] ++ List.replicate 32 0 ++
  [48,0,0,0,0,0,0,0, 0,0,0,0, 11,0,0,0] ++ [42,0,0,0, 4,0,0,0, 0,0,0,0, 7,0,0,0] ++ List.replicate 16 0

example : txTimestamp kernelTx = .ok 1700000000 5 7 := by decide

theorem kernelTx_chain : KernelChain kernelTx := by
  refine .cons _ (by decide) (by decide) (by intro _ _ _; decide) ?_
  refine .cons _ (by decide) (by decide) (by intro h; exact absurd h (by decide)) ?_
  exact .done _ (by decide)

/-- Outside the contract (never produced by the kernel): a foreign control message whose length
    17 lies inside a 20-byte buffer but whose aligned length 24 does not ⇒ `oob[24:]` panics —
    the bound check `n > len(oob)` the exported twin received for F10 is missing here. -/
theorem C08_udptx_slice_panic_outside_contract :
    txTimestamp C08Udp.f10Misaligned = .panicSlice ∧ ¬ KernelChain C08Udp.f10Misaligned := by
  refine ⟨by decide, ?_⟩
  intro h
  cases h with
  | done _ h => exact absurd h (by decide)
  | cons _ _ hfit _ _ => exact absurd hfit (by decide)

/-- … and a triple with both ts[0] and ts[2] filled ⇒ the explicit panic. -/
theorem C08_udptx_explicit_panic_outside_contract :
    txTimestamp C08Udp.f10Inconsistent = .panicExplicit ∧ ¬ KernelChain C08Udp.f10Inconsistent := by
  refine ⟨by decide, ?_⟩
  intro h
  cases h with
  | done _ h => exact absurd h (by decide)
  | cons _ _ _ htriple _ =>
    have := htriple (by decide) (by decide) (by decide)
    revert this; decide

end ScionTime.C08UdpTx
