/-
  C05 — clients accept only genuine, matching, authenticated server responses.
  Property theorems; model: ScionTime/Model/ClientNtp.lean (+ NtpMath.lean),
  helper lemmas: ScionTime/Proofs/ClientNtp.lean.

  Scope: the two per-exchange functions and the exported `MeasureClockOffsetIP`.
  The exported SCION wrapper `MeasureClockOffsetSCION` (multi-path, FTM over the per-path
  results; finding F12) is modelled under C15: C05's wrapper-level clause for SCION
  ("success ⇒ some per-path exchange accepted a datagram") depends on that model and on the
  repair of F12; what is proved here for SCION is the per-exchange statement.
-/
import ScionTime.Proofs.ClientNtp
import ScionTime.Gen.Ntp
import ScionTime.Gen.Scion
import ScionTime.Gen.Client
namespace ScionTime.C05
open ScionTime.Time64 ScionTime.NtpMath ScionTime.ClientNtp

/-! ### Pins: the model's constants are those of the current source -/
theorem C05_pin_packetLen : Gen.Ntp.PacketLen = 48 := by decide
theorem C05_pin_modeServer : Gen.Ntp.ModeServer = 4 := by decide
theorem C05_pin_modeClient_versionMax :
    Gen.Ntp.VersionMax * 8 + Gen.Ntp.ModeClient = requestLVM := by decide
theorem C05_pin_leapUnknown : Gen.Ntp.LeapIndicatorUnknown = 3 := by decide
theorem C05_pin_spiServer : Gen.Scion.PacketAuthSPIServer = spiServer := by decide
theorem C05_pin_algorithm : Gen.Scion.PacketAuthAlgorithm = algCMAC := by decide
theorem C05_pin_maxNumRetries :
    Gen.Client.maxNumRetriesIP = maxNumRetries ∧ Gen.Client.maxNumRetriesSCION = maxNumRetries := by
  decide

/-- The conditions of the property on the NTP payload `p` of an accepted datagram, for the
    outstanding request `req`, with `a` the tuple that was evaluated. -/
structure PayloadOk (cfg : Cfg) (req : Req) (p : Payload) (a : Accepted) : Prop where
  /-- at least a whole NTP header -/
  len : 48 ≤ p.len
  /-- echoes the request's transmit timestamp, or — only for an interleaved request — its
      receive timestamp -/
  origin : p.pkt.origin = req.tx ∨ (req.interleaved = true ∧ p.pkt.origin = req.rx)
  mode : mode p.pkt.lvm = 4
  version : version p.pkt.lvm = 3 ∨ version p.pkt.lvm = 4
  leap : leap p.pkt.lvm ≠ 3
  stratum : 1 ≤ p.pkt.stratum ∧ p.pkt.stratum ≤ 15
  /-- transmit time not before receive time (of the tuple that is evaluated) -/
  tx_after_rx : a.t1 ≤ a.t2
  /-- with NTS: decodes, carries the request's unique identifier, opens under the S2C key -/
  nts : cfg.nts = true → p.ntsDecodeOk = true ∧ p.ntsUidEq = true ∧ p.ntsOpenOk = true

theorem C05_payload_ok (cfg : Cfg) (prev : Prev) (req : Req) (cTx1 cRx : Int) (p : Payload)
    (a : Accepted) (h : ntpStage cfg prev req cTx1 cRx p = .accept a) : PayloadOk cfg req p a := by
  obtain ⟨hl, hn, ho, hm, _, _, h12⟩ := ntpStage_accept cfg prev req cTx1 cRx p a h
  obtain ⟨m1, m2, m3, m4, m5⟩ := validMetadata_true _ _ hm
  exact ⟨hl, ho.symm.imp id id |>.elim (fun x => Or.inl x) (fun x => Or.inr x), m3, m2, m1, ⟨m4, m5⟩, h12, hn⟩

/-- **accept_sound_ip**: whatever the IP client accepts comes from the queried server's
    address and meets every listed condition. -/
theorem C05_accept_sound_ip (cfg : Cfg) (server : Nat) (prev : Prev) (req : Req) (cTx1 cRx : Int)
    (d : IpDgram) (a : Accepted) (h : classifyIP cfg server prev req cTx1 cRx d = .accept a) :
    d.src = server ∧ PayloadOk cfg req d.payload a := by
  obtain ⟨hs, hn⟩ := classifyIP_accept cfg server prev req cTx1 cRx d a h
  exact ⟨hs, C05_payload_ok _ _ _ _ _ _ _ hn⟩

/-- non-vacuity: a datagram that is accepted (basic request sent at t = 10 s, reply stamped
    2 s ahead) -/
example :
    let req : Req := ⟨false, zero64, zero64, ofTime 10000000000, 10000000000⟩
    let pkt : NtpPkt := ⟨36, 1, req.tx, ofTime 12000000100, ofTime 12000000200⟩
    (classifyIP ⟨.ip, true, false, true⟩ 7 Prev.init req 10000000050 10000000900
      ⟨7, ⟨48, pkt, true, true, true⟩⟩).isAccept = true := by decide

/-- **accept_sound_scion**: whatever the SCION client accepts is a SCION/UDP packet from the
    queried ISD-AS and host, addressed to the client's ISD-AS and host (`equalsIP`: the header's
    address is of an IP type and is that IP address up to IPv4-mapping — spelled out in
    `C05_scion_accepted_host_is_queried_host` below), authenticated when an
    authenticator with the server SPI and algorithm is present and a key is available, and
    meets every listed condition on the payload. -/
theorem C05_accept_sound_scion (cfg : Cfg) (sc : ScionCtx) (prev : Prev) (req : Req) (cTx1 cRx : Int)
    (d : ScionDgram) (a : Accepted) (h : classifySCION cfg sc prev req cTx1 cRx d = .accept a) :
    d.decodeOk = true ∧ lastLayer d.decoded = some .udp ∧ d.udpLength ≤ d.bufLen ∧
    d.srcIA = sc.remoteIA ∧ equalsIP d.srcHost sc.remoteHost = true ∧
    d.dstIA = sc.localIA ∧ equalsIP d.dstHost sc.localHost = true ∧
    (∀ au, (d.decoded.length ≥ 3 && secondLast d.decoded == some .e2e) = true →
        sc.keyAvailable = true → d.authOpt = some au → au.spi = spiServer → au.alg = algCMAC →
        au.macOk = true) ∧
    PayloadOk cfg req d.payload a := by
  obtain ⟨h1, _, h3, h4, h5, h6, h7, h8, h9, hn⟩ := classifySCION_accept cfg sc prev req cTx1 cRx d a h
  exact ⟨h1, h3, h4, h5, h6, h7, h8, h9, C05_payload_ok _ _ _ _ _ _ _ hn⟩

/-- The authenticator clause is conditional, as in the code: a packet *without* an
    authenticator option is accepted unauthenticated even when a key is available
    (recorded as a limitation of what the client enforces, not a model artefact). -/
example :
    let req : Req := ⟨false, zero64, zero64, ofTime 10000000000, 10000000000⟩
    let pkt : NtpPkt := ⟨36, 1, req.tx, ofTime 12000000100, ofTime 12000000200⟩
    (classifySCION ⟨.scion, true, false, true⟩ ⟨1, [10, 0, 0, 2], 3, [10, 0, 0, 4], true⟩ Prev.init req 10000000050 10000000900
      ⟨true, [.scion, .udp], 100, 56, 1, .v4 10 0 0 2, 3, .v4 10 0 0 4, none, none, ⟨48, pkt, true, true, true⟩⟩).isAccept = true := by
  decide

/-- **never_offset_otherwise** (IP): an exchange yields an offset only through a datagram of
    the delivered sequence that `classifyIP` accepts — hence (accept_sound_ip) one meeting all
    conditions; every other course of the loop ends in an error, a panic, or is still waiting.
    At most two events are consumed (one retry). -/
theorem C05_never_offset_otherwise_ip (cfg : Cfg) (server : Nat) (prev : Prev) (reference : String)
    (now cTx1 : Int) (evs : List (Event IpDgram)) :
    let req := mkRequest cfg prev reference now
    let res := exchangeIP cfg server prev reference now cTx1 evs
    (∀ a n, res.1 = .accepted a n →
      n ≤ 2 ∧ ∃ d cRx b, Event.dgram d cRx b ∈ evs ∧ d.src = server ∧ PayloadOk cfg req d.payload a) ∧
    (res.1.hasOffset = false → res.2 = prev) := by
  intro req res
  have hres : res.1 = runLoop (fun cRx d => classifyIP cfg server prev req cTx1 cRx d) cfg.deadlineSet 0 0 evs := rfl
  constructor
  · intro a n h
    rw [hres] at h
    refine ⟨(runLoop_consumes_le_two _ _ _).1 a n h, ?_⟩
    obtain ⟨d, cRx, b, hm, hc⟩ := runLoop_accepted _ _ _ _ _ _ _ h
    exact ⟨d, cRx, b, hm, C05_accept_sound_ip _ _ _ _ _ _ _ _ hc⟩
  · intro h
    simp only [res, exchangeIP] at h ⊢
    split
    · rename_i heq; rw [heq] at h; simp [Outcome.hasOffset] at h
    · rfl

/-- **never_offset_otherwise** (SCION, per exchange). -/
theorem C05_never_offset_otherwise_scion (cfg : Cfg) (sc : ScionCtx) (prev : Prev) (reference : String)
    (now cTx1 : Int) (evs : List (Event ScionDgram)) :
    let req := mkRequest cfg prev reference now
    let res := exchangeSCION cfg sc prev reference now cTx1 evs
    (∀ a n, res.1 = .accepted a n →
      n ≤ 2 ∧ ∃ d cRx b, Event.dgram d cRx b ∈ evs ∧
        d.srcIA = sc.remoteIA ∧ equalsIP d.srcHost sc.remoteHost = true ∧
        d.dstIA = sc.localIA ∧ equalsIP d.dstHost sc.localHost = true ∧
        PayloadOk cfg req d.payload a) ∧
    (res.1.hasOffset = false → res.2 = prev) := by
  intro req res
  have hres : res.1 = runLoop (fun cRx d => classifySCION cfg sc prev req cTx1 cRx d) cfg.deadlineSet 0 0 evs := rfl
  constructor
  · intro a n h
    rw [hres] at h
    refine ⟨(runLoop_consumes_le_two _ _ _).1 a n h, ?_⟩
    obtain ⟨d, cRx, b, hm, hc⟩ := runLoop_accepted _ _ _ _ _ _ _ h
    obtain ⟨_, _, _, h5, h6, h7, h8, _, hp⟩ := C05_accept_sound_scion _ _ _ _ _ _ _ _ hc
    exact ⟨d, cRx, b, hm, h5, h6, h7, h8, hp⟩
  · intro h
    simp only [res, exchangeSCION] at h ⊢
    split
    · rename_i heq; rw [heq] at h; simp [Outcome.hasOffset] at h
    · rfl

/-- "one retry then error": a second unacceptable datagram ends the exchange with an error. -/
theorem C05_one_retry_then_error {D : Type} (classify : Int → D → Step) (dl : Bool)
    (e1 e2 : Event D) (rest : List (Event D)) (a : Accepted) (n : Nat)
    (h : runLoop classify dl 0 0 (e1 :: e2 :: rest) = .accepted a n) :
    (∃ d cRx b, e1 = .dgram d cRx b ∧ classify cRx d = .accept a) ∨
    (∃ d cRx b, e2 = .dgram d cRx b ∧ classify cRx d = .accept a) := by
  have h2 := (runLoop_consumes_le_two classify dl (e1 :: e2 :: rest)).1 a n h
  cases e1 with
  | readErr b =>
    simp only [runLoop] at h
    split at h
    · right
      rcases runLoop_retried classify dl 1 e2 rest with ⟨a', h'⟩ | ⟨k, h'⟩ | h'
      · cases e2 with
        | dgram d cRx b' =>
          refine ⟨d, cRx, b', rfl, ?_⟩
          simp only [runLoop, mayRetry, maxNumRetries] at h
          cases hc : classify cRx d <;> simp_all
        | readErr b' => simp [runLoop, mayRetry, maxNumRetries] at h'
        | badFlags b' => simp [runLoop, mayRetry, maxNumRetries] at h'
      · rw [h'] at h; cases h
      · rw [h'] at h; cases h
    · cases h
  | badFlags b =>
    simp only [runLoop] at h
    split at h
    · right
      rcases runLoop_retried classify dl 1 e2 rest with ⟨a', h'⟩ | ⟨k, h'⟩ | h'
      · cases e2 with
        | dgram d cRx b' =>
          refine ⟨d, cRx, b', rfl, ?_⟩
          simp only [runLoop, mayRetry, maxNumRetries] at h
          cases hc : classify cRx d <;> simp_all
        | readErr b' => simp [runLoop, mayRetry, maxNumRetries] at h'
        | badFlags b' => simp [runLoop, mayRetry, maxNumRetries] at h'
      · rw [h'] at h; cases h
      · rw [h'] at h; cases h
    · cases h
  | dgram d1 cRx1 b1 =>
    cases hc1 : classify cRx1 d1 with
    | accept a1 =>
      left
      simp only [runLoop, hc1] at h
      injection h with h _
      exact ⟨d1, cRx1, b1, rfl, by rw [hc1, h]⟩
    | fatal k => simp [runLoop, hc1] at h
    | panic => simp [runLoop, hc1] at h
    | skip k =>
      simp only [runLoop, hc1] at h
      split at h
      · right
        rcases runLoop_retried classify dl 1 e2 rest with ⟨a', h'⟩ | ⟨k', h'⟩ | h'
        · cases e2 with
          | dgram d cRx b' =>
            refine ⟨d, cRx, b', rfl, ?_⟩
            simp only [runLoop, mayRetry, maxNumRetries] at h
            cases hc : classify cRx d <;> simp_all
          | readErr b' => simp [runLoop, mayRetry, maxNumRetries] at h'
          | badFlags b' => simp [runLoop, mayRetry, maxNumRetries] at h'
        · rw [h'] at h; cases h
        · rw [h'] at h; cases h
      · cases h

/-! ### Origin clause per request mode (seeded change C05-4 / C05-1: "interleaved" match not
tied to an interleaved request) -/

/-- After a *basic* request the only origin timestamp that is accepted is the request's
    transmit timestamp, and the response is evaluated as a basic one (the tuple is the
    exchange's own: `t0 = cTxTime1`, `t3 = cRxTime`) — whatever the request's receive field
    (zero for a basic request) and the client's stale `prev` contain. -/
theorem C05_basic_request_accepts_only_tx_echo (cfg : Cfg) (prev : Prev) (req : Req) (cTx1 cRx : Int)
    (p : Payload) (a : Accepted) (hb : req.interleaved = false)
    (h : ntpStage cfg prev req cTx1 cRx p = .accept a) :
    p.pkt.origin = req.tx ∧ a.il = false ∧ a.t0 = cTx1 ∧ a.t3 = cRx := by
  obtain ⟨_, _, ho, _, ha, _, _⟩ := ntpStage_accept cfg prev req cTx1 cRx p a h
  refine ⟨?_, ?_, ?_, ?_⟩
  · rcases ho with ⟨hi, _⟩ | ho
    · rw [hb] at hi; cases hi
    · exact ho
  all_goals (subst ha; simp [tupleOf, hb])

/-- In particular a datagram whose origin timestamp is all zero — equal to the receive field
    of every basic request — is never accepted after a basic request built by `mkRequest`
    (its transmit field is `Time64FromTime(cTxTime0)`, non-zero for every clock reading that
    is not exactly the NTP era boundary). -/
theorem C05_zero_origin_never_accepted_after_basic_request (cfg : Cfg) (prev : Prev)
    (reference : String) (now cTx1 cRx : Int) (p : Payload)
    (hb : (mkRequest cfg prev reference now).interleaved = false)
    (hnow : ofTime now ≠ zero64) (hz : p.pkt.origin = zero64) :
    (ntpStage cfg prev (mkRequest cfg prev reference now) cTx1 cRx p).isAccept = false := by
  cases hs : ntpStage cfg prev (mkRequest cfg prev reference now) cTx1 cRx p with
  | accept a =>
    exfalso
    have ho := (C05_basic_request_accepts_only_tx_echo cfg prev _ cTx1 cRx p a hb hs).1
    have htx : (mkRequest cfg prev reference now).tx = ofTime now := by
      unfold mkRequest at hb ⊢
      split
      · rename_i hc; rw [if_pos hc] at hb; cases hb
      · rfl
    rw [hz, htx] at ho
    exact hnow ho.symm
  | skip e => rfl
  | fatal e => rfl
  | panic => rfl

/-- non-vacuity: a client with stale state (last exchange 10 s ago) sends a basic request
    although interleaved mode is on; the zero-origin datagram whose transmit stamp lies just
    after `prev.sRx` (a valid interleaved tuple w.r.t. the stale state) is skipped, the same
    datagram echoing the transmit timestamp is what a basic exchange evaluates. -/
example :
    let prev : Prev := ⟨"S", true, ofTime 10000000000, ofTime 10000050000, ofTime 10000030000⟩
    let cfg : Cfg := ⟨.scion, true, false, true⟩
    let req := mkRequest cfg prev "S" 20000000000
    req.interleaved = false ∧ ofTime 20000000000 ≠ zero64 ∧
    ntpStage cfg prev req 20000000050 20000000900
      ⟨48, ⟨36, 1, zero64, ofTime 20000000100, ofTime 10000050000⟩, true, true, true⟩ = .skip .unexpected ∧
    (ntpStage cfg prev req 20000000050 20000000900
      ⟨48, ⟨36, 1, req.tx, ofTime 20000000100, ofTime 20000000200⟩, true, true, true⟩).isAccept = true := by
  decide

/-- Only an interleaved request lets a response be evaluated against the stored stamps of the
    previous exchange, and then only if it echoes the request's receive timestamp. -/
theorem C05_interleaved_tuple_only_for_interleaved_request (cfg : Cfg) (prev : Prev) (req : Req)
    (cTx1 cRx : Int) (p : Payload) (a : Accepted) (h : ntpStage cfg prev req cTx1 cRx p = .accept a)
    (hil : a.il = true) : req.interleaved = true ∧ p.pkt.origin = req.rx := by
  obtain ⟨_, _, _, _, ha, _, _⟩ := ntpStage_accept cfg prev req cTx1 cRx p a h
  subst ha
  simpa [tupleOf] using hil

/-- non-vacuity: an interleaved request (state 1 s old) answered with an interleaved response
    (origin = the request's receive field, transmit stamp just after `prev.sRx`) is accepted and
    evaluated against the stored stamps. -/
example :
    let prev : Prev := ⟨"S", true, ofTime 10000000000, ofTime 10000050000, ofTime 10000030000⟩
    let cfg : Cfg := ⟨.ip, true, false, true⟩
    let req := mkRequest cfg prev "S" 11000000000
    req.interleaved = true ∧
    (match ntpStage cfg prev req 11000000050 11000000900
      ⟨48, ⟨36, 1, req.rx, ofTime 11000000100, ofTime 10000040000⟩, true, true, true⟩ with
     | .accept a => a.il
     | _ => false) = true := by
  decide

/-! ### Packet authenticator (client clause of C13; seeded change C13-5: extension looked up by
the SCION next-header field) -/

/-- With a key available, a response that carries — in its end-to-end extension, wherever that
    sits behind the SCION header — an authenticator option with the time-service server SPI and
    algorithm whose MAC does not verify is never accepted: the loop skips it (retry once, then
    the error is returned) before the payload is looked at. -/
theorem C05_scion_invalid_authenticator_never_accepted (cfg : Cfg) (sc : ScionCtx) (prev : Prev)
    (req : Req) (cTx1 cRx : Int) (d : ScionDgram) (au : AuthOpt)
    (he : (d.decoded.length ≥ 3 && secondLast d.decoded == some .e2e) = true)
    (hk : sc.keyAvailable = true) (hau : d.authOpt = some au)
    (hspi : au.spi = spiServer) (halg : au.alg = algCMAC) (hmac : au.macOk = false) :
    (classifySCION cfg sc prev req cTx1 cRx d).isAccept = false := by
  cases hs : classifySCION cfg sc prev req cTx1 cRx d with
  | accept a =>
    exfalso
    obtain ⟨_, _, _, _, _, _, _, h8, _⟩ := C05_accept_sound_scion cfg sc prev req cTx1 cRx d a hs
    have := h8 au he hk hau hspi halg
    rw [hmac] at this; cases this
  | skip e => rfl
  | fatal e => rfl
  | panic => rfl

/-- The end-to-end extension is recognised by its position in front of the UDP layer, not by
    the SCION header's next-header field: any layers in front of it (a hop-by-hop extension
    header) do not hide the authenticator. -/
theorem C05_scion_hbh_does_not_hide_authenticator (cfg : Cfg) (sc : ScionCtx) (prev : Prev)
    (req : Req) (cTx1 cRx : Int) (d : ScionDgram) (au : AuthOpt) (pre : List Layer)
    (hpre : pre ≠ []) (hd : d.decoded = pre ++ [.e2e, .udp])
    (hk : sc.keyAvailable = true) (hau : d.authOpt = some au)
    (hspi : au.spi = spiServer) (halg : au.alg = algCMAC) (hmac : au.macOk = false) :
    (classifySCION cfg sc prev req cTx1 cRx d).isAccept = false := by
  apply C05_scion_invalid_authenticator_never_accepted cfg sc prev req cTx1 cRx d au ?_ hk hau hspi halg hmac
  have hlen : 1 ≤ pre.length := by
    cases pre with
    | nil => exact absurd rfl hpre
    | cons x xs => simp
  have hsl : secondLast (pre ++ [Layer.e2e, Layer.udp]) = some .e2e := by
    unfold secondLast
    have : (pre ++ [Layer.e2e, Layer.udp]).dropLast = pre ++ [Layer.e2e] := by
      rw [show pre ++ [Layer.e2e, Layer.udp] = (pre ++ [Layer.e2e]) ++ [Layer.udp] by simp]
      exact List.dropLast_concat
    rw [this]; simp
  rw [hd]
  simp [hsl]
  exact hlen

/-- non-vacuity / the concrete packets of the stream: SCION | HBH | E2E(authenticator, MAC
    wrong) | UDP is skipped with `errInvalidPacketAuthenticator`; the same with a verifying MAC,
    and SCION | HBH | UDP without any authenticator, are accepted. -/
example :
    let req : Req := ⟨false, zero64, zero64, ofTime 10000000000, 10000000000⟩
    let pay : Payload := ⟨48, ⟨36, 1, req.tx, ofTime 12000000100, ofTime 12000000200⟩, true, true, true⟩
    let cfg : Cfg := ⟨.scion, true, false, true⟩
    let sc : ScionCtx := ⟨1, [10, 0, 0, 2], 3, [10, 0, 0, 4], true⟩
    classifySCION cfg sc Prev.init req 10000000050 10000000900
      ⟨true, [.scion, .hbh, .e2e, .udp], 132, 56, 1, .v4 10 0 0 2, 3, .v4 10 0 0 4, none, some ⟨true, spiServer, algCMAC, false⟩, pay⟩
      = .skip .auth ∧
    (classifySCION cfg sc Prev.init req 10000000050 10000000900
      ⟨true, [.scion, .hbh, .e2e, .udp], 132, 56, 1, .v4 10 0 0 2, 3, .v4 10 0 0 4, none, some ⟨true, spiServer, algCMAC, true⟩, pay⟩).isAccept
      = true ∧
    (classifySCION cfg sc Prev.init req 10000000050 10000000900
      ⟨true, [.scion, .hbh, .udp], 100, 56, 1, .v4 10 0 0 2, 3, .v4 10 0 0 4, none, none, pay⟩).isAccept = true := by
  decide

/-! ### The exported `MeasureClockOffsetIP` (up to three attempts) -/

/-- Success of the wrapper stems from a successful attempt: if anything was attempted and the
    result carries no error, the returned timestamp and offset are those of an attempt that
    accepted a response. With nothing but failed attempts the result is an error. -/
theorem C05_wrapper_ip_sound (il : Bool) (atts : List Attempt) (hne : atts ≠ []) :
    let s := wrapIP il atts
    (s.err = none → ∃ inIL, Attempt.ok s.ts s.off inIL ∈ atts) ∧
    ((∀ x ∈ atts, ∃ e, x = .err e) → s.err ≠ none) := by
  -- generalised over the loop state: `nerr = i` as long as no attempt succeeded
  have gen : ∀ (l : List Attempt) (i : Nat) (s : WrapState),
      ((wrapLoop i s l).err = none →
        (s.err = none ∧ (wrapLoop i s l).ts = s.ts ∧ (wrapLoop i s l).off = s.off) ∨
        ∃ inIL, Attempt.ok (wrapLoop i s l).ts (wrapLoop i s l).off inIL ∈ l) ∧
      (s.nerr = i → l ≠ [] → (∀ x ∈ l, ∃ e, x = .err e) → (wrapLoop i s l).err ≠ none) := by
    intro l
    induction l with
    | nil => intro i s; simp [wrapLoop]
    | cons x rest ih =>
      intro i s
      cases x with
      | ok t o b =>
        constructor
        · intro h
          right
          simp only [wrapLoop] at h ⊢
          split
          · exact ⟨b, by simp⟩
          · rename_i hb
            simp only [hb] at h
            rcases (ih (i + 1) { s with ts := t, off := o, err := none }).1 (by simpa using h) with ⟨_, h2, h3⟩ | ⟨b', hm⟩
            · exact ⟨b, by simp [h2, h3]⟩
            · exact ⟨b', List.mem_cons_of_mem _ hm⟩
        · intro _ _ hall
          obtain ⟨e, he⟩ := hall _ List.mem_cons_self
          cases he
      | err e =>
        constructor
        · intro h
          simp only [wrapLoop] at h ⊢
          rcases (ih (i + 1) _).1 h with ⟨h1, h2, h3⟩ | ⟨b', hm⟩
          · left
            refine ⟨?_, h2, h3⟩
            simp only at h1
            split at h1
            · cases h1
            · exact h1
          · right; exact ⟨b', List.mem_cons_of_mem _ hm⟩
        · intro hn _ hall
          simp only [wrapLoop]
          cases rest with
          | nil => simp [wrapLoop, hn]
          | cons y rest' =>
            exact (ih (i + 1) _).2 (by simp [hn]) (by simp) (fun x hx => hall x (List.mem_cons_of_mem _ hx))
  intro s
  have htake : ∀ x ∈ atts.take (if il then 3 else 1), x ∈ atts := fun x hx => List.mem_of_mem_take hx
  have hne' : atts.take (if il then 3 else 1) ≠ [] := by
    cases atts with
    | nil => exact absurd rfl hne
    | cons a r => cases il <;> simp
  constructor
  · intro h
    have h' : (wrapLoop 0 ⟨0, 0, none, 0⟩ (atts.take (if il then 3 else 1))).err = none := h
    show ∃ inIL, Attempt.ok (wrapLoop 0 ⟨0, 0, none, 0⟩ (atts.take (if il then 3 else 1))).ts
      (wrapLoop 0 ⟨0, 0, none, 0⟩ (atts.take (if il then 3 else 1))).off inIL ∈ atts
    generalize atts.take (if il then 3 else 1) = l at hne' htake h' ⊢
    cases l with
    | nil => exact absurd rfl hne'
    | cons x rest =>
      cases x with
      | ok t o b =>
        simp only [wrapLoop] at h' ⊢
        split
        · exact ⟨b, htake _ (by simp)⟩
        · rename_i hb
          simp only [hb] at h'
          rcases (gen rest 1 ⟨t, o, none, 0⟩).1 (by simpa using h') with ⟨_, h2, h3⟩ | ⟨b', hm⟩
          · exact ⟨b, htake _ (by simp [h2, h3])⟩
          · exact ⟨b', htake _ (List.mem_cons_of_mem _ hm)⟩
      | err e =>
        simp only [wrapLoop] at h' ⊢
        rcases (gen rest 1 _).1 h' with ⟨h1, _, _⟩ | ⟨b', hm⟩
        · simp at h1
        · exact ⟨b', htake _ (List.mem_cons_of_mem _ hm)⟩
  · intro hall
    exact (gen _ 0 ⟨0, 0, none, 0⟩).2 rfl hne' (fun x hx => hall x (htake x hx))

/-! ### C08 clause: the network-supplied receive time (SCION E2E timestamp option) -/

/-- As repaired, the receive time the SCION client evaluates lies inside the exchange whatever
    the packet's timestamp option says. -/
theorem C05_scion_rx_time_within_exchange (d : ScionDgram) (cTx1 cRx : Int) (hle : cTx1 ≤ cRx) :
    cTx1 ≤ scionRxTime d cTx1 cRx ∧ scionRxTime d cTx1 cRx ≤ cRx :=
  scionRxTime_within d cTx1 cRx hle

/-- Hence no datagram makes a basic exchange of the SCION client reach
    `panic("unexpected system clock behavior")` (kernel receive time not before the kernel
    transmit time), and — as repaired — none reaches the panic of `PacketAuthOptMetadata`
    either: an authenticator option of any length is handled. For an interleaved response
    `t0`, `t3` are the previous exchange's stored stamps, which by the same bound are ordered
    when they were stored. -/
theorem C05_scion_basic_no_panic (cfg : Cfg) (sc : ScionCtx) (prev : Prev) (req : Req) (cTx1 cRx : Int)
    (d : ScionDgram) (hb : req.interleaved = false) (hle : cTx1 ≤ cRx) :
    classifySCION cfg sc prev req cTx1 cRx d ≠ .panic := by
  have hn := ntpStage_basic_no_panic cfg prev req cTx1 (scionRxTime d cTx1 cRx) d.payload hb
    (scionRxTime_within d cTx1 cRx hle).1
  unfold classifySCION classifySCIONWith
  split
  · simp
  split
  · simp
  split
  · simp
  split
  · simp
  split
  · rename_i hnone; simp [addrCheck] at hnone
  split
  · simp
  dsimp only
  split
  · cases hopt : d.authOpt with
    | none => simpa using hn
    | some au =>
      dsimp only
      split
      · simp
      · split
        · split
          · simp
          · exact hn
        · exact hn
  · exact hn

/-- The code before the fix (client-side twin of F4b): with a key available, a datagram with
    the right addresses whose authenticator option data is not 28 bytes long made the client
    panic — no key is needed to send it (failing input found by the check, sig
    `C08:client:panic-on-datagram`, stream `e2e:auth:len27`); as repaired it is an
    authentication failure. -/
theorem C05_scion_malformed_authenticator_old_counterexample :
    let req : Req := ⟨false, zero64, zero64, ofTime 4000000000000, 4000000000000⟩
    let pkt : NtpPkt := ⟨36, 1, req.tx, ofTime 4000000100000, ofTime 4000000200000⟩
    let d : ScionDgram := ⟨true, [.scion, .e2e, .udp], 160, 56, 1, .v4 10 0 0 2, 3, .v4 10 0 0 4, none, some ⟨false, 0, 0, false⟩,
      ⟨48, pkt, true, true, true⟩⟩
    classifySCIONAuthOld ⟨.scion, true, false, true⟩ ⟨1, [10, 0, 0, 2], 3, [10, 0, 0, 4], true⟩ Prev.init req 4000000050000 4000000900000 d
      = .panic ∧
    classifySCION ⟨.scion, true, false, true⟩ ⟨1, [10, 0, 0, 2], 3, [10, 0, 0, 4], true⟩ Prev.init req 4000000050000 4000000900000 d
      = .skip .auth := by
  decide

/-- The code before the fix: a reply that is genuine except for a timestamp option carrying a
    time one hour before the request makes the client panic (failing input found by the check,
    sig `C08:client-scion:tsopt-early-time`; here with the request sent at t = 4000 s). -/
theorem C05_scion_tsopt_old_counterexample :
    let req : Req := ⟨false, zero64, zero64, ofTime 4000000000000, 4000000000000⟩
    let pkt : NtpPkt := ⟨36, 1, req.tx, ofTime 4000000100000, ofTime 4000000200000⟩
    let d : ScionDgram := ⟨true, [.scion, .e2e, .udp], 160, 56, 1, .v4 10 0 0 2, 3, .v4 10 0 0 4, some 400000000000, none,
      ⟨48, pkt, true, true, true⟩⟩
    classifySCIONOld ⟨.scion, true, false, true⟩ ⟨1, [10, 0, 0, 2], 3, [10, 0, 0, 4], false⟩ Prev.init req 4000000050000 4000000900000 d
      = .panic ∧
    (classifySCION ⟨.scion, true, false, true⟩ ⟨1, [10, 0, 0, 2], 3, [10, 0, 0, 4], false⟩ Prev.init req 4000000050000 4000000900000 d).isAccept
      = true := by
  decide

/-! ### Host addresses of a received SCION header (C05 "from the queried host … addressed to the
client"; C08: the address bytes and the address type are network input) -/

/-- "Equal up to IPv4-mapping", spelled out on the bytes: two slices that `netip.AddrFromSlice`
    and `Unmap` send to the same address are the same slice, or one is the other with the
    twelve bytes `::ffff:` in front. -/
theorem C05_unmapIP_same (x y a : List Nat) (hx : unmapIP x = some a) (hy : unmapIP y = some a) :
    x = y ∨ x = v4mappedPrefix ++ y ∨ y = v4mappedPrefix ++ x := by
  unfold unmapIP at hx hy
  split at hx
  · rename_i lx
    cases hx
    split at hy
    · cases hy; exact Or.inl rfl
    · split at hy
      · rename_i ly
        split at hy
        · rename_i hp
          cases hy
          refine Or.inr (Or.inr ?_)
          rw [← hp]; exact (List.take_append_drop 12 y).symm
        · cases hy; omega
      · cases hy
  · split at hx
    · rename_i lx
      split at hx
      · rename_i hpx
        cases hx
        have lax : (x.drop 12).length = 4 := by simp [lx]
        split at hy
        · rename_i ly
          cases hy
          refine Or.inr (Or.inl ?_)
          rw [← hpx]; exact (List.take_append_drop 12 x).symm
        · split at hy
          · rename_i ly
            split at hy
            · rename_i hpy
              have h : y.drop 12 = x.drop 12 := Option.some.inj hy
              left
              rw [← List.take_append_drop 12 x, ← List.take_append_drop 12 y, hpx, hpy, h]
            · cases hy; omega
          · cases hy
      · cases hx
        split at hy
        · cases hy; omega
        · split at hy
          · rename_i ly
            split at hy
            · have : (y.drop 12).length = 4 := by simp [ly]
              cases hy; omega
            · cases hy; exact Or.inl rfl
          · cases hy
    · cases hx

/-- What `equalsIP` (repaired comparison) accepts: an address of an IP type whose bytes denote
    the same IP address as `ip`, up to IPv4-mapping. -/
theorem C05_equalsIP_sound (h : HostAddr) (ip : List Nat) (he : equalsIP h ip = true) :
    (h.type = t4Ip ∨ h.type = t16Ip) ∧
    (h.raw = ip ∨ h.raw = v4mappedPrefix ++ ip ∨ ip = v4mappedPrefix ++ h.raw) ∧
    (h.raw.length = 4 ∨ h.raw.length = 16) := by
  unfold equalsIP at he
  simp only [Bool.and_eq_true, Bool.or_eq_true, beq_iff_eq] at he
  obtain ⟨ht, hm⟩ := he
  cases hx : unmapIP h.raw with
  | none => rw [hx] at hm; simp at hm
  | some a =>
    cases hy : unmapIP ip with
    | none => rw [hx, hy] at hm; simp at hm
    | some b =>
      rw [hx, hy] at hm
      have hab : a = b := by simpa using hm
      subst hab
      refine ⟨ht, C05_unmapIP_same _ _ _ hx hy, ?_⟩
      unfold unmapIP at hx
      split at hx
      · left; assumption
      · split at hx
        · right; assumption
        · cases hx

/-- **accepted source = queried host**: whatever the SCION client accepts carries, as source, an
    address of an IP type that is the queried server's IP address up to IPv4-mapping, and as
    destination likewise the client's own address. -/
theorem C05_scion_accepted_host_is_queried_host (cfg : Cfg) (sc : ScionCtx) (prev : Prev) (req : Req)
    (cTx1 cRx : Int) (d : ScionDgram) (a : Accepted)
    (h : classifySCION cfg sc prev req cTx1 cRx d = .accept a) :
    ((d.srcHost.type = t4Ip ∨ d.srcHost.type = t16Ip) ∧
      (d.srcHost.raw = sc.remoteHost ∨ d.srcHost.raw = v4mappedPrefix ++ sc.remoteHost ∨
        sc.remoteHost = v4mappedPrefix ++ d.srcHost.raw)) ∧
    ((d.dstHost.type = t4Ip ∨ d.dstHost.type = t16Ip) ∧
      (d.dstHost.raw = sc.localHost ∨ d.dstHost.raw = v4mappedPrefix ++ sc.localHost ∨
        sc.localHost = v4mappedPrefix ++ d.dstHost.raw)) := by
  obtain ⟨_, _, _, _, hs, _, hd, _, _⟩ := C05_accept_sound_scion cfg sc prev req cTx1 cRx d a h
  exact ⟨⟨(C05_equalsIP_sound _ _ hs).1, (C05_equalsIP_sound _ _ hs).2.1⟩,
         ⟨(C05_equalsIP_sound _ _ hd).1, (C05_equalsIP_sound _ _ hd).2.1⟩⟩

/-- non-vacuity, and the shapes of the live stream `c05addr`: the server's IPv4 address in a
    4-byte and in an IPv4-mapped 16-byte header field are the queried host; an IPv6 address that
    merely ends in the server's four bytes (seeded change C05-7: `2001:db8::7f00:1` for
    `127.0.0.1`), a service address with the same bytes, and 8- or 12-byte fields are not. -/
example :
    equalsIP (.v4 127 0 0 1) [127, 0, 0, 1] = true ∧
    equalsIP ⟨t16Ip, v4mappedPrefix ++ [127, 0, 0, 1]⟩ [127, 0, 0, 1] = true ∧
    equalsIP (.v4 127 0 0 1) (v4mappedPrefix ++ [127, 0, 0, 1]) = true ∧
    equalsIP ⟨t16Ip, [0x20, 0x01, 0x0d, 0xb8, 0, 0, 0, 0, 0, 0, 0, 0, 127, 0, 0, 1]⟩ [127, 0, 0, 1] = false ∧
    equalsIP ⟨t16Ip, [0, 0, 0, 0, 0, 0, 0, 0, 0, 0, 0, 0, 127, 0, 0, 1]⟩ [127, 0, 0, 1] = false ∧
    equalsIP ⟨t4Svc, [127, 0, 0, 1]⟩ [127, 0, 0, 1] = false ∧
    equalsIP ⟨1, [127, 0, 0, 1, 0, 0, 0, 0]⟩ [127, 0, 0, 1] = false ∧
    equalsIP ⟨2, [0, 0, 0, 0, 0, 0, 0, 0, 127, 0, 0, 1]⟩ [127, 0, 0, 1] = false := by decide

/-- **foreign or non-IP addresses are skipped**: a datagram that fails the source/destination
    test — other ISD-AS, other host, service address, unassigned type, 8 or 12 address bytes —
    is treated like any other datagram from someone else: the loop skips it (one retry, then
    `errUnexpectedPacket` or an earlier structural error). Never a panic, never accepted, and
    never an error returned at once. -/
theorem C05_scion_foreign_address_is_skipped (cfg : Cfg) (sc : ScionCtx) (prev : Prev) (req : Req)
    (cTx1 cRx : Int) (d : ScionDgram) (h : addrValid sc d = false) :
    ∃ e, classifySCION cfg sc prev req cTx1 cRx d = .skip e := by
  unfold classifySCION classifySCIONWith
  split
  · exact ⟨_, rfl⟩
  split
  · exact ⟨_, rfl⟩
  split
  · exact ⟨_, rfl⟩
  split
  · exact ⟨_, rfl⟩
  split
  · rename_i hn; simp [addrCheck] at hn
  split
  · exact ⟨_, rfl⟩
  · rename_i hv; simp [addrCheck, h] at hv

/-- **no panic through the address comparison** (C08): whatever type and bytes the host
    addresses of a datagram have, if the SCION client's loop body panics at all, the panic is the
    one of `ValidateResponseTimestamps` in the NTP stage — reached only with both addresses
    valid — which `C05_scion_basic_no_panic` excludes for basic exchanges. -/
theorem C05_scion_panic_only_from_timestamps (cfg : Cfg) (sc : ScionCtx) (prev : Prev) (req : Req)
    (cTx1 cRx : Int) (d : ScionDgram) (h : classifySCION cfg sc prev req cTx1 cRx d = .panic) :
    addrValid sc d = true ∧
    ntpStage cfg prev req cTx1 (scionRxTime d cTx1 cRx) d.payload = .panic := by
  unfold classifySCION classifySCIONWith at h
  split at h
  · cases h
  split at h
  · cases h
  split at h
  · cases h
  split at h
  · cases h
  split at h
  · rename_i hn; simp [addrCheck] at hn
  split at h
  · cases h
  rename_i hv
  have hv' : addrValid sc d = true := by simpa [addrCheck] using hv
  refine ⟨hv', ?_⟩
  dsimp only at h
  split at h
  · cases hopt : d.authOpt with
    | none => rw [hopt] at h; exact h
    | some au =>
      rw [hopt] at h
      dsimp only at h
      split at h
      · cases h
      · split at h
        · split at h
          · cases h
          · exact h
        · exact h
  · exact h

/-- The code before the fix (`compareIPs`; client-side twin of F4a). Failing inputs found by the
    check on the unrepaired code (stream `c05addr`, sig `C08:client:panic-on-datagram`, e.g.
    `… ev=s:true:su:96:56:<ria>:t1x7f00000100000000:<lia>:t0x7f000001:…`): a response from the
    queried ISD-AS whose source host field has address type 1 (8 bytes) made the client panic
    ("unexpected IP address byte slice"); as repaired it is skipped. And (sig
    `C05:scion:accepted-response-from-other-host`, `…:t4x7f000001:…`) a *service* address with the
    server's four bytes was taken for the server; as repaired it is skipped as well. -/
theorem C05_scion_compareIPs_old_counterexample :
    let req : Req := ⟨false, zero64, zero64, ofTime 4000000000000, 4000000000000⟩
    let pkt : NtpPkt := ⟨36, 1, req.tx, ofTime 4000000100000, ofTime 4000000200000⟩
    let cfg : Cfg := ⟨.scion, true, false, true⟩
    let sc : ScionCtx := ⟨1, [127, 0, 0, 1], 3, [127, 0, 0, 1], false⟩
    let d8 : ScionDgram := ⟨true, [.scion, .udp], 96, 56, 1, ⟨1, [127, 0, 0, 1, 0, 0, 0, 0]⟩, 3, .v4 127 0 0 1,
      none, none, ⟨48, pkt, true, true, true⟩⟩
    let dsvc : ScionDgram := ⟨true, [.scion, .udp], 92, 56, 1, ⟨t4Svc, [127, 0, 0, 1]⟩, 3, .v4 127 0 0 1,
      none, none, ⟨48, pkt, true, true, true⟩⟩
    classifySCIONAddrOld cfg sc Prev.init req 4000000050000 4000000900000 d8 = .panic ∧
    classifySCION cfg sc Prev.init req 4000000050000 4000000900000 d8 = .skip .unexpected ∧
    (classifySCIONAddrOld cfg sc Prev.init req 4000000050000 4000000900000 dsvc).isAccept = true ∧
    classifySCION cfg sc Prev.init req 4000000050000 4000000900000 dsvc = .skip .unexpected := by
  decide

/-! ### F13: entry of the per-exchange functions -/

/-- As repaired, a local address that is no valid IP slice yields an error — never a result. -/
theorem C05_entry_no_success_without_datagram (iplen : Nat) :
    entry iplen = .proceed ∨ entry iplen = .errAddr := by
  unfold entry; split <;> simp

/-- The code before the fix returned `(time.Time{}, 0, nil)` — a successful measurement of
    offset 0 without any datagram — for `localAddr.IP == nil` (failing input found by the
    check: `cli.badlocal tr=ip iplen=0`). -/
theorem C05_F13_old_counterexample : entryOld 0 = .successZeroOld := by decide

end ScionTime.C05
