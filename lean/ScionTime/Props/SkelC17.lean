import ScionTime.Gen.SkelC17
import ScionTime.Model.Skel.Filters

/-!
  Control-skeleton pins, group C17 (notes/SKEL.md): the control structure and the text of every
  condition, call and assignment of the functions below, re-read from /repo on every run
  (`Gen.Skel.*`, harness/extract/skeleton.go), are exactly the ones the hand-written models were
  written against (`Model.Skel.*`, annotated row by row with the model definition that mirrors
  each statement).  A broken pin means the code was edited inside a modelled function: the model
  has to be re-read against the rows named by the `SKEL-DIFF` diagnostic.
-/
namespace ScionTime

/-! diagnostics (not obligations): name the rows that differ when a pin below breaks -/
#eval Model.Skel.check "Filters.LuckyPacketFilter_Do" Gen.Skel.Filters.LuckyPacketFilter_Do Model.Skel.Filters.LuckyPacketFilter_Do
#eval Model.Skel.check "Filters.LuckyPacketFilter_Reset" Gen.Skel.Filters.LuckyPacketFilter_Reset Model.Skel.Filters.LuckyPacketFilter_Reset
#eval Model.Skel.check "Filters.combine" Gen.Skel.Filters.combine Model.Skel.Filters.combine
#eval Model.Skel.check "Filters.NtimedFilter_Do" Gen.Skel.Filters.NtimedFilter_Do Model.Skel.Filters.NtimedFilter_Do
#eval Model.Skel.check "Filters.NtimedFilter_Reset" Gen.Skel.Filters.NtimedFilter_Reset Model.Skel.Filters.NtimedFilter_Reset

/-! the pins -/
theorem C17_skel_Filters_LuckyPacketFilter_Do : Gen.Skel.Filters.LuckyPacketFilter_Do = Model.Skel.Filters.LuckyPacketFilter_Do := rfl
theorem C17_skel_Filters_LuckyPacketFilter_Reset : Gen.Skel.Filters.LuckyPacketFilter_Reset = Model.Skel.Filters.LuckyPacketFilter_Reset := rfl
theorem C17_skel_Filters_combine : Gen.Skel.Filters.combine = Model.Skel.Filters.combine := rfl
theorem C17_skel_Filters_NtimedFilter_Do : Gen.Skel.Filters.NtimedFilter_Do = Model.Skel.Filters.NtimedFilter_Do := rfl
theorem C17_skel_Filters_NtimedFilter_Reset : Gen.Skel.Filters.NtimedFilter_Reset = Model.Skel.Filters.NtimedFilter_Reset := rfl

end ScionTime
