/-
  C08 (unit: net/udp TimestampFromOOBData) — no byte string can make the control-message
  walk panic or loop.
-/
import ScionTime.Model.Udp
namespace ScionTime.C08Udp
open ScionTime.Udp

theorem timeUnix_ok (s n : Int) : ∃ a b, timeUnix s n = .ok a b := by
  unfold timeUnix
  split
  · simp only []
    split <;> exact ⟨_, _, rfl⟩
  · exact ⟨_, _, rfl⟩

theorem align8_ge (n : Nat) : n ≤ align8 n := by unfold align8; omega

/-- With fuel at least the buffer length the repaired walk never runs out of fuel and
    never panics: every outcome is a timestamp or one of the two errors. -/
theorem C08_udp_walk_total (fuel : Nat) (oob : List Nat) (h : oob.length ≤ fuel) :
    (∃ a b, walkGen true fuel oob = .ok a b) ∨ walkGen true fuel oob = .errUnexpectedData
      ∨ walkGen true fuel oob = .errNotFound := by
  induction fuel generalizing oob with
  | zero =>
    have : oob.length < cmsgSpace 0 := by unfold cmsgSpace align8; omega
    unfold walkGen; simp [this]
  | succ f ih =>
    unfold walkGen
    split
    · right; right; rfl
    · simp only []
      split
      · right; left; rfl
      · rename_i hlenOk
        split
        · split
          · right; left; rfl
          · split
            · split
              · right; left; simp
              · left; exact timeUnix_ok _ _
            · split
              · right; left; simp
              · left; exact timeUnix_ok _ _
        · split
          · split
            · right; left; rfl
            · left; exact timeUnix_ok _ _
          · split
            · right; left; simp
            · rename_i hadv
              apply ih
              simp only [List.length_drop]
              have h16 : sizeofCmsghdr ≤ leU oob 0 8 := by
                unfold sizeofCmsghdr at *; omega
              have := align8_ge (leU oob 0 8)
              unfold cmsgSpace sizeofCmsghdr at *
              have a0 : align8 0 = 0 := by decide
              omega

/-- The exported statement: `TimestampFromOOBData` is total and panic-free on every input. -/
theorem C08_udp_no_panic (oob : List Nat) :
    (∃ a b, timestampFromOOBData oob = .ok a b) ∨ timestampFromOOBData oob = .errUnexpectedData
      ∨ timestampFromOOBData oob = .errNotFound :=
  C08_udp_walk_total oob.length oob (Nat.le_refl _)

/-! Finding F10 — the function at the pinned commit panics on crafted bytes (which reach it
    from the network through the SCION timestamp option). -/

/-- a control message of foreign level whose length 17 is within a 20-byte buffer but whose
    aligned length 24 is not: `oob[24:]` panics. -/
def f10Misaligned : List Nat := [17,0,0,0,0,0,0,0, 9,0,0,0, 9,0,0,0, 0,0,0,0]
theorem C08_udp_old_slice_panic : timestampFromOOBDataOld f10Misaligned = .panicSlice := by decide

/-- a well-formed SO_TIMESTAMPING_NEW message whose third timestamp and first timestamp are
    both non-zero: `panic("unexpected timestamping behavior")`. -/
def f10Inconsistent : List Nat :=
  [64,0,0,0,0,0,0,0, 1,0,0,0, 65,0,0,0] ++ [1,0,0,0,0,0,0,0] ++ List.replicate 24 0 ++ [1,0,0,0,0,0,0,0] ++ List.replicate 8 0
theorem C08_udp_old_explicit_panic : timestampFromOOBDataOld f10Inconsistent = .panicExplicit := by decide

/-- non-vacuity: a genuine kernel-style message decodes to its timestamp. -/
example : timestampFromOOBData
    ([64,0,0,0,0,0,0,0, 1,0,0,0, 65,0,0,0] ++ [5,0,0,0,0,0,0,0] ++ [7,0,0,0,0,0,0,0] ++ List.replicate 32 0)
    = .ok 5 7 := by decide

end ScionTime.C08Udp
