/-
  Kernel-checked ties (C19, C18): the clock object of driver/clocks/sysclk_linux.go as regenerated
  from /repo's Go source on every run (Gen/LeafClocks.lean; leaf translator, eighth generation:
  harness/extract/leaf8.go) against the hand-written model Model/SysClock.lean.

  Regenerated: `setOffset`, `setFrequency` (the two `clock_adjtime` wrappers: the `unix.Timex` literal
  with its `Modes` constants read from the x/sys version go.mod names, `unixutil.TimevalFromNsec`,
  `unixutil.ScaledPPMFromFreq`, the call recorded WITH the structure handed to the kernel, the
  `logbase.Fatal` on error), `(*SystemClock).Epoch`, `Step`, `Adjust` (methods under
  `c.mu.Lock(); defer c.mu.Unlock()` = atomic state transformers; `c.adjustment` a pointer with
  identity; `&adjustment{…}` an allocation; the `go func…` a recorded start), the goroutine's body
  (`clocks_SystemClock_Adjust_go`: `sleep`, then the pointer comparison under the lock) and `Sleep`.

  Views: `sc c w pending` reads a generated clock `c`, the world `w` (allocation counter = the
  model's ghost `nextId`) and the list of started goroutines as a `SysClock.State`; `enc` renders a
  model action as the recorded system action(s): `setOffset o` ↦ `clock_adjtime(CLOCK_REALTIME,
  {Modes: ADJ_SETOFFSET|ADJ_NANO, Time: TimevalFromNsec(o)})`, `setFrequency f` ↦
  `clock_adjtime(CLOCK_REALTIME, {Modes: ADJ_FREQUENCY, Freq: ScaledPPMFromFreq(f)})`.

  PROVED, for all clocks, worlds, arguments (hypothesis: each `clock_adjtime` returned no error —
  the other case is `…_fatal`: the process ends in `logbase.Fatal`):
    `C19_leaf_clock_Step`, `C19_leaf_clock_Adjust`, `C19_leaf_clock_expire`, `C19_leaf_clock_Sleep`,
    `C19_leaf_clock_Epoch`: same new state, same actions in the same order, panic exactly when the
    model panics;
    `C18_leaf_setOffset_timex`, `C18_leaf_setFrequency_timex`: the structure handed to the kernel —
    nanosecond mode, `Time.Usec ∈ [0, 10^9)`, `Sec·10^9 + Usec` = the requested offset (every int64),
    every other field zero; `Freq` = the scaled-ppm conversion of the requested frequency.
  Gap (stated): on a panic the generated outcome carries the message only; that `Step` has already
  set the time when it panics with "epoch overflow" is the model's statement and the live run's
  (harness c19clk), not this tie's.
-/
import ScionTime.Gen.LeafClocks
import ScionTime.Model.SysClock
import ScionTime.Props.LeafC18
import ScionTime.Props.C18
namespace ScionTime.LeafTieC19Clock
open ScionTime ScionTime.Gen.Leaf ScionTime.Go ScionTime.GoLemmas ScionTime.Int64Arith

/-! ### views -/

def adjOf (r : Go.Ref S_adjustment) : SysClock.Adj :=
  { id := r.id, duration := r.val.duration.toInt, afterFreq := r.val.afterFreq }

/-- the generated clock, the world's allocation counter and the started goroutines as a model state -/
def sc (c : S_SystemClock) (w : Go.World) (pending : List SysClock.Adj) : SysClock.State :=
  { epoch := c.epoch.toNat, adjustment := c.adjustment.map adjOf, nextId := w.heap, pending := pending }

/-- `unix.Timex{Modes: unix.ADJ_SETOFFSET | unix.ADJ_NANO, Time: unixutil.TimevalFromNsec(o)}` -/
def offsetTimex (o : Int64) : Go.Timex := { Modes := 0x2100, Time := unixutil_TimevalFromNsec o }

/-- `unix.Timex{Modes: unix.ADJ_FREQUENCY, Freq: unixutil.ScaledPPMFromFreq(f)}` -/
def freqTimex (f : F64.F64) : Go.Timex := { Modes := 2, Freq := unixutil_ScaledPPMFromFreq f }

def goName : String := "clocks_SystemClock_Adjust_go"

/-- a model action as the recorded system actions (the debug record `sleepLog` is not an action) -/
def enc : SysClock.Action → List Go.SysAction
  | .setOffset o => [.clockAdjtime 0 (offsetTimex (Int64.ofInt o))]
  | .setFrequency f => [.clockAdjtime 0 (freqTimex f)]
  | .sleepLog _ => []
  | .sleep d => [.sleep (Int64.ofInt d)]
  | .spawn id _ => [.spawn goName [some id]]

/-! ### the two wrappers: what is handed to the kernel -/

theorem setOffset_ok (o : Int64) (w : Go.World) :
    clocks_setOffset o w false = .ok (w.act (.clockAdjtime 0 (offsetTimex o))) := rfl

theorem setOffset_fatal (o : Int64) (w : Go.World) :
    clocks_setOffset o w true = .panic "fatal: unix.ClockAdjtime failed" := rfl

theorem setFrequency_ok (f : F64.F64) (w : Go.World) :
    clocks_setFrequency f w false = .ok (w.act (.clockAdjtime 0 (freqTimex f))) := rfl

theorem setFrequency_fatal (f : F64.F64) (w : Go.World) :
    clocks_setFrequency f w true = .panic "fatal: unix.ClockAdjtime failed" := rfl

/-- **What `setOffset` hands to the kernel** (C18 "the pair passed to the kernel", C19 "sane
    actuation"), for EVERY int64 offset: one `clock_adjtime(CLOCK_REALTIME, tx)` with
    `tx.Modes = ADJ_SETOFFSET|ADJ_NANO` (0x100 | 0x2000: nanosecond mode), `0 ≤ tx.Time.Usec < 10^9`,
    `tx.Time.Sec·10^9 + tx.Time.Usec` = the offset, and every other field zero. -/
theorem C18_leaf_setOffset_timex (o : Int64) (w : Go.World) :
    ∃ tx, clocks_setOffset o w false = .ok { w with acts := w.acts ++ [.clockAdjtime 0 tx] } ∧
      tx.Modes = 0x100 ||| 0x2000 ∧
      0 ≤ tx.Time.2.toInt ∧ tx.Time.2.toInt < 1000000000 ∧
      tx.Time.1.toInt * 1000000000 + tx.Time.2.toInt = o.toInt ∧
      tx = { Modes := tx.Modes, Time := tx.Time } := by
  refine ⟨offsetTimex o, setOffset_ok o w, (by show (0x2100 : UInt32) = _; decide), ?_, ?_, ?_, rfl⟩
  all_goals
    simp only [offsetTimex, LeafTieC18.C18_leaf_TimevalFromNsec]
    have h := C18.C18_timeval_normal o
    omega

/-- **What `setFrequency` hands to the kernel**: `tx.Modes = ADJ_FREQUENCY`, `tx.Freq` = the
    scaled-ppm conversion of the requested frequency (the model's `scaledPPMFromFreq`: ·65536·10^6,
    truncated as amd64 does), every other field zero. -/
theorem C18_leaf_setFrequency_timex (f : F64.F64) (w : Go.World) :
    ∃ tx, clocks_setFrequency f w false = .ok { w with acts := w.acts ++ [.clockAdjtime 0 tx] } ∧
      tx.Modes = 0x2 ∧ tx.Freq.toInt = FreqDrift.scaledPPMFromFreq f ∧
      tx = { Modes := tx.Modes, Freq := tx.Freq } :=
  ⟨freqTimex f, setFrequency_ok f w, rfl, LeafTieC18.C18_leaf_ScaledPPMFromFreq f, rfl⟩

/-! ### Epoch, Step -/

theorem C19_leaf_clock_Epoch (c : S_SystemClock) (w : Go.World) (p : List SysClock.Adj) :
    (clocks_SystemClock_Epoch c).toNat = SysClock.epoch (sc c w p) := rfl

theorem epoch_max (e : UInt64) : (e == (18446744073709551615 : UInt64)) = decide (e.toNat = SysClock.maxU64) := by
  by_cases h : e = 18446744073709551615
  · subst h; decide
  · have h2 : ¬ e.toNat = SysClock.maxU64 := fun hh => h (UInt64.toNat_inj.mp (by rw [hh]; rfl))
    simp [h, h2]

theorem epoch_succ (e : UInt64) (h : ¬ e.toNat = SysClock.maxU64) : (e + 1).toNat = e.toNat + 1 := by
  have hl := UInt64.toNat_lt e
  unfold SysClock.maxU64 at h
  rw [UInt64.toNat_add]
  have : (1 : UInt64).toNat = 1 := rfl
  rw [this]
  omega

/-- **`(*SystemClock).Step`**: with both `clock_adjtime` calls succeeding, the regenerated method and
    `SysClock.step` reach the same state and perform the same system actions in the same order
    (restoring `afterFreq` first when a slew is registered, then the offset); it panics exactly when
    the model does ("epoch overflow"). -/
theorem C19_leaf_clock_Step (c : S_SystemClock) (o : Int64) (w : Go.World) (p : List SysClock.Adj) :
    match SysClock.step (sc c w p) o.toInt with
    | .ok s acts => ∃ c' w', clocks_SystemClock_Step c o w false false = .ok (c', w') ∧
        sc c' w' p = s ∧ w'.acts = w.acts ++ acts.flatMap enc
    | .panic _ _ _ => clocks_SystemClock_Step c o w false false = .panic "epoch overflow" := by
  have hoo : Int64.ofInt o.toInt = o := Int64.ofInt_toInt o
  cases hadj : c.adjustment with
  | none =>
    by_cases he : c.epoch.toNat = SysClock.maxU64
    · simp [SysClock.step, SysClock.cancelActs, sc, hadj, he, clocks_SystemClock_Step, Go.Out.bind, setOffset_ok,
        epoch_max]
    · simp [SysClock.step, SysClock.cancelActs, sc, hadj, he, clocks_SystemClock_Step, Go.Out.bind, setOffset_ok,
        epoch_max, Go.World.act, enc, hoo]
      exact ⟨_, _, ⟨rfl, rfl⟩, ⟨epoch_succ _ he, rfl, rfl⟩, rfl⟩
  | some r =>
    by_cases he : c.epoch.toNat = SysClock.maxU64
    · simp [SysClock.step, SysClock.cancelActs, sc, hadj, he, clocks_SystemClock_Step, Go.Out.bind, setOffset_ok,
        setFrequency_ok, epoch_max, Go.Ref.deref?, Go.Out.ofOption]
    · simp [SysClock.step, SysClock.cancelActs, sc, hadj, he, clocks_SystemClock_Step, Go.Out.bind, setOffset_ok,
        setFrequency_ok, epoch_max, Go.World.act, enc, hoo, Go.Ref.deref?, Go.Out.ofOption, adjOf]
      exact ⟨_, _, ⟨rfl, rfl⟩, ⟨epoch_succ _ he, rfl, rfl⟩, rfl⟩

/-- a failing `clock_adjtime` in `setOffset` ends the process (`logbase.Fatal`), whatever the state -/
theorem C19_leaf_clock_Step_fatal (c : S_SystemClock) (o : Int64) (w : Go.World) (h : c.adjustment = none) :
    clocks_SystemClock_Step c o w false true = .panic "fatal: unix.ClockAdjtime failed" := by
  simp [clocks_SystemClock_Step, h, Go.Out.bind, setOffset_fatal]

/-! ### Adjust and the expiry goroutine -/

theorem norm_eq (d : Int64) (h : ¬ d < 0) :
    (if ((d / 1000000000) * 1000000000 == (0 : Int64)) = true then (1000000000 : Int64)
      else (d / 1000000000) * 1000000000).toInt = SysClock.normDuration d.toInt := by
  have hk : (1000000000 : Int64).toInt = 1000000000 := by decide
  have h0 : (0 : Int64).toInt = 0 := by decide
  have hl := Int64.le_toInt d
  have hu := Int64.toInt_lt d
  have hd : 0 ≤ d.toInt := by
    rw [Int64.lt_iff_toInt_lt, h0] at h; omega
  have hq : (d / 1000000000).toInt = d.toInt.tdiv 1000000000 := by
    rw [Int64.toInt_div, hk]; apply bmod_id <;>
      (have := Int.tdiv_eq_ediv_of_nonneg hd (b := 1000000000); omega)
  have hdiv := Int.tdiv_eq_ediv_of_nonneg hd (b := 1000000000)
  have hm : ((d / 1000000000) * 1000000000).toInt = d.toInt.tdiv 1000000000 * 1000000000 := by
    rw [Int64.toInt_mul, hq, hk]; apply bmod_id <;> omega
  unfold SysClock.normDuration SysClock.second
  simp only
  by_cases hz : d.toInt.tdiv 1000000000 * 1000000000 = 0
  · have hb : ((d / 1000000000) * 1000000000 == (0 : Int64)) = true := by
      rw [beq_iff_eq]; apply Int64.toInt_inj.mp; rw [hm, hz, h0]
    rw [if_pos hb, if_pos hz, hk]
  · have hb : ¬ ((d / 1000000000) * 1000000000 == (0 : Int64)) = true := by
      rw [beq_iff_eq]; intro hh; apply hz; rw [← hm, hh, h0]
    rw [if_neg hb, if_neg hz, hm]

/-- **`(*SystemClock).Adjust`**: same state (the registered slew with the allocation's identity, the
    whole-second duration, `afterFreq`), same actions (`setFrequency` with
    `frequency + offset.Seconds()/duration.Seconds()`, then the goroutine's start), the same panic. -/
theorem C19_leaf_clock_Adjust (c : S_SystemClock) (o d : Int64) (f : F64.F64) (w : Go.World) (p : List SysClock.Adj) :
    match SysClock.adjust (sc c w p) o.toInt d.toInt f with
    | .ok s acts => ∃ c' w' a, clocks_SystemClock_Adjust c o d f w false = .ok (c', w') ∧
        s.pending = p ++ [a] ∧ sc c' w' (p ++ [a]) = s ∧ w'.acts = w.acts ++ acts.flatMap enc
    | .panic _ _ _ => clocks_SystemClock_Adjust c o d f w false = .panic "invalid duration value" := by
  have h0 : (0 : Int64).toInt = 0 := by decide
  by_cases hd : d < 0
  · have hd' : d.toInt < 0 := by rw [Int64.lt_iff_toInt_lt, h0] at hd; exact hd
    simp [SysClock.adjust, hd', clocks_SystemClock_Adjust, hd]
  · have hd' : ¬ d.toInt < 0 := by rw [Int64.lt_iff_toInt_lt, h0] at hd; exact hd
    have hn := norm_eq d hd
    simp only [SysClock.adjust, hd', if_false, clocks_SystemClock_Adjust, hd, decide_false, Bool.false_eq_true,
      setFrequency_ok, Go.Out.bind, Go.World.alloc, Go.World.act]
    refine ⟨_, _, _, rfl, rfl, ?_, ?_⟩
    · simp only [sc, adjOf, Option.map, hn]
      cases c.adjustment <;> rfl
    · simp only [List.flatMap_cons, List.flatMap_nil, enc, List.append_nil, List.singleton_append,
        SysClock.slewFrequency, ← hn, Go.Ref.id?, Option.map, goName, sc, List.append_assoc]

/-- **The goroutine `Adjust` starts** (`sleep(log, adj.duration)`, then under the clock's mutex
    `if adj == adj.clock.adjustment { setFrequency(log, adj.afterFreq) }`) against `SysClock.expire`:
    for a started goroutine `r` it sleeps its duration and then performs exactly the model's actions —
    `afterFreq` is restored iff the registered adjustment is still THIS object (pointer identity). -/
theorem C19_leaf_clock_expire (c : S_SystemClock) (r : Go.Ref S_adjustment) (w : Go.World) (p : List SysClock.Adj)
    (hp : p.find? (fun a => a.id = r.id) = some (adjOf r)) :
    ∃ acts w', SysClock.expire (sc c w p) r.id =
        some (.ok { sc c w p with pending := p.filter (fun b => b.id ≠ r.id) } acts) ∧
      clocks_SystemClock_Adjust_go c (some r) w false = .ok w' ∧
      w'.acts = w.acts ++ [.sleep r.val.duration] ++ acts.flatMap enc ∧ w'.heap = w.heap := by
  cases hadj : c.adjustment with
  | none =>
    refine ⟨[], { w with acts := w.acts ++ [.sleep r.val.duration] }, ?_, ?_, ?_, rfl⟩
    · simp [SysClock.expire, sc, hp, hadj]
    · simp [clocks_SystemClock_Adjust_go, Go.Ref.deref?, Go.Out.ofOption, Go.Out.bind, hadj, Go.Ref.same, Go.Ref.id?,
        Go.World.act]
    · simp
  | some cur =>
    by_cases hid : cur.id = r.id
    · refine ⟨[.setFrequency r.val.afterFreq],
        { w with acts := w.acts ++ [.sleep r.val.duration] ++ [.clockAdjtime 0 (freqTimex r.val.afterFreq)] }, ?_, ?_, ?_, rfl⟩
      · simp [SysClock.expire, sc, hp, hadj, adjOf, hid]
      · simp [clocks_SystemClock_Adjust_go, Go.Ref.deref?, Go.Out.ofOption, Go.Out.bind, hadj, Go.Ref.same,
          Go.Ref.id?, hid, setFrequency_ok, Go.World.act]
      · simp [enc]
    · refine ⟨[], { w with acts := w.acts ++ [.sleep r.val.duration] }, ?_, ?_, ?_, rfl⟩
      · simp [SysClock.expire, sc, hp, hadj, adjOf, hid]
      · have hid' : ¬ r.id = cur.id := fun h => hid h.symm
        simp [clocks_SystemClock_Adjust_go, Go.Ref.deref?, Go.Out.ofOption, Go.Out.bind, hadj, Go.Ref.same,
          Go.Ref.id?, hid', Go.World.act]
      · simp

/-- a nil adjustment handed to the goroutine would be a nil dereference (never happens: `Adjust`
    passes the pointer it has just stored) -/
theorem C19_leaf_clock_expire_nil (c : S_SystemClock) (w : Go.World) :
    clocks_SystemClock_Adjust_go c none w false = .panic "nil dereference" := rfl

/-! ### Sleep -/

theorem C19_leaf_clock_Sleep (c : S_SystemClock) (d : Int64) (w : Go.World) (p : List SysClock.Adj) :
    match SysClock.sleep (sc c w p) d.toInt with
    | .ok _ acts => ∃ w', clocks_SystemClock_Sleep c d w = .ok w' ∧ w'.acts = w.acts ++ acts.flatMap enc ∧ w'.heap = w.heap
    | .panic _ _ _ => clocks_SystemClock_Sleep c d w = .panic "invalid duration value" := by
  have h0 : (0 : Int64).toInt = 0 := by decide
  by_cases hd : d < 0
  · have hd' : d.toInt < 0 := by rw [Int64.lt_iff_toInt_lt, h0] at hd; exact hd
    simp [SysClock.sleep, hd', clocks_SystemClock_Sleep, hd]
  · have hd' : ¬ d.toInt < 0 := by rw [Int64.lt_iff_toInt_lt, h0] at hd; exact hd
    simp [SysClock.sleep, hd', clocks_SystemClock_Sleep, hd, Go.World.act, enc, Int64.ofInt_toInt]

/-! ### non-vacuity: the generated methods, evaluated -/

def c0 : S_SystemClock := { drift := F64.ofInt 0, epoch := 0, adjustment := none }
def w0 : Go.World := { heap := 0, acts := [] }

/-- `Step(-1 ns)`: the kernel gets `{Sec: -1, Usec: 999999999}` in nanosecond mode; the epoch is 1 -/
example : (match clocks_SystemClock_Step c0 (-1) w0 false false with
    | .ok (c, w) => some (c.epoch, c.adjustment.isNone, w)
    | _ => none) =
    some (1, true, { heap := 0, acts := [.clockAdjtime 0 { Modes := 0x2100, Time := (-1, 999999999) }] }) := by
  decide +kernel

/-- `Adjust(8 ms, 16.5 s, 0)`: frequency 8 ms / 16 s = 500 ppm = 32768000 scaled ppm, the slew is
    registered as object 0 with 16 s, the goroutine is started with it; the goroutine, run on that
    state, sleeps 16 s and restores frequency 0; run after a `Step` it only sleeps. -/
def demoAdj := clocks_SystemClock_Adjust c0 8000000 16500000000 (F64.ofInt 0) w0 false

example : (match demoAdj with
    | .ok (c, w) => some (c.adjustment.map (fun r => (r.id, r.val.duration)), w.heap, w.acts)
    | _ => none) =
    some (some (0, 16000000000), 1,
      [.clockAdjtime 0 { Modes := 2, Freq := 32768000 }, .spawn goName [some 0]]) := by
  decide +kernel

example : (match demoAdj with
    | .ok (c, w) => (match clocks_SystemClock_Adjust_go c c.adjustment { w with acts := [] } false with
        | .ok w' => some w'.acts | _ => none)
    | _ => none) = some [.sleep 16000000000, .clockAdjtime 0 { Modes := 2, Freq := 0 }] := by
  decide +kernel

example : (match demoAdj with
    | .ok (c, w) => (match clocks_SystemClock_Adjust_go { c with adjustment := none } c.adjustment { w with acts := [] } false with
        | .ok w' => some w'.acts | _ => none)
    | _ => none) = some [.sleep 16000000000] := by
  decide +kernel

end ScionTime.LeafTieC19Clock
