/-
  C20 — NTS key exchange: bad offers refused, pool = cookies issued, server/port defaults,
  failures leave no state, re-key only when the pool is empty.
  Model: ScionTime/Model/Ntske.lean (TLS branch of Fetcher.exchangeKeys; ReadData; FetchData;
  StoreCookie; newNTSKEMsg). Helper lemmas: ScionTime/Proofs/Ntske.lean.
  Key agreement itself (both sides export the same values from one TLS session) is a
  property of TLS and is observed by the harness, not proved; what is proved is that the
  keys kept are the exporter outputs of the exchange that succeeded, and the label /
  contexts the code passes to the exporter are RFC 8915's.
-/
import ScionTime.Proofs.Ntske
import ScionTime.Gen.Ntske
import ScionTime.Gen.Ntp
import ScionTime.Model.ClientNtp
namespace ScionTime.C20
open ScionTime.Ntske

/-! ### Pins: the model's constants are those of the current source -/
theorem C20_pin_alpn : Gen.Ntske.alpn = alpnProto := by decide
theorem C20_pin_record_types :
    Gen.Ntske.RecEom = recEom ∧ Gen.Ntske.RecNextproto = recNextproto ∧ Gen.Ntske.RecError = recError ∧
    Gen.Ntske.RecWarning = recWarning ∧ Gen.Ntske.RecAead = recAead ∧ Gen.Ntske.RecCookie = recCookie ∧
    Gen.Ntske.RecServer = recServer ∧ Gen.Ntske.RecPort = recPort := by decide
theorem C20_pin_algorithm : Gen.Ntske.AES_SIV_CMAC_256 = aesSivCmac256 ∧ Gen.Ntske.NTPv4 = ntpv4 := by decide
theorem C20_pin_ntp_ports :
    Gen.Ntp.ServerPortIP = ntpPortIP ∧ Gen.Ntp.ServerPortSCION = ntpPortSCION := by decide
theorem C20_pin_exporter :
    Gen.Ntske.exportLabel = exporterLabel ∧ Gen.Ntske.exportC2SContext = c2sContext ∧
    Gen.Ntske.exportS2CContext = s2cContext ∧ Gen.Ntske.exportLen = exportLen := by decide

/-- RFC 8915 §4.3/§5.1: label "EXPORTER-network-time-security"; context = protocol id
    (0x0000, NTPv4), AEAD id (0x000f, AES-SIV-CMAC-256), then 0x00 for C2S / 0x01 for S2C. -/
theorem C20_exporter_rfc8915 :
    exporterLabel = "EXPORTER-network-time-security" ∧
    c2sContext = u16 ntpv4 ++ u16 aesSivCmac256 ++ [0] ∧
    s2cContext = u16 ntpv4 ++ u16 aesSivCmac256 ++ [1] ∧ exportLen = 32 := by decide

/-! ### success_iff -/

/-- The peer's byte stream consists of the well-formed records `items`, each of which the
    reader accepts (a recognised kind other than error, or an unrecognised kind without the
    critical bit), followed by an end-of-message header; what follows it is not looked at.
    (Every accepted item has a type other than end-of-message, so the header is the *first*
    end-of-message.) -/
def Accepts (stream : List Byte) (items : List Item) : Prop :=
  ∃ (t1 t0 l1 l0 : Byte) (tail : List Byte),
    stream = items.flatMap Item.enc ++ t1 :: t0 :: l1 :: l0 :: tail ∧
    be16 t1 t0 % 32768 = recEom ∧ ∀ it ∈ items, it.wf ∧ it.accepted

theorem C20_exchangeCore_ok_iff (e : Exchange) (d : Data) :
    exchangeCore e = (d, none) ↔
      e.dialOk = true ∧ (e.quic = true ∨ e.alpn = alpnProto) ∧ e.exportOk = true ∧
      ∃ items, Accepts e.stream.flatten items ∧
        (items.foldl Item.apply (dialData e)).algo = aesSivCmac256 ∧
        (items.foldl Item.apply (dialData e)).cookies ≠ [] ∧
        d = { items.foldl Item.apply (dialData e) with c2s := e.c2s, s2c := e.s2c } := by
  unfold exchangeCore exchangeCoreFrom
  by_cases hd : e.dialOk = true
  case neg => simp [hd]
  by_cases ha : e.quic = true ∨ e.alpn = alpnProto
  case neg =>
    simp only [not_or] at ha
    simp [hd, ha]
  have hna : ¬(e.quic = false ∧ e.alpn ≠ alpnProto) := by
    rcases ha with h | h <;> simp [h]
  simp only [hd, Bool.not_true, Bool.false_eq_true, if_false, ha, hna, true_and, ne_eq]
  cases hr : readData e.stream (dialData e) with
  | mk d1 r =>
    cases r with
    | some err =>
      simp only [Prod.mk.injEq, false_iff, not_and, not_exists, reduceCtorEq, and_false]
      rintro _ items ⟨t1, t0, l1, l0, tail, hs, hz, hall⟩ _ _ _
      have : readData e.stream (dialData e) = (items.foldl Item.apply (dialData e), none) := by
        rw [readData_eq_readFlat, readFlat_ok_iff]
        exact ⟨items, t1, t0, l1, l0, tail, hs, hz, hall, rfl⟩
      rw [hr] at this
      cases this
    | none =>
      rw [readData_eq_readFlat, readFlat_ok_iff] at hr
      obtain ⟨items, t1, t0, l1, l0, tail, hs, hz, hall, rfl⟩ := hr
      have huniq : ∀ items', Accepts e.stream.flatten items' →
          items'.foldl Item.apply (dialData e) = items.foldl Item.apply (dialData e) := by
        rintro items' ⟨t1', t0', l1', l0', tail', hs', hz', hall'⟩
        have h1 : readFlat e.stream.flatten (dialData e) = (items'.foldl Item.apply (dialData e), none) := by
          rw [readFlat_ok_iff]; exact ⟨items', t1', t0', l1', l0', tail', hs', hz', hall', rfl⟩
        have h2 : readFlat e.stream.flatten (dialData e) = (items.foldl Item.apply (dialData e), none) := by
          rw [readFlat_ok_iff]; exact ⟨items, t1, t0, l1, l0, tail, hs, hz, hall, rfl⟩
        rw [h1] at h2
        exact (Prod.mk.inj h2).1
      by_cases hx : e.exportOk = true
      case neg => simp [hx]
      simp only [hx, Bool.not_true, Bool.false_eq_true, if_false, true_and]
      by_cases hck : (items.foldl Item.apply (dialData e)).cookies = []
      · simp only [hck, List.isEmpty_nil, if_true, Prod.mk.injEq, reduceCtorEq, and_false, false_iff,
          not_exists, not_and]
        intro items' hacc' _ hne
        rw [huniq items' hacc'] at hne
        exact absurd hck hne
      have hck' : (items.foldl Item.apply (dialData e)).cookies.isEmpty = false := by
        cases h : (items.foldl Item.apply (dialData e)).cookies with
        | nil => exact absurd h hck
        | cons _ _ => rfl
      simp only [hck', Bool.false_eq_true, if_false]
      by_cases hal : (items.foldl Item.apply (dialData e)).algo = aesSivCmac256
      case neg =>
        simp only [hal, not_false_eq_true, if_true, Prod.mk.injEq, reduceCtorEq, and_false, false_iff,
          not_exists, not_and]
        intro items' hacc' h15
        rw [huniq items' hacc'] at h15
        exact absurd h15 hal
      simp only [hal, not_true_eq_false, if_false, Prod.mk.injEq, and_true]
      constructor
      · intro h
        exact ⟨items, ⟨t1, t0, l1, l0, tail, hs, hz, hall⟩, hal, hck, by rw [hal]; exact h.symm⟩
      · rintro ⟨items', hacc', _, _, rfl⟩
        rw [huniq items' hacc', hal]

/-- **success_iff.** A key exchange succeeds — and then replaces the cached data by `d` —
    exactly when the connection was established, the peer negotiated `ntske/1`, the stream up
    to the first end-of-message consists of well-formed records none of which is an error
    record or an unrecognised critical record, the algorithm negotiated is
    AES-SIV-CMAC-256 (15) and at least one cookie was supplied. `d` is then the fold of the
    records over the defaults, with the two exporter values as keys. -/
theorem C20_success_iff (cached : Data) (e : Exchange) (d : Data) :
    exchangeKeys cached e = (d, none) ↔
      e.dialOk = true ∧ (e.quic = true ∨ e.alpn = alpnProto) ∧ e.exportOk = true ∧
      ∃ items, Accepts e.stream.flatten items ∧
        (items.foldl Item.apply (dialData e)).algo = aesSivCmac256 ∧
        (items.foldl Item.apply (dialData e)).cookies ≠ [] ∧
        d = { items.foldl Item.apply (dialData e) with c2s := e.c2s, s2c := e.s2c } := by
  rw [← C20_exchangeCore_ok_iff]
  unfold exchangeKeys
  cases h : exchangeCore e with
  | mk d1 r =>
    cases r with
    | none => simp
    | some err => simp

/-- a concrete successful exchange (segmented inside the cookie, an ignorable record in
    front, garbage after the end-of-message) -/
def exGood : Exchange where
  dialOk := true
  host := [49]
  alpn := "ntske/1"
  stream := [[0, 9, 0, 1, 77, 128, 4, 0, 2, 0, 15, 0, 5, 0, 2, 7], [9, 128, 0, 0, 0, 255]]
  c2s := [1]
  s2c := [2]

example : exchangeKeys {} exGood =
    ({ c2s := [1], s2c := [2], server := [49], port := 123, cookies := [[7, 9]], algo := 15 }, none) := by
  decide

/-- the keys kept after a successful exchange are the two exporter values of that session -/
theorem C20_keys_are_exporter_values (cached : Data) (e : Exchange) (d : Data)
    (h : exchangeKeys cached e = (d, none)) : d.c2s = e.c2s ∧ d.s2c = e.s2c ∧ d.algo = aesSivCmac256 := by
  rw [C20_success_iff] at h
  obtain ⟨_, _, _, items, _, h15, _, rfl⟩ := h
  exact ⟨rfl, rfl, h15⟩

/-! ### noncritical_ignored -/

/-- An unrecognised record without the critical bit, anywhere among the records (after any
    accepted records, before anything whatsoever), changes neither the data nor the verdict,
    under any segmentation of either stream. -/
theorem C20_noncritical_ignored (pre : List Item) (it : Item) (rest : List Byte) (d : Data)
    (hpre : ∀ x ∈ pre, x.wf ∧ x.accepted) (hwf : it.wf) (hig : it.ignorable)
    (c₁ c₂ : List (List Byte))
    (h₁ : c₁.flatten = pre.flatMap Item.enc ++ (it.enc ++ rest))
    (h₂ : c₂.flatten = pre.flatMap Item.enc ++ rest) :
    readData c₁ d = readData c₂ d := by
  rw [readData_eq_readFlat, readData_eq_readFlat, h₁, h₂]
  have hacc : it.accepted := .inr ⟨hig.2.1, hig.2.2.1, hig.2.2.2⟩
  have happ : ∀ d, it.apply d = d := by
    intro d
    obtain ⟨hk, _, _, _⟩ := hig
    unfold Item.apply
    simp only [knownType, not_or] at hk
    simp [hk.2.1, hk.2.2.1, hk.2.2.2.1, hk.2.2.2.2]
  rw [readFlat_eq_iff, runs_items pre _ _ _ hpre, runs_item hwf hacc, happ, ← runs_items pre _ _ _ hpre]
  exact runs_readFlat _ _

example : Item.ignorable ⟨0, 3, 0, 2, [0, 1]⟩ ∧ Item.wf ⟨0, 3, 0, 2, [0, 1]⟩ := by
  refine ⟨⟨?_, ?_, ?_, ?_⟩, ?_⟩ <;> simp [knownType, Item.typ, Item.raw, Item.crit, Item.wf, Item.blen, be16, bodyNeed,
    recEom, recNextproto, recAead, recCookie, recServer, recPort, recError]

/-! ### pool_is_issued, server_port_defaults -/

/-- After a successful exchange the data handed out carries exactly the cookies of the
    stream's cookie records, in stream order, and the pool keeps all but the first. -/
theorem C20_pool_is_issued (cached : Data) (e : Exchange) (d : Data)
    (hempty : cached.cookies = []) (h : exchangeKeys cached e = (d, none)) :
    (∃ items, Accepts e.stream.flatten items ∧
      d.cookies = (items.filter (fun it => it.typ == recCookie)).map Item.body) ∧
    (fetchData cached e).out = .ok d ∧ (fetchData cached e).cached.cookies = d.cookies.drop 1 := by
  constructor
  · rw [C20_success_iff] at h
    obtain ⟨_, _, _, items, hacc, _, _, rfl⟩ := h
    exact ⟨items, hacc, by simp [foldl_apply_cookies, dialData]⟩
  · unfold fetchData fetchWith
    simp [hempty, h]

/-- NTP requests go to the server and port named in the exchange — the last server / port
    record before the end-of-message — and by default to the key-exchange host and the
    standard NTP port (123 over IP, 10123 over SCION). -/
theorem C20_server_port_defaults (cached : Data) (e : Exchange) (d : Data)
    (h : exchangeKeys cached e = (d, none)) :
    ∃ items, Accepts e.stream.flatten items ∧
      ((∀ it ∈ items, it.typ ≠ recServer) → d.server = e.host) ∧
      ((∀ it ∈ items, it.typ ≠ recPort) → d.port = if e.quic then ntpPortSCION else ntpPortIP) ∧
      (∀ pre sv post, items = pre ++ sv :: post → sv.typ = recServer →
        (∀ it ∈ post, it.typ ≠ recServer) → d.server = sv.body) ∧
      (∀ pre pt post, items = pre ++ pt :: post → pt.typ = recPort →
        (∀ it ∈ post, it.typ ≠ recPort) → d.port = be16 (pt.body.getD 0 0) (pt.body.getD 1 0)) := by
  rw [C20_success_iff] at h
  obtain ⟨_, _, _, items, hacc, _, _, rfl⟩ := h
  refine ⟨items, hacc, ?_, ?_, ?_, ?_⟩
  · intro hn; simp [foldl_apply_server items _ hn, dialData]
  · intro hn; simp [foldl_apply_port items _ hn, dialData]
  · rintro pre sv post rfl hsv hpost
    simp only [List.foldl_append, List.foldl_cons]
    rw [foldl_apply_server post _ hpost]
    simp [Item.apply, hsv, recAead, recCookie, recServer]
  · rintro pre pt post rfl hpt hpost
    simp only [List.foldl_append, List.foldl_cons]
    rw [foldl_apply_port post _ hpost]
    simp [Item.apply, hpt, recAead, recCookie, recServer, recPort]

/-! ### The NTP request goes to the server and port named in the exchange (client glue in
core/client/client_ip.go and client_scion.go; model `ClientNtp.ntsDestination`) -/

open ScionTime.ClientNtp in
/-- **request destination**: the NTS-protected request (it carries a cookie of the new
    association) can go to one place only — the IP address that `net.ParseIP` reads from the
    named server (in its 4-byte form when it has one) and the named port. It does not depend on
    what the caller's address object held before (the configured server, or the server named by
    an earlier exchange); and when the named server is no IP literal (`parsed = none`: host name,
    zoned literal, empty, garbage) nothing is sent. -/
theorem C20_nts_request_destination (held held' : List Nat × Nat) (parsed : Option (List Nat)) (port : Nat) :
    ntsDestination held parsed port = ntsDestination held' parsed port ∧
    (∀ ip p, ntsDestination held parsed port = some (ip, p) →
      p = port ∧ ∃ lit, parsed = some lit ∧ unmapIP lit = some ip) ∧
    (parsed = none → ntsDestination held parsed port = none) := by
  refine ⟨rfl, ?_, ?_⟩
  · intro ip p h
    unfold ntsDestination at h
    cases parsed with
    | none => simp at h
    | some lit =>
      simp only [Option.map_eq_some_iff] at h
      obtain ⟨a, ha, hp⟩ := h
      cases hp
      exact ⟨rfl, lit, rfl, ha⟩
  · intro h; subst h; rfl

open ScionTime.ClientNtp in
/-- non-vacuity and the cases of the live stream `c20ntsdest`: `::ffff:127.0.0.2` port 4123 goes
    to 127.0.0.2:4123 whatever was configured; `2001:db8::7f00:1` stays a 16-byte address; a
    server that is no IP literal goes nowhere. -/
example :
    ntsDestination ([127, 0, 0, 1], 123) (some (v4mappedPrefix ++ [127, 0, 0, 2])) 4123 = some ([127, 0, 0, 2], 4123) ∧
    ntsDestination ([127, 0, 0, 1], 123)
      (some [0x20, 0x01, 0x0d, 0xb8, 0, 0, 0, 0, 0, 0, 0, 0, 127, 0, 0, 1]) 123
      = some ([0x20, 0x01, 0x0d, 0xb8, 0, 0, 0, 0, 0, 0, 0, 0, 127, 0, 0, 1], 123) ∧
    ntsDestination ([127, 0, 0, 1], 123) none 4123 = none := by decide

open ScionTime.ClientNtp in
/-- Composition with the key exchange: after a successful exchange the request goes to what
    `net.ParseIP` (a parameter: `parseIP`) makes of the *last server record* of the accepted
    stream and to the port of the *last port record* — never to the configured address when the
    exchange named one. -/
theorem C20_request_goes_to_named_server (parseIP : List Byte → Option (List Nat))
    (cached : Data) (e : Exchange) (d : Data) (held : List Nat × Nat)
    (h : exchangeKeys cached e = (d, none)) :
    ∃ items, Accepts e.stream.flatten items ∧
      (∀ pre sv post, items = pre ++ sv :: post → sv.typ = recServer →
        (∀ it ∈ post, it.typ ≠ recServer) →
        (parseIP sv.body = none → ntsDestination held (parseIP d.server) d.port = none) ∧
        (∀ ip p, ntsDestination held (parseIP d.server) d.port = some (ip, p) →
          ∃ lit, parseIP sv.body = some lit ∧ unmapIP lit = some ip)) ∧
      (∀ pre pt post, items = pre ++ pt :: post → pt.typ = recPort →
        (∀ it ∈ post, it.typ ≠ recPort) →
        ∀ ip p, ntsDestination held (parseIP d.server) d.port = some (ip, p) →
          p = be16 (pt.body.getD 0 0) (pt.body.getD 1 0)) := by
  obtain ⟨items, hacc, _, _, hsv, hpt⟩ := C20_server_port_defaults cached e d h
  refine ⟨items, hacc, ?_, ?_⟩
  · intro pre sv post hi ht hpost
    have hs := hsv pre sv post hi ht hpost
    rw [hs]
    refine ⟨fun hn => by rw [hn]; rfl, ?_⟩
    intro ip p hd
    obtain ⟨_, lit, hl, hu⟩ := (C20_nts_request_destination held held _ _).2.1 ip p hd
    exact ⟨lit, hl, hu⟩
  · intro pre pt post hi ht hpost ip p hd
    have hp := hpt pre pt post hi ht hpost
    obtain ⟨hpp, _⟩ := (C20_nts_request_destination held held _ _).2.1 ip p hd
    rw [hpp, hp]

open ScionTime.ClientNtp in
/-- The SCION client before the fix: a server name that is no IP literal — which an NTS-KE
    server is free to send (RFC 8915 allows a host name) — made the client panic
    (`panic(errUnexpectedAddrType)`; failing input found by the check on the unrepaired code:
    `cli.ntsdest tr=scion parsed=- …` with `ntske.Data{Server: "localhost"}`, sig
    `C08:client:panic-on-key-exchange-data`); as repaired nothing is sent and the call fails. -/
theorem C20_scion_client_old_panics_on_server_name :
    ntsDestinationSCIONOld none 4123 = .panic ∧ ntsDestination ([127, 0, 0, 1], 123) none 4123 = none := by
  decide

/-! ### failure_leaves_nothing, rekey_only_when_empty -/

/-- A failed exchange leaves the cached data exactly as it was. -/
theorem C20_failure_leaves_nothing (cached : Data) (e : Exchange) (c' : Data) (err : ExErr)
    (h : exchangeKeys cached e = (c', some err)) : c' = cached := by
  unfold exchangeKeys at h
  cases hc : exchangeCore e with
  | mk d1 r =>
    rw [hc] at h
    cases r with
    | none => simp at h
    | some _ => simp only [Prod.mk.injEq] at h; exact h.1.symm

/-- `FetchData` performs a key exchange exactly when the pool is empty. -/
theorem C20_rekey_only_when_empty (cached : Data) (e : Exchange) :
    (fetchData cached e).exchanged = true ↔ cached.cookies = [] := by
  unfold fetchData fetchWith
  cases hc : cached.cookies with
  | nil =>
    simp only [List.isEmpty_nil, if_true, iff_true]
    cases exchangeKeys cached e with
    | mk c r => cases r <;> rfl
  | cons _ _ => simp

/-- With a non-empty pool `FetchData` hands out a copy of the cached data, pops one cookie,
    and does not look at the network at all. -/
theorem C20_fetch_from_pool (cached : Data) (e : Exchange) (h : cached.cookies ≠ []) :
    (fetchData cached e).out = .ok cached ∧ (fetchData cached e).exchanged = false ∧
    (fetchData cached e).cached = { cached with cookies := cached.cookies.drop 1 } := by
  unfold fetchData fetchWith
  cases hc : cached.cookies with
  | nil => exact absurd hc h
  | cons _ _ => simp

/-- After a failed `FetchData` (which can only happen with an empty pool) nothing was kept:
    the cached data is unchanged, the pool is still empty, and the next `FetchData` performs
    a complete new exchange whatever the peer does. -/
theorem C20_failed_fetch_then_new_exchange (cached : Data) (e e' : Exchange) (err : ExErr)
    (hfail : (fetchData cached e).out = .error err) :
    (fetchData cached e).cached = cached ∧ cached.cookies = [] ∧
    (fetchData (fetchData cached e).cached e').exchanged = true := by
  have key : (fetchData cached e).cached = cached ∧ cached.cookies = [] := by
    unfold fetchData fetchWith at hfail ⊢
    cases hc : cached.cookies with
    | cons _ _ => rw [hc] at hfail; simp at hfail
    | nil =>
      rw [hc] at hfail
      simp only [List.isEmpty_nil, if_true] at hfail ⊢
      cases hx : exchangeKeys cached e with
      | mk c r =>
        rw [hx] at hfail
        cases r with
        | none => simp at hfail
        | some err' => exact ⟨C20_failure_leaves_nothing cached e c err' hx, trivial⟩
  refine ⟨key.1, key.2, ?_⟩
  rw [key.1, C20_rekey_only_when_empty]
  exact key.2

/-- `FetchData` has no failure of its own: it fails exactly when the pool is empty and the key
    exchange fails, with the exchange's error. (Its body is pinned row by row in `SkelC20`; the
    direct oracle of harness c20 counts a failed `FetchData` whatever its cause.) -/
theorem C20_fetch_fails_iff_exchange_fails (cached : Data) (e : Exchange) (err : ExErr) :
    (fetchData cached e).out = .error err ↔
      cached.cookies = [] ∧ (exchangeKeys cached e).2 = some err := by
  unfold fetchData fetchWith
  cases hc : cached.cookies with
  | cons _ _ => simp
  | nil =>
    simp only [List.isEmpty_nil, if_true, true_and]
    cases hx : exchangeKeys cached e with
    | mk c r =>
      cases r with
      | none => simp
      | some err' => simp

/-- The function at the pinned commit is the variant without a check. -/
theorem C20_postCheck_none (cached : Data) (e : Exchange) :
    fetchDataPostCheck (fun _ => none) cached e = fetchData cached e := by
  unfold fetchDataPostCheck fetchData fetchWith
  split
  · cases hx : exchangeKeys cached e with
    | mk c r => cases r <;> rfl
  · rfl

/-- Why a check placed in `FetchData` behind `exchangeKeys` breaks "a failed exchange leaves nothing
    behind" (seeded C20-17), for EVERY such check and error value: if it refuses the data of an
    exchange that issued at least two cookies, the call fails, yet the refused data stays cached with
    its whole pool, and the next `FetchData` — whatever the peer would do — opens no connection
    and hands out exactly the refused data. -/
theorem C20_postCheck_after_store_refuted (refuse : Data → Option ExErr) (cached d : Data)
    (e e' : Exchange) (err : ExErr) (c1 c2 : List Byte) (rest : List (List Byte))
    (hempty : cached.cookies = []) (hex : exchangeKeys cached e = (d, none))
    (hck : d.cookies = c1 :: c2 :: rest) (hre : refuse d = some err) :
    let r1 := fetchDataPostCheck refuse cached e
    r1.out = .error err ∧ r1.cached = d ∧
    (fetchDataPostCheck refuse r1.cached e').exchanged = false ∧
    (fetchDataPostCheck refuse r1.cached e').out = .ok d := by
  have h1 : fetchDataPostCheck refuse cached e = ⟨d, .error err, true⟩ := by
    unfold fetchDataPostCheck
    simp only [hempty, List.isEmpty_nil, if_true, hex, hre]
  simp only [h1]
  refine ⟨trivial, trivial, ?_, ?_⟩ <;>
  · unfold fetchDataPostCheck
    simp [hck]

/-- a peer nobody can connect to -/
def exBad0 : Exchange where
  dialOk := false
  host := []
  alpn := ""
  stream := []
  c2s := []
  s2c := []

/-- a key-exchange server that names the NTP server "ntp" and issues two cookies -/
def exNamed : Exchange where
  dialOk := true
  host := [49]
  alpn := "ntske/1"
  stream := [[128, 4, 0, 2, 0, 15, 0, 6, 0, 3, 110, 116, 112, 0, 5, 0, 1, 7], [0, 5, 0, 1, 8, 128, 0, 0, 0]]
  c2s := [1]
  s2c := [2]

/-- the refusal of seeded C20-17 on that exchange: attempt 1 fails, attempt 2 (against a peer that
    would fail) "succeeds" without a connection and hands out the refused server name -/
example :
    let refuse : Data → Option ExErr := fun d => if d.server = [110, 116, 112] then some .noNtske else none
    let r1 := fetchDataPostCheck refuse {} exNamed
    r1.out = .error .noNtske ∧ r1.cached.cookies = [[7], [8]] ∧
    (fetchDataPostCheck refuse r1.cached exBad0).exchanged = false ∧
    (fetchDataPostCheck refuse r1.cached exBad0).out =
      .ok { c2s := [1], s2c := [2], server := [110, 116, 112], port := 123, cookies := [[7], [8]], algo := 15 } ∧
    -- the function as it is accepts the name and keeps handing it out
    (fetchData {} exNamed).out =
      .ok { c2s := [1], s2c := [2], server := [110, 116, 112], port := 123, cookies := [[7], [8]], algo := 15 } := by
  decide

/-- a peer that issues a cookie and then an error record (the F8 input) -/
def exBad : Exchange where
  dialOk := true
  host := [49]
  alpn := "ntske/1"
  stream := [[0, 5, 0, 1, 7, 128, 2, 0, 2, 0, 1]]
  c2s := [1]
  s2c := [2]

example : (fetchData {} exBad).out = .error (.read .badRequest) ∧ (fetchData {} exBad).cached = {} := by
  decide

/-- `FetchData` never indexes an empty pool (`f.data.Cookie[1:]`): whenever it returns data,
    that data has at least one cookie. -/
theorem C20_fetch_ok_has_cookie (cached : Data) (e : Exchange) (d : Data)
    (h : (fetchData cached e).out = .ok d) : d.cookies ≠ [] := by
  unfold fetchData fetchWith at h
  cases hc : cached.cookies with
  | cons a l =>
    rw [hc] at h
    simp only [List.isEmpty_cons, Bool.false_eq_true, if_false, FetchOut.ok.injEq] at h
    rw [← h, hc]; simp
  | nil =>
    rw [hc] at h
    simp only [List.isEmpty_nil, if_true] at h
    cases hx : exchangeKeys cached e with
    | mk c r =>
      rw [hx] at h
      cases r with
      | some _ => simp at h
      | none =>
        simp only [FetchOut.ok.injEq] at h
        subst h
        rw [C20_success_iff] at hx
        obtain ⟨_, _, _, items, _, _, hne, rfl⟩ := hx
        exact hne

/-! ### Histories -/

inductive Op where
  | fetch (e : Exchange)
  | store (c : List Byte)

/-- Fetcher state with a ghost: `good` is the data of the most recent successful exchange
    (the zero value before the first one). -/
structure HState where
  cached : Data
  good : Data

def HState.step (s : HState) : Op → HState × Option (FetchOut)
  | .store c => (⟨storeCookie s.cached c, s.good⟩, none)
  | .fetch e =>
    let r := fetchData s.cached e
    (⟨r.cached, match r.exchanged, r.out with
                | true, .ok d => d
                | _, _ => s.good⟩, some r.out)

def HState.run (s : HState) : List Op → HState
  | [] => s
  | op :: ops => (s.step op).1.run ops

/-- One step keeps the session fields of the cache equal to those of the last successful
    exchange, and any data handed out carries them. -/
theorem C20_step_invariant (s : HState) (op : Op) (h : SameSession s.cached s.good) :
    SameSession (s.step op).1.cached (s.step op).1.good ∧
    ∀ d, (s.step op).2 = some (.ok d) → SameSession d (s.step op).1.good := by
  cases op with
  | store c => exact ⟨h, by simp [HState.step]⟩
  | fetch e =>
    simp only [HState.step]
    unfold fetchData fetchWith
    cases hc : s.cached.cookies with
    | cons a l =>
      simp only [List.isEmpty_cons, Bool.false_eq_true, if_false]
      exact ⟨h, by intro d hd; simp only [Option.some.injEq, FetchOut.ok.injEq] at hd; subst hd; exact h⟩
    | nil =>
      simp only [List.isEmpty_nil, if_true]
      cases hx : exchangeKeys s.cached e with
      | mk c r =>
        cases r with
        | some err =>
          have := C20_failure_leaves_nothing _ _ _ _ hx
          subst this
          exact ⟨h, by simp⟩
        | none =>
          simp only [Option.some.injEq, FetchOut.ok.injEq, forall_eq']
          exact ⟨⟨rfl, rfl, rfl, rfl, rfl⟩, ⟨rfl, rfl, rfl, rfl, rfl⟩⟩

/-- **failure leaves nothing behind, over histories.** Along every history of `FetchData`
    (with arbitrary peers: failing, succeeding, in any order) and `StoreCookie` calls on one
    fetcher, the keys, algorithm, server and port in the cache are those of the most recent
    *successful* exchange — never anything a failed exchange delivered. -/
theorem C20_history_invariant (ops : List Op) :
    ∀ s : HState, SameSession s.cached s.good → SameSession (s.run ops).cached (s.run ops).good := by
  induction ops with
  | nil => intro s h; exact h
  | cons op ops ih => intro s h; exact ih _ (C20_step_invariant s op h).1

example : SameSession (HState.mk {} {}).cached (HState.mk {} {}).good := ⟨rfl, rfl, rfl, rfl, rfl⟩

/-! ### The unrepaired code (F8) -/

/-- F8: with the unrepaired `exchangeKeys` an exchange that delivers a cookie and then an
    error record fails but leaves the cookie in the cache; the next `FetchData` performs no
    exchange and hands out data with empty keys and algorithm 0. -/
theorem C20_F8_old_failed_exchange_leaves_state :
    let r1 := fetchDataOld {} exBad
    let r2 := fetchDataOld r1.cached exBad
    r1.out = .error (.read .badRequest) ∧ r1.cached.cookies = [[7]] ∧
    r2.exchanged = false ∧
    r2.out = .ok { server := [49], port := 123, cookies := [[7]] } := by
  decide

/-- a QUIC exchange whose peer names neither server nor port -/
def exQuicNoServerPort : Exchange where
  quic := true
  dialOk := true
  host := [49]
  alpn := "ntske/1"
  stream := [[128, 4, 0, 2, 0, 15, 0, 5, 0, 1, 7, 128, 0, 0, 0]]
  c2s := [1]
  s2c := [2]

/-- F18: the unrepaired QUIC branch discarded the defaults computed by dialQUIC, so a peer
    that names neither server nor port left the client with an empty server and port 0; the
    repaired code falls back to the key-exchange host and the SCION NTP port. -/
theorem C20_F18_old_quic_defaults_dropped :
    (exchangeCoreQUICOld exQuicNoServerPort).1.server = [] ∧ (exchangeCoreQUICOld exQuicNoServerPort).1.port = 0 ∧
    (exchangeCoreQUICOld exQuicNoServerPort).2 = none ∧
    (exchangeCore exQuicNoServerPort).1.server = [49] ∧ (exchangeCore exQuicNoServerPort).1.port = 10123 := by
  decide

/-! ### The server's message -/

/-- What the NTS-KE server sends (next protocol, algorithm, server, port, the cookies, end)
    is accepted by the client under every segmentation, and yields exactly the server's
    address, port and cookies, algorithm 15 and the session's exporter values. -/
theorem C20_server_message_accepted (ip : List Byte) (port : Nat) (cookies : List (List Byte))
    (msg : List Rec) (hmsg : serverMsg ip port cookies = some msg)
    (hip : ip.length < 65536) (hck : ∀ c ∈ cookies, c.length < 65536)
    (e : Exchange) (hd : e.dialOk = true) (ha : e.quic = true ∨ e.alpn = alpnProto) (hx : e.exportOk = true)
    (hs : e.stream.flatten = packMsg msg) (cached : Data) :
    exchangeKeys cached e =
      ({ c2s := e.c2s, s2c := e.s2c, server := ip, port := port % 65536, cookies := cookies,
         algo := aesSivCmac256 }, none) := by
  unfold serverMsg at hmsg
  cases hc : cookies with
  | nil => rw [hc] at hmsg; simp at hmsg
  | cons c0 cs =>
    rw [← hc]
    have hne : cookies.isEmpty = false := by rw [hc]; rfl
    simp only [hne, Bool.false_eq_true, if_false, Option.some.injEq] at hmsg
    have hfit : ∀ r ∈ [Rec.nextProto ntpv4, .algorithm [aesSivCmac256], .server ip false,
        .port (port % 65536) false] ++ cookies.map Rec.cookie, Fits r := by
      intro r hr
      simp only [List.mem_append, List.mem_cons, List.mem_map, List.not_mem_nil, or_false] at hr
      rcases hr with (rfl | rfl | rfl | rfl) | ⟨c, hc, rfl⟩
      · simp [Fits, ntpv4]
      · exact ⟨_, rfl, by decide⟩
      · exact hip
      · exact Nat.mod_lt _ (by decide)
      · exact hck c hc
    have hrd := readData_packed _ hfit e.stream [] (by rw [hs, ← hmsg]; simp) (dialData e)
    have hna : ¬(e.quic = false ∧ e.alpn ≠ alpnProto) := by
      rcases ha with h | h <;> simp [h]
    unfold exchangeKeys exchangeCore exchangeCoreFrom
    simp only [hd, hna, hx, hrd, Bool.not_true, Bool.false_eq_true, if_false, ne_eq]
    simp only [List.foldl_append, List.foldl_cons, List.foldl_nil, foldl_cookie_recs, Rec.apply, dialData,
      List.headD_cons, List.nil_append, hne, Bool.false_eq_true, if_false, not_true_eq_false]

example : serverMsg [49] 123 [[1], [2]] ≠ none := by decide

/-- The client's request (next protocol NTPv4, AES-SIV-CMAC-256, end) is read by the server's
    `ReadData` without error under every segmentation, leaving algorithm 15 and no cookie. -/
theorem C20_client_request_accepted (chunks : List (List Byte)) (h : chunks.flatten = packMsg clientMsg) :
    readData chunks {} = ({ algo := aesSivCmac256 }, none) := by
  have := readData_packed [.nextProto ntpv4, .algorithm [aesSivCmac256]]
    (by intro r hr
        simp only [List.mem_cons, List.not_mem_nil, or_false] at hr
        rcases hr with rfl | rfl
        · simp [Fits, ntpv4]
        · exact ⟨_, rfl, by decide⟩)
    chunks [] (by rw [h]; rfl) {}
  simpa [Rec.apply] using this

end ScionTime.C20
