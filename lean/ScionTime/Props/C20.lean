import ScionTime.Model.Ntske
import ScionTime.Gen.Ntske
namespace ScionTime.C20
open ScionTime.Ntske

theorem C20_pin_alpn : Gen.Ntske.alpn = alpnProto := by decide

end ScionTime.C20
