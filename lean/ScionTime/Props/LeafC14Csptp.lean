/-
  Kernel-checked ties (C14): the CSPTP message codec of net/csptp/csptp.go — `EncodeMessage`,
  `DecodeMessage` — as regenerated from /repo's Go source on every run (Gen/LeafCsptp.lean) is the
  model of Model/CsptpCodec.lean, for every message (whose `Timestamp.Seconds` array has its six
  elements) and every byte slice (shorter than 2^62 bytes). A `[]byte` parameter the function
  writes to is handed back with the result: the caller sees exactly those bytes.
-/
import ScionTime.Gen.LeafCsptp
import ScionTime.Model.CsptpCodec
import ScionTime.Proofs.WireFields
import ScionTime.Proofs.LeafBytes
import ScionTime.Proofs.LeafSlice2
import ScionTime.Proofs.GoPrelude
namespace ScionTime.LeafTieC14Csptp
open ScionTime ScionTime.Gen.Leaf ScionTime.Wire ScionTime.LeafBytes ScionTime.Go ScionTime.GoLemmas

def bytesN (b : List UInt8) : List Nat := b.map UInt8.toNat

/-- view of a generated message as the model's (arrays as their big-endian values) -/
def mv (m : S_Message) : Csptp.Message :=
  { sdoIDMessageType := m.SdoIDMessageType.toNat, ptpVersion := m.PTPVersion.toNat, messageLength := m.MessageLength.toNat,
    domainNumber := m.DomainNumber.toNat, minorSdoID := m.MinorSdoID.toNat, flagField := m.FlagField.toNat,
    correctionField := m.CorrectionField.toInt, messageTypeSpecific := m.MessageTypeSpecific.toNat,
    clockID := m.SourcePortIdentity.ClockID.toNat, port := m.SourcePortIdentity.Port.toNat, sequenceID := m.SequenceID.toNat,
    controlField := m.ControlField.toNat, logMessageInterval := m.LogMessageInterval.toInt,
    timestamp := ⟨beVal (bytesN m.Timestamp.Seconds), m.Timestamp.Nanoseconds.toNat⟩ }

theorem cons_of_le {α : Type} (b : List α) (n : Nat) (h : n + 1 ≤ b.length) : ∃ a r, b = a :: r ∧ n ≤ r.length := by
  cases b with
  | nil => simp at h
  | cons a r => exact ⟨a, r, rfl, by simpa using h⟩

theorem beVal_single (x : Nat) : beVal [x] = x := by simp [beVal]
theorem u8_b (x : UInt8) : x.toNat / 256 ^ 0 % 256 = x.toNat := by
  have := x.toNat_lt; omega
theorem toU8_b (x : Int) : toU 8 x / 256 ^ 0 % 256 = toU 8 x := by
  have := toU_lt8 x; omega

/-- `uint64(x)` / `int64(u)`: two's complement -/
theorem i64_u (x : Int64) : x.toUInt64.toNat = toU 64 x.toInt := by
  have := toNat_toUInt64 x
  unfold toU
  omega
theorem u_i64 (u : UInt64) : u.toInt64.toInt = ofU 64 u.toNat := by
  have h2 : u.toInt64.toInt = u.toInt64.toBitVec.toInt := rfl
  have h3 : u.toInt64.toBitVec.toNat = u.toNat := rfl
  have := u.toNat_lt
  rw [h2, BitVec.toInt_eq_toNat_cond, h3]
  unfold ofU
  simp only [Nat.reducePow, Nat.reduceSub] at this ⊢
  split <;> split <;> omega

theorem len_lt (b : List UInt8) (hb : b.length < 4611686018427387904) (n : Nat) (hn : n < 4611686018427387904) :
    (Go.len b < Int64.ofNat n) ↔ b.length < n := by
  unfold Go.len
  rw [Int64.lt_iff_toInt_lt, Int64.toInt_ofNat_of_lt (by omega), Int64.toInt_ofNat_of_lt (by omega)]
  omega

/-! ### DecodeMessage -/

def decView : Option (S_Message × Bool) → Outcome Csptp.Message
  | none => .panic "index"
  | some (_, true) => .err "size"
  | some (m, false) => .ok (mv m)

theorem C14_leaf_DecodeMessage (msg : S_Message) (b : List UInt8) (hlen : b.length < 4611686018427387904) :
    decView (csptp_DecodeMessage msg b) = Csptp.decodeMessage (bytesN b) := by
  unfold csptp_DecodeMessage Csptp.decodeMessage Csptp.minMessageLength
  have h44 : (44 : Int64) = Int64.ofNat 44 := rfl
  by_cases hshort : b.length < 44
  · have : Go.len b < 44 := by rw [h44]; exact (len_lt b hlen 44 (by omega)).mpr hshort
    simp only [this, decide_true, if_true, bytesN, List.length_map, hshort]
    rfl
  · have : ¬ Go.len b < 44 := by rw [h44]; exact fun h => hshort ((len_lt b hlen 44 (by omega)).mp h)
    simp only [this, decide_false, Bool.false_eq_true, if_false, bytesN, List.length_map, hshort]
    rw [readFields_ok Csptp.msgLayout _ (by simp [Csptp.msgLayout, layoutLen]; omega)]
    have h0 : 43 + 1 ≤ b.length := by omega
    clear hlen hshort this
    revert h0
    generalize b = b0
    intro h0
    obtain ⟨x0, b1, rfl, h1⟩ := cons_of_le b0 43 h0; clear h0
    obtain ⟨x1, b2, rfl, h2⟩ := cons_of_le b1 42 h1; clear h1
    obtain ⟨x2, b3, rfl, h3⟩ := cons_of_le b2 41 h2; clear h2
    obtain ⟨x3, b4, rfl, h4⟩ := cons_of_le b3 40 h3; clear h3
    obtain ⟨x4, b5, rfl, h5⟩ := cons_of_le b4 39 h4; clear h4
    obtain ⟨x5, b6, rfl, h6⟩ := cons_of_le b5 38 h5; clear h5
    obtain ⟨x6, b7, rfl, h7⟩ := cons_of_le b6 37 h6; clear h6
    obtain ⟨x7, b8, rfl, h8⟩ := cons_of_le b7 36 h7; clear h7
    obtain ⟨x8, b9, rfl, h9⟩ := cons_of_le b8 35 h8; clear h8
    obtain ⟨x9, b10, rfl, h10⟩ := cons_of_le b9 34 h9; clear h9
    obtain ⟨x10, b11, rfl, h11⟩ := cons_of_le b10 33 h10; clear h10
    obtain ⟨x11, b12, rfl, h12⟩ := cons_of_le b11 32 h11; clear h11
    obtain ⟨x12, b13, rfl, h13⟩ := cons_of_le b12 31 h12; clear h12
    obtain ⟨x13, b14, rfl, h14⟩ := cons_of_le b13 30 h13; clear h13
    obtain ⟨x14, b15, rfl, h15⟩ := cons_of_le b14 29 h14; clear h14
    obtain ⟨x15, b16, rfl, h16⟩ := cons_of_le b15 28 h15; clear h15
    obtain ⟨x16, b17, rfl, h17⟩ := cons_of_le b16 27 h16; clear h16
    obtain ⟨x17, b18, rfl, h18⟩ := cons_of_le b17 26 h17; clear h17
    obtain ⟨x18, b19, rfl, h19⟩ := cons_of_le b18 25 h18; clear h18
    obtain ⟨x19, b20, rfl, h20⟩ := cons_of_le b19 24 h19; clear h19
    obtain ⟨x20, b21, rfl, h21⟩ := cons_of_le b20 23 h20; clear h20
    obtain ⟨x21, b22, rfl, h22⟩ := cons_of_le b21 22 h21; clear h21
    obtain ⟨x22, b23, rfl, h23⟩ := cons_of_le b22 21 h22; clear h22
    obtain ⟨x23, b24, rfl, h24⟩ := cons_of_le b23 20 h23; clear h23
    obtain ⟨x24, b25, rfl, h25⟩ := cons_of_le b24 19 h24; clear h24
    obtain ⟨x25, b26, rfl, h26⟩ := cons_of_le b25 18 h25; clear h25
    obtain ⟨x26, b27, rfl, h27⟩ := cons_of_le b26 17 h26; clear h26
    obtain ⟨x27, b28, rfl, h28⟩ := cons_of_le b27 16 h27; clear h27
    obtain ⟨x28, b29, rfl, h29⟩ := cons_of_le b28 15 h28; clear h28
    obtain ⟨x29, b30, rfl, h30⟩ := cons_of_le b29 14 h29; clear h29
    obtain ⟨x30, b31, rfl, h31⟩ := cons_of_le b30 13 h30; clear h30
    obtain ⟨x31, b32, rfl, h32⟩ := cons_of_le b31 12 h31; clear h31
    obtain ⟨x32, b33, rfl, h33⟩ := cons_of_le b32 11 h32; clear h32
    obtain ⟨x33, b34, rfl, h34⟩ := cons_of_le b33 10 h33; clear h33
    obtain ⟨x34, b35, rfl, h35⟩ := cons_of_le b34 9 h34; clear h34
    obtain ⟨x35, b36, rfl, h36⟩ := cons_of_le b35 8 h35; clear h35
    obtain ⟨x36, b37, rfl, h37⟩ := cons_of_le b36 7 h36; clear h36
    obtain ⟨x37, b38, rfl, h38⟩ := cons_of_le b37 6 h37; clear h37
    obtain ⟨x38, b39, rfl, h39⟩ := cons_of_le b38 5 h38; clear h38
    obtain ⟨x39, b40, rfl, h40⟩ := cons_of_le b39 4 h39; clear h39
    obtain ⟨x40, b41, rfl, h41⟩ := cons_of_le b40 3 h40; clear h40
    obtain ⟨x41, b42, rfl, h42⟩ := cons_of_le b41 2 h41; clear h41
    obtain ⟨x42, b43, rfl, h43⟩ := cons_of_le b42 1 h42; clear h42
    obtain ⟨x43, b44, rfl, h44⟩ := cons_of_le b43 0 h43; clear h43
    simp only [Go.getK?, List.getElem?_cons_succ, List.getElem?_cons_zero, Option.bind, decView]
    simp only [mv, bytesN, be16, be32, be64, u8_i8, u_i64, Csptp.msgLayout, fieldsOf, List.map_cons, List.map_nil, List.take_succ_cons,
      List.take_zero, List.drop_succ_cons, List.drop_zero, Csptp.msgOfFields, beVal_single]

/-! ### EncodeMessage -/

def encView : Option (List UInt8) → Outcome (List Nat)
  | none => .panic "index"
  | some l => .ok (bytesN l)

/-- the 44 bytes `EncodeMessage` writes, in order (copied from the generated definition; the proof
    below checks by `rfl` that they are what it writes) -/
def encBytes (msg : S_Message) : List UInt8 :=
  [msg.SdoIDMessageType,
      msg.PTPVersion,
      (((msg.MessageLength >>> (8 : UInt16))).toUInt64.toUInt8),
      ((msg.MessageLength).toUInt64.toUInt8),
      msg.DomainNumber,
      msg.MinorSdoID,
      (((msg.FlagField >>> (8 : UInt16))).toUInt64.toUInt8),
      ((msg.FlagField).toUInt64.toUInt8),
      (((((msg.CorrectionField).toUInt64) >>> (56 : UInt64))).toUInt8),
      (((((msg.CorrectionField).toUInt64) >>> (48 : UInt64))).toUInt8),
      (((((msg.CorrectionField).toUInt64) >>> (40 : UInt64))).toUInt8),
      (((((msg.CorrectionField).toUInt64) >>> (32 : UInt64))).toUInt8),
      (((((msg.CorrectionField).toUInt64) >>> (24 : UInt64))).toUInt8),
      (((((msg.CorrectionField).toUInt64) >>> (16 : UInt64))).toUInt8),
      (((((msg.CorrectionField).toUInt64) >>> (8 : UInt64))).toUInt8),
      ((((msg.CorrectionField).toUInt64)).toUInt8),
      (((msg.MessageTypeSpecific >>> (24 : UInt32))).toUInt64.toUInt8),
      (((msg.MessageTypeSpecific >>> (16 : UInt32))).toUInt64.toUInt8),
      (((msg.MessageTypeSpecific >>> (8 : UInt32))).toUInt64.toUInt8),
      ((msg.MessageTypeSpecific).toUInt64.toUInt8),
      (((msg.SourcePortIdentity.ClockID >>> (56 : UInt64))).toUInt8),
      (((msg.SourcePortIdentity.ClockID >>> (48 : UInt64))).toUInt8),
      (((msg.SourcePortIdentity.ClockID >>> (40 : UInt64))).toUInt8),
      (((msg.SourcePortIdentity.ClockID >>> (32 : UInt64))).toUInt8),
      (((msg.SourcePortIdentity.ClockID >>> (24 : UInt64))).toUInt8),
      (((msg.SourcePortIdentity.ClockID >>> (16 : UInt64))).toUInt8),
      (((msg.SourcePortIdentity.ClockID >>> (8 : UInt64))).toUInt8),
      ((msg.SourcePortIdentity.ClockID).toUInt8),
      (((msg.SourcePortIdentity.Port >>> (8 : UInt16))).toUInt64.toUInt8),
      ((msg.SourcePortIdentity.Port).toUInt64.toUInt8),
      (((msg.SequenceID >>> (8 : UInt16))).toUInt64.toUInt8),
      ((msg.SequenceID).toUInt64.toUInt8),
      msg.ControlField,
      ((msg.LogMessageInterval).toInt64.toUInt64.toUInt8),
      (Go.arrGet msg.Timestamp.Seconds 0 (0 : UInt8)),
      (Go.arrGet msg.Timestamp.Seconds 1 (0 : UInt8)),
      (Go.arrGet msg.Timestamp.Seconds 2 (0 : UInt8)),
      (Go.arrGet msg.Timestamp.Seconds 3 (0 : UInt8)),
      (Go.arrGet msg.Timestamp.Seconds 4 (0 : UInt8)),
      (Go.arrGet msg.Timestamp.Seconds 5 (0 : UInt8)),
      (((msg.Timestamp.Nanoseconds >>> (24 : UInt32))).toUInt64.toUInt8),
      (((msg.Timestamp.Nanoseconds >>> (16 : UInt32))).toUInt64.toUInt8),
      (((msg.Timestamp.Nanoseconds >>> (8 : UInt32))).toUInt64.toUInt8),
      ((msg.Timestamp.Nanoseconds).toUInt64.toUInt8)]

theorem list6 {α : Type} (l : List α) (h : l.length = 6) : ∃ a b c d e f, l = [a, b, c, d, e, f] := by
  match l, h with
  | [a, b, c, d, e, f], _ => exact ⟨a, b, c, d, e, f, rfl⟩

theorem allBytes_bytesN (l : List UInt8) : AllBytes (bytesN l) := by
  intro x hx
  obtain ⟨y, _, rfl⟩ := List.mem_map.mp hx
  exact y.toNat_lt

theorem encBytes_eq (msg : S_Message) (h6 : msg.Timestamp.Seconds.length = 6) :
    bytesN (encBytes msg) = Csptp.messageBytes (mv msg) := by
  obtain ⟨s0, s1, s2, s3, s4, s5, hs⟩ := list6 _ h6
  have hsec : beBytes 6 (beVal (bytesN [s0, s1, s2, s3, s4, s5])) = bytesN [s0, s1, s2, s3, s4, s5] :=
    beBytes_beVal (bytesN [s0, s1, s2, s3, s4, s5]) (allBytes_bytesN _)
  simp only [encBytes, Csptp.messageBytes, Csptp.msgLayout, Csptp.msgToFields, mv, hs, encodeFields, hsec]
  simp only [bytesN, List.map_cons, List.map_nil, Go.arrGet, List.getD_cons_zero, List.getD_cons_succ, beBytes, List.cons_append,
    List.nil_append, List.append_nil, u16_b1, u32_b3, u32_b2, u32_b1, i8_b, u8_b, toU8_b,
    u64_b7, u64_b6, u64_b5, u64_b4, u64_b3, u64_b2, u64_b1, i64_u]
  simp only [u64_b0, i64_u, UInt16.toNat_toUInt64, UInt32.toNat_toUInt64]

/-- **EncodeMessage**: index panic (the bounds hint `_ = b[43]`) on a buffer shorter than 44 bytes;
    otherwise bytes 0..43 are the model's header bytes and the rest of the buffer is untouched -/
theorem C14_leaf_EncodeMessage (b : List UInt8) (msg : S_Message) (h6 : msg.Timestamp.Seconds.length = 6) :
    encView (csptp_EncodeMessage b msg) = Csptp.encodeMessage (bytesN b) (mv msg) := by
  have hshape : csptp_EncodeMessage b msg = (Go.getK? b 43).bind fun _ => GoSlice.writeSeqL b 0 (encBytes msg) := rfl
  have hl : (encBytes msg).length = 44 := rfl
  have hml : (Csptp.messageBytes (mv msg)).length = 44 := by rw [← encBytes_eq msg h6]; simp [bytesN, hl]
  rw [hshape]
  unfold Csptp.encodeMessage writeInto Csptp.minMessageLength
  by_cases hshort : b.length < 44
  · have : Go.getK? b 43 = none := by unfold Go.getK?; exact List.getElem?_eq_none (by omega)
    rw [this]
    simp only [bytesN, List.length_map, hshort, if_true]
    rfl
  · have : ∃ x, Go.getK? b 43 = some x := ⟨b[43]'(by omega), List.getElem?_eq_getElem _⟩
    obtain ⟨x, hx⟩ := this
    rw [hx, Option.bind_some, GoSlice.writeSeqL_some _ _ _ (by rw [hl]; omega)]
    simp only [bytesN, List.length_map, hshort, if_false, encView, List.take_zero, List.nil_append, Nat.zero_add, hl,
      List.map_append, List.map_drop]
    rw [← bytesN, encBytes_eq msg h6, hml]

/-- non-vacuity through the generated definitions: a message with distinct bytes in every field
    (negative correction field and log interval) encoded into a 46-byte buffer and decoded back; a
    43-byte buffer panics; a 43-byte input is refused with the size error -/
def exMsg : S_Message :=
  { SdoIDMessageType := 0x12, PTPVersion := 0x02, MessageLength := 0x0304, DomainNumber := 5, MinorSdoID := 6, FlagField := 0x0708,
    CorrectionField := -2, MessageTypeSpecific := 0x11121314, SourcePortIdentity := ⟨0x2122232425262728, 0x3132⟩,
    SequenceID := 0x4142, ControlField := 0x51, LogMessageInterval := -3, Timestamp := ⟨[1, 2, 3, 4, 5, 6], 0x61626364⟩ }
def zeroMsg : S_Message :=
  { SdoIDMessageType := 0, PTPVersion := 0, MessageLength := 0, DomainNumber := 0, MinorSdoID := 0, FlagField := 0,
    CorrectionField := 0, MessageTypeSpecific := 0, SourcePortIdentity := ⟨0, 0⟩,
    SequenceID := 0, ControlField := 0, LogMessageInterval := 0, Timestamp := ⟨[0, 0, 0, 0, 0, 0], 0⟩ }
example : ((csptp_EncodeMessage (List.replicate 46 9) exMsg).bind fun b => (csptp_DecodeMessage zeroMsg b).map fun r => (mv r.1, r.2, b.drop 44)) =
    some (mv exMsg, false, [9, 9]) := by decide
example : csptp_EncodeMessage (List.replicate 43 9) exMsg = none := by decide
example : (csptp_DecodeMessage zeroMsg (List.replicate 43 9)).map (·.2) = some true := by decide

end ScionTime.LeafTieC14Csptp
