import ScionTime.Model.Ntske
namespace ScionTime.C08Ntske
open ScionTime.Ntske
theorem C08Ntske_stub : be16 1 2 = 258 := by decide
end ScionTime.C08Ntske
