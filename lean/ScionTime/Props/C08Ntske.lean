/-
  C08 (NTS-KE clause) — `ReadData` is total: on every byte stream, under every
  segmentation, it returns success or one of its error values; every iteration consumes
  input, and no read asks for more than the 16-bit length field allows.
  Model: ScionTime/Model/Ntske.lean. The model has no panic outcome because the Go code has
  no indexing, slicing or division at all in `ReadData`: it only calls `binary.Read` /
  `io.ReadFull` on freshly made buffers; the only artificial outcome of the model is
  running out of loop fuel, which is shown never to happen.
-/
import ScionTime.Proofs.Ntske
namespace ScionTime.C08Ntske
open ScionTime.Ntske

/-- Totality: for every chunked stream and every initial data, `ReadData` ends with success
    or a genuine error class — the loop always terminates within the model's fuel, i.e.
    within one iteration per four bytes received. -/
theorem C08Ntske_readData_total (chunks : List (List Byte)) (d : Data) :
    (readData chunks d).2 ≠ some .fuel := by
  rw [readData_eq_readFlat]
  exact (runs_readFlat _ d).ne_fuel

/-- The same in positive form: the outcome is `none` (success) or one of the seven error
    classes of the code. -/
theorem C08Ntske_readData_outcomes (chunks : List (List Byte)) (d : Data) :
    ∃ d', readData chunks d = (d', none) ∨
      ∃ e, readData chunks d = (d', some e) ∧
        (e = .eof ∨ e = .ueof ∨ e = .unrecCritical ∨ e = .badRequest ∨ e = .internal ∨
         e = .unknownCode ∨ ∃ t, e = .critical t) := by
  have h := C08Ntske_readData_total chunks d
  generalize readData chunks d = res at h
  obtain ⟨d', r⟩ := res
  refine ⟨d', ?_⟩
  cases r with
  | none => exact .inl rfl
  | some e =>
    refine .inr ⟨e, rfl, ?_⟩
    cases e <;> simp at h ⊢

/-- Progress: every iteration that continues has consumed at least the four header bytes,
    so a stream of `n` bytes is read in at most `n / 4 + 1` iterations. -/
theorem C08Ntske_progress (bs : List Byte) (d : Data) (s : List Byte) (d' : Data)
    (h : step flatFull flatFull bs d = .more s d') : s.length + 4 ≤ bs.length :=
  step_more_length h

/-- Bounded allocation: the number of body bytes requested after a header is 2 or the
    16-bit length field, hence at most 65535 for wire bytes. -/
theorem C08Ntske_alloc_bounded (typ l1 l0 : Nat) (h1 : l1 < 256) (h0 : l0 < 256) :
    bodyNeed typ (be16 l1 l0) ≤ 65535 := by
  unfold bodyNeed be16
  split <;> omega

example : (readData [[255, 255, 255], [255, 1]] {}).2 = some (.critical 32767) := by decide

end ScionTime.C08Ntske
