/-
  Kernel-checked ties (C14 / C08 / C11): `(*ServerCookie).Decode` and `(*EncryptedServerCookie).Decode`
  of net/ntske/cookies.go as regenerated from /repo's Go source on every run (Gen/LeafNtske.lean;
  eighth generation of the leaf translator: `for pos < len(b) { … }` with a budget,
  `binary.BigEndian.Uint16(b[pos:])`, `b[lo:hi]` as a value) against the suffix-based models
  `scDecode` / `ecDecode` of Model/Cookies.lean.

  The generated decoders walk the buffer by POSITION (`pos`, an int64), the model by SUFFIX
  (`rest = b[pos:]`).  `stepAt` is one iteration of the generated loops with the cookie-specific
  part (which field is stored) taken out; `body_*` shows by case analysis that the generated loop
  bodies are `stepAt` + storing; `stepAt_spec` computes `stepAt` at position `p` from the bytes at
  `p … p+5` (all the int64 / uint16 arithmetic is here); `tlv_at` is the model's iteration on
  `b.drop p` in the same terms; `loop_tie` is the induction.

  PROVED for EVERY buffer shorter than 2^62 bytes, every receiver, every budget above the length:
    * the generated decoder NEVER panics and is never out of budget (`C14_leaf_*_Decode_total`):
      totality of the cookie decoders is a theorem about the code as it is now;
    * it returns `nil` exactly when the model decodes, with the model's three fields
      (`C14_leaf_ServerCookie_Decode`, `C14_leaf_EncryptedServerCookie_Decode`), an error exactly when
      the model returns `errUnexpectedCookieData`.
-/
import ScionTime.Gen.LeafNtske
import ScionTime.Model.Cookies
import ScionTime.Proofs.GoPrelude
import ScionTime.Proofs.LeafBytes
namespace ScionTime.LeafTieC14CookiesDec
open ScionTime ScionTime.Gen.Leaf ScionTime.GoLemmas ScionTime.Nts ScionTime.LeafBytes

def bytesN (b : List UInt8) : List Nat := b.map UInt8.toNat

/-! ### one iteration of the generated loops, without the cookie-specific stores -/

inductive Step where
  | stop                                   -- `pos < len(b)` is false: the loop ends
  | err                                    -- `return errUnexpectedCookieData`
  | num (v : UInt16) (next : Int64)        -- the 2-byte field
  | fx (s : List UInt8) (next : Int64)     -- the first byte string
  | fy (s : List UInt8) (next : Int64)     -- the second byte string
  | skip (next : Int64)                    -- an unknown type: skipped

def stepAt (t0 t1 t2 : UInt16) (b : List UInt8) (pos : Int64) : Go.Out Step :=
  if (!(decide (pos < (Go.len b)))) then .ok .stop
  else if (decide (((Go.len b) - pos) < (4 : Int64))) then .ok .err
  else
    (Go.Out.ofOption "slice" (Go.beU16At? b pos)).bind fun t =>
    (Go.Out.ofOption "slice" (Go.beU16At? b (pos + (2 : Int64)))).bind fun l =>
    if (decide (((l).toUInt64.toInt64) > (((Go.len b) - pos) - (4 : Int64)))) then .ok .err
    else if (t == t0) then
      if (decide (l < (2 : UInt16))) then .ok .err
      else (Go.Out.ofOption "slice" (Go.beU16At? b (pos + (4 : Int64)))).bind fun v =>
        .ok (.num v (pos + ((4 : Int64) + ((l).toUInt64.toInt64))))
    else if (t == t1) then
      (Go.Out.ofOption "slice" (Go.subslice? b (pos + (4 : Int64)) ((pos + (4 : Int64)) + ((l).toUInt64.toInt64)))).bind fun s =>
        .ok (.fx s (pos + ((4 : Int64) + ((l).toUInt64.toInt64))))
    else if (t == t2) then
      (Go.Out.ofOption "slice" (Go.subslice? b (pos + (4 : Int64)) ((pos + (4 : Int64)) + ((l).toUInt64.toInt64)))).bind fun s =>
        .ok (.fy s (pos + ((4 : Int64) + ((l).toUInt64.toInt64))))
    else .ok (.skip (pos + ((4 : Int64) + ((l).toUInt64.toInt64))))

/-! ### arithmetic: `stepAt` at position `p` from the bytes -/

theorem len_toInt (l : List UInt8) (h : l.length < 4611686018427387904) : (Go.len l).toInt = l.length := by
  unfold Go.len; exact Int64.toInt_ofNat_of_lt (by omega)

theorem k2 : (2 : Int64).toInt = 2 := by decide
theorem k4 : (4 : Int64).toInt = 4 := by decide

theorem beU16At_spec (b : List UInt8) (q : Nat) (off : Int64) (hoff : off.toInt = q) (hq : q + 2 ≤ b.length) :
    ∃ v, Go.beU16At? b off = some v ∧ v.toNat = (b.getD q 0).toNat * 256 + (b.getD (q + 1) 0).toNat := by
  unfold Go.beU16At?
  have hk : off.toInt.toNat = q := by omega
  rw [if_pos ⟨by omega, by omega⟩, hk]
  refine ⟨_, rfl, ?_⟩
  rw [LeafBytes.be16]; simp [Wire.beVal]

theorem subslice_spec (b : List UInt8) (q l : Nat) (lo hi : Int64) (hlo : lo.toInt = q) (hhi : hi.toInt = q + l)
    (hq : q + l ≤ b.length) : Go.subslice? b lo hi = some ((b.drop q).take l) := by
  unfold Go.subslice?
  have h1 : lo.toInt.toNat = q := by omega
  have h2 : hi.toInt.toNat = q + l := by omega
  rw [if_pos ⟨by omega, by omega, by omega⟩, h1, h2]
  congr 2; omega

/-- the outcome of `stepAt` at position `p`, in terms of the bytes (as naturals) -/
inductive StepN where
  | stop | err
  | num (v : Nat) (l : Nat)
  | fx (l : Nat) | fy (l : Nat) | skip (l : Nat)
deriving DecidableEq

/-- the iteration once the header `(t, l)` is read; `rem` = bytes after the header, `v` = the first
    two of them as a number -/
def stepTL (T0 T1 T2 : Nat) (rem t l v : Nat) : StepN :=
  if l > rem then .err
  else if t = T0 then (if l < 2 then .err else .num v l)
  else if t = T1 then .fx l
  else if t = T2 then .fy l
  else .skip l

def stepN (T0 T1 T2 : Nat) (B : List Nat) (p : Nat) : StepN :=
  if ¬ p < B.length then .stop
  else if B.length - p < 4 then .err
  else stepTL T0 T1 T2 (B.length - p - 4) (B.getD p 0 * 256 + B.getD (p + 1) 0)
    (B.getD (p + 2) 0 * 256 + B.getD (p + 3) 0) (B.getD (p + 4) 0 * 256 + B.getD (p + 5) 0)

/-- the generated step and the arithmetic-free description agree -/
def Agrees (b : List UInt8) (p : Nat) : Go.Out Step → StepN → Prop
  | .ok .stop, .stop => True
  | .ok .err, .err => True
  | .ok (.num v nx), .num n l => v.toNat = n ∧ nx = Int64.ofNat (p + 4 + l)
  | .ok (.fx s nx), .fx l => s = (b.drop (p + 4)).take l ∧ nx = Int64.ofNat (p + 4 + l)
  | .ok (.fy s nx), .fy l => s = (b.drop (p + 4)).take l ∧ nx = Int64.ofNat (p + 4 + l)
  | .ok (.skip nx), .skip l => nx = Int64.ofNat (p + 4 + l)
  | _, _ => False

theorem u16_beq (a b : UInt16) : (a == b) = decide (a.toNat = b.toNat) := by
  rw [Bool.eq_iff_iff]; simp only [beq_iff_eq, decide_eq_true_eq]
  exact ⟨fun h => by rw [h], fun h => UInt16.toNat_inj.mp h⟩

theorem ofNat_toInt (p : Nat) (h : p < 4611686018427387904) : (Int64.ofNat p).toInt = p :=
  Int64.toInt_ofNat_of_lt (by omega)

theorem int64_ext {a b : Int64} (h : a.toInt = b.toInt) : a = b := Int64.toInt_inj.mp h

theorem stepAt_spec (t0 t1 t2 : UInt16) (b : List UInt8) (p : Nat)
    (hL : b.length < 4611686018427387904) (hp : p ≤ b.length) :
    Agrees b p (stepAt t0 t1 t2 b (Int64.ofNat p)) (stepN t0.toNat t1.toNat t2.toNat (bytesN b) p) := by
  have hlen := len_toInt b hL
  have hpos := ofNat_toInt p (by omega)
  have hBl : (bytesN b).length = b.length := by simp [bytesN]
  have hB : ∀ k, (bytesN b).getD k 0 = (b.getD k 0).toNat := fun k => getD_bytes b k
  unfold stepAt stepN stepTL
  rw [hBl]
  simp only [Int64.lt_iff_toInt_lt, hlen, hpos, Bool.not_eq_true', decide_eq_false_iff_not, hB]
  by_cases h1 : p < b.length
  · have h1' : ((p : Int) < (b.length : Int)) := by omega
    simp only [h1', h1, not_true_eq_false, if_false]
    have hsub : ((Go.len b) - Int64.ofNat p).toInt = (b.length : Int) - p := by
      rw [toInt_sub_of_fits _ _ (by omega) (by omega), hlen, hpos]
    simp only [hsub, k4, decide_eq_true_eq]
    by_cases h2 : b.length - p < 4
    · have h2' : ((b.length : Int) - p < 4) := by omega
      simp only [h2', h2, if_true]; trivial
    · have h2' : ¬ ((b.length : Int) - p < 4) := by omega
      simp only [h2', h2, if_false]
      obtain ⟨t, ht, htn⟩ := beU16At_spec b p (Int64.ofNat p) hpos (by omega)
      have hp2 : (Int64.ofNat p + 2).toInt = ((p + 2 : Nat) : Int) := by
        rw [toInt_add_of_fits _ _ (by rw [hpos, k2]; omega) (by rw [hpos, k2]; omega), hpos, k2]; omega
      have hp4 : (Int64.ofNat p + 4).toInt = ((p + 4 : Nat) : Int) := by
        rw [toInt_add_of_fits _ _ (by rw [hpos, k4]; omega) (by rw [hpos, k4]; omega), hpos, k4]; omega
      obtain ⟨l, hl, hln⟩ := beU16At_spec b (p + 2) (Int64.ofNat p + 2) hp2 (by omega)
      simp only [ht, hl, Go.Out.ofOption, Go.Out.bind, widen16, gt_iff_lt]
      have hsub4 : (((Go.len b) - Int64.ofNat p) - 4).toInt = (b.length : Int) - p - 4 := by
        rw [toInt_sub_of_fits _ _ (by rw [hsub, k4]; omega) (by rw [hsub, k4]; omega), hsub, k4]
      simp only [hsub4]
      have hl16 := l.toNat_lt
      have hln' : (b.getD (p + 2) 0).toNat * 256 + (b.getD (p + 2 + 1) 0).toNat = l.toNat := hln.symm
      have e3 : p + 2 + 1 = p + 3 := by omega
      rw [e3] at hln'
      rw [hln', ← htn]
      by_cases h3 : l.toNat > b.length - p - 4
      · have h3' : ((b.length : Int) - p - 4 < (l.toNat : Int)) := by omega
        simp only [h3', h3, decide_true, if_true]; trivial
      · have h3' : ¬ ((b.length : Int) - p - 4 < (l.toNat : Int)) := by omega
        simp only [h3', h3, decide_false, Bool.false_eq_true, if_false]
        have hw : (l.toUInt64.toInt64).toInt = l.toNat := widen16 l
        have h4l : ((4 : Int64) + l.toUInt64.toInt64).toInt = 4 + (l.toNat : Int) := by
          rw [toInt_add_of_fits _ _ (by rw [k4, hw]; omega) (by rw [k4, hw]; omega), k4, hw]
        have hnx : Int64.ofNat p + ((4 : Int64) + l.toUInt64.toInt64) = Int64.ofNat (p + 4 + l.toNat) := by
          apply int64_ext
          rw [toInt_add_of_fits _ _ (by rw [hpos, h4l]; omega) (by rw [hpos, h4l]; omega), hpos, h4l,
            ofNat_toInt _ (by omega)]
          omega
        have hhi : ((Int64.ofNat p + 4) + l.toUInt64.toInt64).toInt = ((p + 4 + l.toNat : Nat) : Int) := by
          rw [toInt_add_of_fits _ _ (by rw [hp4, hw]; omega) (by rw [hp4, hw]; omega), hp4, hw]; omega
        have hss := subslice_spec b (p + 4) l.toNat (Int64.ofNat p + 4) ((Int64.ofNat p + 4) + l.toUInt64.toInt64)
          (by rw [hp4]) (by rw [hhi]; omega) (by omega)
        simp only [u16_beq, hnx, hss]
        by_cases c0 : t.toNat = t0.toNat
        · simp only [c0, decide_true, if_true]
          have h2u : (2 : UInt16).toNat = 2 := rfl
          simp only [UInt16.lt_iff_toNat_lt, h2u]
          by_cases c2 : l.toNat < 2
          · simp only [c2, decide_true, if_true]; trivial
          · simp only [c2, decide_false, Bool.false_eq_true, if_false]
            obtain ⟨v, hv, hvn⟩ := beU16At_spec b (p + 4) (Int64.ofNat p + 4) hp4 (by omega)
            simp only [hv]
            have e5 : p + 4 + 1 = p + 5 := by omega
            rw [e5] at hvn
            exact ⟨hvn, rfl⟩
        · simp only [c0, decide_false, Bool.false_eq_true, if_false]
          by_cases c1 : t.toNat = t1.toNat
          · simp only [c1, decide_true, if_true]; exact ⟨rfl, rfl⟩
          · simp only [c1, decide_false, Bool.false_eq_true, if_false]
            by_cases c2 : t.toNat = t2.toNat
            · simp only [c2, decide_true, if_true]; exact ⟨rfl, rfl⟩
            · simp only [c2, decide_false, Bool.false_eq_true, if_false]; trivial
  · have h1' : ¬ ((p : Int) < (b.length : Int)) := by omega
    simp only [h1', h1, not_false_eq_true, if_true]; trivial

/-! ### the model's iteration on the suffix `B.drop p`, in the same terms -/

theorem drop_cons (B : List Nat) (p : Nat) (h : p < B.length) : B.drop p = B.getD p 0 :: B.drop (p + 1) := by
  rw [List.drop_eq_getElem_cons h]
  congr 1
  simp [List.getD_eq_getElem?_getD, List.getElem?_eq_getElem h]

theorem drop_cons4 (B : List Nat) (p : Nat) (h : p + 4 ≤ B.length) :
    B.drop p = B.getD p 0 :: B.getD (p + 1) 0 :: B.getD (p + 2) 0 :: B.getD (p + 3) 0 :: B.drop (p + 4) := by
  rw [drop_cons B p (by omega), drop_cons B (p + 1) (by omega)]
  have e2 : p + 1 + 1 = p + 2 := rfl
  rw [e2, drop_cons B (p + 2) (by omega)]
  have e3 : p + 2 + 1 = p + 3 := rfl
  rw [e3, drop_cons B (p + 3) (by omega)]

theorem drop_cons2 (B : List Nat) (p : Nat) (h : p + 2 ≤ B.length) :
    B.drop p = B.getD p 0 :: B.getD (p + 1) 0 :: B.drop (p + 2) := by
  rw [drop_cons B p (by omega), drop_cons B (p + 1) (by omega)]

theorem stepTL_next (T0 T1 T2 rem t l v : Nat) :
    match stepTL T0 T1 T2 rem t l v with
    | .num _ l' => l' ≤ rem ∧ 2 ≤ l'
    | .fx l' => l' ≤ rem
    | .fy l' => l' ≤ rem
    | .skip l' => l' ≤ rem
    | .stop => False
    | .err => True := by
  unfold stepTL
  by_cases h3 : l > rem
  · simp only [h3, if_true]
  · simp only [h3, if_false]
    by_cases c0 : t = T0
    · simp only [c0, if_true]
      by_cases c2 : l < 2
      · simp only [c2, if_true]
      · simp only [c2, if_false]; omega
    · simp only [c0, if_false]
      by_cases c1 : t = T1
      · simp only [c1, if_true]; omega
      · simp only [c1, if_false]
        by_cases c2 : t = T2
        · simp only [c2, if_true]; omega
        · simp only [c2, if_false]; omega

/-- where `stepN` continues, the next position is inside the buffer -/
theorem stepN_next (T0 T1 T2 : Nat) (B : List Nat) (p : Nat) :
    match stepN T0 T1 T2 B p with
    | .num _ l => p + 4 + l ≤ B.length ∧ p < B.length ∧ 2 ≤ l
    | .fx l => p + 4 + l ≤ B.length ∧ p < B.length
    | .fy l => p + 4 + l ≤ B.length ∧ p < B.length
    | .skip l => p + 4 + l ≤ B.length ∧ p < B.length
    | .stop => ¬ p < B.length
    | .err => True := by
  unfold stepN
  by_cases h1 : p < B.length
  · simp only [h1, not_true_eq_false, if_false]
    by_cases h2 : B.length - p < 4
    · simp only [h2, if_true]
    · simp only [h2, if_false]
      have hrem : B.length - p - 4 + (p + 4) = B.length := by omega
      generalize B.length - p - 4 = rem at hrem ⊢
      have h := stepTL_next T0 T1 T2 rem (B.getD p 0 * 256 + B.getD (p + 1) 0)
        (B.getD (p + 2) 0 * 256 + B.getD (p + 3) 0) (B.getD (p + 4) 0 * 256 + B.getD (p + 5) 0)
      revert h
      cases stepTL T0 T1 T2 rem (B.getD p 0 * 256 + B.getD (p + 1) 0)
        (B.getD (p + 2) 0 * 256 + B.getD (p + 3) 0) (B.getD (p + 4) 0 * 256 + B.getD (p + 5) 0) <;>
        intro h <;> simp only at h ⊢ <;> first | trivial | (simp only [true_and, and_true]; omega)
  · simp only [h1, not_false_eq_true, if_true]

/-- the model's iteration on a suffix with a whole header -/
theorem tlv_cons4 (T0 T1 T2 : Nat) (a b c d : Nat) (v : List Nat) (n : Nat) (st : TlvSt) :
    tlvLoop true T0 T1 T2 (n + 1) (a :: b :: c :: d :: v) st =
      match stepTL T0 T1 T2 v.length (a * 256 + b) (c * 256 + d) (v.getD 0 0 * 256 + v.getD 1 0) with
      | .stop => .ok st
      | .err => .err .cookieData
      | .num w l => tlvLoop true T0 T1 T2 n (v.drop l) { st with num := some w }
      | .fx l => tlvLoop true T0 T1 T2 n (v.drop l) { st with x := some (v.take l) }
      | .fy l => tlvLoop true T0 T1 T2 n (v.drop l) { st with y := some (v.take l) }
      | .skip l => tlvLoop true T0 T1 T2 n (v.drop l) st := by
  by_cases h3 : c * 256 + d > v.length
  · simp [tlvLoop, u16, stepTL, h3]
  · by_cases c0 : a * 256 + b = T0
    · subst c0
      by_cases c2 : c * 256 + d < 2
      · simp [tlvLoop, u16, stepTL, h3, c2]
      · rcases v with _ | ⟨n1, _ | ⟨n0, v'⟩⟩
        · simp at h3; omega
        · simp at h3; omega
        · have h3' : ¬ (v'.length + 1 + 1 < c * 256 + d) := by simpa using h3
          simp [tlvLoop, u16, stepTL, h3', c2]
    · by_cases c1 : a * 256 + b = T1
      · subst c1
        have c0' : ¬ (a * 256 + b = T0) := c0
        simp [tlvLoop, u16, stepTL, h3, c0']
      · by_cases c2 : a * 256 + b = T2
        · subst c2
          simp [tlvLoop, u16, stepTL, h3, c0, c1]
        · simp [tlvLoop, u16, stepTL, h3, c0, c1, c2]

theorem getD_drop (B : List Nat) (k i : Nat) : (B.drop k).getD i 0 = B.getD (k + i) 0 := by
  simp [List.getD_eq_getElem?_getD, List.getElem?_drop]

theorem tlv_at (T0 T1 T2 : Nat) (B : List Nat) (p n : Nat) (st : TlvSt) (hp : p ≤ B.length) :
    tlvLoop true T0 T1 T2 (n + 1) (B.drop p) st =
      match stepN T0 T1 T2 B p with
      | .stop => .ok st
      | .err => .err .cookieData
      | .num v l => tlvLoop true T0 T1 T2 n (B.drop (p + 4 + l)) { st with num := some v }
      | .fx l => tlvLoop true T0 T1 T2 n (B.drop (p + 4 + l)) { st with x := some ((B.drop (p + 4)).take l) }
      | .fy l => tlvLoop true T0 T1 T2 n (B.drop (p + 4 + l)) { st with y := some ((B.drop (p + 4)).take l) }
      | .skip l => tlvLoop true T0 T1 T2 n (B.drop (p + 4 + l)) st := by
  unfold stepN
  by_cases h1 : p < B.length
  · simp only [h1, not_true_eq_false, if_false]
    by_cases h2 : B.length - p < 4
    · simp only [h2, if_true]
      -- one to three bytes left
      rw [drop_cons B p h1]
      by_cases a1 : p + 1 < B.length
      · rw [drop_cons B (p + 1) a1]
        by_cases a2 : p + 1 + 1 < B.length
        · rw [drop_cons B (p + 1 + 1) a2]
          have a3 : B.drop (p + 1 + 1 + 1) = [] := List.drop_eq_nil_of_le (by omega)
          rw [a3]; simp [tlvLoop]
        · have a3 : B.drop (p + 1 + 1) = [] := List.drop_eq_nil_of_le (by omega)
          rw [a3]; simp [tlvLoop]
      · have a3 : B.drop (p + 1) = [] := List.drop_eq_nil_of_le (by omega)
        rw [a3]; simp [tlvLoop]
    · simp only [h2, if_false]
      rw [drop_cons4 B p (by omega), tlv_cons4]
      have hv : (B.drop (p + 4)).length = B.length - p - 4 := by simp; omega
      have e1 : p + 4 + 1 = p + 5 := rfl
      simp only [hv, getD_drop, Nat.add_zero, e1, List.drop_drop]
  · have hnil : B.drop p = [] := List.drop_eq_nil_of_le (by omega)
    simp only [h1, not_false_eq_true, if_true, hnil, tlvLoop]

/-! ### the induction, for any loop whose body is `stepAt` + stores -/

/-- what the three stores amount to: the loop's variables as the model's accumulator -/
structure View (σ : Type) where
  pos : σ → Int64
  acc : σ → TlvSt
  setPos : σ → Int64 → σ
  onNum : σ → UInt16 → Int64 → σ
  onX : σ → List UInt8 → Int64 → σ
  onY : σ → List UInt8 → Int64 → σ

/-- the generic loop body: `stepAt`, then the stores -/
def contOf {σ ρ : Type} (V : View σ) (errOut : σ → Go.Out ρ) (s : σ) : Go.Out Step → Go.Ctl σ (Go.Out ρ)
  | .ok .stop => .brk s
  | .ok .err => .ret (errOut s)
  | .ok (.num v nx) => .next (V.onNum s v nx)
  | .ok (.fx x nx) => .next (V.onX s x nx)
  | .ok (.fy y nx) => .next (V.onY s y nx)
  | .ok (.skip nx) => .next (V.setPos s nx)
  | .panic m => .ret (.panic m)
  | .stuck => .ret .stuck

def bodyOf {σ ρ : Type} (V : View σ) (t0 t1 t2 : UInt16) (b : List UInt8) (errOut : σ → Go.Out ρ) (s : σ) :
    Go.Ctl σ (Go.Out ρ) :=
  contOf V errOut s (stepAt t0 t1 t2 b (V.pos s))

/-- the stores do what the model's accumulator does -/
structure View.Lawful {σ : Type} (V : View σ) : Prop where
  setPos_pos : ∀ s nx, V.pos (V.setPos s nx) = nx
  setPos_acc : ∀ s nx, V.acc (V.setPos s nx) = V.acc s
  num_pos : ∀ s v nx, V.pos (V.onNum s v nx) = nx
  num_acc : ∀ s v nx, V.acc (V.onNum s v nx) = { V.acc s with num := some v.toNat }
  x_pos : ∀ s x nx, V.pos (V.onX s x nx) = nx
  x_acc : ∀ s x nx, V.acc (V.onX s x nx) = { V.acc s with x := some (bytesN x) }
  y_pos : ∀ s y nx, V.pos (V.onY s y nx) = nx
  y_acc : ∀ s y nx, V.acc (V.onY s y nx) = { V.acc s with y := some (bytesN y) }

theorem take_drop_bytes (b : List UInt8) (k l : Nat) :
    ((bytesN b).drop k).take l = bytesN ((b.drop k).take l) := by
  simp [bytesN, List.map_drop, List.map_take]

/-- **position-based loop = suffix-based loop**: with a budget above the bytes left, the generated
    loop ends exactly as the model's does — same accumulator at the end of the buffer, or the
    error return; it never panics and never runs out of budget. -/
theorem loop_tie {σ ρ : Type} (V : View σ) (hV : V.Lawful) (t0 t1 t2 : UInt16) (b : List UInt8)
    (errOut : σ → Go.Out ρ) (hL : b.length < 4611686018427387904) :
    ∀ (n p : Nat) (s : σ), p ≤ b.length → b.length - p < n → V.pos s = Int64.ofNat p →
      (match tlvLoop true t0.toNat t1.toNat t2.toNat n ((bytesN b).drop p) (V.acc s) with
       | .ok st => ∃ s', Go.forFuel n s (bodyOf V t0 t1 t2 b errOut) = some (.inl s') ∧ V.acc s' = st ∧
            V.pos s' = Int64.ofNat b.length
       | .err _ => ∃ s', Go.forFuel n s (bodyOf V t0 t1 t2 b errOut) = some (.inr (errOut s'))
       | .panic _ => False
       | .hang => False) := by
  intro n
  induction n with
  | zero => intro p s _ h; omega
  | succ n ih =>
    intro p s hp hn hpos
    have hBl : (bytesN b).length = b.length := by simp [bytesN]
    rw [tlv_at _ _ _ _ p n _ (by omega)]
    have hspec := stepAt_spec t0 t1 t2 b p hL hp
    simp only [Go.forFuel, bodyOf, hpos]
    cases hN : stepN t0.toNat t1.toNat t2.toNat (bytesN b) p with
    | stop =>
      rw [hN] at hspec
      have hstop := stepN_next t0.toNat t1.toNat t2.toNat (bytesN b) p
      rw [hN, hBl] at hstop
      cases hS : stepAt t0 t1 t2 b (Int64.ofNat p) with
      | ok st =>
        rw [hS] at hspec
        cases st <;> simp only [Agrees] at hspec
        have hpe : p = b.length := by omega
        exact ⟨s, rfl, rfl, by rw [hpos, hpe]⟩
      | panic m => rw [hS] at hspec; simp only [Agrees] at hspec
      | stuck => rw [hS] at hspec; simp only [Agrees] at hspec
    | err =>
      rw [hN] at hspec
      cases hS : stepAt t0 t1 t2 b (Int64.ofNat p) with
      | ok st =>
        rw [hS] at hspec
        cases st <;> simp only [Agrees] at hspec
        exact ⟨s, rfl⟩
      | panic m => rw [hS] at hspec; simp only [Agrees] at hspec
      | stuck => rw [hS] at hspec; simp only [Agrees] at hspec
    | num v l =>
      rw [hN] at hspec
      have hb0 := stepN_next t0.toNat t1.toNat t2.toNat (bytesN b) p
      rw [hN, hBl] at hb0
      have hb : p + 4 + l ≤ b.length ∧ p < b.length := ⟨hb0.1, hb0.2.1⟩
      cases hS : stepAt t0 t1 t2 b (Int64.ofNat p) with
      | ok st =>
        rw [hS] at hspec
        cases st <;> simp only [Agrees] at hspec
        rename_i v' nx'
        obtain ⟨hv, hnx⟩ := hspec
        have := ih (p + 4 + l) (V.onNum s v' nx') hb.1 (by omega) (by rw [hV.num_pos, hnx])
        rw [hV.num_acc, hv] at this
        exact this
      | panic m => rw [hS] at hspec; simp only [Agrees] at hspec
      | stuck => rw [hS] at hspec; simp only [Agrees] at hspec
    | fx l =>
      rw [hN] at hspec
      have hb := stepN_next t0.toNat t1.toNat t2.toNat (bytesN b) p
      rw [hN, hBl] at hb
      cases hS : stepAt t0 t1 t2 b (Int64.ofNat p) with
      | ok st =>
        rw [hS] at hspec
        cases st <;> simp only [Agrees] at hspec
        rename_i x' nx'
        obtain ⟨hx, hnx⟩ := hspec
        subst hx; subst hnx
        have := ih (p + 4 + l) (V.onX s ((b.drop (p + 4)).take l) (Int64.ofNat (p + 4 + l))) hb.1 (by omega) (by rw [hV.x_pos])
        rw [hV.x_acc, ← take_drop_bytes] at this
        exact this
      | panic m => rw [hS] at hspec; simp only [Agrees] at hspec
      | stuck => rw [hS] at hspec; simp only [Agrees] at hspec
    | fy l =>
      rw [hN] at hspec
      have hb := stepN_next t0.toNat t1.toNat t2.toNat (bytesN b) p
      rw [hN, hBl] at hb
      cases hS : stepAt t0 t1 t2 b (Int64.ofNat p) with
      | ok st =>
        rw [hS] at hspec
        cases st <;> simp only [Agrees] at hspec
        rename_i y' nx'
        obtain ⟨hy, hnx⟩ := hspec
        subst hy; subst hnx
        have := ih (p + 4 + l) (V.onY s ((b.drop (p + 4)).take l) (Int64.ofNat (p + 4 + l))) hb.1 (by omega) (by rw [hV.y_pos])
        rw [hV.y_acc, ← take_drop_bytes] at this
        exact this
      | panic m => rw [hS] at hspec; simp only [Agrees] at hspec
      | stuck => rw [hS] at hspec; simp only [Agrees] at hspec
    | skip l =>
      rw [hN] at hspec
      have hb := stepN_next t0.toNat t1.toNat t2.toNat (bytesN b) p
      rw [hN, hBl] at hb
      cases hS : stepAt t0 t1 t2 b (Int64.ofNat p) with
      | ok st =>
        rw [hS] at hspec
        cases st <;> simp only [Agrees] at hspec
        rename_i nx'
        have := ih (p + 4 + l) (V.setPos s nx') hb.1 (by omega) (by rw [hV.setPos_pos, hspec])
        rw [hV.setPos_acc] at this
        exact this
      | panic m => rw [hS] at hspec; simp only [Agrees] at hspec
      | stuck => rw [hS] at hspec; simp only [Agrees] at hspec

/-! ### budget: more is never different -/

theorem forFuel_mono {σ ρ : Type} (body : σ → Go.Ctl σ ρ) :
    ∀ (n k : Nat) (s : σ) (r : σ ⊕ ρ), Go.forFuel n s body = some r → Go.forFuel (n + k) s body = some r := by
  intro n
  induction n with
  | zero => intro k s r h; simp [Go.forFuel] at h
  | succ n ih =>
    intro k s r h
    have e : n + 1 + k = (n + k) + 1 := by omega
    rw [e]
    simp only [Go.forFuel] at h ⊢
    cases hb : body s with
    | next s' => rw [hb] at h; simp only at h ⊢; exact ih k s' r h
    | brk s' => rw [hb] at h; simp only at h ⊢; exact h
    | ret x => rw [hb] at h; simp only at h ⊢; exact h

/-! ### `(*ServerCookie).Decode` -/

abbrev ScSt := Bool × S_ServerCookie × Bool × Int64 × Bool   -- (algo, c, c2s, pos, s2c)

/-- the loop body of the generated `(*ServerCookie).Decode`, verbatim -/
def scBody (b : List UInt8) : ScSt → Go.Ctl ScSt (Go.Out (S_ServerCookie × Bool)) :=
  fun (algo, c, c2s, pos, s2c) =>
      if (!(decide (pos < (Go.len b)))) then
        Go.Ctl.brk (algo, c, c2s, pos, s2c)
      else
        if (decide (((Go.len b) - pos) < (4 : Int64))) then
          Go.Ctl.ret (Go.Out.ok ((c, true)))
        else
          Go.Ctl.bindR (Go.Out.ofOption "slice" (Go.beU16At? b pos)) fun _u1 =>
          let t : UInt16 := _u1
          Go.Ctl.bindR (Go.Out.ofOption "slice" (Go.beU16At? b (pos + (2 : Int64)))) fun _u2 =>
          let l : UInt16 := _u2
          if (decide (((l).toUInt64.toInt64) > (((Go.len b) - pos) - (4 : Int64)))) then
            Go.Ctl.ret (Go.Out.ok ((c, true)))
          else
            if (t == (257 : UInt16)) then
              if (decide (l < (2 : UInt16))) then
                Go.Ctl.ret (Go.Out.ok ((c, true)))
              else
                Go.Ctl.bindR (Go.Out.ofOption "slice" (Go.beU16At? b (pos + (4 : Int64)))) fun _u3 =>
                let c : S_ServerCookie := { c with Algo := _u3 }
                let algo : Bool := true
                let pos : Int64 := (pos + ((4 : Int64) + ((l).toUInt64.toInt64)))
                Go.Ctl.next (algo, c, c2s, pos, s2c)
            else
              Go.Ctl.bindR (if (t == (513 : UInt16)) then
                  ((Go.Out.ofOption "slice" (Go.subslice? b (pos + (4 : Int64)) ((pos + (4 : Int64)) + ((l).toUInt64.toInt64))))).bind fun _s7 =>
                  let c : S_ServerCookie := { c with S2C := _s7 }
                  let s2c : Bool := true
                  Go.Out.ok ((c, c2s, s2c))
                else
                  ((if (t == (769 : UInt16)) then
                      ((Go.Out.ofOption "slice" (Go.subslice? b (pos + (4 : Int64)) ((pos + (4 : Int64)) + ((l).toUInt64.toInt64))))).bind fun _s9 =>
                      let c : S_ServerCookie := { c with C2S := _s9 }
                      let c2s : Bool := true
                      Go.Out.ok ((c, c2s))
                    else
                      Go.Out.ok ((c, c2s)))).bind fun (c, c2s) =>
                  Go.Out.ok ((c, c2s, s2c))) fun (c, c2s, s2c) =>
              let pos : Int64 := (pos + ((4 : Int64) + ((l).toUInt64.toInt64)))
              Go.Ctl.next (algo, c, c2s, pos, s2c)

/-- the generated function is its loop followed by the two final tests (definitional: re-checked
    against the regenerated definition on every run) -/
theorem sc_pieces (c : S_ServerCookie) (b : List UInt8) (fuel : Nat) :
    ntske_ServerCookie_Decode c b fuel =
      (match Go.forFuel (ρ := Go.Out (S_ServerCookie × Bool)) fuel (false, c, false, (0 : Int64), false) (scBody b) with
       | none => Go.Out.stuck
       | some (.inr _r) => _r
       | some (.inl (algo, c, c2s, pos, s2c)) =>
         if (pos != (Go.len b)) then Go.Out.ok ((c, true))
         else if (!((algo && s2c) && c2s)) then Go.Out.ok ((c, true))
         else Go.Out.ok ((c, false))) := rfl

def scView : View ScSt where
  pos := fun (_, _, _, pos, _) => pos
  acc := fun (algo, c, c2s, _, s2c) =>
    { num := if algo then some c.Algo.toNat else none,
      x := if s2c then some (bytesN c.S2C) else none,
      y := if c2s then some (bytesN c.C2S) else none }
  setPos := fun (algo, c, c2s, _, s2c) nx => (algo, c, c2s, nx, s2c)
  onNum := fun (_, c, c2s, _, s2c) v nx => (true, { c with Algo := v }, c2s, nx, s2c)
  onX := fun (algo, c, c2s, _, _) x nx => (algo, { c with S2C := x }, c2s, nx, true)
  onY := fun (algo, c, _, _, s2c) y nx => (algo, { c with C2S := y }, true, nx, s2c)

theorem scView_lawful : scView.Lawful := by
  constructor <;> intros <;> rfl

theorem scPos (algo : Bool) (c : S_ServerCookie) (c2s : Bool) (pos : Int64) (s2c : Bool) :
    scView.pos (algo, c, c2s, pos, s2c) = pos := rfl
theorem scSetPos (algo : Bool) (c : S_ServerCookie) (c2s : Bool) (pos : Int64) (s2c : Bool) (nx : Int64) :
    scView.setPos (algo, c, c2s, pos, s2c) nx = (algo, c, c2s, nx, s2c) := rfl
theorem scOnNum (algo : Bool) (c : S_ServerCookie) (c2s : Bool) (pos : Int64) (s2c : Bool) (v : UInt16) (nx : Int64) :
    scView.onNum (algo, c, c2s, pos, s2c) v nx = (true, { c with Algo := v }, c2s, nx, s2c) := rfl
theorem scOnX (algo : Bool) (c : S_ServerCookie) (c2s : Bool) (pos : Int64) (s2c : Bool) (x : List UInt8) (nx : Int64) :
    scView.onX (algo, c, c2s, pos, s2c) x nx = (algo, { c with S2C := x }, c2s, nx, true) := rfl
theorem scOnY (algo : Bool) (c : S_ServerCookie) (c2s : Bool) (pos : Int64) (s2c : Bool) (y : List UInt8) (nx : Int64) :
    scView.onY (algo, c, c2s, pos, s2c) y nx = (algo, { c with C2S := y }, true, nx, s2c) := rfl

theorem scBody_eq (b : List UInt8) :
    scBody b = bodyOf scView 257 513 769 b (fun s => Go.Out.ok (s.2.1, true)) := by
  funext ⟨algo, c, c2s, pos, s2c⟩
  show scBody b (algo, c, c2s, pos, s2c) =
    contOf scView (fun s => Go.Out.ok (s.2.1, true)) (algo, c, c2s, pos, s2c) (stepAt 257 513 769 b pos)
  by_cases h1 : decide (pos < Go.len b) = true
  · by_cases h2 : decide (Go.len b - pos < 4) = true
    · have hs : stepAt 257 513 769 b pos = .ok .err := by simp [stepAt, h1, h2]
      rw [hs]; simp [scBody, h1, h2, contOf]
    · cases ht : Go.beU16At? b pos with
      | none =>
        have hs : stepAt 257 513 769 b pos = .panic "slice" := by
          simp [stepAt, h1, h2, ht, Go.Out.ofOption, Go.Out.bind]
        rw [hs]; simp [scBody, h1, h2, ht, Go.Out.ofOption, Go.Ctl.bindR, contOf]
      | some t =>
        cases hl : Go.beU16At? b (pos + 2) with
        | none =>
          have hs : stepAt 257 513 769 b pos = .panic "slice" := by
            simp [stepAt, h1, h2, ht, hl, Go.Out.ofOption, Go.Out.bind]
          rw [hs]; simp [scBody, h1, h2, ht, hl, Go.Out.ofOption, Go.Ctl.bindR, contOf]
        | some l =>
          by_cases h3 : decide (l.toUInt64.toInt64 > Go.len b - pos - 4) = true
          · have hs : stepAt 257 513 769 b pos = .ok .err := by
              simp [stepAt, h1, h2, ht, hl, h3, Go.Out.ofOption, Go.Out.bind]
            rw [hs]; simp [scBody, h1, h2, ht, hl, h3, Go.Out.ofOption, Go.Ctl.bindR, contOf]
          · by_cases c0 : (t == (257 : UInt16)) = true
            · by_cases c2 : decide (l < (2 : UInt16)) = true
              · have hs : stepAt 257 513 769 b pos = .ok .err := by
                  simp [stepAt, h1, h2, ht, hl, h3, c0, c2, Go.Out.ofOption, Go.Out.bind]
                rw [hs]; simp [scBody, h1, h2, ht, hl, h3, c0, c2, Go.Out.ofOption, Go.Ctl.bindR, contOf]
              · cases hv : Go.beU16At? b (pos + 4) with
                | none =>
                  have hs : stepAt 257 513 769 b pos = .panic "slice" := by
                    simp [stepAt, h1, h2, ht, hl, h3, c0, c2, hv, Go.Out.ofOption, Go.Out.bind]
                  rw [hs]; simp [scBody, h1, h2, ht, hl, h3, c0, c2, hv, Go.Out.ofOption, Go.Ctl.bindR, contOf]
                | some v =>
                  have hs : stepAt 257 513 769 b pos = .ok (.num v (pos + (4 + l.toUInt64.toInt64))) := by
                    simp [stepAt, h1, h2, ht, hl, h3, c0, c2, hv, Go.Out.ofOption, Go.Out.bind]
                  rw [hs]; simp [scBody, h1, h2, ht, hl, h3, c0, c2, hv, Go.Out.ofOption, Go.Ctl.bindR, contOf, scOnNum]
            · by_cases c1 : (t == (513 : UInt16)) = true
              · cases hsl : Go.subslice? b (pos + 4) (pos + 4 + l.toUInt64.toInt64) with
                | none =>
                  have hs : stepAt 257 513 769 b pos = .panic "slice" := by
                    simp [stepAt, h1, h2, ht, hl, h3, c0, c1, hsl, Go.Out.ofOption, Go.Out.bind]
                  rw [hs]; simp [scBody, h1, h2, ht, hl, h3, c0, c1, hsl, Go.Out.ofOption, Go.Out.bind, Go.Ctl.bindR, contOf]
                | some x =>
                  have hs : stepAt 257 513 769 b pos = .ok (.fx x (pos + (4 + l.toUInt64.toInt64))) := by
                    simp [stepAt, h1, h2, ht, hl, h3, c0, c1, hsl, Go.Out.ofOption, Go.Out.bind]
                  rw [hs]; simp [scBody, h1, h2, ht, hl, h3, c0, c1, hsl, Go.Out.ofOption, Go.Out.bind, Go.Ctl.bindR, contOf, scOnX]
              · by_cases c2 : (t == (769 : UInt16)) = true
                · cases hsl : Go.subslice? b (pos + 4) (pos + 4 + l.toUInt64.toInt64) with
                  | none =>
                    have hs : stepAt 257 513 769 b pos = .panic "slice" := by
                      simp [stepAt, h1, h2, ht, hl, h3, c0, c1, c2, hsl, Go.Out.ofOption, Go.Out.bind]
                    rw [hs]; simp [scBody, h1, h2, ht, hl, h3, c0, c1, c2, hsl, Go.Out.ofOption, Go.Out.bind, Go.Ctl.bindR, contOf]
                  | some y =>
                    have hs : stepAt 257 513 769 b pos = .ok (.fy y (pos + (4 + l.toUInt64.toInt64))) := by
                      simp [stepAt, h1, h2, ht, hl, h3, c0, c1, c2, hsl, Go.Out.ofOption, Go.Out.bind]
                    rw [hs]; simp [scBody, h1, h2, ht, hl, h3, c0, c1, c2, hsl, Go.Out.ofOption, Go.Out.bind, Go.Ctl.bindR, contOf, scOnY]
                · have hs : stepAt 257 513 769 b pos = .ok (.skip (pos + (4 + l.toUInt64.toInt64))) := by
                    simp [stepAt, h1, h2, ht, hl, h3, c0, c1, c2, Go.Out.ofOption, Go.Out.bind]
                  rw [hs]; simp [scBody, h1, h2, ht, hl, h3, c0, c1, c2, Go.Out.ofOption, Go.Out.bind, Go.Ctl.bindR, contOf, scSetPos]
  · have hs : stepAt 257 513 769 b pos = .ok .stop := by simp [stepAt, h1]
    rw [hs]; simp [scBody, h1, contOf]

theorem k257 : (257 : UInt16).toNat = cookieTypeAlgorithm := rfl
theorem k513 : (513 : UInt16).toNat = cookieTypeKeyS2C := rfl
theorem k769 : (769 : UInt16).toNat = cookieTypeKeyC2S := rfl

/-- **`(*ServerCookie).Decode`, for every buffer shorter than 2^62 bytes, every receiver and every
    budget above the length**: the regenerated decoder returns `nil` exactly when `scDecode` decodes,
    with the model's fields; `errUnexpectedCookieData` exactly when the model does; it never panics
    and never runs out of budget (so neither does the model: the last two cases are impossible). -/
theorem C14_leaf_ServerCookie_Decode (c0 : S_ServerCookie) (b : List UInt8) (fuel : Nat)
    (hL : b.length < 4611686018427387904) (hf : b.length < fuel) :
    match scDecode (bytesN b) with
    | .ok t => ∃ c', ntske_ServerCookie_Decode c0 b fuel = .ok (c', false) ∧
        c'.Algo.toNat = t.num ∧ bytesN c'.S2C = t.x ∧ bytesN c'.C2S = t.y
    | .err _ => ∃ c', ntske_ServerCookie_Decode c0 b fuel = .ok (c', true)
    | .panic _ => False
    | .hang => False := by
  have hBl : (bytesN b).length = b.length := by simp [bytesN]
  have h := loop_tie scView scView_lawful 257 513 769 b (fun s => Go.Out.ok (s.2.1, true)) hL
    (b.length + 1) 0 (false, c0, false, (0 : Int64), false) (by omega) (by omega) rfl
  rw [← scBody_eq, k257, k513, k769] at h
  have hacc : scView.acc (false, c0, false, (0 : Int64), false) = {} := rfl
  rw [hacc, List.drop_zero] at h
  rw [sc_pieces]
  unfold scDecode decodeTLV
  rw [hBl]
  obtain ⟨k, hk⟩ : ∃ k, fuel = (b.length + 1) + k := ⟨fuel - (b.length + 1), by omega⟩
  cases hm : tlvLoop true cookieTypeAlgorithm cookieTypeKeyS2C cookieTypeKeyC2S (b.length + 1) (bytesN b) {} with
  | ok st =>
    rw [hm] at h
    obtain ⟨⟨algo, c, c2s, pos, s2c⟩, hrun, hst, hps⟩ := h
    rw [hk, forFuel_mono _ _ k _ _ hrun]
    have hp : pos = Go.len b := hps
    simp only [scView] at hst
    subst hst
    cases algo <;> cases s2c <;> cases c2s <;> simp [hp]
  | err e =>
    rw [hm] at h
    obtain ⟨s', hrun⟩ := h
    rw [hk, forFuel_mono _ _ k _ _ hrun]
    exact ⟨_, rfl⟩
  | panic p => rw [hm] at h; exact h
  | hang => rw [hm] at h; exact h

/-- totality, as a statement about the regenerated code alone -/
theorem C14_leaf_ServerCookie_Decode_total (c0 : S_ServerCookie) (b : List UInt8) (fuel : Nat)
    (hL : b.length < 4611686018427387904) (hf : b.length < fuel) :
    ∃ c' e, ntske_ServerCookie_Decode c0 b fuel = .ok (c', e) := by
  have h := C14_leaf_ServerCookie_Decode c0 b fuel hL hf
  cases hm : scDecode (bytesN b) with
  | ok t => rw [hm] at h; obtain ⟨c', h1, _⟩ := h; exact ⟨c', false, h1⟩
  | err e => rw [hm] at h; obtain ⟨c', h1⟩ := h; exact ⟨c', true, h1⟩
  | panic p => rw [hm] at h; exact h.elim
  | hang => rw [hm] at h; exact h.elim

/-- non-vacuity: the generated decoder on the encoding of (algo 15, S2C = [1,2], C2S = [3]) and on a
    truncated header -/
example : (match ntske_ServerCookie_Decode { Algo := 0, S2C := [], C2S := [] }
      [1, 1, 0, 2, 0, 15, 2, 1, 0, 2, 1, 2, 3, 1, 0, 1, 3] 18 with
    | .ok (c, e) => some (c.Algo, c.S2C, c.C2S, e) | _ => none) = some (15, [1, 2], [3], false) := by
  decide +kernel
example : (match ntske_ServerCookie_Decode { Algo := 0, S2C := [], C2S := [] } [1, 1, 0] 4 with
    | .ok (_, e) => some e | _ => none) = some true := by decide +kernel

/-! ### `(*EncryptedServerCookie).Decode` -/

abbrev EcSt := S_EncryptedServerCookie × Bool × Bool × Bool × Int64   -- (c, ciphertext, id, nonce, pos)

/-- the loop body of the generated `(*EncryptedServerCookie).Decode`, verbatim -/
def ecBody (b : List UInt8) : EcSt → Go.Ctl EcSt (Go.Out (S_EncryptedServerCookie × Bool)) :=
  fun (c, ciphertext, id, nonce, pos) =>
      if (!(decide (pos < (Go.len b)))) then
        Go.Ctl.brk (c, ciphertext, id, nonce, pos)
      else
        if (decide (((Go.len b) - pos) < (4 : Int64))) then
          Go.Ctl.ret (Go.Out.ok ((c, true)))
        else
          Go.Ctl.bindR (Go.Out.ofOption "slice" (Go.beU16At? b pos)) fun _u1 =>
          let t : UInt16 := _u1
          Go.Ctl.bindR (Go.Out.ofOption "slice" (Go.beU16At? b (pos + (2 : Int64)))) fun _u2 =>
          let l : UInt16 := _u2
          if (decide (((l).toUInt64.toInt64) > (((Go.len b) - pos) - (4 : Int64)))) then
            Go.Ctl.ret (Go.Out.ok ((c, true)))
          else
            if (t == (1025 : UInt16)) then
              if (decide (l < (2 : UInt16))) then
                Go.Ctl.ret (Go.Out.ok ((c, true)))
              else
                Go.Ctl.bindR (Go.Out.ofOption "slice" (Go.beU16At? b (pos + (4 : Int64)))) fun _u3 =>
                let c : S_EncryptedServerCookie := { c with ID := _u3 }
                let id : Bool := true
                let pos : Int64 := (pos + ((4 : Int64) + ((l).toUInt64.toInt64)))
                Go.Ctl.next (c, ciphertext, id, nonce, pos)
            else
              Go.Ctl.bindR (if (t == (1281 : UInt16)) then
                  ((Go.Out.ofOption "slice" (Go.subslice? b (pos + (4 : Int64)) ((pos + (4 : Int64)) + ((l).toUInt64.toInt64))))).bind fun _s7 =>
                  let c : S_EncryptedServerCookie := { c with Nonce := _s7 }
                  let nonce : Bool := true
                  Go.Out.ok ((c, ciphertext, nonce))
                else
                  ((if (t == (1537 : UInt16)) then
                      ((Go.Out.ofOption "slice" (Go.subslice? b (pos + (4 : Int64)) ((pos + (4 : Int64)) + ((l).toUInt64.toInt64))))).bind fun _s9 =>
                      let c : S_EncryptedServerCookie := { c with Ciphertext := _s9 }
                      let ciphertext : Bool := true
                      Go.Out.ok ((c, ciphertext))
                    else
                      Go.Out.ok ((c, ciphertext)))).bind fun (c, ciphertext) =>
                  Go.Out.ok ((c, ciphertext, nonce))) fun (c, ciphertext, nonce) =>
              let pos : Int64 := (pos + ((4 : Int64) + ((l).toUInt64.toInt64)))
              Go.Ctl.next (c, ciphertext, id, nonce, pos)

/-- the generated function is its loop followed by the two final tests (definitional: re-checked
    against the regenerated definition on every run) -/
theorem ec_pieces (c : S_EncryptedServerCookie) (b : List UInt8) (fuel : Nat) :
    ntske_EncryptedServerCookie_Decode c b fuel =
      (match Go.forFuel (ρ := Go.Out (S_EncryptedServerCookie × Bool)) fuel (c, false, false, false, (0 : Int64)) (ecBody b) with
       | none => Go.Out.stuck
       | some (.inr _r) => _r
       | some (.inl (c, ciphertext, id, nonce, pos)) =>
         if (pos != (Go.len b)) then Go.Out.ok ((c, true))
         else if (!((id && nonce) && ciphertext)) then Go.Out.ok ((c, true))
         else Go.Out.ok ((c, false))) := rfl

def ecView : View EcSt where
  pos := fun (_, _, _, _, pos) => pos
  acc := fun (c, ciphertext, id, nonce, _) =>
    { num := if id then some c.ID.toNat else none,
      x := if nonce then some (bytesN c.Nonce) else none,
      y := if ciphertext then some (bytesN c.Ciphertext) else none }
  setPos := fun (c, ciphertext, id, nonce, _) nx => (c, ciphertext, id, nonce, nx)
  onNum := fun (c, ciphertext, _, nonce, _) v nx => ({ c with ID := v }, ciphertext, true, nonce, nx)
  onX := fun (c, ciphertext, id, _, _) x nx => ({ c with Nonce := x }, ciphertext, id, true, nx)
  onY := fun (c, _, id, nonce, _) y nx => ({ c with Ciphertext := y }, true, id, nonce, nx)

theorem ecView_lawful : ecView.Lawful := by
  constructor <;> intros <;> rfl

theorem ecPos (c : S_EncryptedServerCookie) (ciphertext id nonce : Bool) (pos : Int64) :
    ecView.pos (c, ciphertext, id, nonce, pos) = pos := rfl
theorem ecSetPos (c : S_EncryptedServerCookie) (ciphertext id nonce : Bool) (pos : Int64) (nx : Int64) :
    ecView.setPos (c, ciphertext, id, nonce, pos) nx = (c, ciphertext, id, nonce, nx) := rfl
theorem ecOnNum (c : S_EncryptedServerCookie) (ciphertext id nonce : Bool) (pos : Int64) (v : UInt16) (nx : Int64) :
    ecView.onNum (c, ciphertext, id, nonce, pos) v nx = ({ c with ID := v }, ciphertext, true, nonce, nx) := rfl
theorem ecOnX (c : S_EncryptedServerCookie) (ciphertext id nonce : Bool) (pos : Int64) (x : List UInt8) (nx : Int64) :
    ecView.onX (c, ciphertext, id, nonce, pos) x nx = ({ c with Nonce := x }, ciphertext, id, true, nx) := rfl
theorem ecOnY (c : S_EncryptedServerCookie) (ciphertext id nonce : Bool) (pos : Int64) (y : List UInt8) (nx : Int64) :
    ecView.onY (c, ciphertext, id, nonce, pos) y nx = ({ c with Ciphertext := y }, true, id, nonce, nx) := rfl

theorem ecBody_eq (b : List UInt8) :
    ecBody b = bodyOf ecView 1025 1281 1537 b (fun s => Go.Out.ok (s.1, true)) := by
  funext ⟨c, ciphertext, id, nonce, pos⟩
  show ecBody b (c, ciphertext, id, nonce, pos) =
    contOf ecView (fun s => Go.Out.ok (s.1, true)) (c, ciphertext, id, nonce, pos) (stepAt 1025 1281 1537 b pos)
  by_cases h1 : decide (pos < Go.len b) = true
  · by_cases h2 : decide (Go.len b - pos < 4) = true
    · have hs : stepAt 1025 1281 1537 b pos = .ok .err := by simp [stepAt, h1, h2]
      rw [hs]; simp [ecBody, h1, h2, contOf]
    · cases ht : Go.beU16At? b pos with
      | none =>
        have hs : stepAt 1025 1281 1537 b pos = .panic "slice" := by
          simp [stepAt, h1, h2, ht, Go.Out.ofOption, Go.Out.bind]
        rw [hs]; simp [ecBody, h1, h2, ht, Go.Out.ofOption, Go.Ctl.bindR, contOf]
      | some t =>
        cases hl : Go.beU16At? b (pos + 2) with
        | none =>
          have hs : stepAt 1025 1281 1537 b pos = .panic "slice" := by
            simp [stepAt, h1, h2, ht, hl, Go.Out.ofOption, Go.Out.bind]
          rw [hs]; simp [ecBody, h1, h2, ht, hl, Go.Out.ofOption, Go.Ctl.bindR, contOf]
        | some l =>
          by_cases h3 : decide (l.toUInt64.toInt64 > Go.len b - pos - 4) = true
          · have hs : stepAt 1025 1281 1537 b pos = .ok .err := by
              simp [stepAt, h1, h2, ht, hl, h3, Go.Out.ofOption, Go.Out.bind]
            rw [hs]; simp [ecBody, h1, h2, ht, hl, h3, Go.Out.ofOption, Go.Ctl.bindR, contOf]
          · by_cases c0 : (t == (1025 : UInt16)) = true
            · by_cases c2 : decide (l < (2 : UInt16)) = true
              · have hs : stepAt 1025 1281 1537 b pos = .ok .err := by
                  simp [stepAt, h1, h2, ht, hl, h3, c0, c2, Go.Out.ofOption, Go.Out.bind]
                rw [hs]; simp [ecBody, h1, h2, ht, hl, h3, c0, c2, Go.Out.ofOption, Go.Ctl.bindR, contOf]
              · cases hv : Go.beU16At? b (pos + 4) with
                | none =>
                  have hs : stepAt 1025 1281 1537 b pos = .panic "slice" := by
                    simp [stepAt, h1, h2, ht, hl, h3, c0, c2, hv, Go.Out.ofOption, Go.Out.bind]
                  rw [hs]; simp [ecBody, h1, h2, ht, hl, h3, c0, c2, hv, Go.Out.ofOption, Go.Ctl.bindR, contOf]
                | some v =>
                  have hs : stepAt 1025 1281 1537 b pos = .ok (.num v (pos + (4 + l.toUInt64.toInt64))) := by
                    simp [stepAt, h1, h2, ht, hl, h3, c0, c2, hv, Go.Out.ofOption, Go.Out.bind]
                  rw [hs]; simp [ecBody, h1, h2, ht, hl, h3, c0, c2, hv, Go.Out.ofOption, Go.Ctl.bindR, contOf, ecOnNum]
            · by_cases c1 : (t == (1281 : UInt16)) = true
              · cases hsl : Go.subslice? b (pos + 4) (pos + 4 + l.toUInt64.toInt64) with
                | none =>
                  have hs : stepAt 1025 1281 1537 b pos = .panic "slice" := by
                    simp [stepAt, h1, h2, ht, hl, h3, c0, c1, hsl, Go.Out.ofOption, Go.Out.bind]
                  rw [hs]; simp [ecBody, h1, h2, ht, hl, h3, c0, c1, hsl, Go.Out.ofOption, Go.Out.bind, Go.Ctl.bindR, contOf]
                | some x =>
                  have hs : stepAt 1025 1281 1537 b pos = .ok (.fx x (pos + (4 + l.toUInt64.toInt64))) := by
                    simp [stepAt, h1, h2, ht, hl, h3, c0, c1, hsl, Go.Out.ofOption, Go.Out.bind]
                  rw [hs]; simp [ecBody, h1, h2, ht, hl, h3, c0, c1, hsl, Go.Out.ofOption, Go.Out.bind, Go.Ctl.bindR, contOf, ecOnX]
              · by_cases c2 : (t == (1537 : UInt16)) = true
                · cases hsl : Go.subslice? b (pos + 4) (pos + 4 + l.toUInt64.toInt64) with
                  | none =>
                    have hs : stepAt 1025 1281 1537 b pos = .panic "slice" := by
                      simp [stepAt, h1, h2, ht, hl, h3, c0, c1, c2, hsl, Go.Out.ofOption, Go.Out.bind]
                    rw [hs]; simp [ecBody, h1, h2, ht, hl, h3, c0, c1, c2, hsl, Go.Out.ofOption, Go.Out.bind, Go.Ctl.bindR, contOf]
                  | some y =>
                    have hs : stepAt 1025 1281 1537 b pos = .ok (.fy y (pos + (4 + l.toUInt64.toInt64))) := by
                      simp [stepAt, h1, h2, ht, hl, h3, c0, c1, c2, hsl, Go.Out.ofOption, Go.Out.bind]
                    rw [hs]; simp [ecBody, h1, h2, ht, hl, h3, c0, c1, c2, hsl, Go.Out.ofOption, Go.Out.bind, Go.Ctl.bindR, contOf, ecOnY]
                · have hs : stepAt 1025 1281 1537 b pos = .ok (.skip (pos + (4 + l.toUInt64.toInt64))) := by
                    simp [stepAt, h1, h2, ht, hl, h3, c0, c1, c2, Go.Out.ofOption, Go.Out.bind]
                  rw [hs]; simp [ecBody, h1, h2, ht, hl, h3, c0, c1, c2, Go.Out.ofOption, Go.Out.bind, Go.Ctl.bindR, contOf, ecSetPos]
  · have hs : stepAt 1025 1281 1537 b pos = .ok .stop := by simp [stepAt, h1]
    rw [hs]; simp [ecBody, h1, contOf]

theorem k1025 : (1025 : UInt16).toNat = cookieTypeKeyID := rfl
theorem k1281 : (1281 : UInt16).toNat = cookieTypeNonce := rfl
theorem k1537 : (1537 : UInt16).toNat = cookieTypeCiphertext := rfl

/-- **`(*EncryptedServerCookie).Decode`, for every buffer shorter than 2^62 bytes, every receiver and every
    budget above the length**: the regenerated decoder returns `nil` exactly when `ecDecode` decodes,
    with the model's fields; `errUnexpectedCookieData` exactly when the model does; it never panics
    and never runs out of budget (so neither does the model: the last two cases are impossible). -/
theorem C14_leaf_EncryptedServerCookie_Decode (c0 : S_EncryptedServerCookie) (b : List UInt8) (fuel : Nat)
    (hL : b.length < 4611686018427387904) (hf : b.length < fuel) :
    match ecDecode (bytesN b) with
    | .ok t => ∃ c', ntske_EncryptedServerCookie_Decode c0 b fuel = .ok (c', false) ∧
        c'.ID.toNat = t.num ∧ bytesN c'.Nonce = t.x ∧ bytesN c'.Ciphertext = t.y
    | .err _ => ∃ c', ntske_EncryptedServerCookie_Decode c0 b fuel = .ok (c', true)
    | .panic _ => False
    | .hang => False := by
  have hBl : (bytesN b).length = b.length := by simp [bytesN]
  have h := loop_tie ecView ecView_lawful 1025 1281 1537 b (fun s => Go.Out.ok (s.1, true)) hL
    (b.length + 1) 0 (c0, false, false, false, (0 : Int64)) (by omega) (by omega) rfl
  rw [← ecBody_eq, k1025, k1281, k1537] at h
  have hacc : ecView.acc (c0, false, false, false, (0 : Int64)) = {} := rfl
  rw [hacc, List.drop_zero] at h
  rw [ec_pieces]
  unfold ecDecode decodeTLV
  rw [hBl]
  obtain ⟨k, hk⟩ : ∃ k, fuel = (b.length + 1) + k := ⟨fuel - (b.length + 1), by omega⟩
  cases hm : tlvLoop true cookieTypeKeyID cookieTypeNonce cookieTypeCiphertext (b.length + 1) (bytesN b) {} with
  | ok st =>
    rw [hm] at h
    obtain ⟨⟨c, ciphertext, id, nonce, pos⟩, hrun, hst, hps⟩ := h
    rw [hk, forFuel_mono _ _ k _ _ hrun]
    have hp : pos = Go.len b := hps
    simp only [ecView] at hst
    subst hst
    cases id <;> cases nonce <;> cases ciphertext <;> simp [hp]
  | err e =>
    rw [hm] at h
    obtain ⟨s', hrun⟩ := h
    rw [hk, forFuel_mono _ _ k _ _ hrun]
    exact ⟨_, rfl⟩
  | panic p => rw [hm] at h; exact h
  | hang => rw [hm] at h; exact h

/-- totality, as a statement about the regenerated code alone -/
theorem C14_leaf_EncryptedServerCookie_Decode_total (c0 : S_EncryptedServerCookie) (b : List UInt8) (fuel : Nat)
    (hL : b.length < 4611686018427387904) (hf : b.length < fuel) :
    ∃ c' e, ntske_EncryptedServerCookie_Decode c0 b fuel = .ok (c', e) := by
  have h := C14_leaf_EncryptedServerCookie_Decode c0 b fuel hL hf
  cases hm : ecDecode (bytesN b) with
  | ok t => rw [hm] at h; obtain ⟨c', h1, _⟩ := h; exact ⟨c', false, h1⟩
  | err e => rw [hm] at h; obtain ⟨c', h1⟩ := h; exact ⟨c', true, h1⟩
  | panic p => rw [hm] at h; exact h.elim
  | hang => rw [hm] at h; exact h.elim

/-- non-vacuity: (key id 7, nonce [9, 9], ciphertext [5]) decodes; a value length beyond the buffer is
    an error, not a panic -/
example : (match ntske_EncryptedServerCookie_Decode { ID := 0, Nonce := [], Ciphertext := [] }
      [4, 1, 0, 2, 0, 7, 5, 1, 0, 2, 9, 9, 6, 1, 0, 1, 5] 18 with
    | .ok (c, e) => some (c.ID, c.Nonce, c.Ciphertext, e) | _ => none) = some (7, [9, 9], [5], false) := by
  decide +kernel
example : (match ntske_EncryptedServerCookie_Decode { ID := 0, Nonce := [], Ciphertext := [] } [5, 1, 0, 9, 1] 6 with
    | .ok (_, e) => some e | _ => none) = some true := by decide +kernel

end ScionTime.LeafTieC14CookiesDec
