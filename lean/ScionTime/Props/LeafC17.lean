/-
  Kernel-checked ties (C17): the Ntimed filter itself — `(*NtimedFilter).Do`, `(*NtimedFilter).Reset`
  and `combine` of core/client/filter_ntimed.go — as regenerated from /repo's Go source on every run
  (Gen/Leaf.lean; fifth generation of the leaf translator: the pointer receiver is threaded through
  and returned, named and multiple results, `var` zero values, constants declared in the body,
  math.Sqrt, `timebase.Epoch()` as an extra parameter — one per call site, eighth generation —, log-only blocks
  skipped) is the hand-written model of Model/Filters.lean: same new state and same returned
  offset, for every state, every four instants and every epoch value (all doubles incl. NaN).
  So the theorems of Props/C17.lean / C17Num.lean about `ntimedDo` are theorems about the code
  as it is in /repo now; the differential run remains as the check of the software double and
  of the prelude.
-/
import ScionTime.Gen.Leaf
import ScionTime.Model.Filters
import ScionTime.Proofs.GoPrelude
namespace ScionTime.LeafTieC17
open ScionTime ScionTime.Gen.Leaf ScionTime.GoLemmas ScionTime.Filters

/-- view of a generated filter state as the model's -/
def nt (f : S_NtimedFilter) : Ntimed :=
  { epoch := f.epoch.toNat, alo := f.alo, amid := f.amid, ahi := f.ahi, alolo := f.alolo, ahihi := f.ahihi, navg := f.navg }

theorem k0 : F64.ofInt 0 = c0 := by decide +kernel
theorem k1 : F64.ofInt 1 = c1 := by decide +kernel
theorem k2 : F64.ofInt 2 = c2 := by decide +kernel
theorem k3 : F64.ofInt 3 = c3 := by decide +kernel
theorem k20 : F64.ofInt 20 = c20 := by decide +kernel
theorem k0001 : F64.ofConst 1 1000 = c0001 := rfl

theorem C17_leaf_Reset (f : S_NtimedFilter) (e : UInt64) :
    nt (client_NtimedFilter_Reset f e) = ntimedReset e.toNat (nt f) := by
  simp only [client_NtimedFilter_Reset, ntimedReset, nt, k0]

theorem C17_leaf_combine (lo mid hi : Int64) (trust : F64.F64) :
    client_combine lo mid hi trust =
      (Int64.ofInt (combine lo.toInt mid.toInt hi.toInt trust).1, (combine lo.toInt mid.toInt hi.toInt trust).2) := by
  simp only [client_combine, combine, k1, k2, k0001, Int64.ofInt_toInt]

theorem sub_eq (t u : Int) : Go.Time.sub t u = timeSub t u := by
  unfold Go.Time.sub timeSub minI64 maxI64
  simp only
  by_cases h1 : t - u < -9223372036854775808
  · simp only [h1, if_true]; decide
  · by_cases h2 : t - u > 9223372036854775807
    · simp only [h1, h2, if_true, if_false]; decide
    · simp only [h1, h2, if_false]

theorem combine_fst (a b c : Int) (t : F64.F64) : (combine a b c t).fst = b := rfl

theorem dur_eq (x : F64.F64) : (timemath_Duration x).toInt = F64.toDuration x := by
  unfold timemath_Duration F64.toDuration
  exact ofInt_toInt64 _

theorem ofInt_toDuration (x : F64.F64) : (Int64.ofInt (F64.toDuration x)).toInt = F64.toDuration x := by
  unfold F64.toDuration; exact ofInt_toInt64 _

theorem inv_eq (d : Int64) : (timemath_Inv d).toInt = inv64 d.toInt := by
  unfold timemath_Inv inv64 minI64 maxI64
  by_cases h : d = Int64.minValue
  · subst h; decide
  · have h' : (d == (-9223372036854775808 : Int64)) = false := by
      rw [beq_eq_false_iff_ne]; exact h
    have hne : d.toInt ≠ -9223372036854775808 := by
      intro hh; apply h; apply Int64.toInt_inj.mp; rw [hh]; decide
    simp only [h', Bool.false_eq_true, if_false, hne]
    rw [Int64.toInt_neg]
    have hl := Int64.le_toInt d
    have hu := Int64.toInt_lt d
    apply Int.bmod_eq_of_le <;> omega

theorem bne_uint64 (a b : UInt64) : (a != b) = true ↔ a.toNat ≠ b.toNat := by
  rw [bne_iff_ne]; exact not_congr UInt64.toNat_inj.symm

theorem C17_leaf_Do (f : S_NtimedFilter) (cTx sRx sTx cRx : Int) (e : UInt64) :
    let r := client_NtimedFilter_Do f cTx sRx sTx cRx e e
    let m := ntimedDo e.toNat (nt f) ⟨cTx, sRx, sTx, cRx⟩
    nt r.1 = m.1 ∧ r.2.toInt = m.2 := by
  have hlt0 : F64.lt c0 c20 = true := by decide +kernel
  have g2 : F64.gt (F64.add c0 c1) c2 = false := by decide +kernel
  have g3 : F64.gt (F64.add c0 c1) c3 = false := by decide +kernel
  by_cases he : (f.epoch != e) = true
  · have he' : ¬ f.epoch.toNat = e.toNat := (bne_uint64 _ _).mp he
    simp only [client_NtimedFilter_Do, ntimedDo, ntimedDoFull, ntimedLo, ntimedHi, ntimedMid, ntimedEnter,
      ntimedNavg, ntimedNoise, ntimedBranch, sub_eq, k0, k1, k2, k3, k20, he, he', if_true, ne_eq,
      not_false_eq_true, client_NtimedFilter_Reset, ntimedReset, nt, hlt0, C17_leaf_combine,
      g2, g3, Bool.false_and, Bool.false_eq_true, if_false]
    constructor
    · split <;> simp_all
    · simp only [inv_eq, combine_fst, dur_eq, ofInt_toDuration]
      split <;> simp_all
  · have he2 : f.epoch = e := by
      have : ¬ (f.epoch != e) = true := he
      simpa using this
    have he' : f.epoch.toNat = e.toNat := by rw [he2]
    have heb : (f.epoch != e) = false := by simpa using he2
    simp only [client_NtimedFilter_Do, ntimedDo, ntimedDoFull, ntimedLo, ntimedHi, ntimedMid, ntimedEnter,
      ntimedNavg, ntimedNoise, ntimedBranch, sub_eq, k0, k1, k2, k3, k20, heb, he', ne_eq,
      not_true_eq_false, if_false, Bool.false_eq_true, nt, C17_leaf_combine,
      inv_eq, combine_fst, dur_eq, ofInt_toDuration]
    constructor
    · repeat' split
      all_goals simp_all
    · repeat' split
      all_goals simp_all

/-- `Do` reads `timebase.Epoch()` TWICE — once in its own test `f.epoch != timebase.Epoch()`, once
    more inside `f.Reset()` — and each reading is a parameter of its own since the eighth generation
    of the translator (`e1`, `e2`). With two different readings the call is the call on the filter
    reset under the second reading, under that reading alone; so `C17_leaf_Do` (one value) covers
    every call, and a third reading added to the code changes the generated signature. -/
theorem C17_leaf_Do_two_readings (f : S_NtimedFilter) (cTx sRx sTx cRx : Int) (e1 e2 : UInt64) :
    client_NtimedFilter_Do f cTx sRx sTx cRx e1 e2 =
      if (f.epoch != e1) = true then
        client_NtimedFilter_Do (client_NtimedFilter_Reset f e2) cTx sRx sTx cRx e2 e2
      else client_NtimedFilter_Do f cTx sRx sTx cRx e1 e1 := by
  by_cases he : (f.epoch != e1) = true
  · rw [if_pos he]
    have h2 : ((client_NtimedFilter_Reset f e2).epoch != e2) = false := by
      simp [client_NtimedFilter_Reset]
    simp only [client_NtimedFilter_Do, he, h2, if_true, Bool.false_eq_true, if_false]
  · have heb : (f.epoch != e1) = false := by simpa using he
    rw [if_neg he]
    simp only [client_NtimedFilter_Do, heb, Bool.false_eq_true, if_false]

/-- the tie for every pair of readings -/
theorem C17_leaf_Do_all (f : S_NtimedFilter) (cTx sRx sTx cRx : Int) (e1 e2 : UInt64) :
    let r := client_NtimedFilter_Do f cTx sRx sTx cRx e1 e2
    let m := if f.epoch.toNat ≠ e1.toNat then ntimedDo e2.toNat (ntimedReset e2.toNat (nt f)) ⟨cTx, sRx, sTx, cRx⟩
             else ntimedDo e1.toNat (nt f) ⟨cTx, sRx, sTx, cRx⟩
    nt r.1 = m.1 ∧ r.2.toInt = m.2 := by
  intro r m
  have h := C17_leaf_Do_two_readings f cTx sRx sTx cRx e1 e2
  by_cases he : (f.epoch != e1) = true
  · have he' : f.epoch.toNat ≠ e1.toNat := (bne_uint64 _ _).mp he
    have hr : r = client_NtimedFilter_Do (client_NtimedFilter_Reset f e2) cTx sRx sTx cRx e2 e2 := by
      show client_NtimedFilter_Do f cTx sRx sTx cRx e1 e2 = _
      rw [h, if_pos he]
    have hm : m = ntimedDo e2.toNat (ntimedReset e2.toNat (nt f)) ⟨cTx, sRx, sTx, cRx⟩ := if_pos he'
    rw [hr, hm, ← C17_leaf_Reset]
    exact C17_leaf_Do _ cTx sRx sTx cRx e2
  · have he' : ¬ f.epoch.toNat ≠ e1.toNat := fun hh => he ((bne_uint64 _ _).mpr hh)
    have hr : r = client_NtimedFilter_Do f cTx sRx sTx cRx e1 e1 := by
      show client_NtimedFilter_Do f cTx sRx sTx cRx e1 e2 = _
      rw [h, if_neg he]
    have hm : m = ntimedDo e1.toNat (nt f) ⟨cTx, sRx, sTx, cRx⟩ := if_neg he'
    rw [hr, hm]
    exact C17_leaf_Do f cTx sRx sTx cRx e1

/-- non-vacuity: a fresh filter's first sample under epoch 7 (reset path), evaluated through the
    generated definition -/
def fresh0 : S_NtimedFilter :=
  { epoch := 0, alo := c0, amid := c0, ahi := c0, alolo := c0, ahihi := c0, navg := c0 }

example : (client_NtimedFilter_Do fresh0 1000 2000 3000 5000 7 7).1.epoch = 7 ∧
    (client_NtimedFilter_Do (client_NtimedFilter_Do fresh0 1000 2000 3000 5000 7 7).1 11000 12000 13000 15000 7 7).1.navg
      = F64.ofInt 2 := by
  decide +kernel

end ScionTime.LeafTieC17
