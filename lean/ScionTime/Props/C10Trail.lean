/-
  C10 — nothing behind the authenticator takes effect.
  `DecodePacket` stops its field walk at the first authenticator; the associated data of the AEAD is
  `b[:pos]` (C10_authPos). Bytes an on-path attacker appends behind a genuine packet are therefore
  not covered by the tag — the property needs that they do not change what is decoded (unique
  identifier, cookies, placeholders, nonce, ciphertext, pos) nor the verdict of
  `ProcessRequest` / `ProcessResponse`. Proved here for every packet whose authenticator's nonce
  and ciphertext lie inside the datagram (always the case for what an encoder emits);
  `Authenticator.unpack` does not check its lengths against the field, so an authenticator that
  reaches beyond the datagram is zero-padded and *would* read appended bytes — refuted form below.
-/
import ScionTime.Proofs.NtsSound
import ScionTime.Proofs.NtsEnc
namespace ScionTime.C10Trail
open ScionTime.Nts

theorem copyN_length (n : Nat) (s : Bytes) : (copyN n s).length = n := by
  unfold copyN
  simp only [List.length_append, List.length_take, zeros_length]
  omega

theorem copyN_append_of_le (n : Nat) (s t : Bytes) (h : n ≤ s.length) : copyN n (s ++ t) = copyN n s := by
  unfold copyN
  rw [List.take_append_of_le_length h]
  have h1 : n - (s ++ t).length = 0 := by simp only [List.length_append]; omega
  have h2 : n - s.length = 0 := by omega
  rw [h1, h2]

/-- `Authenticator.unpack` whose nonce and ciphertext lie inside `body` does not see what follows -/
theorem unpackAuth_append (body t nonce ct : Bytes) (h : unpackAuth body = .ok (nonce, ct))
    (hin : 4 + nonce.length + ct.length ≤ body.length) : unpackAuth (body ++ t) = .ok (nonce, ct) := by
  match body, h with
  | n1 :: n0 :: c1 :: c0 :: r, h =>
    simp only [unpackAuth, Res.ok.injEq, Prod.mk.injEq] at h
    obtain ⟨hn, hc⟩ := h
    have hnl : nonce.length = u16 n1 n0 := by rw [← hn, copyN_length]
    have hcl : ct.length = u16 c1 c0 := by rw [← hc, copyN_length]
    simp only [List.length_cons] at hin
    have h1 : u16 n1 n0 ≤ r.length := by omega
    simp only [List.cons_append, unpackAuth, Res.ok.injEq, Prod.mk.injEq]
    refine ⟨by rw [copyN_append_of_le _ _ _ h1, hn], ?_⟩
    have hm : min (u16 n1 n0) (r ++ t).length = u16 n1 n0 := by simp only [List.length_append]; omega
    have hm' : min (u16 n1 n0) r.length = u16 n1 n0 := by omega
    rw [hm, List.drop_append_of_le_length h1, copyN_append_of_le]
    · rw [← hc, hm']
    · simp only [List.length_drop]; omega

theorem valueLen_le (l : Nat) (h : 4 ≤ l) : valueLen l ≤ l - 4 := by
  unfold valueLen; omega

/-- the field walk on `rest ++ t`: same result as on `rest` when it ended at an authenticator whose
    nonce and ciphertext lie inside `rest` (for every larger fuel) -/
theorem decLoop_append (total : Nat) (t : Bytes) :
    ∀ (fuel : Nat) (rest : Bytes) (fu : Bool) (d : Decoded) (fu' : Bool) (d' : Decoded),
      decLoop true total fuel rest fu d = .ok (fu', true, d') →
      rest.length ≤ total →
      d'.pos + 8 + d'.nonce.length + d'.ct.length ≤ total →
      ∀ j, decLoop true (total + t.length) (fuel + j) (rest ++ t) fu d = .ok (fu', true, d') := by
  intro fuel
  induction fuel with
  | zero => intro rest fu d fu' d' h; simp [decLoop] at h
  | succ fuel ih =>
    intro rest fu d fu' d' h hle hin j
    unfold decLoop at h
    by_cases h28 : rest.length < 28
    · simp [h28] at h
    · obtain ⟨a, b, c, e, body, rfl⟩ : ∃ a b c e body, rest = a :: b :: c :: e :: body := by
        match rest, h28 with
        | a :: b :: c :: e :: body, _ => exact ⟨a, b, c, e, body, rfl⟩
        | [], h | [_], h | [_, _], h | [_, _, _], h => simp at h
      simp only [h28, if_false] at h
      have hfj : fuel + 1 + j = (fuel + j) + 1 := by omega
      have h28' : ¬ ((a :: b :: c :: e :: (body ++ t)).length < 28) := by
        simp only [List.length_cons, List.length_append] at h28 ⊢; omega
      rw [hfj]
      simp only [List.cons_append]
      unfold decLoop
      simp only [h28', if_false]
      by_cases hc : (true && (decide (u16 c e < 4) || decide (u16 c e > (a :: b :: c :: e :: body).length))) = true
      · rw [if_pos hc] at h; simp at h
      · rw [if_neg hc] at h
        have hl4 : 4 ≤ u16 c e := by
          simp only [Bool.true_and, Bool.or_eq_true, decide_eq_true_eq, not_or] at hc; omega
        have hll : u16 c e ≤ (a :: b :: c :: e :: body).length := by
          simp only [Bool.true_and, Bool.or_eq_true, decide_eq_true_eq, not_or] at hc; omega
        have hc' : ¬ (true && (decide (u16 c e < 4) || decide (u16 c e > (a :: b :: c :: e :: (body ++ t)).length))) = true := by
          simp only [Bool.true_and, Bool.or_eq_true, decide_eq_true_eq, not_or, List.length_cons, List.length_append] at hll ⊢
          omega
        rw [if_neg hc']
        have hdrop : List.drop (u16 c e) (a :: b :: c :: e :: (body ++ t)) = List.drop (u16 c e) (a :: b :: c :: e :: body) ++ t := by
          have := List.drop_append_of_le_length (l₂ := t) hll
          simpa only [List.cons_append] using this
        have hdl : (List.drop (u16 c e) (a :: b :: c :: e :: body)).length ≤ total := by
          simp only [List.length_drop]; omega
        have hval : valueLen (u16 c e) ≤ body.length := by
          have := valueLen_le _ hl4
          simp only [List.length_cons] at hll; omega
        by_cases ht : u16 a b = extAuthenticator
        · rw [if_pos ht] at h ⊢
          cases hu : unpackAuth body with
          | ok nc =>
            obtain ⟨nonce, ct⟩ := nc
            rw [hu] at h
            simp only [Res.ok.injEq, Prod.mk.injEq, true_and] at h
            obtain ⟨hfu, hd⟩ := h
            subst hd
            simp only [List.length_cons] at hin hle
            have hin' : 4 + nonce.length + ct.length ≤ body.length := by omega
            rw [unpackAuth_append body t nonce ct hu hin']
            simp only [Res.ok.injEq, Prod.mk.injEq, true_and, hfu]
            congr 1
            simp only [List.length_cons, List.length_append]; omega
          | err x => rw [hu] at h; simp at h
          | panic x => rw [hu] at h; simp at h
          | hang => rw [hu] at h; simp at h
        · rw [if_neg ht] at h ⊢
          by_cases h0 : u16 c e = 0
          · rw [if_pos h0] at h; simp at h
          · rw [if_neg h0] at h ⊢
            rw [hdrop]
            by_cases h1 : u16 a b = extUniqueIdentifier
            · rw [if_pos h1] at h ⊢
              rw [copyN_append_of_le _ _ _ hval]
              exact ih _ _ _ _ _ h hdl hin j
            · rw [if_neg h1] at h ⊢
              by_cases h2 : u16 a b = extCookie
              · rw [if_pos h2] at h ⊢
                rw [copyN_append_of_le _ _ _ hval]
                exact ih _ _ _ _ _ h hdl hin j
              · rw [if_neg h2] at h ⊢
                by_cases h3 : u16 a b = extCookiePlaceholder
                · rw [if_pos h3] at h ⊢; exact ih _ _ _ _ _ h hdl hin j
                · rw [if_neg h3] at h ⊢; exact ih _ _ _ _ _ h hdl hin j

/-- **Nothing behind the authenticator is decoded.** If `DecodePacket b` succeeds and the
    authenticator's nonce and ciphertext lie inside `b`, then for every appended `t` (further
    extension fields, a unique identifier of another request, cookies, a second authenticator,
    padding) `DecodePacket (b ++ t)` yields the very same packet: identifier, cookies,
    placeholders, nonce, ciphertext and `pos`. -/
theorem C10_trailing_ignored (b t : Bytes) (d : Decoded) (h : decodePacket b = .ok d)
    (hin : d.pos + 8 + d.nonce.length + d.ct.length ≤ b.length) : decodePacket (b ++ t) = .ok d := by
  unfold decodePacket decodePacketG at h ⊢
  split at h
  · rename_i fu fa d0 hl
    by_cases hfu : fu = true
    · by_cases hfa : fa = true
      · subst hfu hfa
        simp only [Bool.not_true, Bool.false_eq_true, if_false, Res.ok.injEq] at h
        subst h
        by_cases hlen : ntpPacketLen ≤ b.length
        · have hd : (b ++ t).drop ntpPacketLen = b.drop ntpPacketLen ++ t := List.drop_append_of_le_length hlen
          have hfuel : (b ++ t).length + 1 = (b.length + 1) + t.length := by simp only [List.length_append]; omega
          rw [hd, hfuel, List.length_append]
          rw [decLoop_append b.length t _ _ _ _ _ _ hl (by simp only [List.length_drop]; omega) hin t.length]
          simp
        · have hnil : b.drop ntpPacketLen = [] := List.drop_of_length_le (by omega)
          rw [hnil] at hl
          unfold decLoop at hl
          simp at hl
      · simp [hfu, hfa] at h
    · simp [hfu] at h
  · simp at h
  · simp at h
  · simp at h

/-- the verdict of a client does not depend on appended bytes either: `ProcessResponse` on the
    longer datagram is handed the same decoded packet and the same associated data `b[:pos]` -/
theorem C10_trailing_same_ad (b t : Bytes) (d : Decoded) (hp : d.pos ≤ b.length) :
    (b ++ t).take d.pos = b.take d.pos := List.take_append_of_le_length hp

/-- **Same verdicts.** With bytes appended behind a self-contained authenticator the client
    (`DecodePacket` + `ProcessResponse`) and the server (`DecodePacket` + `ProcessRequest`) decide on
    the same decoded packet and the same associated data, hence return the same verdict and cookies. -/
theorem C10_trailing_same_verdict (A : AEAD) (b t key reqId : Bytes) (d : Decoded) (h : decodePacket b = .ok d)
    (hin : d.pos + 8 + d.nonce.length + d.ct.length ≤ b.length) :
    decodePacket (b ++ t) = .ok d ∧
      processResponse A (b ++ t) key d reqId = processResponse A b key d reqId ∧
      processRequest A (b ++ t) key d = processRequest A b key d := by
  have hp : d.pos ≤ b.length := by omega
  refine ⟨C10_trailing_ignored b t d h hin, ?_, ?_⟩
  · unfold processResponse processResponseG authenticateG
    rw [C10_trailing_same_ad b t d hp]
  · unfold processRequest processRequestG authenticateG
    rw [C10_trailing_same_ad b t d hp]

/-- **A response to another request stays one.** A packet whose authenticated identifier is not
    the outstanding request's is rejected with `unexpected response ID` whatever is appended to it —
    in particular the outstanding request's own identifier in a field behind the authenticator. -/
theorem C10_trailing_other_request_rejected (A : AEAD) (b t key reqId : Bytes) (d : Decoded)
    (h : decodePacket b = .ok d) (hin : d.pos + 8 + d.nonce.length + d.ct.length ≤ b.length) (hne : reqId ≠ d.uid) :
    ∃ d', decodePacket (b ++ t) = .ok d' ∧ processResponse A (b ++ t) key d' reqId = .err .respId := by
  refine ⟨d, C10_trailing_ignored b t d h hin, ?_⟩
  unfold processResponse processResponseG
  rw [if_pos hne]

set_option maxRecDepth 20000

/-- non-vacuity: a header, a 32-byte identifier field, an authenticator with a 16-byte nonce and a
    16-byte ciphertext; appended: the identifier field of another request -/
example :
    let b := List.replicate 48 0 ++ ([1, 4, 0, 36] ++ List.replicate 32 7) ++ ([4, 4, 0, 40, 0, 16, 0, 16] ++ List.replicate 32 9)
    let t := [1, 4, 0, 36] ++ List.replicate 32 8
    (∃ d, decodePacket b = .ok d ∧ d.uid = List.replicate 32 7 ∧ d.pos + 8 + d.nonce.length + d.ct.length ≤ b.length ∧
      decodePacket (b ++ t) = .ok d) := by
  refine ⟨{ uid := List.replicate 32 7, nonce := List.replicate 16 9, ct := List.replicate 16 9, pos := 84 }, ?_⟩
  decide

/-- the hypothesis on the authenticator is needed: with a ciphertext length that reaches beyond the
    datagram (`Authenticator.unpack` pads with zeros, it does not check the field length) appended
    bytes do become ciphertext — which the AEAD then refuses, so no acceptance follows from it -/
theorem C10_trailing_overlong_authenticator_counterexample :
    ∃ b t d, decodePacket b = .ok d ∧ decodePacket (b ++ t) ≠ .ok d := by
  refine ⟨List.replicate 48 0 ++ ([1, 4, 0, 36] ++ List.replicate 32 7) ++ ([4, 4, 0, 28, 0, 16, 0, 16] ++ List.replicate 20 9),
    [5], { uid := List.replicate 32 7, nonce := List.replicate 16 9, ct := List.replicate 4 9 ++ List.replicate 12 0, pos := 84 }, ?_⟩
  decide

end ScionTime.C10Trail

