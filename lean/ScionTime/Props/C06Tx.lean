/-
  C06 / C09 / C03 (server side) — how the listeners obtain and record transmit timestamps.
  Model: ScionTime/Model/ListenerTx.lean (`code` = the repaired listeners, `codeOld` = before the
  `fix:` commit for finding F20), composed with the store of Model/Server.lean.
  Helper lemmas: Proofs/ListenerTx.lean.

  Clause of C06: "the recorded transmit time is the kernel transmit timestamp once it has been
  read, and an exchange for which none could be read is dropped from the record rather than
  served"; C09: "sends exactly one reply for each well-formed request" (the step after the
  write terminates whatever the kernel delivers); C03 (server side): the transmit time served in
  interleaved mode is never a clock reading taken after the departure.
-/
import ScionTime.Proofs.ListenerTx
import ScionTime.Proofs.ServerFrame
import ScionTime.Props.C06
import ScionTime.Gen.Server
import ScionTime.Gen.Udp
namespace ScionTime.Props.C06Tx
open ScionTime.Time64 ScionTime.Server ScionTime.ListenerTx ScionTime.Props.C06

/-! ### pins: the statements in the sources are the modelled ones (re-read from /repo on every run
    by harness/extract/x_c06tx.go; log statements left out) -/

/-- what follows the write-error check in the NTP branches: read, skip timestamps of earlier
    datagrams, the three-way bookkeeping with both fallbacks `txt1 = txt0`, the store update -/
def srcPostSendNtp : String :=
  "txt1, id, err := udp.ReadTXTimestamp(conn) ;; for err == nil && int32(id-txid) < 0 { txt1, id, err = udp.ReadTXTimestamp(conn) } ;; if err != nil { txt1 = txt0 txid++ } else if id != txid { txt1 = txt0 txid = id + 1 } else { txid++ } ;; updateTXTimestamp(clientID, rxt, &txt1)"
/-- the same in the SCMP and forwarding branches (the timestamp itself is discarded) -/
def srcPostSendAux : String :=
  "_, id, err := udp.ReadTXTimestamp(conn) ;; for err == nil && int32(id-txid) < 0 { _, id, err = udp.ReadTXTimestamp(conn) } ;; if err != nil { txid++ } else if id != txid { txid = id + 1 } else { txid++ }"

/-- every send site of the listeners is followed by exactly this step (`sendRead code`): one
    send site in `runIPServer`; three in `runSCIONServer` — SCMP reply, forwarded packet, NTP reply -/
theorem C06_pin_txPostSend :
    Gen.Server.txSendSites_runIPServer = 1 ∧ Gen.Server.txPostSend_runIPServer = [srcPostSendNtp] ∧
    Gen.Server.txSendSites_runSCIONServer = 3 ∧
    Gen.Server.txPostSend_runSCIONServer = [srcPostSendAux, srcPostSendAux, srcPostSendNtp] :=
  ⟨rfl, rfl, rfl, rfl⟩

/-- `txid` is changed by these statements only (`decide3`: `txid++`, `txid = id + 1`, `txid++` per
    send site) and its address is never taken -/
theorem C06_pin_txidAssignments :
    Gen.Server.txidAssignments_runIPServer = ["txid++", "txid = id + 1", "txid++"] ∧
    Gen.Server.txidAssignments_runSCIONServer =
      ["txid++", "txid = id + 1", "txid++", "txid++", "txid = id + 1", "txid++", "txid++", "txid = id + 1", "txid++"] := by
  decide

/-- F21 repair: the `updateTXTimestamp` calls of the listeners, in source order — one with the
    unchanged software reading `&txt0` in front of every `continue` that ends an iteration after
    `handleRequest` without a reply (IP: no cookie, failed write; SCION: path not reversible, no
    cookie, failed write: `stepEv code | .unsent`), and the one after the send with `&txt1` -/
theorem C06_pin_updateTxCalls :
    Gen.Server.updateTxCalls_runIPServer =
      ["updateTXTimestamp(clientID, rxt, &txt0)", "updateTXTimestamp(clientID, rxt, &txt0)",
       "updateTXTimestamp(clientID, rxt, &txt1)"] ∧
    Gen.Server.updateTxCalls_runSCIONServer =
      ["updateTXTimestamp(clientID, rxt, &txt0)", "updateTXTimestamp(clientID, rxt, &txt0)",
       "updateTXTimestamp(clientID, rxt, &txt0)", "updateTXTimestamp(clientID, rxt, &txt1)"] := by
  decide

/-- C03: no statement after a send reads the clock (the model's step after the write has no
    clock input) -/
theorem C03_pin_noClockAfterSend :
    Gen.Server.fact_noClockAfterSend_runIPServer = true ∧ Gen.Server.fact_noClockAfterSend_runSCIONServer = true := by
  decide

/-- C09: every `return` of the closure handed to `RawConn.Read` is `return true` — the runtime
    never re-runs it, one call is one bounded poll — and the poll waits `pollTimeoutMs` = 1 ms
    for `POLLPRI` on the one descriptor -/
theorem C09_pin_readTxGivesUp :
    Gen.Udp.fact_readTxClosureAlwaysDone = true ∧
    Gen.Udp.readTxPollArgs = ["pollFds", toString pollTimeoutMs] ∧ Gen.Udp.readTxPollEvents = "unix.POLLPRI" := by
  decide

/-- the closure of `ReadTXTimestamp`, statement by statement, is what `readTX` models: poll (EINTR
    retried), error exit, time-out exit with `errTimestampNotFound`, recvmsg on the error queue
    (EINTR retried), error exit, the three `errUnexpectedData` exits, the control-message walk -/
theorem C06_pin_readTxClosure :
    Gen.Udp.readTxClosure =
      ["pollFds := []unix.PollFd{{Fd: int32(fd), Events: unix.POLLPRI}}",
       "var n int",
       "for { n, err = unix.Poll(pollFds, 1) if err == unix.EINTR { continue } break }",
       "if err != nil { res.err = err return true }",
       "if n != len(pollFds) { res.err = errTimestampNotFound return true }",
       "buf := make([]byte, 0)",
       "oob := make([]byte, 128)",
       "var oobn, flags int",
       "var srcAddr unix.Sockaddr",
       "for { n, oobn, flags, srcAddr, err = unix.Recvmsg(int(fd), buf, oob, unix.MSG_ERRQUEUE) if err == unix.EINTR { continue } break }",
       "if err != nil { res.err = err return true }",
       "if n != 0 { res.err = errUnexpectedData return true }",
       "if flags != unix.MSG_ERRQUEUE { res.err = errUnexpectedData return true }",
       "if srcAddr != nil { res.err = errUnexpectedData return true }",
       "res.ts, res.id, res.err = timestampFromOOBData(oob[:oobn])",
       "return true"] := rfl

/-! ### `udp.ReadTXTimestamp` -/

/-- A call succeeds exactly when poll(2) reported the descriptor ready and recvmsg returned an
    empty, source-less error-queue message whose control data carries both a timestamp and an
    id; it then returns exactly those. -/
theorem C06_readTX_success_iff (k : Kernel) (t : Int) (id : Nat) :
    readTX k = .ret t id .none ↔ k = stampMsg id t := by
  constructor
  · intro h
    cases k with
    | connErr e => simp [readTX] at h
    | sys p r =>
      cases p with
      | err e => simp [readTX] at h
      | ready n =>
        by_cases hn : n = pollFdsLen
        · cases r with
          | err e => simp [readTX, hn] at h
          | msg m fl src c =>
            by_cases hm : m = 0
            · by_cases hf : fl = msgErrqueue
              · cases src with
                | true => simp [readTX, hn, hm, hf] at h
                | false =>
                  cases c with
                  | malformed => simp [readTX, hn, hm, hf] at h
                  | panics => simp [readTX, hn, hm, hf] at h
                  | fields ts i =>
                    cases ts <;> cases i <;> simp [readTX, hn, hm, hf] at h
                    obtain ⟨rfl, rfl⟩ := h
                    simp [stampMsg, hn, hm, hf, pollFdsLen]
              · simp [readTX, hn, hm, hf] at h
            · simp [readTX, hn, hm] at h
        · simp [readTX, hn] at h
  · rintro rfl; simp [readTX, stampMsg, pollFdsLen]

/-- Every failure returns the zero time and id 0 together with a non-nil error: no failure
    can be mistaken for a timestamp (in particular a poll time-out is `errTimestampNotFound`,
    not success). -/
theorem C06_readTX_failure_shape (k : Kernel) (t : Int) (id : Nat) (e : Err)
    (h : readTX k = .ret t id e) : e = .none ∨ (t = zeroTime ∧ id = 0) := by
  cases k with
  | connErr x => simp [readTX] at h; right; exact ⟨h.1.symm, h.2.1.symm⟩
  | sys p r =>
    cases p with
    | err x => simp [readTX] at h; right; exact ⟨h.1.symm, h.2.1.symm⟩
    | ready n =>
      by_cases hn : n = pollFdsLen
      · cases r with
        | err x => simp [readTX, hn] at h; right; exact ⟨h.1.symm, h.2.1.symm⟩
        | msg m fl src c =>
          by_cases hm : m = 0
          · by_cases hf : fl = msgErrqueue
            · cases src with
              | true => simp [readTX, hn, hm, hf] at h; right; exact ⟨h.1.symm, h.2.1.symm⟩
              | false =>
                cases c with
                | malformed => simp [readTX, hn, hm, hf] at h; right; exact ⟨h.1.symm, h.2.1.symm⟩
                | panics => simp [readTX, hn, hm, hf] at h
                | fields ts i =>
                  cases ts <;> cases i <;> simp [readTX, hn, hm, hf] at h
                  · right; exact ⟨h.1.symm, h.2.1.symm⟩
                  · right; exact ⟨h.1.symm, h.2.1.symm⟩
                  · right; exact ⟨h.1.symm, h.2.1.symm⟩
                  · left; exact h.2.2.symm
            · simp [readTX, hn, hm, hf] at h; right; exact ⟨h.1.symm, h.2.1.symm⟩
          · simp [readTX, hn, hm] at h; right; exact ⟨h.1.symm, h.2.1.symm⟩
      · simp [readTX, hn] at h; right; exact ⟨h.1.symm, h.2.1.symm⟩

/-- C09: when nothing arrives on the error queue within the poll time-out the call gives up
    (for any number of ready descriptors other than the one polled). -/
theorem C09_readTX_timeout_gives_up (n : Nat) (r : RecvAns) (h : n ≠ 1) :
    readTX (.sys (.ready n) r) = .ret zeroTime 0 .notFound := by
  simp [readTX, pollFdsLen, h]

example : readTX emptyQueue = .ret zeroTime 0 .notFound := by decide
example : readTX (stampMsg 7 1700000000000000000) = .ret 1700000000000000000 7 .none := by decide

/-! ### one iteration: write, read, bookkeeping -/

/-- The `if err != nil … else if id != txid … else …` block (both variants): the value handed on
    is the timestamp read only if the read succeeded **and** carries the expected id; in every
    other case it is the software reading `txt0` taken before the write. -/
theorem C06_decide3_value (fixed : Bool) (txid : Nat) (txt0 : Int) (r : Int × Nat × Err) :
    ((decide3 fixed txid txt0 r).1 = r.1 ∧ r.2.2 = .none ∧ r.2.1 = txid) ∨
    (decide3 fixed txid txt0 r).1 = txt0 := by
  unfold decide3
  by_cases h1 : r.2.2 = .none
  · by_cases h2 : r.2.1 = txid
    · left; simp [h1, h2]
    · right; simp [h1, h2]
  · right; simp [h1]

/-- C09: an iteration calls `ReadTXTimestamp` at least once and at most once more than there are
    entries on the error queue — each call is one poll of at most 1 ms — so the step after the
    write terminates whatever the kernel has delivered; the original code reads exactly once. -/
theorem C09_reads_bounded (cfg : Cfg) (s : LSock) (txt0 : Int) (kb : KB) :
    1 ≤ (sendRead cfg s txt0 kb).nreads ∧
    (sendRead cfg s txt0 kb).nreads ≤ (s.send kb).queue.length + 1 ∧
    (cfg.fixed = false → (sendRead cfg s txt0 kb).nreads = 1) := by
  unfold sendRead
  simp only
  refine ⟨(reads_count_le _ _ _).1, (reads_count_le _ _ _).2, ?_⟩
  intro h; rw [h]; exact reads_old_once _ _

/-- Repaired code, aligned socket: the listener's `txid` stays equal to the kernel's datagram
    counter, everything older is gone from the queue, and the value handed on is this
    datagram's own kernel timestamp if it was delivered in time and `txt0` otherwise —
    whatever was late or lost before. -/
theorem C06_sendRead_own_or_fallback (sr : Bool) (s : LSock) (al : Aligned s) (txt0 : Int) (kb : KB) :
    Aligned (sendRead ⟨true, sr, true⟩ s txt0 kb).sock ∧
    (sendRead ⟨true, sr, true⟩ s txt0 kb).dgram = s.sent ∧
    (∀ t, kb = .intime t → (sendRead ⟨true, sr, true⟩ s txt0 kb).txt1 = t) ∧
    (kb.own = none → (sendRead ⟨true, sr, true⟩ s txt0 kb).txt1 = txt0) := by
  obtain ⟨a, _, _, d, e, _⟩ := sendRead_fixed sr s al txt0 kb
  refine ⟨a, d, ?_, ?_⟩
  · intro t h; rw [e, h]
  · intro h; rw [e]; cases kb <;> simp [KB.own] at h ⊢

/-- C09, cost of the repaired loop over a whole history on one socket: n datagrams written cost
    at most 2·n `ReadTXTimestamp` calls (plus one per timestamp still under way at the start) —
    one per datagram and at most one more for each timestamp that arrived late. Each call is one
    poll of at most 1 ms; none of them can block. -/
theorem C09_reads_amortised (sr : Bool) (kbs : List KB) (s : LSock) (al : Aligned s) (hq : s.queue = []) :
    (runSock sr s kbs).2 ≤ 2 * kbs.length + s.pending.length := by
  have := runSock_reads sr kbs s al hq
  omega

example : (runSock true LSock.init [.late 0 5, .late 0 6, .intime 7, .never, .intime 9]).2 = 7 := by decide

/-! ### all histories -/

/-- what is invariant in a listener process: every socket aligned, the store well-formed -/
structure WInv (cap icap : Nat) (w : World) : Prop where
  socks : ∀ k, Aligned (w.socks k)
  store : Inv0 (fun _ => True) cap icap w.store

theorem C06_tx_inv_init (cap icap : Nat) : WInv cap icap World.init := by
  refine ⟨fun _ => aligned_init, ?_⟩
  have := C06_inv_init cap icap
  exact ⟨this.wf, this.size, fun k it h => by simp [World.init, Server.init] at h⟩

/-! ### what is on record, all histories -/

/-- `e` is the record of an exchange of client `cl` in `outs`: its receive timestamp is the one
    that reply carried and its transmit time is the kernel transmit timestamp of *that reply's
    own datagram*, delivered in time (forced at least 1 ns later than the receive time) -/
def Good (outs : List Out) (cl : Nat) (e : Entry) : Prop :=
  ∃ o ∈ outs, o.cl = cl ∧ o.sent = true ∧ o.reply ≠ none ∧ e.rx = ofTime o.rxt ∧
    ∃ t, o.own = some t ∧ e.tx = ofTime (utxTxt o.rxt t)

/-- everything on record is `Good` -/
def RecInv (w : World) (outs : List Out) : Prop :=
  ∀ cl it e, w.store.items.find cl = some it → e ∈ it.buf → Good outs cl e

theorem good_mono_left {a : List Out} (b : List Out) {cl : Nat} {e : Entry} (h : Good a cl e) : Good (a ++ b) cl e := by
  obtain ⟨o, ho, r⟩ := h
  exact ⟨o, List.mem_append_left _ ho, r⟩

section
variable (cap icap : Nat) (hcap : 1 ≤ cap) (hic : 1 ≤ icap) (hic2 : icap < 1000000000)
include hcap hic hic2

theorem C06_tx_inv_step (w : World) (inv : WInv cap icap w) (e : Ev) :
    WInv cap icap (stepEv code cap icap w e).1 := by
  cases e with
  | ntp sk cl req krx nowRx now kb =>
    constructor
    · intro k
      simp only [stepEv, setSock]
      split
      · exact (sendRead_fixed true _ (inv.socks sk) _ kb).1
      · exact inv.socks k
    · simp only [stepEv]
      apply inv0_updateTX
      · exact inv0_handleRequestG true cap icap hcap hic hic2 _ inv.store _ _ _ _ (fun _ _ _ _ _ => trivial)
      · intros; trivial
  | aux sk kb =>
    constructor
    · intro k
      simp only [stepEv, code, if_true, setSock]
      split
      · exact (sendRead_fixed true _ (inv.socks sk) _ kb).1
      · exact inv.socks k
    · exact inv.store
  | drop sk => exact inv
  | unsent sk cl req krx nowRx now =>
    constructor
    · intro k; exact inv.socks k
    · simp only [stepEv, code, if_true]
      apply inv0_updateTX
      · exact inv0_handleRequestG true cap icap hcap hic hic2 _ inv.store _ _ _ _ (fun _ _ _ _ _ => trivial)
      · intros; trivial

theorem C06_tx_inv_run : ∀ (evs : List Ev) (w : World), WInv cap icap w →
    WInv cap icap (runEvs code cap icap w evs).1 := by
  intro evs
  induction evs with
  | nil => intro w h; exact h
  | cons e es ih => intro w h; exact ih _ (C06_tx_inv_step cap icap hcap hic hic2 w h e)

/-- **txid alignment**: after every history — NTP replies, SCMP replies, forwarded packets and
    unanswered datagrams of any clients on any sockets, transmit timestamps in time, late or
    lost — each listener's `txid` equals the number of datagrams written on its socket (the
    kernel's id of the next datagram), and no timestamp of an earlier datagram is left. -/
theorem C06_txid_counts_datagrams (evs : List Ev) (k : Nat) :
    let w := (runEvs code cap icap World.init evs).1
    (w.socks k).txid = (w.socks k).sent ∧ ∀ x ∈ (w.socks k).queue, x.id < (w.socks k).sent := by
  have h := (C06_tx_inv_run cap icap hcap hic hic2 evs World.init (C06_tx_inv_init cap icap)).socks k
  exact ⟨h.txid, h.queue⟩

/-- what one iteration hands to the store -/
def OutOk (o : Out) : Prop :=
  o.reply ≠ none → (∀ t, o.own = some t → o.txt1 = t) ∧ (o.own = none → o.txt1 = o.txt0)

omit hcap hic hic2 in
theorem C06_tx_step_value (w : World) (inv : WInv cap icap w) (e : Ev) :
    OutOk (stepEv code cap icap w e).2 := by
  cases e with
  | ntp sk cl req krx nowRx now kb =>
    intro _
    obtain ⟨_, _, a, b⟩ := C06_sendRead_own_or_fallback true _ (inv.socks sk)
      (handleRequest cap icap w.store cl req (krx.getD nowRx) now).txt kb
    simp only [stepEv]
    refine ⟨?_, b⟩
    intro t ht
    cases kb <;> simp [KB.own] at ht
    subst ht
    exact a _ rfl
  | aux sk kb => intro h; simp [stepEv, Out.none] at h
  | drop sk => intro h; simp [stepEv, Out.none] at h
  | unsent sk cl req krx nowRx now => intro h; simp [stepEv, Out.none] at h

/-- **value handed to the store, all histories**: for every datagram written in any history the
    value handed to `updateTXTimestamp` is the kernel transmit timestamp *of that very datagram*
    when it was delivered in time, and otherwise — lost, late, or an earlier timestamp showing
    up in its place — the software reading `txt0` (which makes the store drop the exchange).
    No other value is ever handed over. -/
theorem C06_tx_value_all_histories : ∀ (evs : List Ev) (w : World), WInv cap icap w →
    ∀ o ∈ (runEvs code cap icap w evs).2, OutOk o := by
  intro evs
  induction evs with
  | nil => intro w _ o h; simp [runEvs] at h
  | cons e es ih =>
    intro w inv o ho
    simp only [runEvs, List.mem_cons] at ho
    rcases ho with rfl | ho
    · exact C06_tx_step_value cap icap w inv e
    · exact ih _ (C06_tx_inv_step cap icap hcap hic hic2 w inv e) o ho

/-- **recorded or dropped** (one NTP exchange in any reachable state): after the iteration, an
    entry of this client with the reply's receive timestamp is on record only if the kernel
    delivered this datagram's transmit timestamp `t` in time, and then its recorded transmit time
    is the encoding of `t` (forced later than the receive time by at least 1 ns); it was written
    for this client. In every other case the exchange is not on record. -/
theorem C06_tx_recorded_or_dropped (w : World) (inv : WInv cap icap w) (sk cl : Nat) (req : Req)
    (krx : Option Int) (nowRx now : Int) (kb : KB) :
    let r := stepEv code cap icap w (.ntp sk cl req krx nowRx now kb)
    ∀ it e, r.1.store.items.find cl = some it → e ∈ it.buf → e.rx = ofTime r.2.rxt →
      ∃ t, kb = .intime t ∧ e.tx = ofTime (utxTxt r.2.rxt t) ∧ e.owner = cl := by
  intro r it e hfind he hrx
  -- the state between handleRequest and updateTXTimestamp
  have inv1 : Inv0 (fun _ => True) cap icap (handleRequest cap icap w.store cl req (krx.getD nowRx) now).st :=
    inv0_handleRequestG true cap icap hcap hic hic2 _ inv.store _ _ _ _ (fun _ _ _ _ _ => trivial)
  have inv2 := (C06_tx_inv_step cap icap hcap hic hic2 w inv (.ntp sk cl req krx nowRx now kb)).store
  have hlater := (C06_txt_later true cap icap w.store cl req (krx.getD nowRx) now (Or.inl rfl)).1
  have hval := C06_tx_step_value cap icap w inv (.ntp sk cl req krx nowRx now kb)
    (by simp [stepEv])
  simp only [r, stepEv, handleRequest] at hfind hrx hval inv2 inv1 hlater ⊢
  generalize hhr : handleRequestG true cap icap w.store cl req (krx.getD nowRx) now = hr at *
  generalize hp : sendRead code (w.socks sk) hr.txt kb = p at *
  cases hf1 : hr.st.items.find cl with
  | none =>
    have : (updateTX hr.st cl hr.rxt p.txt1).1 = hr.st := by unfold updateTX; simp [hf1]
    rw [this, hf1] at hfind; cases hfind
  | some it1 =>
    have hrec : (⟨ofTime hr.rxt, ofTime hr.txt, cl⟩ : Entry) ∈ it1.buf := by
      have := hr_recorded true cap icap hcap w.store inv.store cl req (krx.getD nowRx) now it1
      rw [hhr] at this
      exact this hf1
    have key := C06_recorded_tx cap icap hr.st inv1 cl hr.rxt p.txt1 it1 hf1 _ hrec rfl
    obtain ⟨_, _, kne, keq⟩ := key
    rw [utx_txt] at kne keq
    by_cases hq : ofTime hr.txt = ofTime (utxTxt hr.rxt p.txt1)
    · exact absurd hrx ((keq hq it hfind).1 e he)
    · obtain ⟨it', hf', hmem, _⟩ := kne hq
      rw [hfind] at hf'; cases hf'
      have ok := inv2.items cl it hfind
      have heq : e = { (⟨ofTime hr.rxt, ofTime hr.txt, cl⟩ : Entry) with tx := ofTime (utxTxt hr.rxt p.txt1) } :=
        eq_of_rx_eq ok.distinct he hmem (by rw [hrx])
      cases kb with
      | intime t =>
        refine ⟨t, rfl, ?_, ?_⟩
        · rw [heq, hval.1 t rfl]
        · rw [heq]
      | never =>
        exfalso; apply hq
        rw [hval.2 rfl]; unfold utxTxt; simp [hlater]
      | late d t =>
        exfalso; apply hq
        rw [hval.2 rfl]; unfold utxTxt; simp [hlater]

/-- **a reply whose timestamp was not delivered is dropped**: lost or late — right after the
    iteration no exchange with that receive timestamp is on record for the client, so a
    request quoting it is answered in basic mode (`C06_interleaved_iff`). -/
theorem C06_tx_undelivered_dropped (w : World) (inv : WInv cap icap w) (sk cl : Nat) (req : Req)
    (krx : Option Int) (nowRx now : Int) (kb : KB) (hkb : kb.own = none) :
    let r := stepEv code cap icap w (.ntp sk cl req krx nowRx now kb)
    ∀ it e, r.1.store.items.find cl = some it → e ∈ it.buf → e.rx ≠ ofTime r.2.rxt := by
  intro r it e hfind he hrx
  obtain ⟨t, ht, _⟩ := C06_tx_recorded_or_dropped cap icap hcap hic hic2 w inv sk cl req krx nowRx now kb it e hfind he hrx
  rw [ht] at hkb; simp [KB.own] at hkb

omit hcap hic hic2 in
/-- For the store, the repaired listeners' "recorded, then nothing sent" iteration is the NTP
    iteration whose transmit timestamp is never delivered: both hand `txt0` itself to
    `updateTXTimestamp` (the socket, untouched here, is the only difference). -/
theorem unsent_store_eq (w : World) (inv : WInv cap icap w) (sk cl : Nat) (req : Req)
    (krx : Option Int) (nowRx now : Int) :
    (stepEv code cap icap w (.unsent sk cl req krx nowRx now)).1.store =
      (stepEv code cap icap w (.ntp sk cl req krx nowRx now .never)).1.store ∧
    (stepEv code cap icap w (.unsent sk cl req krx nowRx now)).2.rxt =
      (stepEv code cap icap w (.ntp sk cl req krx nowRx now .never)).2.rxt := by
  have h := (C06_sendRead_own_or_fallback true (w.socks sk) (inv.socks sk)
    (handleRequest cap icap w.store cl req (krx.getD nowRx) now).txt .never).2.2.2 rfl
  simp only [stepEv, code, if_true] at h ⊢
  rw [h]
  constructor <;> first | rfl | trivial

/-- **an exchange whose reply was not sent is dropped** (repaired code, any reachable state): after
    an iteration in which `handleRequest` recorded the exchange and then no datagram was written
    — irreversible SCION path, failed or short write, no cookie — no exchange with that receive
    timestamp is on record for the client: a request quoting it is answered in basic mode
    (`C06_interleaved_iff`), however the client came by the value. -/
theorem C06_tx_unsent_dropped (w : World) (inv : WInv cap icap w) (sk cl : Nat) (req : Req)
    (krx : Option Int) (nowRx now : Int) :
    let r := stepEv code cap icap w (.unsent sk cl req krx nowRx now)
    r.2.sent = false ∧ r.2.reply = none ∧ r.1.socks = w.socks ∧
    ∀ it e, r.1.store.items.find cl = some it → e ∈ it.buf → e.rx ≠ ofTime r.2.rxt := by
  intro r
  refine ⟨rfl, rfl, rfl, ?_⟩
  obtain ⟨hs, hr⟩ := unsent_store_eq cap icap w inv sk cl req krx nowRx now
  intro it e hf he
  simp only [r] at hf ⊢
  rw [hs] at hf
  rw [hr]
  exact C06_tx_undelivered_dropped cap icap hcap hic hic2 w inv sk cl req krx nowRx now .never rfl it e hf he

theorem C06_tx_record_step (w : World) (inv : WInv cap icap w) (pre : List Out) (h : RecInv w pre) (ev : Ev) :
    RecInv (stepEv code cap icap w ev).1 (pre ++ [(stepEv code cap icap w ev).2]) := by
  cases ev with
  | aux sk kb => intro cl it e hf he; exact good_mono_left _ (h cl it e hf he)
  | drop sk => intro cl it e hf he; exact good_mono_left _ (h cl it e hf he)
  | unsent sk cl req krx nowRx now =>
    intro k it e hf he
    apply good_mono_left
    have hdrop := (C06_tx_unsent_dropped cap icap hcap hic hic2 w inv sk cl req krx nowRx now).2.2.2
    have inv1 : Inv0 (fun _ => True) cap icap (handleRequestG true cap icap w.store cl req (krx.getD nowRx) now).st :=
      inv0_handleRequestG true cap icap hcap hic hic2 _ inv.store _ _ _ _ (fun _ _ _ _ _ => trivial)
    have hecho := (C06_rx_echo_unique true cap icap hic2 w.store inv.store cl req (krx.getD nowRx) now).1
    have hk : ¬ (k = cl ∧ e.rx = ofTime (stepEv code cap icap w (.unsent sk cl req krx nowRx now)).2.rxt) := by
      rintro ⟨rfl, hrx⟩; exact hdrop it e hf he hrx
    simp only [stepEv, handleRequest, code, if_true] at hf hk
    rcases utx_frame _ inv1.wf cl _ _ k it e hf he with ⟨it1, hf1, he1⟩ | hx
    · rcases hr_frame true cap icap hcap w.store inv.store.wf cl req (krx.getD nowRx) now k it1 e hf1 he1 with ⟨it0, hf0, he0⟩ | hx
      · exact h k it0 e hf0 he0
      · rw [hecho] at hx; exact absurd hx hk
    · exact absurd hx hk
  | ntp sk cl req krx nowRx now kb =>
    intro k it e hf he
    by_cases hk : k = cl ∧ e.rx = ofTime (stepEv code cap icap w (.ntp sk cl req krx nowRx now kb)).2.rxt
    · obtain ⟨rfl, hrx⟩ := hk
      obtain ⟨t, ht, htx, _⟩ := C06_tx_recorded_or_dropped cap icap hcap hic hic2 w inv sk k req krx nowRx now kb it e hf he hrx
      refine ⟨_, List.mem_append_right _ List.mem_cons_self, ?_, ?_, ?_, hrx, t, ?_, htx⟩
      · simp [stepEv]
      · simp [stepEv]
      · simp [stepEv]
      · simp [stepEv, ht, KB.own]
    · apply good_mono_left
      have inv1 : Inv0 (fun _ => True) cap icap (handleRequestG true cap icap w.store cl req (krx.getD nowRx) now).st :=
        inv0_handleRequestG true cap icap hcap hic hic2 _ inv.store _ _ _ _ (fun _ _ _ _ _ => trivial)
      have hecho := (C06_rx_echo_unique true cap icap hic2 w.store inv.store cl req (krx.getD nowRx) now).1
      simp only [stepEv, handleRequest] at hf hk
      rcases utx_frame _ inv1.wf cl _ _ k it e hf he with ⟨it1, hf1, he1⟩ | hx
      · rcases hr_frame true cap icap hcap w.store inv.store.wf cl req (krx.getD nowRx) now k it1 e hf1 he1 with ⟨it0, hf0, he0⟩ | hx
        · exact h k it0 e hf0 he0
        · rw [hecho] at hx; exact absurd hx hk
      · exact absurd hx hk

/-- **what is on record, all histories**: after every history of NTP requests of any clients,
    SCMP requests, forwarded and dropped datagrams on any listener sockets, with transmit
    timestamps delivered in time, late or never — every exchange on record carries, as its
    transmit time, the kernel transmit timestamp of the datagram of the very reply that carried
    its receive timestamp. Nothing else is ever on record (in particular no exchange whose
    timestamp was late or lost, and no timestamp of another datagram). -/
theorem C06_tx_record_all_histories : ∀ (evs : List Ev) (w : World) (pre : List Out), WInv cap icap w →
    RecInv w pre → RecInv (runEvs code cap icap w evs).1 (pre ++ (runEvs code cap icap w evs).2) := by
  intro evs
  induction evs with
  | nil => intro w pre _ h; simpa [runEvs] using h
  | cons e es ih =>
    intro w pre inv h
    have := ih _ (pre ++ [(stepEv code cap icap w e).2]) (C06_tx_inv_step cap icap hcap hic hic2 w inv e)
      (C06_tx_record_step cap icap hcap hic hic2 w inv pre h e)
    simpa [runEvs, List.append_assoc] using this

/-- **interleaved replies serve kernel timestamps** (the clause of C06, end to end): whatever
    history the listeners have been through, an interleaved reply carries the kernel transmit
    timestamp of the datagram of an earlier reply to the same client — the reply whose receive
    timestamp the request quotes as its origin. -/
theorem C06_tx_interleaved_serves_kernel_stamp (evs : List Ev) (sk cl : Nat) (req : Req)
    (krx : Option Int) (nowRx now : Int) (kb : KB) :
    let h := runEvs code cap icap World.init evs
    let r := stepEv code cap icap h.1 (.ntp sk cl req krx nowRx now kb)
    ∀ rep, r.2.reply = some rep → rep.inter = true →
      ∃ o ∈ h.2, o.cl = cl ∧ o.sent = true ∧ o.reply ≠ none ∧ req.org = ofTime o.rxt ∧
        ∃ t, o.own = some t ∧ rep.tx = ofTime (utxTxt o.rxt t) := by
  intro h r rep hrep hi
  have inv := C06_tx_inv_run cap icap hcap hic hic2 evs World.init (C06_tx_inv_init cap icap)
  have hrec := C06_tx_record_all_histories cap icap hcap hic hic2 evs World.init [] (C06_tx_inv_init cap icap)
    (by intro cl it e hf; simp [World.init, Server.init] at hf)
  simp only [List.nil_append] at hrec
  simp only [r, stepEv, handleRequest, Option.some.injEq] at hrep
  subst hrep
  obtain ⟨_, it, e, hf, he, hrx, htx, _⟩ :=
    C06_interleaved_shape true cap icap h.1.store inv.store cl req (krx.getD nowRx) now hi
  obtain ⟨o, ho, a, a', b, c, t, d, f⟩ := hrec cl it e hf he
  exact ⟨o, ho, a, a', b, by rw [← hrx, c], t, d, by rw [htx, f]⟩

/-- **an unsent exchange is never served** (repaired code): the request that follows a "recorded,
    nothing sent" iteration of the same client and quotes that exchange's receive timestamp as
    its origin — however it came by the value — is answered in basic mode. -/
theorem C06_tx_unsent_not_served (w : World) (inv : WInv cap icap w) (sk sk' cl : Nat) (req req' : Req)
    (krx krx' : Option Int) (nowRx now nowRx' now' : Int) (kb : KB) :
    let r := stepEv code cap icap w (.unsent sk cl req krx nowRx now)
    let r' := stepEv code cap icap r.1 (.ntp sk' cl req' krx' nowRx' now' kb)
    req'.org = ofTime r.2.rxt → ∀ rep, r'.2.reply = some rep → rep.inter = false := by
  intro r r' horg rep hrep
  have inv' := C06_tx_inv_step cap icap hcap hic hic2 w inv (.unsent sk cl req krx nowRx now)
  have hdrop := (C06_tx_unsent_dropped cap icap hcap hic hic2 w inv sk cl req krx nowRx now).2.2.2
  simp only [r', stepEv, handleRequest, Option.some.injEq] at hrep
  subst hrep
  cases hi : (handleRequestG true cap icap r.1.store cl req' (krx'.getD nowRx') now').reply.inter with
  | false => rfl
  | true =>
    exfalso
    obtain ⟨_, it, e, hf, he, hrx, _⟩ :=
      C06_interleaved_shape true cap icap r.1.store inv'.store cl req' (krx'.getD nowRx') now' hi
    exact hdrop it e hf he (by rw [hrx, horg])

omit hcap hic hic2 in
/-- **C03, server side**: when no kernel timestamp is available for a reply, the value handed to
    the store and what `updateTXTimestamp` makes of it is `txt0`, the reading `handleRequest` took
    **before** the datagram was written (not later than the clock reading `now` inside
    `handleRequest`, or 1 ns after the receive time): never a reading taken after the departure.
    The listener's post-send step has no clock input at all. -/
theorem C03_tx_fallback_is_presend_reading (w : World) (inv : WInv cap icap w) (sk cl : Nat) (req : Req)
    (krx : Option Int) (nowRx now : Int) (kb : KB) (hkb : kb.own = none) :
    let o := (stepEv code cap icap w (.ntp sk cl req krx nowRx now kb)).2
    o.txt1 = o.txt0 ∧ o.utx = o.txt0 ∧ o.rxt < o.txt0 ∧ (o.txt0 ≤ now ∨ o.txt0 ≤ o.rxt + 1) := by
  intro o
  have hval := C06_tx_step_value cap icap w inv (.ntp sk cl req krx nowRx now kb)
    (by simp [stepEv])
  have hl := C06_txt_later true cap icap w.store cl req (krx.getD nowRx) now (Or.inl rfl)
  have h1 : o.txt1 = o.txt0 := hval.2 (by simpa [stepEv] using hkb)
  simp only [o, stepEv, handleRequest] at h1 ⊢
  refine ⟨h1, ?_, hl.1, hl.2⟩
  rw [utx_txt, h1]
  unfold utxTxt
  simp [hl.1]

end

/-- `C06_tx_interleaved_serves_kernel_stamp` with the capacities of the code (2^20 clients, 8
    exchanges per client; pinned by `C06_pin_tssCap`, `C06_pin_tssItemCap`) -/
theorem C06_tx_interleaved_serves_kernel_stamp_real (evs : List Ev) (sk cl : Nat) (req : Req)
    (krx : Option Int) (nowRx now : Int) (kb : KB) :
    let h := runEvs code tssCap tssItemCap World.init evs
    let r := stepEv code tssCap tssItemCap h.1 (.ntp sk cl req krx nowRx now kb)
    ∀ rep, r.2.reply = some rep → rep.inter = true →
      ∃ o ∈ h.2, o.cl = cl ∧ o.sent = true ∧ o.reply ≠ none ∧ req.org = ofTime o.rxt ∧
        ∃ t, o.own = some t ∧ rep.tx = ofTime (utxTxt o.rxt t) :=
  C06_tx_interleaved_serves_kernel_stamp tssCap tssItemCap (by decide) (by decide) (by decide) evs sk cl req krx nowRx now kb

/-- receive-timestamp fallback: without a kernel receive timestamp the receive time of the
    exchange is the clock reading taken after the datagram was read (`timebase.Now()`), with a
    kernel timestamp it is that timestamp; the reply's receive timestamp encodes it (possibly
    moved later to keep the client's receive timestamps distinct). -/
theorem C06_rx_fallback (cap icap : Nat) (w : World) (sk cl : Nat) (req : Req) (krx : Option Int) (nowRx now : Int) (kb : KB) :
    let o := (stepEv code cap icap w (.ntp sk cl req krx nowRx now kb)).2
    krx.getD nowRx ≤ o.rxt ∧ (∀ r, o.reply = some r → r.rx = ofTime o.rxt) ∧
    (krx = none → nowRx ≤ o.rxt) ∧ (∀ t, krx = some t → t ≤ o.rxt) := by
  intro o
  have ho := hr_outputs true cap icap w.store cl req (krx.getD nowRx) now
  have hle : krx.getD nowRx ≤ (handleRequestG true cap icap w.store cl req (krx.getD nowRx) now).rxt ∧
      (handleRequestG true cap icap w.store cl req (krx.getD nowRx) now).reply.rx =
        ofTime (handleRequestG true cap icap w.store cl req (krx.getD nowRx) now).rxt := by
    cases hf : Map.find w.store.items cl with
    | none =>
      obtain ⟨h1, _, h3⟩ := ho.2 hf
      rw [h1, h3, mkReply_rx]; exact ⟨Int.le_refl _, rfl⟩
    | some it =>
      obtain ⟨h1, _, h3⟩ := ho.1 it hf
      rw [h1, h3, mkReply_rx]; exact ⟨(uniq_mono it.buf _ _ _).1, rfl⟩
  simp only [o, stepEv, handleRequest]
  refine ⟨hle.1, ?_, ?_, ?_⟩
  · intro r hr; simp only [Option.some.injEq] at hr; rw [← hr]; exact hle.2
  · intro h; subst h; exact hle.1
  · intro t h; subst h; exact hle.1

/-! ### finding F20: the listeners before the repair

  One transmit timestamp that arrives after the 1 ms poll has given up (`late 0`): the exchange
  itself is dropped (correct), but `txid` is not advanced, so at the next reply the late
  timestamp is at the head of the error queue, carries the expected id and is recorded as that
  reply's transmit time — and so on for every later reply on the socket. -/

def f20req (j : Nat) (org : T64) : Req := ⟨org, ⟨2000 + j, 2⟩, ⟨1000 + j, 1⟩⟩
def f20T : Int := 1700000000000000000

/-- exchanges A (timestamp late), B (quotes A), C (quotes B) of one client on one socket;
    every transmit timestamp is taken 5 µs after the receive time -/
def f20run (cfg : Cfg) : List Out :=
  let w0 := World.init
  let a := stepEv cfg tssCap tssItemCap w0 (.ntp 0 1 (f20req 0 ⟨0, 0⟩) (some f20T) f20T (f20T + 1000) (.late 0 (f20T + 5000)))
  let rxA := (a.2.reply.map (·.rx)).getD ⟨0, 0⟩
  let b := stepEv cfg tssCap tssItemCap a.1 (.ntp 0 1 (f20req 1 rxA) (some (f20T + 1000000)) 0 (f20T + 1001000) (.intime (f20T + 1005000)))
  let rxB := (b.2.reply.map (·.rx)).getD ⟨0, 0⟩
  let c := stepEv cfg tssCap tssItemCap b.1 (.ntp 0 1 (f20req 2 rxB) (some (f20T + 2000000)) 0 (f20T + 2001000) (.intime (f20T + 2005000)))
  [a.2, b.2, c.2]

/-- Original code: B is (correctly) answered in basic mode, but recorded with A's timestamp —
    earlier than B's receive time, hence clamped to rx + 1 ns — and C is served that value in
    interleaved mode instead of B's kernel transmit timestamp (rx + 5 µs). -/
theorem C06_old_code_late_timestamp_counterexample :
    (f20run codeOld).map (fun o => (o.reply.map (·.inter), o.txt1 - o.rxt)) =
      [(some false, 1000), (some false, -995000), (some true, -995000)] ∧
    ((f20run codeOld)[2]?.bind (·.reply)).map (·.tx) = some (ofTime (f20T + 1000000 + 1)) := by
  decide

/-- The repaired code on the same history: A dropped, B recorded with its own timestamp, C served
    exactly that. -/
theorem C06_f20_repaired :
    (f20run code).map (fun o => (o.reply.map (·.inter), o.txt1 - o.rxt)) =
      [(some false, 1000), (some false, 5000), (some true, 5000)] ∧
    ((f20run code)[2]?.bind (·.reply)).map (·.tx) = some (ofTime (f20T + 1005000)) := by
  decide

/-- What holds of the original code (`…_partial`: the gap is exactly the late timestamps): on a
    socket whose queue is empty and with `txid` not ahead of the kernel's counter, a timestamp
    delivered in time or never is handled soundly — the value handed on is the datagram's own
    timestamp or `txt0` — and the queue is empty again. A lost timestamp leaves `txid` behind,
    which costs the next exchange (its own timestamp is refused, `txid` resynchronised). -/
theorem C06_old_code_partial (s : LSock) (hq : s.queue = []) (hp : s.pending = []) (hle : s.txid ≤ s.sent)
    (txt0 : Int) (kb : KB) (hkb : ∀ d t, kb ≠ .late d t) :
    let p := sendRead codeOld s txt0 kb
    p.sock.queue = [] ∧ p.sock.pending = [] ∧ p.sock.txid ≤ p.sock.sent ∧ p.nreads = 1 ∧
    (p.txt1 = txt0 ∨ kb = .intime p.txt1) := by
  cases kb with
  | late d t => exact absurd rfl (hkb d t)
  | never =>
    simp [sendRead, LSock.send, hq, hp, arrive, reads, decide3, codeOld]
    omega
  | intime t =>
    by_cases h : s.sent = s.txid
    · simp [sendRead, LSock.send, hq, hp, arrive, reads, decide3, codeOld, h]
    · simp [sendRead, LSock.send, hq, hp, arrive, reads, decide3, codeOld, h]

/-- Why the SCMP and forwarding branches must read their transmit timestamp too (the value is
    discarded there): a listener whose SCMP branch writes without reading records, after one
    echo reply, every NTP reply with the timestamp of the datagram written before it. -/
theorem C06_aux_branches_must_read_counterexample :
    let cfg : Cfg := ⟨true, false, true⟩
    let e := stepEv cfg tssCap tssItemCap World.init (.aux 0 (.intime (f20T - 1000000)))
    let a := stepEv cfg tssCap tssItemCap e.1 (.ntp 0 1 (f20req 0 ⟨0, 0⟩) (some f20T) 0 (f20T + 1000) (.intime (f20T + 5000)))
    let a' := stepEv code tssCap tssItemCap (stepEv code tssCap tssItemCap World.init (.aux 0 (.intime (f20T - 1000000)))).1
      (.ntp 0 1 (f20req 0 ⟨0, 0⟩) (some f20T) 0 (f20T + 1000) (.intime (f20T + 5000)))
    a.2.txt1 = f20T - 1000000 ∧ a.2.utx = f20T + 1 ∧ a'.2.txt1 = f20T + 5000 ∧ a'.2.utx = f20T + 5000 := by
  decide

/-! ### finding F21: an exchange recorded by `handleRequest` whose reply is then not sent

  After `handleRequest` the listeners could end the iteration without a datagram and without
  `updateTXTimestamp` (`scionLayer.Path.Reverse()` fails — runSCIONServer only, reachable with one
  datagram from the network —, the write fails or is short, no cookie could be encrypted). The
  exchange stayed on record as (rx, software `txt0`); a later request of the same client whose
  origin equals that rx was served in interleaved mode with `txt0` as "the transmit time recorded
  for the earlier reply" — of a reply that never existed. -/

/-- exchange A of client 1 (recorded, nothing sent), then B quoting A's receive timestamp -/
def f21run (cfg : Cfg) : List Out :=
  let a := stepEv cfg tssCap tssItemCap World.init (.unsent 0 1 (f20req 0 ⟨0, 0⟩) (some f20T) f20T (f20T + 1000))
  let b := stepEv cfg tssCap tssItemCap a.1
    (.ntp 0 1 (f20req 1 (ofTime a.2.rxt)) (some (f20T + 1000000)) 0 (f20T + 1001000) (.intime (f20T + 1005000)))
  [a.2, b.2]

/-- Code before the repair: nothing was sent for A (no datagram, no reply), yet B is answered in
    interleaved mode, with A's software reading `txt0` (rx + 1 µs here) as transmit timestamp. -/
theorem C06_old_code_unsent_exchange_served_counterexample :
    (f21run codeUnsentOld).map (fun o => (o.sent, o.reply.map (·.inter))) = [(false, none), (true, some true)] ∧
    ((f21run codeUnsentOld)[1]?.bind (·.reply)).map (·.tx) = some (ofTime (f20T + 1000)) := by
  decide

/-- The repaired code on the same history: A is taken off the record, B is answered in basic mode. -/
theorem C06_f21_repaired :
    (f21run code).map (fun o => (o.sent, o.reply.map (·.inter))) = [(false, none), (true, some false)] := by
  decide

/-! Non-vacuity: reachable worlds satisfy `WInv`; the histories above exercise every `KB`. -/
example : WInv tssCap tssItemCap World.init := C06_tx_inv_init _ _
example : (f20run code).length = 3 := by decide
/-- the "recorded, nothing sent" event does occur in a history and did record the exchange
    (hypotheses of `C06_tx_unsent_dropped` / `C06_tx_unsent_not_served`; the all-histories theorems
    quantify over event lists that may contain it) -/
example : ((f21run code)[0]?.map (fun o => (o.unsent, o.rxt, o.txt0))) = some (true, f20T, f20T + 1000) := by decide
/-- an interleaved reply does occur after a history (hypothesis of `C06_tx_interleaved_serves_kernel_stamp`) -/
example : ((f20run code)[2]?.bind (·.reply)).map (·.inter) = some true := by decide

end ScionTime.Props.C06Tx
