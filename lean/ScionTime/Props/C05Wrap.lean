/-
  C05 — "never an offset" at the level of the attempt wrappers and of the retry budget.

  * The attempt loop of `MeasureClockOffsetIP` / of the per-path goroutine of
    `MeasureClockOffsetSCION` (Model/ClientFlow.lean `wrapLoopCtx`), for EVERY sequence of context
    states (live / cancelled / deadline passed, changing between attempts in any way) and every
    sequence of per-attempt outcomes: a nil error means that at least one exchange ran, that one of
    those that ran succeeded, and that the timestamp and offset returned are those of the LAST
    successful attempt — never the zero values of the named results. An attempt entered with the
    deadline passed is an error. The variant that leaves the loop when the context is done is
    refuted (success, zero values, no exchange) and shown equal to the code when the context is
    live throughout (why it looks harmless).
  * The receive loop with its explicit retry counter over clock readings (`xLoop`): for every
    position of the counter, with and without a deadline, whatever the readings: an accepted
    response is a datagram of the delivered sequence that the loop body accepts — so with NTS
    enabled it passed `nts.DecodePacket` and `nts.ProcessResponse`. The variant in which the
    `ProcessResponse` site falls through when no retry is left is refuted for counter = 1 and for
    "no deadline".
  * Refusal sites: `siteIP` / `siteSCION` name the site at which a datagram is refused; they agree
    with the loop body (`classifyIP` / `classifySCION`).
-/
import ScionTime.Model.ClientFlow
import ScionTime.Gen.Client
import ScionTime.Proofs.ClientNtp
namespace ScionTime.Props.C05Wrap
open ScionTime.Time64 ScionTime.NtpMath ScionTime.ClientNtp ScionTime.ClientFlow

/-! ### the attempt loop -/

/-- without the break the loop is `ClientNtp.wrapLoop` over the attempts' results -/
theorem wrapLoopCtx_eq (l : List AttemptIn) :
    ∀ (i : Nat) (s : WrapState), (wrapLoopCtx false i s l).1 = wrapLoop i s (l.map attemptResult) := by
  induction l with
  | nil => intro i s; rfl
  | cons a rest ih =>
    intro i s
    simp only [wrapLoopCtx, Bool.false_and, Bool.false_eq_true, if_false, List.map_cons]
    cases h : attemptResult a with
    | ok t o inIL =>
      simp only [wrapLoop]
      cases inIL <;> simp [ih]
    | err e => simp only [wrapLoop, ih]

theorem lastOkGo_some (l : List Attempt) : ∀ x : Int × Int64, ∃ y, lastOkGo (some x) l = some y := by
  induction l with
  | nil => intro x; exact ⟨x, rfl⟩
  | cons a rest ih =>
    intro x
    cases a with
    | ok t o b => cases b <;> simp [lastOkGo, ih]
    | err e => simpa [lastOkGo] using ih x

/-- a last successful attempt is an attempt of the list -/
theorem lastOkGo_mem (l : List Attempt) : ∀ (acc : Option (Int × Int64)) (t : Int) (o : Int64),
    lastOkGo acc l = some (t, o) → acc = some (t, o) ∨ ∃ b, Attempt.ok t o b ∈ l := by
  induction l with
  | nil => intro acc t o h; left; simpa [lastOkGo] using h
  | cons a rest ih =>
    intro acc t o h
    cases a with
    | ok t' o' b =>
      cases b with
      | true =>
        simp only [lastOkGo, Option.some.injEq, Prod.mk.injEq] at h
        right; exact ⟨true, by simp [h.1, h.2]⟩
      | false =>
        simp only [lastOkGo] at h
        rcases ih _ _ _ h with h1 | ⟨b, hb⟩
        · simp only [Option.some.injEq, Prod.mk.injEq] at h1
          right; exact ⟨false, by simp [h1.1, h1.2]⟩
        · right; exact ⟨b, List.mem_cons_of_mem _ hb⟩
    | err e =>
      simp only [lastOkGo] at h
      rcases ih _ _ _ h with h1 | ⟨b, hb⟩
      · left; exact h1
      · right; exact ⟨b, List.mem_cons_of_mem _ hb⟩

/-- loop invariant: either nothing has succeeded yet (`nerr = i`: every iteration so far counted
    an error) or the named results hold the last success and `err` is nil for good -/
def Inv (acc : Option (Int × Int64)) (i : Nat) (s : WrapState) : Prop :=
  (acc = none ∧ s.nerr = i) ∨ (acc = some (s.ts, s.off) ∧ s.err = none ∧ s.nerr < i)

theorem wrapLoop_spec (l : List Attempt) : ∀ (i : Nat) (s : WrapState) (acc : Option (Int × Int64)),
    Inv acc i s →
    (∀ t o, lastOkGo acc l = some (t, o) →
      (wrapLoop i s l).ts = t ∧ (wrapLoop i s l).off = o ∧ (wrapLoop i s l).err = none) ∧
    (lastOkGo acc l = none →
      (wrapLoop i s l).ts = s.ts ∧ (wrapLoop i s l).off = s.off ∧ (l ≠ [] → (wrapLoop i s l).err ≠ none)) := by
  induction l with
  | nil =>
    intro i s acc hinv
    simp only [lastOkGo, wrapLoop]
    constructor
    · intro t o h
      rcases hinv with ⟨h1, _⟩ | ⟨h1, h2, _⟩
      · rw [h1] at h; cases h
      · rw [h1] at h
        simp only [Option.some.injEq, Prod.mk.injEq] at h
        exact ⟨h.1, h.2, h2⟩
    · intro _; simp
  | cons a rest ih =>
    intro i s acc hinv
    cases a with
    | ok t' o' b =>
      cases b with
      | true =>
        simp only [lastOkGo, wrapLoop, if_true]
        constructor
        · intro t o h
          simp only [Option.some.injEq, Prod.mk.injEq] at h
          simp [h.1, h.2]
        · intro h; cases h
      | false =>
        simp only [lastOkGo, wrapLoop, Bool.false_eq_true, if_false]
        have hinv' : Inv (some (t', o')) (i + 1) { s with ts := t', off := o', err := none } := by
          right
          refine ⟨rfl, rfl, ?_⟩
          rcases hinv with ⟨_, h⟩ | ⟨_, _, h⟩ <;> simp only <;> omega
        have := ih (i + 1) { s with ts := t', off := o', err := none } (some (t', o')) hinv'
        constructor
        · exact this.1
        · intro h
          obtain ⟨y, hy⟩ := lastOkGo_some rest (t', o')
          rw [hy] at h; cases h
    | err e =>
      simp only [lastOkGo, wrapLoop]
      rcases hinv with ⟨h1, h2⟩ | ⟨h1, h2, h3⟩
      · have hinv' : Inv acc (i + 1) { s with err := if s.nerr = i then some e else s.err, nerr := s.nerr + 1 } := by
          left; exact ⟨h1, by simp [h2]⟩
        have := ih (i + 1) _ acc hinv'
        constructor
        · exact this.1
        · intro h
          obtain ⟨a1, a2, a3⟩ := this.2 h
          refine ⟨a1, a2, fun _ => ?_⟩
          cases rest with
          | nil => simp [wrapLoop, h2]
          | cons y ys => exact a3 (by simp)
      · have hne : s.nerr ≠ i := by omega
        have hinv' : Inv acc (i + 1) { s with err := if s.nerr = i then some e else s.err, nerr := s.nerr + 1 } := by
          right
          refine ⟨h1, by simp [hne, h2], by simp only; omega⟩
        have := ih (i + 1) _ acc hinv'
        constructor
        · exact this.1
        · intro h
          obtain ⟨y, hy⟩ := lastOkGo_some rest (s.ts, s.off)
          rw [h1, hy] at h; cases h

/-- the attempts the loop is given: at least one -/
theorem attempts_pos (il : Bool) : 1 ≤ attempts il := by cases il <;> decide

/-- **The wrappers' result, whatever the context does.** For every sequence of context states and
    per-attempt outcomes (at least as many as the loop may start):
    * if one of the executed attempts succeeds, the result is (timestamp, offset, nil) of the LAST
      successful one;
    * otherwise the result is an error with zero timestamp and offset. -/
theorem C05W_result (il : Bool) (ins : List AttemptIn) (hlen : attempts il ≤ ins.length) :
    let r := (wrapCtx false il ins).1
    let res := (ins.take (attempts il)).map attemptResult
    (∀ t o, lastOk res = some (t, o) → r.ts = t ∧ r.off = o ∧ r.err = none) ∧
    (lastOk res = none → r.err ≠ none ∧ r.ts = 0 ∧ r.off = 0) := by
  intro r res
  have hr : r = wrapLoop 0 ⟨0, 0, none, 0⟩ res := wrapLoopCtx_eq _ 0 _
  have hne : res ≠ [] := by
    have h1 := attempts_pos il
    intro h
    have : res.length = 0 := by rw [h]; rfl
    simp only [res, List.length_map, List.length_take] at this
    omega
  have spec := wrapLoop_spec res 0 ⟨0, 0, none, 0⟩ none (Or.inl ⟨rfl, rfl⟩)
  rw [hr]
  constructor
  · exact spec.1
  · intro h
    obtain ⟨a1, a2, a3⟩ := spec.2 h
    exact ⟨a3 hne, a1, a2⟩

/-- **A nil error stems from a successful attempt that ran**: the returned values are those of
    an attempt of this call that ended with `(t, o, nil)` — in particular never the zero values
    of the named results unless an exchange really produced them. -/
theorem C05W_nil_error_from_success (il : Bool) (ins : List AttemptIn) (hlen : attempts il ≤ ins.length)
    (h : (wrapCtx false il ins).1.err = none) :
    ∃ b, Attempt.ok (wrapCtx false il ins).1.ts (wrapCtx false il ins).1.off b ∈
        (ins.take (attempts il)).map attemptResult ∧
      lastOk ((ins.take (attempts il)).map attemptResult) =
        some ((wrapCtx false il ins).1.ts, (wrapCtx false il ins).1.off) := by
  have hres := C05W_result il ins hlen
  simp only at hres
  cases hl : lastOk ((ins.take (attempts il)).map attemptResult) with
  | none => exact absurd h (hres.2 hl).1
  | some x =>
    obtain ⟨t, o⟩ := x
    obtain ⟨h1, h2, _⟩ := hres.1 t o hl
    rcases lastOkGo_mem _ none t o hl with h0 | ⟨b, hb⟩
    · cases h0
    · exact ⟨b, by rw [h1, h2]; exact hb, by rw [h1, h2]⟩

/-- an attempt entered after the deadline is an error (nothing is sent) -/
theorem C05W_expired_attempt_is_error (a : AttemptIn) (h : a.ctx = .expired) :
    attemptResult a = .err .other := by
  simp [attemptResult, h]

theorem lastOkGo_all_err (l : List Attempt) (h : ∀ x ∈ l, ∃ e, x = .err e) : lastOkGo none l = none := by
  induction l with
  | nil => rfl
  | cons a rest ih =>
    obtain ⟨e, he⟩ := h a List.mem_cons_self
    subst he
    simpa [lastOkGo] using ih (fun x hx => h x (List.mem_cons_of_mem _ hx))

/-- **Context expired on entry ⇒ error.** When every attempt of the call is entered with the
    deadline passed, the wrapper returns an error and zero values — never `(zero, 0, nil)`. -/
theorem C05W_expired_on_entry_is_error (il : Bool) (ins : List AttemptIn) (hlen : attempts il ≤ ins.length)
    (hx : ∀ a ∈ ins.take (attempts il), a.ctx = .expired) :
    (wrapCtx false il ins).1.err ≠ none ∧ (wrapCtx false il ins).1.ts = 0 ∧ (wrapCtx false il ins).1.off = 0 := by
  apply (C05W_result il ins hlen).2
  apply lastOkGo_all_err
  intro x hxm
  obtain ⟨a, ha, rfl⟩ := List.mem_map.mp hxm
  exact ⟨.other, C05W_expired_attempt_is_error a (hx a ha)⟩

/-- at least one exchange is started, whatever the context -/
theorem C05W_runs_at_least_once (il : Bool) (ins : List AttemptIn) (hlen : attempts il ≤ ins.length) :
    1 ≤ (wrapCtx false il ins).2 := by
  unfold wrapCtx
  have h1 := attempts_pos il
  cases hl : ins.take (attempts il) with
  | nil =>
    have : (ins.take (attempts il)).length = 0 := by rw [hl]; rfl
    simp only [List.length_take] at this
    omega
  | cons a rest =>
    simp only [wrapLoopCtx, Bool.false_and, Bool.false_eq_true, if_false]
    cases attemptResult a with
    | ok t o b => cases b <;> simp
    | err e => simp

/-- non-vacuity: context live for the first attempt (answered), deadline passes in the second
    (read error), third entered after the deadline — the first attempt's values are returned. -/
example : wrapCtx false true [⟨.live, .ok 17 4 false⟩, ⟨.live, .err .read⟩, ⟨.expired, .ok 99 9 true⟩] =
    (⟨17, 4, none, 2⟩, 3) := by decide

/-- The variant `if ctx.Err() != nil { break }` at the head of the loop body: with a context that is
    done on entry (deadline passed, or cancelled) it returns the zero values of the named results
    with a nil error, without having started a single exchange — a successful measurement based
    on no datagram. The code (no break) returns an error for the expired context and runs the
    exchanges for the cancelled one. -/
theorem C05W_break_on_done_refuted :
    wrapCtx true true [⟨.expired, .ok 5 5 true⟩, ⟨.expired, .ok 5 5 true⟩, ⟨.expired, .ok 5 5 true⟩] = (⟨0, 0, none, 0⟩, 0) ∧
    wrapCtx true false [⟨.cancelled, .ok 5 5 false⟩] = (⟨0, 0, none, 0⟩, 0) ∧
    (wrapCtx false true [⟨.expired, .ok 5 5 true⟩, ⟨.expired, .ok 5 5 true⟩, ⟨.expired, .ok 5 5 true⟩]).1.err = some .other ∧
    wrapCtx false false [⟨.cancelled, .ok 5 5 false⟩] = (⟨5, 5, none, 0⟩, 1) := by decide

/-- why the variant looks harmless: with a context that is live at every attempt it is the code -/
theorem C05W_break_on_done_same_when_live (l : List AttemptIn) (hl : ∀ a ∈ l, a.ctx = .live) :
    ∀ (i : Nat) (s : WrapState), wrapLoopCtx true i s l = wrapLoopCtx false i s l := by
  induction l with
  | nil => intro i s; rfl
  | cons a rest ih =>
    intro i s
    have ha : a.ctx.done = false := by rw [hl a List.mem_cons_self]; rfl
    have ih' := ih (fun x hx => hl x (List.mem_cons_of_mem _ hx))
    simp only [wrapLoopCtx, ha, Bool.and_false, Bool.false_eq_true, if_false, Bool.false_and]
    cases attemptResult a with
    | ok t o b => cases b <;> simp [ih']
    | err e => simp [ih']

/-- `MeasureClockOffsetSCION` with one participating client: success only with the goroutine's
    nil-error result, whose values it returns — whatever the `select` of the collection step does. -/
theorem C05W_scion_one_participant (collected : Bool) (g : WrapState)
    (h : (scionWrap1 collected g).err = none) :
    g.err = none ∧ (scionWrap1 collected g).ts = g.ts ∧ (scionWrap1 collected g).off = g.off := by
  unfold scionWrap1 at *
  cases collected <;> cases hg : g.err <;> simp_all

example : (scionWrap1 true (wrapCtx false false [⟨.live, .ok 17 4 false⟩]).1).ts = 17 := by decide
example : (scionWrap1 false (wrapCtx false false [⟨.live, .ok 17 4 false⟩]).1).err = some .other := by decide

/-! ### the receive loop with its retry counter -/

/-- the loop accepts only what its body accepts, from a datagram of the delivered sequence — for
    every value of the retry counter, every deadline (or none) and every sequence of clock
    readings. The receive time handed to the body is the kernel's or a clock reading. -/
theorem xLoop_accepted {D : Type} (classify : Int → D → Step) (deadline : Option Int)
    (evs : List (XEvent D)) :
    ∀ (r n : Nat) (rd rd' : List Int) (a : Accepted) (m : Nat),
      xLoop (fun _ => classify) deadline r n rd evs = some (.accepted a m, rd') →
      ∃ d krx cRx, XEvent.dgram d krx ∈ evs ∧ classify cRx d = .accept a ∧ (krx = some cRx ∨ (krx = none ∧ cRx ∈ rd)) := by
  induction evs with
  | nil => intro r n rd rd' a m h; simp [xLoop] at h
  | cons e rest ih =>
    intro r n rd rd' a m h
    -- readings handed down to the rest of the loop are readings of `rd`
    have sub : ∀ (r : Nat) (rd1 : List Int) (b : Bool) (rd2 : List Int),
        retryTest r deadline rd1 = some (b, rd2) → ∀ x ∈ rd2, x ∈ rd1 := by
      intro r rd1 b rd2 hrt x hx
      unfold retryTest at hrt
      split at hrt
      · cases deadline with
        | none => simp only [Option.some.injEq, Prod.mk.injEq] at hrt; rw [← hrt.2] at hx; exact hx
        | some dl =>
          cases rd1 with
          | nil => cases hrt
          | cons t tl =>
            simp only [Option.some.injEq, Prod.mk.injEq] at hrt
            rw [← hrt.2] at hx; exact List.mem_cons_of_mem _ hx
      · simp only [Option.some.injEq, Prod.mk.injEq] at hrt; rw [← hrt.2] at hx; exact hx
    cases e with
    | readErr =>
      simp only [xLoop] at h
      split at h
      · cases h
      · rename_i rd2 hrt
        obtain ⟨d, krx, cRx, hm, hc, hk⟩ := ih _ _ _ _ _ _ h
        refine ⟨d, krx, cRx, List.mem_cons_of_mem _ hm, hc, ?_⟩
        rcases hk with hk | ⟨hk1, hk2⟩
        · left; exact hk
        · right; exact ⟨hk1, sub _ _ _ _ hrt _ hk2⟩
      · cases h
    | badFlags =>
      simp only [xLoop] at h
      split at h
      · cases h
      · rename_i rd2 hrt
        obtain ⟨d, krx, cRx, hm, hc, hk⟩ := ih _ _ _ _ _ _ h
        refine ⟨d, krx, cRx, List.mem_cons_of_mem _ hm, hc, ?_⟩
        rcases hk with hk | ⟨hk1, hk2⟩
        · left; exact hk
        · right; exact ⟨hk1, sub _ _ _ _ hrt _ hk2⟩
      · cases h
    | dgram d krx =>
      simp only [xLoop] at h
      split at h
      · cases h
      · rename_i cRx rd1 hrx
        have hcRx : (krx = some cRx ∧ rd1 = rd) ∨ (krx = none ∧ cRx ∈ rd ∧ ∀ x ∈ rd1, x ∈ rd) := by
          cases krx with
          | some t => simp only [Option.some.injEq, Prod.mk.injEq] at hrx; left; exact ⟨by rw [hrx.1], hrx.2.symm⟩
          | none =>
            cases rd with
            | nil => cases hrx
            | cons t tl =>
              simp only [Option.some.injEq, Prod.mk.injEq] at hrx
              right; exact ⟨rfl, by rw [← hrx.1]; exact List.mem_cons_self, fun x hx => by rw [← hrx.2] at hx; exact List.mem_cons_of_mem _ hx⟩
        have here : ∀ a', classify cRx d = .accept a' → a' = a →
            ∃ d' krx' cRx', XEvent.dgram d' krx' ∈ XEvent.dgram d krx :: rest ∧ classify cRx' d' = .accept a ∧
              (krx' = some cRx' ∨ (krx' = none ∧ cRx' ∈ rd)) := by
          intro a' hc ha
          subst ha
          refine ⟨d, krx, cRx, List.mem_cons_self, hc, ?_⟩
          rcases hcRx with ⟨h1, _⟩ | ⟨h1, h2, _⟩
          · left; exact h1
          · right; exact ⟨h1, h2⟩
        split at h
        · rename_i a' hc
          simp only [Option.some.injEq, Prod.mk.injEq, Outcome.accepted.injEq] at h
          exact here a' hc h.1.1
        · cases h
        · cases h
        · rename_i e' hc
          split at h
          · cases h
          · rename_i rd2 hrt
            obtain ⟨d', krx', cRx', hm, hc', hk⟩ := ih _ _ _ _ _ _ h
            refine ⟨d', krx', cRx', List.mem_cons_of_mem _ hm, hc', ?_⟩
            rcases hk with hk | ⟨hk1, hk2⟩
            · left; exact hk
            · right
              refine ⟨hk1, ?_⟩
              have h2 := sub _ _ _ _ hrt _ hk2
              rcases hcRx with ⟨_, h3⟩ | ⟨_, _, h3⟩
              · rw [← h3]; exact h2
              · exact h3 _ h2
          · -- no retry left: the body's verdict is asked again (it is the same: `.skip`)
            rw [hc] at h
            cases h

/-- **NTS: every accepted datagram passed `DecodePacket` and `ProcessResponse`** — IP client, for
    every position `r` of the retry counter, with a deadline or without, for every sequence of
    clock readings and events. -/
theorem C05W_nts_accepted_is_authenticated_ip (cfg : Cfg) (server : Nat) (prev : Prev) (req : Req) (cTx1 : Int)
    (deadline : Option Int) (r n : Nat) (rd rd' : List Int) (evs : List (XEvent IpDgram)) (a : Accepted) (m : Nat)
    (hnts : cfg.nts = true)
    (h : xLoop (fun _ cRx d => classifyIP cfg server prev req cTx1 cRx d) deadline r n rd evs = some (.accepted a m, rd')) :
    ∃ d krx, XEvent.dgram d krx ∈ evs ∧ d.src = server ∧
      d.payload.ntsDecodeOk = true ∧ d.payload.ntsUidEq = true ∧ d.payload.ntsOpenOk = true := by
  obtain ⟨d, krx, cRx, hm, hc, _⟩ := xLoop_accepted (fun cRx d => classifyIP cfg server prev req cTx1 cRx d) deadline evs r n rd rd' a m h
  obtain ⟨hsrc, hst⟩ := classifyIP_accept cfg server prev req cTx1 cRx d a hc
  obtain ⟨_, hn, _⟩ := ntpStage_accept cfg prev req cTx1 cRx d.payload a hst
  obtain ⟨h1, h2, h3⟩ := hn hnts
  exact ⟨d, krx, hm, hsrc, h1, h2, h3⟩

/-- the same for the SCION client (13 refusal sites in front of the acceptance) -/
theorem C05W_nts_accepted_is_authenticated_scion (cfg : Cfg) (sc : ScionCtx) (prev : Prev) (req : Req) (cTx1 : Int)
    (deadline : Option Int) (r n : Nat) (rd rd' : List Int) (evs : List (XEvent ScionDgram)) (a : Accepted) (m : Nat)
    (hnts : cfg.nts = true)
    (h : xLoop (fun _ cRx d => classifySCION cfg sc prev req cTx1 cRx d) deadline r n rd evs = some (.accepted a m, rd')) :
    ∃ d krx, XEvent.dgram d krx ∈ evs ∧
      d.payload.ntsDecodeOk = true ∧ d.payload.ntsUidEq = true ∧ d.payload.ntsOpenOk = true := by
  obtain ⟨d, krx, cRx, hm, hc, _⟩ := xLoop_accepted (fun cRx d => classifySCION cfg sc prev req cTx1 cRx d) deadline evs r n rd rd' a m h
  have hst := (classifySCION_accept cfg sc prev req cTx1 cRx d a hc).2.2.2.2.2.2.2.2.2
  obtain ⟨_, hn, _⟩ := ntpStage_accept cfg prev req cTx1 _ d.payload a hst
  obtain ⟨h1, h2, h3⟩ := hn hnts
  exact ⟨d, krx, hm, h1, h2, h3⟩

/-- **A refusal without a retry left ends the exchange with that site's error** — every refusal
    site, every position of the counter: when the body refuses the datagram (`.skip e`) and the retry
    test is negative (counter at `maxNumRetries`, or no deadline, or the reading not before the
    deadline), the loop returns `e`; nothing behind that datagram is looked at. -/
theorem C05W_refusal_without_retry_is_error {D : Type} (classify : Int → D → Step) (deadline : Option Int)
    (r n : Nat) (rd rd2 : List Int) (d : D) (cRx : Int) (e : ErrKind) (rest : List (XEvent D))
    (hc : classify cRx d = .skip e) (hr : retryTest r deadline rd = some (false, rd2)) :
    xLoop (fun _ => classify) deadline r n rd (.dgram d (some cRx) :: rest) = some (.error e (n + 1), rd2) := by
  simp [xLoop, hc, hr]

/-- the retry test is negative, without reading the clock, once the one retry is used up, and
    whenever the context carries no deadline -/
theorem C05W_no_retry_when_used_up_or_no_deadline (r : Nat) (deadline : Option Int) (rd : List Int)
    (h : r = maxNumRetries ∨ deadline = none) : retryTest r deadline rd = some (false, rd) := by
  unfold retryTest
  rcases h with h | h
  · simp [h]
  · subst h; split <;> rfl

/-! ### the variant: the `ProcessResponse` site falls through when no retry is left -/

/-- loop body of the IP client in the variant -/
def classifyIPFallThrough (cfg : Cfg) (server : Nat) (prev : Prev) (req : Req) (cTx1 : Int)
    (noRetryLeft : Bool) (cRx : Int) (d : IpDgram) : Step :=
  if d.src ≠ server then .skip .source else ntpStageNtsFallThrough cfg prev req cTx1 noRetryLeft cRx d.payload

def exNow : Int := 1700000000000000000
def exCfg : Cfg := ⟨.ip, false, true, true⟩
def exReq : Req := mkRequest exCfg Prev.init "S" exNow
/-- a well-formed server reply to `exReq` whose authenticator does not verify (`ntsOpenOk = false`) -/
def exForged : IpDgram :=
  ⟨7, ⟨228, ⟨36, 1, exReq.tx, ofTime (exNow + 100000), ofTime (exNow + 200000)⟩, true, true, false⟩⟩
def exRunt : IpDgram := ⟨7, ⟨10, ⟨0, 0, zero64, zero64, zero64⟩, false, false, false⟩⟩

/-- **Refuted**: as SECOND refused datagram of an exchange (retry used up) and as FIRST datagram of
    an exchange without deadline, a reply that fails `ProcessResponse` is accepted by the variant;
    the code returns the `ProcessResponse` error in both cases, and both skip it when a retry is left. -/
theorem C05W_nts_fall_through_refuted :
    -- second refusal, with a deadline
    (xLoop (classifyIPFallThrough exCfg 7 Prev.init exReq (exNow + 10)) (some (exNow + 1000000000)) 0 0
        [exNow + 300000] [.dgram exRunt (some (exNow + 250000)), .dgram exForged (some (exNow + 400000))]).map (·.1.hasOffset) = some true ∧
    (xLoop (fun _ => classifyIP exCfg 7 Prev.init exReq (exNow + 10)) (some (exNow + 1000000000)) 0 0
        [exNow + 300000] [.dgram exRunt (some (exNow + 250000)), .dgram exForged (some (exNow + 400000))]).map (·.1) = some (.error .ntsProcess 2) ∧
    -- no deadline: the first refusal is final
    (xLoop (classifyIPFallThrough exCfg 7 Prev.init exReq (exNow + 10)) none 0 0
        [] [.dgram exForged (some (exNow + 400000))]).map (·.1.hasOffset) = some true ∧
    (xLoop (fun _ => classifyIP exCfg 7 Prev.init exReq (exNow + 10)) none 0 0
        [] [.dgram exForged (some (exNow + 400000))]).map (·.1) = some (.error .ntsProcess 1) ∧
    -- first refusal with a deadline: skipped by both, the exchange ends with the read error
    (xLoop (classifyIPFallThrough exCfg 7 Prev.init exReq (exNow + 10)) (some (exNow + 1000000000)) 0 0
        [exNow + 450000] [.dgram exForged (some (exNow + 400000)), .readErr]).map (·.1) = some (.error .read 2) := by
  decide

/-! ### refusal sites -/

/-- the site named for a payload is where the NTP/NTS stage refuses it -/
theorem siteNtp_agrees (cfg : Cfg) (prev : Prev) (req : Req) (cTx1 cRx : Int) (p : Payload) :
    (∀ s, siteNtp cfg req p = some s → ntpStage cfg prev req cTx1 cRx p = .skip s.err) ∧
    (siteNtp cfg req p = none → ∀ e, ntpStage cfg prev req cTx1 cRx p ≠ .skip e) := by
  unfold siteNtp ntpStage
  constructor
  · intro s h
    split at h
    · rename_i h0; cases h; simp only [h0, if_true, Site.err]
    rename_i h1
    split at h
    · rename_i h0; cases h; simp only [h1, h0, if_false, if_true, Site.err]
    rename_i h2
    split at h
    · rename_i h0; cases h; simp only [h1, h2, h0, if_false, if_true, Site.err, Bool.false_eq_true]
    rename_i h3
    split at h
    · rename_i h4
      cases h
      simp only [h1, h2, h3, if_false]
      have h4' : (!(req.interleaved && p.pkt.origin == req.rx) && p.pkt.origin != req.tx) = true := h4
      simp only [h4', if_true, Site.err, Bool.false_eq_true, if_false]
    · cases h
  · intro h e
    split at h
    · cases h
    rename_i h1
    split at h
    · cases h
    rename_i h2
    split at h
    · cases h
    rename_i h3
    split at h
    · cases h
    rename_i h4
    simp only [h1, h2, h3, if_false]
    have h4' : (!(req.interleaved && p.pkt.origin == req.rx) && p.pkt.origin != req.tx) = false := by
      simpa using h4
    simp only [h4', Bool.false_eq_true, if_false]
    split
    · intro hc; cases hc
    · split <;> intro hc <;> cases hc

/-- `siteIP` names the refusal site of the IP loop body: the body's verdict is "skip with that
    site's error" exactly when a site is named -/
theorem C05W_site_ip (cfg : Cfg) (server : Nat) (prev : Prev) (req : Req) (cTx1 cRx : Int) (d : IpDgram) :
    (∀ s, siteIP cfg server req d = some s → classifyIP cfg server prev req cTx1 cRx d = .skip s.err ∧ s ∈ ipSites) ∧
    (siteIP cfg server req d = none → ∀ e, classifyIP cfg server prev req cTx1 cRx d ≠ .skip e) := by
  unfold siteIP classifyIP
  have hn := siteNtp_agrees cfg prev req cTx1 cRx d.payload
  have hmem : ∀ s, siteNtp cfg req d.payload = some s → s ∈ ipSites := by
    intro s h
    unfold siteNtp at h
    repeat (first | (split at h; (first | (cases h; decide) | skip)) | cases h)
  constructor
  · intro s h
    split at h
    · cases h; simp [Site.err, ipSites, *]
    · rename_i hs
      simp only [hs, if_false]
      exact ⟨hn.1 s h, hmem s h⟩
  · intro h e
    split at h
    · cases h
    · rename_i hs
      simp only [hs, if_false]
      exact hn.2 h e

theorem siteNtp_mem (cfg : Cfg) (req : Req) (p : Payload) (s : Site) (h : siteNtp cfg req p = some s) :
    s ∈ scionSites := by
  unfold siteNtp at h
  repeat (first | (split at h; (first | (cases h; decide) | skip)) | cases h)

/-- `siteSCION` names the refusal site of the SCION loop body among its 13 sites (`read` and `flags`
    are the loop's own) -/
theorem C05W_site_scion (cfg : Cfg) (sc : ScionCtx) (prev : Prev) (req : Req) (cTx1 cRx : Int) (d : ScionDgram) :
    (∀ s, siteSCION cfg sc req d = some s → classifySCION cfg sc prev req cTx1 cRx d = .skip s.err ∧ s ∈ scionSites) ∧
    (siteSCION cfg sc req d = none → ∀ e, classifySCION cfg sc prev req cTx1 cRx d ≠ .skip e) := by
  have hn := siteNtp_agrees cfg prev req cTx1 (scionRxTime d cTx1 cRx) d.payload
  have hm := siteNtp_mem cfg req d.payload
  unfold siteSCION classifySCION classifySCIONWith
  have a1 : ¬ ((addrCheck sc d == none) = true) := by simp [addrCheck]
  constructor
  · intro s h
    split at h
    · rename_i h0; cases h; rw [if_pos h0]; simp [Site.err, scionSites]
    rename_i h1
    split at h
    · rename_i h0; cases h; rw [if_neg h1, if_pos h0]; simp [Site.err, scionSites]
    rename_i h2
    split at h
    · rename_i h0; cases h; rw [if_neg h1, if_neg h2, if_pos h0]; simp [Site.err, scionSites]
    rename_i h3
    split at h
    · rename_i h0; cases h; rw [if_neg h1, if_neg h2, if_neg h3, if_pos h0]; simp [Site.err, scionSites]
    rename_i h4
    split at h
    · rename_i h0; cases h
      have a2 : (addrCheck sc d != some true) = true := by
        have : addrValid sc d = false := by simpa using h0
        simp [addrCheck, this]
      rw [if_neg h1, if_neg h2, if_neg h3, if_neg h4, if_neg a1, if_pos a2]; simp [Site.err, scionSites]
    rename_i h5
    have a2 : ¬ ((addrCheck sc d != some true) = true) := by
      have : addrValid sc d = true := by simpa using h5
      simp [addrCheck, this]
    rw [if_neg h1, if_neg h2, if_neg h3, if_neg h4, if_neg a1, if_neg a2]
    dsimp only at h ⊢
    split at h
    · rename_i hk
      rw [if_pos hk]
      cases hau : d.authOpt with
      | none => rw [hau] at h; exact ⟨hn.1 s h, hm s h⟩
      | some a =>
        rw [hau] at h
        dsimp only at h ⊢
        split at h
        · rename_i hw; cases h; rw [if_pos hw]; simp [Site.err, scionSites]
        · rename_i hw
          rw [if_neg hw]
          split at h
          · rename_i hs
            rw [if_pos hs]
            split at h
            · rename_i hmac; cases h; rw [if_pos hmac]; simp [Site.err, scionSites]
            · rename_i hmac; rw [if_neg hmac]; exact ⟨hn.1 s h, hm s h⟩
          · rename_i hs; rw [if_neg hs]; exact ⟨hn.1 s h, hm s h⟩
    · rename_i hk; rw [if_neg hk]; exact ⟨hn.1 s h, hm s h⟩
  · intro h e
    split at h
    · cases h
    rename_i h1
    split at h
    · cases h
    rename_i h2
    split at h
    · cases h
    rename_i h3
    split at h
    · cases h
    rename_i h4
    split at h
    · cases h
    rename_i h5
    have a2 : ¬ ((addrCheck sc d != some true) = true) := by
      have : addrValid sc d = true := by simpa using h5
      simp [addrCheck, this]
    rw [if_neg h1, if_neg h2, if_neg h3, if_neg h4, if_neg a1, if_neg a2]
    dsimp only at h ⊢
    split at h
    · rename_i hk
      rw [if_pos hk]
      cases hau : d.authOpt with
      | none => rw [hau] at h; exact hn.2 h e
      | some a =>
        rw [hau] at h
        dsimp only at h ⊢
        split at h
        · cases h
        · rename_i hw
          rw [if_neg hw]
          split at h
          · rename_i hs
            rw [if_pos hs]
            split at h
            · cases h
            · rename_i hmac; rw [if_neg hmac]; exact hn.2 h e
          · rename_i hs; rw [if_neg hs]; exact hn.2 h e
    · rename_i hk; rw [if_neg hk]; exact hn.2 h e

example : scionSites.length = 13 ∧ ipSites.length = 7 := by decide

/-- **Pin** (regenerated from core/client/client.go on every run, `harness/extract/x_c03c05c10c11.go`):
    both attempt loops run over `range n` and their only way out other than running to the end is the
    `break` behind `e == nil && ntpc.InInterleavedMode()` — no exit that depends on the context. -/
theorem C05W_pin_attempt_loops :
    Gen.Client.attemptLoopRangeIP = "n" ∧ Gen.Client.attemptLoopRangeSCION = "n" ∧
    Gen.Client.attemptLoopExitsIP = "break if e == nil && ntpc.InInterleavedMode()" ∧
    Gen.Client.attemptLoopExitsSCION = "break if e == nil && ntpc.InInterleavedMode()" := by decide

end ScionTime.Props.C05Wrap
