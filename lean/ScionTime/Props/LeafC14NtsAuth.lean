/-
  Kernel-checked ties (C14 / C10 / C08 / C05): `(*Packet).authenticate` and `nts.ProcessResponse` of
  net/nts/nts.go as regenerated from /repo's Go source on every run (Gen/LeafNts.lean; ninth
  generation of the leaf translator: the AEAD made inside the function by `miscreant.NewAEAD` is
  rendered as its constructor arguments, its error / `NonceSize` / `Open` are FUNCTION-typed
  parameters applied to the translated arguments; `ntskeFetcher.StoreCookie(c)` is recorded in the
  thread `sk_ntskeFetcher`; `bytes.Equal`; `b[:pkt.Auth.pos]`).

  PROVED for EVERY function standing for the library (every AEAD, lawful or not), every packet,
  buffer, key, request identifier and budget:
    * `C10_leaf_ProcessResponse_accept`: `ProcessResponse` returns `nil` ONLY IF the response's
      unique identifier equals the request's, `NewAEAD("AES-CMAC-SIV", key, 16)` succeeded, the
      nonce has the AEAD's nonce size, `Open(nil, nonce, ciphertext, b[:Auth.pos])` — the bytes before
      the authenticator as associated data, under THAT key — succeeded, and the cookies handed to
      `StoreCookie` are exactly the packet's cookies afterwards, in order (`Opened` names the
      arguments of every consultation: an edited key, nonce, ciphertext or associated-data argument
      changes the generated term and the theorem no longer checks);
  and, for every library that agrees with the model's AEAD (`Agree`), every packet whose
  authenticator position lies inside the buffer and every budget above the plaintext length:
    * `C10_leaf_authenticate`, `C10_leaf_ProcessResponse`: equal to `Nts.authenticateG true` /
      `Nts.processResponse` — accepted exactly when the model accepts, with the model's cookies;
      rejected exactly when the model rejects; no panic, never out of budget.
-/
import ScionTime.Gen.LeafNts
import ScionTime.Model.Nts
import ScionTime.Proofs.GoPrelude
import ScionTime.Proofs.LeafBytes
import ScionTime.Props.LeafC14NtsDec
namespace ScionTime.LeafTieC14NtsAuth
open ScionTime ScionTime.Gen.Leaf ScionTime.GoLemmas ScionTime.Nts ScionTime.LeafBytes

abbrev Obj := String × List UInt8 × Int64
abbrev NewErr := String → List UInt8 → Int64 → Bool
abbrev NonceSize := Obj → Int64
abbrev OpenF := Obj → List UInt8 → List UInt8 → List UInt8 → List UInt8 → Option (List UInt8 × Bool)

/-- the `for _, cookie := range pkt.Cookies { ntskeFetcher.StoreCookie(cookie.Cookie) }` loop -/
theorem store_loop {ρ : Type} (cs : List S_Cookie) : ∀ (i : Int64) (acc : List (List UInt8)),
    Go.forRange (ρ := ρ) cs i acc (fun _ cookie sk => Go.Ctl.next (sk ++ [cookie.Cookie])) =
      .inl (acc ++ cs.map (·.Cookie)) := by
  induction cs with
  | nil => intro i acc; simp [Go.forRange]
  | cons c cs ih => intro i acc; simp [Go.forRange, ih]

/-- what `authenticate` does before its loop: the three library consultations, with their arguments -/
def Opened (ne : NewErr) (ns : NonceSize) (op : OpenF) (pkt : S_NtsPacket) (b key : List UInt8) (pt : List UInt8) : Prop :=
  ne "AES-CMAC-SIV" key 16 = false ∧
  Go.len pkt.Auth.Nonce = ns ("AES-CMAC-SIV", key, 16) ∧
  ∃ ad, Go.subslice? b 0 pkt.Auth.pos = some ad ∧
    op ("AES-CMAC-SIV", key, 16) [] pkt.Auth.Nonce pkt.Auth.CipherText ad = some (pt, false)

/-- **`authenticate` returns `nil` only after a successful `Open`** of the packet's nonce and
    ciphertext under the key given, with the bytes before the authenticator as associated data. -/
theorem C10_leaf_authenticate_accept (ne : NewErr) (ns : NonceSize) (op : OpenF) (pkt pkt' : S_NtsPacket)
    (b key : List UInt8) (fuel : Nat)
    (h : nts_Packet_authenticate pkt b key ne ns op fuel = .ok (pkt', false)) :
    ∃ pt, Opened ne ns op pkt b key pt := by
  unfold nts_Packet_authenticate at h
  simp only at h
  by_cases h1 : ne "AES-CMAC-SIV" key 16 = false
  · simp only [h1, bne_self_eq_false, Bool.false_eq_true, if_false] at h
    by_cases h2 : Go.len pkt.Auth.Nonce = ns ("AES-CMAC-SIV", key, 16)
    · simp only [h2, bne_self_eq_false, Bool.false_eq_true, if_false] at h
      cases hs : Go.subslice? b 0 pkt.Auth.pos with
      | none => simp [hs, Go.Out.ofOption, Go.Out.bind] at h
      | some ad =>
        cases ho : op ("AES-CMAC-SIV", key, 16) [] pkt.Auth.Nonce pkt.Auth.CipherText ad with
        | none => simp [hs, ho, Go.Out.ofOption, Go.Out.bind] at h
        | some r =>
          obtain ⟨pt, e⟩ := r
          cases e with
          | true => simp [hs, ho, Go.Out.ofOption, Go.Out.bind] at h
          | false => exact ⟨pt, h1, h2, ad, hs, ho⟩
    · have : (Go.len pkt.Auth.Nonce != ns ("AES-CMAC-SIV", key, 16)) = true := by simpa using h2
      simp [this] at h
  · have h1' : ne "AES-CMAC-SIV" key 16 = true := by simpa using h1
    simp [h1'] at h

/-- **`ProcessResponse` accepts only an authenticated response to this request.** -/
theorem C10_leaf_ProcessResponse_accept (ne : NewErr) (ns : NonceSize) (op : OpenF) (pkt pkt' : S_NtsPacket)
    (b key reqID : List UInt8) (sk : List (List UInt8)) (fuel : Nat)
    (h : nts_ProcessResponse b key pkt reqID ne ns op fuel = .ok (pkt', sk, false)) :
    reqID = pkt.UniqueID.ID ∧ (∃ pt, Opened ne ns op pkt b key pt) ∧ sk = pkt'.Cookies.map (·.Cookie) := by
  unfold nts_ProcessResponse at h
  simp only at h
  by_cases h1 : reqID = pkt.UniqueID.ID
  · have h1' : (reqID == pkt.UniqueID.ID) = true := by simpa using h1
    simp only [h1', Bool.not_true, Bool.false_eq_true, if_false] at h
    cases ha : nts_Packet_authenticate pkt b key ne ns op fuel with
    | ok r =>
      obtain ⟨p2, e⟩ := r
      cases e with
      | true => simp [ha, Go.Out.bind] at h
      | false =>
        simp only [ha, Go.Out.bind, bne_self_eq_false, Bool.false_eq_true, if_false, store_loop, List.nil_append] at h
        injection h with h
        injection h with hp hs
        injection hs with hs _
        subst hp
        exact ⟨h1, C10_leaf_authenticate_accept ne ns op pkt p2 b key fuel ha, hs.symm⟩
    | panic m => simp [ha, Go.Out.bind] at h
    | stuck => simp [ha, Go.Out.bind] at h
  · have h1' : (reqID == pkt.UniqueID.ID) = false := by simpa using h1
    simp [h1'] at h

/-! ### the tie of `authenticate` to `Nts.authenticateG` -/

open ScionTime.LeafTieC14CookiesDec (bytesN beU16At_spec ofNat_toInt k2 k4 int64_ext len_toInt getD_drop forFuel_mono u16_beq drop_cons4)
open ScionTime.LeafTieC14Nts (bytesN_length C10_leaf_Cookie_unpack)
open ScionTime.LeafTieC14NtsDec (hdr_spec k28 view forFuel_next forFuel_brk forFuel_ret)

abbrev AuSt := Bool × S_NtsPacket × Int64   -- (err, pkt, pos)

/-- the loop body of the generated `authenticate` over the opened plaintext, verbatim -/
def auBody (decrytedBuf : List UInt8) : AuSt → Go.Ctl AuSt (Go.Out (S_NtsPacket × Bool)) :=
  fun (err, pkt, pos) =>
            if (!(decide (((Go.len decrytedBuf) - pos) >= (28 : Int64)))) then
              Go.Ctl.brk (err, pkt, pos)
            else
              let eh : S_extHdr := { Type' := (0 : UInt16), Length := (0 : UInt16) : S_extHdr }
              Go.Ctl.bindR (Go.Out.ofOption "panic" (nts_extHdr_unpack eh decrytedBuf pos)) fun eh =>
              if ((decide (eh.Length < (4 : UInt16))) || (decide (((eh.Length).toUInt64.toInt64) > ((Go.len decrytedBuf) - pos)))) then
                Go.Ctl.ret (Go.Out.ok ((pkt, true)))
              else
                let pos : Int64 := (pos + (4 : Int64))
                if (eh.Type' == (516 : UInt16)) then
                  let cookie : S_Cookie := { extHdr := eh, Cookie := ([] : (List UInt8)) : S_Cookie }
                  Go.Ctl.bindR (Go.Out.ofOption "panic" (nts_Cookie_unpack cookie decrytedBuf pos)) fun (cookie, _c3) =>
                  let err : Bool := _c3
                  if (err != false) then
                    Go.Ctl.ret (Go.Out.ok ((pkt, err)))
                  else
                    let pkt : S_NtsPacket := { pkt with Cookies := (Go.appendOwn pkt.Cookies cookie) }
                    let pos : Int64 := (pos + (((eh.Length).toUInt64.toInt64) - (4 : Int64)))
                    Go.Ctl.next (err, pkt, pos)
                else
                  let pos : Int64 := (pos + (((eh.Length).toUInt64.toInt64) - (4 : Int64)))
                  Go.Ctl.next (err, pkt, pos)

/-- the generated function is the three library consultations followed by its loop (definitional:
    re-checked against the regenerated definition on every run) -/
theorem au_pieces (pkt : S_NtsPacket) (b key : List UInt8) (ext_miscreant_NewAEAD_err : NewErr)
    (ext_miscreant_NewAEAD_NonceSize : NonceSize) (ext_miscreant_NewAEAD_Open : OpenF) (ext_fuel : Nat) :
    nts_Packet_authenticate pkt b key ext_miscreant_NewAEAD_err ext_miscreant_NewAEAD_NonceSize ext_miscreant_NewAEAD_Open ext_fuel =
      (
  let (aessiv, err) := (("AES-CMAC-SIV", key, (16 : Int64)), (ext_miscreant_NewAEAD_err "AES-CMAC-SIV" key (16 : Int64)))
  if (err != false) then
    Go.Out.ok ((pkt, err))
  else
    if ((Go.len pkt.Auth.Nonce) != (ext_miscreant_NewAEAD_NonceSize aessiv)) then
      Go.Out.ok ((pkt, true))
    else
      ((Go.Out.ofOption "slice" (Go.subslice? b (0 : Int64) pkt.Auth.pos))).bind fun _s1 =>
      ((Go.Out.ofOption "library" (ext_miscreant_NewAEAD_Open aessiv ([] : List UInt8) pkt.Auth.Nonce pkt.Auth.CipherText _s1))).bind fun _o2 =>
      let (decrytedBuf, err) := _o2
      if (err != false) then
        Go.Out.ok ((pkt, err))
      else
        let pos : Int64 := (0 : Int64)
        match Go.forFuel (ρ := Go.Out (S_NtsPacket × Bool)) ext_fuel (err, pkt, pos) (auBody decrytedBuf) with
        | none => Go.Out.stuck
        | some (.inr _r) => _r
        | some (.inl (err, pkt, pos)) =>
        Go.Out.ok ((pkt, false))) := rfl

/-- one iteration of `ptLoop` (fixed code) on a suffix of at least 28 bytes, header `(t, l)` -/
def ptNext (n : Nat) (rest : Bytes) (cs : List Bytes) (t l : Nat) : Res (List Bytes) :=
  if l < 4 ∨ l > rest.length then .err .extLen
  else if t = extCookie then ptLoop true n (rest.drop l) (cs ++ [copyN (valueLen l) (rest.drop 4)])
  else ptLoop true n (rest.drop l) cs

theorem pt_unfold (n : Nat) (rest : Bytes) (cs : List Bytes) (h : 28 ≤ rest.length) :
    ptLoop true (n + 1) rest cs =
      ptNext n rest cs (u16 (rest.getD 0 0) (rest.getD 1 0)) (u16 (rest.getD 2 0) (rest.getD 3 0)) := by
  rcases rest with _ | ⟨a, _ | ⟨b, _ | ⟨c, _ | ⟨e, body⟩⟩⟩⟩
  · simp at h
  · simp at h
  · simp at h
  · simp at h
  · have hl : ¬ (a :: b :: c :: e :: body).length < 28 := by omega
    unfold ptNext
    simp only [ptLoop, if_neg hl, List.getD_cons_zero, List.getD_cons_succ, List.drop_succ_cons, List.drop_zero,
      Bool.true_and, Bool.or_eq_true]
    generalize u16 c e = l
    generalize (a :: b :: c :: e :: body).length = L
    by_cases h1 : l < 4
    · simp [h1]
    · by_cases h2 : l > L
      · simp [h1, h2]
      · have h0 : ¬ (l = 0) := by omega
        simp [h1, h2, h0]

theorem pt_at (B : Bytes) (p n : Nat) (cs : List Bytes) (h : p + 28 ≤ B.length) :
    ptLoop true (n + 1) (B.drop p) cs =
      ptNext n (B.drop p) cs (u16 (B.getD p 0) (B.getD (p + 1) 0)) (u16 (B.getD (p + 2) 0) (B.getD (p + 3) 0)) := by
  rw [pt_unfold _ _ _ (by simp; omega)]
  simp only [getD_drop, Nat.add_zero]

theorem pt_short (n : Nat) (rest : Bytes) (cs : List Bytes) (h : rest.length < 28) :
    ptLoop true (n + 1) rest cs = .ok cs := by
  simp only [ptLoop, if_pos h]

theorem au_short (d : List UInt8) (p : Nat) (e : Bool) (pkt : S_NtsPacket)
    (hL : d.length < 4611686018427387904) (hp : p < 4611686018427387904) (h : (d.length : Int) - p < 28) :
    auBody d (e, pkt, Int64.ofNat p) = .brk (e, pkt, Int64.ofNat p) := by
  have hlen := len_toInt d hL
  have hpos := ofNat_toInt p (by omega)
  have hsub : (Go.len d - Int64.ofNat p).toInt = (d.length : Int) - p := by
    rw [toInt_sub_of_fits _ _ (by omega) (by omega), hlen, hpos]
  have hc : decide (Go.len d - Int64.ofNat p ≥ (28 : Int64)) = false := by
    rw [decide_eq_false_iff_not, ge_iff_le, Int64.le_iff_toInt_le, hsub, k28]; omega
  simp [auBody, hc]

/-- what one iteration of the generated body does at position `p` with header `(t, l)` when at
    least 28 bytes of plaintext are left -/
def AuStepOK (d : List UInt8) (p : Nat) (pkt : S_NtsPacket) (t l : Nat)
    (r : Go.Ctl AuSt (Go.Out (S_NtsPacket × Bool))) : Prop :=
  if l < 4 ∨ l > d.length - p then r = .ret (.ok (pkt, true))
  else if t = extCookie then
    ∃ eh X, r = .next (false, { pkt with Cookies := pkt.Cookies ++ [{ extHdr := eh, Cookie := X }] }, Int64.ofNat (p + l)) ∧
      bytesN X = copyN (valueLen l) ((bytesN d).drop (p + 4))
  else r = .next (false, pkt, Int64.ofNat (p + l))

theorem au_spec (d : List UInt8) (p : Nat) (pkt : S_NtsPacket)
    (hL : d.length < 4611686018427387904) (h28 : p + 28 ≤ d.length) :
    AuStepOK d p pkt (u16 ((bytesN d).getD p 0) ((bytesN d).getD (p + 1) 0))
      (u16 ((bytesN d).getD (p + 2) 0) ((bytesN d).getD (p + 3) 0))
      (auBody d (false, pkt, Int64.ofNat p)) := by
  have hlen := len_toInt d hL
  have hpos := ofNat_toInt p (by omega)
  obtain ⟨t, l, hh, htn, hln⟩ := hdr_spec d p { Type' := 0, Length := 0 } hL (by omega)
  have hsub : (Go.len d - Int64.ofNat p).toInt = (d.length : Int) - p := by
    rw [toInt_sub_of_fits _ _ (by omega) (by omega), hlen, hpos]
  have hc : decide (Go.len d - Int64.ofNat p ≥ (28 : Int64)) = true := by
    rw [decide_eq_true_eq, ge_iff_le, Int64.le_iff_toInt_le, hsub, k28]; omega
  have hl16 := l.toNat_lt
  have hw : (l.toUInt64.toInt64).toInt = l.toNat := widen16 l
  have h4u : (4 : UInt16).toNat = 4 := rfl
  have hp4 : Int64.ofNat p + 4 = Int64.ofNat (p + 4) := by
    apply int64_ext
    rw [toInt_add_of_fits _ _ (by rw [hpos, k4]; omega) (by rw [hpos, k4]; omega), hpos, k4, ofNat_toInt _ (by omega)]; omega
  rw [← htn, ← hln]
  have e516 : (516 : UInt16).toNat = 516 := rfl
  unfold AuStepOK extCookie
  by_cases h1 : l.toNat < 4 ∨ l.toNat > d.length - p
  · have h1' : l.toNat < 4 ∨ ((d.length : Int) - (p : Int) < (l.toNat : Int)) := by omega
    rw [if_pos h1]
    simp only [auBody, hc, hh, Bool.not_false, Bool.and_true, Bool.not_true, Bool.false_eq_true, if_false,
      Go.Out.ofOption, Go.Ctl.bindR, UInt16.lt_iff_toNat_lt, h4u, Int64.lt_iff_toInt_lt, gt_iff_lt, hw, hsub,
      Bool.or_eq_true, decide_eq_true_eq, h1', if_true]
  · have h1' : ¬ (l.toNat < 4 ∨ ((d.length : Int) - (p : Int) < (l.toNat : Int))) := by omega
    rw [if_neg h1]
    have hl4 : (l.toUInt64.toInt64 - 4).toInt = (l.toNat : Int) - 4 := by
      rw [toInt_sub_of_fits _ _ (by rw [hw, k4]; omega) (by rw [hw, k4]; omega), hw, k4]
    have hp4i := ofNat_toInt (p + 4) (by omega)
    have hnx : Int64.ofNat (p + 4) + (l.toUInt64.toInt64 - 4) = Int64.ofNat (p + l.toNat) := by
      apply int64_ext
      rw [toInt_add_of_fits _ _ (by rw [hp4i, hl4]; omega) (by rw [hp4i, hl4]; omega), hp4i, hl4,
        ofNat_toInt _ (by omega)]; omega
    by_cases hk : t.toNat = 516
    · have ht : t = 516 := UInt16.toNat_inj.mp (by rw [hk, e516])
      subst ht
      obtain ⟨X, hrun, hX⟩ := C10_leaf_Cookie_unpack { extHdr := { Type' := 516, Length := l }, Cookie := [] }
        d (p + 4) hL (by omega) rfl
      rw [if_pos hk]
      refine ⟨{ Type' := 516, Length := l }, X, ?_, hX⟩
      simp only [auBody, hc, hh, Bool.not_false, Bool.and_true, Bool.not_true, Bool.false_eq_true, if_false,
        Go.Out.ofOption, Go.Ctl.bindR, UInt16.lt_iff_toNat_lt, h4u, Int64.lt_iff_toInt_lt, gt_iff_lt, hw, hsub,
        Bool.or_eq_true, decide_eq_true_eq, hp4, u16_beq, h1', e516, hnx, hrun]
      simp [Go.appendOwn]
    · rw [if_neg hk]
      simp only [auBody, hc, hh, Bool.not_false, Bool.and_true, Bool.not_true, Bool.false_eq_true, if_false,
        Go.Out.ofOption, Go.Ctl.bindR, UInt16.lt_iff_toNat_lt, h4u, Int64.lt_iff_toInt_lt, gt_iff_lt, hw, hsub,
        Bool.or_eq_true, decide_eq_true_eq, hp4, u16_beq, h1', e516, hnx, hk]

/-- the walk over the opened plaintext: position-based loop = suffix-based `ptLoop`; only the
    cookie list of the packet changes -/
theorem au_loop (d : List UInt8) (hL : d.length < 4611686018427387904) :
    ∀ (n p : Nat) (pkt : S_NtsPacket), p ≤ d.length → d.length - p < n →
      (match ptLoop true n ((bytesN d).drop p) (view pkt).cookies with
       | .ok cs => ∃ pkt' pos', Go.forFuel n (false, pkt, Int64.ofNat p) (auBody d) = some (.inl (false, pkt', pos')) ∧
            view pkt' = { view pkt with cookies := cs }
       | .err _ => ∃ pkt', Go.forFuel n (false, pkt, Int64.ofNat p) (auBody d) = some (.inr (Go.Out.ok (pkt', true)))
       | .panic _ => False
       | .hang => False) := by
  intro n
  induction n with
  | zero => intro p pkt _ h; omega
  | succ n ih =>
    intro p pkt hp hn
    have hBl : (bytesN d).length = d.length := bytesN_length d
    by_cases h28 : p + 28 ≤ d.length
    · rw [pt_at _ _ _ _ (by rw [hBl]; exact h28)]
      have hs := au_spec d p pkt hL h28
      unfold ptNext
      unfold AuStepOK at hs
      generalize u16 ((bytesN d).getD p 0) ((bytesN d).getD (p + 1) 0) = t at hs ⊢
      generalize u16 ((bytesN d).getD (p + 2) 0) ((bytesN d).getD (p + 3) 0) = l at hs ⊢
      have hdl : ((bytesN d).drop p).length = d.length - p := by rw [List.length_drop, hBl]
      simp only [hdl, List.drop_drop] at hs ⊢
      by_cases h1 : l < 4 ∨ l > d.length - p
      · rw [if_pos h1] at hs ⊢
        exact ⟨pkt, forFuel_ret _ _ _ _ hs⟩
      · rw [if_neg h1] at hs ⊢
        by_cases hk : t = extCookie
        · rw [if_pos hk] at hs ⊢
          obtain ⟨eh, X, hr, hX⟩ := hs
          have := ih (p + l) { pkt with Cookies := pkt.Cookies ++ [{ extHdr := eh, Cookie := X }] } (by omega) (by omega)
          rw [forFuel_next _ _ _ _ hr]
          have hv : (view { pkt with Cookies := pkt.Cookies ++ [{ extHdr := eh, Cookie := X }] }).cookies =
              (view pkt).cookies ++ [copyN (valueLen l) ((bytesN d).drop (p + 4))] := by
            simp only [view, hX, List.map_append, List.map_cons, List.map_nil]
          rw [hv] at this
          exact this
        · rw [if_neg hk] at hs ⊢
          have := ih (p + l) pkt (by omega) (by omega)
          rw [forFuel_next _ _ _ _ hs]
          exact this
    · rw [pt_short _ _ _ (by rw [List.length_drop, hBl]; omega)]
      exact ⟨pkt, Int64.ofNat p, forFuel_brk _ _ _ _ (au_short d p false pkt hL (by omega) (by omega)), rfl⟩

/-- the functions standing for the library agree with the model's AEAD (what the harness observes
    of miscreant on every run; here a hypothesis) -/
structure Agree (ne : NewErr) (ns : NonceSize) (op : OpenF) (A : AEAD) : Prop where
  newErr : ∀ key, ne "AES-CMAC-SIV" key 16 = !keyOk (bytesN key)
  nonceSize : ∀ o, ns o = 16
  opens : ∀ key n c ad, n.length = 16 →
    match op ("AES-CMAC-SIV", key, 16) [] n c ad with
    | some (pt, false) => A.openF (bytesN key) (bytesN n) (bytesN c) (some (bytesN ad)) = some (bytesN pt) ∧
        pt.length < 4611686018427387904
    | some (_, true) => A.openF (bytesN key) (bytesN n) (bytesN c) (some (bytesN ad)) = none
    | none => False

theorem len_eq16 (x : List UInt8) (h : x.length < 4611686018427387904) : (Go.len x = 16) ↔ x.length = 16 := by
  have hl := len_toInt x h
  constructor
  · intro e; rw [e] at hl; have : (16 : Int64).toInt = 16 := by decide
    omega
  · intro e; apply int64_ext; rw [hl, e]; decide

theorem bytesN_take (b : List UInt8) (k : Nat) : bytesN (b.take k) = (bytesN b).take k := by
  simp [bytesN, List.map_take]

/-- **`(*Packet).authenticate`, for every packet whose authenticator position lies in the buffer,
    every library agreeing with the model's AEAD and every budget above the plaintext length**: the
    regenerated function returns `nil` exactly when `authenticateG` (fixed code) accepts, and the
    packet's cookies are then the model's (the other fields unchanged); an error exactly when the
    model returns one; it never panics and never runs out of budget. -/
theorem C10_leaf_authenticate (ne : NewErr) (ns : NonceSize) (op : OpenF) (A : AEAD) (hA : Agree ne ns op A)
    (pkt : S_NtsPacket) (b key : List UInt8) (fuel : Nat)
    (hL : b.length < 4611686018427387904) (hN : pkt.Auth.Nonce.length < 4611686018427387904)
    (hpos : 0 ≤ pkt.Auth.pos.toInt ∧ pkt.Auth.pos.toInt ≤ b.length)
    (hf : ∀ o x n c ad pt e, op o x n c ad = some (pt, e) → pt.length < fuel) :
    match authenticateG true A (bytesN b) (bytesN key) (view pkt) with
    | .ok cs => ∃ pkt', nts_Packet_authenticate pkt b key ne ns op fuel = .ok (pkt', false) ∧
        view pkt' = { view pkt with cookies := cs }
    | .err _ => ∃ pkt', nts_Packet_authenticate pkt b key ne ns op fuel = .ok (pkt', true)
    | .panic _ => False
    | .hang => False := by
  rw [au_pieces]
  unfold authenticateG
  simp only [hA.newErr, hA.nonceSize]
  cases hk : keyOk (bytesN key) with
  | false => simp
  | true =>
    simp only [Bool.not_true, bne_self_eq_false, Bool.false_eq_true, if_false, Bool.true_and]
    have hvn : (view pkt).nonce.length = pkt.Auth.Nonce.length := by simp [view, bytesN]
    by_cases hn : pkt.Auth.Nonce.length = 16
    · have hg : Go.len pkt.Auth.Nonce = 16 := (len_eq16 _ hN).mpr hn
      have h0 : (0 : Int64).toInt = ((0 : Nat) : Int) := by decide
      have hss := ScionTime.LeafTieC14CookiesDec.subslice_spec b 0 pkt.Auth.pos.toInt.toNat 0 pkt.Auth.pos h0
        (by omega) (by omega)
      simp only [hg, bne_self_eq_false, Bool.false_eq_true, if_false, hss, Go.Out.ofOption, Go.Out.bind, List.drop_zero,
        hvn, hn, ne_eq, not_true_eq_false, decide_false, openC]
      have ho := hA.opens key pkt.Auth.Nonce pkt.Auth.CipherText (b.take pkt.Auth.pos.toInt.toNat) hn
      have hvp : (view pkt).pos = pkt.Auth.pos.toInt.toNat := rfl
      have hvc : (view pkt).ct = bytesN pkt.Auth.CipherText := rfl
      have hvno : (view pkt).nonce = bytesN pkt.Auth.Nonce := rfl
      rw [hvp, hvc, hvno, ← bytesN_take]
      cases hop : op ("AES-CMAC-SIV", key, 16) [] pkt.Auth.Nonce pkt.Auth.CipherText (b.take pkt.Auth.pos.toInt.toNat) with
      | none => rw [hop] at ho; exact ho.elim
      | some r =>
        obtain ⟨pt, e⟩ := r
        rw [hop] at ho
        cases e with
        | true =>
          simp only at ho
          rw [ho]
          simp
        | false =>
          simp only at ho
          obtain ⟨hoA, hpt⟩ := ho
          have hfu := hf _ _ _ _ _ _ _ hop
          rw [hoA]
          have hl := au_loop pt hpt (pt.length + 1) 0 pkt (by omega) (by omega)
          rw [List.drop_zero] at hl
          simp only [bne_self_eq_false, Bool.false_eq_true, if_false]
          have hb : (do let pt' ← Res.ok (bytesN pt); ptLoop true (List.length pt' + 1) pt' (view pkt).cookies) =
              ptLoop true (pt.length + 1) (bytesN pt) (view pkt).cookies := by
            show Res.bind _ _ = _
            simp only [Res.bind, bytesN_length]
          rw [hb]
          obtain ⟨k, hk2⟩ : ∃ k, fuel = (pt.length + 1) + k := ⟨fuel - (pt.length + 1), by omega⟩
          have h00 : Int64.ofNat 0 = (0 : Int64) := by decide
          rw [h00] at hl
          cases hm : ptLoop true (pt.length + 1) (bytesN pt) (view pkt).cookies with
          | ok cs =>
            rw [hm] at hl
            obtain ⟨pkt', pos', hrun, hv⟩ := hl
            rw [hk2, forFuel_mono _ _ k _ _ hrun]
            exact ⟨pkt', rfl, hv⟩
          | err e =>
            rw [hm] at hl
            obtain ⟨pkt', hrun⟩ := hl
            rw [hk2, forFuel_mono _ _ k _ _ hrun]
            exact ⟨pkt', rfl⟩
          | panic m => rw [hm] at hl; exact hl
          | hang => rw [hm] at hl; exact hl
    · have hg : ¬ (Go.len pkt.Auth.Nonce = 16) := fun e => hn ((len_eq16 _ hN).mp e)
      have hg' : (Go.len pkt.Auth.Nonce != 16) = true := by simpa using hg
      simp [hg', hvn, hn]

theorem bytesN_inj : ∀ {x y : List UInt8}, bytesN x = bytesN y → x = y
  | [], [], _ => rfl
  | [], _ :: _, h => by simp [bytesN] at h
  | _ :: _, [], h => by simp [bytesN] at h
  | a :: x, c :: y, h => by
    simp only [bytesN, List.map_cons, List.cons.injEq] at h
    rw [UInt8.toNat_inj.mp h.1, bytesN_inj (x := x) (y := y) h.2]

/-- **`nts.ProcessResponse`** under the same hypotheses: `nil` exactly when `processResponse` (fixed
    code) accepts; the cookies handed to `StoreCookie`, in order, are then the model's list, which is
    the packet's cookie list afterwards; an error exactly when the model returns one (nothing is
    stored then); never a panic, never out of budget. -/
theorem C10_leaf_ProcessResponse (ne : NewErr) (ns : NonceSize) (op : OpenF) (A : AEAD) (hA : Agree ne ns op A)
    (pkt : S_NtsPacket) (b key reqID : List UInt8) (fuel : Nat)
    (hL : b.length < 4611686018427387904) (hN : pkt.Auth.Nonce.length < 4611686018427387904)
    (hpos : 0 ≤ pkt.Auth.pos.toInt ∧ pkt.Auth.pos.toInt ≤ b.length)
    (hf : ∀ o x n c ad pt e, op o x n c ad = some (pt, e) → pt.length < fuel) :
    match processResponse A (bytesN b) (bytesN key) (view pkt) (bytesN reqID) with
    | .ok cs => ∃ pkt' sk, nts_ProcessResponse b key pkt reqID ne ns op fuel = .ok (pkt', sk, false) ∧
        sk.map bytesN = cs ∧ view pkt' = { view pkt with cookies := cs }
    | .err _ => ∃ pkt', nts_ProcessResponse b key pkt reqID ne ns op fuel = .ok (pkt', [], true)
    | .panic _ => False
    | .hang => False := by
  unfold processResponse processResponseG nts_ProcessResponse
  simp only
  by_cases h1 : reqID = pkt.UniqueID.ID
  · have h1' : (reqID == pkt.UniqueID.ID) = true := by simpa using h1
    have h1m : ¬ (bytesN reqID ≠ (view pkt).uid) := by simp [view, h1]
    rw [if_neg h1m]
    simp only [h1', Bool.not_true, Bool.false_eq_true, if_false]
    have ha := C10_leaf_authenticate ne ns op A hA pkt b key fuel hL hN hpos hf
    cases hm : authenticateG true A (bytesN b) (bytesN key) (view pkt) with
    | ok cs =>
      rw [hm] at ha
      obtain ⟨pkt', hrun, hv⟩ := ha
      refine ⟨pkt', pkt'.Cookies.map (·.Cookie), ?_, ?_, hv⟩
      · simp only [hrun, Go.Out.bind, bne_self_eq_false, Bool.false_eq_true, if_false, store_loop, List.nil_append]
      · have : (view pkt').cookies = cs := by rw [hv]
        rw [← this]; simp [view, List.map_map]
    | err e =>
      rw [hm] at ha
      obtain ⟨pkt', hrun⟩ := ha
      exact ⟨pkt', by simp [hrun, Go.Out.bind]⟩
    | panic m => rw [hm] at ha; exact ha
    | hang => rw [hm] at ha; exact ha
  · have h1' : (reqID == pkt.UniqueID.ID) = false := by simpa using h1
    have h1m : bytesN reqID ≠ (view pkt).uid := fun e => h1 (bytesN_inj e)
    rw [if_pos h1m]
    exact ⟨pkt, by simp [h1']⟩

/-! ### non-vacuity -/

/-- a toy library: keys of 32 or 64 bytes, "decryption" = identity on texts shorter than 100 bytes -/
def toyNe : NewErr := fun _ k _ => !(k.length == 32 || k.length == 64)
def toyNs : NonceSize := fun _ => 16
def toyOp : OpenF := fun _ _ _ c _ => if c.length < 100 then some (c, false) else some ([], true)
def toyA : AEAD := { sealF := fun _ _ p _ => p, openF := fun _ _ c _ => if c.length < 100 then some c else none }

example : Agree toyNe toyNs toyOp toyA where
  newErr := by intro key; simp [toyNe, keyOk, bytesN]
  nonceSize := by intro o; rfl
  opens := by
    intro key n c ad _
    by_cases h : c.length < 100
    · simp only [toyOp, toyA, h, if_true, bytesN, List.length_map]; exact ⟨trivial, by omega⟩
    · simp only [toyOp, toyA, h, if_false, bytesN, List.length_map]

def samplePkt : S_NtsPacket :=
  { UniqueID := { extHdr := { Type' := 260, Length := 5 }, ID := [1] }, Cookies := [], CookiePlaceholders := [],
    Auth := { extHdr := { Type' := 1028, Length := 0 }, Nonce := List.replicate 16 0,
              CipherText := [2, 4, 0, 28] ++ List.replicate 24 7, Key := [], PlainText := [], pos := 0 } }

/-- a response carrying one encrypted cookie field (24 x 7), identifier [1] = the request's -/
example : (match nts_ProcessResponse [] (List.replicate 32 0)
      samplePkt
      [1] toyNe toyNs toyOp 30 with
    | .ok (p, sk, e) => some (sk, p.Cookies.length, e) | _ => none) = some ([List.replicate 24 7], 1, false) := by
  decide +kernel

/-- the same response for another request identifier: refused, nothing stored -/
example : (match nts_ProcessResponse [] (List.replicate 32 0)
      samplePkt
      [2] toyNe toyNs toyOp 30 with
    | .ok (_, sk, e) => some (sk, e) | _ => none) = some ([], true) := by
  decide +kernel

end ScionTime.LeafTieC14NtsAuth
