import ScionTime.Gen.SkelC13
import ScionTime.Model.Skel.Scion

/-!
  Control-skeleton pins, group C13 (notes/SKEL.md): the control structure and the text of every
  condition, call and assignment of the functions below, re-read from /repo on every run
  (`Gen.Skel.*`, harness/extract/skeleton.go), are exactly the ones the hand-written models were
  written against (`Model.Skel.*`, annotated row by row with the model definition that mirrors
  each statement).  A broken pin means the code was edited inside a modelled function: the model
  has to be re-read against the rows named by the `SKEL-DIFF` diagnostic.
-/
namespace ScionTime

/-! diagnostics (not obligations): name the rows that differ when a pin below breaks -/
#eval Model.Skel.check "Scion.UseMockKeys" Gen.Skel.Scion.UseMockKeys Model.Skel.Scion.UseMockKeys
#eval Model.Skel.check "Scion.Fetcher_FetchHostASKey" Gen.Skel.Scion.Fetcher_FetchHostASKey Model.Skel.Scion.Fetcher_FetchHostASKey
#eval Model.Skel.check "Scion.Fetcher_FetchHostHostKey" Gen.Skel.Scion.Fetcher_FetchHostHostKey Model.Skel.Scion.Fetcher_FetchHostHostKey
#eval Model.Skel.check "Scion.NewFetcher" Gen.Skel.Scion.NewFetcher Model.Skel.Scion.NewFetcher
#eval Model.Skel.check "Scion.FetchHostASKey" Gen.Skel.Scion.FetchHostASKey Model.Skel.Scion.FetchHostASKey
#eval Model.Skel.check "Scion.DeriveHostHostKey" Gen.Skel.Scion.DeriveHostHostKey Model.Skel.Scion.DeriveHostHostKey
#eval Model.Skel.check "Scion.FetchHostHostKey" Gen.Skel.Scion.FetchHostHostKey Model.Skel.Scion.FetchHostHostKey
#eval Model.Skel.check "Scion.PacketAuthOptMetadata" Gen.Skel.Scion.PacketAuthOptMetadata Model.Skel.Scion.PacketAuthOptMetadata
#eval Model.Skel.check "Scion.PacketAuthOptMAC" Gen.Skel.Scion.PacketAuthOptMAC Model.Skel.Scion.PacketAuthOptMAC
#eval Model.Skel.check "Scion.PreparePacketAuthOpt" Gen.Skel.Scion.PreparePacketAuthOpt Model.Skel.Scion.PreparePacketAuthOpt

/-! the pins -/
theorem C13_skel_Scion_UseMockKeys : Gen.Skel.Scion.UseMockKeys = Model.Skel.Scion.UseMockKeys := rfl
theorem C13_skel_Scion_Fetcher_FetchHostASKey : Gen.Skel.Scion.Fetcher_FetchHostASKey = Model.Skel.Scion.Fetcher_FetchHostASKey := rfl
theorem C13_skel_Scion_Fetcher_FetchHostHostKey : Gen.Skel.Scion.Fetcher_FetchHostHostKey = Model.Skel.Scion.Fetcher_FetchHostHostKey := rfl
theorem C13_skel_Scion_NewFetcher : Gen.Skel.Scion.NewFetcher = Model.Skel.Scion.NewFetcher := rfl
theorem C13_skel_Scion_FetchHostASKey : Gen.Skel.Scion.FetchHostASKey = Model.Skel.Scion.FetchHostASKey := rfl
theorem C13_skel_Scion_DeriveHostHostKey : Gen.Skel.Scion.DeriveHostHostKey = Model.Skel.Scion.DeriveHostHostKey := rfl
theorem C13_skel_Scion_FetchHostHostKey : Gen.Skel.Scion.FetchHostHostKey = Model.Skel.Scion.FetchHostHostKey := rfl
theorem C13_skel_Scion_PacketAuthOptMetadata : Gen.Skel.Scion.PacketAuthOptMetadata = Model.Skel.Scion.PacketAuthOptMetadata := rfl
theorem C13_skel_Scion_PacketAuthOptMAC : Gen.Skel.Scion.PacketAuthOptMAC = Model.Skel.Scion.PacketAuthOptMAC := rfl
theorem C13_skel_Scion_PreparePacketAuthOpt : Gen.Skel.Scion.PreparePacketAuthOpt = Model.Skel.Scion.PreparePacketAuthOpt := rfl

end ScionTime
