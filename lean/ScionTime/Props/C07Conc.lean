/-
  C07, concurrency clause — linearizability of the timestamp store under its lock discipline.

  The extracted fact `fact_tssMu_lock_discipline` (pinned in Props/C07.lean) says that the only
  functions touching `tss`/`tssQ`, handleRequest and updateTXTimestamp, do
  `tssMu.Lock(); defer tssMu.Unlock()` before anything else. Model/Mutex.lean is the interleaving
  semantics of exactly that shape: any number of listener goroutines, each with its own program
  (sequence of store operations); a scheduler that at every point picks ANY goroutine whose next
  micro-step is enabled (Lock is enabled iff the mutex is free; the micro-steps of a critical
  section and Unlock only for the holder); critical sections split into arbitrarily many
  read/write micro-steps. Proved for ALL programs, ALL schedules and ALL such splittings:

  * whenever the mutex is free, the store is exactly what the sequential model `Server.run`
    produces for the operations in lock-acquisition order — an interleaving of the goroutines'
    programs that keeps each goroutine's own order (linearizability, with the lock acquisition
    as linearization point);
  * inside a critical section the holder works on that sequential state plus its own completed
    micro-steps — no other goroutine's write can appear;
  * hence everything Props/C07.lean and Props/C06.lean prove about sequential histories
    (bounded, map/heap agreement, heap order, reply contract) holds for every concurrent
    execution.

  What is NOT proved here is that Go's sync.Mutex implements mutual exclusion and that no other
  code writes the store (the extracted fact + the race detector runs of the thorough tier).
-/
import ScionTime.Proofs.Mutex
import ScionTime.Props.C07
namespace ScionTime.Props.C07Conc
open ScionTime ScionTime.Server ScionTime.Mutex ScionTime.Props.C07

/-- sequential execution of a log of store operations is the sequential model -/
theorem seqResult_eq_run (cap icap : Nat) (sem : Server.Op → Body State)
    (hsem : ∀ op st, runOp (sem op) st = stepOp cap icap st op) (st : State) (log : List (Nat × Server.Op)) :
    seqResult sem st log = Server.run cap icap st (log.map (·.2)) := by
  unfold seqResult Server.run
  induction log generalizing st with
  | nil => rfl
  | cons e l ih =>
    simp only [List.foldl_cons, List.map_cons]
    rw [hsem]; exact ih _

/-- Linearizability: after any schedule of any number of goroutines, whenever the mutex is free
    the store equals the sequential model run on the operations in lock-acquisition order, and
    that order keeps every goroutine's program order (`ProgOrder`: what goroutine `i` has logged,
    followed by what it still has to start, is its program). `sem` is any splitting of the two
    critical sections into micro-steps that composes to the operation. -/
theorem C07_linearizable (cap icap : Nat) (sem : Server.Op → Body State)
    (hsem : ∀ op st, runOp (sem op) st = stepOp cap icap st op)
    (progs : List (List Server.Op)) (sched : List Nat) :
    let s := Mutex.run sem (start Server.init progs) sched
    ProgOrder progs s ∧
    (s.holder = none → s.shared = Server.run cap icap Server.init (s.log.map (·.2))) := by
  intro s
  refine ⟨run_progOrder sem progs sched _ (start_progOrder Server.init progs), ?_⟩
  intro hfree
  have hinv := run_inv sem Server.init sched _ (start_inv sem Server.init progs)
  unfold Mutex.Inv at hinv
  have hs : s = Mutex.run sem (start Server.init progs) sched := rfl
  rw [← hs] at hinv
  rw [hfree] at hinv
  rw [hinv.2, seqResult_eq_run cap icap sem hsem]

/-- Inside a critical section: the holder sees the sequential state of the operations logged
    before its own, advanced by the micro-steps it has done itself — nothing else. -/
theorem C07_critical_section_isolated (cap icap : Nat) (sem : Server.Op → Body State)
    (hsem : ∀ op st, runOp (sem op) st = stepOp cap icap st op)
    (progs : List (List Server.Op)) (sched : List Nat) (i : Nat) :
    let s := Mutex.run sem (start Server.init progs) sched
    s.holder = some i →
    ∃ prev op done rem, s.log = prev ++ [(i, op)] ∧ sem op = done ++ rem ∧
      s.shared = runOp done (Server.run cap icap Server.init (prev.map (·.2))) := by
  intro s hh
  have hinv := run_inv sem Server.init sched _ (start_inv sem Server.init progs)
  unfold Mutex.Inv at hinv
  have hs : s = Mutex.run sem (start Server.init progs) sched := rfl
  rw [← hs] at hinv
  rw [hh] at hinv
  obtain ⟨_, prev, op, done, rem, _, _, _, hlog, hop, hsh⟩ := hinv
  exact ⟨prev, op, done, rem, hlog, hop, by rw [hsh, seqResult_eq_run cap icap sem hsem]⟩

/-- Hence the store invariant of Props/C07 (at most `cap` clients, map and heap hold the same
    clients with exact back pointers, 1..`icap` exchanges per client with distinct receive
    stamps, heap order) holds at every quiescent point of every concurrent execution. -/
theorem C07_concurrent_inv (cap icap : Nat) (hcap : 1 ≤ cap) (hic : 1 ≤ icap) (hic2 : icap < 1000000000)
    (sem : Server.Op → Body State) (hsem : ∀ op st, runOp (sem op) st = stepOp cap icap st op)
    (progs : List (List Server.Op)) (sched : List Nat) :
    let s := Mutex.run sem (start Server.init progs) sched
    s.holder = none → C07.Inv cap icap s.shared := by
  intro s hfree
  rw [(C07_linearizable cap icap sem hsem progs sched).2 hfree]
  exact C07_inv_run cap icap hcap hic hic2 _

/-- the simplest splitting: the whole critical section as one micro-step -/
def atomicBody (cap icap : Nat) (op : Server.Op) : Body State := [fun st => stepOp cap icap st op]

theorem atomicBody_sem (cap icap : Nat) (op : Server.Op) (st : State) :
    runOp (atomicBody cap icap op) st = stepOp cap icap st op := rfl

/-- non-vacuity: two goroutines, an interleaved schedule in which goroutine 1 tries to enter
    while goroutine 0 holds the lock (its choice is skipped), both operations end up logged,
    0 before 1, and the mutex is free at the end -/
example :
    let progs : List (List Server.Op) := [[.hr 1 ⟨zero64, zero64, ⟨7, 7⟩⟩ 1700000000000000000 1700000000000000100],
                                          [.hr 2 ⟨zero64, zero64, ⟨8, 8⟩⟩ 1700000000000000200 1700000000000000300]]
    let s := Mutex.run (atomicBody 4 2) (start Server.init progs) [0, 1, 0, 1, 0, 1, 1, 1]
    s.holder = none ∧ s.log.map (·.1) = [0, 1] ∧ s.shared.items.length = 2 := by
  decide

end ScionTime.Props.C07Conc
