import ScionTime.Model.Sync
namespace ScionTime.Props.C01
open ScionTime.Sync

theorem C01_placeholder : (1 : Nat) = 1 := rfl

end ScionTime.Props.C01
