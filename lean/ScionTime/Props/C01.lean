/-
  Props/C01.lean — C01: the per-round clock correction is bounded whatever the sources report.

  Model: Model/Sync.lean (core/sync.Run), floats: Model/F64.lean; helper lemmas: Proofs/C01.lean,
  rounding lemmas: Proofs/F64.lean.

  Reading guide.  `M_ref = refCap c`, `M_peer = peerCap c` are the doubles
  `impact * float64(clk.Drift(SyncInterval))`.  "Float sense" (`FBound M x`) means
  `float64(|x|) <= M` evaluated as the code evaluates it; "exact sense" means `|x| ≤ M` over
  the rationals.  The two coincide for caps below 2^53 ns (104 days); above, `float64(|x|)`
  itself rounds and `|x|` may exceed `M` by less than one ulp (witness below).
-/
import ScionTime.Proofs.C01
import ScionTime.Gen.Sync

namespace ScionTime.Props.C01
open ScionTime.Sync ScionTime.F64

deriving instance DecidableEq for Except

/-! ### pins: structure of `Run` regenerated from /repo on every run (harness/extract/x_c01.go) -/

/-- the start-up panics of `Run`, in source order, are the model's `StartErr` messages -/
theorem C01_pin_startupMessages : Gen.Sync.startupMessages =
    [StartErr.refImpact, .peerImpact, .peerGap, .interval, .timeout, .refCap, .peerCap].map StartErr.msg := by
  decide

/-- the loop body calls `adj.Do` exactly once and `clk.Sleep` exactly once, both as direct
    (unconditional) statements of the loop body -/
theorem C01_pin_oneDoOneSleep :
    Gen.Sync.adjDoCallsInLoop = 1 ∧ Gen.Sync.adjDoUnconditional = 1 ∧
    Gen.Sync.sleepCallsInLoop = 1 ∧ Gen.Sync.sleepUnconditional = 1 := by decide

/-! ### Example configuration (the defaults of timeservice.go: 1.25, 2.5, 50 µs, 500 ms, 1 s;
    drift 10 µs per interval; two reference clocks, one peer) -/

def dflt : Cfg :=
  { refImpact := ofBits 0x3ff4000000000000, peerImpact := ofBits 0x4004000000000000,
    cutoff := 50000, timeout := 500000000, interval := 1000000000, drift := 10000,
    nRef := 2, nPeer := 1 }

example : admissible dflt = true := by decide +kernel
example : WF dflt.refImpact := (WF_ofBits 0x3ff4000000000000 : WF (ofBits 0x3ff4000000000000))
example : refCap dflt = .fin 12500 ∧ peerCap dflt = .fin 25000 := by decide +kernel

/-! ### exactly one correction per round; refused settings hand out nothing -/

theorem C01_runFrom_length (c : Cfg) (h : List RoundInput) :
    ∀ st, (runFrom c st h).length = h.length := by
  induction h with
  | nil => intro st; rfl
  | cons i is ih => intro st; simp only [runFrom, List.length_cons, ih]

/-- an accepted configuration yields exactly one `adj.Do` argument per round -/
theorem C01_one_per_round (c : Cfg) (h : List RoundInput) (ha : admissible c = true) :
    ∃ cs, run c h = .ok cs ∧ cs.length = h.length := by
  unfold admissible at ha
  unfold run
  cases hs : startup c with
  | some e => rw [hs] at ha; exact absurd ha (by simp)
  | none => exact ⟨_, rfl, C01_runFrom_length c h _⟩

/-- a refused configuration panics before the loop: no correction at all -/
theorem C01_refused (c : Cfg) (h : List RoundInput) (ha : admissible c = false) :
    ∃ e, run c h = .error e := by
  unfold admissible at ha
  unfold run
  cases hs : startup c with
  | some e => exact ⟨e, rfl⟩
  | none => rw [hs] at ha; exact absurd ha (by simp)

example : (run dflt [{ ref := [3600000000000, 5], peer := [7] },
                     { ref := [], peer := [90000] }]) = .ok [12500, 12500] := by decide +kernel

/-! ### the clamp: reference-clock contribution -/

/-- structural: the clamp returns its argument, or `time.Duration(±M)` -/
theorem C01_clamp_cases (M : F64) (x : Int64) :
    (F64.gt (f64OfDur (absDur x)) M = false ∧ clamp M x = x) ∨
    (F64.gt (f64OfDur (absDur x)) M = true ∧
      clamp M x = durOfF64 (F64.mul (F64.ofInt (sgn x)) M)) :=
  clamp_cases M x

/-- float sense, always: for every accepted configuration and EVERY int64 offset, the
    reference-clock contribution satisfies `float64(|corr|) <= M_ref`. -/
theorem C01_ref_bound (c : Cfg) (ha : admissible c = true) (x : Int64) :
    FBound (refCap c) (clamp (refCap c) x) :=
  clamp_fbound (WF_mul _ _) ((admissible_iff_literal c).mp ha).2.2.2.2.2.1 x

/-- exact sense, for caps below 2^53 ns: `|corr| ≤ M_ref` over the rationals. -/
theorem C01_ref_bound_exact (c : Cfg) (ha : admissible c = true)
    (h53 : toRat (refCap c) < ((2^53 : Int) : Rat)) (x : Int64) :
    (((clamp (refCap c) x).toInt.natAbs : Int) : Rat) ≤ toRat (refCap c) := by
  obtain ⟨_, _, _, _, _, h6, h7, _, _⟩ := (admissible_iff_literal c).mp ha
  obtain ⟨m, e, hm⟩ := gt_pos_fin h6 h7
  have hW : WF (refCap c) := WF_mul _ _
  rw [e] at hW h53 ⊢
  exact clamp_exact hW hm h53 x

example : clamp (refCap dflt) 12501 = 12500 ∧ clamp (refCap dflt) 12500 = 12500 ∧
    clamp (refCap dflt) (-3600000000000) = -12500 ∧ clamp (refCap dflt) Int64.minValue = -12500 := by
  decide +kernel

/-- The gap above 2^53: with the cap exactly 2^53, the offset 2^53 + 1 is NOT clamped
    (`float64(2^53+1) = 2^53` is not `> 2^53`), so `|corr| = M + 1 > M` in the exact sense
    while the float-sense bound holds; the excess is below one ulp (2) of the cap. -/
example : clamp (ofInt (2^53)) (Int64.ofInt (2^53 + 1)) = Int64.ofInt (2^53 + 1) ∧
    FBound (ofInt (2^53)) (Int64.ofInt (2^53 + 1)) := by
  unfold FBound; decide +kernel

/-! ### the peer contribution: cutoff and clamp -/

/-- a peer offset within the cutoff contributes nothing: `peerClkOk` stays false … -/
theorem C01_cutoff (M : F64) (cutoff x : Int64) (havePeers : Bool) (h : absDur x ≤ cutoff) :
    (peerPart M cutoff havePeers x).2 = false := by
  rw [peerPart_within_cutoff _ h]

/-- … and the correction is then the reference-clock contribution alone (or 0). -/
theorem C01_cutoff_correction (c : Cfg) (haveRefs havePeers : Bool) (refOff peerOff : Int64)
    (h : absDur peerOff ≤ c.cutoff) :
    correction c haveRefs havePeers refOff peerOff =
      if haveRefs then clamp (refCap c) refOff else 0 := by
  unfold correction
  rw [peerPart_within_cutoff _ h]
  cases haveRefs <;> rfl

/-- beyond the cutoff the peer contributes its clamped offset (if peers are configured) -/
theorem C01_peer_beyond_cutoff (M : F64) (cutoff x : Int64) (havePeers : Bool)
    (h : absDur x > cutoff) : peerPart M cutoff havePeers x = (clamp M x, havePeers) :=
  peerPart_beyond_cutoff _ h

/-- float sense: whenever the peer side contributes, `float64(|contribution|) <= M_peer`. -/
theorem C01_peer_bound (c : Cfg) (ha : admissible c = true) (havePeers : Bool) (x : Int64)
    (hok : (peerPart (peerCap c) c.cutoff havePeers x).2 = true) :
    FBound (peerCap c) (peerPart (peerCap c) c.cutoff havePeers x).1 := by
  by_cases hcut : absDur x > c.cutoff
  · rw [peerPart_beyond_cutoff _ hcut]
    exact clamp_fbound (WF_mul _ _) ((admissible_iff_literal c).mp ha).2.2.2.2.2.2.2.1 x
  · unfold peerPart at hok; rw [if_neg hcut] at hok; exact absurd hok (by simp)

/-- exact sense, for a peer cap below 2^53 ns. -/
theorem C01_peer_bound_exact (c : Cfg) (ha : admissible c = true)
    (h53 : toRat (peerCap c) < ((2^53 : Int) : Rat)) (havePeers : Bool) (x : Int64)
    (hok : (peerPart (peerCap c) c.cutoff havePeers x).2 = true) :
    ((((peerPart (peerCap c) c.cutoff havePeers x).1.toInt.natAbs : Int)) : Rat) ≤ toRat (peerCap c) := by
  have hb := C01_peer_bound c ha havePeers x hok
  obtain ⟨_, _, _, _, _, _, _, h8, h9⟩ := (admissible_iff_literal c).mp ha
  obtain ⟨m, e, hm⟩ := gt_pos_fin h8 h9
  rw [e] at hb h53 ⊢
  exact exact_of_FBound h53 hb

example : peerPart (peerCap dflt) dflt.cutoff true 50000 = (50000, false) ∧
    peerPart (peerCap dflt) dflt.cutoff true 50001 = (25000, true) ∧
    peerPart (peerCap dflt) dflt.cutoff true (-50001) = (-25000, true) ∧
    peerPart (peerCap dflt) dflt.cutoff true 25001 = (25001, false) := by decide +kernel

/-! ### combination -/

/-- the `switch`: 0, the reference value, the peer value, or the `Midpoint` of the two -/
theorem C01_combined (c : Cfg) (haveRefs havePeers : Bool) (refOff peerOff : Int64) :
    let r := clamp (refCap c) refOff
    let pp := peerPart (peerCap c) c.cutoff havePeers peerOff
    correction c haveRefs havePeers refOff peerOff =
      match haveRefs, pp.2 with
      | false, false => 0
      | true, false => r
      | false, true => pp.1
      | true, true => midpoint r pp.1 := by
  intro r pp
  unfold correction combine
  cases haveRefs <;> cases h : (peerPart (peerCap c) c.cutoff havePeers peerOff).2 <;> simp [pp, r, h]

/-- `|Midpoint a b| ≤ max |a| |b|` when both are below 2^62 in magnitude (no wrap-around of
    `y - x`); in that range `Midpoint` is `x + (y - x) quot 2` over the integers. -/
theorem C01_midpoint_bound (a b : Int64)
    (ha : a.toInt.natAbs < 2^62) (hb : b.toInt.natAbs < 2^62) :
    (midpoint a b).toInt = a.toInt + (b.toInt - a.toInt).tdiv 2 ∧
    (midpoint a b).toInt.natAbs ≤ max a.toInt.natAbs b.toInt.natAbs :=
  ⟨midpoint_toInt ha hb, midpoint_natAbs_le ha hb⟩

example : midpoint 12500 (-25000) = -6250 ∧ midpoint (-7) 8 = 0 ∧ midpoint 8 (-7) = 1 := by decide

/-- Beyond the hypothesis (a cap of 2^62 ns = 146 years or more) `y - x` wraps: the midpoint
    of 2^62 and −2^62−1 is MaxInt64, far outside both. -/
example : midpoint (Int64.ofInt (2^62)) (Int64.ofInt (-(2^62) - 1)) = Int64.maxValue := by decide

/-- **one round**: for every accepted configuration with caps below 2^62 ns, every state of
    the result slices and every round input, the argument of `adj.Do` satisfies
    `float64(|corr|) <= M_peer` (and `M_ref ≤ M_peer`). -/
theorem C01_round_bound (c : Cfg) (ha : admissible c = true) (hW : WF c.refImpact)
    (h62 : toRat (peerCap c) < ((2^62 : Int) : Rat)) (st : State) (i : RoundInput) :
    FBound (peerCap c) (round c st i).2 := by
  obtain ⟨r, p, d, mr, mp, A⟩ := admissible_real c hW ha
  have hmp : 0 < mp := by have := A.mr_pos; have := A.caps_le; grind
  rw [A.peerCap] at h62; simp only [toRat] at h62
  have hr62 : mr < ((2^62 : Int) : Rat) := by have := A.caps_le; grind
  have hle : F64.le (refCap c) (peerCap c) = true := by
    rw [A.refCap, A.peerCap]; exact le_fin_iff.mpr A.caps_le
  rcases correction_FBound c A.refCap A.peerCap A.mr_pos hmp hr62 h62
      (!st.ref.isEmpty) (!st.peer.isEmpty) (measure st.ref i.ref).2
      (measure st.peer (i.peer ++ (if i.localInTime then [localReferenceClockOffset] else []))).2 with h | h
  · exact FBound_weaken hle h
  · exact h

/-! ### histories -/

/-- **every round of every history** (float sense): the stale content of the result slices
    never matters, because the clamp is applied after the fault-tolerant midpoint to
    whatever int64 comes out of it. -/
theorem C01_history (c : Cfg) (ha : admissible c = true) (hW : WF c.refImpact)
    (h62 : toRat (peerCap c) < ((2^62 : Int) : Rat)) (h : List RoundInput) :
    ∃ cs, run c h = .ok cs ∧ cs.length = h.length ∧ ∀ x ∈ cs, FBound (peerCap c) x := by
  obtain ⟨cs, e, hl⟩ := C01_one_per_round c h ha
  refine ⟨cs, e, hl, ?_⟩
  have : cs = runFrom c (init c) h := by
    unfold run at e
    cases hs : startup c with
    | some err => rw [hs] at e; cases e
    | none => rw [hs] at e; cases e; rfl
  subst this
  exact runFrom_forall c _ (fun st i => C01_round_bound c ha hW h62 st i) h (init c)

/-- the same in the exact sense, for a peer cap below 2^53 ns (104 days):
    `|corr| ≤ M_peer = fl(peerImpact · drift)` in every round of every history. -/
theorem C01_history_exact (c : Cfg) (ha : admissible c = true) (hW : WF c.refImpact)
    (h53 : toRat (peerCap c) < ((2^53 : Int) : Rat)) (h : List RoundInput) :
    ∃ cs, run c h = .ok cs ∧ cs.length = h.length ∧
      ∀ x ∈ cs, ((x.toInt.natAbs : Int) : Rat) ≤ toRat (peerCap c) := by
  have h62 : toRat (peerCap c) < ((2^62 : Int) : Rat) := by
    have : ((2^53 : Int) : Rat) < ((2^62 : Int) : Rat) := by decide +kernel
    grind
  obtain ⟨cs, e, hl, hb⟩ := C01_history c ha hW h62 h
  refine ⟨cs, e, hl, fun x hx => ?_⟩
  have := hb x hx
  obtain ⟨_, _, _, _, _, _, _, h8, h9⟩ := (admissible_iff_literal c).mp ha
  obtain ⟨m, em, hm⟩ := gt_pos_fin h8 h9
  rw [em] at this h53 ⊢
  exact exact_of_FBound h53 this

/-- without peers the reference cap bounds every round -/
theorem C01_history_refs_only (c : Cfg) (ha : admissible c = true) (hn : c.nPeer = 0)
    (h : List RoundInput) :
    ∀ x ∈ runFrom c (init c) h, FBound (refCap c) x := by
  have hg := ((admissible_iff_literal c).mp ha).2.2.2.2.2.1
  have key : ∀ (h : List RoundInput) (st : State), st.peer = [] →
      ∀ x ∈ runFrom c st h, FBound (refCap c) x := by
    intro h
    induction h with
    | nil => intro st _ x hx; simp [runFrom] at hx
    | cons i is ih =>
      intro st hp x hx
      simp only [runFrom, List.mem_cons] at hx
      rcases hx with rfl | hx
      · have e : (round c st i).2 = correction c (!st.ref.isEmpty) (!st.peer.isEmpty)
            (Sync.measure st.ref i.ref).2 (Sync.measure st.peer (i.peer ++
              (if i.localInTime then [localReferenceClockOffset] else []))).2 := rfl
        rw [e, hp, show (!([] : List Int64).isEmpty) = false from rfl, correction_no_peers]
        split
        · exact clamp_fbound (WF_mul _ _) hg _
        · exact FBound_zero hg
      · refine ih _ ?_ x hx
        show (Sync.measure st.peer _).1 = []
        rw [hp]; rfl
  exact key h (init c) (by simp [init, hn])

example : admissible dflt = true ∧ WF dflt.refImpact ∧ toRat (peerCap dflt) < ((2^53 : Int) : Rat) :=
  ⟨by decide +kernel, (WF_ofBits 0x3ff4000000000000 : WF (ofBits 0x3ff4000000000000)), by decide +kernel⟩

/-! ### start-up -/

/-- literal: `admissible` is exactly the conjunction of the negated panic conditions -/
theorem C01_admissible_iff (c : Cfg) : admissible c = true ↔
    F64.gt c.refImpact one = true ∧ F64.gt c.peerImpact one = true ∧
    F64.gt (F64.sub c.peerImpact one) c.refImpact = true ∧
    ¬ c.interval ≤ 0 ∧ ¬ (c.timeout < 0 ∨ c.timeout > c.interval / 2) ∧
    F64.gt (refCap c) fzero = true ∧ refCap c ≠ .inf false ∧
    F64.gt (peerCap c) fzero = true ∧ peerCap c ≠ .inf false :=
  admissible_iff_literal c

/-- over the rationals: an accepted configuration has FINITE factors `r`, `p` with `1 < r`,
    `1 < p`, `r < p − 1` (exactly, not only after rounding), positive interval, timeout in
    `[0, interval/2]`, positive drift, and finite positive caps `mr = fl(r·d) ≤ mp = fl(p·d)`.
    So none of the settings named in the property statement, and no NaN or infinite factor,
    is accepted. -/
theorem C01_admissible_sound (c : Cfg) (hW : WF c.refImpact) (ha : admissible c = true) :
    ∃ r p d mr mp, AdmissibleReal c r p d mr mp :=
  admissible_real c hW ha

/-- The caps are the real products `factor × drift` up to one rounding (relative error at most
    2^-53), and `float64(drift)` is the drift itself up to 2^53 ns: this connects `M_ref`,
    `M_peer` of the theorems above with "impact factor × configured drift × sync interval"
    of the statement (`drift = clk.Drift(SyncInterval)`). -/
theorem C01_cap_is_product (c : Cfg) (hW : WF c.refImpact) (ha : admissible c = true) :
    ∃ r p d mr mp, AdmissibleReal c r p d mr mp ∧
      (mr - r * d).abs ≤ (r * d) / pow2 53 ∧ (mp - p * d).abs ≤ (p * d) / pow2 53 ∧
      (c.drift.toInt ≤ 2^53 → d = (c.drift.toInt : Rat)) := by
  obtain ⟨r, p, d, mr, mp, A⟩ := admissible_real c hW ha
  have hd := drift_d_ge_one A.drift_f A.drift_pos
  exact ⟨r, p, d, mr, mp, A, cap_rel_err A.ref_gt_one hd A.refCap_eq,
    cap_rel_err A.peer_gt_one hd A.peerCap_eq, drift_d_exact A.drift_f A.drift_pos⟩

/-- NaN factors are refused (repaired checks) -/
theorem C01_nan_refused (c : Cfg) (h : c.refImpact = .nan ∨ c.peerImpact = .nan) :
    admissible c = false := by
  cases hh : admissible c with
  | false => rfl
  | true =>
    obtain ⟨h1, h2, _⟩ := (admissible_iff_literal c).mp hh
    rcases h with h | h
    · rw [h] at h1; simp [F64.gt, F64.lt, one_eq] at h1
    · rw [h] at h2; simp [F64.gt, F64.lt, one_eq] at h2

/-- infinite factors are refused (repaired checks) -/
theorem C01_inf_refused (c : Cfg) (b : Bool) (h : c.refImpact = .inf b ∨ c.peerImpact = .inf b) :
    admissible c = false := by
  cases hh : admissible c with
  | false => rfl
  | true =>
    exfalso
    obtain ⟨h1, h2, h3, _, _, h6, h7, h8, h9⟩ := (admissible_iff_literal c).mp hh
    rcases h with h | h
    · rw [h] at h1 h3
      cases b
      · unfold F64.gt at h3; rw [lt_inf_false] at h3; exact absurd h3 (by simp)
      · simp [F64.gt, F64.lt, one_eq] at h1
    · obtain ⟨mp, emp, _⟩ := gt_pos_fin h8 h9
      unfold peerCap at emp; rw [h] at emp
      cases hD : f64OfDur c.drift <;> rw [hD] at emp <;> simp [F64.mul] at emp

/-! ### F14: the prologue as found accepted NaN (and +Inf) factors -/

def nanCfg : Cfg := { dflt with refImpact := .nan, nRef := 1, nPeer := 0 }

/-- `x <= bound → panic` never fires for NaN: the unrepaired prologue accepts the setting,
    the cap is NaN, nothing is ever clamped, and a 1 h offset reaches `adj.Do` unchanged
    (the repaired code hands out 12.5 µs with factor 1.25).  Reproduced on the real code:
    notes/C01-F14-replay.json. -/
theorem C01_F14_old_accepts_nan :
    admissibleOld nanCfg = true ∧ admissible nanCfg = false ∧
    runOld nanCfg [{ ref := [3600000000000], peer := [] }] = .ok [3600000000000] := by
  decide +kernel

theorem C01_F14_old_accepts_inf :
    admissibleOld { dflt with peerImpact := .inf false } = true ∧
    admissible { dflt with peerImpact := .inf false } = false := by
  decide +kernel

/-- on finite well-formed factors with a cap that does not overflow, old and repaired
    prologue agree (the repair only removes NaN / infinities) -/
theorem C01_old_eq_new_of_finite (c : Cfg)
    (h1 : isFinite c.refImpact = true) (h2 : isFinite c.peerImpact = true)
    (h3 : refCap c ≠ .inf false) (h4 : peerCap c ≠ .inf false) (h5 : refCap c ≠ .nan)
    (h6 : peerCap c ≠ .nan) (h7 : F64.sub c.peerImpact one ≠ .nan) :
    startupOld c = startup c := by
  have key : ∀ a b : F64, a ≠ .nan → b ≠ .nan → (!(F64.gt a b)) = F64.le a b := by
    intro a b ha hb
    cases hg : F64.gt a b
    · rw [gt_false_imp_le ha hb hg]; rfl
    · unfold F64.gt at hg
      cases a <;> cases b <;> simp_all [F64.lt, F64.le, toRat] <;> grind
  have n1 : c.refImpact ≠ .nan := by intro h; rw [h] at h1; exact Bool.noConfusion h1
  have n2 : c.peerImpact ≠ .nan := by intro h; rw [h] at h2; exact Bool.noConfusion h2
  have n0 : one ≠ .nan := by rw [one_eq]; simp
  have nz : fzero ≠ .nan := by simp [fzero]
  unfold startupOld startup
  rw [key _ _ n1 n0, key _ _ n2 n0, key _ _ h7 n1, key _ _ h5 nz, key _ _ h6 nz]
  simp [h3, h4]

/-! ### the model's bookkeeping: the result slices keep their length -/

/-! ### Stale entries of the reused result slices (multi-round histories)

`Run` allocates `refClkOffsets` / `peerClkOffsets` once; a source that fails or is late in a round
leaves its slot as an earlier round left it, and `FaultTolerantMidpoint` is taken over the WHOLE
slice. So a failed source keeps voting with an old value. The three statements below say exactly
what that can and cannot do. -/

/-- WHAT the fault-tolerant midpoint of a round is taken over: this round's in-time successes
    followed by the tail `ms[k:]` of the slice as the previous round left it (sorted by that
    round), `k` = number of successes — for every slice content and every list of successes. -/
theorem C01_stale_ftm_input (ms succ : List Int64) (hne : ms ≠ []) (hk : succ.length ≤ ms.length) :
    (Sync.measure ms succ).1 = sortOffsets (succ ++ ms.drop succ.length) ∧
    (Sync.measure ms succ).2 = ftmSorted (sortOffsets (succ ++ ms.drop succ.length)) := by
  have he : ms.isEmpty = false := by cases ms with
    | nil => exact absurd rfl hne
    | cons a as => rfl
  unfold Sync.measure collect
  simp only [he, Bool.false_eq_true, if_false, List.take_of_length_le hk, and_self]

/-- … and when every source of the side answers in time the old content is gone: the round's value
    depends on this round's answers only. -/
theorem C01_no_stale_when_all_answer (ms ms' succ : List Int64) (h : succ.length = ms.length)
    (h' : ms'.length = ms.length) : Sync.measure ms succ = Sync.measure ms' succ := by
  have hc : ∀ m : List Int64, m.length = succ.length → collect m succ = succ := by
    intro m hm
    unfold collect
    simp [hm]
  have e1 : ms.isEmpty = ms'.isEmpty := by
    cases ms <;> cases ms' <;> simp_all
  unfold Sync.measure
  rw [hc ms h.symm, hc ms' (h'.trans h.symm), e1]
  cases ms' with
  | nil =>
    have : ms = [] := by cases ms with
      | nil => rfl
      | cons a as => simp at h'
    subst this; rfl
  | cons a as => rfl

/-- A STALE ENTRY CAN CHANGE THE CORRECTION: same configuration (the defaults), same answers in
    this round (one of the two reference clocks answers 4 µs, the other fails), but the failed
    clock's slot still holds 0 in one history and 12 µs in the other: the corrections are 2 µs and
    8 µs. -/
theorem C01_stale_entry_changes_correction :
    (round { dflt with nPeer := 0 } { ref := [0, 0], peer := [] } { ref := [4000], peer := [] }).2 = 2000 ∧
    (round { dflt with nPeer := 0 } { ref := [0, 12000], peer := [] } { ref := [4000], peer := [] }).2 = 8000 := by
  decide +kernel

/-- … BUT NEVER THE BOUND: whatever the two slices hold (any lengths, any int64 values — every
    possible trace of every earlier round), the correction of the round is within the cap; in
    particular two histories that differ only in what failed sources left behind get corrections
    that may differ but are both bounded. -/
theorem C01_stale_entry_never_changes_bound (c : Cfg) (ha : admissible c = true) (hW : WF c.refImpact)
    (h62 : toRat (peerCap c) < ((2^62 : Int) : Rat)) (st st' : State) (i : RoundInput) :
    FBound (peerCap c) (round c st i).2 ∧ FBound (peerCap c) (round c st' i).2 :=
  ⟨C01_round_bound c ha hW h62 st i, C01_round_bound c ha hW h62 st' i⟩

/-- History form: any two histories followed by the same round input — the last corrections of both
    are within the cap, whatever the earlier rounds (failing, late, wild sources) left in the slices. -/
theorem C01_history_prefix_never_changes_bound (c : Cfg) (ha : admissible c = true) (hW : WF c.refImpact)
    (h62 : toRat (peerCap c) < ((2^62 : Int) : Rat)) (h h' : List RoundInput) (i : RoundInput) :
    (∀ x ∈ runFrom c (init c) (h ++ [i]), FBound (peerCap c) x) ∧
    (∀ x ∈ runFrom c (init c) (h' ++ [i]), FBound (peerCap c) x) :=
  ⟨runFrom_forall c _ (fun st i => C01_round_bound c ha hW h62 st i) _ _,
   runFrom_forall c _ (fun st i => C01_round_bound c ha hW h62 st i) _ _⟩

/-- the two-round histories behind `C01_stale_entry_changes_correction`: round 1 both clocks
    answer (0, 0) resp. (12 µs, 12 µs); round 2 one answers 4 µs, one fails. -/
example :
    runFrom { dflt with nPeer := 0 } (init { dflt with nPeer := 0 })
      [{ ref := [0, 0], peer := [] }, { ref := [4000], peer := [] }] = [0, 2000] ∧
    runFrom { dflt with nPeer := 0 } (init { dflt with nPeer := 0 })
      [{ ref := [12000, 12000], peer := [] }, { ref := [4000], peer := [] }] = [12000, 8000] := by
  decide +kernel

/-- `len(refClkOffsets)` never changes (so `st.ref.isEmpty` is `len(refClks) == 0` forever) -/
theorem C01_measure_length (ms succ : List Int64) : (Sync.measure ms succ).1.length = ms.length := by
  unfold Sync.measure
  split
  · rfl
  · simp only [sortOffsets_length, collect, List.length_append, List.length_take, List.length_drop]
    omega

/-- both indices used by `FaultTolerantMidpoint` are in range on a non-empty slice -/
theorem C01_ftm_indices_lt (n : Nat) (h : 0 < n) : (n - 1) / 3 < n ∧ n - 1 - (n - 1) / 3 < n := by
  omega

end ScionTime.Props.C01
