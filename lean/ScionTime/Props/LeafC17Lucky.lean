/-
  Kernel-checked ties (C17): the lucky-packet filter — `(*LuckyPacketFilter).Do` and `Reset` of
  core/client/filter_flash.go — as regenerated from /repo's Go source on every run
  (Gen/LeafClient.lean; seventh generation of the leaf translator: slices with a capacity —
  `cap`, `s[:n]`, overlapping `copy`, `append` below capacity, `slices.SortFunc` with a
  `cmp.Compare` closure —, struct elements, an `Out` result) is the hand-written model
  `luckyDo` / `luckyReset` of Model/Filters.lean: same window, same returned offset, no panic, and
  never `stuck` (the `append` never reallocates), for every filter as `NewLuckyPacketFilter`
  builds it and `Do` / `Reset` keep it (`WFL`), of capacity at most 12 — the regime in which
  `slices.SortFunc` is the stable insertion sort the model transcribes — and every four instants.
-/
import ScionTime.Gen.LeafClient
import ScionTime.Model.Filters
import ScionTime.Proofs.LeafSlice2
import ScionTime.Props.LeafC17
namespace ScionTime.LeafTieC17Lucky
open ScionTime ScionTime.Gen.Leaf ScionTime.GoLemmas ScionTime.Filters ScionTime.GoSlice ScionTime.Go

/-- view of a stored measurement (the `stamp` field is stored but never read) -/
def meas (m : S_measurement) : Meas := { off := m.off, rtd := m.rtd }

/-- view of a generated filter as the model's: capacity of `state`, `pick`, the live window -/
def lk (f : S_LuckyPacketFilter) : Lucky :=
  { cap := f.state.arr.length, pick := f.pick.toInt.toNat, state := f.state.live.map meas }

/-- a filter as `NewLuckyPacketFilter(cap, pick)` builds it (`1 ≤ pick ≤ cap`, both slices of
    capacity `cap`), in the insertion-sort regime of `slices.SortFunc` -/
structure WFL (f : S_LuckyPacketFilter) : Prop where
  caps : f.luckyPkts.arr.length = f.state.arr.length
  pick1 : 1 ≤ f.pick.toInt
  pickc : f.pick.toInt ≤ f.state.arr.length
  small : f.state.arr.length ≤ 12

theorem clockOffset_eq (a b c d : Int) : ntp_ClockOffset a b c d = clockOffset a b c d := by
  simp only [ntp_ClockOffset, clockOffset, LeafTieC17.sub_eq]

theorem roundTripDelay_eq (a b c d : Int) : ntp_RoundTripDelay a b c d = roundTripDelay a b c d := by
  simp only [ntp_RoundTripDelay, roundTripDelay, LeafTieC17.sub_eq]

theorem insert_view (k : S_measurement → Int64) (k' : Meas → Int64) (hk : ∀ a, k a = k' (meas a))
    (x : S_measurement) (l : List S_measurement) :
    (Slice.insertByKey k x l).map meas = insertBy k' (meas x) (l.map meas) := by
  induction l with
  | nil => rfl
  | cons y ys ih =>
    simp only [Slice.insertByKey, List.map_cons, insertBy, hk]
    split <;> simp [ih]

theorem sort_view (k : S_measurement → Int64) (k' : Meas → Int64) (hk : ∀ a, k a = k' (meas a))
    (l : List S_measurement) : (Slice.sortByKey k l).map meas = sortBy k' (l.map meas) := by
  unfold Slice.sortByKey sortBy
  suffices h : ∀ (l acc : List S_measurement),
      (l.foldl (fun acc x => Slice.insertByKey k x acc) acc).map meas =
        (l.map meas).foldl (fun acc x => insertBy k' x acc) (acc.map meas) by
    simpa using h l []
  intro l
  induction l with
  | nil => intro acc; rfl
  | cons x xs ih => intro acc; simp only [List.foldl_cons, List.map_cons, ih, insert_view k k' hk]

theorem bind_ok {α β : Type} (a : α) (k : α → Out β) : (Out.ok a).bind k = k a := rfl
theorem ofOption_some {α : Type} (c : String) (a : α) : Out.ofOption c (some a) = Out.ok a := rfl
theorem ofStuck_some {α : Type} (a : α) : Out.ofOptionStuck (some a) = Out.ok a := rfl

theorem C17_leaf_LuckyDo (f : S_LuckyPacketFilter) (hw : WFL f) (cTx sRx sTx cRx : Int) :
    ∃ f' v, client_LuckyPacketFilter_Do f cTx sRx sTx cRx = .ok (f', v) ∧
      lk f' = (luckyDo (lk f) ⟨cTx, sRx, sTx, cRx⟩).1 ∧
      some v = (luckyDo (lk f) ⟨cTx, sRx, sTx, cRx⟩).2 ∧ WFL f' := by
  obtain ⟨pick, st, lp⟩ := f
  obtain ⟨hcaps, hp1, hpc, hsm⟩ := hw
  simp only at hcaps hp1 hpc hsm
  have hstok := st.ok
  have hbig : st.arr.length < 4611686018427387904 := by omega
  have hcap0 : ¬ st.arr.length = 0 := by omega
  unfold client_LuckyPacketFilter_Do luckyDo
  simp only [lk, hcap0, if_false]
  have hcapne : (st.cap == 0) = false := by
    rw [beq_eq_false_iff_ne]; intro h
    have := cap_toInt st hbig; rw [h] at this
    have h0 : (0 : Int64).toInt = 0 := by decide
    omega
  rw [if_neg (by simp [hcapne])]
  -- 1. the window drops its oldest element when full
  have step1 : ∃ st1 : Slice S_measurement,
      (if (st.len' == st.cap) = true then
          (Out.ofOption "slice" (st.copy? 0 st 1)).bind fun _s3 =>
            (Out.ofOption "slice" (_s3.to? (_s3.len' - 1))).bind fun _s4 =>
              Out.ok ({ pick := pick, state := _s4, luckyPkts := lp } : S_LuckyPacketFilter)
        else Out.ok { pick := pick, state := st, luckyPkts := lp }) =
        Out.ok { pick := pick, state := st1, luckyPkts := lp } ∧
      st1.arr.length = st.arr.length ∧ st1.len < st.arr.length ∧
      st1.live = (if st.len = st.arr.length then st.live.drop 1 else st.live) := by
    by_cases hfull : st.len = st.arr.length
    · have hb : (st.len' == st.cap) = true := by simp [Slice.len', Slice.cap, hfull]
      rw [if_pos hb, if_pos hfull]
      obtain ⟨s3, h3, h3l, h3c, h3t⟩ := copy_shift st (by omega) hbig
      have h3len : s3.len'.toInt = s3.len := len_toInt s3 (by omega)
      have h1 : (1 : Int64).toInt = 1 := by decide
      have hsub : (s3.len' - 1).toInt = (s3.len - 1 : Nat) := by
        rw [toInt_sub_of_fits _ _ (by omega) (by omega), h3len, h1]; omega
      obtain ⟨s4, h4, h4a, h4l⟩ := to?_some s3 (s3.len' - 1) (s3.len - 1) hsub (by omega)
      refine ⟨s4, ?_, by rw [h4a, h3c], by rw [h4l, h3l]; omega, ?_⟩
      · simp only [h3, ofOption_some, bind_ok, h4]
      · rw [live_of s4 s3.arr (s3.len - 1) h4a h4l, h3l, h3t]
    · have hb : ¬ (st.len' == st.cap) = true := by
        intro h
        have := eq_of_beq h
        have h1 := len_toInt st hbig
        have h2 := cap_toInt st hbig
        rw [this] at h1; omega
      rw [if_neg hb, if_neg hfull]
      exact ⟨st, rfl, rfl, by omega, rfl⟩
  obtain ⟨st1, h1, h1c, h1l, h1v⟩ := step1
  rw [h1, bind_ok]
  simp only []
  -- 2. append below capacity
  obtain ⟨s5, h5, h5v, h5l, h5c⟩ := append?_some st1
    ({ stamp := cTx, off := ntp_ClockOffset cTx sRx sTx cRx, rtd := ntp_RoundTripDelay cTx sRx sTx cRx } : S_measurement)
    (by omega)
  simp only [h5, ofStuck_some, bind_ok]
  -- 3. luckyPkts = a copy of the window
  have h5len : s5.len'.toInt = s5.len := len_toInt s5 (by omega)
  obtain ⟨s6, h6, h6a, h6l⟩ := to?_some lp s5.len' s5.len h5len (by omega)
  simp only [h6, ofOption_some, bind_ok]
  obtain ⟨s7, h7, h7l, h7c, h7v⟩ := copy_all s6 s5 h6l
  simp only [h7, ofOption_some, bind_ok]
  -- the window as the model has it
  have hwin : s5.live.map meas = luckyPush { cap := st.arr.length, pick := pick.toInt.toNat, state := st.live.map meas }
      (Sample.meas { cTx := cTx, sRx := sRx, sTx := sTx, cRx := cRx }) := by
    rw [h5v, h1v]
    unfold luckyPush Sample.meas
    simp only [List.map_append, List.map_cons, List.map_nil, List.length_map, live_length, meas,
      clockOffset_eq, roundTripDelay_eq]
    by_cases hfull : st.len = st.arr.length
    · simp [hfull]
    · simp [hfull]
  have h6c : s6.arr.length = lp.arr.length := by rw [h6a]
  have h7ok := s7.ok
  have h5ok := s5.ok
  have h7len : s7.len'.toInt = s7.len := len_toInt s7 (by omega)
  have h7n : s7.len = s5.len := by omega
  -- 4. the `pick` lowest-delay samples
  have step4 : ∃ s11 : Slice S_measurement,
      (if decide (pick < s7.len') = true then
          (Out.ofOptionStuck (Slice.sortBy? (fun a => a.rtd) s7)).bind fun _s10 =>
            (Out.ofOption "slice" (_s10.to? pick)).bind fun _s11 =>
              Out.ok ({ pick := pick, state := s5, luckyPkts := _s11 } : S_LuckyPacketFilter)
        else Out.ok { pick := pick, state := s5, luckyPkts := s7 }) =
        Out.ok { pick := pick, state := s5, luckyPkts := s11 } ∧
      s11.arr.length = st.arr.length ∧ 1 ≤ s11.len ∧
      s11.live.map meas = luckySelect pick.toInt.toNat (s5.live.map meas) := by
    unfold luckySelect
    simp only [List.length_map, live_length]
    by_cases hlt : pick < s7.len'
    · have hlt' : pick.toInt.toNat < s5.len := by
        have := Int64.lt_iff_toInt_lt.mp hlt; omega
      rw [if_pos (by simpa using hlt), if_pos hlt']
      obtain ⟨s10, h10, h10l, h10c, h10v⟩ := sortBy?_some (fun a => a.rtd) s7 (by omega)
      have h10ok := s10.ok
      obtain ⟨s11, h11, h11a, h11l⟩ := to?_some s10 pick pick.toInt.toNat (by omega) (by omega)
      refine ⟨s11, ?_, by rw [h11a]; omega, by omega, ?_⟩
      · simp only [h10, ofStuck_some, bind_ok, h11, ofOption_some]
      · rw [live_of s11 s10.arr _ h11a h11l]
        have : s10.arr.take pick.toInt.toNat = s10.live.take pick.toInt.toNat := by
          simp only [Slice.live, List.take_take]
          congr 1; omega
        rw [this, h10v, h7v, List.map_take, sort_view (fun a => a.rtd) Meas.rtd (fun _ => rfl)]
    · have hlt' : ¬ pick.toInt.toNat < s5.len := by
        intro h; apply hlt; apply Int64.lt_iff_toInt_lt.mpr; omega
      rw [if_neg (by simpa using hlt), if_neg hlt']
      exact ⟨s7, rfl, by omega, by omega, by rw [h7v]⟩
  obtain ⟨s11, h11, h11c, h11p, h11v⟩ := step4
  rw [h11, bind_ok]
  simp only []
  have h11ok := s11.ok
  -- 5. sorted by offset
  obtain ⟨s12, h12, h12l, h12c, h12v⟩ := sortBy?_some (fun a => a.off) s11 (by omega)
  simp only [h12, ofStuck_some, bind_ok]
  have hoffs : (sortBy Meas.off (luckySelect pick.toInt.toNat (s5.live.map meas))).map Meas.off =
      s12.live.map (fun m => m.off) := by
    rw [← h11v, ← sort_view (fun a => a.off) Meas.off (fun _ => rfl), ← h12v, List.map_map]
    rfl
  rw [← hwin, hoffs]
  -- 6. the median
  have hn := live_length s12
  have h12len : s12.len'.toInt = s12.len := len_toInt s12 (by omega)
  have h2 : (2 : Int64).toInt = 2 := by decide
  have h1i : (1 : Int64).toInt = 1 := by decide
  have h0i : (0 : Int64).toInt = 0 := by decide
  have hdiv : (s12.len' / 2).toInt = (s12.len / 2 : Nat) := by
    rw [toInt_div_pos _ _ (by omega), h12len, h2, Int.tdiv_eq_ediv_of_nonneg (by omega)]; omega
  have hmod : (s12.len' % 2).toInt = (s12.len % 2 : Nat) := by
    rw [Int64.toInt_mod, h12len, h2, Int.tmod_eq_emod_of_nonneg (by omega)]; omega
  have hwf : WFL { pick := pick, state := s5, luckyPkts := s12 } :=
    ⟨by simp only; omega, hp1, by simp only; omega, by simp only; omega⟩
  have hst : (lk { pick := pick, state := s5, luckyPkts := s12 }) =
      { cap := st.arr.length, pick := pick.toInt.toNat, state := s5.live.map meas } := by
    simp only [lk]; congr 1; omega
  unfold medianI64
  simp only [List.length_map, hn]
  by_cases hodd : s12.len % 2 = 0
  · -- even
    have hb : ¬ ((s12.len' % 2 != 0) = true) := by
      intro h
      have := (bne_iff_ne).mp h
      apply this; apply Int64.toInt_inj.mp; rw [hmod, h0i]; omega
    rw [if_neg hb, if_neg (by omega)]
    have hi1 : (s12.len' / 2 - 1).toInt = (s12.len / 2 - 1 : Nat) := by
      rw [toInt_sub_of_fits _ _ (by omega) (by omega), hdiv, h1i]; omega
    have hk1 : s12.len / 2 - 1 < s12.len := by omega
    have hk2 : s12.len / 2 < s12.len := by omega
    rw [get?_live s12 _ _ hi1 hk1, get?_live s12 _ _ hdiv hk2]
    have e1 : s12.live[s12.len / 2 - 1]? = some (s12.live[s12.len / 2 - 1]'(by omega)) := List.getElem?_eq_getElem _
    have e2 : s12.live[s12.len / 2]? = some (s12.live[s12.len / 2]'(by omega)) := List.getElem?_eq_getElem _
    simp only [e1, e2, ofOption_some, bind_ok, List.getElem?_map, Option.map_some]
    refine ⟨_, _, rfl, hst, ?_, hwf⟩
    rw [if_neg (by omega)]
    rfl
  · -- odd
    have hb : (s12.len' % 2 != 0) = true := by
      apply bne_iff_ne.mpr
      intro h
      have := congrArg Int64.toInt h
      rw [hmod, h0i] at this; omega
    rw [if_pos hb, if_pos (by omega)]
    have hk2 : s12.len / 2 < s12.len := by omega
    rw [get?_live s12 _ _ hdiv hk2]
    have e2 : s12.live[s12.len / 2]? = some (s12.live[s12.len / 2]'(by omega)) := List.getElem?_eq_getElem _
    simp only [e2, ofOption_some, bind_ok, List.getElem?_map, Option.map_some]
    exact ⟨_, _, rfl, hst, rfl, hwf⟩

/-- the zero filter `&LuckyPacketFilter{}` (capacity 0) hands the plain clock offset through -/
theorem C17_leaf_LuckyDo_zero (f : S_LuckyPacketFilter) (h0 : f.state.arr.length = 0) (cTx sRx sTx cRx : Int) :
    client_LuckyPacketFilter_Do f cTx sRx sTx cRx = .ok (f, clockOffset cTx sRx sTx cRx) ∧
      (luckyDo (lk f) ⟨cTx, sRx, sTx, cRx⟩) = (lk f, some (clockOffset cTx sRx sTx cRx)) := by
  unfold client_LuckyPacketFilter_Do luckyDo
  have : (f.state.cap == 0) = true := by simp [Slice.cap, h0]
  simp only [this, if_true, clockOffset_eq, lk, h0]
  exact ⟨trivial, trivial⟩

/-- **Reset** empties the window and keeps capacity and `pick` -/
theorem C17_leaf_LuckyReset (f : S_LuckyPacketFilter) :
    ∃ f', client_LuckyPacketFilter_Reset f = some f' ∧ lk f' = luckyReset (lk f) ∧
      f'.luckyPkts = f.luckyPkts ∧ f'.state.arr = f.state.arr := by
  unfold client_LuckyPacketFilter_Reset
  have h0 : (0 : Int64).toInt = (0 : Nat) := by decide
  obtain ⟨s1, h1, h1a, h1l⟩ := to?_some f.state 0 0 h0 (by omega)
  refine ⟨{ f with state := s1 }, by rw [h1]; rfl, ?_, rfl, h1a⟩
  simp only [lk, luckyReset, h1a, live_of s1 f.state.arr 0 h1a h1l, List.take_zero, List.map_nil]

/-- the hypotheses are met and the branches occur, through the generated definition: a filter of
    capacity 3 picking 2, fed four samples (the fourth evicts the first; offsets 500, 1000, 1500, 100
    with delays 2000, 1000, 3000, 4000) -/
def fresh3 : S_LuckyPacketFilter :=
  { pick := 2, state := Slice.make ⟨0, 0, 0⟩ 0 3 (by decide), luckyPkts := Slice.make ⟨0, 0, 0⟩ 0 3 (by decide) }

example : WFL fresh3 := ⟨rfl, by decide, by decide, by decide⟩

def feed (f : S_LuckyPacketFilter) (xs : List (Int × Int × Int × Int)) : List (Option Int64) × Nat :=
  match xs with
  | [] => ([], f.state.len)
  | (a, b, c, d) :: rest =>
    match client_LuckyPacketFilter_Do f a b c d with
    | .ok (f', v) => let r := feed f' rest; (some v :: r.1, r.2)
    | _ => ([none], 0)

example : feed fresh3 [(0, 1500, 1500, 2000), (0, 1500, 1500, 1000), (0, 3000, 3000, 3000), (0, 2100, 2100, 4000)] =
    ([some 500, some 750, some 750, some 1250], 3) := by decide

end ScionTime.LeafTieC17Lucky
