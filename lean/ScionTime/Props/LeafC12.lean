/-
  Kernel-checked tie (C12): (*ntske.Key).IsValidAt as regenerated from /repo's Go source on
  every run (Gen/Leaf.lean) is the model's `Key.validAt`, for every key and instant.
-/
import ScionTime.Gen.Leaf
import ScionTime.Model.Provider
namespace ScionTime.LeafTieC12
open ScionTime ScionTime.Gen.Leaf

/-- view of a generated key (ID and validity window; the secret bytes are outside the subset) -/
def key (k : S_Key) : Provider.Key := { id := k.ID.toInt, nb := k.Validity.NotBefore, na := k.Validity.NotAfter }

theorem C12_leaf_IsValidAt (k : S_Key) (t : Int) :
    ntske_Key_IsValidAt k t = Provider.Key.validAt (key k) t := by
  unfold ntske_Key_IsValidAt Provider.Key.validAt key Go.Time.before Go.Time.after
  by_cases h1 : t < k.Validity.NotBefore <;> by_cases h2 : k.Validity.NotAfter < t <;> simp [h1, h2]

/-- both verdicts occur: inside the window, before it, after it -/
example : ntske_Key_IsValidAt { ID := 1, Validity := { NotBefore := 10, NotAfter := 20 } } 10 = true ∧
    ntske_Key_IsValidAt { ID := 1, Validity := { NotBefore := 10, NotAfter := 20 } } 9 = false ∧
    ntske_Key_IsValidAt { ID := 1, Validity := { NotBefore := 10, NotAfter := 20 } } 21 = false := by decide

end ScionTime.LeafTieC12
