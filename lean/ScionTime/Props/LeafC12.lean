/-
  Kernel-checked ties (C12): the key provider of net/ntske/provider.go — `(*Key).IsValidAt`,
  `(*Provider).generateNext`, `(*Provider).Get`, `(*Provider).Current` — as regenerated from /repo's
  Go source on every run (Gen/Leaf.lean, Gen/LeafNtske.lean; seventh generation of the leaf
  translator: Go maps, the delete-while-ranging idiom, byte slices, crypto/rand as a stream,
  `time.Now()` as one parameter per call site, struct literals with zero-valued fields, nested
  field assignment on locals, multiple results, `if` with an init statement, calls of methods that
  update their receiver and may panic) is the hand-written model of Model/Provider.lean: for every
  provider state, clock reading(s) and random stream.

  The model's state is a list of keys; the Go map is keyed by an `int` next to the key's own `ID`
  field. `WF` says the two agree (`p.keys[id].ID == id`), which `generateNext` establishes for the
  entry it writes and keeps for the others (`C12_leaf_generateNext_wf`).
-/
import ScionTime.Gen.LeafNtske
import ScionTime.Model.Provider
import ScionTime.Proofs.Provider
import ScionTime.Props.C12
import ScionTime.Proofs.GoPrelude
namespace ScionTime.LeafTieC12
open ScionTime ScionTime.Gen.Leaf ScionTime.GoLemmas

/-- view of a generated key (ID and validity window; the secret bytes are not in the model) -/
def key (k : S_Key) : Provider.Key := { id := k.ID.toInt, nb := k.Validity.NotBefore, na := k.Validity.NotAfter }

theorem C12_leaf_IsValidAt (k : S_Key) (t : Int) :
    ntske_Key_IsValidAt k t = Provider.Key.validAt (key k) t := by
  unfold ntske_Key_IsValidAt Provider.Key.validAt key Go.Time.before Go.Time.after
  by_cases h1 : t < k.Validity.NotBefore <;> by_cases h2 : k.Validity.NotAfter < t <;> simp [h1, h2]

/-- both verdicts occur: inside the window, before it, after it -/
example : ntske_Key_IsValidAt { ID := 1, Value := [], Validity := { NotBefore := 10, NotAfter := 20 } } 10 = true ∧
    ntske_Key_IsValidAt { ID := 1, Value := [], Validity := { NotBefore := 10, NotAfter := 20 } } 9 = false ∧
    ntske_Key_IsValidAt { ID := 1, Value := [], Validity := { NotBefore := 10, NotAfter := 20 } } 21 = false := by decide

/-- view of a generated provider as the model's state -/
def st (p : S_Provider) : Provider.State :=
  { keys := p.keys.entries.map (fun e => key e.2), currentId := p.currentID.toInt, generatedAt := p.generatedAt }

/-- every map entry is filed under its key's own ID -/
def WF (p : S_Provider) : Prop := ∀ e ∈ p.keys.entries, e.1 = e.2.ID

theorem zero_key : key { ID := 0, Value := [], Validity := { NotBefore := Go.Time.zero, NotAfter := Go.Time.zero } } =
    Provider.zeroKeyGo := rfl

theorem find_view (l : List (Int64 × S_Key)) (hwf : ∀ e ∈ l, e.1 = e.2.ID) (id : Int64) :
    Provider.find (l.map (fun e => key e.2)) id.toInt = (l.find? (fun e => e.1 == id)).map (fun e => key e.2) := by
  unfold Provider.find
  induction l with
  | nil => rfl
  | cons e l ih =>
    have he := hwf e List.mem_cons_self
    have ih := ih (fun e' h' => hwf e' (List.mem_cons_of_mem _ h'))
    simp only [List.map_cons, List.find?_cons]
    have : ((key e.2).id == id.toInt) = (e.1 == id) := by
      rw [he]; simp only [key]
      by_cases h : e.2.ID = id
      · subst h; simp
      · have h' : ¬ e.2.ID.toInt = id.toInt := fun hh => h (Int64.toInt_inj.mp hh)
        rw [beq_eq_false_iff_ne.mpr h, beq_eq_false_iff_ne.mpr h']
    rw [this]
    cases hc : (e.1 == id)
    · simp only [ih]
    · rfl

theorem get?_view (p : S_Provider) (hwf : WF p) (id : Int64) :
    (p.keys.get? id).map key = Provider.find (st p).keys id.toInt := by
  unfold st Go.Map.get?
  rw [find_view _ hwf]
  cases List.find? (fun e => e.1 == id) p.keys.entries <;> rfl

/-- pruning: the delete-while-ranging loop is the model's `filter` -/
theorem filter_view (m : Go.Map Int64 S_Key) (t : Int) :
    (Go.Map.filter (fun _ k => !(!(ntske_Key_IsValidAt k t))) m).entries.map (fun e => key e.2) =
      (m.entries.map (fun e => key e.2)).filter (fun k => k.validAt t) := by
  unfold Go.Map.filter
  simp only [List.filter_map, Bool.not_not]
  congr 1
  apply List.filter_congr
  intro e _
  simp [C12_leaf_IsValidAt]

theorem i64_max : (9223372036854775807 : Int64).toInt = 9223372036854775807 := by decide
theorem i64_succ (x : Int64) (h : x ≠ 9223372036854775807) : (x + 1).toInt = x.toInt + 1 := by
  have h1 : x.toInt ≠ 9223372036854775807 := fun hh => h (Int64.toInt_inj.mp (by rw [hh, i64_max]))
  have hu := Int64.toInt_lt x
  have hl := Int64.le_toInt x
  have : (1 : Int64).toInt = 1 := by decide
  rw [toInt_add_of_fits] <;> omega

theorem randRead_ok (rnd : List UInt8) (h : 32 ≤ rnd.length) :
    Go.randRead rnd (Go.makeBytes 32) = (rnd.take 32, rnd.drop 32, 32, false) := by
  unfold Go.randRead Go.makeBytes
  simp only [List.length_replicate]
  rw [if_pos h]
  rfl

/-- **generateNext** is the model's `generateNextGo`: same pruning, same overflow panic, same
    new id, window and map update; the new key's bytes are the next 32 of the random stream,
    which is handed back without them. Hypotheses: the map is filed by key ID; the reader
    delivers (crypto/rand always does). -/
theorem C12_leaf_generateNext (p : S_Provider) (hwf : WF p) (rnd : List UInt8) (h32 : 32 ≤ rnd.length) (t : Int) :
    (ntske_Provider_generateNext p rnd t).map (fun r => (st r.1, r.2)) =
      (Provider.generateNextGo Provider.std (st p) t).map (fun s => (s, rnd.drop 32)) := by
  unfold ntske_Provider_generateNext Provider.generateNextGo
  simp only [randRead_ok rnd h32]
  by_cases hmax : p.currentID = 9223372036854775807
  · have : (st p).currentId = Provider.maxInt := by simp [st, hmax, Provider.maxInt, i64_max]
    simp [hmax, this]
  · have hne : ¬ (st p).currentId = Provider.maxInt := by
      intro hh; apply hmax; apply Int64.toInt_inj.mp; rw [i64_max]; exact hh
    have hbeq : (p.currentID == 9223372036854775807) = false := by simp [hmax]
    simp only [hbeq, Bool.false_eq_true, if_false, hne, bne_self_eq_false, Option.map_some]
    simp only [Option.some.injEq, Prod.mk.injEq, and_true, st, Provider.State.mk.injEq]
    refine ⟨?_, i64_succ _ hmax⟩
    simp only [Go.Map.set, Go.Map.erase, List.map_cons]
    have hk : ∀ v : List UInt8, key ({ ID := p.currentID + 1, Value := v, Validity := { NotBefore := t, NotAfter := Go.Time.add t 259200000000000 } } : S_Key) =
        ({ id := p.currentID.toInt + 1, nb := t, na := t + Provider.std.validity } : Provider.Key) := by
      intro v
      simp only [key, i64_succ _ hmax, Go.Time.add, Provider.std]
      congr 1
    rw [hk]
    congr 1
    rw [← filter_view]
    unfold Go.Map.filter
    simp only [List.filter_map, List.filter_filter]
    congr 1
    apply List.filter_congr
    intro e he
    have hid := hwf e he
    simp only [Function.comp, key, Bool.not_not]
    rw [hid]
    by_cases h : e.2.ID = p.currentID + 1
    · simp [h, i64_succ _ hmax]
    · have : ¬ e.2.ID.toInt = p.currentID.toInt + 1 := by
        intro hh; apply h; apply Int64.toInt_inj.mp; rw [i64_succ _ hmax]; exact hh
      rw [beq_eq_false_iff_ne.mpr h, beq_eq_false_iff_ne.mpr this]


/-- `generateNext` keeps the map filed by key ID, and the new current key carries the next 32
    bytes of the random stream -/
theorem C12_leaf_generateNext_wf (p : S_Provider) (hwf : WF p) (rnd : List UInt8) (h32 : 32 ≤ rnd.length) (t : Int)
    (p' : S_Provider) (rnd' : List UInt8) (h : ntske_Provider_generateNext p rnd t = some (p', rnd')) :
    WF p' ∧ (p'.keys.get? p'.currentID).map (·.Value) = some (rnd.take 32) ∧ rnd' = rnd.drop 32 := by
  unfold ntske_Provider_generateNext at h
  simp only [randRead_ok rnd h32] at h
  by_cases hmax : p.currentID = 9223372036854775807
  · simp [hmax] at h
  · have hbeq : (p.currentID == 9223372036854775807) = false := by simp [hmax]
    simp only [hbeq, Bool.false_eq_true, if_false, bne_self_eq_false, Option.some.injEq, Prod.mk.injEq] at h
    obtain ⟨rfl, rfl⟩ := h
    refine ⟨?_, ?_, rfl⟩
    · intro e he
      simp only [Go.Map.set, Go.Map.erase, Go.Map.filter, List.mem_cons] at he
      rcases he with rfl | he
      · rfl
      · exact hwf e (List.mem_filter.mp (List.mem_filter.mp he).1).1
    · simp [Go.Map.get?, Go.Map.set]

/-- **Get** is the model's `getGo`: `(Key{}, false)` for an id without entry or with an expired
    one, `(key, true)` otherwise -/
theorem C12_leaf_Get (p : S_Provider) (hwf : WF p) (id : Int64) (t : Int) :
    (key (ntske_Provider_Get p id t).1, (ntske_Provider_Get p id t).2) = Provider.getGo (st p) id.toInt t := by
  unfold ntske_Provider_Get Provider.getGo Go.Map.get2
  rw [← get?_view p hwf]
  cases hg : p.keys.get? id with
  | none => simp [zero_key]
  | some k =>
    simp only [Option.map_some, Bool.not_true, Bool.false_eq_true, if_false, C12_leaf_IsValidAt]
    cases hv : (key k).validAt t <;> simp [zero_key]

theorem getD_view (p : S_Provider) (hwf : WF p) (id : Int64) (z : S_Key) (hz : key z = Provider.zeroKeyGo) :
    key (p.keys.getD id z) = (Provider.find (st p).keys id.toInt).getD Provider.zeroKeyGo := by
  unfold Go.Map.getD
  rw [← get?_view p hwf]
  cases p.keys.get? id <;> simp [hz]

/-- **Current** is the model's `currentGo`: same rotation test on the first clock reading, same
    `generateNext` on the second, same key handed out; `none` = the overflow panic -/
theorem C12_leaf_Current (p : S_Provider) (hwf : WF p) (rnd : List UInt8) (h32 : 32 ≤ rnd.length) (t1 t2 : Int) :
    (ntske_Provider_Current p rnd t1 t2).map (fun r => (st r.1, key r.2.2)) =
      Provider.currentGo Provider.std (st p) t1 t2 := by
  unfold ntske_Provider_Current Provider.currentGo
  have hz := zero_key
  simp only [C12_leaf_IsValidAt, getD_view p hwf _ _ hz]
  have hcond : Go.Time.before (Go.Time.add p.generatedAt 86400000000000) t1 =
      decide ((st p).generatedAt + Provider.std.renewal < t1) := by
    simp only [Go.Time.before, Go.Time.add, st, Provider.std]
    congr 1
  rw [hcond]
  have hcur : (st p).currentId = p.currentID.toInt := rfl
  rw [hcur]
  split
  · -- renewal
    have hgn := C12_leaf_generateNext p hwf rnd h32 t2
    cases hg : ntske_Provider_generateNext p rnd t2 with
    | none =>
      rw [hg] at hgn
      simp only [Option.map_none] at hgn
      have : Provider.generateNextGo Provider.std (st p) t2 = none := by
        cases hh : Provider.generateNextGo Provider.std (st p) t2 with
        | none => rfl
        | some _ => rw [hh] at hgn; simp at hgn
      simp [this]
    | some r =>
      obtain ⟨p', rnd'⟩ := r
      rw [hg] at hgn
      obtain ⟨hwf', _, _⟩ := C12_leaf_generateNext_wf p hwf rnd h32 t2 p' rnd' hg
      cases hh : Provider.generateNextGo Provider.std (st p) t2 with
      | none => rw [hh] at hgn; simp at hgn
      | some s' =>
        rw [hh] at hgn
        simp only [Option.map_some, Option.some.injEq, Prod.mk.injEq] at hgn
        simp only [Option.bind_some, Option.map_some, getD_view p' hwf' _ _ hz, hgn.1]
        have : p'.currentID.toInt = s'.currentId := by rw [← hgn.1]; rfl
        rw [this]
  · simp only [Option.bind_some, Option.map_some]
    rw [getD_view p hwf _ _ hz]

/-! ### the methods as the code has them are the state machine's on every reachable state -/

open Provider in
theorem generateNextGo_eq (P : Params) (s : State) (t : Int) (hids : ∀ k ∈ s.keys, k.id ≤ s.currentId)
    (hmax : s.currentId ≠ maxInt) : generateNextGo P s t = some (generateNext P s t) := by
  unfold generateNextGo generateNext
  simp only [hmax, if_false, Option.some.injEq, State.mk.injEq, and_true, List.cons.injEq, true_and]
  apply List.filter_eq_self.mpr
  intro k hk
  have := hids k (List.mem_filter.mp hk).1
  simp only [Bool.not_eq_eq_eq_not, Bool.not_true, beq_eq_false_iff_ne, ne_eq]
  omega

open Provider in
/-- On every state the provider reaches (`Reach`: any history of `Current`/`Get` calls with
    non-decreasing clock readings) whose id counter has not hit `math.MaxInt`, `Current` as the
    code has it does not panic and is the state machine's `current`. -/
theorem C12_leaf_current_is_model {P : Params} {t0 now : Int} {s : State} (hr : Reach P t0 now s)
    (hmax : s.currentId ≠ maxInt) (t1 t2 : Int) :
    currentGo P s t1 t2 = some (current P s t1 t2) := by
  have hi := reach_inv hr
  obtain ⟨k0, rest0, hk, hid, hnb⟩ := hi.head
  have hf := find_of_mem hi.sorted (k := k0) (by rw [hk]; exact List.mem_cons_self)
  rw [hid] at hf
  unfold currentGo current needsRenewal
  simp only [hf, Option.getD_some]
  split
  · rw [generateNextGo_eq P s t2 (inv_ids_le hi) hmax]
    simp only [Option.map_some, Option.some.injEq, Prod.mk.injEq, true_and]
    have : (find (generateNext P s t2).keys (generateNext P s t2).currentId) =
        some { id := s.currentId + 1, nb := t2, na := t2 + P.validity } := by
      simp [generateNext, find]
    rw [this]; rfl
  · simp only [hf, Option.getD_some]

open Provider in
/-- … and `Get` as the code has it is the state machine's `get` (an `ok` flag instead of an option) -/
theorem C12_leaf_get_is_model (s : State) (id t : Int) :
    (if (getGo s id t).2 then some (getGo s id t).1 else none) = Provider.get s id t := by
  unfold getGo Provider.get
  cases find s.keys id with
  | none => rfl
  | some k => simp only; split <;> simp

open Provider in
/-- with /repo's constants the overflow panic is out of reach on every history shorter than
    2^62 ns (146 years; the id counter is then below 53 376) — so on those histories the code's
    `Current` is the state machine's, by `C12_leaf_current_is_model` -/
theorem C12_leaf_no_overflow {t0 now : Int} {s : State} (hr : Reach std t0 now s)
    (hspan : now - t0 < 4611686018427387904) : s.currentId ≠ maxInt := by
  have h := C12.C12_id_bound (P := std) (by decide) hr
  simp only [std] at h
  unfold maxInt
  omega

/-- the hypotheses are met and all branches occur: a provider holding key 7 (valid 10..20) and
    a stream of 40 bytes — `Get` finds it inside the window only; `Current` at 15 keeps it, at 25
    rotates to key 8 carrying the first 32 bytes of the stream; at `math.MaxInt` rotation panics -/
def exProv (id : Int64) : S_Provider :=
  { keys := (Go.Map.empty).set id { ID := id, Value := [], Validity := { NotBefore := 10, NotAfter := 20 } },
    currentID := id, generatedAt := 10 }

example : WF (exProv 7) := by
  intro e he; simp [exProv, Go.Map.set, Go.Map.erase, Go.Map.filter, Go.Map.empty] at he; subst he; rfl
example : (ntske_Provider_Get (exProv 7) 7 15).2 = true ∧ (ntske_Provider_Get (exProv 7) 7 21).2 = false ∧
    (ntske_Provider_Get (exProv 7) 8 15).2 = false := by decide
example : (ntske_Provider_Current (exProv 7) (List.replicate 40 5) 15 16).map (fun r => (r.1.currentID, r.2.2.ID)) = some (7, 7) := by
  decide
example : (ntske_Provider_Current (exProv 7) (List.replicate 40 5) 25 26).map
    (fun r => (r.1.currentID, r.2.2.ID, r.2.2.Value.length, r.2.1.length, r.2.2.Validity.NotAfter)) =
      some (8, 8, 32, 8, 26 + 259200000000000) := by decide
example : ntske_Provider_Current (exProv 9223372036854775807) (List.replicate 40 5) 25 26 = none := by decide

end ScionTime.LeafTieC12
