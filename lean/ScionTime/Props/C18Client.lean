/-
  C18, client side — "the CSPTP offset and mean-path-delay formulas recover any true offset and
  symmetric delay exactly" is about what a measurement RETURNS, so it needs the client's use of
  the formulas (core/client/client_csptp_ip.go, the tail of MeasureClockOffset; model:
  `CsptpClient.evaluate` in Model/CsptpClient.lean), not only the formulas (Props/C18.lean).

  * the returned offset and the mean path delay are the exact formulas on (t0, t1, t2, t3, t1Corr,
    t3Corr) and do not depend on the announced UTC offset or its valid flag;
  * end to end: a server ahead by θ behind a symmetric delay d, with arbitrary correction fields
    in the request-ingress TLV and in both response messages, is measured as exactly θ and d;
  * the two one-way delays the client logs DO include the UTC correction (C2S − utc, S2C + utc,
    only when `FlagCurrentUTCOffsetValid` is set), so their half-difference is NOT the offset
    (decided witness: 37 s).
-/
import ScionTime.Props.C18
import ScionTime.Model.CsptpClient
import ScionTime.Gen.Csptp
import ScionTime.Gen.Client
namespace ScionTime.C18
open ScionTime.CsptpConv ScionTime.Int64Arith ScionTime.Csptp ScionTime.CsptpClient

/-- the time a decoded timestamp denotes -/
def tsTime (ts : Csptp.Timestamp) : Int := (ts.seconds : Int) * 1000000000 + ts.nanoseconds

theorem timeFromTimestamp_conv (ts : Csptp.Timestamp) (h : ts.seconds < 2^48) :
    timeFromTimestamp (convTimestamp ts) = tsTime ts := by
  unfold timeFromTimestamp convTimestamp tsTime nsPerSec
  simp only [secOfBytes_secBytes ts.seconds h]

def InI64 (v : Int) : Prop := -9223372036854775808 ≤ v ∧ v ≤ 9223372036854775807

theorem ofInt_toInt {v : Int} (h : InI64 v) : (Int64.ofInt v).toInt = v := by
  unfold InI64 at h
  rw [Int64.toInt_ofInt]
  exact bmod_id v h.1 h.2

/-- nanoseconds of a correction field: floor division by 2^16 -/
theorem corr_toInt {v : Int} (h : InI64 v) :
    (durationFromTimeInterval (Int64.ofInt v)).toInt = v / 65536 := by
  rw [C18_interval_shift, ofInt_toInt h]

/-- `t3Corr` never wraps: each part is below 2^47 in magnitude -/
theorem t3Correction_toInt (m0 m1 : Message) (h0 : InI64 m0.correctionField) (h1 : InI64 m1.correctionField) :
    (t3Correction m0 m1).toInt = m0.correctionField / 65536 + m1.correctionField / 65536 := by
  unfold t3Correction
  have a := corr_toInt h0
  have b := corr_toInt h1
  unfold InI64 at h0 h1
  rw [toInt_add_of_fits _ _ (by rw [a, b]; omega) (by rw [a, b]; omega), a, b]

/-- The returned offset and the mean path delay are the formulas of net/csptp on the client's own
    Sync timestamps, the TLV's request-ingress timestamp, the Follow_Up's timestamp and the
    corrections — and nothing else: -/
theorem C18_client_offset_is_formula (t0 t3 : Int) (m0 m1 : Message) (tlv : ResponseTLV) :
    (evaluate t0 t3 m0 m1 tlv).clockOffset =
      clockOffset t0 (timeFromTimestamp (convTimestamp tlv.requestIngressTimestamp))
        (timeFromTimestamp (convTimestamp m1.timestamp)) t3
        (durationFromTimeInterval (Int64.ofInt tlv.requestCorrectionField)) (t3Correction m0 m1) ∧
    (evaluate t0 t3 m0 m1 tlv).meanPathDelay =
      meanPathDelay t0 (timeFromTimestamp (convTimestamp tlv.requestIngressTimestamp))
        (timeFromTimestamp (convTimestamp m1.timestamp)) t3
        (durationFromTimeInterval (Int64.ofInt tlv.requestCorrectionField)) (t3Correction m0 m1) ∧
    (evaluate t0 t3 m0 m1 tlv).timestamp = t3 := ⟨rfl, rfl, rfl⟩

/-- …in particular they are independent of the announced UTC offset and of every flag: two
    exchanges that differ only in the Follow_Up's flag field and the TLV's UTC offset return the
    same offset and mean path delay. -/
theorem C18_client_offset_ignores_utc (t0 t3 : Int) (m0 m1 : Message) (tlv : ResponseTLV)
    (flags : Nat) (utc : Int) :
    (evaluate t0 t3 m0 { m1 with flagField := flags } { tlv with utcOffset := utc }).clockOffset =
      (evaluate t0 t3 m0 m1 tlv).clockOffset ∧
    (evaluate t0 t3 m0 { m1 with flagField := flags } { tlv with utcOffset := utc }).meanPathDelay =
      (evaluate t0 t3 m0 m1 tlv).meanPathDelay := ⟨rfl, rfl⟩

/-- csptp_offset_exact / csptp_delay_exact, end to end through the client.  The server's clock is
    ahead by `θ`, the one-way delay is `d` both ways; the server reports the request's ingress
    `t1 = t0 + d + θ + c1` with residence correction `c1` in the TLV and sends at `t2` such that the
    client receives at `t3 = t2 + d − θ + c3`, `c3` split over the correction fields of Sync and
    Follow_Up (`c1`, `c3` in whole nanoseconds: the fields' floor quotients by 2^16).  Then the
    measurement returns exactly `θ` and logs exactly `d` — whatever UTC offset is announced, with
    the valid flag set or not — for magnitudes below 2^60 ns. -/
theorem C18_client_offset_exact (t0 t3 : Int) (m0 m1 : Message) (tlv : ResponseTLV) (d θ : Int)
    (hc0 : InI64 m0.correctionField) (hc1 : InI64 m1.correctionField)
    (hct : InI64 tlv.requestCorrectionField)
    (hs1 : tlv.requestIngressTimestamp.seconds < 2^48) (hs2 : m1.timestamp.seconds < 2^48)
    (hd : Fits60 d) (hθ : Fits60 θ)
    (h1 : tsTime tlv.requestIngressTimestamp = t0 + d + θ + tlv.requestCorrectionField / 65536)
    (h3 : t3 = tsTime m1.timestamp + d - θ + (m0.correctionField / 65536 + m1.correctionField / 65536)) :
    (evaluate t0 t3 m0 m1 tlv).clockOffset.toInt = θ ∧
    (evaluate t0 t3 m0 m1 tlv).meanPathDelay.toInt = d ∧
    (evaluate t0 t3 m0 m1 tlv).timestamp = t3 := by
  have e1 := corr_toInt hct
  have e3 := t3Correction_toInt m0 m1 hc0 hc1
  have f1 : Fits60 (durationFromTimeInterval (Int64.ofInt tlv.requestCorrectionField)).toInt := by
    rw [e1]; unfold Fits60 InI64 at *; omega
  have f3 : Fits60 (t3Correction m0 m1).toInt := by
    rw [e3]; unfold Fits60 InI64 at *; omega
  have key := C18_csptp_offset_delay_exact t0 (tsTime m1.timestamp) d θ
    (durationFromTimeInterval (Int64.ofInt tlv.requestCorrectionField)) (t3Correction m0 m1) hd hθ f1 f3
  simp only at key
  rw [e1, e3, ← h1, ← h3] at key
  obtain ⟨k1, k2⟩ := C18_client_offset_is_formula t0 t3 m0 m1 tlv |>.imp id (·.1)
  rw [k1, k2, timeFromTimestamp_conv _ hs1, timeFromTimestamp_conv _ hs2]
  exact ⟨key.1, key.2, rfl⟩

/-- a concrete exchange: θ = −3 ms, d = 250 µs, ingress correction 40.5 ns (2654208·2^-16), Sync
    correction −1·2^-16 ns (floor: −1 ns), Follow_Up correction 18 ns, UTC offset 37 s announced as
    valid.  Offset and delay come out exactly; the logged one-way delays carry ∓37 s. -/
def demoSync : Message := { zeroMessage with correctionField := -1 }
def demoFollowUp : Message :=
  { zeroMessage with sdoIDMessageType := 8, flagField := 1024 + 4, correctionField := 18 * 65536,
                     timestamp := ⟨1790000000, 100000000⟩ }
def demoTLV : ResponseTLV :=
  { type := 3, length := 36, organizationID := 0xEC4670, organizationSubType := 0x526573, flagField := 0,
    error := 0, requestIngressTimestamp := ⟨1789999999, 1000000000 + 250000 - 3000000 + 40⟩,
    requestCorrectionField := 2654208, utcOffset := 37, serverStateDS := zeroDS }

example :
    let e := evaluate 1790000000000000000 (1790000000100000000 + 250000 + 3000000 + 17) demoSync demoFollowUp demoTLV
    e.clockOffset.toInt = -3000000 ∧ e.meanPathDelay.toInt = 250000 ∧
    e.c2sDelay.toInt = 250000 - 3000000 - 37000000000 ∧ e.s2cDelay.toInt = 250000 + 3000000 + 37000000000 ∧
    e.utcCorr.toInt = 37000000000 := by decide

/-- the hypotheses of `C18_client_offset_exact` are met by it -/
example :
    tsTime demoTLV.requestIngressTimestamp =
      1790000000000000000 + 250000 + (-3000000) + demoTLV.requestCorrectionField / 65536 ∧
    (1790000000100000000 + 250000 + 3000000 + 17 : Int) =
      tsTime demoFollowUp.timestamp + 250000 - (-3000000) +
        (demoSync.correctionField / 65536 + demoFollowUp.correctionField / 65536) := by decide

/-- The one-way delays the client logs include the UTC correction exactly as the code does:
    subtracted from client→server, added to server→client, `UTCOffset` whole seconds when the
    Follow_Up carries `FlagCurrentUTCOffsetValid`, nothing otherwise. -/
theorem C18_client_delays_include_utc (t0 t3 : Int) (m0 m1 : Message) (tlv : ResponseTLV)
    (hc0 : InI64 m0.correctionField) (hc1 : InI64 m1.correctionField)
    (hct : InI64 tlv.requestCorrectionField) (hu : -32768 ≤ tlv.utcOffset ∧ tlv.utcOffset ≤ 32767)
    (hs1 : tlv.requestIngressTimestamp.seconds < 2^48) (hs2 : m1.timestamp.seconds < 2^48)
    (ha : Fits60 (tsTime tlv.requestIngressTimestamp - t0)) (hb : Fits60 (t3 - tsTime m1.timestamp)) :
    let u : Int := if m1.flagField &&& 4 = 4 then tlv.utcOffset * 1000000000 else 0
    (evaluate t0 t3 m0 m1 tlv).utcCorr.toInt = u ∧
    (evaluate t0 t3 m0 m1 tlv).c2sDelay.toInt =
      (tsTime tlv.requestIngressTimestamp - t0) - tlv.requestCorrectionField / 65536 - u ∧
    (evaluate t0 t3 m0 m1 tlv).s2cDelay.toInt =
      (t3 - tsTime m1.timestamp) - (m0.correctionField / 65536 + m1.correctionField / 65536) + u := by
  intro u
  have e1 := corr_toInt hct
  have e3 := t3Correction_toInt m0 m1 hc0 hc1
  have eu : (utcCorrection m1.flagField tlv.utcOffset).toInt = u := by
    unfold utcCorrection flagCurrentUTCOffsetValid
    simp only [u]
    split
    · exact ofInt_toInt (by unfold InI64; omega)
    · rfl
  have f1 : Fits60 (durationFromTimeInterval (Int64.ofInt tlv.requestCorrectionField)).toInt := by
    rw [e1]; unfold Fits60 InI64 at *; omega
  have f3 : Fits60 (t3Correction m0 m1).toInt := by
    rw [e3]; unfold Fits60 InI64 at *; omega
  have fu : Fits60 (utcCorrection m1.flagField tlv.utcOffset).toInt := by
    rw [eu]; simp only [u]; unfold Fits60; split <;> omega
  have key := C18_csptp_oneway_exact t0 (tsTime tlv.requestIngressTimestamp) (tsTime m1.timestamp) t3
    (durationFromTimeInterval (Int64.ofInt tlv.requestCorrectionField)) (t3Correction m0 m1)
    (utcCorrection m1.flagField tlv.utcOffset) ha hb f1 f3 fu
  rw [e1, e3, eu] at key
  refine ⟨eu, ?_, ?_⟩
  · show (c2sDelay t0 (timeFromTimestamp (convTimestamp tlv.requestIngressTimestamp)) _ _).toInt = _
    rw [timeFromTimestamp_conv _ hs1]; exact key.1
  · show (s2cDelay (timeFromTimestamp (convTimestamp m1.timestamp)) t3 _ _).toInt = _
    rw [timeFromTimestamp_conv _ hs2]; exact key.2

/-- Deriving the offset from the two logged one-way delays (`(C2S − S2C)/2`, the text-book
    identity) is wrong by the announced UTC offset: on the demo exchange it gives θ − 37 s. -/
theorem C18_client_offset_not_from_delays_witness :
    let e := evaluate 1790000000000000000 (1790000000100000000 + 250000 + 3000000 + 17) demoSync demoFollowUp demoTLV
    ((e.c2sDelay - e.s2cDelay) / 2).toInt = -3000000 - 37000000000 ∧ e.clockOffset.toInt = -3000000 ∧
    ((e.c2sDelay + e.s2cDelay) / 2).toInt = e.meanPathDelay.toInt := by decide

/-- `FlagCurrentUTCOffsetValid` as extracted from net/csptp -/
theorem C18_pin_client_utc_flag : Gen.Csptp.FlagCurrentUTCOffsetValid = flagCurrentUTCOffsetValid := by decide

/-- the tail of `MeasureClockOffset` is, statement for statement, what `evaluate` transcribes
    (re-read from core/client/client_csptp_ip.go on every run by harness/extract/x_c18cli.go) -/
theorem C18_pin_client_evaluation :
    Gen.Client.csptpcli_eval_stmts = evaluateSource ∧ Gen.Client.csptpcli_eval_stmtCount = 16 := ⟨rfl, by decide⟩

end ScionTime.C18
