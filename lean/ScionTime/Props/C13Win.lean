/-
  C13 (server clause) — "a request whose MAC does not verify over the received packet is never
  served": which bytes of a received SCION/UDP packet the listener decodes and answers, and which
  bytes the MAC of the request's packet authenticator is computed over (Model/ClientFlow.lean
  `srvWindows`; the decision on the MAC verdict itself is Model/ScionSrv.lean `authCheck`, whose
  oracle input `mac` is the MAC over `srvWindows.spao`).

  * `C13Win_same_window`: for every buffer and every value of the UDP length field the listener (as
    repaired) MACs the UDP header followed by exactly the byte string it decodes as NTP / NTS request.
  * `C13Win_reframed`: for every re-framed request `pre|H|F|H|P` the code decodes F and MACs H ++ F —
    the authenticator of the authentic request does not vouch for F; before the `fix:` commit the
    listener MAC'ed H ++ P while serving F (`C13Win_old_refuted`, decided).
  * `C13Win_reply_mac_covers_sent`: the MAC the listener puts on its reply covers exactly the L4 bytes
    it sends, and a client (windows as repaired, Props/C10Win) verifies it over exactly those bytes and
    evaluates exactly the payload sent.
-/
import ScionTime.Model.ClientFlow
import ScionTime.Gen.Server
import ScionTime.Props.C10Win
namespace ScionTime.Props.C13Win
open ScionTime.ClientFlow ScionTime.Props.C10Win

/-- **Same window (listener).** Bytes MAC'ed = UDP header ++ bytes decoded, whatever was received. -/
theorem C13Win_same_window (r : Rx) (w : Windows) (h : srvWindows r = some w) :
    w.nts = w.ntp ∧ ∃ c, udpDecode r.l4 = some (c, w.ntp) ∧ w.spao = c ++ w.ntp :=
  C10Win_same_window r w h

/-- **Re-framed requests**, for every header, forged request F and authentic payload P. -/
theorem C13Win_reframed (pre f p : Bytes) (a0 a1 a2 a3 a4 a5 a6 a7 : Nat)
    (hlen : a4 * 256 + a5 = 8 + p.length) (hf : f.length = p.length) :
    let h := [a0, a1, a2, a3, a4, a5, a6, a7]
    lengthAdmitted (reframed pre h f p) = true ∧
    srvWindows (reframed pre h f p) = some ⟨f, f, h ++ f⟩ ∧
    srvWindowsOld (reframed pre h f p) = some ⟨f, f, h ++ p⟩ := by
  intro h
  obtain ⟨h1, h2, _, h4⟩ := C10Win_reframed pre f p a0 a1 a2 a3 a4 a5 a6 a7 hlen hf
  exact ⟨h1, h2, h4⟩

/-- **Before the repair, decided**: on `exRx` the listener decoded `[9,9,9,9]` and computed the MAC over
    the authentic header and payload `[…,1,2,3,4]` behind it. -/
theorem C13Win_old_refuted :
    srvWindows exRx = some ⟨[9, 9, 9, 9], [9, 9, 9, 9], [0, 7, 0, 9, 0, 12, 0, 0, 9, 9, 9, 9]⟩ ∧
    srvWindowsOld exRx = some ⟨[9, 9, 9, 9], [9, 9, 9, 9], [0, 7, 0, 9, 0, 12, 0, 0, 1, 2, 3, 4]⟩ := by decide

/-- **The reply's MAC covers exactly what is sent**, and the client reads it back the same way: for
    every port pair, checksum, payload (shorter than 2^16 − 8 bytes) and every header the listener puts in
    front, the bytes MAC'ed are the L4 bytes on the wire; a client receiving `pre ++ l4` decodes the
    payload sent and verifies the authenticator over exactly the MAC'ed bytes. -/
theorem C13Win_reply_mac_covers_sent (sp dp cs : Nat × Nat) (payload pre : Bytes) (hlen : 8 + payload.length < 65536) :
    (srvReply sp dp cs payload).2 = (srvReply sp dp cs payload).1 ∧
    windows ⟨pre, (srvReply sp dp cs payload).1⟩ =
      some ⟨payload, payload, (srvReply sp dp cs payload).2⟩ ∧
    lengthAdmitted ⟨pre, (srvReply sp dp cs payload).1⟩ = true := by
  have hL : (8 + payload.length) / 256 % 256 * 256 + (8 + payload.length) % 256 = 8 + payload.length := by omega
  obtain ⟨hl, hd⟩ := udpDecode_cons8 sp.1 sp.2 dp.1 dp.2 ((8 + payload.length) / 256 % 256) ((8 + payload.length) % 256)
    cs.1 cs.2 payload.length payload hL
  have hd' : udpDecode (srvReply sp dp cs payload).1 =
      some ([sp.1, sp.2, dp.1, dp.2, (8 + payload.length) / 256 % 256, (8 + payload.length) % 256, cs.1, cs.2], payload) := by
    simpa [srvReply] using hd
  refine ⟨rfl, ?_, ?_⟩
  · show (udpDecode (srvReply sp dp cs payload).1).map (fun (c, p) => ({ ntp := p, nts := p, spao := c ++ p } : Windows)) = _
    rw [hd']
    rfl
  · unfold lengthAdmitted
    have hlf : udpLengthField (srvReply sp dp cs payload).1 = 8 + payload.length := by simpa [srvReply] using hl
    show (!decide ((pre ++ (srvReply sp dp cs payload).1).length < udpLengthField (srvReply sp dp cs payload).1)) = true
    rw [hlf]
    have : (srvReply sp dp cs payload).1.length = 8 + payload.length := by simp [srvReply]; omega
    simp [this]

/-- **Pin** (regenerated from core/server/server_scion.go on every run, `harness/extract/x_c13win.go`):
    request MAC over the decoded UDP datagram; NTP, NTS decode and `ProcessRequest` on `udpLayer.Payload`;
    reply MAC over `buffer.Bytes()` (payload and UDP header serialised, nothing else yet). -/
theorem C13Win_pin_windows :
    Gen.Server.scionSrvPayloadWindows =
      "spao=udpLayer.Contents[:len(udpLayer.Contents)+len(udpLayer.Payload)] | ntp=udpLayer.Payload | nts.decode=udpLayer.Payload | nts.process=udpLayer.Payload | spao=buffer.Bytes()" := by
  rfl

end ScionTime.Props.C13Win
