/-
  C03 — the reported offset is within half the round-trip delay of the true offset, and the
  four timestamps it combines belong to one exchange.
  Property theorems; models: ScionTime/Model/NtpMath.lean, ScionTime/Model/ClientNtp.lean,
  ScionTime/Model/Time64.lean (C04); helper lemmas: Proofs/NtpMath.lean, Proofs/ClientNtp.lean.
-/
import ScionTime.Proofs.ClientNtp
import ScionTime.Props.C04
import ScionTime.Gen.Client
namespace ScionTime.C03
open ScionTime.Time64 ScionTime.NtpMath ScionTime.ClientNtp

/-! ### Pins -/
theorem C03_pin_window :
    Gen.Client.windowSecondsIP * nsPerSec = window ∧ Gen.Client.windowSecondsSCION * nsPerSec = window := by
  decide
/-- IP: `<= 3 s`, SCION: `< 3 s` — as `windowOk` has it -/
theorem C03_pin_window_operator :
    Gen.Client.windowInclusiveIP = true ∧ Gen.Client.windowInclusiveSCION = false := by decide

/-! ### Arithmetic: offset within half the round-trip delay -/

/-- **offset_half_rtt.** True instants `T0..T3` of one exchange on the two clocks, server clock
    ahead of the client's by `θ` during the exchange, non-negative one-way delays `d1`, `d2`;
    each observed timestamp is the true instant or 1 ns earlier (C04: what a pass through the
    2⁻³² s wire format does). Then the offset formula is within half the round-trip delay
    + 1.5 ns of `θ`. -/
theorem C03_offset_half_rtt (T0 T1 T2 T3 d1 d2 θ t0 t1 t2 t3 : Int)
    (h1 : T1 = T0 + d1 + θ) (h3 : T3 = T2 + d2 - θ) (hd1 : 0 ≤ d1) (hd2 : 0 ≤ d2)
    (r0 : T0 - 1 ≤ t0 ∧ t0 ≤ T0) (r1 : T1 - 1 ≤ t1 ∧ t1 ≤ T1)
    (r2 : T2 - 1 ≤ t2 ∧ t2 ≤ T2) (r3 : T3 - 1 ≤ t3 ∧ t3 ≤ T3) :
    2 * (clockOffset t0 t1 t2 t3 - θ) ≤ roundTripDelay t0 t1 t2 t3 + 3 ∧
    2 * (θ - clockOffset t0 t1 t2 t3) ≤ roundTripDelay t0 t1 t2 t3 + 3 := by
  unfold clockOffset roundTripDelay
  have := tdiv2_bounds (t1 - t0 + (t2 - t3))
  omega

/-- The constant 3 is tight: with `+ 2` the statement is false (θ = −10 ns, forward delay
    10 ns, backward delay 0, only `t3` rounded down; all hypotheses hold and the timestamps
    pass `ValidateResponseTimestamps`). -/
example : ∃ T0 T1 T2 T3 d1 d2 θ t0 t1 t2 t3 : Int,
    T1 = T0 + d1 + θ ∧ T3 = T2 + d2 - θ ∧ 0 ≤ d1 ∧ 0 ≤ d2 ∧
    (T0 - 1 ≤ t0 ∧ t0 ≤ T0) ∧ (T1 - 1 ≤ t1 ∧ t1 ≤ T1) ∧
    (T2 - 1 ≤ t2 ∧ t2 ≤ T2) ∧ (T3 - 1 ≤ t3 ∧ t3 ≤ T3) ∧ t0 ≤ t3 ∧ t1 ≤ t2 ∧
    ¬ (2 * (clockOffset t0 t1 t2 t3 - θ) ≤ roundTripDelay t0 t1 t2 t3 + 2) :=
  ⟨0, 0, 0, 10, 10, 0, -10, 0, 0, 0, 9, by decide⟩

/-- The same for what the code computes (int64, saturating `Sub`, wrap-around), as long as the
    four instants are within 2^61 ns of each other — which decoding relative to one
    reference guarantees (±2^31 s ≈ ±2^61 ns). -/
theorem C03_offset_half_rtt_int64 (T0 T1 T2 T3 d1 d2 θ t0 t1 t2 t3 : Int)
    (h1 : T1 = T0 + d1 + θ) (h3 : T3 = T2 + d2 - θ) (hd1 : 0 ≤ d1) (hd2 : 0 ≤ d2)
    (r0 : T0 - 1 ≤ t0 ∧ t0 ≤ T0) (r1 : T1 - 1 ≤ t1 ∧ t1 ≤ T1)
    (r2 : T2 - 1 ≤ t2 ∧ t2 ≤ T2) (r3 : T3 - 1 ≤ t3 ∧ t3 ≤ T3)
    (hr : InRange t0 t1 t2 t3) :
    2 * ((clockOffset64 t0 t1 t2 t3).toInt - θ) ≤ (roundTripDelay64 t0 t1 t2 t3).toInt + 3 ∧
    2 * (θ - (clockOffset64 t0 t1 t2 t3).toInt) ≤ (roundTripDelay64 t0 t1 t2 t3).toInt + 3 := by
  rw [clockOffset64_eq _ _ _ _ hr, roundTripDelay64_eq _ _ _ _ hr]
  exact C03_offset_half_rtt T0 T1 T2 T3 d1 d2 θ t0 t1 t2 t3 h1 h3 hd1 hd2 r0 r1 r2 r3

/-- Outside that range the int64 formula is *not* the integer formula: instants 2^63 ns
    (292 years) apart saturate `Sub` (closed instance; the harness exercises the same
    inputs against net/ntp). -/
example : (clockOffset64 0 9223372036854775808 0 0).toInt ≠ clockOffset 0 9223372036854775808 0 0 := by
  decide

/-! ### Pairing: the four timestamps belong to one exchange -/

/-- Ghost record of exchange `id`: the four wire-format stamps taken in it — client transmit
    (kernel), server receive, server transmit (as the server stores it for interleaved mode),
    client receive. `G : Nat → ExStamps` assigns them to exchange ids. -/
structure ExStamps where
  cTx : T64
  sRx : T64
  sTx : T64
  cRx : T64

/-- `prev` holds the three stamps of *one* accepted exchange of the history `H`. -/
def Coherent (G : Nat → ExStamps) (H : List Nat) (prev : Prev) : Prop :=
  prev.reference ≠ "" →
    ∃ p ∈ H, prev.cTx = (G p).cTx ∧ prev.cRx = (G p).cRx ∧ prev.sRx = (G p).sRx

/-- The server's reply contract (C06, `handleRequest`) for request `req` of exchange `k`:
    its own receive stamp, and either basic (echo the request's transmit field, own transmit
    stamp) or — only when the request's receive and transmit fields differ and its origin
    equals the receive stamp of an exchange `e` the server has served — interleaved (echo the
    receive field, stored transmit stamp of `e`). -/
def Conformant (G : Nat → ExStamps) (Srv : List Nat) (k : Nat) (req : Req) (pkt : NtpPkt) : Prop :=
  pkt.rx = (G k).sRx ∧
  ((pkt.origin = req.tx ∧ pkt.tx = (G k).sTx) ∨
   (req.rx ≠ req.tx ∧ pkt.origin = req.rx ∧ ∃ e ∈ Srv, (G e).sRx = req.origin ∧ pkt.tx = (G e).sTx))

/-- **A1**: the receive stamps the server hands to this client are pairwise distinct over the
    exchanges it has served (C06 guarantees it among kept entries). -/
def A1 (G : Nat → ExStamps) (Srv : List Nat) : Prop :=
  ∀ e ∈ Srv, ∀ e' ∈ Srv, (G e).sRx = (G e').sRx → e = e'

/-- **A2**: the client's transmit and receive stamps of an exchange differ at 2⁻³² s
    resolution. -/
def A2 (G : Nat → ExStamps) (H : List Nat) : Prop := ∀ p ∈ H, (G p).cTx ≠ (G p).cRx

/-- **A4** (with the conformant server): every datagram with the server's source address that
    the socket of exchange `k` delivers answers *this* exchange's request — none answers an
    earlier exchange's. Stated on the payload of the datagrams that pass the source check. -/
def A4 {D : Type} (srcOk : D → Prop) (payload : D → Payload) (G : Nat → ExStamps) (Srv : List Nat)
    (k : Nat) (req : Req) (evs : List (Event D)) : Prop :=
  ∀ d cRx b, Event.dgram d cRx b ∈ evs → srcOk d → Conformant G Srv k req (payload d).pkt

/-- The four timestamps carry one ghost exchange id: basic — this exchange `k` (own kernel
    transmit and receive times, the reply's own stamps); interleaved — one earlier accepted
    exchange `p`. `ref` is the reading wire stamps are decoded against. -/
def Uniform (G : Nat → ExStamps) (H : List Nat) (k : Nat) (ref cTx1 : Int) (a : Accepted) : Prop :=
  (a.il = false ∧ a.t0 = cTx1 ∧ a.t1 = toTime (G k).sRx ref ∧ a.t2 = toTime (G k).sTx ref ∧ a.t3 = a.cRx) ∨
  (a.il = true ∧ ∃ p ∈ H, a.t0 = toTime (G p).cTx ref ∧ a.t1 = toTime (G p).sRx ref ∧
      a.t2 = toTime (G p).sTx ref ∧ a.t3 = toTime (G p).cRx ref)

/-- Core of the pairing argument, at the NTP stage shared by both clients. -/
theorem C03_pairing_stage (G : Nat → ExStamps) (H Srv : List Nat) (k : Nat)
    (cfg : Cfg) (prev : Prev) (reference : String) (now cTx1 cRx : Int) (p : Payload) (a : Accepted)
    (href : reference ≠ "") (hco : Coherent G H prev) (hsub : ∀ x ∈ H, x ∈ Srv)
    (a1 : A1 G Srv) (a2 : A2 G H)
    (hconf : Conformant G Srv k (mkRequest cfg prev reference now) p.pkt)
    (hacc : ntpStage cfg prev (mkRequest cfg prev reference now) cTx1 cRx p = .accept a) :
    Uniform G H k now cTx1 a ∧ a.cRx = cRx ∧
    ((G k).cTx = ofTime cTx1 → (G k).cRx = ofTime cRx →
      Coherent G (k :: H) (updatePrev cfg prev reference cTx1 a)) := by
  obtain ⟨_, _, _, _, ha, _, _⟩ := ntpStage_accept _ _ _ _ _ _ _ hacc
  obtain ⟨hrx, hkind⟩ := hconf
  have hc0 := mkRequest_cTx0 cfg prev reference now
  -- is the request interleaved?
  cases hil : (mkRequest cfg prev reference now).interleaved with
  | false =>
    -- basic request: only the basic branch is possible
    have hail : a.il = false := by rw [ha]; simp [tupleOf, hil]
    have hbasic : p.pkt.tx = (G k).sTx := by
      rcases hkind with ⟨_, h⟩ | ⟨hne, ho, _⟩
      · exact h
      · -- an interleaved-style reply echoes req.rx ≠ req.tx and is not accepted by a basic request
        exfalso
        obtain ⟨_, _, ho', _⟩ := ntpStage_accept _ _ _ _ _ _ _ hacc
        rcases ho' with ⟨h1, _⟩ | h2
        · rw [hil] at h1; cases h1
        · exact hne (ho.symm.trans h2)
    refine ⟨Or.inl ⟨hail, ?_, ?_, ?_, ?_⟩, by rw [ha]; rfl, ?_⟩
    · rw [ha]; simp [tupleOf, hil]
    · rw [ha]; simp [tupleOf, hil, hc0, hrx]
    · rw [ha]; simp [tupleOf, hc0, hbasic]
    · rw [ha]; simp [tupleOf, hil]
    · intro hk1 hk2 hr
      unfold updatePrev
      split
      · refine ⟨k, List.mem_cons_self, ?_, ?_, ?_⟩
        · exact hk1.symm
        · simp only; rw [ha]; simpa [tupleOf] using hk2.symm
        · simp only; rw [ha]; simpa [tupleOf] using hrx
      · -- interleaved mode off: prev unchanged
        rename_i hoff
        obtain ⟨q, hq, h⟩ := hco (by simpa [updatePrev, hoff] using hr)
        exact ⟨q, List.mem_cons_of_mem _ hq, h⟩
  | true =>
    obtain ⟨hpr, hmode, horg, hrq, htq⟩ := mkRequest_interleaved cfg prev reference now hil
    obtain ⟨q, hq, hq1, hq2, hq3⟩ := hco (by rw [hpr]; exact href)
    have hne : (mkRequest cfg prev reference now).rx ≠ (mkRequest cfg prev reference now).tx := by
      rw [hrq, htq, hq1, hq2]; exact fun h => a2 q hq h.symm
    have hupd : (G k).cTx = ofTime cTx1 → (G k).cRx = ofTime cRx →
        Coherent G (k :: H) (updatePrev cfg prev reference cTx1 a) := by
      intro hk1 hk2 _
      unfold updatePrev
      rw [if_pos hmode]
      refine ⟨k, List.mem_cons_self, hk1.symm, ?_, ?_⟩
      · simp only; rw [ha]; simpa [tupleOf] using hk2.symm
      · simp only; rw [ha]; simpa [tupleOf] using hrx
    rcases hkind with ⟨ho, htx⟩ | ⟨_, ho, e, he, hes, hetx⟩
    · -- basic reply to an interleaved request: origin = req.tx ≠ req.rx, so the basic branch
      have hnil : (p.pkt.origin == (mkRequest cfg prev reference now).rx) = false := by
        rw [ho]; simpa using fun h => hne h.symm
      refine ⟨Or.inl ⟨?_, ?_, ?_, ?_, ?_⟩, by rw [ha]; rfl, hupd⟩
      · rw [ha]; simp [tupleOf, hnil]
      · rw [ha]; simp [tupleOf, hnil]
      · rw [ha]; simp [tupleOf, hnil, hc0, hrx]
      · rw [ha]; simp [tupleOf, hc0, htx]
      · rw [ha]; simp [tupleOf, hnil]
    · -- interleaved reply: the stored transmit stamp is that of the exchange `prev` stems from (A1)
      have hyes : (p.pkt.origin == (mkRequest cfg prev reference now).rx) = true := by
        rw [ho]; simp
      have heq : e = q := a1 e he q (hsub q hq) (by rw [hes, horg, hq3])
      subst heq
      refine ⟨Or.inr ⟨?_, e, hq, ?_, ?_, ?_, ?_⟩, by rw [ha]; rfl, hupd⟩
      · rw [ha]; simp [tupleOf, hil, hyes]
      · rw [ha]; simp [tupleOf, hil, hyes, hc0, hq1]
      · rw [ha]; simp [tupleOf, hil, hyes, hc0, hq3]
      · rw [ha]; simp [tupleOf, hc0, hetx]
      · rw [ha]; simp [tupleOf, hil, hyes, hc0, hq2]

/-- **pairing**, one IP exchange: under A1, A2, A4 an accepted response yields a tuple of one
    ghost exchange, and `prev` stays coherent (so the statement carries over to the next
    exchange: see `C03_pairing_history_ip`). -/
theorem C03_pairing_ip (G : Nat → ExStamps) (H Srv : List Nat) (k : Nat)
    (cfg : Cfg) (server : Nat) (prev : Prev) (reference : String) (now cTx1 : Int)
    (evs : List (Event IpDgram)) (a : Accepted) (n : Nat)
    (href : reference ≠ "") (hco : Coherent G H prev) (hsub : ∀ x ∈ H, x ∈ Srv)
    (a1 : A1 G Srv) (a2 : A2 G H)
    (a4 : A4 (fun d : IpDgram => d.src = server) IpDgram.payload G Srv k
            (mkRequest cfg prev reference now) evs)
    (hres : (exchangeIP cfg server prev reference now cTx1 evs).1 = .accepted a n) :
    Uniform G H k now cTx1 a ∧
    ((G k).cTx = ofTime cTx1 → (G k).cRx = ofTime a.cRx →
      Coherent G (k :: H) (exchangeIP cfg server prev reference now cTx1 evs).2) := by
  have hres' : runLoop (fun cRx d => classifyIP cfg server prev (mkRequest cfg prev reference now) cTx1 cRx d)
      cfg.deadlineSet 0 0 evs = .accepted a n := hres
  obtain ⟨d, cRx, b, hm, hc⟩ := runLoop_accepted _ _ _ _ _ _ _ hres'
  obtain ⟨hs, hn⟩ := classifyIP_accept _ _ _ _ _ _ _ _ hc
  obtain ⟨hu, hcrx, hupd⟩ := C03_pairing_stage G H Srv k cfg prev reference now cTx1 cRx d.payload a
    href hco hsub a1 a2 (a4 d cRx b hm hs) hn
  refine ⟨hu, ?_⟩
  intro h1 h2
  have h2' : (exchangeIP cfg server prev reference now cTx1 evs).2 = updatePrev cfg prev reference cTx1 a := by
    simp only [exchangeIP]; rw [hres']
  rw [h2']
  exact hupd h1 (by rw [← hcrx]; exact h2)

/-- **pairing**, one SCION exchange (receive time = kernel stamp or the packet's timestamp
    option, whichever the code used — the ghost record takes the one used). -/
theorem C03_pairing_scion (G : Nat → ExStamps) (H Srv : List Nat) (k : Nat)
    (cfg : Cfg) (sc : ScionCtx) (prev : Prev) (reference : String) (now cTx1 : Int)
    (evs : List (Event ScionDgram)) (a : Accepted) (n : Nat)
    (href : reference ≠ "") (hco : Coherent G H prev) (hsub : ∀ x ∈ H, x ∈ Srv)
    (a1 : A1 G Srv) (a2 : A2 G H)
    (a4 : A4 (fun d : ScionDgram => d.srcIA = sc.remoteIA ∧ equalsIP d.srcHost sc.remoteHost = true ∧
              d.dstIA = sc.localIA ∧ equalsIP d.dstHost sc.localHost = true) ScionDgram.payload G Srv k
            (mkRequest cfg prev reference now) evs)
    (hres : (exchangeSCION cfg sc prev reference now cTx1 evs).1 = .accepted a n) :
    Uniform G H k now cTx1 a ∧
    ((G k).cTx = ofTime cTx1 → (G k).cRx = ofTime a.cRx →
      Coherent G (k :: H) (exchangeSCION cfg sc prev reference now cTx1 evs).2) := by
  have hres' : runLoop (fun cRx d => classifySCION cfg sc prev (mkRequest cfg prev reference now) cTx1 cRx d)
      cfg.deadlineSet 0 0 evs = .accepted a n := hres
  obtain ⟨d, cRx, b, hm, hc⟩ := runLoop_accepted _ _ _ _ _ _ _ hres'
  obtain ⟨_, _, _, _, s1, s2, s3, s4, _, hn⟩ := classifySCION_accept _ _ _ _ _ _ _ _ hc
  obtain ⟨hu, hcrx, hupd⟩ := C03_pairing_stage G H Srv k cfg prev reference now cTx1 (scionRxTime d cTx1 cRx)
    d.payload a href hco hsub a1 a2 (a4 d cRx b hm ⟨s1, s2, s3, s4⟩) hn
  refine ⟨hu, ?_⟩
  intro h1 h2
  have h2' : (exchangeSCION cfg sc prev reference now cTx1 evs).2 = updatePrev cfg prev reference cTx1 a := by
    simp only [exchangeSCION]; rw [hres']
  rw [h2']
  exact hupd h1 (by rw [← hcrx]; exact h2)

/-! #### A4 is needed: the mixed tuple

Exchange 1 (t = 1.00 … 1.03 s) was accepted; exchange 2 (request at 2.00 s, interleaved)
timed out — its reply is late; exchange 3 (request at 3.00 s) has the same request fields
(`prev` unchanged) and its socket is handed the late reply to request 2 (this violates A4
only; the datagram is a conformant reply, A1 and A2 hold). The client accepts it — with a
uniform tuple of exchange 1 — but stores the *server receive stamp of exchange 2* next to
its own stamps of exchange 3. Exchange 4 is then entirely regular (its reply answers its own
request), yet combines client stamps of exchange 3 with server stamps of exchange 2: the
true offset is 0, the reported one is −1 s at a round-trip delay of 20 ms.
The real client binds port 0 for every exchange, so the kernel — outside the model — is what
keeps A4; a scripted peer can still send such a datagram to the new port (the harness has a
scenario doing so against the real code, with the same outcome as the model). -/

def mixCfg : Cfg := ⟨.ip, true, false, true⟩
/-- `prev` after exchange 1 -/
def mixPrev1 : Prev := ⟨"S", false, ofTime 1000000000, ofTime 1030000000, ofTime 1010000000⟩
/-- interleaved reply to request 2: origin = cRx(1), rx = sRx(2) = 2.01 s, tx = sTx(1) = 1.02 s -/
def mixLate : IpDgram :=
  ⟨7, ⟨48, ⟨36, 1, ofTime 1030000000, ofTime 2010000000, ofTime 1020000000⟩, true, true, true⟩⟩
def mixEx3 : Outcome × Prev :=
  exchangeIP mixCfg 7 mixPrev1 "S" 3000000000 3000000000 [.dgram mixLate 3030000000 true]
/-- the server's regular interleaved reply to request 4 (origin = its rx field = cRx(3),
    rx = sRx(4) = 4.01 s, tx = stored sTx(2) = 2.02 s, found under the request's origin sRx(2)) -/
def mixReply4 : IpDgram :=
  ⟨7, ⟨48, ⟨36, 1, ofTime 3030000000, ofTime 4010000000, ofTime 2020000000⟩, true, true, true⟩⟩
def mixEx4 : Outcome × Prev :=
  exchangeIP mixCfg 7 mixEx3.2 "S" 4000000000 4000000000 [.dgram mixReply4 4030000000 true]

/-- after exchange 3, `prev` mixes exchanges 3 (client stamps) and 2 (server stamp) -/
example : mixEx3.1.hasOffset = true ∧
    mixEx3.2 = ⟨"S", true, ofTime 3000000000, ofTime 3030000000, ofTime 2010000000⟩ := by decide

/-- exchange 4 is accepted with client stamps of exchange 3 and server stamps of exchange 2,
    and its offset (−1 s against a true offset of 0) violates the half-round-trip bound. -/
example : ∃ a n, mixEx4.1 = .accepted a n ∧ a.il = true ∧
    a.t0 = toTime (ofTime 3000000000) 4000000000 ∧ a.t1 = toTime (ofTime 2010000000) 4000000000 ∧
    a.t2 = toTime (ofTime 2020000000) 4000000000 ∧ a.t3 = toTime (ofTime 3030000000) 4000000000 ∧
    ¬ (2 * (0 - a.offset.toInt) ≤ a.rtd.toInt + 3) :=
  ⟨⟨true, toTime (ofTime 3000000000) 4000000000, toTime (ofTime 2010000000) 4000000000,
     toTime (ofTime 2020000000) 4000000000, toTime (ofTime 3030000000) 4000000000, 4030000000,
     ofTime 4010000000⟩, 1, by decide⟩

/-- non-vacuity of the pairing hypotheses: the regular continuation of the same scenario —
    request 2 answered in time, interleaved — meets Coherent, A1, A2 and conformance (A4), and is
    accepted. -/
def okG : Nat → ExStamps := fun i =>
  if i = 1 then ⟨ofTime 1000000000, ofTime 1010000000, ofTime 1020000000, ofTime 1030000000⟩
  else ⟨ofTime 2000000000, ofTime 2010000000, ofTime 2020000000, ofTime 2030000000⟩
example :
    Coherent okG [1] mixPrev1 ∧ A1 okG [1, 2] ∧ A2 okG [1] ∧
    Conformant okG [1, 2] 2 (mkRequest mixCfg mixPrev1 "S" 2000000000) mixLate.payload.pkt ∧
    (exchangeIP mixCfg 7 mixPrev1 "S" 2000000000 2000000000 [.dgram mixLate 2030000000 true]).1.hasOffset = true := by
  refine ⟨fun _ => ⟨1, by decide⟩, by unfold A1; decide, by unfold A2; decide, ?_, by decide⟩
  refine ⟨by decide, Or.inr ⟨by decide, by decide, 1, by decide⟩⟩

/-! #### Histories: the invariant carries across exchanges -/

/-- one exchange of a history: ghost id, the clock reading `cTxTime0`, the kernel transmit
    time, and what the exchange's socket delivers -/
structure ExIn where
  id : Nat
  now : Int
  cTx1 : Int
  evs : List (Event IpDgram)

/-- The hypotheses along a history of IP exchanges of one client (state threaded through
    `exchangeIP`): A4 + conformant server for every exchange, the ghost records of the client's
    own stamps, A2 for every exchange, every exchange known to the server. `H` collects the
    accepted exchanges. -/
def HistoryHyps (G : Nat → ExStamps) (Srv : List Nat) (cfg : Cfg) (server : Nat) (reference : String) :
    Prev → List Nat → List ExIn → Prop
  | _, _, [] => True
  | prev, H, x :: xs =>
    let r := exchangeIP cfg server prev reference x.now x.cTx1 x.evs
    A4 (fun d : IpDgram => d.src = server) IpDgram.payload G Srv x.id (mkRequest cfg prev reference x.now) x.evs ∧
    (G x.id).cTx = ofTime x.cTx1 ∧ (G x.id).cTx ≠ (G x.id).cRx ∧ x.id ∈ Srv ∧
    (∀ a n, r.1 = .accepted a n → (G x.id).cRx = ofTime a.cRx) ∧
    HistoryHyps G Srv cfg server reference r.2 (if r.1.hasOffset then x.id :: H else H) xs

/-- every accepted response along the history combines stamps of one exchange -/
def AllUniform (G : Nat → ExStamps) (cfg : Cfg) (server : Nat) (reference : String) :
    Prev → List Nat → List ExIn → Prop
  | _, _, [] => True
  | prev, H, x :: xs =>
    let r := exchangeIP cfg server prev reference x.now x.cTx1 x.evs
    (∀ a n, r.1 = .accepted a n → Uniform G H x.id x.now x.cTx1 a) ∧
    AllUniform G cfg server reference r.2 (if r.1.hasOffset then x.id :: H else H) xs

/-- **pairing** for all histories: from any coherent state (in particular the initial one and
    any state after `ResetInterleavedMode`), under A1, A2, A4, every accepted response of every
    exchange — whatever is dropped, duplicated, delayed within an exchange, however the
    server's clock moves between exchanges — yields four timestamps of one exchange. -/
theorem C03_pairing_history_ip (G : Nat → ExStamps) (Srv : List Nat) (cfg : Cfg) (server : Nat)
    (reference : String) (href : reference ≠ "") (a1 : A1 G Srv) (xs : List ExIn) :
    ∀ (prev : Prev) (H : List Nat), Coherent G H prev → (∀ x ∈ H, x ∈ Srv) → A2 G H →
      HistoryHyps G Srv cfg server reference prev H xs → AllUniform G cfg server reference prev H xs := by
  induction xs with
  | nil => intro _ _ _ _ _ _; trivial
  | cons x xs ih =>
    intro prev H hco hsub a2 hh
    obtain ⟨a4, hk1, hk2, hks, hk3, hrest⟩ := hh
    refine ⟨?_, ?_⟩
    · intro a n hacc
      exact (C03_pairing_ip G H Srv x.id cfg server prev reference x.now x.cTx1 x.evs a n href hco hsub
        a1 a2 a4 hacc).1
    · cases hout : (exchangeIP cfg server prev reference x.now x.cTx1 x.evs).1 with
      | accepted a n =>
        have hp := C03_pairing_ip G H Srv x.id cfg server prev reference x.now x.cTx1 x.evs a n href hco hsub
          a1 a2 a4 hout
        simp only [hout, Outcome.hasOffset, if_true] at hrest ⊢
        apply ih _ _ (hp.2 hk1 (hk3 a n hout)) _ _ hrest
        · intro y hy
          rcases List.mem_cons.mp hy with h | h
          · rw [h]; exact hks
          · exact hsub y h
        · intro y hy
          rcases List.mem_cons.mp hy with h | h
          · rw [h]; exact hk2
          · exact a2 y h
      | error e n =>
        have h2 : (exchangeIP cfg server prev reference x.now x.cTx1 x.evs).2 = prev := by
          have := hout; simp only [exchangeIP] at this ⊢; rw [this]
        simp only [hout, Outcome.hasOffset, h2] at hrest ⊢
        exact ih _ _ hco hsub a2 hrest
      | panic n =>
        have h2 : (exchangeIP cfg server prev reference x.now x.cTx1 x.evs).2 = prev := by
          have := hout; simp only [exchangeIP] at this ⊢; rw [this]
        simp only [hout, Outcome.hasOffset, h2] at hrest ⊢
        exact ih _ _ hco hsub a2 hrest
      | blocked =>
        have h2 : (exchangeIP cfg server prev reference x.now x.cTx1 x.evs).2 = prev := by
          have := hout; simp only [exchangeIP] at this ⊢; rw [this]
        simp only [hout, Outcome.hasOffset, h2] at hrest ⊢
        exact ih _ _ hco hsub a2 hrest

/-- the initial state and any state after `ResetInterleavedMode` is coherent -/
theorem C03_coherent_initial (G : Nat → ExStamps) (H : List Nat) (prev : Prev)
    (h : prev.reference = "") : Coherent G H prev := fun hne => absurd h hne

/-! ### Main statement -/

/-- ghost truth of an exchange: the true instants of transmit / receive events on the two
    clocks and the server-minus-client offset `θ` in force during the exchange -/
structure Truth where
  T0 : Int
  T1 : Int
  T2 : Int
  T3 : Int
  θ : Int

/-- NTP's timing model of one exchange: non-negative one-way delays -/
def Truth.Valid (t : Truth) : Prop :=
  ∃ d1 d2 : Int, 0 ≤ d1 ∧ 0 ≤ d2 ∧ t.T1 = t.T0 + d1 + t.θ ∧ t.T3 = t.T2 + d2 - t.θ

/-- the wire stamps of an exchange are the 2⁻³² s encodings of its true instants, all within
    the decoding window of `ref` -/
def Encodes (g : ExStamps) (t : Truth) (ref : Int) : Prop :=
  g.cTx = ofTime t.T0 ∧ g.sRx = ofTime t.T1 ∧ g.sTx = ofTime t.T2 ∧ g.cRx = ofTime t.T3 ∧
  C04.InWindow t.T0 ref ∧ C04.InWindow t.T1 ref ∧ C04.InWindow t.T2 ref ∧ C04.InWindow t.T3 ref

/-- **C03_main** (= pairing + arithmetic), one exchange, IP. Under A1, A2, A4, with the ghost
    truth `Tr` of every exchange satisfying the timing model: the offset of an accepted
    response is within half its round-trip delay (+1.5 ns) of the true offset of the exchange
    whose timestamps it combines — exchange `k` itself for a basic response (kernel transmit and
    receive times are the true `T0`, `T3`), an earlier accepted exchange `p` for an
    interleaved one. -/
theorem C03_main (G : Nat → ExStamps) (Tr : Nat → Truth) (H Srv : List Nat) (k : Nat)
    (cfg : Cfg) (server : Nat) (prev : Prev) (reference : String) (now cTx1 : Int)
    (evs : List (Event IpDgram)) (a : Accepted) (n : Nat)
    (href : reference ≠ "") (hco : Coherent G H prev) (hsub : ∀ x ∈ H, x ∈ Srv)
    (a1 : A1 G Srv) (a2 : A2 G H)
    (a4 : A4 (fun d : IpDgram => d.src = server) IpDgram.payload G Srv k
            (mkRequest cfg prev reference now) evs)
    (hres : (exchangeIP cfg server prev reference now cTx1 evs).1 = .accepted a n)
    (hvalid : ∀ e, (Tr e).Valid)
    (hpast : ∀ p ∈ H, Encodes (G p) (Tr p) now)
    (hk : (Tr k).T0 = cTx1 ∧ (Tr k).T3 = a.cRx ∧ (G k).sRx = ofTime (Tr k).T1 ∧ (G k).sTx = ofTime (Tr k).T2 ∧
          C04.InWindow (Tr k).T1 now ∧ C04.InWindow (Tr k).T2 now)
    (hr : InRange a.t0 a.t1 a.t2 a.t3) :
    ∃ e ∈ k :: H, (a.il = false → e = k) ∧
      2 * (a.offset.toInt - (Tr e).θ) ≤ a.rtd.toInt + 3 ∧
      2 * ((Tr e).θ - a.offset.toInt) ≤ a.rtd.toInt + 3 := by
  obtain ⟨hu, _⟩ := C03_pairing_ip G H Srv k cfg server prev reference now cTx1 evs a n href hco hsub a1 a2 a4 hres
  rcases hu with ⟨hil, h0, h1, h2, h3⟩ | ⟨hil, p, hp, h0, h1, h2, h3⟩
  · obtain ⟨d1, d2, hd1, hd2, e1, e3⟩ := hvalid k
    obtain ⟨k0, k3, k1, k2, w1, w2⟩ := hk
    refine ⟨k, List.mem_cons_self, fun _ => rfl, ?_⟩
    have r1 := C04.C04_roundtrip (Tr k).T1 now w1
    have r2 := C04.C04_roundtrip (Tr k).T2 now w2
    rw [← k1, ← h1] at r1
    rw [← k2, ← h2] at r2
    exact C03_offset_half_rtt_int64 (Tr k).T0 (Tr k).T1 (Tr k).T2 (Tr k).T3 d1 d2 (Tr k).θ a.t0 a.t1 a.t2 a.t3
      e1 e3 hd1 hd2 (by omega) r1 r2 (by omega) hr
  · obtain ⟨d1, d2, hd1, hd2, e1, e3⟩ := hvalid p
    obtain ⟨g0, g1, g2, g3, w0, w1, w2, w3⟩ := hpast p hp
    refine ⟨p, List.mem_cons_of_mem _ hp, ?_, ?_⟩
    · intro h; rw [hil] at h; cases h
    have r0 := C04.C04_roundtrip (Tr p).T0 now w0
    have r1 := C04.C04_roundtrip (Tr p).T1 now w1
    have r2 := C04.C04_roundtrip (Tr p).T2 now w2
    have r3 := C04.C04_roundtrip (Tr p).T3 now w3
    rw [← g0, ← h0] at r0
    rw [← g1, ← h1] at r1
    rw [← g2, ← h2] at r2
    rw [← g3, ← h3] at r3
    exact C03_offset_half_rtt_int64 (Tr p).T0 (Tr p).T1 (Tr p).T2 (Tr p).T3 d1 d2 (Tr p).θ a.t0 a.t1 a.t2 a.t3
      e1 e3 hd1 hd2 r0 r1 r2 r3 hr

end ScionTime.C03
