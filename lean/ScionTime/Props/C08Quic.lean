/-
  C08 (fragment) — the packet connections of net/scion/quic.go under quic-go: no datagram can
  make `ReadFrom` panic or return an error; every datagram is either ignored or delivered, and
  the read loop goes on to the next datagram.

  Model: ScionTime/Model/ScionQuic.lean (readPkt, serverConn.ReadFrom, clientConn.ReadFrom as
  repaired; `…Old` = before the `fix:` commit). gopacket/slayers parsing and
  snet.DefaultReplyPather are inputs (facts per datagram). Tied to the real code by
  harness/cmd/c08quic (crafted datagrams over loopback into the real connections in a child
  process; the real NTS-KE-over-QUIC server must still complete a key exchange afterwards).
-/
import ScionTime.Model.ScionQuic
namespace ScionTime.C08Quic
open ScionTime.ScionQuic
open ScionTime.ClientNtp (HostAddr t4Ip t16Ip t4Svc unmapIP v4mappedPrefix)

/-- a well-formed SCION/UDP datagram from an IPv4 host over a reversible (here: empty) path -/
def good : Dgram :=
  ⟨true, [.scion, .udp], 7, .v4 10 1 2 3, 40001, 0, [], [104, 105], some (0, [])⟩

/-- the same from a service address (T4Svc, "control service") -/
def fromSvc : Dgram := { good with src := ⟨t4Svc, [0, 2, 0, 0]⟩ }

/-- the same over a SCION path that consists of an all-zero meta header: the reply pather fails -/
def irreversible : Dgram := { good with pathType := 1, pathRaw := [0, 0, 0, 0], rev := none }

/-- **totality of readPkt**: every datagram is ignored or delivered — no panic. -/
theorem C08Quic_readPkt_total (bufLen : Nat) (d : Dgram) :
    readPkt bufLen d = .ignore ∨ ∃ p, readPkt bufLen d = .deliver p := by
  unfold readPkt readPktWith
  split
  · exact Or.inl rfl
  split
  · exact Or.inl rfl
  split
  · exact Or.inl rfl
  · exact Or.inl rfl
  · exact Or.inr ⟨_, rfl⟩

/-- **totality of serverConn.ReadFrom** per datagram: ignored or delivered — neither a panic
    nor an error return (on which quic-go would close the transport). -/
theorem C08Quic_serverRead_total (bufLen : Nat) (d : Dgram) :
    serverRead bufLen d = .ignore ∨ ∃ p t r, serverRead bufLen d = .deliver p t r := by
  unfold serverRead
  rcases C08Quic_readPkt_total bufLen d with h | ⟨p, h⟩
  · rw [h]; exact Or.inl rfl
  · rw [h]
    cases hr : d.rev with
    | none => exact Or.inl rfl
    | some tr => exact Or.inr ⟨p, tr.1, tr.2, rfl⟩

/-- **totality of clientConn.ReadFrom** per datagram. -/
theorem C08Quic_clientRead_total (r : Remote) (bufLen : Nat) (d : Dgram) :
    clientRead r bufLen d = .ignore ∨ ∃ p, clientRead r bufLen d = .deliver p := by
  unfold clientRead clientReadWith
  rcases C08Quic_readPkt_total bufLen d with h | ⟨p, h⟩
  · rw [h]; exact Or.inl rfl
  · rw [h]
    dsimp only
    split
    · exact Or.inr ⟨p, rfl⟩
    · exact Or.inl rfl

/-- What `readPkt` delivers is the datagram itself: it decoded, its last layer is UDP, its source
    is an IP address (type T4Ip or T16Ip) which — with the source ISD-AS and UDP port — becomes
    the remote address; the payload is the UDP payload cut to the caller's buffer. -/
theorem C08Quic_readPkt_deliver_sound (bufLen : Nat) (d : Dgram) (p : Pkt)
    (h : readPkt bufLen d = .deliver p) :
    d.decodeOk = true ∧ 2 ≤ d.decoded.length ∧ lastLayer d.decoded = some .udp ∧
    (d.src.type = t4Ip ∨ d.src.type = t16Ip) ∧
    p = ⟨d.payload.take bufLen, d.srcIA, d.src.raw, d.srcPort, d.pathType, d.pathRaw⟩ := by
  unfold readPkt readPktWith at h
  split at h
  · cases h
  rename_i h1
  split at h
  · cases h
  rename_i h2
  simp only [Bool.not_eq_true] at h1
  simp only [Bool.not_eq_true', Bool.and_eq_false_iff, not_or, Bool.not_eq_false, decide_eq_true_eq,
    beq_iff_eq] at h2
  cases hs : srcAddr d.src with
  | svc => rw [hs] at h; cases h
  | unsupported => rw [hs] at h; cases h
  | ip b =>
    rw [hs] at h
    dsimp only at h
    have htype : (d.src.type = t4Ip ∨ d.src.type = t16Ip) ∧ b = d.src.raw := by
      unfold srcAddr at hs
      split at hs
      · rename_i ht; cases hs; exact ⟨Or.inl ht, rfl⟩
      · split at hs
        · rename_i ht; cases hs; exact ⟨Or.inr ht, rfl⟩
        · split at hs <;> cases hs
    cases h
    refine ⟨by simpa using h1, ?_, h2.2, htype.1, ?_⟩
    · have := h2.1; omega
    · rw [htype.2]

/-- What the server side hands to quic-go: a datagram `readPkt` delivered, together with the
    reply path the reply pather made of the datagram's own path. -/
theorem C08Quic_server_deliver_sound (bufLen : Nat) (d : Dgram) (p : Pkt) (t : Nat) (r : List Nat)
    (h : serverRead bufLen d = .deliver p t r) :
    d.decodeOk = true ∧ 2 ≤ d.decoded.length ∧ lastLayer d.decoded = some .udp ∧
    (d.src.type = t4Ip ∨ d.src.type = t16Ip) ∧
    p = ⟨d.payload.take bufLen, d.srcIA, d.src.raw, d.srcPort, d.pathType, d.pathRaw⟩ ∧
    d.rev = some (t, r) := by
  unfold serverRead at h
  rcases C08Quic_readPkt_total bufLen d with hr | ⟨q, hr⟩
  · rw [hr] at h; cases h
  · rw [hr] at h
    dsimp only at h
    cases hv : d.rev with
    | none => rw [hv] at h; cases h
    | some tr =>
      rw [hv] at h
      obtain ⟨t', r'⟩ := tr
      dsimp only at h
      cases h
      obtain ⟨a1, a2, a3, a4, a5⟩ := C08Quic_readPkt_deliver_sound bufLen d p hr
      exact ⟨a1, a2, a3, a4, a5, rfl⟩

/-- What the client side hands to quic-go comes from the dialled remote address: same ISD-AS,
    same UDP port, and the same IP address up to IPv4-mapping. -/
theorem C08Quic_client_deliver_sound (r : Remote) (bufLen : Nat) (d : Dgram) (p : Pkt)
    (h : clientRead r bufLen d = .deliver p) :
    readPkt bufLen d = .deliver p ∧ p.ia = r.ia ∧ p.port = r.port ∧
    ∃ a, unmapIP p.host = some a ∧ unmapIP r.host = some a := by
  unfold clientRead clientReadWith at h
  rcases C08Quic_readPkt_total bufLen d with hr | ⟨q, hr⟩
  · rw [hr] at h; simp at h
  · rw [hr] at h
    dsimp only at h
    split at h
    · rename_i hs
      cases h
      refine ⟨hr, ?_⟩
      unfold sameRemote at hs
      simp only [Bool.and_eq_true, beq_iff_eq] at hs
      obtain ⟨⟨hia, hport⟩, hm⟩ := hs
      refine ⟨hia, hport, ?_⟩
      cases hx : unmapIP p.host with
      | none => rw [hx] at hm; simp at hm
      | some a =>
        cases hy : unmapIP r.host with
        | none => rw [hx, hy] at hm; simp at hm
        | some b =>
          rw [hx, hy] at hm
          have : a = b := by simpa using hm
          exact ⟨a, rfl, by rw [this]⟩
    · simp at h

/-- **the read loop makes progress**: whatever datagrams precede it, a deliverable datagram is
    what `ReadFrom` returns as soon as everything in front of it has been ignored — and
    (`C08Quic_serverReadFrom_outcomes`) nothing in front of it can end the call in any other way. -/
theorem C08Quic_serverReadFrom_progress (bufLen : Nat) (pre : List Dgram) (d : Dgram) (rest : List Dgram)
    (p : Pkt) (t : Nat) (r : List Nat)
    (hpre : ∀ x ∈ pre, serverRead bufLen x = .ignore) (hd : serverRead bufLen d = .deliver p t r) :
    serverReadFrom bufLen (pre ++ d :: rest) = some (.deliver p t r, rest) := by
  induction pre with
  | nil => simp [serverReadFrom, hd]
  | cons x xs ih =>
    have hx := hpre x (by simp)
    simp only [List.cons_append, serverReadFrom, hx]
    exact ih (fun y hy => hpre y (by simp [hy]))

/-- **outcomes of a `ReadFrom` call** over any sequence of datagrams: still waiting (all
    ignored), or a delivered datagram; never a panic, never an error. -/
theorem C08Quic_serverReadFrom_outcomes (bufLen : Nat) (ds : List Dgram) :
    serverReadFrom bufLen ds = none ∨
    ∃ p t r rest, serverReadFrom bufLen ds = some (.deliver p t r, rest) := by
  induction ds with
  | nil => exact Or.inl rfl
  | cons d rest ih =>
    rcases C08Quic_serverRead_total bufLen d with h | ⟨p, t, r, h⟩
    · simp only [serverReadFrom, h]; exact ih
    · exact Or.inr ⟨p, t, r, rest, by simp [serverReadFrom, h]⟩

/-- non-vacuity: the well-formed datagram is delivered with its own payload, source and path;
    and it still is when it arrives behind a datagram from a service address and one with an
    irreversible path (the two inputs of the counterexamples below). -/
example :
    serverRead 2048 good = .deliver ⟨[104, 105], 7, [10, 1, 2, 3], 40001, 0, []⟩ 0 [] ∧
    serverReadFrom 2048 [fromSvc, irreversible, good] =
      some (.deliver ⟨[104, 105], 7, [10, 1, 2, 3], 40001, 0, []⟩ 0 [], []) ∧
    clientRead ⟨7, v4mappedPrefix ++ [10, 1, 2, 3], 40001⟩ 2048 good
      = .deliver ⟨[104, 105], 7, [10, 1, 2, 3], 40001, 0, []⟩ ∧
    clientRead ⟨7, [10, 1, 2, 4], 40001⟩ 2048 good = .ignore := by decide

/-- The code before the fix, first defect: `readPkt` called `srcAddr.IP()` on whatever
    `scionLayer.SrcAddr()` returned without error — also a service address, for which
    `addr.Host.IP()` panics ("IP called on non-IP address"). One SCION/UDP datagram with an SVC
    source killed the NTS-KE-over-QUIC server or a client in the middle of a key exchange
    (failing input found by the check on the unrepaired code: `quic.read side=srv … st=4
    sa=00020000 …` ⇒ `panic explicit:IP_called_on_non-IP_address`; `quic.live` with the same
    bytes: the real server process is gone). As repaired the datagram is ignored. -/
theorem C08Quic_svc_source_old_counterexample :
    readPktOld 2048 fromSvc = .panic ∧ serverReadOld 2048 fromSvc = .panic ∧
    clientReadOld ⟨7, [10, 1, 2, 3], 40001⟩ 2048 fromSvc = .panic ∧
    serverReadFromOld 2048 [fromSvc, good] = some (.panic, [good]) ∧
    readPkt 2048 fromSvc = .ignore ∧ serverRead 2048 fromSvc = .ignore ∧
    clientRead ⟨7, [10, 1, 2, 3], 40001⟩ 2048 fromSvc = .ignore := by decide

/-- The code before the fix, second defect: `serverConn.ReadFrom` returned `errPathReversal` for a
    datagram whose path the reply pather cannot reverse; quic-go closes the transport on such an
    error, so the well-formed datagram behind it was never read (failing input found by the
    check: `quic.read side=srv … pt=1 path=00000000 … rev=err` ⇒ `err path-reversal`; `quic.live`:
    a key exchange with the real server no longer completes). As repaired it is ignored. -/
theorem C08Quic_irreversible_path_old_counterexample :
    serverReadOld 2048 irreversible = .errPathReversal ∧
    serverReadFromOld 2048 [irreversible, good] = some (.errPathReversal, [good]) ∧
    serverRead 2048 irreversible = .ignore ∧
    (∃ p t r, serverReadFrom 2048 [irreversible, good] = some (.deliver p t r, [])) := by
  refine ⟨by decide, by decide, by decide,
    ⟨⟨[104, 105], 7, [10, 1, 2, 3], 40001, 0, []⟩, 0, [], by decide⟩⟩

end ScionTime.C08Quic
