/-
  Kernel-checked ties (C18): unixutil.TimevalFromNsec and csptp.DurationFromTimeInterval as
  regenerated from /repo's Go source (Gen/Leaf.lean) are the hand-written models.
-/
import ScionTime.Gen.Leaf
import ScionTime.Model.Unixutil
import ScionTime.Model.CsptpConv
namespace ScionTime.LeafTieC18
open ScionTime.Gen.Leaf

theorem C18_leaf_DurationFromTimeInterval (i : Int64) :
    csptp_DurationFromTimeInterval i = CsptpConv.durationFromTimeInterval i := rfl

theorem C18_leaf_TimevalFromNsec (nsec : Int64) :
    unixutil_TimevalFromNsec nsec =
      ((Unixutil.timevalFromNsec nsec).sec, (Unixutil.timevalFromNsec nsec).usec) := by
  unfold unixutil_TimevalFromNsec Unixutil.timevalFromNsec
  by_cases h : nsec % 1000000000 < 0 <;> simp [h]

end ScionTime.LeafTieC18
