/-
  Kernel-checked ties (C18): unixutil.TimevalFromNsec, csptp.DurationFromTimeInterval and the
  four CSPTP delay/offset formulas (C2SDelay, S2CDelay, MeanPathDelay, ClockOffset) and the float
  conversions (timemath.Duration, ScaledPPMFromFreq, FreqFromScaledPPM, SystemClock.Drift) as
  regenerated from /repo's Go source (Gen/Leaf.lean) are the hand-written models, for all inputs.
-/
import ScionTime.Gen.Leaf
import ScionTime.Model.Unixutil
import ScionTime.Model.CsptpConv
import ScionTime.Model.FreqDrift
import ScionTime.Proofs.GoPrelude
namespace ScionTime.LeafTieC18
open ScionTime ScionTime.Gen.Leaf ScionTime.GoLemmas

theorem C18_leaf_DurationFromTimeInterval (i : Int64) :
    csptp_DurationFromTimeInterval i = CsptpConv.durationFromTimeInterval i := rfl

theorem C18_leaf_TimevalFromNsec (nsec : Int64) :
    unixutil_TimevalFromNsec nsec =
      ((Unixutil.timevalFromNsec nsec).sec, (Unixutil.timevalFromNsec nsec).usec) := by
  unfold unixutil_TimevalFromNsec Unixutil.timevalFromNsec
  by_cases h : nsec % 1000000000 < 0 <;> simp [h]

/-- `t.Sub(u)` of the prelude is the model's (the two definitions test the bounds in the
    opposite order) -/
theorem timeSub_eq (t u : Int) : Go.Time.sub t u = CsptpConv.timeSub t u := by
  unfold Go.Time.sub CsptpConv.timeSub
  split <;> split <;> first | rfl | omega | (split <;> first | rfl | omega)

theorem C18_leaf_C2SDelay (t0 t1 : Int) (c u : Int64) :
    csptp_C2SDelay t0 t1 c u = CsptpConv.c2sDelay t0 t1 c u := by
  unfold csptp_C2SDelay CsptpConv.c2sDelay; rw [timeSub_eq]

theorem C18_leaf_S2CDelay (t2 t3 : Int) (c u : Int64) :
    csptp_S2CDelay t2 t3 c u = CsptpConv.s2cDelay t2 t3 c u := by
  unfold csptp_S2CDelay CsptpConv.s2cDelay; rw [timeSub_eq]

theorem C18_leaf_MeanPathDelay (t0 t1 t2 t3 : Int) (c1 c3 : Int64) :
    csptp_MeanPathDelay t0 t1 t2 t3 c1 c3 = CsptpConv.meanPathDelay t0 t1 t2 t3 c1 c3 := by
  unfold csptp_MeanPathDelay CsptpConv.meanPathDelay; rw [timeSub_eq, timeSub_eq]

theorem C18_leaf_ClockOffset (t0 t1 t2 t3 : Int) (c1 c3 : Int64) :
    csptp_ClockOffset t0 t1 t2 t3 c1 c3 = CsptpConv.clockOffset t0 t1 t2 t3 c1 c3 := by
  unfold csptp_ClockOffset CsptpConv.clockOffset; rw [timeSub_eq, timeSub_eq]

/-! ### The float conversions (fourth generation of the leaf translator: float64 over the exact
software double Model/F64.lean): `timemath.Duration`, `unixutil.ScaledPPMFromFreq` /
`FreqFromScaledPPM` and `(*SystemClock).Drift` as regenerated from the Go source are the models
of Model/FreqDrift.lean, for every double (NaN, infinities, every int64). -/

theorem C18_leaf_Duration (s : F64.F64) : (timemath_Duration s).toInt = FreqDrift.duration s := by
  unfold timemath_Duration FreqDrift.duration F64.toDuration
  exact ofInt_toInt64 _

theorem C18_leaf_ScaledPPMFromFreq (f : F64.F64) :
    (unixutil_ScaledPPMFromFreq f).toInt = FreqDrift.scaledPPMFromFreq f := by
  unfold unixutil_ScaledPPMFromFreq FreqDrift.scaledPPMFromFreq FreqDrift.scale
  exact ofInt_toInt64 _

theorem C18_leaf_FreqFromScaledPPM (x : Int64) :
    unixutil_FreqFromScaledPPM x = FreqDrift.freqFromScaledPPM x.toInt := rfl

theorem C18_leaf_Drift (c : S_SystemClock) (d : Int64) :
    (clocks_SystemClock_Drift c d).toInt = FreqDrift.drift c.drift d.toInt := by
  unfold clocks_SystemClock_Drift FreqDrift.drift
  have hz : F64.ofInt 0 = FreqDrift.unknownDrift := by decide +kernel
  rw [hz]
  split
  · decide
  · exact C18_leaf_Duration _

/-- the unknown-drift branch and the proportional branch both occur -/
example : (clocks_SystemClock_Drift { drift := F64.ofInt 0, epoch := 0, adjustment := none } 1000000000).toInt = 9223372036854775807 ∧
    (clocks_SystemClock_Drift { drift := F64.ofConst 1 1000, epoch := 0, adjustment := none } 2000000000).toInt = 2000000 := by
  decide +kernel

end ScionTime.LeafTieC18
