/-
  Kernel-checked ties (C18): unixutil.TimevalFromNsec, csptp.DurationFromTimeInterval and the
  four CSPTP delay/offset formulas (C2SDelay, S2CDelay, MeanPathDelay, ClockOffset) as
  regenerated from /repo's Go source (Gen/Leaf.lean) are the hand-written models, for all inputs.
-/
import ScionTime.Gen.Leaf
import ScionTime.Model.Unixutil
import ScionTime.Model.CsptpConv
namespace ScionTime.LeafTieC18
open ScionTime ScionTime.Gen.Leaf

theorem C18_leaf_DurationFromTimeInterval (i : Int64) :
    csptp_DurationFromTimeInterval i = CsptpConv.durationFromTimeInterval i := rfl

theorem C18_leaf_TimevalFromNsec (nsec : Int64) :
    unixutil_TimevalFromNsec nsec =
      ((Unixutil.timevalFromNsec nsec).sec, (Unixutil.timevalFromNsec nsec).usec) := by
  unfold unixutil_TimevalFromNsec Unixutil.timevalFromNsec
  by_cases h : nsec % 1000000000 < 0 <;> simp [h]

/-- `t.Sub(u)` of the prelude is the model's (the two definitions test the bounds in the
    opposite order) -/
theorem timeSub_eq (t u : Int) : Go.Time.sub t u = CsptpConv.timeSub t u := by
  unfold Go.Time.sub CsptpConv.timeSub
  split <;> split <;> first | rfl | omega | (split <;> first | rfl | omega)

theorem C18_leaf_C2SDelay (t0 t1 : Int) (c u : Int64) :
    csptp_C2SDelay t0 t1 c u = CsptpConv.c2sDelay t0 t1 c u := by
  unfold csptp_C2SDelay CsptpConv.c2sDelay; rw [timeSub_eq]

theorem C18_leaf_S2CDelay (t2 t3 : Int) (c u : Int64) :
    csptp_S2CDelay t2 t3 c u = CsptpConv.s2cDelay t2 t3 c u := by
  unfold csptp_S2CDelay CsptpConv.s2cDelay; rw [timeSub_eq]

theorem C18_leaf_MeanPathDelay (t0 t1 t2 t3 : Int) (c1 c3 : Int64) :
    csptp_MeanPathDelay t0 t1 t2 t3 c1 c3 = CsptpConv.meanPathDelay t0 t1 t2 t3 c1 c3 := by
  unfold csptp_MeanPathDelay CsptpConv.meanPathDelay; rw [timeSub_eq, timeSub_eq]

theorem C18_leaf_ClockOffset (t0 t1 t2 t3 : Int) (c1 c3 : Int64) :
    csptp_ClockOffset t0 t1 t2 t3 c1 c3 = CsptpConv.clockOffset t0 t1 t2 t3 c1 c3 := by
  unfold csptp_ClockOffset CsptpConv.clockOffset; rw [timeSub_eq, timeSub_eq]

end ScionTime.LeafTieC18
