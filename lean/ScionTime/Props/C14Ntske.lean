/-
  C14 (NTS-KE clauses) — NTS-KE records round-trip through pack / ReadData, and a record
  stream decodes to the same data however the transport segments it into reads.
  Model: ScionTime/Model/Ntske.lean; helper lemmas: ScionTime/Proofs/Ntske.lean.
-/
import ScionTime.Proofs.Ntske
import ScionTime.Gen.Ntske
namespace ScionTime.C14Ntske
open ScionTime.Ntske

/-- `ReadData` over a chunked transport computes the flat specification reader on the
    concatenation of the chunks (empty chunks included). -/
theorem C14Ntske_readData_flat (chunks : List (List Byte)) (d : Data) :
    readData chunks d = readFlat chunks.flatten d :=
  readData_eq_readFlat chunks d

/-- Segmentation independence: two deliveries of the same byte stream decode to the same
    data and the same error, whatever the read boundaries are. -/
theorem C14Ntske_readData_segmentation (c₁ c₂ : List (List Byte)) (d : Data)
    (h : c₁.flatten = c₂.flatten) : readData c₁ d = readData c₂ d := by
  rw [readData_eq_readFlat, readData_eq_readFlat, h]

example : readData [[0, 5, 0, 4, 1, 2, 3, 4, 128, 0, 0, 0]] {} =
          readData [[0, 5, 0, 4, 1], [], [2, 3, 4, 128], [0, 0, 0]] {} :=
  C14Ntske_readData_segmentation _ _ _ (by decide)

/-- F7 (unrepaired code, cookie body read with one `Read`): the result depended on the
    segmentation — a cookie record delivered in two reads came out cut short and zero padded,
    and the rest of it was parsed as a record header. -/
theorem C14Ntske_F7_old_depends_on_segmentation :
    ∃ c₁ c₂ : List (List Byte), c₁.flatten = c₂.flatten ∧ readDataOld c₁ {} ≠ readDataOld c₂ {} :=
  ⟨[[0, 5, 0, 4, 1, 2, 3, 4, 128, 0, 0, 0]], [[0, 5, 0, 4, 1], [2, 3, 4, 128, 0, 0, 0]],
   by decide, by decide⟩

/-- the two outcomes of the F7 input under the unrepaired reader -/
theorem C14Ntske_F7_old_outcomes :
    readDataOld [[0, 5, 0, 4, 1, 2, 3, 4, 128, 0, 0, 0]] {} = ({ cookies := [[1, 2, 3, 4]] }, none) ∧
    readDataOld [[0, 5, 0, 4, 1], [2, 3, 4, 128, 0, 0, 0]] {} = ({ cookies := [[1, 0, 0, 0]] }, some .ueof) := by
  decide

/-! ### Timed delivery: pauses do not matter, restarting the reader does

The transport of the model is a list of chunks; it has no clock, so by
`C14Ntske_readData_segmentation` a response decodes to the same data however long the peer
stays silent between two segments. That describes the code only as long as the client waits
without a deadline (pinned below). A wrapper that bounds the wait and *calls `ReadData`
again* after a timeout is a different reader (`readRestart`): harmless when the silence falls
between two records, wrong anywhere else. -/

/-- The client code of net/ntske sets no read deadline / timeout while it waits for the key
    exchange response (list regenerated from the source by harness/extract/x_c14.go): the
    clock-free transport of the model is the transport the code sees. -/
theorem C14Ntske_pin_no_read_deadline : Gen.Ntske.clientReadDeadlinesNs = [] := by decide

/-- A reader that is cut off exactly between two records (everything delivered so far is a
    sequence of well-formed records the reader accepts) and started again on the rest decodes
    what the uninterrupted reader decodes. -/
theorem C14Ntske_restart_at_record_boundary (items : List Item)
    (h : ∀ it ∈ items, it.wf ∧ it.accepted) (post : List Byte) (d : Data) :
    readRestart (items.flatMap Item.enc) post d = readFlat (items.flatMap Item.enc ++ post) d := by
  have h1 : readFlat (items.flatMap Item.enc) d = (items.foldl Item.apply d, some .eof) := by
    rw [readFlat_eq_iff]
    have := (runs_items items [] (items.foldl Item.apply d, some .eof) d h).2
      (.done (by simp [step, flatFull, Res.andThen]))
    simpa using this
  have h2 : readFlat (items.flatMap Item.enc ++ post) d = readFlat post (items.foldl Item.apply d) := by
    rw [readFlat_eq_iff, runs_items items post _ d h]
    exact runs_readFlat _ _
  simp [readRestart, h1, h2]

/-- non-vacuity: an algorithm record and a cookie record delivered, then silence, then a
    second cookie and the end of the message -/
example : readRestart [128, 4, 0, 2, 0, 15, 0, 5, 0, 1, 7] [0, 5, 0, 1, 8, 128, 0, 0, 0] {} =
    ({ algo := 15, cookies := [[7], [8]] }, none) := by decide

/-- Restarting in mid-record is NOT equivalent, and not detectably so: the server packs
    algorithm 15 and the cookies `07`, `0909 80000000`, `08` (cookies are opaque; any bytes are
    legitimate). Cut off two bytes into the body of the second cookie and restarted, the reader
    takes the rest of that body, `80 00 00 00`, for an end-of-message record and returns
    *without error* with one cookie instead of three. -/
theorem C14Ntske_restart_in_record_differs :
    let pre : List Byte := [128, 4, 0, 2, 0, 15, 0, 5, 0, 1, 7, 0, 5, 0, 6, 9, 9]
    let post : List Byte := [128, 0, 0, 0, 0, 5, 0, 1, 8, 128, 0, 0, 0]
    pre ++ post = packMsg [.algorithm [15], .cookie [7], .cookie [9, 9, 128, 0, 0, 0], .cookie [8], .end_] ∧
    readFlat (pre ++ post) {} = ({ algo := 15, cookies := [[7], [9, 9, 128, 0, 0, 0], [8]] }, none) ∧
    readRestart pre post {} = ({ algo := 15, cookies := [[7]] }, none) := by
  decide

/-- The same inside a header: cut off after the first two bytes of a port record
    (`80 07 | 00 02 01 bb`), the restarted reader sees `00 02 01 bb` — an error record header —
    and reports an error the server never sent. -/
theorem C14Ntske_restart_in_header_differs :
    let pre : List Byte := [128, 4, 0, 2, 0, 15, 0, 5, 0, 1, 7, 128, 7]
    let post : List Byte := [0, 2, 1, 187, 128, 0, 0, 0]
    readFlat (pre ++ post) {} = ({ algo := 15, port := 443, cookies := [[7]] }, none) ∧
    (readRestart pre post {}).2 ≠ none := by
  decide

/-! ### Round trip -/

/-- Round trip: a message of data records closed by an End record, packed by
    `ExchangeMsg.Pack` and delivered under *any* segmentation (and followed by anything),
    is decoded by `ReadData` without error to exactly the records' fields, in order. -/
theorem C14Ntske_record_roundtrip (rs : List Rec) (h : ∀ r ∈ rs, Fits r)
    (chunks : List (List Byte)) (tail : List Byte)
    (hc : chunks.flatten = packMsg (rs ++ [.end_]) ++ tail) (d : Data) :
    readData chunks d = (rs.foldl Rec.apply d, none) :=
  readData_packed rs h chunks tail hc d

example : readData [[128, 1, 0, 2, 0, 0, 128, 4], [0, 2, 0, 15, 0, 5, 0, 2, 7], [9, 128, 0, 0, 0]] {} =
    ({ algo := 15, cookies := [[7, 9]] }, none) :=
  C14Ntske_record_roundtrip [.nextProto 0, .algorithm [15], .cookie [7, 9]]
    (by intro r hr; simp at hr; rcases hr with rfl | rfl | rfl <;> simp [Fits]) _ [] (by decide) {}

/-- Limitation of the reader (as the code is): an AEAD record listing two algorithms does not
    round-trip — `ReadData` takes two body bytes whatever the length field says and parses
    the rest of the body as the next record header. -/
theorem C14Ntske_multi_algorithm_desync :
    readData [packMsg [.algorithm [15, 30], .end_]] {} = ({ algo := 15 }, some .ueof) := by
  decide

end ScionTime.C14Ntske
