import ScionTime.Model.Ntske
namespace ScionTime.C14Ntske
open ScionTime.Ntske
theorem C14Ntske_stub : be16 1 2 = 258 := by decide
end ScionTime.C14Ntske
