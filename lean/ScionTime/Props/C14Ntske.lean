/-
  C14 (NTS-KE clauses) — NTS-KE records round-trip through pack / ReadData, and a record
  stream decodes to the same data however the transport segments it into reads.
  Model: ScionTime/Model/Ntske.lean; helper lemmas: ScionTime/Proofs/Ntske.lean.
-/
import ScionTime.Proofs.Ntske
namespace ScionTime.C14Ntske
open ScionTime.Ntske

/-- `ReadData` over a chunked transport computes the flat specification reader on the
    concatenation of the chunks (empty chunks included). -/
theorem C14Ntske_readData_flat (chunks : List (List Byte)) (d : Data) :
    readData chunks d = readFlat chunks.flatten d :=
  readData_eq_readFlat chunks d

/-- Segmentation independence: two deliveries of the same byte stream decode to the same
    data and the same error, whatever the read boundaries are. -/
theorem C14Ntske_readData_segmentation (c₁ c₂ : List (List Byte)) (d : Data)
    (h : c₁.flatten = c₂.flatten) : readData c₁ d = readData c₂ d := by
  rw [readData_eq_readFlat, readData_eq_readFlat, h]

example : readData [[0, 5, 0, 4, 1, 2, 3, 4, 128, 0, 0, 0]] {} =
          readData [[0, 5, 0, 4, 1], [], [2, 3, 4, 128], [0, 0, 0]] {} :=
  C14Ntske_readData_segmentation _ _ _ (by decide)

/-- F7 (unrepaired code, cookie body read with one `Read`): the result depended on the
    segmentation — a cookie record delivered in two reads came out cut short and zero padded,
    and the rest of it was parsed as a record header. -/
theorem C14Ntske_F7_old_depends_on_segmentation :
    ∃ c₁ c₂ : List (List Byte), c₁.flatten = c₂.flatten ∧ readDataOld c₁ {} ≠ readDataOld c₂ {} :=
  ⟨[[0, 5, 0, 4, 1, 2, 3, 4, 128, 0, 0, 0]], [[0, 5, 0, 4, 1], [2, 3, 4, 128, 0, 0, 0]],
   by decide, by decide⟩

/-- the two outcomes of the F7 input under the unrepaired reader -/
theorem C14Ntske_F7_old_outcomes :
    readDataOld [[0, 5, 0, 4, 1, 2, 3, 4, 128, 0, 0, 0]] {} = ({ cookies := [[1, 2, 3, 4]] }, none) ∧
    readDataOld [[0, 5, 0, 4, 1], [2, 3, 4, 128, 0, 0, 0]] {} = ({ cookies := [[1, 0, 0, 0]] }, some .ueof) := by
  decide

/-! ### Round trip -/

/-- Round trip: a message of data records closed by an End record, packed by
    `ExchangeMsg.Pack` and delivered under *any* segmentation (and followed by anything),
    is decoded by `ReadData` without error to exactly the records' fields, in order. -/
theorem C14Ntske_record_roundtrip (rs : List Rec) (h : ∀ r ∈ rs, Fits r)
    (chunks : List (List Byte)) (tail : List Byte)
    (hc : chunks.flatten = packMsg (rs ++ [.end_]) ++ tail) (d : Data) :
    readData chunks d = (rs.foldl Rec.apply d, none) :=
  readData_packed rs h chunks tail hc d

example : readData [[128, 1, 0, 2, 0, 0, 128, 4], [0, 2, 0, 15, 0, 5, 0, 2, 7], [9, 128, 0, 0, 0]] {} =
    ({ algo := 15, cookies := [[7, 9]] }, none) :=
  C14Ntske_record_roundtrip [.nextProto 0, .algorithm [15], .cookie [7, 9]]
    (by intro r hr; simp at hr; rcases hr with rfl | rfl | rfl <;> simp [Fits]) _ [] (by decide) {}

/-- Limitation of the reader (as the code is): an AEAD record listing two algorithms does not
    round-trip — `ReadData` takes two body bytes whatever the length field says and parses
    the rest of the body as the next record header. -/
theorem C14Ntske_multi_algorithm_desync :
    readData [packMsg [.algorithm [15, 30], .end_]] {} = ({ algo := 15 }, some .ueof) := by
  decide

end ScionTime.C14Ntske
