/-
  Kernel-checked tie (C20 / C10): `ntske.ExportKeys` of net/ntske/ntske.go as regenerated from
  /repo's Go source on every run (Gen/LeafNtske.lean; eighth generation of the leaf translator:
  string and `[]byte{…}` literals, `x.f, err = call(…)`, and the method
  `cs.ExportKeyingMaterial(label, context, length)` of the opaque `tls.ConnectionState` as a
  FUNCTION-typed parameter applied to the translated arguments of each call site — so the tie sees
  which context goes with which key).

  PROVED for every `Data` value and EVERY function standing for the TLS exporter:
    `C20_leaf_ExportKeys`: the S2C key is the exporter's value at (the RFC 8915 label, the context
    `00 00 00 0f 01`, 32), the C2S key its value at (the same label, `00 00 00 0f 00`, 32), in this
    order; a failed S2C export returns its error without a second export; the error returned is nil
    only if both exports succeeded; label, contexts and length are the model's
    (`Ntske.exporterLabel`, `s2cContext`, `c2sContext`, `exportLen`).
  Swapping the contexts, exporting both keys under one context, another label or length change the
  regenerated definition and the theorem no longer checks.
-/
import ScionTime.Gen.LeafNtske
import ScionTime.Model.Ntske
namespace ScionTime.LeafTieC20
open ScionTime ScionTime.Gen.Leaf

abbrev Exporter := String → List UInt8 → Int64 → (List UInt8 × Bool)

def s2cCtx : List UInt8 := [0, 0, 0, 15, 1]
def c2sCtx : List UInt8 := [0, 0, 0, 15, 0]

theorem C20_leaf_contexts_are_models :
    s2cCtx.map UInt8.toNat = Ntske.s2cContext ∧ c2sCtx.map UInt8.toNat = Ntske.c2sContext ∧
    (32 : Int64).toInt = Ntske.exportLen ∧ "EXPORTER-network-time-security" = Ntske.exporterLabel := by
  refine ⟨by decide, by decide, by decide, rfl⟩

/-- **`ExportKeys`, for every exporter**: which arguments each key is exported with, the order, and
    the error paths. -/
theorem C20_leaf_ExportKeys (data : S_Data) (ekm : Exporter) :
    ntske_ExportKeys data ekm =
      (let r1 := ekm Ntske.exporterLabel s2cCtx 32
       if r1.2 = true then ({ data with S2cKey := r1.1 }, true)
       else
         let r2 := ekm Ntske.exporterLabel c2sCtx 32
         ({ data with S2cKey := r1.1, C2sKey := r2.1 }, r2.2)) := by
  unfold ntske_ExportKeys
  simp only [s2cCtx, c2sCtx, Ntske.exporterLabel]
  by_cases h1 : (ekm "EXPORTER-network-time-security" [0, 0, 0, 15, 1] 32).2 = true
  · simp [h1]
  · have h1' : (ekm "EXPORTER-network-time-security" [0, 0, 0, 15, 1] 32).2 = false := by simpa using h1
    by_cases h2 : (ekm "EXPORTER-network-time-security" [0, 0, 0, 15, 0] 32).2 = true
    · simp [h1', h2]
    · have h2' : (ekm "EXPORTER-network-time-security" [0, 0, 0, 15, 0] 32).2 = false := by simpa using h2
      simp [h1', h2']

/-- the two keys come from DIFFERENT exporter inputs: an exporter that answers by its context's last
    byte shows which key got which context -/
def tagExporter : Exporter := fun _ ctx _ => ([ctx.getLastD 9], false)

example : (ntske_ExportKeys { C2sKey := [], S2cKey := [], Port := 0, Algo := 0 } tagExporter).1.S2cKey = [1] ∧
    (ntske_ExportKeys { C2sKey := [], S2cKey := [], Port := 0, Algo := 0 } tagExporter).1.C2sKey = [0] := by
  decide +kernel

/-- a failing first export: no second export (the C2S key keeps its old value), the error is returned -/
example : (ntske_ExportKeys { C2sKey := [7], S2cKey := [], Port := 0, Algo := 0 } (fun _ _ _ => ([], true))) =
    ({ C2sKey := [7], S2cKey := [], Port := 0, Algo := 0 }, true) := rfl

end ScionTime.LeafTieC20
