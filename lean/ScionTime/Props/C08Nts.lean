/-
  C08 (fragment) — no network input can crash or hang the NTS decoders and the listeners' NTS
  reply path: for *every* byte string the outcome is a value or an error — never a Go panic, never
  a non-terminating loop. All definitions are total (structural recursion on fuel = input length
  + 1); `Res.hang` is the model's "fuel exhausted / loop does not advance" outcome and `Res.Safe`
  excludes it together with every panic. Models: Model/Nts.lean, Cookies.lean, NtsPool.lean.
-/
import ScionTime.Proofs.NtsTotal
import ScionTime.Proofs.NtsReply
import ScionTime.Model.NtsPool
import ScionTime.Gen.Server
namespace ScionTime.C08Nts
open ScionTime.Nts

set_option maxRecDepth 100000 in
/-- The listeners' NTS branch is modelled by `serverReply` (and transcribed by the harness, which
    cannot call the listeners without sockets). Pin: the sequence of calls into net/nts and
    net/ntske, and the bound of the cookie loop, in `runIPServer` and `runSCIONServer` are the ones
    the model follows (regenerated from the sources on every run). -/
theorem C08Nts_pin_ntsBranch :
    Gen.Server.ntsBranch_runIPServer = "nts.DecodePacket;ntsreq.FirstCookie;encryptedCookie.Decode;provider.Get;encryptedCookie.Decrypt;nts.ProcessRequest;provider.Current;range(len(ntsreq.Cookies)+len(ntsreq.CookiePlaceholders));serverCookie.EncryptWithNonce;encryptedCookie.Encode;nts.NewResponsePacket;nts.EncodePacket" ∧
    Gen.Server.ntsBranch_runSCIONServer = Gen.Server.ntsBranch_runIPServer := by
  decide

/-- `nts.DecodePacket`: total on all inputs (this is also the fuel lemma: `b.length + 1` steps
    suffice, every iteration consumes at least 4 bytes). -/
theorem C08Nts_decodePacket_total (b : Bytes) : (decodePacket b).Safe := decodePacket_safe b

/-- `ServerCookie.Decode`, `EncryptedServerCookie.Decode`: total on all inputs. -/
theorem C08Nts_cookieDecode_total (b : Bytes) : (scDecode b).Safe ∧ (ecDecode b).Safe :=
  ⟨decodeTLV_safe _ _ _ b, decodeTLV_safe _ _ _ b⟩

/-- `EncryptedServerCookie.Decrypt`: total for every AEAD, cookie and key — including nonces of
    any length (the library's panic is not reachable) and keys of any size. -/
theorem C08Nts_decrypt_total (A : AEAD) (ec : Triple) (key : Bytes) : (decryptCookie A ec key).Safe :=
  decryptCookie_safe A ec key

/-- `ProcessRequest` (authenticate + its walk over the decrypted fields): total. -/
theorem C08Nts_processRequest_total (A : AEAD) (b key : Bytes) (d : Decoded) : (processRequest A b key d).Safe := by
  unfold processRequest processRequestG
  split
  · simp
  · split
    · simp
    · exact authenticate_safe A b key d

/-- `ProcessResponse`: total. -/
theorem C08Nts_processResponse_total (A : AEAD) (b key : Bytes) (d : Decoded) (reqId : Bytes) :
    (processResponse A b key d reqId).Safe := by
  unfold processResponse processResponseG
  split
  · simp
  · exact authenticate_safe A b key d

/-- The client's handling of any datagram as a response (DecodePacket, ProcessResponse,
    StoreCookie): total, and a rejected datagram leaves the client state untouched. -/
theorem C08Nts_client_response_total (A : AEAD) (st : NtsPool.Client) (b : Bytes) :
    (NtsPool.response A st b).2.Safe ∧ ((NtsPool.response A st b).2 ≠ .ok () → (NtsPool.response A st b).1 = st) := by
  have h1 := decodePacket_safe b
  unfold NtsPool.response
  cases hd : decodePacket b with
  | ok d =>
    have h2 := C08Nts_processResponse_total A b st.s2c d st.reqId
    simp only [Res.bind_ok]
    cases hp : processResponse A b st.s2c d st.reqId with
    | ok cs => simp
    | err e => simp
    | panic p => rw [hp] at h2; exact h2.elim
    | hang => rw [hp] at h2; exact h2.elim
  | err e => simp
  | panic p => rw [hd] at h1; exact h1.elim
  | hang => rw [hd] at h1; exact h1.elim

/-- Environment assumption of the reply path: whatever decodes as a cookie and opens under a
    server key was issued by this project's NTS-KE/NTP server — it carries a 16-bit algorithm
    and two 32-byte AES-SIV-CMAC-256 keys. (Unforgeability of the AEAD plus the
    behaviour of `core/server/ntske.go`; not a property of the bytes received.) -/
def IssuedOnly (A : AEAD) : Prop :=
  ∀ ec key sc, decryptCookie A ec key = .ok sc → sc.x.length = 32 ∧ sc.y.length = 32 ∧ sc.num < 65536

/-- **The listeners' NTS branch is total**: for every datagram, key table, current key and
    random stream, decode → first cookie → cookie decode → key lookup → decrypt → ProcessRequest →
    fresh cookies → NewResponsePacket → EncodePacket ends in a reply or in dropping the request;
    a reply is at most `MaxPacketLen` bytes. (Lawful, Sized, OpenSized: the AEAD's laws.) -/
theorem C08Nts_reply_total (A : AEAD) (hl : A.Lawful) (hs : A.Sized) (ho : A.OpenSized) (hi : IssuedOnly A)
    (keys : Nat → Option Bytes) (curId : Nat) (curKey b hdr rnd : Bytes) (hh : hdr.length = ntpPacketLen) :
    (serverReply A keys curId curKey b hdr rnd).Safe ∧
      ∀ r, serverReply A keys curId curKey b hdr rnd = .ok r → r.length ≤ maxPacketLen := by
  have s1 := decodePacket_safe b
  cases hd : decodePacket b with
  | panic p => rw [hd] at s1; exact s1.elim
  | hang => rw [hd] at s1; exact s1.elim
  | err e =>
    have : serverReply A keys curId curKey b hdr rnd = .err e := by
      unfold decodePacket at hd; simp [serverReply, serverReplyG, hd, bind, Res.bind]
    rw [this]; simp
  | ok d =>
  cases hc : firstCookie d with
  | panic p => unfold firstCookie at hc; split at hc <;> simp at hc
  | hang => unfold firstCookie at hc; split at hc <;> simp at hc
  | err e =>
    have : serverReply A keys curId curKey b hdr rnd = .err e := by
      unfold decodePacket at hd; simp [serverReply, serverReplyG, hd, hc, bind, Res.bind]
    rw [this]; simp
  | ok c0 =>
  have s2 := decodeTLV_safe cookieTypeKeyID cookieTypeNonce cookieTypeCiphertext c0
  cases he : decodeTLV true cookieTypeKeyID cookieTypeNonce cookieTypeCiphertext c0 with
  | panic p => rw [he] at s2; exact s2.elim
  | hang => rw [he] at s2; exact s2.elim
  | err e =>
    have : serverReply A keys curId curKey b hdr rnd = .err e := by
      unfold decodePacket at hd; simp [serverReply, serverReplyG, hd, hc, he, bind, Res.bind]
    rw [this]; simp
  | ok ec =>
  cases hk : keys ec.num with
  | none =>
    have : serverReply A keys curId curKey b hdr rnd = .err .noKey := by
      unfold decodePacket at hd; simp [serverReply, serverReplyG, hd, hc, he, hk, bind, Res.bind]
    rw [this]; simp
  | some key =>
  have s3 := decryptCookie_safe A ec key
  cases hsc : decryptCookie A ec key with
  | panic p => rw [hsc] at s3; exact s3.elim
  | hang => rw [hsc] at s3; exact s3.elim
  | err e =>
    have : serverReply A keys curId curKey b hdr rnd = .err e := by
      unfold decodePacket at hd; unfold decryptCookie at hsc
      simp [serverReply, serverReplyG, hd, hc, he, hk, hsc, bind, Res.bind]
    rw [this]; simp
  | ok sc =>
  have s4 := C08Nts_processRequest_total A b sc.y d
  cases hr : processRequest A b sc.y d with
  | panic p => rw [hr] at s4; exact s4.elim
  | hang => rw [hr] at s4; exact s4.elim
  | err e =>
    have : serverReply A keys curId curKey b hdr rnd = .err e := by
      unfold decodePacket at hd; unfold decryptCookie at hsc; unfold processRequest at hr
      simp [serverReply, serverReplyG, hd, hc, he, hk, hsc, hr, bind, Res.bind]
    rw [this]; simp
  | ok cs =>
  obtain ⟨hx, hy, hnum⟩ := hi ec key sc hsc
  by_cases hcur : keyOk curKey = true
  · obtain ⟨r, fresh, hok, hrl, _⟩ := serverReply_ok A hl hs ho keys curId curKey b hdr rnd d c0 ec sc key cs hh hd hc he hk hsc hr
      hx hy hnum hcur
    rw [hok]
    exact ⟨by simp, fun r' h => by injection h with h; rw [← h]; exact hrl⟩
  · have hemp := freshCookies_nokey A sc curKey curId (by simpa using hcur) (cs.length + d.nph) rnd
    have : serverReply A keys curId curKey b hdr rnd = .err .noCookies := by
      unfold decodePacket at hd; unfold decryptCookie at hsc; unfold processRequest at hr
      simp [serverReply, serverReplyG, hd, hc, he, hk, hsc, hr, bind, Res.bind, hemp]
    rw [this]; simp

/-! ### the pinned commit: the same statements are false (`decide`d counterexamples) -/

/-- F2: an extension field with length 0 — `DecodePacket` never advances. Header + `03 04 00 00`
    + 24 bytes: reachable unauthenticated on every NTP listener. -/
theorem C08Nts_decodePacket_hang_old :
    decodePacketOld (zeros 48 ++ [3, 4, 0, 0] ++ zeros 24) = .hang ∧
    decodePacket (zeros 48 ++ [3, 4, 0, 0] ++ zeros 24) = .err .extLen := by decide

/-- F3: cookie TLVs cut short or with a length beyond the buffer — index / slice panic. -/
theorem C08Nts_cookieDecode_panic_old :
    ecDecodeOld [4] = .panic .index ∧ ecDecodeOld [4, 1, 0, 2] = .panic .index ∧
    ecDecodeOld [5, 1, 0, 9, 0] = .panic .slice ∧ scDecodeOld [2, 1, 0xff, 0xff] = .panic .slice ∧
    ecDecode [4] = .err .cookieData ∧ ecDecode [4, 1, 0, 2] = .err .cookieData ∧
    ecDecode [5, 1, 0, 9, 0] = .err .cookieData ∧ scDecode [2, 1, 0xff, 0xff] = .err .cookieData := by decide

/-- a toy AEAD (tag = 16 zero bytes, `Open` always succeeds) for the concrete counterexamples -/
def toyAEAD : AEAD where
  sealF _ _ p _ := p ++ zeros 16
  openF _ _ c _ := some (c.take (c.length - 16))

/-- a request as a hostile client holding a valid cookie sends it: identifier of `n` bytes -/
def craftedRequest (n : Nat) : Bytes :=
  let ck := ecEncode ⟨1, zeros 16, scEncode ⟨15, zeros 32, zeros 32⟩ ++ zeros 16⟩
  zeros 48 ++ field extUniqueIdentifier (zeros n) ++ field extCookie ck ++ authField (zeros 16) (zeros 16)

set_option maxRecDepth 100000 in
/-- F15: a 4-byte unique identifier passes `DecodePacket` and `ProcessRequest` at the pinned
    commit, and the listener then dies in `EncodePacket` with `panic(errShortUniqueID)`;
    after the fix the request is dropped. -/
theorem C08Nts_short_uid_old :
    serverReplyOld toyAEAD (fun _ => some (zeros 32)) 1 (zeros 32) (craftedRequest 4) (zeros 48) [] = .panic .shortUid ∧
    serverReply toyAEAD (fun _ => some (zeros 32)) 1 (zeros 32) (craftedRequest 4) (zeros 48) [] = .err .shortUid := by
  decide

set_option maxRecDepth 100000 in
/-- F15b (found by this check): a 1000-byte unique identifier leaves no room for the reply — index
    out of range in `EncodePacket` at the pinned commit; dropped after the fix. -/
theorem C08Nts_long_uid_old :
    serverReplyOld toyAEAD (fun _ => some (zeros 32)) 1 (zeros 32) (craftedRequest 1000) (zeros 48) [] = .panic .index ∧
    serverReply toyAEAD (fun _ => some (zeros 32)) 1 (zeros 32) (craftedRequest 1000) (zeros 48) [] = .err .tooLarge := by
  decide

end ScionTime.C08Nts
