import ScionTime.Model.Nts
namespace ScionTime.C08Nts
end ScionTime.C08Nts
