/-
  Helper lemmas for the measurement variant of C02.
-/
import ScionTime.Model.Measurements
import ScionTime.Proofs.Sort
namespace ScionTime.Measurements
open ScionTime.Timemath

theorem getD_map_offset (s : List M) (i : Nat) :
    (s.map M.offset).getD i 0 = (s.getD i zeroM).offset := by
  by_cases h : i < s.length
  · rw [getD_of_lt _ _ _ h, getD_of_lt _ _ _ (by rw [List.length_map]; exact h), List.getElem_map]
  · simp [List.getD, h, zeroM]

theorem offsets_sorted_perm {ms post : List M} (h : SortedPerm ms post) :
    post.map M.offset = sort64 (ms.map M.offset) := by
  apply sort64_unique (h.1.map _)
  unfold SortedBy
  exact List.pairwise_map.mpr h.2

end ScionTime.Measurements
