/-
  Lemmas about the scan loop of `updateTX` (x, max0, max1) and the swap-with-last removal.
-/
import ScionTime.Proofs.ServerInv
namespace ScionTime.Server
open ScionTime.Time64

/-- `buf[x] = buf[len-1]; len--` -/
def swapRemove (l : List Entry) (x : Nat) : List Entry :=
  (l.set x (l.getD (l.length - 1) defaultEntry)).dropLast

theorem getD_last (l : List Entry) (h : l ≠ []) : l.getD (l.length - 1) defaultEntry = l.getLast h := by
  rw [List.getLast_eq_getElem, List.getD_eq_getElem?_getD]
  have : l.length - 1 < l.length := by
    cases l with
    | nil => exact absurd rfl h
    | cons a t => simp
  rw [List.getElem?_eq_getElem this]; rfl

theorem swapRemove_perm : ∀ (l : List Entry) (x : Nat), x < l.length →
    (swapRemove l x).Perm (l.eraseIdx x)
  | [], x, h => by simp at h
  | [a], x, h => by
    have : x = 0 := by simpa using h
    subst this; simp [swapRemove]
  | a :: b :: t, 0, _ => by
    unfold swapRemove
    rw [getD_last _ (by simp)]
    simp only [List.set_cons_zero, List.eraseIdx_zero, List.tail_cons]
    rw [List.dropLast_cons_of_ne_nil (by simp)]
    rw [List.getLast_cons (by simp)]
    have h1 := List.dropLast_concat_getLast (l := b :: t) (by simp)
    have h2 : ((b :: t).getLast (by simp) :: (b :: t).dropLast).Perm ((b :: t).dropLast ++ [(b :: t).getLast (by simp)]) :=
      List.perm_append_comm (l₁ := [(b :: t).getLast (by simp)]) (l₂ := (b :: t).dropLast)
    rw [h1] at h2
    exact h2
  | a :: b :: t, x + 1, h => by
    have ih := swapRemove_perm (b :: t) x (by simpa using h)
    unfold swapRemove at ih ⊢
    rw [getD_last _ (by simp)] at ih ⊢
    rw [List.getLast_cons (by simp)]
    simp only [List.set_cons_succ, List.eraseIdx_cons_succ]
    rw [List.dropLast_cons_of_ne_nil (by
      intro e
      have := congrArg List.length e
      simp at this)]
    exact List.Perm.cons a ih

/-- members of the buffer after the removal: the old members at positions other than `x` -/
theorem mem_swapRemove {l : List Entry} {x : Nat} (hx : x < l.length) {e : Entry}
    (he : e ∈ swapRemove l x) : ∃ j, ∃ h : j < l.length, j ≠ x ∧ l[j] = e := by
  rw [(swapRemove_perm l x hx).mem_iff, List.mem_eraseIdx_iff_getElem] at he
  exact he

theorem length_swapRemove (l : List Entry) (x : Nat) (hx : x < l.length) :
    (swapRemove l x).length = l.length - 1 := by
  rw [(swapRemove_perm l x hx).length_eq, List.length_eraseIdx]; simp [hx]

theorem nodup_swapRemove (l : List Entry) (x : Nat) (hx : x < l.length)
    (hn : (l.map (·.rx)).Nodup) : ((swapRemove l x).map (·.rx)).Nodup := by
  rw [((swapRemove_perm l x hx).map _).nodup_iff]
  exact List.Nodup.sublist ((List.eraseIdx_sublist l x).map _) hn

/-- with distinct rx values, the entries that remain differ in rx from the removed one -/
theorem rx_ne_of_mem_swapRemove {l : List Entry} {x : Nat} (hx : x < l.length)
    (hn : (l.map (·.rx)).Nodup) {e : Entry} (he : e ∈ swapRemove l x) : e ∈ l ∧ e.rx ≠ l[x].rx := by
  obtain ⟨j, hj, hne, hje⟩ := mem_swapRemove hx he
  refine ⟨hje ▸ List.getElem_mem hj, ?_⟩
  intro heq
  rw [List.nodup_iff_pairwise_ne, List.pairwise_iff_getElem] at hn
  rcases Nat.lt_or_gt_of_ne hne with c | c
  · have := hn j x (by simpa using hj) (by simpa using hx) c
    simp only [List.getElem_map] at this
    rw [hje] at this; exact this heq
  · have := hn x j (by simpa using hx) (by simpa using hj) c
    simp only [List.getElem_map] at this
    rw [hje] at this; exact this heq.symm

/-! ### scan loop of updateTX -/

structure Scan2Inv (rxt64 : T64) (pre : List Entry) (a : Scan2) : Prop where
  x_some : ∀ i, a.x = some i → (pre[i]?).map (·.rx) = some rxt64
  x_none : a.x = none → ∀ e ∈ pre, e.rx ≠ rxt64
  m0_none : a.m0 = none → pre = []
  m0_some : ∀ i v, a.m0 = some (i, v) → ∀ e ∈ pre, le64 e.rx v
  m1_none : ∀ i v, a.m0 = some (i, v) → a.m1 = none → ∀ e ∈ pre, e.rx = v
  m1_some : ∀ i v i' v', a.m0 = some (i, v) → a.m1 = some (i', v') → ∀ e ∈ pre, e.rx = v ∨ le64 e.rx v'

theorem scan2_x (rxt64 : T64) (i : Nat) (e : Entry) (a : Scan2) :
    (scan2Step rxt64 i e a).x = if e.rx = rxt64 then some i else a.x := by
  unfold scan2Step
  simp only
  split
  · rfl
  · split
    · rfl
    · split
      · rfl
      · split <;> rfl

theorem scan2Inv_step (rxt64 : T64) (pre : List Entry) (e : Entry) (a : Scan2)
    (h : Scan2Inv rxt64 pre a) : Scan2Inv rxt64 (pre ++ [e]) (scan2Step rxt64 pre.length e a) := by
  have hlast : ((pre ++ [e])[pre.length]?).map (·.rx) = some e.rx := by simp
  have mem : ∀ {P : Entry → Prop}, (∀ y ∈ pre, P y) → P e → ∀ y ∈ pre ++ [e], P y := by
    intro P h1 h2 y hy
    rcases List.mem_append.1 hy with hy | hy
    · exact h1 y hy
    · simp at hy; subst hy; exact h2
  obtain ⟨ax, am0, am1⟩ := a
  refine ⟨?_, ?_, ?_, ?_, ?_, ?_⟩
  · intro i hi
    rw [scan2_x] at hi
    split at hi
    · rename_i he; cases hi; rw [hlast, he]
    · exact map_getElem?_append (h.x_some i hi)
  · intro hn
    rw [scan2_x] at hn
    split at hn
    · cases hn
    · rename_i he
      exact mem (h.x_none hn) he
  · intro hn
    cases am0 with
    | none => simp [scan2Step] at hn
    | some p =>
      obtain ⟨m, v⟩ := p
      cases am1 with
      | none => simp only [scan2Step] at hn; split at hn <;> cases hn
      | some p' =>
        obtain ⟨m', v'⟩ := p'
        simp only [scan2Step] at hn
        split at hn
        · cases hn
        · split at hn <;> cases hn
  · intro i v hi
    cases am0 with
    | none =>
      simp only [scan2Step, Option.some.injEq, Prod.mk.injEq] at hi
      have := h.m0_none rfl; subst this
      obtain ⟨_, hv⟩ := hi; subst hv
      intro y hy; simp at hy; subst hy; exact le64_refl _
    | some p =>
      obtain ⟨m, v0⟩ := p
      have old := h.m0_some m v0 rfl
      have key : (¬ before e.rx v0 = true → v = e.rx) ∧ (before e.rx v0 = true → v = v0) := by
        cases am1 with
        | none =>
          simp only [scan2Step] at hi
          split at hi
          · rename_i hb; simp at hb; simp at hi; exact ⟨fun _ => hi.2.symm, fun c => by rw [hb] at c; cases c⟩
          · rename_i hb; simp at hb; simp at hi; exact ⟨fun c => absurd hb c, fun _ => hi.2.symm⟩
        | some p' =>
          obtain ⟨m', v'⟩ := p'
          simp only [scan2Step] at hi
          split at hi
          · rename_i hb; simp at hb; simp at hi; exact ⟨fun _ => hi.2.symm, fun c => by rw [hb] at c; cases c⟩
          · rename_i hb; simp at hb
            split at hi <;> (simp at hi; exact ⟨fun c => absurd hb c, fun _ => hi.2.symm⟩)
      by_cases hb : before e.rx v0 = true
      · rw [key.2 hb]; exact mem old (le64_of_before hb)
      · rw [key.1 hb]
        have hv : le64 v0 e.rx := by simpa [le64] using hb
        exact mem (fun y hy => le64_trans (old y hy) hv) (le64_refl _)
  · intro i v hi hm1
    cases am0 with
    | none =>
      simp only [scan2Step, Option.some.injEq, Prod.mk.injEq] at hi
      have := h.m0_none rfl; subst this
      obtain ⟨_, hv⟩ := hi; subst hv
      intro y hy; simp at hy; subst hy; rfl
    | some p =>
      obtain ⟨m, v0⟩ := p
      exfalso
      cases am1 with
      | none =>
        simp only [scan2Step] at hm1
        split at hm1 <;> cases hm1
      | some p' =>
        obtain ⟨m', v'⟩ := p'
        simp only [scan2Step] at hm1
        split at hm1
        · cases hm1
        · split at hm1 <;> cases hm1
  · intro i v i' v' hi hm1
    cases am0 with
    | none => simp [scan2Step] at hm1
    | some p =>
      obtain ⟨m, v0⟩ := p
      have old := h.m0_some m v0 rfl
      by_cases hb : before e.rx v0 = true
      · -- max0 stays
        have hble : le64 e.rx v0 := le64_of_before hb
        cases am1 with
        | none =>
          simp only [scan2Step, hb, Bool.not_true, Bool.false_eq_true, if_false] at hi hm1
          simp at hi hm1
          obtain ⟨_, hv⟩ := hi; subst hv
          obtain ⟨_, hv'⟩ := hm1; subst hv'
          exact mem (fun y hy => Or.inl (h.m1_none m v0 rfl rfl y hy)) (Or.inr (le64_refl _))
        | some p' =>
          obtain ⟨m', v1⟩ := p'
          have old1 := h.m1_some m v0 m' v1 rfl rfl
          simp only [scan2Step, hb, Bool.not_true, Bool.false_eq_true, if_false] at hi hm1
          by_cases hb' : before e.rx v1 = true
          · simp only [hb', Bool.not_true, Bool.false_eq_true, if_false] at hi hm1
            simp at hi hm1
            obtain ⟨_, hv⟩ := hi; subst hv
            obtain ⟨_, hv'⟩ := hm1; subst hv'
            exact mem old1 (Or.inr (le64_of_before hb'))
          · simp only [hb', Bool.not_false, if_true] at hi hm1
            simp at hi hm1
            obtain ⟨_, hv⟩ := hi; subst hv
            obtain ⟨_, hv'⟩ := hm1; subst hv'
            have hv : le64 v1 e.rx := by simpa [le64] using hb'
            refine mem (fun y hy => ?_) (Or.inr (le64_refl _))
            rcases old1 y hy with c | c
            · exact Or.inl c
            · exact Or.inr (le64_trans c hv)
      · -- new max0
        have hb2 : before e.rx v0 = false := by simpa using hb
        have : (scan2Step rxt64 pre.length e ⟨ax, some (m, v0), am1⟩).m0 = some (pre.length, e.rx) ∧
            (scan2Step rxt64 pre.length e ⟨ax, some (m, v0), am1⟩).m1 = some (m, v0) := by
          simp [scan2Step, hb2]
        rw [this.1] at hi; rw [this.2] at hm1
        simp at hi hm1
        obtain ⟨_, hv⟩ := hi; subst hv
        obtain ⟨_, hv'⟩ := hm1; subst hv'
        exact mem (fun y hy => Or.inr (old y hy)) (Or.inl rfl)

theorem scan2Aux_inv (rxt64 : T64) : ∀ (l pre : List Entry) (a : Scan2),
    Scan2Inv rxt64 pre a → Scan2Inv rxt64 (pre ++ l) (scan2Aux rxt64 l pre.length a) := by
  intro l
  induction l with
  | nil => intro pre a h; simpa [scan2Aux] using h
  | cons e l ih =>
    intro pre a h
    unfold scan2Aux
    have := ih (pre ++ [e]) _ (scan2Inv_step rxt64 pre e a h)
    simpa using this

theorem scan2_inv (buf : List Entry) (rxt64 : T64) : Scan2Inv rxt64 buf (scan2 buf rxt64) := by
  have := scan2Aux_inv rxt64 buf [] ⟨none, none, none⟩
    ⟨(by intro i h; cases h), (by intro _ e he; cases he), (fun _ => rfl),
     (by intro i v h; cases h), (by intro i v h; cases h), (by intro i v i' v' h; cases h)⟩
  simpa [scan2] using this

end ScionTime.Server
