/-
  Totality lemmas (C08 fragment): with the bounds checks of the `fix:` commits the decoders
  never reach a Go panic and never run out of fuel (the fuel is the input length + 1).
-/
import ScionTime.Model.Nts
namespace ScionTime.Nts

@[simp] theorem Safe_ok {α} (a : α) : (Res.ok a).Safe = True := rfl
@[simp] theorem Safe_err {α} (e : Err) : (Res.err e : Res α).Safe = True := rfl
@[simp] theorem Safe_panic {α} (p : Pan) : (Res.panic p : Res α).Safe = False := rfl
@[simp] theorem Safe_hang {α} : (Res.hang : Res α).Safe = False := rfl

theorem Safe_bind {α β} (x : Res α) (f : α → Res β) (hx : x.Safe) (hf : ∀ a, x = .ok a → (f a).Safe) :
    (x >>= f).Safe := by
  cases x with
  | ok a => exact hf a rfl
  | err e => trivial
  | panic p => exact hx.elim
  | hang => exact hx.elim

theorem tlvLoop_safe (t0 t1 t2 : Nat) :
    ∀ (fuel : Nat) (rest : Bytes) (st : TlvSt), rest.length < fuel → (tlvLoop true t0 t1 t2 fuel rest st).Safe := by
  intro fuel
  induction fuel with
  | zero => intro rest st h; omega
  | succ fuel ih =>
    intro rest st h
    match rest, h with
    | [], _ => simp [tlvLoop]
    | [_], _ => simp [tlvLoop]
    | [_, _], _ => simp [tlvLoop]
    | [_, _, _], _ => simp [tlvLoop]
    | a :: b :: c :: d :: v, h =>
      simp only [List.length_cons] at h
      simp only [tlvLoop, Bool.true_and, decide_eq_true_eq]
      by_cases hl : u16 c d > v.length
      · simp [hl]
      · have hdrop : (v.drop (u16 c d)).length < fuel := by simp; omega
        simp only [hl, if_false]
        by_cases h0 : u16 a b = t0
        · simp only [h0, if_true]
          by_cases h2 : u16 c d < 2
          · simp [h2]
          · simp only [h2, if_false]
            match v, hl, h2, hdrop with
            | n1 :: n0 :: v', _, _, hdrop => exact ih _ _ hdrop
            | [], hl, h2, _ => simp at hl; omega
            | [_], hl, h2, _ => simp at hl; omega
        · simp only [h0, if_false]
          by_cases h1 : u16 a b = t1
          · simp only [h1, if_true]; exact ih _ _ hdrop
          · simp only [h1, if_false]
            by_cases h2 : u16 a b = t2
            · simp only [h2, if_true]; exact ih _ _ hdrop
            · simp only [h2, if_false]; exact ih _ _ hdrop

theorem decodeTLV_safe (t0 t1 t2 : Nat) (b : Bytes) : (decodeTLV true t0 t1 t2 b).Safe := by
  have := tlvLoop_safe t0 t1 t2 (b.length + 1) b {} (by omega)
  unfold decodeTLV
  cases h : tlvLoop true t0 t1 t2 (b.length + 1) b {} with
  | ok st =>
    simp only
    cases st.num <;> cases st.x <;> cases st.y <;> simp
  | err e => simp
  | panic p => rw [h] at this; exact this.elim
  | hang => rw [h] at this; exact this.elim

theorem unpackAuth_safe (body : Bytes) (h : 4 ≤ body.length) : (unpackAuth body).Safe := by
  match body, h with
  | _ :: _ :: _ :: _ :: _, _ => simp [unpackAuth]

theorem decLoop_safe (total : Nat) :
    ∀ (fuel : Nat) (rest : Bytes) (fu : Bool) (d : Decoded), rest.length < fuel → (decLoop true total fuel rest fu d).Safe := by
  intro fuel
  induction fuel with
  | zero => intro rest fu d h; omega
  | succ fuel ih =>
    intro rest fu d h
    unfold decLoop
    by_cases h28 : rest.length < 28
    · simp [h28]
    · obtain ⟨a, b, c, e, body, rfl⟩ : ∃ a b c e body, rest = a :: b :: c :: e :: body := by
        match rest, h28 with
        | a :: b :: c :: e :: body, _ => exact ⟨a, b, c, e, body, rfl⟩
        | [], h | [_], h | [_, _], h | [_, _, _], h => simp at h
      simp only [h28, if_false, Bool.true_and, Bool.or_eq_true, decide_eq_true_eq]
      simp only [List.length_cons] at h h28
      simp only [List.length_cons]
      by_cases hc : u16 c e < 4 ∨ body.length + 1 + 1 + 1 + 1 < u16 c e
      · simp [hc]
      · simp only [hc, if_false]
        have hdrop : ((a :: b :: c :: e :: body).drop (u16 c e)).length < fuel := by
          simp only [List.length_drop, List.length_cons]; omega
        by_cases ht : u16 a b = extAuthenticator
        · simp only [ht, if_true]
          have := unpackAuth_safe body (by omega)
          cases hu : unpackAuth body with
          | ok nc => simp
          | err x => simp
          | panic p => rw [hu] at this; exact this.elim
          | hang => rw [hu] at this; exact this.elim
        · have h0 : ¬ (u16 c e = 0) := by omega
          simp only [ht, if_false, h0]
          split
          · exact ih _ _ _ hdrop
          · split
            · exact ih _ _ _ hdrop
            · split
              · exact ih _ _ _ hdrop
              · exact ih _ _ _ hdrop

theorem decodePacket_safe (b : Bytes) : (decodePacket b).Safe := by
  have := decLoop_safe b.length (b.length + 1) (b.drop ntpPacketLen) false {} (by simp; omega)
  unfold decodePacket decodePacketG
  cases h : decLoop true b.length (b.length + 1) (b.drop ntpPacketLen) false {} with
  | ok r =>
    obtain ⟨fu, fa, d⟩ := r
    simp only
    split
    · simp
    · split <;> simp
  | err e => simp
  | panic p => rw [h] at this; exact this.elim
  | hang => rw [h] at this; exact this.elim

theorem ptLoop_safe :
    ∀ (fuel : Nat) (rest : Bytes) (cs : List Bytes), rest.length < fuel → (ptLoop true fuel rest cs).Safe := by
  intro fuel
  induction fuel with
  | zero => intro rest cs h; omega
  | succ fuel ih =>
    intro rest cs h
    unfold ptLoop
    by_cases h28 : rest.length < 28
    · simp [h28]
    · obtain ⟨a, b, c, e, body, rfl⟩ : ∃ a b c e body, rest = a :: b :: c :: e :: body := by
        match rest, h28 with
        | a :: b :: c :: e :: body, _ => exact ⟨a, b, c, e, body, rfl⟩
        | [], h | [_], h | [_, _], h | [_, _, _], h => simp at h
      simp only [h28, if_false, Bool.true_and, Bool.or_eq_true, decide_eq_true_eq]
      simp only [List.length_cons] at h h28
      simp only [List.length_cons]
      by_cases hc : u16 c e < 4 ∨ body.length + 1 + 1 + 1 + 1 < u16 c e
      · simp [hc]
      · simp only [hc, if_false]
        have hdrop : ((a :: b :: c :: e :: body).drop (u16 c e)).length < fuel := by
          simp only [List.length_drop, List.length_cons]; omega
        have h0 : ¬ (u16 c e = 0) := by omega
        simp only [h0, if_false]
        split
        · exact ih _ _ hdrop
        · exact ih _ _ hdrop

theorem authenticate_safe (A : AEAD) (b key : Bytes) (d : Decoded) : (authenticateG true A b key d).Safe := by
  unfold authenticateG
  split
  · simp
  · split
    · simp
    · rename_i hk hn
      have hn' : d.nonce.length = 16 := by simpa using hn
      simp only [openC, hn', ne_eq, not_true_eq_false, if_false, bind, Res.bind]
      cases A.openF key d.nonce d.ct (some (b.take d.pos)) with
      | some pt => exact ptLoop_safe _ _ _ (by omega)
      | none => simp

theorem decryptCookie_safe (A : AEAD) (ec : Triple) (key : Bytes) : (decryptCookie A ec key).Safe := by
  unfold decryptCookie decryptCookieG
  split
  · simp
  · split
    · simp
    · rename_i hk hn
      have hn' : ec.x.length = 16 := by simpa using hn
      simp only [openC, hn', ne_eq, not_true_eq_false, if_false, bind, Res.bind]
      cases A.openF key ec.x ec.y none with
      | some pt => exact decodeTLV_safe _ _ _ pt
      | none => simp

end ScionTime.Nts
