/-
  Helper lemmas for Props/C08CsptpSrv.lean and Props/C08CsptpCli.lean: the receive buffer
  (`recvInto`, `recvFlags`, Go slices) and the listener's validation (`validate`).
-/
import ScionTime.Model.CsptpSrv
import ScionTime.Proofs.C14Codec
namespace ScionTime.CsptpSrv
open ScionTime.Wire ScionTime.Csptp

theorem zeros_length (n : Nat) : (zeros n).length = n := by simp [zeros]

theorem recvInto_length (backing wire : List Nat) (h : backing.length = maxMessageLength) :
    (recvInto backing wire).length = maxMessageLength := by
  unfold recvInto
  simp only [List.length_append, List.length_take, List.length_drop, h]
  omega

/-- the first `n` bytes of the buffer after a read are the datagram's first `n` bytes -/
theorem recvInto_take (backing wire : List Nat) (n : Nat) (hn : n ≤ min wire.length maxMessageLength) :
    (recvInto backing wire).take n = wire.take n := by
  unfold recvInto
  rw [List.take_append_of_le_length (by simp only [List.length_take]; omega), List.take_take]
  congr 1
  omega

theorem recvFlags_zero {len otherFlags : Nat} (h : recvFlags len otherFlags = 0) :
    len ≤ maxMessageLength ∧ otherFlags = 0 := by
  unfold recvFlags at h
  by_cases hl : len > maxMessageLength
  · rw [if_pos hl] at h
    have : msgTrunc ||| otherFlags ≠ 0 := by
      intro h0
      have := Nat.or_eq_zero_iff.mp h0
      exact absurd this.1 (by decide)
    exact absurd h this
  · rw [if_neg hl, Nat.zero_or] at h
    exact ⟨by omega, h⟩

theorem recvFlags_zero_iff (len otherFlags : Nat) :
    recvFlags len otherFlags = 0 ↔ len ≤ maxMessageLength ∧ otherFlags = 0 := by
  constructor
  · exact recvFlags_zero
  · rintro ⟨h1, h2⟩
    unfold recvFlags
    rw [if_neg (by omega), h2]
    rfl

theorem sliceTo_ok (backing : List Nat) (hi : Nat) (h : hi ≤ backing.length) :
    sliceTo backing hi = .ok (backing.take hi) := by
  unfold sliceTo
  rw [if_neg (by omega)]

theorem sliceFrom_ok (backing : List Nat) (n lo : Nat) (h : lo ≤ n) :
    sliceFrom backing n lo = .ok ((backing.take n).drop lo) := by
  unfold sliceFrom
  rw [if_neg (by omega)]

/-- `validate` with the slices resolved: it reads `backing.take n` only -/
def validateData (port : Nat) (data : List Nat) : Verdict :=
  if data.length < minMessageLength then .short else
  match decodeMessage (data.take minMessageLength) with
  | .panic c => .panic c
  | .err _ => .decodeErr
  | .ok m =>
    if data.length ≠ m.messageLength then .lengthMismatch else
    if m.sdoIDMessageType = messageTypeSync ∧ port = eventPortIP then
      if data.length - minMessageLength ≠ 0 then .syncLength else .requestSync m
    else if m.sdoIDMessageType = messageTypeFollowUp ∧ port = generalPortIP then
      match decodeRequestTLV (data.drop minMessageLength) with
      | .panic c => .panic c
      | .err _ => .tlvDecode
      | .ok t =>
        if !isRequestKind t then .tlvKind else
        if data.length - minMessageLength ≠ encodedTLVLength t.flagField then .tlvLength else
        .requestFollowUp m t
    else .unexpectedMessage

/-- on a buffer that really holds `n` bytes (`n ≤ len`, as after any read), `validate` is
    `validateData` of those `n` bytes -/
theorem validate_eq_data (port : Nat) (backing : List Nat) (n : Nat) (hn : n ≤ backing.length) :
    validate port backing n = validateData port (backing.take n) := by
  unfold validate validateData
  have hl : (backing.take n).length = n := by simp only [List.length_take]; omega
  rw [hl]
  by_cases h : n < minMessageLength
  · rw [if_pos h, if_pos h]
  · rw [if_neg h, if_neg h]
    have h44 : minMessageLength ≤ n := by omega
    rw [sliceTo_ok backing minMessageLength (by omega)]
    have ht : (backing.take n).take minMessageLength = backing.take minMessageLength := by
      rw [List.take_take]; congr 1; omega
    rw [ht]
    simp only
    rw [sliceFrom_ok backing n minMessageLength h44]
    rfl

/-- the data a datagram leaves in the buffer -/
theorem recvInto_data (backing wire : List Nat) :
    (recvInto backing wire).take (min wire.length maxMessageLength) = wire.take maxMessageLength := by
  rw [recvInto_take backing wire _ (Nat.le_refl _)]
  by_cases h : wire.length ≤ maxMessageLength
  · rw [List.take_of_length_le (l := wire) (by omega), List.take_of_length_le (l := wire) (by omega)]
  · congr 1; omega

theorem req_decode_cases (b : List Nat) :
    decodeRequestTLV b = .err "size" ∨ ∃ t, decodeRequestTLV b = .ok t := by
  rw [C14.req_decode_eq]
  split
  · exact .inl rfl
  · split
    · exact .inl rfl
    · exact .inr ⟨_, rfl⟩

theorem resp_decode_cases (b : List Nat) :
    decodeResponseTLV b = .err "size" ∨ ∃ t, decodeResponseTLV b = .ok t := by
  rw [C14.resp_decode_eq]
  split
  · exact .inl rfl
  · split
    · exact .inl rfl
    · exact .inr ⟨_, rfl⟩

theorem validateData_no_panic (port : Nat) (data : List Nat) : (validateData port data).isPanic = false := by
  unfold validateData
  split
  · rfl
  · rcases C14.msg_decode_total (data.take minMessageLength) with ⟨_, hm⟩ | ⟨_, hm⟩
    · rw [hm]; rfl
    · rw [hm]
      simp only
      split
      · rfl
      · split
        · split <;> rfl
        · split
          · rcases req_decode_cases (data.drop minMessageLength) with ht | ⟨t, ht⟩
            · rw [ht]; rfl
            · rw [ht]
              simp only
              split
              · rfl
              · split <;> rfl
          · rfl

/-- the verdict on a datagram as a function of the datagram alone -/
def verdictOf (port : Nat) (wire : List Nat) (otherFlags : Nat) : Verdict :=
  if recvFlags wire.length otherFlags ≠ 0 then .readFlags (recvFlags wire.length otherFlags)
  else validateData port (wire.take maxMessageLength)

theorem verdictOf_no_panic (port : Nat) (wire : List Nat) (f : Nat) : (verdictOf port wire f).isPanic = false := by
  unfold verdictOf
  split
  · rfl
  · exact validateData_no_panic _ _

/-- one iteration in closed form: the buffer takes the datagram, the table is untouched, the
    verdict depends on the datagram only, nothing is sent, nothing panics -/
theorem step_dgram (k : Sock) (s : State) (wire : List Nat) (f : Nat) (src : AddrPort) (rxt : Int)
    (hk : k.backing.length = maxMessageLength) :
    step k s (.dgram wire f src rxt) =
      ({ k with backing := recvInto k.backing wire }, s, verdictOf k.port wire f, ⟨[], none⟩) := by
  unfold step verdictOf
  simp only
  by_cases hf : recvFlags wire.length f ≠ 0
  · rw [if_pos hf, if_pos hf]
  · rw [if_neg hf, if_neg hf]
    have hlen := recvInto_length k.backing wire hk
    have hv : validate k.port (recvInto k.backing wire) (min wire.length maxMessageLength) =
        validateData k.port (wire.take maxMessageLength) := by
      rw [validate_eq_data _ _ _ (by rw [hlen]; omega), recvInto_data]
    rw [hv]
    have hp := validateData_no_panic k.port (wire.take maxMessageLength)
    by_cases hr : (validateData k.port (wire.take maxMessageLength)).isRequest
    · simp only [hr, Bool.not_true, Bool.false_eq_true, ↓reduceIte, maintain, respond, Bool.not_false]
    · simp only [hr, Bool.not_false, ↓reduceIte]
      cases hvd : validateData k.port (wire.take maxMessageLength) <;> simp_all [Verdict.isPanic]

theorem take_max_of_flags {wire : List Nat} {f : Nat} (h : recvFlags wire.length f = 0) :
    wire.take maxMessageLength = wire :=
  List.take_of_length_le (recvFlags_zero h).1


/-- the client's request headers and TLV are in the range of their Go types -/
theorem clientSync_valid (seq : Nat) (h : seq < 65536) : (clientSync seq).Valid := by
  simp only [Message.Valid, clientSync]; refine ⟨?_, ?_, ?_, ?_, ?_, ?_, ?_, ?_, ?_, ?_, h, ?_, ?_, ?_, ?_⟩ <;> decide
theorem clientFollowUp_valid (seq : Nat) (h : seq < 65536) : (clientFollowUp seq).Valid := by
  simp only [Message.Valid, clientFollowUp]; refine ⟨?_, ?_, ?_, ?_, ?_, ?_, ?_, ?_, ?_, ?_, h, ?_, ?_, ?_, ?_⟩ <;> decide


/-- the header fields of a response TLV, read by the request-TLV decoder -/
theorem req_decode_of_resp_bytes (t : ResponseTLV) (h : t.Valid) :
    decodeRequestTLV (responseTLVBytes t) =
      .ok ⟨t.type, t.length, t.organizationID, t.organizationSubType, t.flagField⟩ := by
  have hlen := C14.resp_bytes_length t
  have hhl := C14.resp_head_length t
  rw [C14.req_decode_eq]
  have hf : fieldsOf tlvHeadLayout (responseTLVBytes t) = respHeadFields t := by
    unfold responseTLVBytes
    rw [List.append_assoc]
    exact fieldsOf_encodeFields _ _ _ (C14.resp_head_ok t h)
  have hle : 36 ≤ encodedTLVLength t.flagField := by
    rcases C14.encodedTLVLength_cases t.flagField with ⟨_, h⟩ | ⟨_, h⟩ <;> omega
  rw [hf]
  have hr : reqOfFields (respHeadFields t) = ⟨t.type, t.length, t.organizationID, t.organizationSubType, t.flagField⟩ := rfl
  rw [hr, hlen]
  simp only
  rw [if_neg (by omega), if_neg (by omega)]


end ScionTime.CsptpSrv
