/-
  Helper lemmas for C15 (rejection sampling arithmetic, reservoir step).
-/
import ScionTime.Model.Sample
namespace ScionTime.Sample

/-- `uint(-n) % n = 2^w % n` -/
theorem thr_eq (W n : Nat) (hnW : n ≤ W) : (W - n) % n = W % n := by
  have h : W = (W - n) + n := by omega
  conv => rhs; rw [h]
  exact (Nat.add_mod_right _ _).symm

/-- residues of an interval `(t, W)` with `t = W % n`: the values with residue `r` are exactly
    `n*j + r` for `j` in `[lo, hi)`. -/
theorem residue_char (W n r x : Nat) (hn : 0 < n) (hr : r < n) :
    (W % n < x ∧ x < W ∧ x % n = r) ↔
    ∃ j, x = n * j + r ∧ (if W % n < r then 0 else 1) ≤ j ∧ j < (if r < W % n then W / n + 1 else W / n) := by
  have hW := Nat.div_add_mod W n
  have ht : W % n < n := Nat.mod_lt _ hn
  generalize W % n = t at *
  generalize W / n = Q at *
  constructor
  · rintro ⟨h1, h2, h3⟩
    have hx := Nat.div_add_mod x n
    rw [h3] at hx
    refine ⟨x / n, by omega, ?_, ?_⟩
    · generalize x / n = j at *
      split
      · exact Nat.zero_le _
      · rcases Nat.eq_zero_or_pos j with h0 | h0
        · rw [h0] at hx; omega
        · omega
    · generalize x / n = j at *
      split
      · -- r < t : j ≤ Q
        apply Nat.lt_succ_of_le
        apply Nat.le_of_not_lt
        intro hlt
        have : n * (Q + 1) ≤ n * j := Nat.mul_le_mul_left n hlt
        rw [Nat.mul_add] at this; omega
      · apply Nat.lt_of_not_le
        intro hle
        have : n * Q ≤ n * j := Nat.mul_le_mul_left n hle
        omega
  · rintro ⟨j, hx, hlo, hhi⟩
    subst hx
    refine ⟨?_, ?_, ?_⟩
    · split at hlo
      · omega
      · have : n * 1 ≤ n * j := Nat.mul_le_mul_left n hlo
        omega
    · split at hhi
      · have : n * j ≤ n * Q := Nat.mul_le_mul_left n (Nat.le_of_lt_succ hhi)
        omega
      · have : n * (j + 1) ≤ n * Q := Nat.mul_le_mul_left n hhi
        rw [Nat.mul_add] at this; omega
    · rw [Nat.mul_add_mod]; exact Nat.mod_eq_of_lt hr

/-! ### Ideal reservoir: all draw vectors, per-step counts -/
open List

/-- all draw vectors for the items `k .. k+m-1`: the draw for item `i` ranges over `[0, i]`
    (what `RandIntn(i+1)` returns); each vector is one equally likely outcome of ideal
    uniform draws -/
def allDraws (k : Nat) : Nat → List (List Nat)
  | 0 => [[]]
  | m + 1 => (allDraws k m).flatMap fun js => (List.range (k + m + 1)).map fun j => js ++ [j]

/-- the reservoirs after `m` items beyond the first `k`, one per draw vector -/
def outcomes (k m : Nat) : List (List Nat) := (allDraws k m).map (reservoir k)

theorem allDraws_length (k : Nat) : ∀ (m : Nat) (js : List Nat), js ∈ allDraws k m → js.length = m
  | 0, js, h => by simp [allDraws] at h; simp [h]
  | m + 1, js, h => by
    simp only [allDraws, mem_flatMap, mem_map] at h
    obtain ⟨js', hjs', j, _, rfl⟩ := h
    simp [allDraws_length k m js' hjs']

theorem go_snoc : ∀ (js : List Nat) (res : List Nat) (i j : Nat),
    reservoir.go res i (js ++ [j]) = stepRes (reservoir.go res i js) j (i + js.length)
  | [], _, _, _ => by simp [reservoir.go]
  | j' :: js, res, i, j => by
    simp only [cons_append, reservoir.go, length_cons]
    rw [go_snoc js]; congr 1; omega

theorem flatMap_congr' {α β : Type} (l : List α) (f g : α → List β) (h : ∀ a ∈ l, f a = g a) :
    l.flatMap f = l.flatMap g := by
  induction l with
  | nil => rfl
  | cons a l ih =>
    simp only [flatMap_cons]
    rw [h a (by simp), ih (fun b hb => h b (by simp [hb]))]

theorem outcomes_zero (k : Nat) : outcomes k 0 = [List.range k] := by
  simp [outcomes, allDraws, reservoir, reservoir.go]

theorem outcomes_succ (k m : Nat) : outcomes k (m + 1) =
    (outcomes k m).flatMap fun res => (List.range (k + m + 1)).map fun j => stepRes res j (k + m) := by
  unfold outcomes
  simp only [allDraws, map_flatMap, map_map, flatMap_map]
  apply flatMap_congr'
  intro js hjs
  apply map_congr_left
  intro j _
  simp only [Function.comp, reservoir]
  rw [go_snoc, allDraws_length k m js hjs]

theorem nodup_set_fresh : ∀ (l : List Nat) (j x : Nat), l.Nodup → x ∉ l → (l.set j x).Nodup
  | [], _, _, _, _ => by simp
  | a :: l, 0, x, h, hx => by
    simp only [set_cons_zero, nodup_cons] at *
    exact ⟨fun hm => hx (by simp [hm]), h.2⟩
  | a :: l, j + 1, x, h, hx => by
    simp only [set_cons_succ, nodup_cons, mem_cons, not_or] at *
    refine ⟨fun hm => ?_, nodup_set_fresh l j x h.2 hx.2⟩
    rcases mem_or_eq_of_mem_set hm with h1 | h1
    · exact h.1 h1
    · exact hx.1 h1.symm

/-- reservoir invariant: `k` distinct items, all already seen -/
def ResInv (k n : Nat) (res : List Nat) : Prop := res.length = k ∧ res.Nodup ∧ ∀ y ∈ res, y < n

theorem stepRes_inv (k n j : Nat) (res : List Nat) (h : ResInv k n res) : ResInv k (n + 1) (stepRes res j n) := by
  obtain ⟨h1, h2, h3⟩ := h
  unfold stepRes
  split
  · refine ⟨by simpa using h1, nodup_set_fresh res j n h2 (fun hm => Nat.lt_irrefl _ (h3 n hm)), ?_⟩
    intro y hy
    rcases mem_or_eq_of_mem_set hy with h | h
    · exact Nat.lt_succ_of_lt (h3 y h)
    · omega
  · exact ⟨h1, h2, fun y hy => Nat.lt_succ_of_lt (h3 y hy)⟩

theorem outcomes_inv (k : Nat) : ∀ (m : Nat) (res : List Nat), res ∈ outcomes k m → ResInv k (k + m) res
  | 0, res, h => by
    rw [outcomes_zero] at h
    simp only [mem_singleton] at h; subst h
    exact ⟨by simp, nodup_range, fun y hy => by simpa using hy⟩
  | m + 1, res, h => by
    rw [outcomes_succ] at h
    simp only [mem_flatMap, mem_map] at h
    obtain ⟨res', hres', j, _, rfl⟩ := h
    exact stepRes_inv k (k + m) j res' (outcomes_inv k m res' hres')

theorem countP_lt_range : ∀ (N k : Nat), k ≤ N → countP (fun j => decide (j < k)) (List.range N) = k
  | 0, k, h => by simp at h; simp [h]
  | N + 1, k, h => by
    rw [range_succ, countP_append]
    by_cases hk : k ≤ N
    · rw [countP_lt_range N k hk]
      have : ¬ N < k := by omega
      simp [this]
    · have hk' : k = N + 1 := by omega
      subst hk'
      have : countP (fun j => decide (j < N + 1)) (List.range N) = N := by
        rw [countP_congr (q := fun j => decide (j < N))]
        · exact countP_lt_range N N (Nat.le_refl _)
        · intro x hx; simp at hx; simp; omega
      rw [this]; simp

theorem countP_ne_range : ∀ (N d : Nat), d < N → countP (fun j => decide (j ≠ d)) (List.range N) = N - 1
  | 0, d, h => by simp at h
  | N + 1, d, h => by
    rw [range_succ, countP_append]
    by_cases hd : d < N
    · rw [countP_ne_range N d hd]
      have : N ≠ d := by omega
      simp [this]; omega
    · have hd' : d = N := by omega
      subst hd'
      have : countP (fun j => decide (j ≠ d)) (List.range d) = d := by
        have h1 : countP (fun j => decide (j ≠ d)) (List.range d) = (List.range d).length :=
          countP_eq_length.mpr (fun x hx => by simp at hx; simp; omega)
        simpa using h1
      rw [this]; simp

/-- per-step inclusion counts: among the `n+1` equally likely draws for item `n`,
    the new item enters the reservoir in exactly `k` … -/
theorem step_count_new (k n : Nat) (res : List Nat) (h : ResInv k n res) (hk : k ≤ n + 1) :
    countP (fun j => decide (n ∈ stepRes res j n)) (List.range (n + 1)) = k := by
  obtain ⟨h1, _, h3⟩ := h
  rw [countP_congr (q := fun j => decide (j < k))]
  · exact countP_lt_range (n + 1) k hk
  · intro j _
    simp only [decide_eq_true_eq]
    unfold stepRes
    rw [h1]
    constructor
    · intro hm
      by_cases hj : j < k
      · exact hj
      · simp only [hj, ↓reduceIte] at hm
        exact absurd (h3 n hm) (Nat.lt_irrefl _)
    · intro hj
      simp only [hj, ↓reduceIte]
      exact mem_set (by omega) n

/-- … an item of the reservoir survives in exactly `n` … -/
theorem step_count_old (k n x : Nat) (res : List Nat) (h : ResInv k n res) (hk : k ≤ n + 1) (hx : x ∈ res) :
    countP (fun j => decide (x ∈ stepRes res j n)) (List.range (n + 1)) = n := by
  obtain ⟨h1, h2, h3⟩ := h
  obtain ⟨d, hd, hxd⟩ := mem_iff_getElem.mp hx
  have hxn : x ≠ n := by have := h3 x hx; omega
  rw [countP_congr (q := fun j => decide (j ≠ d))]
  · rw [countP_ne_range (n + 1) d (by omega)]; omega
  · intro j _
    simp only [decide_eq_true_eq]
    unfold stepRes
    constructor
    · intro hm hjd
      subst hjd
      simp only [hd, ↓reduceIte] at hm
      obtain ⟨d', hd', he⟩ := mem_iff_getElem.mp hm
      rw [getElem_set] at he
      split at he
      · exact hxn he.symm
      · rename_i hne
        have hd'' : d' < res.length := by simpa using hd'
        have : res[d'] = res[j] := by rw [he, hxd]
        exact hne ((getElem_inj h2).mp this).symm
    · intro hjd
      split
      · apply mem_iff_getElem.mpr
        refine ⟨d, by simpa using hd, ?_⟩
        rw [getElem_set]; simp [hjd, hxd]
      · exact hx

/-- … and an item that is neither in the reservoir nor the new one never appears. -/
theorem step_count_absent (n x : Nat) (res : List Nat) (hx : x ∉ res) (hxn : x ≠ n) :
    countP (fun j => decide (x ∈ stepRes res j n)) (List.range (n + 1)) = 0 := by
  rw [countP_eq_zero]
  intro j _
  simp only [decide_eq_true_eq]
  unfold stepRes
  split
  · intro hm
    rcases mem_or_eq_of_mem_set hm with h | h
    · exact hx h
    · exact hxn h
  · exact hx

theorem sum_map_ite {α : Type} (L : List α) (p : α → Bool) (n : Nat) :
    (L.map fun a => if p a then n else 0).sum = n * L.countP p := by
  induction L with
  | nil => simp
  | cons a L ih =>
    simp only [map_cons, sum_cons, countP_cons, ih]
    split <;> simp [Nat.mul_add] <;> omega

theorem sum_map_const {α : Type} (L : List α) (c : Nat) : (L.map fun _ => c).sum = L.length * c := by
  induction L with
  | nil => simp
  | cons a L ih => simp only [map_cons, sum_cons, ih, length_cons, Nat.add_mul]; omega

theorem sum_map_congr {α : Type} (L : List α) (F G : α → Nat) (h : ∀ a ∈ L, F a = G a) :
    (L.map F).sum = (L.map G).sum := by
  rw [map_congr_left h]

theorem outcomes_length_succ (k m : Nat) :
    (outcomes k (m + 1)).length = (outcomes k m).length * (k + m + 1) := by
  rw [outcomes_succ, length_flatMap]
  simp only [length_map, length_range]
  exact sum_map_const _ _

/-- Inclusion counts of the ideal reservoir: among all draw vectors for `n = k+m` items, item
    `x` ends up in the reservoir in exactly the fraction `k/n` of them. -/
theorem inclusion_count (k : Nat) : ∀ (m x : Nat), x < k + m →
    countP (fun res => decide (x ∈ res)) (outcomes k m) * (k + m) = k * (outcomes k m).length
  | 0, x, hx => by
    rw [outcomes_zero]
    have : x ∈ List.range k := by simpa using hx
    simp [this]
  | m + 1, x, hx => by
    rw [outcomes_length_succ, outcomes_succ, countP_flatMap]
    by_cases hxn : x = k + m
    · subst hxn
      rw [sum_map_congr _ _ (fun _ => k)]
      · rw [sum_map_const]; ac_rfl
      · intro res hres
        simp only [Function.comp, countP_map]
        exact step_count_new k (k + m) res (outcomes_inv k m res hres) (by omega)
    · have ih := inclusion_count k m x (by omega)
      rw [sum_map_congr _ _ (fun res => if decide (x ∈ res) then k + m else 0)]
      · rw [sum_map_ite]
        calc (k + m) * countP (fun res => decide (x ∈ res)) (outcomes k m) * (k + (m + 1))
            = (countP (fun res => decide (x ∈ res)) (outcomes k m) * (k + m)) * (k + m + 1) := by ac_rfl
          _ = k * (outcomes k m).length * (k + m + 1) := by rw [ih]
          _ = k * ((outcomes k m).length * (k + m + 1)) := by ac_rfl
      · intro res hres
        simp only [Function.comp, countP_map]
        have hinv := outcomes_inv k m res hres
        by_cases hm : x ∈ res
        · simp only [hm, decide_true, ↓reduceIte]
          exact step_count_old k (k + m) x res hinv (by omega) hm
        · simp only [hm, decide_false, Bool.false_eq_true, ↓reduceIte]
          exact step_count_absent (k + m) x res hm hxn

theorem outcomes_length (k : Nat) : ∀ m, (outcomes k m).length = (allDraws k m).length := by
  intro m; simp [outcomes]

/-! ### crypto.Sample is Algorithm R: its picks applied to `[0, n)` give `reservoir` -/

theorem draw31_lt (n t : Nat) (c : Bool) (hn : 0 < n) : ∀ (s : Stream) (v : Nat) (r : Stream),
    draw31 n t c s = .ok (v, r) → v < n := by
  intro s
  induction s using draw31.induct t c with
  | case1 b0 b1 b2 b3 rest x hx =>
    intro v r h
    have hx' : t < le32 b0 b1 b2 b3 := hx
    simp only [draw31, gt_iff_lt, hx', ↓reduceIte, Res.ok.injEq, Prod.mk.injEq] at h
    rw [← h.1]; exact Nat.mod_lt _ hn
  | case2 b0 b1 b2 b3 rest x hx hc =>
    intro v r h
    have hx' : ¬ t < le32 b0 b1 b2 b3 := hx
    simp [draw31, hx', hc] at h
  | case3 b0 b1 b2 b3 rest x hx hc ih =>
    intro v r h
    have hx' : ¬ t < le32 b0 b1 b2 b3 := hx
    have hc' : c = false := by simpa using hc
    subst hc'
    simp only [draw31, gt_iff_lt, hx', ↓reduceIte] at h
    exact ih v r (by simpa using h)
  | case4 s' hs =>
    intro v r h
    unfold draw31 at h
    split at h
    · exact absurd rfl (hs _ _ _ _ _)
    · simp at h

theorem draw63_lt (n t : Nat) (c : Bool) (hn : 0 < n) : ∀ (s : Stream) (v : Nat) (r : Stream),
    draw63 n t c s = .ok (v, r) → v < n := by
  intro s
  induction s using draw63.induct t c with
  | case1 b0 b1 b2 b3 b4 b5 b6 b7 rest x hx =>
    intro v r h
    have hx' : t < le64 b0 b1 b2 b3 b4 b5 b6 b7 := hx
    simp only [draw63, gt_iff_lt, hx', ↓reduceIte, Res.ok.injEq, Prod.mk.injEq] at h
    rw [← h.1]; exact Nat.mod_lt _ hn
  | case2 b0 b1 b2 b3 b4 b5 b6 b7 rest x hx hc =>
    intro v r h
    have hx' : ¬ t < le64 b0 b1 b2 b3 b4 b5 b6 b7 := hx
    simp [draw63, hx', hc] at h
  | case3 b0 b1 b2 b3 b4 b5 b6 b7 rest x hx hc ih =>
    intro v r h
    have hx' : ¬ t < le64 b0 b1 b2 b3 b4 b5 b6 b7 := hx
    have hc' : c = false := by simpa using hc
    subst hc'
    simp only [draw63, gt_iff_lt, hx', ↓reduceIte] at h
    exact ih v r (by simpa using h)
  | case4 s' hs =>
    intro v r h
    unfold draw63 at h
    split at h
    · exact absurd rfl (hs _ _ _ _ _ _ _ _ _)
    · simp at h

theorem randIntn_cases (n : Int) (c : Bool) (s : Stream) :
    (n ≤ 0 → ∃ m, randIntn n c s = .panic m) ∧
    (0 < n → n ≤ 2147483647 → randIntn n c s = randInt31 n.toNat c s) ∧
    (2147483647 < n → randIntn n c s = randInt63 n.toNat c s) := by
  unfold randIntn maxInt32
  refine ⟨fun h => ⟨"invalid argument: n must be greater than 0", by simp [h]⟩, fun h1 h2 => ?_, fun h => ?_⟩
  · have : ¬ n ≤ 0 := by omega
    simp [this, h2]
  · have h1 : ¬ n ≤ 0 := by omega
    have h2 : ¬ n ≤ ((2147483647 : Nat) : Int) := by omega
    simp only [h1, h2, ↓reduceIte]

theorem randInt31_lt (n : Nat) (c : Bool) (s : Stream) (v : Nat) (r : Stream) (hn : 0 < n)
    (h : randInt31 n c s = .ok (v, r)) : v < n := by
  unfold randInt31 at h
  split at h
  · simp only [Res.ok.injEq, Prod.mk.injEq] at h; omega
  · split at h
    · simp at h
    · exact draw31_lt n _ c hn s v r h

theorem randInt63_lt (n : Nat) (c : Bool) (s : Stream) (v : Nat) (r : Stream) (hn : 0 < n)
    (h : randInt63 n c s = .ok (v, r)) : v < n := by
  unfold randInt63 at h
  split at h
  · simp only [Res.ok.injEq, Prod.mk.injEq] at h; omega
  · exact draw63_lt n _ c hn s v r h

/-- RandIntn(n) returns a value in `[0, n)` -/
theorem randIntn_lt (n : Int) (c : Bool) (s : Stream) (v : Nat) (r : Stream)
    (h : randIntn n c s = .ok (v, r)) : (v : Int) < n := by
  obtain ⟨h0, h1, h2⟩ := randIntn_cases n c s
  by_cases hn0 : n ≤ 0
  · obtain ⟨m, hm⟩ := h0 hn0
    rw [hm] at h; simp at h
  · by_cases hn1 : n ≤ 2147483647
    · rw [h1 (by omega) hn1] at h
      have := randInt31_lt n.toNat c s v r (by omega) h; omega
    · rw [h2 (by omega)] at h
      have := randInt63_lt n.toNat c s v r (by omega) h; omega

theorem applyPicks_append' {α : Type} : ∀ (a b : List (Nat × Nat)) (l : List α),
    applyPicks l (a ++ b) = applyPicks (applyPicks l a) b
  | [], _, _ => rfl
  | (d, s) :: a, b, l => by
    simp only [cons_append, applyPicks]
    split <;> exact applyPicks_append' a b _

theorem sampleLoop_reservoir (rnd : Int → Bool → Stream → Res (Nat × Stream))
    (hrnd : ∀ (N : Int) (c : Bool) (s : Stream) (v : Nat) (r : Stream), rnd N c s = .ok (v, r) → (v : Int) < N)
    (n k : Nat) (c : Bool) :
    ∀ (m i : Nat) (s : Stream) (l : List Nat) (picks : List (Nat × Nat)) (s' : Stream),
      sampleLoopWith rnd k c m i s = .ok (picks, s') → k ≤ i → i + m = n →
      l.length = n → l.drop k = (List.range n).drop k →
      ∃ js : List Nat, js.length = m ∧ (∀ (t : Nat) (ht : t < js.length), js[t] ≤ i + t) ∧
        (applyPicks l picks).take k = reservoir.go (l.take k) i js := by
  intro m
  induction m with
  | zero =>
    intro i s l picks s' h _ _ _ _
    simp only [sampleLoopWith, Res.ok.injEq, Prod.mk.injEq] at h
    obtain ⟨rfl, _⟩ := h
    exact ⟨[], rfl, fun t ht => by simp at ht, by simp [applyPicks, reservoir.go]⟩
  | succ m ih =>
    intro i s l picks s' h hk him hlen hdrop
    simp only [sampleLoopWith] at h
    split at h
    · rename_i j s1 hj
      split at h
      · rename_i ps' s'' hrec
        simp only [Res.ok.injEq, Prod.mk.injEq] at h
        obtain ⟨rfl, rfl⟩ := h
        have hji : j ≤ i := by have := hrnd _ c s j s1 hj; omega
        have hi : i < n := by omega
        have hli : l[i]? = some i := by
          have h1 : (l.drop k)[i - k]? = ((List.range n).drop k)[i - k]? := by rw [hdrop]
          rw [getElem?_drop, getElem?_drop] at h1
          have : k + (i - k) = i := by omega
          rw [this] at h1
          rw [h1]; simp [hi]
        rw [applyPicks_append']
        have hkl : (l.take k).length = k := by rw [length_take]; omega
        by_cases hjk : j < k
        · simp only [hjk, ↓reduceIte, applyPicks, hli]
          obtain ⟨js, hjs, hb, heq⟩ := ih (i + 1) s1 (l.set j i) ps' s'' hrec (by omega) (by omega)
            (by simpa using hlen) (by rw [drop_set_of_lt hjk]; exact hdrop)
          refine ⟨j :: js, by simp [hjs], ?_, ?_⟩
          · intro t ht
            cases t with
            | zero => simpa using hji
            | succ t =>
              have := hb t (by simpa using ht)
              simp only [getElem_cons_succ]; omega
          · rw [heq, take_set]
            simp only [reservoir.go, stepRes, hkl, hjk, ↓reduceIte]
        · simp only [hjk, ↓reduceIte, applyPicks]
          obtain ⟨js, hjs, hb, heq⟩ := ih (i + 1) s1 l ps' s'' hrec (by omega) (by omega) hlen hdrop
          refine ⟨j :: js, by simp [hjs], ?_, ?_⟩
          · intro t ht
            cases t with
            | zero => simpa using hji
            | succ t =>
              have := hb t (by simpa using ht)
              simp only [getElem_cons_succ]; omega
          · rw [heq]
            simp only [reservoir.go, stepRes, hkl, hjk, ↓reduceIte]
      · simp at h
      · simp at h
    · simp at h
    · simp at h

theorem mem_allDraws (k : Nat) : ∀ (m : Nat) (js : List Nat), js.length = m →
    (∀ (t : Nat) (ht : t < js.length), js[t] ≤ k + t) → js ∈ allDraws k m
  | 0, js, hl, _ => by
    have : js = [] := by simpa using hl
    subst this; exact mem_singleton.mpr rfl
  | m + 1, js, hl, hb => by
    rcases eq_nil_or_concat js with rfl | ⟨init, last, hjs⟩
    · simp at hl
    · rw [concat_eq_append] at hjs
      subst hjs
      simp only [length_append, length_cons, length_nil] at hl
      have hil : init.length = m := by omega
      simp only [allDraws, mem_flatMap, mem_map, mem_range]
      refine ⟨init, mem_allDraws k m init hil ?_, last, ?_, rfl⟩
      · intro t ht
        have := hb t (by simp; omega)
        rwa [getElem_append_left ht] at this
      · have := hb m (by simp; omega)
        rw [getElem_append_right (by omega)] at this
        simp [hil] at this
        omega

end ScionTime.Sample
