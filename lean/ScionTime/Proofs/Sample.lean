/-
  Helper lemmas for C15 (rejection sampling arithmetic, reservoir step).
-/
import ScionTime.Model.Sample
namespace ScionTime.Sample

/-- `uint(-n) % n = 2^w % n` -/
theorem thr_eq (W n : Nat) (hnW : n ≤ W) : (W - n) % n = W % n := by
  have h : W = (W - n) + n := by omega
  conv => rhs; rw [h]
  exact (Nat.add_mod_right _ _).symm

/-- residues of an interval `(t, W)` with `t = W % n`: the values with residue `r` are exactly
    `n*j + r` for `j` in `[lo, hi)`. -/
theorem residue_char (W n r x : Nat) (hn : 0 < n) (hr : r < n) :
    (W % n < x ∧ x < W ∧ x % n = r) ↔
    ∃ j, x = n * j + r ∧ (if W % n < r then 0 else 1) ≤ j ∧ j < (if r < W % n then W / n + 1 else W / n) := by
  have hW := Nat.div_add_mod W n
  have ht : W % n < n := Nat.mod_lt _ hn
  generalize W % n = t at *
  generalize W / n = Q at *
  constructor
  · rintro ⟨h1, h2, h3⟩
    have hx := Nat.div_add_mod x n
    rw [h3] at hx
    refine ⟨x / n, by omega, ?_, ?_⟩
    · generalize x / n = j at *
      split
      · exact Nat.zero_le _
      · rcases Nat.eq_zero_or_pos j with h0 | h0
        · rw [h0] at hx; omega
        · omega
    · generalize x / n = j at *
      split
      · -- r < t : j ≤ Q
        apply Nat.lt_succ_of_le
        apply Nat.le_of_not_lt
        intro hlt
        have : n * (Q + 1) ≤ n * j := Nat.mul_le_mul_left n hlt
        rw [Nat.mul_add] at this; omega
      · apply Nat.lt_of_not_le
        intro hle
        have : n * Q ≤ n * j := Nat.mul_le_mul_left n hle
        omega
  · rintro ⟨j, hx, hlo, hhi⟩
    subst hx
    refine ⟨?_, ?_, ?_⟩
    · split at hlo
      · omega
      · have : n * 1 ≤ n * j := Nat.mul_le_mul_left n hlo
        omega
    · split at hhi
      · have : n * j ≤ n * Q := Nat.mul_le_mul_left n (Nat.le_of_lt_succ hhi)
        omega
      · have : n * (j + 1) ≤ n * Q := Nat.mul_le_mul_left n hhi
        rw [Nat.mul_add] at this; omega
    · rw [Nat.mul_add_mod]; exact Nat.mod_eq_of_lt hr

/-! ### Ideal reservoir: all draw vectors, per-step counts -/
open List

/-- all draw vectors for the items `k .. k+m-1`: the draw for item `i` ranges over `[0, i]`
    (what `RandIntn(i+1)` returns); each vector is one equally likely outcome of ideal
    uniform draws -/
def allDraws (k : Nat) : Nat → List (List Nat)
  | 0 => [[]]
  | m + 1 => (allDraws k m).flatMap fun js => (List.range (k + m + 1)).map fun j => js ++ [j]

/-- the reservoirs after `m` items beyond the first `k`, one per draw vector -/
def outcomes (k m : Nat) : List (List Nat) := (allDraws k m).map (reservoir k)

theorem allDraws_length (k : Nat) : ∀ (m : Nat) (js : List Nat), js ∈ allDraws k m → js.length = m
  | 0, js, h => by simp [allDraws] at h; simp [h]
  | m + 1, js, h => by
    simp only [allDraws, mem_flatMap, mem_map] at h
    obtain ⟨js', hjs', j, _, rfl⟩ := h
    simp [allDraws_length k m js' hjs']

theorem go_snoc : ∀ (js : List Nat) (res : List Nat) (i j : Nat),
    reservoir.go res i (js ++ [j]) = stepRes (reservoir.go res i js) j (i + js.length)
  | [], _, _, _ => by simp [reservoir.go]
  | j' :: js, res, i, j => by
    simp only [cons_append, reservoir.go, length_cons]
    rw [go_snoc js]; congr 1; omega

theorem flatMap_congr' {α β : Type} (l : List α) (f g : α → List β) (h : ∀ a ∈ l, f a = g a) :
    l.flatMap f = l.flatMap g := by
  induction l with
  | nil => rfl
  | cons a l ih =>
    simp only [flatMap_cons]
    rw [h a (by simp), ih (fun b hb => h b (by simp [hb]))]

theorem outcomes_zero (k : Nat) : outcomes k 0 = [List.range k] := by
  simp [outcomes, allDraws, reservoir, reservoir.go]

theorem outcomes_succ (k m : Nat) : outcomes k (m + 1) =
    (outcomes k m).flatMap fun res => (List.range (k + m + 1)).map fun j => stepRes res j (k + m) := by
  unfold outcomes
  simp only [allDraws, map_flatMap, map_map, flatMap_map]
  apply flatMap_congr'
  intro js hjs
  apply map_congr_left
  intro j _
  simp only [Function.comp, reservoir]
  rw [go_snoc, allDraws_length k m js hjs]

theorem nodup_set_fresh : ∀ (l : List Nat) (j x : Nat), l.Nodup → x ∉ l → (l.set j x).Nodup
  | [], _, _, _, _ => by simp
  | a :: l, 0, x, h, hx => by
    simp only [set_cons_zero, nodup_cons] at *
    exact ⟨fun hm => hx (by simp [hm]), h.2⟩
  | a :: l, j + 1, x, h, hx => by
    simp only [set_cons_succ, nodup_cons, mem_cons, not_or] at *
    refine ⟨fun hm => ?_, nodup_set_fresh l j x h.2 hx.2⟩
    rcases mem_or_eq_of_mem_set hm with h1 | h1
    · exact h.1 h1
    · exact hx.1 h1.symm

/-- reservoir invariant: `k` distinct items, all already seen -/
def ResInv (k n : Nat) (res : List Nat) : Prop := res.length = k ∧ res.Nodup ∧ ∀ y ∈ res, y < n

theorem stepRes_inv (k n j : Nat) (res : List Nat) (h : ResInv k n res) : ResInv k (n + 1) (stepRes res j n) := by
  obtain ⟨h1, h2, h3⟩ := h
  unfold stepRes
  split
  · refine ⟨by simpa using h1, nodup_set_fresh res j n h2 (fun hm => Nat.lt_irrefl _ (h3 n hm)), ?_⟩
    intro y hy
    rcases mem_or_eq_of_mem_set hy with h | h
    · exact Nat.lt_succ_of_lt (h3 y h)
    · omega
  · exact ⟨h1, h2, fun y hy => Nat.lt_succ_of_lt (h3 y hy)⟩

theorem outcomes_inv (k : Nat) : ∀ (m : Nat) (res : List Nat), res ∈ outcomes k m → ResInv k (k + m) res
  | 0, res, h => by
    rw [outcomes_zero] at h
    simp only [mem_singleton] at h; subst h
    exact ⟨by simp, nodup_range, fun y hy => by simpa using hy⟩
  | m + 1, res, h => by
    rw [outcomes_succ] at h
    simp only [mem_flatMap, mem_map] at h
    obtain ⟨res', hres', j, _, rfl⟩ := h
    exact stepRes_inv k (k + m) j res' (outcomes_inv k m res' hres')

theorem countP_lt_range : ∀ (N k : Nat), k ≤ N → countP (fun j => decide (j < k)) (List.range N) = k
  | 0, k, h => by simp at h; simp [h]
  | N + 1, k, h => by
    rw [range_succ, countP_append]
    by_cases hk : k ≤ N
    · rw [countP_lt_range N k hk]
      have : ¬ N < k := by omega
      simp [this]
    · have hk' : k = N + 1 := by omega
      subst hk'
      have : countP (fun j => decide (j < N + 1)) (List.range N) = N := by
        rw [countP_congr (q := fun j => decide (j < N))]
        · exact countP_lt_range N N (Nat.le_refl _)
        · intro x hx; simp at hx; simp; omega
      rw [this]; simp

theorem countP_ne_range : ∀ (N d : Nat), d < N → countP (fun j => decide (j ≠ d)) (List.range N) = N - 1
  | 0, d, h => by simp at h
  | N + 1, d, h => by
    rw [range_succ, countP_append]
    by_cases hd : d < N
    · rw [countP_ne_range N d hd]
      have : N ≠ d := by omega
      simp [this]; omega
    · have hd' : d = N := by omega
      subst hd'
      have : countP (fun j => decide (j ≠ d)) (List.range d) = d := by
        have h1 : countP (fun j => decide (j ≠ d)) (List.range d) = (List.range d).length :=
          countP_eq_length.mpr (fun x hx => by simp at hx; simp; omega)
        simpa using h1
      rw [this]; simp

/-- per-step inclusion counts: among the `n+1` equally likely draws for item `n`,
    the new item enters the reservoir in exactly `k` … -/
theorem step_count_new (k n : Nat) (res : List Nat) (h : ResInv k n res) (hk : k ≤ n + 1) :
    countP (fun j => decide (n ∈ stepRes res j n)) (List.range (n + 1)) = k := by
  obtain ⟨h1, _, h3⟩ := h
  rw [countP_congr (q := fun j => decide (j < k))]
  · exact countP_lt_range (n + 1) k hk
  · intro j _
    simp only [decide_eq_true_eq]
    unfold stepRes
    rw [h1]
    constructor
    · intro hm
      by_cases hj : j < k
      · exact hj
      · simp only [hj, ↓reduceIte] at hm
        exact absurd (h3 n hm) (Nat.lt_irrefl _)
    · intro hj
      simp only [hj, ↓reduceIte]
      exact mem_set (by omega) n

/-- … an item of the reservoir survives in exactly `n` … -/
theorem step_count_old (k n x : Nat) (res : List Nat) (h : ResInv k n res) (hk : k ≤ n + 1) (hx : x ∈ res) :
    countP (fun j => decide (x ∈ stepRes res j n)) (List.range (n + 1)) = n := by
  obtain ⟨h1, h2, h3⟩ := h
  obtain ⟨d, hd, hxd⟩ := mem_iff_getElem.mp hx
  have hxn : x ≠ n := by have := h3 x hx; omega
  rw [countP_congr (q := fun j => decide (j ≠ d))]
  · rw [countP_ne_range (n + 1) d (by omega)]; omega
  · intro j _
    simp only [decide_eq_true_eq]
    unfold stepRes
    constructor
    · intro hm hjd
      subst hjd
      simp only [hd, ↓reduceIte] at hm
      obtain ⟨d', hd', he⟩ := mem_iff_getElem.mp hm
      rw [getElem_set] at he
      split at he
      · exact hxn he.symm
      · rename_i hne
        have hd'' : d' < res.length := by simpa using hd'
        have : res[d'] = res[j] := by rw [he, hxd]
        exact hne ((getElem_inj h2).mp this).symm
    · intro hjd
      split
      · apply mem_iff_getElem.mpr
        refine ⟨d, by simpa using hd, ?_⟩
        rw [getElem_set]; simp [hjd, hxd]
      · exact hx

/-- … and an item that is neither in the reservoir nor the new one never appears. -/
theorem step_count_absent (n x : Nat) (res : List Nat) (hx : x ∉ res) (hxn : x ≠ n) :
    countP (fun j => decide (x ∈ stepRes res j n)) (List.range (n + 1)) = 0 := by
  rw [countP_eq_zero]
  intro j _
  simp only [decide_eq_true_eq]
  unfold stepRes
  split
  · intro hm
    rcases mem_or_eq_of_mem_set hm with h | h
    · exact hx h
    · exact hxn h
  · exact hx

theorem sum_map_ite {α : Type} (L : List α) (p : α → Bool) (n : Nat) :
    (L.map fun a => if p a then n else 0).sum = n * L.countP p := by
  induction L with
  | nil => simp
  | cons a L ih =>
    simp only [map_cons, sum_cons, countP_cons, ih]
    split <;> simp [Nat.mul_add] <;> omega

theorem sum_map_const {α : Type} (L : List α) (c : Nat) : (L.map fun _ => c).sum = L.length * c := by
  induction L with
  | nil => simp
  | cons a L ih => simp only [map_cons, sum_cons, ih, length_cons, Nat.add_mul]; omega

theorem sum_map_congr {α : Type} (L : List α) (F G : α → Nat) (h : ∀ a ∈ L, F a = G a) :
    (L.map F).sum = (L.map G).sum := by
  rw [map_congr_left h]

theorem outcomes_length_succ (k m : Nat) :
    (outcomes k (m + 1)).length = (outcomes k m).length * (k + m + 1) := by
  rw [outcomes_succ, length_flatMap]
  simp only [length_map, length_range]
  exact sum_map_const _ _

/-- Inclusion counts of the ideal reservoir: among all draw vectors for `n = k+m` items, item
    `x` ends up in the reservoir in exactly the fraction `k/n` of them. -/
theorem inclusion_count (k : Nat) : ∀ (m x : Nat), x < k + m →
    countP (fun res => decide (x ∈ res)) (outcomes k m) * (k + m) = k * (outcomes k m).length
  | 0, x, hx => by
    rw [outcomes_zero]
    have : x ∈ List.range k := by simpa using hx
    simp [this]
  | m + 1, x, hx => by
    rw [outcomes_length_succ, outcomes_succ, countP_flatMap]
    by_cases hxn : x = k + m
    · subst hxn
      rw [sum_map_congr _ _ (fun _ => k)]
      · rw [sum_map_const]; ac_rfl
      · intro res hres
        simp only [Function.comp, countP_map]
        exact step_count_new k (k + m) res (outcomes_inv k m res hres) (by omega)
    · have ih := inclusion_count k m x (by omega)
      rw [sum_map_congr _ _ (fun res => if decide (x ∈ res) then k + m else 0)]
      · rw [sum_map_ite]
        calc (k + m) * countP (fun res => decide (x ∈ res)) (outcomes k m) * (k + (m + 1))
            = (countP (fun res => decide (x ∈ res)) (outcomes k m) * (k + m)) * (k + m + 1) := by ac_rfl
          _ = k * (outcomes k m).length * (k + m + 1) := by rw [ih]
          _ = k * ((outcomes k m).length * (k + m + 1)) := by ac_rfl
      · intro res hres
        simp only [Function.comp, countP_map]
        have hinv := outcomes_inv k m res hres
        by_cases hm : x ∈ res
        · simp only [hm, decide_true, ↓reduceIte]
          exact step_count_old k (k + m) x res hinv (by omega) hm
        · simp only [hm, decide_false, Bool.false_eq_true, ↓reduceIte]
          exact step_count_absent (k + m) x res hm hxn

theorem outcomes_length (k : Nat) : ∀ m, (outcomes k m).length = (allDraws k m).length := by
  intro m; simp [outcomes]

end ScionTime.Sample
