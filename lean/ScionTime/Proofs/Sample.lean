/-
  Helper lemmas for C15 (rejection sampling arithmetic, reservoir step).
-/
import ScionTime.Model.Sample
namespace ScionTime.Sample

/-- `uint(-n) % n = 2^w % n` -/
theorem thr_eq (W n : Nat) (hnW : n ≤ W) : (W - n) % n = W % n := by
  have h : W = (W - n) + n := by omega
  conv => rhs; rw [h]
  exact (Nat.add_mod_right _ _).symm

/-- residues of an interval `(t, W)` with `t = W % n`: the values with residue `r` are exactly
    `n*j + r` for `j` in `[lo, hi)`. -/
theorem residue_char (W n r x : Nat) (hn : 0 < n) (hr : r < n) :
    (W % n < x ∧ x < W ∧ x % n = r) ↔
    ∃ j, x = n * j + r ∧ (if W % n < r then 0 else 1) ≤ j ∧ j < (if r < W % n then W / n + 1 else W / n) := by
  have hW := Nat.div_add_mod W n
  have ht : W % n < n := Nat.mod_lt _ hn
  generalize W % n = t at *
  generalize W / n = Q at *
  constructor
  · rintro ⟨h1, h2, h3⟩
    have hx := Nat.div_add_mod x n
    rw [h3] at hx
    refine ⟨x / n, by omega, ?_, ?_⟩
    · generalize x / n = j at *
      split
      · exact Nat.zero_le _
      · rcases Nat.eq_zero_or_pos j with h0 | h0
        · rw [h0] at hx; omega
        · omega
    · generalize x / n = j at *
      split
      · -- r < t : j ≤ Q
        apply Nat.lt_succ_of_le
        apply Nat.le_of_not_lt
        intro hlt
        have : n * (Q + 1) ≤ n * j := Nat.mul_le_mul_left n hlt
        rw [Nat.mul_add] at this; omega
      · apply Nat.lt_of_not_le
        intro hle
        have : n * Q ≤ n * j := Nat.mul_le_mul_left n hle
        omega
  · rintro ⟨j, hx, hlo, hhi⟩
    subst hx
    refine ⟨?_, ?_, ?_⟩
    · split at hlo
      · omega
      · have : n * 1 ≤ n * j := Nat.mul_le_mul_left n hlo
        omega
    · split at hhi
      · have : n * j ≤ n * Q := Nat.mul_le_mul_left n (Nat.le_of_lt_succ hhi)
        omega
      · have : n * (j + 1) ≤ n * Q := Nat.mul_le_mul_left n hhi
        rw [Nat.mul_add] at this; omega
    · rw [Nat.mul_add_mod]; exact Nat.mod_eq_of_lt hr

end ScionTime.Sample
