/-
  The structural invariant of the timestamp store (everything except heap order) and
  its preservation by the heap routines, `handleRequest` and `updateTX`.
-/
import ScionTime.Proofs.ServerHeap
import ScionTime.Proofs.ServerScan
namespace ScionTime.Server
open ScionTime.Time64

/-- per-item invariant (does not mention `qidx`); `P` is any predicate that every entry
    written by `handleRequest`/`updateTX` satisfies (used for C06: tx later than rx) -/
structure ItemOk (P : Entry → Prop) (icap : Nat) (k : Nat) (buf : List Entry) (qval : T64) : Prop where
  len_pos : 1 ≤ buf.length
  len_le : buf.length ≤ icap
  distinct : (buf.map (·.rx)).Nodup
  qval_ge : ∀ e ∈ buf, le64 e.rx qval
  owner : ∀ e ∈ buf, e.owner = k
  good : ∀ e ∈ buf, P e

def ItemsOk (P : Entry → Prop) (icap : Nat) (m : Map) : Prop :=
  ∀ k it, m.find k = some it → ItemOk P icap k it.buf it.qval

structure Inv0 (P : Entry → Prop) (cap icap : Nat) (st : State) : Prop where
  wf : WF st
  size : st.items.length ≤ cap
  items : ItemsOk P icap st.items

theorem itemsOk_same {P : Entry → Prop} {icap : Nat} {m m' : Map} (h : Same m m') (ok : ItemsOk P icap m) :
    ItemsOk P icap m' := by
  intro k it' hf
  obtain ⟨it, h1, h2, h3⟩ := same_find h hf
  rw [← h2, ← h3]; exact ok k it h1

/-! ### list facts -/

theorem nodup_set_notin {α} : ∀ (l : List α) (i : Nat) (x : α), l.Nodup → x ∉ l → (l.set i x).Nodup := by
  intro l
  induction l with
  | nil => intro i x h _; simp
  | cons a l ih =>
    intro i x h hx
    rw [List.nodup_cons] at h
    cases i with
    | zero =>
      simp only [List.set_cons_zero, List.nodup_cons]
      exact ⟨fun hm => hx (List.mem_cons_of_mem _ hm), h.2⟩
    | succ i =>
      simp only [List.set_cons_succ, List.nodup_cons]
      refine ⟨?_, ih i x h.2 (fun hm => hx (List.mem_cons_of_mem _ hm))⟩
      intro hm
      rcases List.mem_or_eq_of_mem_set hm with hm | hm
      · exact h.1 hm
      · subst hm; exact hx (List.mem_cons_self)

/-! ### modifications that do not touch `qidx` -/

theorem pos_modify (m : Map) (k : Nat) (f : Item → Item) (hf : ∀ it, (f it).qidx = it.qidx) (k' : Nat) :
    pos (m.modify k f) k' = pos m k' := by
  unfold pos
  rw [Map.find_modify]
  by_cases h : k = k'
  · simp only [h, if_true, Option.map_map]
    cases Map.find m k' <;> simp [hf]
  · simp [h]

theorem wf_modify (st : State) (h : WF st) (k : Nat) (f : Item → Item)
    (hf : ∀ it, (f it).qidx = it.qidx) : WF { st with items := st.items.modify k f } := by
  refine ⟨?_, ?_, ?_, ?_⟩
  · simp only [Map.keys_modify]; exact h.nodup
  · simp only [Map.length_modify]; exact h.len
  · intro i hi; simp only [hkey, pos_modify _ _ _ hf]; exact h.fwd i hi
  · intro k' q hq; simp only [pos_modify _ _ _ hf] at hq; exact h.bwd k' q hq

theorem kv_modify_ne (st : State) (h : WF st) (k : Nat) (f : Item → Item) (it : Item)
    (hit : st.items.find k = some it) (x : Nat) (hx : x < st.heap.size) (hne : x ≠ it.qidx) :
    kv { st with items := st.items.modify k f } x = kv st x := by
  unfold kv qv
  simp only [hkey]
  rw [Map.find_modify]
  have : ¬ k = st.heap.getD x 0 := by
    intro e
    have := h.fwd x hx
    unfold hkey at this
    rw [← e] at this
    unfold pos at this; rw [hit] at this
    simp at this; exact hne this.symm
  rw [if_neg this]

/-! ### heap routines keep WF -/

theorem keeps_fix (st : State) (h : WF st) (i : Nat) (hi : i < st.heap.size) : Keeps st (fix st i) := by
  unfold fix
  simp only
  have k1 := keeps_down st.heap.size st i st.heap.size h (Nat.le_refl _)
  split
  · exact k1
  · exact k1.trans (keeps_up _ _ _ k1.wf (by rw [k1.size]; exact hi))

theorem hkey_up_gt (f : Nat) : ∀ (st : State) (j x : Nat), j < st.heap.size → j < x →
    hkey (up st j f) x = hkey st x := by
  induction f with
  | zero => intro st j x _ _; rfl
  | succ f ih =>
    intro st j x hj hx
    unfold up
    simp only
    split
    · rfl
    · rw [ih _ _ _ (by rw [size_swap]; omega) (by omega)]
      rw [hkey_swap st _ _ x (by omega) hj]
      have h1 : ¬ x = j := by omega
      have h2 : ¬ x = (j - 1) / 2 := by omega
      simp [h1, h2]

theorem hkey_down_ge (f : Nat) : ∀ (st : State) (i n x : Nat), n ≤ st.heap.size → n ≤ x →
    hkey (down st i n f).1 x = hkey st x := by
  induction f with
  | zero => intro st i n x _ _; rfl
  | succ f ih =>
    intro st i n x hn hx
    unfold down
    split
    · rfl
    · split
      · rfl
      · have hc := child_cases st i n (by omega)
        rw [ih _ _ _ _ (by rw [size_swap]; exact hn) hx]
        rw [hkey_swap st _ _ x (by omega) (by omega)]
        have h1 : ¬ x = child st i n := by omega
        have h2 : ¬ x = i := by omega
        simp [h1, h2]

/-- removing the last heap slot together with its map entry -/
theorem wf_dropLast (st : State) (h : WF st) (hpos : 0 < st.heap.size) :
    WF { items := st.items.erase (hkey st (st.heap.size - 1)), heap := st.heap.pop } := by
  have hn : st.heap.size - 1 < st.heap.size := by omega
  have fn := h.fwd _ hn
  have hk : ∀ i, i < st.heap.size - 1 → hkey { items := st.items.erase (hkey st (st.heap.size - 1)), heap := st.heap.pop } i = hkey st i := by
    intro i hi
    unfold hkey
    simp only [Array.getD_eq_getD_getElem?, Array.getElem?_pop, hi, if_true]
  refine ⟨Map.nodup_erase _ h.nodup _, ?_, ?_, ?_⟩
  · simp only [Array.size_pop]
    unfold pos at fn
    cases hf : Map.find st.items (hkey st (st.heap.size - 1)) with
    | none => simp [hf] at fn
    | some it =>
      have := Map.length_erase _ _ _ hf
      have := h.len
      omega
  · intro i hi
    simp only [Array.size_pop] at hi
    rw [hk i hi]
    unfold pos
    rw [Map.find_erase _ h.nodup]
    have : ¬ hkey st (st.heap.size - 1) = hkey st i := fun e => by
      have := h.inj hn (by omega) e; omega
    simp only [this, if_false]
    exact h.fwd i (by omega)
  · intro k q hq
    unfold pos at hq
    rw [Map.find_erase _ h.nodup] at hq
    by_cases e : hkey st (st.heap.size - 1) = k
    · simp [e] at hq
    · simp only [e, if_false] at hq
      obtain ⟨a, b⟩ := h.bwd k q hq
      have hq' : q < st.heap.size - 1 := by
        rcases Nat.lt_or_ge q (st.heap.size - 1) with c | c
        · exact c
        · have : q = st.heap.size - 1 := by omega
          rw [this] at b; exact absurd b e
      simp only [Array.size_pop]
      exact ⟨hq', by rw [hk q hq']; exact b⟩

theorem same_erase_ne (m : Map) (hn : (Map.keys m).Nodup) (k k' : Nat) (hne : k ≠ k') :
    (Map.find (m.erase k) k') = Map.find m k' := by
  rw [Map.find_erase _ hn]; simp [hne]


/-! ### effect of the composite heap operations -/

theorem fixQval_spec (st : State) (h : WF st) (id : Nat) (it : Item) (hit : st.items.find id = some it)
    (v : T64) :
    WF (fixQval st id v it.qidx) ∧ (fixQval st id v it.qidx).heap.size = st.heap.size ∧
      (fixQval st id v it.qidx).items.length = st.items.length ∧
      Same (setQval st.items id v) (fixQval st id v it.qidx).items := by
  have hq : it.qidx < st.heap.size := (h.bwd id it.qidx (by unfold pos; rw [hit]; rfl)).1
  have w1 : WF { st with items := setQval st.items id v } := wf_modify st h id _ (fun _ => rfl)
  have k := keeps_fix _ w1 it.qidx hq
  refine ⟨k.wf, k.size, ?_, k.same⟩
  have a1 := k.wf.len
  have a2 := h.len
  have a3 := k.size
  unfold fixQval
  simp only at a3
  omega

theorem popMin_spec (st : State) (h : WF st) (hpos : 0 < st.heap.size) :
    WF (popMin st).1 ∧ (popMin st).1.items.length + 1 = st.items.length ∧
      (∀ k, k ≠ (popMin st).2 → ((popMin st).1.items.find k).map core = (st.items.find k).map core) ∧
      (popMin st).1.items.find (popMin st).2 = none := by
  unfold popMin
  simp only
  have hn : st.heap.size - 1 < st.heap.size := by omega
  have k1 := keeps_swap st h 0 (st.heap.size - 1) hpos hn
  have k2 := k1.trans (keeps_down (st.heap.size - 1) _ 0 (st.heap.size - 1) k1.wf (by rw [k1.size]; omega))
  generalize (down (swap st 0 (st.heap.size - 1)) 0 (st.heap.size - 1) (st.heap.size - 1)).1 = st1 at k2
  have hs : st1.heap.size = st.heap.size := k2.size
  rw [← hs]
  have w := wf_dropLast st1 k2.wf (by omega)
  refine ⟨w, ?_, ?_, ?_⟩
  · have := w.len
    simp only [Array.size_pop] at this
    have := h.len
    omega
  · intro k hk
    rw [same_erase_ne _ k2.wf.nodup _ _ (Ne.symm hk)]
    exact (k2.same k).symm
  · rw [Map.find_erase _ k2.wf.nodup]; simp

theorem remove_spec (st : State) (h : WF st) (id : Nat) (it : Item) (hit : st.items.find id = some it) :
    WF (remove st it.qidx id) ∧ (remove st it.qidx id).items.length + 1 = st.items.length ∧
      (∀ k, k ≠ id → ((remove st it.qidx id).items.find k).map core = (st.items.find k).map core) ∧
      (remove st it.qidx id).items.find id = none := by
  obtain ⟨hq, hkq⟩ := h.bwd id it.qidx (by unfold pos; rw [hit]; rfl)
  have hpos : 0 < st.heap.size := by omega
  have hn : st.heap.size - 1 < st.heap.size := by omega
  -- the state before the final Pop: WF, same size, same contents, and `id` in the last slot
  have key : ∃ st1, (remove st it.qidx id) = { items := st1.items.erase id, heap := st1.heap.pop } ∧
      Keeps st st1 ∧ hkey st1 (st.heap.size - 1) = id := by
    unfold remove
    simp only
    split
    · rename_i hne
      have k1 := keeps_swap st h it.qidx (st.heap.size - 1) hq hn
      have hk1 : hkey (swap st it.qidx (st.heap.size - 1)) (st.heap.size - 1) = id := by
        rw [hkey_swap st _ _ _ hq hn]; simp [hkq]
      have k2 := keeps_down (st.heap.size - 1) _ it.qidx (st.heap.size - 1) k1.wf (by rw [k1.size]; omega)
      have hk2 : hkey (down (swap st it.qidx (st.heap.size - 1)) it.qidx (st.heap.size - 1) (st.heap.size - 1)).1
          (st.heap.size - 1) = id := by
        rw [hkey_down_ge _ _ _ _ _ (by rw [size_swap]; omega) (Nat.le_refl _)]; exact hk1
      split
      · exact ⟨_, rfl, k1.trans k2, hk2⟩
      · have hlt : it.qidx < st.heap.size - 1 := by omega
        have k3 := keeps_up (it.qidx + 1) _ it.qidx k2.wf (by rw [k2.size, k1.size]; exact hq)
        refine ⟨_, rfl, (k1.trans k2).trans k3, ?_⟩
        rw [hkey_up_gt _ _ _ _ (by rw [k2.size, k1.size]; exact hq) hlt]; exact hk2
    · rename_i heq
      have heq' : st.heap.size - 1 = it.qidx := by omega
      exact ⟨st, rfl, Keeps.refl h, by rw [heq']; exact hkq⟩
  obtain ⟨st1, e, k, hk⟩ := key
  rw [e]
  have hs : st1.heap.size = st.heap.size := k.size
  have w := wf_dropLast st1 k.wf (by omega)
  rw [hs, hk] at w
  refine ⟨w, ?_, ?_, ?_⟩
  · have a1 := w.len
    simp only [Array.size_pop] at a1
    have a2 := h.len
    simp only
    omega
  · intro k' hk'
    rw [same_erase_ne _ k.wf.nodup _ _ (Ne.symm hk')]
    exact (k.same k').symm
  · rw [Map.find_erase _ k.wf.nodup]; simp

theorem push_spec (st : State) (h : WF st) (id : Nat) (it : Item) (hnone : st.items.find id = none) :
    WF (push { st with items := (id, it) :: st.items } id) ∧
      (push { st with items := (id, it) :: st.items } id).items.length = st.items.length + 1 ∧
      Same ((id, it) :: st.items) (push { st with items := (id, it) :: st.items } id).items := by
  unfold push
  simp only
  have hnk : id ∉ Map.keys st.items := (Map.find_none_iff _ _).1 hnone
  have hkold : ∀ i, i < st.heap.size → hkey st i ≠ id := by
    intro i hi e
    have := h.fwd i hi
    rw [e] at this; unfold pos at this; rw [hnone] at this; cases this
  have w1 : WF { items := setQidx ((id, it) :: st.items) id st.heap.size, heap := st.heap.push id } := by
    have hk : ∀ i, i < st.heap.size →
        hkey { items := setQidx ((id, it) :: st.items) id st.heap.size, heap := st.heap.push id } i = hkey st i := by
      intro i hi
      unfold hkey
      simp only [Array.getD_eq_getD_getElem?, Array.getElem?_push]
      have : ¬ i = st.heap.size := by omega
      simp [this]
    have hkn : hkey { items := setQidx ((id, it) :: st.items) id st.heap.size, heap := st.heap.push id }
        st.heap.size = id := by
      unfold hkey; simp [Array.getD_eq_getD_getElem?, Array.getElem?_push]
    have hp : ∀ k, pos (setQidx ((id, it) :: st.items) id st.heap.size) k =
        if id = k then some st.heap.size else pos st.items k := by
      intro k
      rw [pos_setQidx]
      by_cases e : id = k
      · simp [e, Map.find_cons]
      · simp only [e, if_false]; unfold pos; rw [Map.find_cons]; simp [e]
    refine ⟨?_, ?_, ?_, ?_⟩
    · unfold setQidx; rw [Map.keys_modify]
      unfold Map.keys at *
      simp only [List.map_cons, List.nodup_cons]
      exact ⟨hnk, h.nodup⟩
    · unfold setQidx; rw [Map.length_modify]
      simp only [List.length_cons, Array.size_push]
      have := h.len; omega
    · intro i hi
      simp only [Array.size_push] at hi
      rw [hp]
      by_cases e : i = st.heap.size
      · subst e; rw [hkn]; simp
      · have hi' : i < st.heap.size := by omega
        rw [hk i hi']
        have := hkold i hi'
        simp only [Ne.symm this, if_false]
        exact h.fwd i hi'
    · intro k q hq
      rw [hp] at hq
      simp only [Array.size_push]
      by_cases e : id = k
      · simp only [e, if_true, Option.some.injEq] at hq
        subst hq; subst e
        exact ⟨by omega, hkn⟩
      · simp only [e, if_false] at hq
        obtain ⟨a, b⟩ := h.bwd k q hq
        exact ⟨by omega, by rw [hk q a]; exact b⟩
  have k := keeps_up (st.heap.size + 1) _ st.heap.size w1 (by simp)
  refine ⟨k.wf, ?_, (same_setQidx _ _ _).trans k.same⟩
  have := k.wf.len
  have := k.size
  have := h.len
  simp only [Array.size_push] at *
  omega

end ScionTime.Server
