/-
  Lemmas about the scan loops and the uniqueness loop of Model/Server.lean.
-/
import ScionTime.Proofs.ServerMap
namespace ScionTime.Server
open ScionTime.Time64

/-! ### `Time64FromTime` is injective on nearby nanosecond values -/

theorem ofTime_ne_of_near (r d : Int) (h0 : 0 < d) (h1 : d < 1000000000) :
    ofTime r ≠ ofTime (r + d) := by
  intro h
  have hs := congrArg T64.sec h
  have hf := congrArg T64.frac h
  unfold ofTime unixSec nanosecond at hs hf
  simp only at hs hf
  t64c
  have hc : (r + d) / 1000000000 = r / 1000000000 ∨ (r + d) / 1000000000 = r / 1000000000 + 1 := by omega
  rcases hc with hc | hc
  · rw [hc] at hs
    have hn : (r + d) % 1000000000 = r % 1000000000 + d := by omega
    rw [hn] at hf
    omega
  · rw [hc] at hs
    omega

/-! ### scan loop of handleRequest -/

/-- invariant of the scan loop after the prefix `pre` -/
structure ScanInv (org : T64) (pre : List Entry) (a : Scan) : Prop where
  o_some : ∀ i, a.o = some i → (pre[i]?).map (·.rx) = some org
  o_none : a.o = none → ∀ e ∈ pre, e.rx ≠ org
  mn_some : ∀ i v, a.mn = some (i, v) → (pre[i]?).map (·.rx) = some v
  mn_none : a.mn = none → pre = []
  mx_some : ∀ i v, a.mx = some (i, v) → (pre[i]?).map (·.rx) = some v ∧ ∀ e ∈ pre, le64 e.rx v
  mx_none : a.mx = none → pre = []

theorem getElem?_append_single_lt {α} (pre : List α) (e : α) (i : Nat) (x : α)
    (h : pre[i]? = some x) : (pre ++ [e])[i]? = some x := by
  have hi : i < pre.length := by
    rcases Nat.lt_or_ge i pre.length with h' | h'
    · exact h'
    · rw [List.getElem?_eq_none h'] at h; cases h
  rw [List.getElem?_append_left hi]; exact h

theorem map_getElem?_append {pre : List Entry} {e : Entry} {i : Nat} {v : T64}
    (h : (pre[i]?).map (·.rx) = some v) : ((pre ++ [e])[i]?).map (·.rx) = some v := by
  cases hx : pre[i]? with
  | none => simp [hx] at h
  | some x => rw [getElem?_append_single_lt pre e i x hx]; simpa [hx] using h

theorem scanInv_step (org : T64) (pre : List Entry) (e : Entry) (a : Scan)
    (h : ScanInv org pre a) : ScanInv org (pre ++ [e]) (scanStep org pre.length e a) := by
  have hlast : ((pre ++ [e])[pre.length]?).map (·.rx) = some e.rx := by simp
  refine ⟨?_, ?_, ?_, ?_, ?_, ?_⟩
  · intro i hi
    unfold scanStep at hi; simp only at hi
    split at hi
    · rename_i he; cases hi; rw [hlast, he]
    · exact map_getElem?_append (h.o_some i hi)
  · intro hn x hx
    unfold scanStep at hn; simp only at hn
    split at hn
    · cases hn
    · rename_i he
      rcases List.mem_append.1 hx with hx | hx
      · exact h.o_none hn x hx
      · simp at hx; subst hx; exact he
  · intro i v hi
    unfold scanStep at hi; simp only at hi
    split at hi
    · cases hi; exact hlast
    · rename_i m v' hm
      split at hi
      · cases hi; exact hlast
      · cases hi; exact map_getElem?_append (h.mn_some _ _ hm)
  · intro hn
    unfold scanStep at hn; simp only at hn
    split at hn
    · cases hn
    · split at hn <;> cases hn
  · intro i v hi
    unfold scanStep at hi; simp only at hi
    split at hi
    · rename_i hm
      cases hi
      refine ⟨hlast, ?_⟩
      have := h.mx_none hm; subst this
      intro x hx; simp at hx; subst hx; exact le64_refl _
    · rename_i m v' hm
      obtain ⟨h1, h2⟩ := h.mx_some _ _ hm
      split at hi
      · rename_i hb
        cases hi
        refine ⟨hlast, ?_⟩
        intro x hx
        have hv : le64 v' e.rx := by simpa [le64] using hb
        rcases List.mem_append.1 hx with hx | hx
        · exact le64_trans (h2 x hx) hv
        · simp at hx; subst hx; exact le64_refl _
      · rename_i hb
        cases hi
        refine ⟨map_getElem?_append h1, ?_⟩
        intro x hx
        rcases List.mem_append.1 hx with hx | hx
        · exact h2 x hx
        · simp at hx; subst hx
          simp at hb
          exact le64_of_before hb
  · intro hn
    unfold scanStep at hn; simp only at hn
    split at hn
    · cases hn
    · split at hn <;> cases hn

theorem scanAux_inv (org : T64) : ∀ (l pre : List Entry) (a : Scan),
    ScanInv org pre a → ScanInv org (pre ++ l) (scanAux org l pre.length a) := by
  intro l
  induction l with
  | nil => intro pre a h; simpa [scanAux] using h
  | cons e l ih =>
    intro pre a h
    unfold scanAux
    have := ih (pre ++ [e]) _ (scanInv_step org pre e a h)
    simpa using this

theorem scan_inv (buf : List Entry) (org : T64) : ScanInv org buf (scan buf org) := by
  have := scanAux_inv org buf [] ⟨none, none, none⟩
    ⟨(by intro i h; cases h), (by intro _ e he; cases he), (by intro i v h; cases h), (fun _ => rfl),
     (by intro i v h; cases h), (fun _ => rfl)⟩
  simpa [scan] using this

/-! ### uniqueness loop -/

theorem collides_iff (buf : List Entry) (v : T64) : collides buf v = true ↔ ∃ e ∈ buf, e.rx = v := by
  unfold collides; simp

/-- entries whose rx equals the encoding of one of the `f` instants `r, r+1, …, r+f-1` -/
def inFuture (r : Int) (f : Nat) (e : Entry) : Prop := ∃ j : Nat, j < f ∧ e.rx = ofTime (r + j)

open Classical in
theorem countP_lt_of_imp {α} (p q : α → Bool) (l : List α) (himp : ∀ x ∈ l, p x = true → q x = true)
    (w : α) (hw : w ∈ l) (hq : q w = true) (hp : p w = false) : l.countP p < l.countP q := by
  induction l with
  | nil => cases hw
  | cons a l ih =>
    have himp' : ∀ x ∈ l, p x = true → q x = true := fun x hx => himp x (List.mem_cons_of_mem _ hx)
    have hle : l.countP p ≤ l.countP q := List.countP_mono_left himp'
    rcases List.mem_cons.1 hw with e | hw'
    · subst e
      rw [List.countP_cons_of_neg (by simp [hp]), List.countP_cons_of_pos hq]; omega
    · have := ih himp' hw'
      by_cases hpa : p a = true
      · have hqa := himp a (List.mem_cons_self) hpa
        rw [List.countP_cons_of_pos hpa, List.countP_cons_of_pos hqa]; omega
      · by_cases hqa : q a = true
        · rw [List.countP_cons_of_neg hpa, List.countP_cons_of_pos hqa]; omega
        · rw [List.countP_cons_of_neg hpa, List.countP_cons_of_neg hqa]; exact this

open Classical in
/-- The fuel of the uniqueness loop suffices: if fewer than `f` kept entries lie in the
    next `f` instants, the loop ends on a receive time that collides with nothing. -/
theorem uniq_no_collision (buf : List Entry) : ∀ (f : Nat) (rxt txt : Int), f ≤ 1000000000 →
    buf.countP (fun e => decide (inFuture rxt f e)) < f →
    collides buf (ofTime (uniq buf rxt txt f).1) = false := by
  intro f
  induction f with
  | zero => intro rxt txt _ h; omega
  | succ f ih =>
    intro rxt txt hf hc
    unfold uniq
    split
    · rename_i hcol
      simp only
      apply ih _ _ (by omega)
      obtain ⟨w, hw, hwe⟩ := (collides_iff _ _).1 hcol
      have hlt := countP_lt_of_imp (fun e => decide (inFuture (rxt + 1) f e))
        (fun e => decide (inFuture rxt (f + 1) e)) buf
        (by
          intro x _ hx
          simp only [decide_eq_true_eq] at hx ⊢
          obtain ⟨j, hj, he⟩ := hx
          exact ⟨j + 1, by omega, by rw [he]; congr 1; push_cast; omega⟩)
        w hw
        (by simp only [decide_eq_true_eq]; exact ⟨0, by omega, by simpa using hwe⟩)
        (by
          simp only [decide_eq_false_iff_not]
          rintro ⟨j, hj, he⟩
          rw [hwe] at he
          have := ofTime_ne_of_near rxt (1 + j) (by omega) (by omega)
          apply this; rw [he]; congr 1; omega)
      omega
    · rename_i hcol
      simpa using hcol

open Classical in
theorem uniq_spec (buf : List Entry) (rxt txt : Int) (hlen : buf.length < 1000000000) :
    collides buf (ofTime (uniq buf rxt txt (buf.length + 1)).1) = false := by
  apply uniq_no_collision buf _ _ _ (by omega)
  have := List.countP_le_length (p := fun e => decide (inFuture rxt (buf.length + 1) e)) (l := buf)
  omega

/-- the loop keeps `rxt < txt`, never decreases either, and moves `rxt` by at most the fuel -/
theorem uniq_mono (buf : List Entry) : ∀ (f : Nat) (rxt txt : Int),
    rxt ≤ (uniq buf rxt txt f).1 ∧ (uniq buf rxt txt f).1 ≤ rxt + f ∧ txt ≤ (uniq buf rxt txt f).2 ∧
      (rxt < txt → (uniq buf rxt txt f).1 < (uniq buf rxt txt f).2) ∧
      ((uniq buf rxt txt f).1 = rxt → (uniq buf rxt txt f).2 = txt) ∧
      ((uniq buf rxt txt f).2 ≤ txt ∨ (uniq buf rxt txt f).2 ≤ (uniq buf rxt txt f).1 + 1) := by
  intro f
  induction f with
  | zero => intro rxt txt; simp [uniq]
  | succ f ih =>
    intro rxt txt
    unfold uniq
    split
    · by_cases hc : rxt + 1 < txt
      · have := ih (rxt + 1) txt
        simp only [hc, not_true, if_false]
        omega
      · have := ih (rxt + 1) (rxt + 1 + 1)
        simp only [hc, not_false_eq_true, if_true]
        omega
    · simp; omega

end ScionTime.Server
