/-
  Lemmas about the capacity-modelled slices of the leaf translator's prelude
  (Model/GoPrelude2.lean, `Go.Slice`): what each operation does to the live elements. Core Lean only.
-/
import ScionTime.Model.GoPrelude2
import ScionTime.Proofs.GoPrelude
namespace ScionTime.GoSlice
open ScionTime ScionTime.GoLemmas ScionTime.Go

variable {α : Type}

theorem ofNat_toInt (n : Nat) (h : n < 4611686018427387904) : (Int64.ofNat n).toInt = n :=
  Int64.toInt_ofNat_of_lt (by omega)

theorem len_toInt (s : Slice α) (h : s.arr.length < 4611686018427387904) : s.len'.toInt = s.len := by
  have := s.ok
  exact ofNat_toInt _ (by omega)

theorem cap_toInt (s : Slice α) (h : s.arr.length < 4611686018427387904) : s.cap.toInt = s.arr.length :=
  ofNat_toInt _ h

theorem live_length (s : Slice α) : s.live.length = s.len := by
  have := s.ok
  simp [Slice.live]; omega

/-- `s[:n]` within capacity -/
theorem to?_some (s : Slice α) (n : Int64) (k : Nat) (hn : n.toInt = k) (hk : k ≤ s.arr.length) :
    ∃ s', s.to? n = some s' ∧ s'.arr = s.arr ∧ s'.len = k := by
  unfold Slice.to?
  have h : 0 ≤ n.toInt ∧ n.toInt ≤ s.arr.length := by omega
  rw [dif_pos h]
  exact ⟨_, rfl, rfl, by simp only; omega⟩

/-- `append` below capacity -/
theorem append?_some (s : Slice α) (x : α) (h : s.len < s.arr.length) :
    ∃ s', s.append? x = some s' ∧ s'.live = s.live ++ [x] ∧ s'.len = s.len + 1 ∧ s'.arr.length = s.arr.length := by
  unfold Slice.append?
  rw [dif_pos h]
  refine ⟨_, rfl, ?_, rfl, by simp⟩
  simp only [Slice.live]
  rw [List.take_add_one]
  simp [h]
  rw [List.take_set_of_le (Nat.le_refl _)]

/-- `copy(s[0:], s[1:])` followed by `s[:len-1]`: the oldest element is dropped -/
theorem copy_shift (s : Slice α) (h1 : 1 ≤ s.len) (hc : s.arr.length < 4611686018427387904) :
    ∃ s', s.copy? 0 s 1 = some s' ∧ s'.len = s.len ∧ s'.arr.length = s.arr.length ∧
      s'.arr.take (s.len - 1) = s.live.drop 1 := by
  have hok := s.ok
  unfold Slice.copy?
  have h0 : (0 : Int64).toInt = 0 := by decide
  have h1' : (1 : Int64).toInt = 1 := by decide
  rw [if_pos (by rw [h0, h1']; omega)]
  simp only [h0, h1', Int.toNat_zero, Int.toNat_one, Nat.sub_zero, List.take_zero, List.nil_append, Nat.zero_add]
  have hmin : min s.len (s.len - 1) = s.len - 1 := by omega
  simp only [hmin]
  have hlen : ((s.arr.drop 1).take (s.len - 1) ++ s.arr.drop (s.len - 1)).length = s.arr.length := by
    simp; omega
  rw [dif_pos (by rw [hlen]; exact hok)]
  refine ⟨_, rfl, rfl, hlen, ?_⟩
  simp only [Slice.live]
  rw [List.take_append_of_le_length (by simp; omega)]
  rw [List.take_take, Nat.min_self, List.drop_take]

/-- `copy(dst, src)` with `len(dst) = len(src)`: the live elements of `src` -/
theorem copy_all (dst src : Slice α) (h : dst.len = src.len) :
    ∃ d', dst.copy? 0 src 0 = some d' ∧ d'.len = dst.len ∧ d'.arr.length = dst.arr.length ∧ d'.live = src.live := by
  have hd := dst.ok
  have hs := src.ok
  unfold Slice.copy?
  have h0 : (0 : Int64).toInt = 0 := by decide
  rw [if_pos (by rw [h0]; omega)]
  simp only [h0, Int.toNat_zero, Nat.sub_zero, List.take_zero, List.nil_append, Nat.zero_add, List.drop_zero]
  have hmin : min dst.len src.len = src.len := by omega
  simp only [hmin]
  have hlen : (src.arr.take src.len ++ dst.arr.drop src.len).length = dst.arr.length := by
    simp; omega
  rw [dif_pos (by rw [hlen]; exact hd)]
  refine ⟨_, rfl, rfl, hlen, ?_⟩
  simp only [Slice.live, h]
  rw [List.take_append_of_le_length (by simp; omega), List.take_take, Nat.min_self]

/-- sorting in the insertion-sort regime -/
theorem sortBy?_some (key : α → Int64) (s : Slice α) (h12 : s.len ≤ 12) :
    ∃ s', s.sortBy? key = some s' ∧ s'.len = s.len ∧ s'.arr.length = s.arr.length ∧
      s'.live = Slice.sortByKey key s.live := by
  have hok := s.ok
  unfold Slice.sortBy?
  rw [if_pos (Or.inl h12)]
  have hlen : (Slice.sortByKey key s.live ++ s.arr.drop s.len).length = s.arr.length := by
    rw [List.length_append, Slice.length_sortByKey, live_length, List.length_drop]; omega
  simp only []
  rw [dif_pos (by rw [hlen]; exact hok)]
  refine ⟨_, rfl, rfl, hlen, ?_⟩
  simp only [Slice.live]
  have : s.len = (Slice.sortByKey key (List.take s.len s.arr)).length := by
    rw [Slice.length_sortByKey]; simp; omega
  conv => lhs; arg 1; rw [this]
  rw [List.take_left]

/-- `s[i]` in range is the live element -/
theorem get?_live (s : Slice α) (i : Int64) (k : Nat) (hi : i.toInt = k) (hk : k < s.len) :
    s.get? i = s.live[k]? := by
  unfold Slice.get? Slice.live
  rw [if_pos (by omega)]
  have : i.toInt.toNat = k := by omega
  rw [this, List.getElem?_take_of_lt hk]

/-- a slice resliced to `k` elements shows the first `k` of the array -/
theorem live_of (s : Slice α) (arr : List α) (k : Nat) (ha : s.arr = arr) (hl : s.len = k) : s.live = arr.take k := by
  simp [Slice.live, ha, hl]

end ScionTime.GoSlice
