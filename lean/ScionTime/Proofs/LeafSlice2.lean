/-
  Lemmas about the capacity-modelled slices of the leaf translator's prelude
  (Model/GoPrelude2.lean, `Go.Slice`): what each operation does to the live elements. Core Lean only.
-/
import ScionTime.Model.GoPrelude2
import ScionTime.Proofs.GoPrelude
namespace ScionTime.GoSlice
open ScionTime ScionTime.GoLemmas ScionTime.Go

variable {α : Type}

theorem ofNat_toInt (n : Nat) (h : n < 4611686018427387904) : (Int64.ofNat n).toInt = n :=
  Int64.toInt_ofNat_of_lt (by omega)

theorem len_toInt (s : Slice α) (h : s.arr.length < 4611686018427387904) : s.len'.toInt = s.len := by
  have := s.ok
  exact ofNat_toInt _ (by omega)

theorem cap_toInt (s : Slice α) (h : s.arr.length < 4611686018427387904) : s.cap.toInt = s.arr.length :=
  ofNat_toInt _ h

theorem live_length (s : Slice α) : s.live.length = s.len := by
  have := s.ok
  simp [Slice.live]; omega

/-- `s[:n]` within capacity -/
theorem to?_some (s : Slice α) (n : Int64) (k : Nat) (hn : n.toInt = k) (hk : k ≤ s.arr.length) :
    ∃ s', s.to? n = some s' ∧ s'.arr = s.arr ∧ s'.len = k := by
  unfold Slice.to?
  have h : 0 ≤ n.toInt ∧ n.toInt ≤ s.arr.length := by omega
  rw [dif_pos h]
  exact ⟨_, rfl, rfl, by simp only; omega⟩

/-- `append` below capacity -/
theorem append?_some (s : Slice α) (x : α) (h : s.len < s.arr.length) :
    ∃ s', s.append? x = some s' ∧ s'.live = s.live ++ [x] ∧ s'.len = s.len + 1 ∧ s'.arr.length = s.arr.length := by
  unfold Slice.append?
  rw [dif_pos h]
  refine ⟨_, rfl, ?_, rfl, by simp⟩
  simp only [Slice.live]
  rw [List.take_add_one]
  simp [h]
  rw [List.take_set_of_le (Nat.le_refl _)]

/-- `copy(s[0:], s[1:])` followed by `s[:len-1]`: the oldest element is dropped -/
theorem copy_shift (s : Slice α) (h1 : 1 ≤ s.len) (hc : s.arr.length < 4611686018427387904) :
    ∃ s', s.copy? 0 s 1 = some s' ∧ s'.len = s.len ∧ s'.arr.length = s.arr.length ∧
      s'.arr.take (s.len - 1) = s.live.drop 1 := by
  have hok := s.ok
  unfold Slice.copy?
  have h0 : (0 : Int64).toInt = 0 := by decide
  have h1' : (1 : Int64).toInt = 1 := by decide
  rw [if_pos (by rw [h0, h1']; omega)]
  simp only [h0, h1', Int.toNat_zero, Int.toNat_one, Nat.sub_zero, List.take_zero, List.nil_append, Nat.zero_add]
  have hmin : min s.len (s.len - 1) = s.len - 1 := by omega
  simp only [hmin]
  have hlen : ((s.arr.drop 1).take (s.len - 1) ++ s.arr.drop (s.len - 1)).length = s.arr.length := by
    simp; omega
  rw [dif_pos (by rw [hlen]; exact hok)]
  refine ⟨_, rfl, rfl, hlen, ?_⟩
  simp only [Slice.live]
  rw [List.take_append_of_le_length (by simp; omega)]
  rw [List.take_take, Nat.min_self, List.drop_take]

/-- `copy(dst, src)` with `len(dst) = len(src)`: the live elements of `src` -/
theorem copy_all (dst src : Slice α) (h : dst.len = src.len) :
    ∃ d', dst.copy? 0 src 0 = some d' ∧ d'.len = dst.len ∧ d'.arr.length = dst.arr.length ∧ d'.live = src.live := by
  have hd := dst.ok
  have hs := src.ok
  unfold Slice.copy?
  have h0 : (0 : Int64).toInt = 0 := by decide
  rw [if_pos (by rw [h0]; omega)]
  simp only [h0, Int.toNat_zero, Nat.sub_zero, List.take_zero, List.nil_append, Nat.zero_add, List.drop_zero]
  have hmin : min dst.len src.len = src.len := by omega
  simp only [hmin]
  have hlen : (src.arr.take src.len ++ dst.arr.drop src.len).length = dst.arr.length := by
    simp; omega
  rw [dif_pos (by rw [hlen]; exact hd)]
  refine ⟨_, rfl, rfl, hlen, ?_⟩
  simp only [Slice.live, h]
  rw [List.take_append_of_le_length (by simp; omega), List.take_take, Nat.min_self]

/-- sorting in the insertion-sort regime -/
theorem sortBy?_some (key : α → Int64) (s : Slice α) (h12 : s.len ≤ 12) :
    ∃ s', s.sortBy? key = some s' ∧ s'.len = s.len ∧ s'.arr.length = s.arr.length ∧
      s'.live = Slice.sortByKey key s.live := by
  have hok := s.ok
  unfold Slice.sortBy?
  rw [if_pos (Or.inl h12)]
  have hlen : (Slice.sortByKey key s.live ++ s.arr.drop s.len).length = s.arr.length := by
    rw [List.length_append, Slice.length_sortByKey, live_length, List.length_drop]; omega
  simp only []
  rw [dif_pos (by rw [hlen]; exact hok)]
  refine ⟨_, rfl, rfl, hlen, ?_⟩
  simp only [Slice.live]
  have : s.len = (Slice.sortByKey key (List.take s.len s.arr)).length := by
    rw [Slice.length_sortByKey]; simp; omega
  conv => lhs; arg 1; rw [this]
  rw [List.take_left]

/-- `s[i]` in range is the live element -/
theorem get?_live (s : Slice α) (i : Int64) (k : Nat) (hi : i.toInt = k) (hk : k < s.len) :
    s.get? i = s.live[k]? := by
  unfold Slice.get? Slice.live
  rw [if_pos (by omega)]
  have : i.toInt.toNat = k := by omega
  rw [this, List.getElem?_take_of_lt hk]

/-- a slice resliced to `k` elements shows the first `k` of the array -/
theorem live_of (s : Slice α) (arr : List α) (k : Nat) (ha : s.arr = arr) (hl : s.len = k) : s.live = arr.take k := by
  simp [Slice.live, ha, hl]

/-! ### consecutive constant-index writes (the encoders) -/

/-- `s[k] = v0; s[k+1] = v1; …` as the generated encoders do it -/
def writeSeq (s : Slice α) : Nat → List α → Option (Slice α)
  | _, [] => some s
  | k, v :: vs => (s.setK? k v).bind fun s' => writeSeq s' (k + 1) vs

theorem set_take_succ (l : List α) (k : Nat) (v : α) (h : k < l.length) : (l.set k v).take (k + 1) = l.take k ++ [v] := by
  rw [List.take_add_one, List.take_set_of_le (Nat.le_refl k)]
  simp [h]

theorem set_drop_gt (l : List α) (k n : Nat) (v : α) (h : k < n) : (l.set k v).drop n = l.drop n := by
  apply List.ext_getElem?
  intro i
  simp only [List.getElem?_drop, List.getElem?_set]
  split
  · omega
  · rfl

theorem writeSeq_some : ∀ (vals : List α) (s : Slice α) (k : Nat), k + vals.length ≤ s.len →
    ∃ s', writeSeq s k vals = some s' ∧ s'.len = s.len ∧
      s'.arr = s.arr.take k ++ vals ++ s.arr.drop (k + vals.length)
  | [], s, k, _ => ⟨s, rfl, rfl, by simp⟩
  | v :: vs, s, k, h => by
    have hok := s.ok
    simp only [List.length_cons] at h
    have hk : k < s.len := by omega
    have hset : s.setK? k v = some ⟨s.arr.set k v, s.len, by simpa using s.ok⟩ := by
      unfold Slice.setK?; rw [if_pos hk]
    obtain ⟨s', h1, h2, h3⟩ := writeSeq_some vs ⟨s.arr.set k v, s.len, by simpa using s.ok⟩ (k + 1) (by simp only; omega)
    refine ⟨s', by simp only [writeSeq, hset, Option.bind_some, h1], h2, ?_⟩
    rw [h3]
    simp only
    rw [set_take_succ _ _ _ (by omega), set_drop_gt _ _ _ _ (by omega)]
    simp only [List.append_assoc, List.singleton_append, List.length_cons]
    congr 3
    omega

/-- the same on a plain list (`[]byte` parameters) -/
def writeSeqL (l : List α) : Nat → List α → Option (List α)
  | _, [] => some l
  | k, v :: vs => (Go.setK? l k v).bind fun l' => writeSeqL l' (k + 1) vs

theorem writeSeqL_some : ∀ (vals : List α) (l : List α) (k : Nat), k + vals.length ≤ l.length →
    writeSeqL l k vals = some (l.take k ++ vals ++ l.drop (k + vals.length))
  | [], l, k, _ => by simp [writeSeqL]
  | v :: vs, l, k, h => by
    simp only [List.length_cons] at h
    have hk : k < l.length := by omega
    have hset : Go.setK? l k v = some (l.set k v) := by unfold Go.setK?; rw [if_pos hk]
    simp only [writeSeqL, hset, Option.bind_some]
    rw [writeSeqL_some vs (l.set k v) (k + 1) (by simp; omega)]
    rw [set_take_succ _ _ _ hk, set_drop_gt _ _ _ _ (by omega)]
    simp only [List.append_assoc, List.singleton_append, List.length_cons]
    congr 4
    omega

theorem writeSeqL_short (vals : List α) (l : List α) (k : Nat) (v : α) (h : l.length ≤ k) :
    writeSeqL l k (v :: vals) = none := by
  simp only [writeSeqL, Go.setK?]
  rw [if_neg (by omega)]
  rfl

theorem bindO_some {α σ ρ : Type} (a : α) (k : α → Go.Ctl σ (Option ρ)) : Go.Ctl.bindO (some a) k = k a := rfl
theorem bindO_none {α σ ρ : Type} (k : α → Go.Ctl σ (Option ρ)) : Go.Ctl.bindO (none : Option α) k = .ret none := rfl

/-- `for i := k; i != k+n; i++ { b[i] = 0 }` as generated: the `n` bytes from `k` are zeroed, or an
    index panic if the buffer ends before -/
theorem zeroLoop (n : Nat) : ∀ (i : Int64) (k : Nat) (b : List UInt8), i.toInt = k → k + n ≤ b.length →
    k + n < 4611686018427387904 →
    Go.forCount (ρ := Option (List UInt8)) n i b (fun i b =>
        Go.Ctl.bindO (Go.setG? b i (0 : UInt8)) fun _s =>
        let b : (List UInt8) := _s
        Go.Ctl.next b) = .inl (b.take k ++ List.replicate n 0 ++ b.drop (k + n)) := by
  induction n with
  | zero => intro i k b _ _ _; simp [Go.forCount]
  | succ n ih =>
    intro i k b hi hk hbig
    rw [Go.forCount]
    have hset : Go.setG? b i (0 : UInt8) = some (b.set k 0) := by
      unfold Go.setG?
      rw [if_pos (by omega)]
      have : i.toInt.toNat = k := by omega
      rw [this]
    have hi1 : (i + 1).toInt = (k + 1 : Nat) := by
      have h1 : (1 : Int64).toInt = 1 := by decide
      rw [toInt_add_of_fits _ _ (by omega) (by omega), hi, h1]; omega
    simp only [hset, bindO_some]
    rw [ih (i + 1) (k + 1) (b.set k 0) hi1 (by simp; omega) (by omega)]
    rw [set_take_succ _ _ _ (by omega), set_drop_gt _ _ _ _ (by omega)]
    congr 1
    simp only [List.append_assoc, List.singleton_append, List.replicate_succ]
    congr 3
    omega

theorem zeroLoop_short (n : Nat) : ∀ (i : Int64) (k : Nat) (b : List UInt8), i.toInt = k → k ≤ b.length → b.length < k + n →
    k + n < 4611686018427387904 →
    Go.forCount (ρ := Option (List UInt8)) n i b (fun i b =>
        Go.Ctl.bindO (Go.setG? b i (0 : UInt8)) fun _s =>
        let b : (List UInt8) := _s
        Go.Ctl.next b) = .inr none := by
  induction n with
  | zero => intro i k b _ h1 h2 _; omega
  | succ n ih =>
    intro i k b hi hk hshort hbig
    rw [Go.forCount]
    by_cases hlt : k < b.length
    · have hset : Go.setG? b i (0 : UInt8) = some (b.set k 0) := by
        unfold Go.setG?
        rw [if_pos (by omega)]
        have : i.toInt.toNat = k := by omega
        rw [this]
      have hi1 : (i + 1).toInt = (k + 1 : Nat) := by
        have h1 : (1 : Int64).toInt = 1 := by decide
        rw [toInt_add_of_fits _ _ (by omega) (by omega), hi, h1]; omega
      simp only [hset, bindO_some]
      rw [ih (i + 1) (k + 1) (b.set k 0) hi1 (by simp; omega) (by simp; omega) (by omega)]
    · have hset : Go.setG? b i (0 : UInt8) = none := by
        unfold Go.setG?
        rw [if_neg (by omega)]
      simp only [hset, bindO_none]

/-- consecutive writes followed by the rest of the function `cont` -/
def writeSeqK {β : Type} (l : List α) : Nat → List α → (List α → Option β) → Option β
  | _, [], cont => cont l
  | k, v :: vs, cont => (Go.setK? l k v).bind fun l' => writeSeqK l' (k + 1) vs cont

theorem writeSeqK_eq {β : Type} : ∀ (vals : List α) (l : List α) (k : Nat) (cont : List α → Option β),
    writeSeqK l k vals cont = (writeSeqL l k vals).bind cont
  | [], l, k, cont => rfl
  | v :: vs, l, k, cont => by
    simp only [writeSeqK, writeSeqL]
    cases Go.setK? l k v with
    | none => rfl
    | some l' => simp only [Option.bind_some]; exact writeSeqK_eq vs l' (k + 1) cont

end ScionTime.GoSlice
