/-
  Helper lemmas about the reply path: fresh cookies, NewResponsePacket, the encoded response.
-/
import ScionTime.Proofs.NtsEnc
import ScionTime.Proofs.CookieCodec
namespace ScionTime.Nts

/-- the cookie the server issues for session `sc` under `(curId, curKey)` with nonce `n` -/
def issued (A : AEAD) (sc : Triple) (curKey : Bytes) (curId : Nat) (n : Bytes) : Bytes :=
  ecEncode ⟨curId % 65536, n, A.sealF curKey n (scEncode sc) none⟩

theorem issued_length (A : AEAD) (hs : A.Sized) (sc : Triple) (curKey : Bytes) (curId : Nat) (n : Bytes)
    (hn : n.length = 16) : (issued A sc curKey curId n).length = 60 + sc.x.length + sc.y.length := by
  have h := hs curKey n (scEncode sc) none
  simp only [scEncode, encodeTLV_length] at h
  simp only [issued, ecEncode, encodeTLV_length, scEncode, hn, h]
  omega

theorem draw16_length (r : Bytes) : (draw16 r).1.length = 16 := by
  simp [draw16, copyN, zeros]; omega

/-- with a usable current key the loop produces exactly one issued cookie per requested field -/
theorem freshCookies_spec (A : AEAD) (sc : Triple) (curKey : Bytes) (curId : Nat) (hk : keyOk curKey = true) :
    ∀ (n : Nat) (r : Bytes), (freshCookies A sc curKey curId n r).1.length = n ∧
      ∀ f ∈ (freshCookies A sc curKey curId n r).1, ∃ nonce, nonce.length = 16 ∧ f = issued A sc curKey curId nonce := by
  intro n
  induction n with
  | zero => intro r; simp [freshCookies]
  | succ n ih =>
    intro r
    have hkn : (!keyOk curKey) = false := by simp [hk]
    have h16 := draw16_length r
    have he : encryptCookie A sc curKey curId (draw16 r).1 =
        .ok ⟨curId % 65536, (draw16 r).1, A.sealF curKey (draw16 r).1 (scEncode sc) none⟩ := by
      simp [encryptCookie, hkn, sealC, h16, bind, Res.bind]
    obtain ⟨l1, l2⟩ := ih (draw16 r).2
    simp only [freshCookies, he]
    constructor
    · simp [l1]
    · intro f hf
      simp only [List.mem_cons] at hf
      cases hf with
      | inl h => exact ⟨(draw16 r).1, h16, by rw [h]; rfl⟩
      | inr h => exact l2 f h

/-- without a usable key nothing is produced (the listener then drops the request) -/
theorem freshCookies_nokey (A : AEAD) (sc : Triple) (curKey : Bytes) (curId : Nat) (hk : keyOk curKey = false) :
    ∀ (n : Nat) (r : Bytes), (freshCookies A sc curKey curId n r).1 = [] := by
  intro n
  induction n with
  | zero => intro r; simp [freshCookies]
  | succ n ih =>
    intro r
    have he : encryptCookie A sc curKey curId (draw16 r).1 = .err .keySize := by simp [encryptCookie, hk]
    simp only [freshCookies, he, ih]

theorem fieldsLen_uniform (L : Nat) (vs : List Bytes) (h : ∀ v ∈ vs, v.length = L) :
    fieldsLen vs = vs.length * (4 + L) := by
  induction vs with
  | nil => simp [fieldsLen]
  | cons v vs ih =>
    have := h v (by simp)
    simp only [fieldsLen, List.length_cons, ih (fun w hw => h w (by simp [hw])), this, Nat.succ_mul]
    omega

/-- `NewResponsePacket` on cookies of one aligned length: the plaintext is exactly the cookie
    fields of the first `max 1 (maxNumCookies ..)` cookies. -/
theorem newResponsePacket_eq (L : Nat) (cookies : List Bytes) (key uid : Bytes)
    (hne : cookies ≠ []) (hL : ∀ v ∈ cookies, v.length = L) (hLa : L % 4 = 0)
    (hsz : (cookies.take (max 1 (maxNumCookies uid.length L))).length * (4 + L) < 65536) :
    newResponsePacket cookies key uid =
      .ok ⟨uid, [], [], key, fields extCookie (cookies.take (max 1 (maxNumCookies uid.length L)))⟩ := by
  obtain ⟨c0, rest, rfl⟩ : ∃ c0 rest, cookies = c0 :: rest := by
    cases cookies with
    | nil => exact absurd rfl hne
    | cons c0 rest => exact ⟨c0, rest, rfl⟩
  have h0 : c0.length = L := hL c0 (by simp)
  unfold newResponsePacket newResponsePacketG
  simp only [if_true, h0]
  generalize hcs : (c0 :: rest).take (max 1 (maxNumCookies uid.length L)) = cs at hsz ⊢
  have hcsL : ∀ v ∈ cs, v.length = L := by
    intro v hv; rw [← hcs] at hv; exact hL v (List.mem_of_mem_take hv)
  have hfl := fieldsLen_uniform L cs hcsL
  have hal : Aligned cs := by intro v hv; rw [hcsL v hv]; exact hLa
  rw [packList_fits (cs.length * (4 + L)) extCookie cs [] hal (by simp [hfl]) hsz]
  simp [hfl, zeros]

/-- A response as the server builds it decodes and authenticates for the requester, who
    recovers exactly the encrypted cookies. -/
theorem response_complete (A : AEAD) (hl : A.Lawful) (hs : A.Sized) (hdr uid key nonce : Bytes) (cs : List Bytes)
    (hh : hdr.length = ntpPacketLen) (hu32 : 32 ≤ uid.length) (hua : uid.length % 4 = 0)
    (hk : keyOk key = true) (hn : nonce.length = 16) (hca : Aligned cs) (hlong : Long cs)
    (fit : ntpPacketLen + (4 + uid.length) + (40 + fieldsLen cs) ≤ maxPacketLen) :
    ∃ b d, encodePacket A hdr ⟨uid, [], [], key, fields extCookie cs⟩ nonce = .ok b ∧ decodePacket b = .ok d ∧
      b.length = ntpPacketLen + (4 + uid.length) + (40 + fieldsLen cs) ∧
      processResponse A b key d uid = .ok cs := by
  have hsum : ∀ l : List Bytes, Aligned l → fieldsLen l % 4 = 0 := by
    intro l
    induction l with
    | nil => intro _; rfl
    | cons c cs ih =>
      intro ha
      have h1 := ha c (by simp)
      have h2 := ih (fun w hw => ha w (by simp [hw]))
      simp only [fieldsLen]; omega
  have wf : WellFormed ⟨uid, [], [], key, fields extCookie cs⟩ :=
    ⟨hu32, hua, by intro v hv; simp at hv, by intro v hv; simp at hv, by simp [hsum cs hca], hk⟩
  have fit' : packetLen ⟨uid, [], [], key, fields extCookie cs⟩ ≤ maxPacketLen := by
    simp [packetLen, fieldsLen]; omega
  obtain ⟨b, he0, he, hd⟩ := encode_decode A hs hdr _ nonce hh wf fit' hn
  refine ⟨b, _, he0, hd, ?_, ?_⟩
  · have hct := hs key nonce (fields extCookie cs) (some (adOf true hdr ⟨uid, [], [], key, fields extCookie cs⟩))
    rw [he]
    simp [adOf_length, hct, hn, hh, fieldsLen]; omega
  have hkn : (!keyOk key) = false := by simp [hk]
  unfold processResponse processResponseG authenticateG
  simp only [ne_eq, not_true_eq_false, if_false, hkn, Bool.false_eq_true, hn, decide_false, Bool.and_false,
    openC, bind, Res.bind]
  rw [he, List.take_left' rfl, hl]
  have g := fieldsLen_ge cs
  unfold maxPacketLen at fit
  simp only [fields_length]
  rw [ptLoop_cookies true cs _ [] (by omega) (by omega) hlong]
  simp


/-- `authenticate` only ever appends to `pkt.Cookies` -/
theorem ptLoop_prefix (chk : Bool) :
    ∀ (fuel : Nat) (rest : Bytes) (cs r : List Bytes), ptLoop chk fuel rest cs = .ok r → ∃ extra, r = cs ++ extra := by
  intro fuel
  induction fuel with
  | zero => intro rest cs r h; simp [ptLoop] at h
  | succ fuel ih =>
    intro rest cs r h
    unfold ptLoop at h
    by_cases h28 : rest.length < 28
    · simp only [h28, if_true, Res.ok.injEq] at h; exact ⟨[], by simp [h]⟩
    · obtain ⟨a, b, c, e, body, rfl⟩ : ∃ a b c e body, rest = a :: b :: c :: e :: body := by
        match rest, h28 with
        | a :: b :: c :: e :: body, _ => exact ⟨a, b, c, e, body, rfl⟩
        | [], h | [_], h | [_, _], h | [_, _, _], h => simp at h
      simp only [h28, if_false] at h
      split at h
      · simp at h
      · split at h
        · simp at h
        · split at h
          · obtain ⟨ex, hex⟩ := ih _ _ _ h
            exact ⟨copyN (valueLen (u16 c e)) body :: ex, by rw [hex]; simp⟩
          · exact ih _ _ _ h

theorem authenticate_prefix (A : AEAD) (b key : Bytes) (d : Decoded) (r : List Bytes)
    (h : authenticateG true A b key d = .ok r) : ∃ extra, r = d.cookies ++ extra := by
  unfold authenticateG at h
  split at h
  · simp at h
  · split at h
    · simp at h
    · cases ho : openC A key d.nonce d.ct (some (b.take d.pos)) with
      | ok pt => rw [ho] at h; exact ptLoop_prefix true _ _ _ _ h
      | err e => rw [ho] at h; simp at h
      | panic p => rw [ho] at h; simp at h
      | hang => rw [ho] at h; simp at h


/-- an issued cookie decodes and opens under the issuing key to the session it was made for -/
theorem issued_opens (A : AEAD) (hl : A.Lawful) (hs : A.Sized) (sc : Triple) (curKey : Bytes) (curId : Nat) (nonce : Bytes)
    (hk : keyOk curKey = true) (hn : nonce.length = 16)
    (hnum : sc.num < 65536) (hx : sc.x.length < 65536 - 100) (hy : sc.y.length + sc.x.length < 65536 - 100) :
    ∃ ec, ecDecode (issued A sc curKey curId nonce) = .ok ec ∧ ec.num = curId % 65536 ∧
      decryptCookie A ec curKey = .ok sc := by
  have hkn : (!keyOk curKey) = false := by simp [hk]
  have hct := hs curKey nonce (scEncode sc) none
  simp only [scEncode, encodeTLV_length] at hct
  refine ⟨⟨curId % 65536, nonce, A.sealF curKey nonce (scEncode sc) none⟩, ?_, rfl, ?_⟩
  · exact decodeTLV_encodeTLV true _ _ _ _ (by decide) (by decide) (by decide) (by decide) (by decide) (by decide)
      (Nat.mod_lt _ (by decide)) (by simp [hn]) (by simp only [scEncode]; omega)
  · simp only [decryptCookie, decryptCookieG, hkn, Bool.false_eq_true, if_false, hn, ne_eq, not_true_eq_false,
      decide_false, Bool.and_false, openC, hl curKey nonce (scEncode sc) none, bind, Res.bind]
    exact decodeTLV_encodeTLV true _ _ _ sc (by decide) (by decide) (by decide) (by decide) (by decide) (by decide)
      hnum (by omega) (by omega)

/-- The tail of the listeners' NTS branch, for a session with two 32-byte keys: from the fresh
    cookies to the encoded reply. -/
theorem reply_core (A : AEAD) (hl : A.Lawful) (hs : A.Sized) (hdr uid : Bytes) (hh : hdr.length = ntpPacketLen)
    (hu32 : 32 ≤ uid.length) (hroom : 1 ≤ maxNumCookies uid.length 124)
    (sc : Triple) (hx : sc.x.length = 32) (hy : sc.y.length = 32) (hnum : sc.num < 65536)
    (curKey : Bytes) (hk : keyOk curKey = true) (curId n : Nat) (rnd : Bytes) (hn1 : 1 ≤ n) :
    ∃ pkt r, (freshCookies A sc curKey curId n rnd).1 ≠ [] ∧
      newResponsePacket (freshCookies A sc curKey curId n rnd).1 sc.x uid = .ok pkt ∧
      encodePacket A hdr pkt (draw16 (freshCookies A sc curKey curId n rnd).2).1 = .ok r ∧
      r.length ≤ maxPacketLen ∧ r.length % 4 = 0 ∧
      (uid.length % 4 = 0 → ∃ d', decodePacket r = .ok d' ∧
        processResponse A r sc.x d' uid = .ok ((freshCookies A sc curKey curId n rnd).1.take (maxNumCookies uid.length 124))) ∧
      ((freshCookies A sc curKey curId n rnd).1.take (maxNumCookies uid.length 124)).length = min (maxNumCookies uid.length 124) n ∧
      ∀ f ∈ (freshCookies A sc curKey curId n rnd).1, ∃ ec, ecDecode f = .ok ec ∧ ec.num = curId % 65536 ∧
        decryptCookie A ec curKey = .ok sc := by
  obtain ⟨hlen, hall⟩ := freshCookies_spec A sc curKey curId hk n rnd
  generalize (freshCookies A sc curKey curId n rnd).1 = fresh at hlen hall ⊢
  have hnonce' := draw16_length (freshCookies A sc curKey curId n rnd).2
  generalize (draw16 (freshCookies A sc curKey curId n rnd).2).1 = nonce' at hnonce' ⊢
  have hne : fresh ≠ [] := by intro h; rw [h] at hlen; simp at hlen; omega
  have hL : ∀ v ∈ fresh, v.length = 124 := by
    intro v hv
    obtain ⟨nn, hnn, rfl⟩ := hall v hv
    rw [issued_length A hs sc curKey curId nn hnn, hx, hy]
  have hM7 : maxNumCookies uid.length 124 ≤ 7 := by
    unfold maxNumCookies maxPacketLen ntpPacketLen pad4; omega
  have hmax : max 1 (maxNumCookies uid.length 124) = maxNumCookies uid.length 124 := Nat.max_eq_right hroom
  have htl : (fresh.take (maxNumCookies uid.length 124)).length = min (maxNumCookies uid.length 124) n := by
    simp [hlen]
  have hsz : (fresh.take (max 1 (maxNumCookies uid.length 124))).length * (4 + 124) < 65536 := by
    rw [hmax, htl]; omega
  have hpk := newResponsePacket_eq 124 fresh sc.x uid hne hL (by decide) hsz
  rw [hmax] at hpk
  generalize hcs : fresh.take (maxNumCookies uid.length 124) = cs at hpk htl ⊢
  have hcsL : ∀ v ∈ cs, v.length = 124 := by
    intro v hv; rw [← hcs] at hv; exact hL v (List.mem_of_mem_take hv)
  have hfl : fieldsLen cs = cs.length * 128 := fieldsLen_uniform 124 cs hcsL
  have hkx : keyOk sc.x = true := by simp [keyOk, hx]
  have hcsM : cs.length ≤ maxNumCookies uid.length 124 := by rw [htl]; exact Nat.min_le_left _ _
  have hbudget : ntpPacketLen + (4 + pad4 uid.length) + (40 + cs.length * 128) ≤ maxPacketLen := by
    have := Nat.div_mul_le_self (maxPacketLen - ntpPacketLen - (4 + pad4 uid.length) - 40) (4 + pad4 124)
    have h124 : 4 + pad4 124 = 128 := by decide
    unfold maxNumCookies at hcsM hroom
    rw [h124] at this hcsM hroom
    have hmul : cs.length * 128 ≤ (maxPacketLen - ntpPacketLen - (4 + pad4 uid.length) - 40) / 128 * 128 :=
      Nat.mul_le_mul_right 128 hcsM
    have hpos : 128 ≤ (maxPacketLen - ntpPacketLen - (4 + pad4 uid.length) - 40) / 128 * 128 := by
      have := Nat.mul_le_mul_right 128 hroom
      omega
    unfold maxPacketLen ntpPacketLen at *
    omega
  have hptlen : (fields extCookie cs).length = cs.length * 128 := by simp [hfl]
  have hpad : pad4 (cs.length * 128 + 16) = cs.length * 128 + 16 := pad4_aligned _ (by omega)
  obtain ⟨r, her, hrl⟩ := encode_len true A hs hdr ⟨uid, [], [], sc.x, fields extCookie cs⟩ nonce' hh hu32 hkx hnonce'
    (by simp only [paddedLen, List.map_nil, List.sum_nil, hptlen, hpad]; omega)
  simp only [paddedLen, List.map_nil, List.sum_nil, hptlen, hpad] at hrl
  refine ⟨_, r, hne, hpk, her, by omega, ?_, ?_, htl, ?_⟩
  · have := pad4_mod uid.length
    rw [hrl]; unfold ntpPacketLen; omega
  · intro hua
    have hal : Aligned cs := by intro v hv; rw [hcsL v hv]
    have hlong : Long cs := by intro v hv; rw [hcsL v hv]; omega
    have hpu := pad4_aligned _ hua
    obtain ⟨b, d, h1, h2, _, h3⟩ := response_complete A hl hs hdr uid sc.x nonce' cs hh hu32 hua hkx hnonce' hal hlong
      (by rw [hfl]; rw [hpu] at hbudget; omega)
    have : b = r := by
      have h1' : encodePacketG true A hdr ⟨uid, [], [], sc.x, fields extCookie cs⟩ nonce' = .ok b := h1
      rw [her] at h1'
      injection h1' with h1'
      exact h1'.symm
    subst this
    exact ⟨d, h2, h3⟩
  · intro f hf
    obtain ⟨nn, hnn, rfl⟩ := hall f hf
    exact issued_opens A hl hs sc curKey curId nn hk hnn hnum (by omega) (by omega)


/-- a cookie that decodes and opens is at least as long as the cookie `Encode` would write for
    the session it opens to -/
theorem opened_cookie_len (A : AEAD) (ho : A.OpenSized) (c0 : Bytes) (ec sc : Triple) (key : Bytes)
    (hec : ecDecode c0 = .ok ec) (hsc : decryptCookie A ec key = .ok sc) :
    60 + sc.x.length + sc.y.length ≤ c0.length := by
  have h1 := decodeTLV_size _ _ _ c0 ec hec
  unfold decryptCookie decryptCookieG at hsc
  by_cases hk : keyOk key = true
  · by_cases hn : ec.x.length = 16
    · simp only [hk, Bool.not_true, Bool.false_eq_true, if_false, hn, ne_eq, not_true_eq_false, decide_false,
        Bool.and_false, openC, bind, Res.bind] at hsc
      cases hop : A.openF key ec.x ec.y none with
      | some pt =>
        rw [hop] at hsc
        have h2 := decodeTLV_size _ _ _ pt sc hsc
        have h3 := ho _ _ _ _ _ hop
        omega
      | none => simp [hop] at hsc
    · simp [hk, hn] at hsc
  · simp [hk] at hsc

theorem processRequest_ok_inv (A : AEAD) (b key : Bytes) (d : Decoded) (cs : List Bytes)
    (h : processRequestG true A b key d = .ok cs) :
    32 ≤ d.uid.length ∧ noRoomForCookie d = false ∧ authenticateG true A b key d = .ok cs := by
  unfold processRequestG at h
  by_cases hu : d.uid.length < 32
  · simp [hu] at h
  · by_cases hr : noRoomForCookie d = true
    · simp [hu, hr] at h
    · simp only [Bool.true_and, hu, decide_false, Bool.false_eq_true, if_false, hr] at h
      exact ⟨by omega, by simpa using hr, h⟩

theorem maxNumCookies_mono (u c : Nat) (h : 124 ≤ c) : maxNumCookies u c ≤ maxNumCookies u 124 := by
  unfold maxNumCookies
  apply Nat.div_le_div_left
  · unfold pad4; omega
  · unfold pad4; omega

/-- The listeners' NTS branch, from a request that passed every check to the reply. -/
theorem serverReply_ok (A : AEAD) (hl : A.Lawful) (hs : A.Sized) (ho : A.OpenSized) (keys : Nat → Option Bytes) (curId : Nat) (curKey : Bytes)
    (b hdr rnd : Bytes) (d : Decoded) (c0 : Bytes) (ec sc : Triple) (key : Bytes) (cs : List Bytes)
    (hh : hdr.length = ntpPacketLen)
    (hd : decodePacket b = .ok d) (hc0 : firstCookie d = .ok c0) (hec : ecDecode c0 = .ok ec)
    (hkey : keys ec.num = some key) (hsc : decryptCookie A ec key = .ok sc)
    (hreq : processRequest A b sc.y d = .ok cs)
    (hx : sc.x.length = 32) (hy : sc.y.length = 32) (hnum : sc.num < 65536)
    (hcur : keyOk curKey = true) :
    ∃ r fresh, serverReply A keys curId curKey b hdr rnd = .ok r ∧ r.length ≤ maxPacketLen ∧ r.length % 4 = 0 ∧
      fresh.length = min (maxNumCookies d.uid.length 124) (cs.length + d.nph) ∧ 1 ≤ fresh.length ∧
      (d.uid.length % 4 = 0 → ∃ d', decodePacket r = .ok d' ∧ processResponse A r sc.x d' d.uid = .ok fresh) ∧
      ∀ f ∈ fresh, ∃ ec', ecDecode f = .ok ec' ∧ ec'.num = curId % 65536 ∧ decryptCookie A ec' curKey = .ok sc := by
  have hc0len : 124 ≤ c0.length := by
    have := opened_cookie_len A ho c0 ec sc key hec hsc
    omega
  obtain ⟨hu32, hroom, hauth⟩ := processRequest_ok_inv A b sc.y d cs hreq
  obtain ⟨extra, hcs⟩ := authenticate_prefix A b sc.y d cs hauth
  obtain ⟨crest, hdc⟩ : ∃ crest, d.cookies = c0 :: crest := by
    unfold firstCookie at hc0
    cases hc : d.cookies with
    | nil => rw [hc] at hc0; simp at hc0
    | cons c rest => rw [hc] at hc0; simp at hc0; exact ⟨rest, by rw [hc0]⟩
  have hn1 : 1 ≤ cs.length + d.nph := by rw [hcs, hdc]; simp; omega
  have hroom' : 1 ≤ maxNumCookies d.uid.length 124 := by
    have := maxNumCookies_mono d.uid.length c0.length hc0len
    simp only [noRoomForCookie, hdc, decide_eq_false_iff_not] at hroom
    omega
  obtain ⟨pkt, r, hne, hpk, her, hrl, hr4, hresp, htl, hopen⟩ :=
    reply_core A hl hs hdr d.uid hh hu32 hroom' sc hx hy hnum curKey hcur curId (cs.length + d.nph) rnd hn1
  refine ⟨r, (freshCookies A sc curKey curId (cs.length + d.nph) rnd).1.take (maxNumCookies d.uid.length 124), ?_, hrl, hr4, htl,
    by rw [htl]; omega, hresp, fun f hf => hopen f (List.mem_of_mem_take hf)⟩
  unfold decodePacket at hd
  unfold ecDecode at hec
  unfold decryptCookie at hsc
  unfold processRequest at hreq
  unfold newResponsePacket at hpk
  unfold encodePacket at her
  have hemp : (freshCookies A sc curKey curId (cs.length + d.nph) rnd).1.isEmpty = false := by
    cases hfr : (freshCookies A sc curKey curId (cs.length + d.nph) rnd).1 with
    | nil => exact absurd hfr hne
    | cons _ _ => rfl
  simp only [serverReply, serverReplyG, hd, hc0, hec, hkey, hsc, hreq, bind, Res.bind, hemp, Bool.false_eq_true, if_false,
    hpk, her]

end ScionTime.Nts
