/-
  Helper lemmas for Model/Server.lean: association-list map, order on T64, swap.
-/
import ScionTime.Model.Server
namespace ScionTime.Server
open ScionTime.Time64

/-! ### order on T64 -/

theorem before_iff (a b : T64) :
    before a b = true ↔ a.sec < b.sec ∨ (a.sec = b.sec ∧ a.frac < b.frac) := by
  unfold before; simp

theorem before_false_iff (a b : T64) :
    before a b = false ↔ b.sec < a.sec ∨ (a.sec = b.sec ∧ b.frac ≤ a.frac) := by
  rw [← Bool.not_eq_true, before_iff]; omega

theorem after_eq (a b : T64) : after a b = before b a := by
  unfold after before
  simp only [gt_iff_lt]
  congr 2
  rw [Bool.eq_iff_iff]; simp only [beq_iff_eq]; exact eq_comm

/-- `a ≤ b` in the order of `Time64.Before` -/
def le64 (a b : T64) : Prop := before b a = false

theorem le64_iff (a b : T64) : le64 a b ↔ a.sec < b.sec ∨ (a.sec = b.sec ∧ a.frac ≤ b.frac) := by
  unfold le64; rw [before_false_iff]; omega

theorem le64_refl (a : T64) : le64 a a := by rw [le64_iff]; omega
theorem le64_trans {a b c : T64} (h1 : le64 a b) (h2 : le64 b c) : le64 a c := by
  rw [le64_iff] at *; omega
theorem le64_total (a b : T64) : le64 a b ∨ le64 b a := by
  rw [le64_iff, le64_iff]; omega
theorem le64_of_before {a b : T64} (h : before a b = true) : le64 a b := by
  rw [before_iff] at h; rw [le64_iff]; omega
theorem le64_antisymm {a b : T64} (h1 : le64 a b) (h2 : le64 b a) : a = b := by
  rw [le64_iff] at *
  cases a; cases b; simp only [T64.mk.injEq] at *; omega

/-! ### association list -/

namespace Map

@[simp] theorem find_nil (k : Nat) : find [] k = none := rfl
theorem find_cons (k' : Nat) (it : Item) (m : Map) (k : Nat) :
    find ((k', it) :: m) k = if k' = k then some it else find m k := rfl

theorem find_modify (m : Map) (k : Nat) (f : Item → Item) (k' : Nat) :
    find (modify m k f) k' = if k = k' then (find m k').map f else find m k' := by
  induction m with
  | nil => simp [modify]
  | cons p m ih =>
    obtain ⟨k0, it⟩ := p
    unfold modify
    by_cases h0 : k0 = k
    · subst h0
      simp only [if_true, find_cons]
      by_cases h1 : k0 = k' <;> simp [h1]
    · simp only [h0, if_false, find_cons]
      by_cases h1 : k0 = k'
      · subst h1; simp [Ne.symm h0]
      · simp [h1, ih]

theorem keys_modify (m : Map) (k : Nat) (f : Item → Item) : keys (modify m k f) = keys m := by
  induction m with
  | nil => rfl
  | cons p m ih =>
    obtain ⟨k0, it⟩ := p
    unfold modify
    by_cases h0 : k0 = k
    · simp [h0, keys]
    · simp only [h0, if_false]; unfold keys at *; simp [ih]

theorem length_modify (m : Map) (k : Nat) (f : Item → Item) : (modify m k f).length = m.length := by
  have := congrArg List.length (keys_modify m k f)
  simpa [keys] using this

theorem find_none_iff (m : Map) (k : Nat) : find m k = none ↔ k ∉ keys m := by
  induction m with
  | nil => simp [keys]
  | cons p m ih =>
    obtain ⟨k0, it⟩ := p
    rw [find_cons]
    by_cases h0 : k0 = k
    · simp [h0, keys]
    · simp only [h0, if_false, ih]; unfold keys; simp [Ne.symm h0]

theorem find_erase (m : Map) (hn : (keys m).Nodup) (k k' : Nat) :
    find (erase m k) k' = if k = k' then none else find m k' := by
  induction m with
  | nil => simp [erase]
  | cons p m ih =>
    obtain ⟨k0, it⟩ := p
    have hn' : (keys m).Nodup := by unfold keys at *; simp at hn; exact hn.2
    have hk0 : k0 ∉ keys m := by unfold keys at *; simp at hn; simpa using hn.1
    unfold erase
    by_cases h0 : k0 = k
    · subst h0
      simp only [if_true]
      by_cases h1 : k0 = k'
      · subst h1; simp; exact (find_none_iff m k0).2 hk0
      · simp [h1, find_cons]
    · simp only [h0, if_false, find_cons, ih hn']
      by_cases h1 : k0 = k'
      · subst h1; simp [Ne.symm h0]
      · simp [h1]

theorem keys_erase_sublist (m : Map) (k : Nat) : (keys (erase m k)).Sublist (keys m) := by
  induction m with
  | nil => simp [erase, keys]
  | cons p m ih =>
    obtain ⟨k0, it⟩ := p
    unfold erase
    by_cases h0 : k0 = k
    · simp [h0, keys]
    · simp only [h0, if_false]; unfold keys at *; simp; exact ih

theorem nodup_erase (m : Map) (hn : (keys m).Nodup) (k : Nat) : (keys (erase m k)).Nodup :=
  List.Nodup.sublist (keys_erase_sublist m k) hn

theorem length_erase (m : Map) (k : Nat) (it : Item) (h : find m k = some it) :
    (erase m k).length + 1 = m.length := by
  induction m with
  | nil => simp at h
  | cons p m ih =>
    obtain ⟨k0, it0⟩ := p
    unfold erase
    by_cases h0 : k0 = k
    · simp [h0]
    · simp only [h0, if_false, List.length_cons]
      rw [find_cons] at h; simp only [h0, if_false] at h
      have := ih h; omega

end Map

/-! ### items that agree except for `qidx` -/

def core (it : Item) : List Entry × T64 := (it.buf, it.qval)

/-- same keys, same buffers and qvals (qidx may differ) -/
def Same (m m' : Map) : Prop := ∀ k, (m.find k).map core = (m'.find k).map core

theorem Same.refl (m : Map) : Same m m := fun _ => rfl
theorem Same.trans {a b c : Map} (h1 : Same a b) (h2 : Same b c) : Same a c :=
  fun k => (h1 k).trans (h2 k)
theorem Same.symm {a b : Map} (h : Same a b) : Same b a := fun k => (h k).symm

theorem same_setQidx (m : Map) (k i : Nat) : Same m (setQidx m k i) := by
  intro k'
  unfold setQidx
  rw [Map.find_modify]
  by_cases h : k = k'
  · simp only [h, if_true, Option.map_map]
    cases Map.find m k' <;> simp [core]
  · simp [h]

theorem qv_same {m m' : Map} (h : Same m m') (k : Nat) : qv m k = qv m' k := by
  unfold qv
  have := h k
  cases h1 : Map.find m k <;> cases h2 : Map.find m' k <;> simp [h1, h2, core] at this ⊢
  exact this.2

theorem same_find {m m' : Map} (h : Same m m') {k : Nat} {it' : Item} (hf : m'.find k = some it') :
    ∃ it, m.find k = some it ∧ it.buf = it'.buf ∧ it.qval = it'.qval := by
  have := h k
  rw [hf] at this
  cases h1 : Map.find m k with
  | none => simp [h1] at this
  | some it =>
    refine ⟨it, rfl, ?_⟩
    simp [h1, core] at this
    exact this

end ScionTime.Server
