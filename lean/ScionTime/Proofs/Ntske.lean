/-
  Proofs/Ntske.lean — helper lemmas for C20 / C14Ntske / C08Ntske (core Lean only).
-/
import ScionTime.Model.Ntske
namespace ScionTime.Ntske

/-! ### `io.ReadFull` over a chunked transport depends only on the concatenation -/

/-- What `fill` returns, in terms of the concatenated stream `all = buf ++ rest.flatten`. -/
theorem fill_spec (rest : List (List Byte)) :
    ∀ (need : Nat) (acc buf : List Byte),
      (need ≤ (buf ++ rest.flatten).length →
        ∃ r, fill rest need acc buf = .ok (acc ++ (buf ++ rest.flatten).take need) r ∧
             r.all = (buf ++ rest.flatten).drop need) ∧
      (¬ need ≤ (buf ++ rest.flatten).length →
        fill rest need acc buf = if (acc ++ (buf ++ rest.flatten)).isEmpty then .eof else .ueof) := by
  induction rest with
  | nil =>
    intro need acc buf
    simp only [List.flatten_nil, List.append_nil, fill]
    constructor
    · intro h
      exact ⟨⟨buf.drop need, []⟩, by simp [h], by simp [Rd.all]⟩
    · intro h
      simp [h]
  | cons c cs ih =>
    intro need acc buf
    simp only [List.flatten_cons, fill]
    by_cases hb : need ≤ buf.length
    · simp only [hb, if_true]
      constructor
      · intro _
        refine ⟨⟨buf.drop need, c :: cs⟩, ?_, ?_⟩
        · rw [List.take_append_of_le_length hb]
        · simp only [Rd.all, List.flatten_cons]
          rw [List.drop_append_of_le_length hb]
      · intro h
        exfalso; apply h; simp only [List.length_append]; omega
    · simp only [hb, if_false]
      have ⟨ih1, ih2⟩ := ih (need - buf.length) (acc ++ buf) c
      have hlen : (buf ++ (c ++ cs.flatten)).length = buf.length + (c ++ cs.flatten).length := by
        simp only [List.length_append]
      have ht : (buf ++ (c ++ cs.flatten)).take need = buf ++ (c ++ cs.flatten).take (need - buf.length) := by
        rw [List.take_append (l₁ := buf), List.take_of_length_le (l := buf) (by omega)]
      have hd : (buf ++ (c ++ cs.flatten)).drop need = (c ++ cs.flatten).drop (need - buf.length) := by
        rw [List.drop_append (l₁ := buf), List.drop_of_length_le (l := buf) (by omega), List.nil_append]
      constructor
      · intro h
        have h' : need - buf.length ≤ (c ++ cs.flatten).length := by omega
        obtain ⟨r, hr, hall⟩ := ih1 h'
        refine ⟨r, ?_, ?_⟩
        · rw [hr, ht, List.append_assoc]
        · rw [hall, hd]
      · intro h
        have h' : ¬ need - buf.length ≤ (c ++ cs.flatten).length := by omega
        rw [ih2 h', List.append_assoc]

/-- Relation between results of a chunked reader and of the flat specification reader. -/
def ResRel {ρ σ : Type} (R : ρ → σ → Prop) : Res ρ → Res σ → Prop
  | .ok b r, .ok b' s => b = b' ∧ R r s
  | .eof, .eof => True
  | .ueof, .ueof => True
  | _, _ => False

theorem readFull_rel (r : Rd) (n : Nat) :
    ResRel (fun r s => r.all = s) (r.readFull n) (flatFull r.all n) := by
  have ⟨h1, h2⟩ := fill_spec r.rest n [] r.buf
  unfold Rd.readFull flatFull
  by_cases h : n ≤ r.all.length
  · obtain ⟨r', hr, hall⟩ := h1 h
    rw [hr]; simp only [h, if_true, ResRel, List.nil_append]
    exact ⟨rfl, hall⟩
  · rw [h2 h]; simp only [h, if_false, List.nil_append]
    unfold Rd.all
    split <;> simp [ResRel]

/-! ### Simulation: the record loop commutes with a reader simulation -/

def StepRel {ρ σ : Type} (R : ρ → σ → Prop) : Step ρ → Step σ → Prop
  | .done x, .done y => x = y
  | .more r d, .more s d' => R r s ∧ d = d'
  | _, _ => False

theorem andThen_rel {ρ σ : Type} {R : ρ → σ → Prop} {x : Res ρ} {y : Res σ} (h : ResRel R x y) (d : Data)
    (k1 : List Byte → ρ → Step ρ) (k2 : List Byte → σ → Step σ)
    (hk : ∀ b r s, R r s → StepRel R (k1 b r) (k2 b s)) :
    StepRel R (x.andThen d k1) (y.andThen d k2) := by
  cases x <;> cases y <;> simp only [ResRel] at h <;> simp only [Res.andThen, StepRel]
  obtain ⟨rfl, hr⟩ := h
  exact hk _ _ _ hr

theorem step_rel {ρ σ : Type} (R : ρ → σ → Prop) (f1 c1 : ρ → Nat → Res ρ) (f2 c2 : σ → Nat → Res σ)
    (hf : ∀ r s n, R r s → ResRel R (f1 r n) (f2 s n))
    (hc : ∀ r s n, R r s → ResRel R (c1 r n) (c2 s n))
    (r : ρ) (s : σ) (d : Data) (h : R r s) :
    StepRel R (step f1 c1 r d) (step f2 c2 s d) := by
  unfold step
  apply andThen_rel (hf r s 4 h)
  intro b r s hrs
  dsimp only
  split; · simp [StepRel]
  split; · exact andThen_rel (hf _ _ _ hrs) _ _ _ (fun _ _ _ h => ⟨h, rfl⟩)
  split; · exact andThen_rel (hf _ _ _ hrs) _ _ _ (fun _ _ _ h => ⟨h, rfl⟩)
  split; · exact andThen_rel (hc _ _ _ hrs) _ _ _ (fun _ _ _ h => ⟨h, rfl⟩)
  split; · exact andThen_rel (hf _ _ _ hrs) _ _ _ (fun _ _ _ h => ⟨h, rfl⟩)
  split; · exact andThen_rel (hf _ _ _ hrs) _ _ _ (fun _ _ _ h => ⟨h, rfl⟩)
  split; · exact andThen_rel (hf _ _ _ hrs) _ _ _ (fun _ _ _ _ => by simp [StepRel])
  split; · simp [StepRel]
  exact andThen_rel (hf _ _ _ hrs) _ _ _ (fun _ _ _ h => ⟨h, rfl⟩)

theorem loop_rel {ρ σ : Type} (R : ρ → σ → Prop) (f1 c1 : ρ → Nat → Res ρ) (f2 c2 : σ → Nat → Res σ)
    (hf : ∀ r s n, R r s → ResRel R (f1 r n) (f2 s n))
    (hc : ∀ r s n, R r s → ResRel R (c1 r n) (c2 s n)) :
    ∀ (fuel : Nat) (r : ρ) (s : σ) (d : Data), R r s →
      loop f1 c1 fuel r d = loop f2 c2 fuel s d := by
  intro fuel
  induction fuel with
  | zero => intros; rfl
  | succ f ih =>
    intro r s d h
    have hs := step_rel R f1 c1 f2 c2 hf hc r s d h
    simp only [loop]
    cases h1 : step f1 c1 r d <;> cases h2 : step f2 c2 s d <;> rw [h1, h2] at hs <;>
      simp only [StepRel] at hs
    · exact hs
    · obtain ⟨hr, rfl⟩ := hs
      exact ih _ _ _ hr

/-- The chunked reader of the repaired code computes the flat specification. -/
theorem readData_eq_readFlat (chunks : List (List Byte)) (d : Data) :
    readData chunks d = readFlat chunks.flatten d := by
  unfold readData readFlat
  exact loop_rel (fun r s => r.all = s) _ _ _ _ (fun r s n h => h ▸ readFull_rel r n)
    (fun r s n h => h ▸ readFull_rel r n) _ _ _ _ (by simp [Rd.all])

/-! ### The flat reader -/

theorem flatFull_ok_iff (bs : List Byte) (n : Nat) (b s : List Byte) :
    flatFull bs n = .ok b s ↔ n ≤ bs.length ∧ b = bs.take n ∧ s = bs.drop n := by
  unfold flatFull
  by_cases h : n ≤ bs.length
  · simp only [h, if_true, Res.ok.injEq, true_and]
    constructor
    · rintro ⟨rfl, rfl⟩; exact ⟨rfl, rfl⟩
    · rintro ⟨rfl, rfl⟩; exact ⟨rfl, rfl⟩
  · simp only [h, if_false, false_and, iff_false]
    split <;> simp

theorem flatFull_append (b rest : List Byte) : flatFull (b ++ rest) b.length = .ok b rest := by
  rw [flatFull_ok_iff]
  simp

theorem flatFull_length {bs : List Byte} {n : Nat} {b s : List Byte} (h : flatFull bs n = .ok b s) :
    s.length + n = bs.length ∧ b.length = n ∧ bs = b ++ s := by
  rw [flatFull_ok_iff] at h
  obtain ⟨h1, rfl, rfl⟩ := h
  simp only [List.length_drop, List.length_take, List.take_append_drop, and_true]
  omega

/-- Declarative one-step semantics on the flat stream: `Runs bs d res` — reading records from
    `bs` with data `d` ends with `res` (no fuel). -/
inductive Runs : List Byte → Data → Data × Option RErr → Prop where
  | done {bs d res} : step flatFull flatFull bs d = .done res → Runs bs d res
  | more {bs d s d' res} : step flatFull flatFull bs d = .more s d' → Runs s d' res → Runs bs d res

theorem Runs.functional {bs d r1 r2} (h1 : Runs bs d r1) (h2 : Runs bs d r2) : r1 = r2 := by
  induction h1 with
  | done h =>
    cases h2 with
    | done h' => rw [h] at h'; exact Step.done.inj h'
    | more h' _ => rw [h] at h'; cases h'
  | more h _ ih =>
    cases h2 with
    | done h' => rw [h] at h'; cases h'
    | more h' hr => rw [h] at h'; cases h'; exact ih hr

/-- every iteration consumes the 4 header bytes -/
theorem step_more_length {bs : List Byte} {d : Data} {s : List Byte} {d' : Data}
    (h : step flatFull flatFull bs d = .more s d') : s.length + 4 ≤ bs.length := by
  unfold step at h
  cases h4 : flatFull bs 4 with
  | eof => rw [h4] at h; simp [Res.andThen] at h
  | ueof => rw [h4] at h; simp [Res.andThen] at h
  | ok hd r =>
    rw [h4] at h
    have ⟨hl, _, _⟩ := flatFull_length h4
    simp only [Res.andThen] at h
    have key : ∀ (n : Nat) (k : List Byte → List Byte → Step (List Byte)),
        (∀ b r', k b r' = .more s d' → s = r') →
        (flatFull r n).andThen d k = .more s d' → s.length ≤ r.length := by
      intro n k hk hh
      cases hn : flatFull r n with
      | eof => rw [hn] at hh; simp [Res.andThen] at hh
      | ueof => rw [hn] at hh; simp [Res.andThen] at hh
      | ok b r' =>
        rw [hn] at hh
        simp only [Res.andThen] at hh
        have := hk _ _ hh
        have ⟨hl', _, _⟩ := flatFull_length hn
        subst this; omega
    have fin : s.length ≤ r.length := by
      split at h; · cases h
      split at h; · exact key _ _ (by intro b r' e; cases e; rfl) h
      split at h; · exact key _ _ (by intro b r' e; cases e; rfl) h
      split at h; · exact key _ _ (by intro b r' e; cases e; rfl) h
      split at h; · exact key _ _ (by intro b r' e; cases e; rfl) h
      split at h; · exact key _ _ (by intro b r' e; cases e; rfl) h
      split at h; · exact key _ _ (by intro b r' e; cases e) h
      split at h; · cases h
      exact key _ _ (by intro b r' e; cases e; rfl) h
    omega

theorem errorOfCode_ne_fuel (c : Nat) : errorOfCode c ≠ .fuel := by
  unfold errorOfCode; split; · simp
  split; · simp
  split <;> simp

/-- one iteration never reports the model's own fuel error -/
theorem step_done_ne_fuel {bs : List Byte} {d d' : Data} {e : RErr}
    (h : step flatFull flatFull bs d = .done (d', some e)) : e ≠ .fuel := by
  unfold step at h
  have key : ∀ (x : Res (List Byte)) (k : List Byte → List Byte → Step (List Byte)),
      (∀ b r', k b r' = .done (d', some e) → e ≠ .fuel) →
      x.andThen d k = .done (d', some e) → e ≠ .fuel := by
    intro x k hk hh
    cases x with
    | eof => simp only [Res.andThen, Step.done.injEq, Prod.mk.injEq, Option.some.injEq] at hh; rw [← hh.2]; simp
    | ueof => simp only [Res.andThen, Step.done.injEq, Prod.mk.injEq, Option.some.injEq] at hh; rw [← hh.2]; simp
    | ok b r' => exact hk _ _ hh
  refine key _ _ ?_ h
  intro hd r hh
  dsimp only at hh
  split at hh; · cases hh
  split at hh; · exact key _ _ (by intro _ _ e; cases e) hh
  split at hh; · exact key _ _ (by intro _ _ e; cases e) hh
  split at hh; · exact key _ _ (by intro _ _ e; cases e) hh
  split at hh; · exact key _ _ (by intro _ _ e; cases e) hh
  split at hh; · exact key _ _ (by intro _ _ e; cases e) hh
  split at hh
  · refine key _ _ ?_ hh
    intro b _ e'
    simp only [Step.done.injEq, Prod.mk.injEq, Option.some.injEq] at e'
    rw [← e'.2]; exact errorOfCode_ne_fuel _
  split at hh
  · simp only [Step.done.injEq, Prod.mk.injEq, Option.some.injEq] at hh
    rw [← hh.2]; simp
  exact key _ _ (by intro _ _ e; cases e) hh

/-- With enough fuel the loop computes exactly the declarative runs. -/
theorem runs_loop : ∀ (f : Nat) (bs : List Byte) (d : Data), bs.length < f →
    Runs bs d (loop flatFull flatFull f bs d) := by
  intro f
  induction f with
  | zero => intro bs d h; omega
  | succ f ih =>
    intro bs d h
    simp only [loop]
    cases hs : step flatFull flatFull bs d with
    | done res => exact .done hs
    | more s d' =>
      have := step_more_length hs
      exact .more hs (ih s d' (by omega))

theorem runs_readFlat (bs : List Byte) (d : Data) : Runs bs d (readFlat bs d) :=
  runs_loop _ bs d (by unfold fuelFor; omega)

theorem readFlat_eq_iff (bs : List Byte) (d : Data) (res : Data × Option RErr) :
    readFlat bs d = res ↔ Runs bs d res :=
  ⟨fun h => h ▸ runs_readFlat bs d, fun h => Runs.functional (runs_readFlat bs d) h⟩

theorem Runs.ne_fuel {bs d res} (h : Runs bs d res) : res.2 ≠ some .fuel := by
  induction h with
  | @done bs d res h =>
    obtain ⟨d', e⟩ := res
    cases e with
    | none => simp
    | some e => simp only [ne_eq, Option.some.injEq]; exact step_done_ne_fuel h
  | more _ _ ih => exact ih

/-! ### Records as the reader consumes them -/

/-- A record on the wire as `ReadData` consumes it: the four header bytes and the body bytes
    taken after them. -/
structure Item where
  t1 : Byte
  t0 : Byte
  l1 : Byte
  l0 : Byte
  body : List Byte
deriving Repr

def Item.raw (it : Item) : Nat := be16 it.t1 it.t0
def Item.blen (it : Item) : Nat := be16 it.l1 it.l0
def Item.typ (it : Item) : Nat := it.raw % 32768
def Item.crit (it : Item) : Bool := it.raw / 32768 % 2 == 1
def Item.enc (it : Item) : List Byte := [it.t1, it.t0, it.l1, it.l0] ++ it.body

/-- Number of body bytes the reader takes after a header of type `typ` with length field
    `blen`: two for the fixed-size kinds whatever the length field says, otherwise `blen`. -/
def bodyNeed (typ blen : Nat) : Nat :=
  if typ = recNextproto ∨ typ = recAead ∨ typ = recPort ∨ typ = recError then 2 else blen

def Item.wf (it : Item) : Prop := it.body.length = bodyNeed it.typ it.blen

/-- The reader recognises the type (other than end-of-message and error, which stop it). -/
def knownType (t : Nat) : Prop :=
  t = recNextproto ∨ t = recAead ∨ t = recCookie ∨ t = recServer ∨ t = recPort

/-- The reader goes on after this record: a recognised type, or an unrecognised one without
    the critical bit (which it ignores). -/
def Item.accepted (it : Item) : Prop :=
  knownType it.typ ∨ (it.typ ≠ recEom ∧ it.typ ≠ recError ∧ it.crit = false)

/-- An unrecognised record without the critical bit. -/
def Item.ignorable (it : Item) : Prop :=
  ¬ knownType it.typ ∧ it.typ ≠ recEom ∧ it.typ ≠ recError ∧ it.crit = false

/-- Effect of an accepted record on the data. -/
def Item.apply (d : Data) (it : Item) : Data :=
  if it.typ = recAead then { d with algo := be16 (it.body.getD 0 0) (it.body.getD 1 0) }
  else if it.typ = recCookie then { d with cookies := d.cookies ++ [it.body] }
  else if it.typ = recServer then { d with server := it.body }
  else if it.typ = recPort then { d with port := be16 (it.body.getD 0 0) (it.body.getD 1 0) }
  else d

theorem step_header (t1 t0 l1 l0 : Byte) (rest : List Byte) (d : Data)
    (k : List Byte → List Byte → Step (List Byte)) :
    (flatFull (t1 :: t0 :: l1 :: l0 :: rest) 4).andThen d k = k [t1, t0, l1, l0] rest := by
  have : flatFull (t1 :: t0 :: l1 :: l0 :: rest) 4 = .ok [t1, t0, l1, l0] rest := by
    simp [flatFull]
  rw [this]; rfl

theorem andThen_append (b rest : List Byte) (n : Nat) (hn : b.length = n) (d : Data)
    (k : List Byte → List Byte → Step (List Byte)) :
    (flatFull (b ++ rest) n).andThen d k = k b rest := by
  subst hn; rw [flatFull_append]; rfl

/-- An accepted, well-formed record is consumed and applied; the reader continues behind it. -/
theorem step_item (it : Item) (rest : List Byte) (d : Data) (hwf : it.wf) (hacc : it.accepted) :
    step flatFull flatFull (it.enc ++ rest) d = .more rest (it.apply d) := by
  obtain ⟨t1, t0, l1, l0, body⟩ := it
  simp only [Item.wf, Item.accepted, Item.typ, Item.raw, Item.blen, Item.crit, Item.enc, Item.apply,
    bodyNeed, knownType] at *
  unfold step
  simp only [List.cons_append, List.nil_append, step_header, List.getD_cons_zero, List.getD_cons_succ]
  simp only [recEom, recNextproto, recAead, recCookie, recServer, recPort, recError] at *
  rcases hacc with (h | h | h | h | h) | ⟨h0, h2, hc⟩
  · simp only [h] at hwf ⊢
    simp [andThen_append body rest 2 (by simpa using hwf)]
  · simp only [h] at hwf ⊢
    simp [andThen_append body rest 2 (by simpa using hwf)]
  · simp only [h] at hwf ⊢
    simp [andThen_append body rest _ (by simpa using hwf)]
  · simp only [h] at hwf ⊢
    simp [andThen_append body rest _ (by simpa using hwf)]
  · simp only [h] at hwf ⊢
    simp [andThen_append body rest 2 (by simpa using hwf)]
  · by_cases k1 : be16 t1 t0 % 32768 = 1
    · simp only [k1] at hwf ⊢; simp [andThen_append body rest 2 (by simpa using hwf)]
    by_cases k4 : be16 t1 t0 % 32768 = 4
    · simp only [k4] at hwf ⊢; simp [andThen_append body rest 2 (by simpa using hwf)]
    by_cases k5 : be16 t1 t0 % 32768 = 5
    · simp only [k5] at hwf ⊢; simp [andThen_append body rest _ (by simpa using hwf)]
    by_cases k6 : be16 t1 t0 % 32768 = 6
    · simp only [k6] at hwf ⊢; simp [andThen_append body rest _ (by simpa using hwf)]
    by_cases k7 : be16 t1 t0 % 32768 = 7
    · simp only [k7] at hwf ⊢; simp [andThen_append body rest 2 (by simpa using hwf)]
    simp only [h0, k1, k4, k5, k6, k7, h2, if_false, hc, or_self] at hwf ⊢
    simp [andThen_append body rest _ hwf]

/-- The end-of-message header stops the reader successfully, whatever follows. -/
theorem step_eom (t1 t0 l1 l0 : Byte) (tail : List Byte) (d : Data) (h : be16 t1 t0 % 32768 = recEom) :
    step flatFull flatFull (t1 :: t0 :: l1 :: l0 :: tail) d = .done (d, none) := by
  unfold step
  simp only [step_header, List.getD_cons_zero, List.getD_cons_succ, h, if_true]

theorem length_four {l : List Byte} (h : l.length = 4) : ∃ a b c e, l = [a, b, c, e] := by
  match l, h with
  | [a, b, c, e], _ => exact ⟨a, b, c, e, rfl⟩

theorem andThen_more_inv {x : Res (List Byte)} {d : Data} {k : List Byte → List Byte → Step (List Byte)}
    {s : List Byte} {d' : Data} (h : x.andThen d k = .more s d') :
    ∃ b r', x = .ok b r' ∧ k b r' = .more s d' := by
  cases x with
  | eof => simp [Res.andThen] at h
  | ueof => simp [Res.andThen] at h
  | ok b r' => exact ⟨b, r', rfl, h⟩

/-- Whenever the reader continues, it has consumed one well-formed accepted record. -/
theorem step_more_inv {bs : List Byte} {d : Data} {s : List Byte} {d' : Data}
    (h : step flatFull flatFull bs d = .more s d') :
    ∃ it : Item, it.wf ∧ it.accepted ∧ bs = it.enc ++ s ∧ d' = it.apply d := by
  unfold step at h
  obtain ⟨hd, r, h4, hk⟩ := andThen_more_inv h
  obtain ⟨_, hl4, hbs⟩ := flatFull_length h4
  obtain ⟨t1, t0, l1, l0, rfl⟩ := length_four hl4
  dsimp only at hk
  simp only [List.getD_cons_zero, List.getD_cons_succ] at hk
  -- every continuing branch reads `n` body bytes and continues behind them
  have fin : ∀ (n : Nat) (body : List Byte), flatFull r n = .ok body s →
      bodyNeed (be16 t1 t0 % 32768) (be16 l1 l0) = n →
      Item.accepted ⟨t1, t0, l1, l0, body⟩ → d' = Item.apply d ⟨t1, t0, l1, l0, body⟩ →
      ∃ it : Item, it.wf ∧ it.accepted ∧ bs = it.enc ++ s ∧ d' = it.apply d := by
    intro n body hn hneed hacc happ
    obtain ⟨_, hbl, hr⟩ := flatFull_length hn
    refine ⟨⟨t1, t0, l1, l0, body⟩, ?_, hacc, ?_, happ⟩
    · simp only [Item.wf, Item.typ, Item.raw, Item.blen, hneed, hbl]
    · simp only [Item.enc, hbs, hr, List.cons_append, List.nil_append]
  simp only [recEom, recNextproto, recAead, recCookie, recServer, recPort, recError] at hk
  by_cases k0 : be16 t1 t0 % 32768 = 0
  · simp only [k0, if_true] at hk; cases hk
  simp only [k0, if_false] at hk
  by_cases k1 : be16 t1 t0 % 32768 = 1
  · simp only [k1, if_true] at hk
    obtain ⟨body, r', hn, hm⟩ := andThen_more_inv hk
    cases hm
    exact fin 2 body hn (by simp [bodyNeed, k1, recNextproto]) (.inl (by simp [knownType, Item.typ, Item.raw, k1, recNextproto]))
      (by simp [Item.apply, Item.typ, Item.raw, k1, recAead, recCookie, recServer, recPort])
  simp only [k1, if_false] at hk
  by_cases k4 : be16 t1 t0 % 32768 = 4
  · simp only [k4, if_true] at hk
    obtain ⟨body, r', hn, hm⟩ := andThen_more_inv hk
    cases hm
    exact fin 2 body hn (by simp [bodyNeed, k4, recAead]) (.inl (by simp [knownType, Item.typ, Item.raw, k4, recAead]))
      (by simp [Item.apply, Item.typ, Item.raw, k4, recAead])
  simp only [k4, if_false] at hk
  by_cases k5 : be16 t1 t0 % 32768 = 5
  · simp only [k5, if_true] at hk
    obtain ⟨body, r', hn, hm⟩ := andThen_more_inv hk
    cases hm
    exact fin _ body hn (by simp [bodyNeed, k5, recNextproto, recAead, recPort, recError])
      (.inl (by simp [knownType, Item.typ, Item.raw, k5, recCookie]))
      (by simp [Item.apply, Item.typ, Item.raw, k5, recAead, recCookie])
  simp only [k5, if_false] at hk
  by_cases k6 : be16 t1 t0 % 32768 = 6
  · simp only [k6, if_true] at hk
    obtain ⟨body, r', hn, hm⟩ := andThen_more_inv hk
    cases hm
    exact fin _ body hn (by simp [bodyNeed, k6, recNextproto, recAead, recPort, recError])
      (.inl (by simp [knownType, Item.typ, Item.raw, k6, recServer]))
      (by simp [Item.apply, Item.typ, Item.raw, k6, recAead, recCookie, recServer])
  simp only [k6, if_false] at hk
  by_cases k7 : be16 t1 t0 % 32768 = 7
  · simp only [k7, if_true] at hk
    obtain ⟨body, r', hn, hm⟩ := andThen_more_inv hk
    cases hm
    exact fin 2 body hn (by simp [bodyNeed, k7, recPort]) (.inl (by simp [knownType, Item.typ, Item.raw, k7, recPort]))
      (by simp [Item.apply, Item.typ, Item.raw, k7, recAead, recCookie, recServer, recPort])
  simp only [k7, if_false] at hk
  by_cases k2 : be16 t1 t0 % 32768 = 2
  · simp only [k2, if_true] at hk
    obtain ⟨body, r', hn, hm⟩ := andThen_more_inv hk
    cases hm
  simp only [k2, if_false] at hk
  by_cases kc : (be16 t1 t0 / 32768 % 2 == 1) = true
  · simp only [kc, if_true] at hk; cases hk
  simp only [kc] at hk
  obtain ⟨body, r', hn, hm⟩ := andThen_more_inv hk
  cases hm
  exact fin _ body hn (by simp [bodyNeed, k1, k4, k7, k2, recNextproto, recAead, recPort, recError])
    (.inr ⟨by simpa [Item.typ, Item.raw, recEom] using k0, by simpa [Item.typ, Item.raw, recError] using k2,
      by simpa [Item.crit, Item.raw] using kc⟩)
    (by simp [Item.apply, Item.typ, Item.raw, k4, k5, k6, k7, recAead, recCookie, recServer, recPort])

/-- The reader returns success only at an end-of-message header. -/
theorem step_done_ok_inv {bs : List Byte} {d d' : Data}
    (h : step flatFull flatFull bs d = .done (d', none)) :
    ∃ t1 t0 l1 l0 tail, bs = t1 :: t0 :: l1 :: l0 :: tail ∧ be16 t1 t0 % 32768 = recEom ∧ d' = d := by
  unfold step at h
  cases h4 : flatFull bs 4 with
  | eof => rw [h4] at h; simp [Res.andThen] at h
  | ueof => rw [h4] at h; simp [Res.andThen] at h
  | ok hd r =>
    rw [h4] at h
    obtain ⟨_, hl4, hbs⟩ := flatFull_length h4
    obtain ⟨t1, t0, l1, l0, rfl⟩ := length_four hl4
    simp only [Res.andThen, List.getD_cons_zero, List.getD_cons_succ] at h
    have no : ∀ (x : Res (List Byte)) (k : List Byte → List Byte → Step (List Byte)),
        (∀ b r', k b r' ≠ .done (d', none)) → x.andThen d k ≠ .done (d', none) := by
      intro x k hk
      cases x <;> simp [Res.andThen, hk]
    split at h
    · rename_i k0
      simp only [Step.done.injEq, Prod.mk.injEq, and_true] at h
      exact ⟨t1, t0, l1, l0, r, by simpa using hbs, k0, h.symm⟩
    split at h; · exact absurd h (no _ _ (by intros; simp))
    split at h; · exact absurd h (no _ _ (by intros; simp))
    split at h; · exact absurd h (no _ _ (by intros; simp))
    split at h; · exact absurd h (no _ _ (by intros; simp))
    split at h; · exact absurd h (no _ _ (by intros; simp))
    split at h; · exact absurd h (no _ _ (by intros; simp))
    split at h; · simp at h
    exact absurd h (no _ _ (by intros; simp))

/-! ### Whole streams -/

theorem runs_item {it : Item} {rest : List Byte} {d : Data} {res : Data × Option RErr}
    (hwf : it.wf) (hacc : it.accepted) :
    Runs (it.enc ++ rest) d res ↔ Runs rest (it.apply d) res := by
  have hs := step_item it rest d hwf hacc
  constructor
  · intro h
    cases h with
    | done h' => rw [hs] at h'; cases h'
    | more h' hr => rw [hs] at h'; cases h'; exact hr
  · intro h; exact .more hs h

theorem runs_items (items : List Item) (rest : List Byte) (res : Data × Option RErr) :
    ∀ d, (∀ it ∈ items, it.wf ∧ it.accepted) →
      (Runs (items.flatMap Item.enc ++ rest) d res ↔ Runs rest (items.foldl Item.apply d) res) := by
  induction items with
  | nil => intro d _; simp
  | cons it its ih =>
    intro d h
    have h1 := h it (List.mem_cons_self)
    simp only [List.flatMap_cons, List.append_assoc, List.foldl_cons]
    rw [runs_item h1.1 h1.2]
    exact ih _ (fun x hx => h x (List.mem_cons_of_mem _ hx))

/-- The reader succeeds exactly on streams that consist of well-formed accepted records
    followed by an end-of-message header (and anything after it); the data is the fold of the
    records' effects. -/
theorem readFlat_ok_iff (bs : List Byte) (d0 d : Data) :
    readFlat bs d0 = (d, none) ↔
      ∃ (items : List Item) (t1 t0 l1 l0 : Byte) (tail : List Byte),
        bs = items.flatMap Item.enc ++ t1 :: t0 :: l1 :: l0 :: tail ∧
        be16 t1 t0 % 32768 = recEom ∧ (∀ it ∈ items, it.wf ∧ it.accepted) ∧
        d = items.foldl Item.apply d0 := by
  rw [readFlat_eq_iff]
  constructor
  · intro h
    generalize hres : (d, (none : Option RErr)) = res at h
    induction h with
    | @done bs d1 res hst =>
      subst hres
      obtain ⟨t1, t0, l1, l0, tail, rfl, hz, rfl⟩ := step_done_ok_inv hst
      exact ⟨[], t1, t0, l1, l0, tail, by simp, hz, by simp, rfl⟩
    | @more bs d1 s d' res hst _ ih =>
      obtain ⟨it, hwf, hacc, rfl, rfl⟩ := step_more_inv hst
      obtain ⟨items, t1, t0, l1, l0, tail, rfl, hz, hall, hd⟩ := ih hres
      refine ⟨it :: items, t1, t0, l1, l0, tail, by simp, hz, ?_, by simpa using hd⟩
      intro x hx
      cases hx with
      | head => exact ⟨hwf, hacc⟩
      | tail _ hx => exact hall x hx
  · rintro ⟨items, t1, t0, l1, l0, tail, rfl, hz, hall, rfl⟩
    rw [runs_items items _ _ _ hall]
    exact .done (step_eom t1 t0 l1 l0 tail _ hz)

/-- cookies are collected in stream order -/
theorem foldl_apply_cookies (items : List Item) : ∀ d : Data,
    (items.foldl Item.apply d).cookies =
      d.cookies ++ (items.filter (fun it => it.typ == recCookie)).map Item.body := by
  induction items with
  | nil => intro d; simp
  | cons it its ih =>
    intro d
    simp only [List.foldl_cons, ih, List.filter_cons]
    by_cases h : it.typ = recCookie
    · simp [Item.apply, h, recAead, recCookie]
    · have h' : (it.typ == recCookie) = false := by simpa using h
      simp only [h', Bool.false_eq_true, if_false]
      congr 1
      unfold Item.apply
      repeat' split
      all_goals first | rfl | contradiction

/-! ### Packed records as items -/

/-- Records that carry data and fit the 16-bit fields. `Algorithm` with exactly one entry
    (what client and server send); see `C14Ntske_multi_algorithm_desync` for longer lists. -/
def Fits : Rec → Prop
  | .nextProto v => v < 65536
  | .algorithm as => ∃ a, as = [a] ∧ a < 65536
  | .server a _ => a.length < 65536
  | .port p _ => p < 65536
  | .cookie c => c.length < 65536
  | _ => False

theorem be16_u16 (v : Nat) (h : v < 65536) : be16 (v / 256 % 256) (v % 256) = v := by
  unfold be16; omega

/-- Each data record is, on the wire, a well-formed accepted item with the record's effect. -/
theorem pack_item (r : Rec) (h : Fits r) :
    ∃ it : Item, it.enc = r.pack ∧ it.wf ∧ it.accepted ∧ ∀ d, it.apply d = r.apply d := by
  cases r with
  | nextProto v =>
    refine ⟨⟨128, 1, 0, 2, u16 v⟩, by simp [Item.enc, Rec.pack, packHeader, u16, recNextproto], ?_, ?_, ?_⟩
    · simp [Item.wf, Item.typ, Item.raw, be16, bodyNeed, u16, recNextproto]
    · exact .inl (by simp [knownType, Item.typ, Item.raw, be16, recNextproto])
    · intro d; simp [Item.apply, Item.typ, Item.raw, be16, Rec.apply, recAead, recCookie, recServer, recPort]
  | algorithm as =>
    obtain ⟨a, rfl, ha⟩ := h
    refine ⟨⟨128, 4, 0, 2, u16 a⟩, by simp [Item.enc, Rec.pack, packHeader, u16, recAead], ?_, ?_, ?_⟩
    · simp [Item.wf, Item.typ, Item.raw, be16, bodyNeed, u16, recAead]
    · exact .inl (by simp [knownType, Item.typ, Item.raw, be16, recAead])
    · intro d
      have := be16_u16 a ha
      simp [Item.apply, Item.typ, Item.raw, Rec.apply, recAead, u16, be16]
      simpa [be16] using this
  | server a c =>
    simp only [Fits] at h
    refine ⟨⟨if c then 128 else 0, 6, a.length / 256 % 256, a.length % 256, a⟩, ?_, ?_, ?_, ?_⟩
    · cases c <;> simp [Item.enc, Rec.pack, packHeader, u16, recServer, Nat.mod_eq_of_lt h]
    · have := be16_u16 _ h
      cases c <;> simp [Item.wf, Item.typ, Item.raw, Item.blen, be16, bodyNeed, recNextproto, recAead, recPort, recError] <;>
        (unfold be16 at this; omega)
    · exact .inl (by cases c <;> simp [knownType, Item.typ, Item.raw, be16, recServer, recNextproto, recAead, recCookie, recPort])
    · intro d; cases c <;> simp [Item.apply, Item.typ, Item.raw, be16, Rec.apply, recAead, recCookie, recServer]
  | port p c =>
    simp only [Fits] at h
    refine ⟨⟨if c then 128 else 0, 7, 0, 2, u16 p⟩, ?_, ?_, ?_, ?_⟩
    · cases c <;> simp [Item.enc, Rec.pack, packHeader, u16, recPort]
    · cases c <;> simp [Item.wf, Item.typ, Item.raw, be16, bodyNeed, u16, recPort]
    · exact .inl (by cases c <;> simp [knownType, Item.typ, Item.raw, be16, recServer, recNextproto, recAead, recCookie, recPort])
    · intro d
      have := be16_u16 p h
      cases c <;> simp [Item.apply, Item.typ, Item.raw, be16, Rec.apply, recAead, recCookie, recServer, recPort, u16] <;>
        simpa [be16] using this
  | cookie ck =>
    simp only [Fits] at h
    refine ⟨⟨0, 5, ck.length / 256 % 256, ck.length % 256, ck⟩, ?_, ?_, ?_, ?_⟩
    · simp [Item.enc, Rec.pack, packHeader, u16, recCookie, Nat.mod_eq_of_lt h]
    · have := be16_u16 _ h
      simp [Item.wf, Item.typ, Item.raw, Item.blen, be16, bodyNeed, recNextproto, recAead, recPort, recError]
      unfold be16 at this; omega
    · exact .inl (by simp [knownType, Item.typ, Item.raw, be16, recServer, recNextproto, recAead, recCookie, recPort])
    · intro d; simp [Item.apply, Item.typ, Item.raw, be16, Rec.apply, recAead, recCookie]
  | warning _ => exact absurd h (by simp [Fits])
  | error _ => exact absurd h (by simp [Fits])
  | end_ => exact absurd h (by simp [Fits])

theorem pack_items (rs : List Rec) (h : ∀ r ∈ rs, Fits r) :
    ∃ items : List Item, items.flatMap Item.enc = packMsg rs ∧ (∀ it ∈ items, it.wf ∧ it.accepted) ∧
      ∀ d, items.foldl Item.apply d = rs.foldl Rec.apply d := by
  induction rs with
  | nil => exact ⟨[], rfl, by simp, fun _ => rfl⟩
  | cons r rs ih =>
    obtain ⟨it, he, hwf, hacc, hap⟩ := pack_item r (h r List.mem_cons_self)
    obtain ⟨its, hes, hall, haps⟩ := ih (fun x hx => h x (List.mem_cons_of_mem _ hx))
    refine ⟨it :: its, by rw [packMsg] at hes ⊢; simp only [List.flatMap_cons, he, hes], ?_, ?_⟩
    · intro x hx
      cases hx with
      | head => exact ⟨hwf, hacc⟩
      | tail _ hx => exact hall x hx
    · intro d; simp [hap, haps]

/-- A message of data records closed by an End record, packed by `ExchangeMsg.Pack`, delivered
    under any segmentation and followed by anything, decodes to the records' fields. -/
theorem readData_packed (rs : List Rec) (h : ∀ r ∈ rs, Fits r)
    (chunks : List (List Byte)) (tail : List Byte)
    (hc : chunks.flatten = packMsg (rs ++ [.end_]) ++ tail) (d : Data) :
    readData chunks d = (rs.foldl Rec.apply d, none) := by
  obtain ⟨items, hes, hall, hap⟩ := pack_items rs h
  rw [readData_eq_readFlat, readFlat_ok_iff]
  refine ⟨items, 128, 0, 0, 0, tail, ?_, by decide, hall, (hap d).symm⟩
  rw [hc, hes]
  simp [packMsg, Rec.pack, packHeader, u16, recEom]

theorem foldl_cookie_recs (cs : List (List Byte)) : ∀ d : Data,
    (cs.map Rec.cookie).foldl Rec.apply d = { d with cookies := d.cookies ++ cs } := by
  induction cs with
  | nil => intro d; simp
  | cons c cs ih => intro d; simp [ih, Rec.apply]

theorem foldl_apply_server (items : List Item) : ∀ d : Data,
    (∀ it ∈ items, it.typ ≠ recServer) → (items.foldl Item.apply d).server = d.server := by
  induction items with
  | nil => intro d _; rfl
  | cons it its ih =>
    intro d h
    have h1 := h it List.mem_cons_self
    rw [List.foldl_cons, ih _ (fun x hx => h x (List.mem_cons_of_mem _ hx))]
    unfold Item.apply
    repeat' split
    all_goals first | rfl | contradiction

theorem foldl_apply_port (items : List Item) : ∀ d : Data,
    (∀ it ∈ items, it.typ ≠ recPort) → (items.foldl Item.apply d).port = d.port := by
  induction items with
  | nil => intro d _; rfl
  | cons it its ih =>
    intro d h
    have h1 := h it List.mem_cons_self
    rw [List.foldl_cons, ih _ (fun x hx => h x (List.mem_cons_of_mem _ hx))]
    unfold Item.apply
    repeat' split
    all_goals first | rfl | contradiction

/-- session fields (everything but the cookie pool) -/
def SameSession (a b : Data) : Prop :=
  a.c2s = b.c2s ∧ a.s2c = b.s2c ∧ a.algo = b.algo ∧ a.server = b.server ∧ a.port = b.port

end ScionTime.Ntske
