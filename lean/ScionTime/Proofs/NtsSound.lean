/-
  Helper lemmas for C10 soundness: what a successful `authenticate` implies, and the invariant of
  the extension-field walk that locates the authenticator.
-/
import ScionTime.Model.Nts
namespace ScionTime.Nts

/-- what `authenticate` needs to succeed -/
theorem authenticate_ok (A : AEAD) (b key : Bytes) (d : Decoded) (cs : List Bytes)
    (h : authenticateG true A b key d = .ok cs) :
    keyOk key = true ∧ d.nonce.length = 16 ∧
      ∃ pt, A.openF key d.nonce d.ct (some (b.take d.pos)) = some pt := by
  unfold authenticateG at h
  by_cases hk : keyOk key = true
  · by_cases hn : d.nonce.length = 16
    · refine ⟨hk, hn, ?_⟩
      simp only [hk, Bool.not_true, Bool.false_eq_true, if_false, hn, ne_eq, not_true_eq_false, decide_false,
        Bool.and_false, openC, bind, Res.bind] at h
      cases ho : A.openF key d.nonce d.ct (some (b.take d.pos)) with
      | some pt => exact ⟨pt, rfl⟩
      | none => simp [ho] at h
    · simp [hk, hn] at h
  · simp [hk] at h

/-- invariant of the `DecodePacket` loop: when it ends with an authenticator found, the remaining
    input splits at that field and `pos` is its offset -/
theorem decLoop_auth_inv (total : Nat) :
    ∀ (fuel : Nat) (rest : Bytes) (fu : Bool) (d : Decoded) (fu' : Bool) (d' : Decoded),
      decLoop true total fuel rest fu d = .ok (fu', true, d') →
      ∃ pre x y z w body, rest = pre ++ x :: y :: z :: w :: body ∧ d'.pos = total - (body.length + 4) ∧
        u16 x y = extAuthenticator ∧ unpackAuth body = .ok (d'.nonce, d'.ct) := by
  intro fuel
  induction fuel with
  | zero => intro rest fu d fu' d' h; simp [decLoop] at h
  | succ fuel ih =>
    intro rest fu d fu' d' h
    unfold decLoop at h
    by_cases h28 : rest.length < 28
    · simp [h28] at h
    · obtain ⟨a, b, c, e, body, rfl⟩ : ∃ a b c e body, rest = a :: b :: c :: e :: body := by
        match rest, h28 with
        | a :: b :: c :: e :: body, _ => exact ⟨a, b, c, e, body, rfl⟩
        | [], h | [_], h | [_, _], h | [_, _, _], h => simp at h
      simp only [h28, if_false] at h
      have step : ∀ fu1 d1, decLoop true total fuel (List.drop (u16 c e) (a :: b :: c :: e :: body)) fu1 d1 = .ok (fu', true, d') →
          ∃ pre x y z w body', a :: b :: c :: e :: body = pre ++ x :: y :: z :: w :: body' ∧
            d'.pos = total - (body'.length + 4) ∧ u16 x y = extAuthenticator ∧ unpackAuth body' = .ok (d'.nonce, d'.ct) := by
        intro fu1 d1 h1
        obtain ⟨pre, x, y, z, w, body', hr, hp, ht, hu⟩ := ih _ fu1 d1 fu' d' h1
        refine ⟨(a :: b :: c :: e :: body).take (u16 c e) ++ pre, x, y, z, w, body', ?_, hp, ht, hu⟩
        rw [List.append_assoc, ← hr, List.take_append_drop]
      by_cases hc : (true && (decide (u16 c e < 4) || decide (u16 c e > (a :: b :: c :: e :: body).length))) = true
      · rw [if_pos hc] at h; simp at h
      · rw [if_neg hc] at h
        by_cases ht : u16 a b = extAuthenticator
        · rw [if_pos ht] at h
          cases hu : unpackAuth body with
          | ok nc =>
            obtain ⟨nonce, ct⟩ := nc
            rw [hu] at h
            simp only [Res.ok.injEq, Prod.mk.injEq, true_and] at h
            obtain ⟨_, hd⟩ := h
            subst hd
            exact ⟨[], a, b, c, e, body, rfl, by simp, ht, hu⟩
          | err x => rw [hu] at h; simp at h
          | panic x => rw [hu] at h; simp at h
          | hang => rw [hu] at h; simp at h
        · rw [if_neg ht] at h
          by_cases h0 : u16 c e = 0
          · rw [if_pos h0] at h; simp at h
          · rw [if_neg h0] at h
            by_cases h1 : u16 a b = extUniqueIdentifier
            · rw [if_pos h1] at h; exact step _ _ h
            · rw [if_neg h1] at h
              by_cases h2 : u16 a b = extCookie
              · rw [if_pos h2] at h; exact step _ _ h
              · rw [if_neg h2] at h
                by_cases h3 : u16 a b = extCookiePlaceholder
                · rw [if_pos h3] at h; exact step _ _ h
                · rw [if_neg h3] at h; exact step _ _ h

end ScionTime.Nts
