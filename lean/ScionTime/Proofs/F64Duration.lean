/-
  Proofs/F64Duration.lean — `time.Duration.Seconds()` in the software double: a positive
  duration below 2^62 ns converts to a positive double within relative 3·2^-53 of d/10^9.
-/
import ScionTime.Proofs.F64Apply
namespace ScionTime.F64

theorem ofInt_e9 : ofInt 1000000000 = .fin 1000000000 := by
  have := ofInt_exact 1000000000 (by decide) (by decide) (by decide)
  rw [this]; simp

/-- `d.Seconds()` for `0 < d < 2^62` ns: a positive double within relative 3·2^-53 of `d/10^9`. -/
theorem durationSeconds_pos (d : Int) (hd : 0 < d) (hd2 : d < 4611686018427387904) :
    ∃ s : Rat, durationSeconds d = .fin s ∧ 0 < s ∧
      (s * 1000000000 - d) * 9007199254740992 ≤ 3 * d ∧
      ((d : Rat) - s * 1000000000) * 9007199254740992 ≤ 3 * d := by
  unfold durationSeconds
  rw [ofInt_e9, Int.tdiv_eq_ediv_of_nonneg (by omega), Int.tmod_eq_emod_of_nonneg (by omega)]
  have hdec : d = 1000000000 * (d / 1000000000) + d % 1000000000 := by omega
  have hq0 : 0 ≤ d / 1000000000 := by omega
  have hq1 : d / 1000000000 < 4611686019 := by omega
  have hr0 : 0 ≤ d % 1000000000 := by omega
  have hr1 : d % 1000000000 < 1000000000 := by omega
  generalize d / 1000000000 = q at *
  generalize d % 1000000000 = r at *
  have hD : (d : Rat) = 1000000000 * (q : Rat) + (r : Rat) := by
    rw [hdec]; simp [Rat.intCast_add, Rat.intCast_mul]
  have hQ0 : (0 : Rat) ≤ (q : Rat) := by simpa using Rat.intCast_le_intCast.mpr hq0
  have hQ1 : (q : Rat) ≤ 4611686019 := by
    simpa using Rat.intCast_le_intCast.mpr (show q ≤ 4611686019 by omega)
  have hR0 : (0 : Rat) ≤ (r : Rat) := by simpa using Rat.intCast_le_intCast.mpr hr0
  have hR1 : (r : Rat) ≤ 999999999 := by
    simpa using Rat.intCast_le_intCast.mpr (show r ≤ 999999999 by omega)
  by_cases hr : r = 0
  · -- whole seconds
    subst hr
    have hq : q ≠ 0 := by omega
    rw [ofInt_zero, ofInt_exact q hq (by omega) (by omega)]
    have hQ : (1 : Rat) ≤ (q : Rat) := by
      simpa using Rat.intCast_le_intCast.mpr (show 1 ≤ q by omega)
    refine ⟨(q : Rat), rfl, by grind, ?_, ?_⟩ <;> · rw [hD]; simp; grind
  · have hRpos : (1 : Rat) ≤ (r : Rat) := by
      simpa using Rat.intCast_le_intCast.mpr (show 1 ≤ r by omega)
    rw [ofInt_exact r hr (by omega) (by omega)]
    have hdiv : div (.fin (r : Rat)) (.fin 1000000000) = roundNE ((r : Rat) / 1000000000) := rfl
    rw [hdiv]
    generalize (r : Rat) = R at *
    generalize hQdef : (q : Rat) = Q at *
    have hy0 : 0 < R / 1000000000 := by grind
    obtain ⟨_, a2⟩ := absR_eq (R / 1000000000)
    have a2' := a2 (by grind)
    obtain ⟨y, hy, hyp, _⟩ := round_step (R / 1000000000) (by grind) (by rw [a2']; grind) (by rw [a2']; grind)
    obtain ⟨y0, y1, y2⟩ := hyp hy0
    rw [hy]
    by_cases hq : q = 0
    · subst hq
      rw [ofInt_zero]
      have hQz : Q = 0 := by rw [← hQdef]; rfl
      refine ⟨y, rfl, y0, ?_, ?_⟩ <;> · rw [hD]; grind
    · rw [ofInt_exact q hq (by omega) (by omega), hQdef]
      have hQ : (1 : Rat) ≤ Q := by
        rw [← hQdef]; simpa using Rat.intCast_le_intCast.mpr (show 1 ≤ q by omega)
      have hadd : add (.fin Q) (.fin y) = roundNE (Q + y) := rfl
      rw [hadd]
      have hs0 : 0 < Q + y := by grind
      obtain ⟨_, b2⟩ := absR_eq (Q + y)
      have b2' := b2 (by grind)
      obtain ⟨s, hs, hsp, _⟩ := round_step (Q + y) (by grind) (by rw [b2']; grind) (by rw [b2']; grind)
      obtain ⟨s0, s1, s2⟩ := hsp hs0
      refine ⟨s, hs, s0, ?_, ?_⟩ <;> · rw [hD]; grind


end ScionTime.F64
