/-
  Helper lemmas for C18: truncating division/remainder by 10^9, arithmetic shift by 16,
  no-wrap conditions for Int64 `+ - /2`.
-/
namespace ScionTime.Int64Arith

/-- Truncating quotient and remainder by a positive literal, in omega-friendly form. -/
theorem tdiv_tmod_facts (a b : Int) (hb : 0 < b) :
    a = b * a.tdiv b + a.tmod b ∧
    (0 ≤ a → 0 ≤ a.tmod b ∧ a.tmod b < b ∧ a.tdiv b = a / b) ∧
    (a < 0 → -b < a.tmod b ∧ a.tmod b ≤ 0 ∧ a.tdiv b = -((-a) / b)) := by
  refine ⟨(Int.mul_tdiv_add_tmod a b).symm, ?_, ?_⟩
  · intro ha
    rw [Int.tmod_eq_emod_of_nonneg ha, Int.tdiv_eq_ediv_of_nonneg ha]
    exact ⟨Int.emod_nonneg _ (by omega), Int.emod_lt_of_pos _ hb, rfl⟩
  · intro ha
    have hn : a = -(-a) := by omega
    have h1 : a.tmod b = -((-a) % b) := by
      rw [hn, Int.neg_tmod, Int.tmod_eq_emod_of_nonneg (by omega)]; simp
    have h2 : a.tdiv b = -((-a) / b) := by
      rw [hn, Int.neg_tdiv, Int.tdiv_eq_ediv_of_nonneg (by omega)]; simp
    have := Int.emod_nonneg (-a) (show b ≠ 0 by omega)
    have := Int.emod_lt_of_pos (-a) hb
    rw [h1, h2]
    exact ⟨by omega, by omega, rfl⟩

/-- `i >> 16` on int64 is floor division by 65536, for negative values too. -/
theorem toInt_shiftRight16 (i : Int64) : (i >>> 16).toInt = i.toInt / 65536 := by
  rw [← Int64.toInt_toBitVec, Int64.toBitVec_shiftRight, BitVec.toInt_sshiftRight']
  have : ((16 : Int64).toBitVec.smod 64).toNat = 16 := by decide
  rw [this, Int64.toInt_toBitVec, Int.shiftRight_eq_div_pow]
  rfl

theorem bmod_id (n : Int) (h1 : -9223372036854775808 ≤ n) (h2 : n ≤ 9223372036854775807) :
    n.bmod (2 ^ 64) = n := by
  apply Int.bmod_eq_of_le <;> omega

theorem toInt_sub_of_fits (a b : Int64) (h1 : -9223372036854775808 ≤ a.toInt - b.toInt)
    (h2 : a.toInt - b.toInt ≤ 9223372036854775807) : (a - b).toInt = a.toInt - b.toInt := by
  rw [Int64.toInt_sub, bmod_id _ h1 h2]

theorem toInt_add_of_fits (a b : Int64) (h1 : -9223372036854775808 ≤ a.toInt + b.toInt)
    (h2 : a.toInt + b.toInt ≤ 9223372036854775807) : (a + b).toInt = a.toInt + b.toInt := by
  rw [Int64.toInt_add, bmod_id _ h1 h2]

/-- `/ 2` on int64 never wraps. -/
theorem toInt_half (a : Int64) : (a / 2).toInt = a.toInt.tdiv 2 := by
  have h2 : (2 : Int64).toInt = 2 := by decide
  rw [Int64.toInt_div, h2]
  have hl := Int64.le_toInt a
  have hu := Int64.toInt_lt a
  have hf := tdiv_tmod_facts a.toInt 2 (by omega)
  apply bmod_id <;> omega

end ScionTime.Int64Arith
