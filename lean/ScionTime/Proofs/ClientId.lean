/- helper lemmas for Props/C06Ident (core Lean only) -/
import ScionTime.Model.ClientId
namespace ScionTime.ClientId

theorem clientIdScion_toList (ia host : String) :
    (clientIdScion ia host).toList = clientIdScionL ia.toList host.toList := by
  simp [clientIdScion, clientIdScionL, sep, sepChar, String.toList_append]

theorem mem_toDigits_digitChar (b : Nat) (hb : 1 < b) (n : Nat) (c : Char) (h : c ∈ Nat.toDigits b n) :
    ∃ k, c = Nat.digitChar k := by
  induction n using Nat.strongRecOn with
  | _ n ih =>
    rw [Nat.toDigits_eq_if hb] at h
    split at h
    · exact ⟨n, by simpa using h⟩
    · rw [List.mem_append] at h
      rcases h with h | h
      · exact ih (n / b) (Nat.div_lt_self (by omega) hb) h
      · exact ⟨n % b, by simpa using h⟩

theorem sep_not_mem_toDigits (b : Nat) (hb : 1 < b) (n : Nat) : sepChar ∉ Nat.toDigits b n := by
  intro h
  obtain ⟨k, hk⟩ := mem_toDigits_digitChar b hb n _ h
  exact Nat.digitChar_ne sepChar (by decide) hk.symm

end ScionTime.ClientId
