/- helper lemmas for Props/C06Ident (core Lean only) -/
import ScionTime.Model.ClientId
namespace ScionTime.ClientId

theorem clientIdScion_toList (ia host : String) :
    (clientIdScion ia host).toList = clientIdScionL ia.toList host.toList := by
  simp [clientIdScion, clientIdScionL, sep, sepChar, String.toList_append]

theorem mem_toDigits_digitChar (b : Nat) (hb : 1 < b) (n : Nat) (c : Char) (h : c ∈ Nat.toDigits b n) :
    ∃ k, c = Nat.digitChar k := by
  induction n using Nat.strongRecOn with
  | _ n ih =>
    rw [Nat.toDigits_eq_if hb] at h
    split at h
    · exact ⟨n, by simpa using h⟩
    · rw [List.mem_append] at h
      rcases h with h | h
      · exact ih (n / b) (Nat.div_lt_self (by omega) hb) h
      · exact ⟨n % b, by simpa using h⟩

theorem sep_not_mem_toDigits (b : Nat) (hb : 1 < b) (n : Nat) : sepChar ∉ Nat.toDigits b n := by
  intro h
  obtain ⟨k, hk⟩ := mem_toDigits_digitChar b hb n _ h
  exact Nat.digitChar_ne sepChar (by decide) hk.symm

/-- general form of the separator argument -/
theorem split_at_sep (c : Char) : ∀ (l₁ l₂ r₁ r₂ : List Char), c ∉ l₁ → c ∉ l₂ →
    l₁ ++ c :: r₁ = l₂ ++ c :: r₂ → l₁ = l₂ ∧ r₁ = r₂ := by
  intro l₁
  induction l₁ with
  | nil =>
    intro l₂ r₁ r₂ _ n₂ e
    cases l₂ with
    | nil => simpa using e
    | cons a t =>
      simp only [List.nil_append, List.cons_append, List.cons.injEq] at e
      exact absurd (e.1 ▸ List.mem_cons_self) n₂
  | cons a s ih =>
    intro l₂ r₁ r₂ n₁ n₂ e
    cases l₂ with
    | nil =>
      simp only [List.nil_append, List.cons_append, List.cons.injEq] at e
      exact absurd (e.1 ▸ List.mem_cons_self) n₁
    | cons b t =>
      simp only [List.cons_append, List.cons.injEq] at e
      have := ih t r₁ r₂ (fun h => n₁ (List.mem_cons_of_mem _ h)) (fun h => n₂ (List.mem_cons_of_mem _ h)) e.2
      exact ⟨by rw [e.1, this.1], this.2⟩

/-- value of a lower-case hex digit character -/
def hexVal (c : Char) : Nat := if c.toNat < 58 then c.toNat - 48 else c.toNat - 87

def ofHexChars (l : List Char) (init : Nat) : Nat := l.foldl (fun acc c => 16 * acc + hexVal c) init

theorem hexVal_digitChar (n : Nat) (h : n < 16) : hexVal (Nat.digitChar n) = n := by
  match n, h with
  | 0, _ | 1, _ | 2, _ | 3, _ | 4, _ | 5, _ | 6, _ | 7, _ | 8, _ | 9, _
  | 10, _ | 11, _ | 12, _ | 13, _ | 14, _ | 15, _ => decide
  | n + 16, h => omega

theorem ofHexChars_append (l m : List Char) (init : Nat) :
    ofHexChars (l ++ m) init = ofHexChars m (ofHexChars l init) := by
  simp [ofHexChars]

theorem ofHexChars_toDigits (n : Nat) : ofHexChars (Nat.toDigits 16 n) 0 = n := by
  induction n using Nat.strongRecOn with
  | _ n ih =>
    rw [Nat.toDigits_eq_if (by decide)]
    split
    · rename_i h; simp [ofHexChars, hexVal_digitChar n h]
    · rename_i h
      rw [ofHexChars_append, ih (n / 16) (by omega)]
      simp only [ofHexChars, List.foldl_cons, List.foldl_nil]
      rw [hexVal_digitChar _ (Nat.mod_lt _ (by decide))]
      omega

theorem toDigits16_inj (a b : Nat) (h : Nat.toDigits 16 a = Nat.toDigits 16 b) : a = b := by
  have := congrArg (fun l => ofHexChars l 0) h
  simpa [ofHexChars_toDigits] using this

theorem toDigits10_inj (a b : Nat) (h : Nat.toDigits 10 a = Nat.toDigits 10 b) : a = b := by
  have := congrArg (fun l => Nat.ofDigitChars 10 l 0) h
  simpa using this

theorem not_mem_toDigits_of_ne_digitChar (c : Char) (hc : ∀ k, Nat.digitChar k ≠ c) (b : Nat) (hb : 1 < b) (n : Nat) :
    c ∉ Nat.toDigits b n := by
  intro h
  obtain ⟨k, hk⟩ := mem_toDigits_digitChar b hb n _ h
  exact hc k hk.symm

theorem dash_not_mem (b : Nat) (hb : 1 < b) (n : Nat) : '-' ∉ Nat.toDigits b n :=
  not_mem_toDigits_of_ne_digitChar '-' (fun _ => Nat.digitChar_ne '-' (by decide)) b hb n

theorem colon_not_mem (b : Nat) (hb : 1 < b) (n : Nat) : ':' ∉ Nat.toDigits b n :=
  not_mem_toDigits_of_ne_digitChar ':' (fun _ => Nat.digitChar_ne ':' (by decide)) b hb n

theorem asText_inj (a b : Nat) (ha : a < 281474976710656) (hb : b < 281474976710656)
    (h : asText a = asText b) : a = b := by
  unfold asText at h
  have c10 := colon_not_mem 10 (by decide)
  have c16 := colon_not_mem 16 (by decide)
  split at h <;> split at h
  · exact toDigits10_inj _ _ h
  · exfalso
    have : ':' ∈ Nat.toDigits 10 a := by rw [h]; simp
    exact c10 _ this
  · exfalso
    have : ':' ∈ Nat.toDigits 10 b := by rw [← h]; simp
    exact c10 _ this
  · have h1 := split_at_sep ':' _ _ _ _ (c16 _) (c16 _) h
    have h2 := split_at_sep ':' _ _ _ _ (c16 _) (c16 _) h1.2
    have e1 := toDigits16_inj _ _ h1.1
    have e2 := toDigits16_inj _ _ h2.1
    have e3 := toDigits16_inj _ _ h2.2
    omega

/-- `addr.IA.String()` is injective on 64-bit ISD-AS values -/
theorem iaText_inj (a b : Nat) (ha : a < 18446744073709551616) (hb : b < 18446744073709551616)
    (h : iaText a = iaText b) : a = b := by
  unfold iaText at h
  have h1 := split_at_sep '-' _ _ _ _ (dash_not_mem 10 (by decide) _) (dash_not_mem 10 (by decide) _) h
  have e1 := toDigits10_inj _ _ h1.1
  have e2 := asText_inj _ _ (Nat.mod_lt _ (by decide)) (Nat.mod_lt _ (by decide)) h1.2
  omega

end ScionTime.ClientId
