/-
  Lemmas about the leaf translator's prelude (Model/GoPrelude.lean) and about the width
  conversions the translator emits: what they are over the integers. Core Lean only.
-/
import ScionTime.Model.GoPrelude
import ScionTime.Model.F64
namespace ScionTime.GoLemmas
open ScionTime

theorem bmod64_id (n : Int) (h1 : -9223372036854775808 ≤ n) (h2 : n ≤ 9223372036854775807) :
    n.bmod (2 ^ 64) = n := by
  apply Int.bmod_eq_of_le <;> omega

theorem toInt_ofInt_of_fits (n : Int) (h1 : -9223372036854775808 ≤ n) (h2 : n ≤ 9223372036854775807) :
    (Int64.ofInt n).toInt = n := by
  rw [Int64.toInt_ofInt]
  exact bmod64_id n h1 h2

/-- `uint64(x)` of an int64: the residue modulo 2^64. -/
theorem toNat_toUInt64 (x : Int64) : (x.toUInt64.toNat : Int) = x.toInt % 2 ^ 64 := by
  have h1 : x.toUInt64.toNat = x.toBitVec.toNat := rfl
  have h2 : x.toInt = x.toBitVec.toInt := rfl
  rw [h1, h2, BitVec.toInt_eq_toNat_cond]
  have := x.toBitVec.isLt
  split <;> omega

/-- `uint32(x)` of an int64: the residue modulo 2^32. -/
theorem toNat_narrow32 (x : Int64) : ((x.toUInt64.toUInt32).toNat : Int) = x.toInt % 2 ^ 32 := by
  have h : (x.toUInt64.toUInt32).toNat = x.toUInt64.toNat % 2 ^ 32 := by simp
  rw [h]
  have := toNat_toUInt64 x
  omega

/-- `int64(u)` of a uint32: the same number. -/
theorem toInt_widen32 (u : UInt32) : (u.toUInt64.toInt64).toInt = u.toNat := by
  have h2 : (u.toUInt64.toInt64).toInt = (u.toUInt64.toInt64).toBitVec.toInt := rfl
  have h3 : (u.toUInt64.toInt64).toBitVec.toNat = u.toNat := by simp
  rw [h2, BitVec.toInt_eq_toNat_cond, h3]
  have := u.toBitVec.isLt
  have : u.toNat = u.toBitVec.toNat := rfl
  split <;> omega

/-- `x >> 32` on int64 is floor division by 2^32. -/
theorem toInt_shr64_32 (x : Int64) : (Go.shr64 x 32).toInt = x.toInt / 4294967296 := by
  unfold Go.shr64
  rw [← Int64.toInt_toBitVec, Int64.toBitVec_shiftRight, BitVec.toInt_sshiftRight']
  have : ((Int64.ofNat 32).toBitVec.smod 64).toNat = 32 := by decide
  rw [this, Int64.toInt_toBitVec, Int.shiftRight_eq_div_pow]
  rfl

/-- `x << 32` on int64 does not wrap for `0 ≤ x < 2^31`. -/
theorem toInt_shl64_32 (x : Int64) (h0 : 0 ≤ x.toInt) (h1 : x.toInt < 2147483648) :
    (Go.shl64 x 32).toInt = x.toInt * 4294967296 := by
  have hx : x.toInt = x.toBitVec.toInt := rfl
  have hlt := x.toBitVec.isLt
  have hn : x.toInt = (x.toBitVec.toNat : Int) := by
    rw [hx, BitVec.toInt_eq_toNat_cond] at h0 ⊢
    split at h0 <;> rename_i hc
    · simp only [hc, ↓reduceIte]
    · omega
  unfold Go.shl64
  rw [← Int64.toInt_toBitVec, Int64.toBitVec_shiftLeft]
  have : ((Int64.ofNat 32).toBitVec.smod 64) = 32#64 := by decide
  rw [this, BitVec.shiftLeft_eq', BitVec.toInt_shiftLeft]
  have h32 : (32#64).toNat = 32 := by decide
  rw [h32, Nat.shiftLeft_eq, hn]
  have h232 : (2 : Nat) ^ 32 = 4294967296 := by decide
  rw [h232, Int.natCast_mul]
  have : ((4294967296 : Nat) : Int) = 4294967296 := rfl
  rw [this]
  apply Int.bmod_eq_of_le <;> omega

theorem toInt_add_of_fits (a b : Int64) (h1 : -9223372036854775808 ≤ a.toInt + b.toInt)
    (h2 : a.toInt + b.toInt ≤ 9223372036854775807) : (a + b).toInt = a.toInt + b.toInt := by
  rw [Int64.toInt_add, bmod64_id _ h1 h2]

theorem toInt_sub_of_fits (a b : Int64) (h1 : -9223372036854775808 ≤ a.toInt - b.toInt)
    (h2 : a.toInt - b.toInt ≤ 9223372036854775807) : (a - b).toInt = a.toInt - b.toInt := by
  rw [Int64.toInt_sub, bmod64_id _ h1 h2]

theorem toInt_mul_of_fits (a b : Int64) (h1 : -9223372036854775808 ≤ a.toInt * b.toInt)
    (h2 : a.toInt * b.toInt ≤ 9223372036854775807) : (a * b).toInt = a.toInt * b.toInt := by
  rw [Int64.toInt_mul, bmod64_id _ h1 h2]

/-- truncating division by a positive literal never wraps -/
theorem toInt_div_pos (a b : Int64) (hb : 1 ≤ b.toInt) : (a / b).toInt = a.toInt.tdiv b.toInt := by
  rw [Int64.toInt_div]
  have hl := Int64.le_toInt a
  have hu := Int64.toInt_lt a
  by_cases ha : 0 ≤ a.toInt
  · have h1 := Int.tdiv_nonneg ha (by omega : 0 ≤ b.toInt)
    have h2 : a.toInt.tdiv b.toInt ≤ a.toInt := by
      rw [Int.tdiv_eq_ediv_of_nonneg ha]
      exact Int.ediv_le_self _ ha
    apply bmod64_id <;> omega
  · have hn : a.toInt = -(-a.toInt) := by omega
    have h1 : a.toInt.tdiv b.toInt = -((-a.toInt) / b.toInt) := by
      rw [hn, Int.neg_tdiv, Int.tdiv_eq_ediv_of_nonneg (by omega)]; simp
    have h2 : (-a.toInt) / b.toInt ≤ -a.toInt := Int.ediv_le_self _ (by omega)
    have h3 : 0 ≤ (-a.toInt) / b.toInt := Int.ediv_nonneg (by omega) (by omega)
    rw [h1]
    apply bmod64_id <;> omega

theorem tdiv_bounds (a : Int) : -4294967296 < a - a.tdiv 4294967296 * 4294967296 ∧ a - a.tdiv 4294967296 * 4294967296 < 4294967296 := by
  by_cases ha : 0 ≤ a
  · rw [Int.tdiv_eq_ediv_of_nonneg ha]; omega
  · have hn : a = -(-a) := by omega
    have h1 : a.tdiv 4294967296 = -((-a) / 4294967296) := by
      rw [hn, Int.neg_tdiv, Int.tdiv_eq_ediv_of_nonneg (by omega)]; simp
    rw [h1]; omega

theorem ite3_toInt (A B C P M : Int64) :
    (if decide (A < B) = true then P else if decide (A ≥ C) = true then M else A).toInt =
      if A.toInt < B.toInt then P.toInt else if A.toInt ≥ C.toInt then M.toInt else A.toInt := by
  have hlt : (A < B) ↔ (A.toInt < B.toInt) := Int64.lt_iff_toInt_lt
  have hge : (A ≥ C) ↔ (A.toInt ≥ C.toInt) := Int64.le_iff_toInt_le
  by_cases h1 : A < B
  · rw [if_pos (by simpa using h1), if_pos (hlt.mp h1)]
  · rw [if_neg (by simpa using h1), if_neg (fun hh => h1 (hlt.mpr hh))]
    by_cases h2 : A ≥ C
    · rw [if_pos (by simpa using h2), if_pos (hge.mp h2)]
    · rw [if_neg (by simpa using h2), if_neg (fun hh => h2 (hge.mpr hh))]

/-! ### `int64(f)` for a double -/

theorem toInt64_range (x : F64.F64) : -9223372036854775808 ≤ F64.toInt64 x ∧ F64.toInt64 x ≤ 9223372036854775807 := by
  unfold F64.toInt64
  split
  · dsimp only
    split <;> omega
  · omega
  · omega

theorem ofInt_toInt64 (x : F64.F64) : (Int64.ofInt (F64.toInt64 x)).toInt = F64.toInt64 x :=
  toInt_ofInt_of_fits _ (toInt64_range x).1 (toInt64_range x).2

end ScionTime.GoLemmas
