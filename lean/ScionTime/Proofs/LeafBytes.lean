/-
  Byte-level lemmas for the ties of the wire codecs (leaf translator, seventh generation): what
  Go's `byte(x >> 8k)` and `uintN(b0)<<… | … | uintN(bk)` are over the naturals. Core Lean only.
-/
import ScionTime.Model.WireFields
namespace ScionTime.LeafBytes
open ScionTime.Wire

theorem forall_int8 (P : Int8 → Prop) (h : ∀ n : Fin 256, P (UInt8.ofNat n.val).toInt8) : ∀ x, P x := by
  intro x
  have := h ⟨x.toUInt8.toNat, x.toUInt8.toNat_lt⟩
  simpa using this

/-- `A | B = A + B` when `B` fits below the lowest set bit of `A` -/
theorem or_eq_add (A B i : Nat) (hB : B < 2 ^ i) (hA : 2 ^ i ∣ A) : A ||| B = A + B := by
  obtain ⟨k, rfl⟩ := hA
  rw [Nat.mul_comm, ← Nat.shiftLeft_eq]
  exact (Nat.shiftLeft_add_eq_or_of_lt hB k).symm

/-! ### encoders: `byte(x >> 8k)` -/

theorem u16_b1 (x : UInt16) : (((x >>> (8 : UInt16))).toUInt64.toUInt8).toNat = x.toNat / 256 ^ 1 % 256 := by
  simp [Nat.shiftRight_eq_div_pow]
theorem u16_b0 (x : UInt16) : ((x).toUInt64.toUInt8).toNat = x.toNat / 256 ^ 0 % 256 := by simp
theorem u32_b3 (x : UInt32) : (((x >>> (24 : UInt32))).toUInt64.toUInt8).toNat = x.toNat / 256 ^ 3 % 256 := by
  simp [Nat.shiftRight_eq_div_pow]
theorem u32_b2 (x : UInt32) : (((x >>> (16 : UInt32))).toUInt64.toUInt8).toNat = x.toNat / 256 ^ 2 % 256 := by
  simp [Nat.shiftRight_eq_div_pow]
theorem u32_b1 (x : UInt32) : (((x >>> (8 : UInt32))).toUInt64.toUInt8).toNat = x.toNat / 256 ^ 1 % 256 := by
  simp [Nat.shiftRight_eq_div_pow]
theorem u32_b0 (x : UInt32) : ((x).toUInt64.toUInt8).toNat = x.toNat / 256 ^ 0 % 256 := by simp
theorem u64_b (x : UInt64) (k : Nat) (hk : k < 8) :
    (((x >>> (UInt64.ofNat (8 * k)))).toUInt8).toNat = x.toNat / 256 ^ k % 256 := by
  have : k = 0 ∨ k = 1 ∨ k = 2 ∨ k = 3 ∨ k = 4 ∨ k = 5 ∨ k = 6 ∨ k = 7 := by omega
  rcases this with rfl | rfl | rfl | rfl | rfl | rfl | rfl | rfl <;> simp [Nat.shiftRight_eq_div_pow]
theorem i8_b (x : Int8) : ((x).toInt64.toUInt64.toUInt8).toNat = toU 8 x.toInt :=
  forall_int8 (fun x => ((x).toInt64.toUInt64.toUInt8).toNat = toU 8 x.toInt) (by decide +kernel) x
theorem u8_i8 (x : UInt8) : ((x).toUInt64.toInt64.toInt8).toInt = ofU 8 x.toNat := by
  revert x
  exact fun x => by
    have h : ∀ n : Fin 256, ((UInt8.ofNat n.val).toUInt64.toInt64.toInt8).toInt = ofU 8 (UInt8.ofNat n.val).toNat := by
      decide +kernel
    have := h ⟨x.toNat, x.toNat_lt⟩
    simpa using this

/-! ### decoders: `uintN(b0)<<8(n-1) | … | uintN(b(n-1))` -/

theorem be16 (a b : UInt8) :
    (((a).toUInt64.toUInt16 <<< (8 : UInt16)) ||| ((b).toUInt64.toUInt16)).toNat = beVal [a.toNat, b.toNat] := by
  have ha := a.toNat_lt; have hb := b.toNat_lt
  simp only [UInt16.toNat_or, UInt16.toNat_shiftLeft, UInt64.toNat_toUInt16, UInt8.toNat_toUInt64, beVal]
  have e : (8 : UInt16).toNat % 16 = 8 := rfl
  rw [e, Nat.shiftLeft_eq]
  have e1 : a.toNat % 2 ^ 16 * 2 ^ 8 % 2 ^ 16 = a.toNat * 256 := by omega
  have e2 : b.toNat % 2 ^ 16 = b.toNat := by omega
  rw [e1, e2, or_eq_add _ _ 8 (by omega) (by omega)]
  simp

theorem be32 (a b c d : UInt8) :
    ((((a).toUInt64.toUInt32 <<< (24 : UInt32)) ||| ((b).toUInt64.toUInt32 <<< (16 : UInt32))) |||
      ((c).toUInt64.toUInt32 <<< (8 : UInt32)) ||| ((d).toUInt64.toUInt32)).toNat =
      beVal [a.toNat, b.toNat, c.toNat, d.toNat] := by
  have ha := a.toNat_lt; have hb := b.toNat_lt; have hc := c.toNat_lt; have hd := d.toNat_lt
  simp only [UInt32.toNat_or, UInt32.toNat_shiftLeft, UInt64.toNat_toUInt32, UInt8.toNat_toUInt64, beVal]
  have e24 : (24 : UInt32).toNat % 32 = 24 := rfl
  have e16 : (16 : UInt32).toNat % 32 = 16 := rfl
  have e8 : (8 : UInt32).toNat % 32 = 8 := rfl
  rw [e24, e16, e8]
  simp only [Nat.shiftLeft_eq, Nat.reducePow] at ha hb hc hd ⊢
  have ma : a.toNat % 4294967296 = a.toNat := Nat.mod_eq_of_lt (by omega)
  have mb : b.toNat % 4294967296 = b.toNat := Nat.mod_eq_of_lt (by omega)
  have mc : c.toNat % 4294967296 = c.toNat := Nat.mod_eq_of_lt (by omega)
  have ed : d.toNat % 4294967296 = d.toNat := Nat.mod_eq_of_lt (by omega)
  have ea : a.toNat % 4294967296 * 16777216 % 4294967296 = a.toNat * 16777216 := by
    rw [ma]; exact Nat.mod_eq_of_lt (by omega)
  have eb : b.toNat % 4294967296 * 65536 % 4294967296 = b.toNat * 65536 := by
    rw [mb]; exact Nat.mod_eq_of_lt (by omega)
  have ec : c.toNat % 4294967296 * 256 % 4294967296 = c.toNat * 256 := by
    rw [mc]; exact Nat.mod_eq_of_lt (by omega)
  rw [ea, eb, ec, ed, or_eq_add (a.toNat * 16777216) (b.toNat * 65536) 24 (by omega) (by omega),
    or_eq_add (a.toNat * 16777216 + b.toNat * 65536) (c.toNat * 256) 16 (by omega) (by omega),
    or_eq_add (a.toNat * 16777216 + b.toNat * 65536 + c.toNat * 256) d.toNat 8 (by omega) (by omega)]
  simp
  omega

theorem be48 (a b c d e f : UInt8) :
    (((((((a).toUInt64 <<< (40 : UInt64)) ||| ((b).toUInt64 <<< (32 : UInt64))) ||| ((c).toUInt64 <<< (24 : UInt64))) ||| ((d).toUInt64 <<< (16 : UInt64))) ||| ((e).toUInt64 <<< (8 : UInt64))) ||| ((f).toUInt64)).toNat =
      beVal [a.toNat, b.toNat, c.toNat, d.toNat, e.toNat, f.toNat] := by
  have ha := a.toNat_lt; have hb := b.toNat_lt; have hc := c.toNat_lt; have hd := d.toNat_lt; have he := e.toNat_lt; have hf := f.toNat_lt
  simp only [UInt64.toNat_or, UInt64.toNat_shiftLeft, UInt8.toNat_toUInt64, beVal]
  have e40 : (40 : UInt64).toNat % 64 = 40 := rfl
  have e32 : (32 : UInt64).toNat % 64 = 32 := rfl
  have e24 : (24 : UInt64).toNat % 64 = 24 := rfl
  have e16 : (16 : UInt64).toNat % 64 = 16 := rfl
  have e8 : (8 : UInt64).toNat % 64 = 8 := rfl
  rw [e40, e32, e24, e16, e8]
  simp only [Nat.shiftLeft_eq, Nat.reducePow] at ha hb hc hd he hf ⊢
  have ma : a.toNat * 1099511627776 % 18446744073709551616 = a.toNat * 1099511627776 := Nat.mod_eq_of_lt (by omega)
  have mb : b.toNat * 4294967296 % 18446744073709551616 = b.toNat * 4294967296 := Nat.mod_eq_of_lt (by omega)
  have mc : c.toNat * 16777216 % 18446744073709551616 = c.toNat * 16777216 := Nat.mod_eq_of_lt (by omega)
  have md : d.toNat * 65536 % 18446744073709551616 = d.toNat * 65536 := Nat.mod_eq_of_lt (by omega)
  have me : e.toNat * 256 % 18446744073709551616 = e.toNat * 256 := Nat.mod_eq_of_lt (by omega)
  rw [ma, mb, mc, md, me]
  rw [or_eq_add (a.toNat * 1099511627776) (b.toNat * 4294967296) 40 (by omega) (by omega),
    or_eq_add (a.toNat * 1099511627776 + b.toNat * 4294967296) (c.toNat * 16777216) 32 (by omega) (by omega),
    or_eq_add (a.toNat * 1099511627776 + b.toNat * 4294967296 + c.toNat * 16777216) (d.toNat * 65536) 24 (by omega) (by omega),
    or_eq_add (a.toNat * 1099511627776 + b.toNat * 4294967296 + c.toNat * 16777216 + d.toNat * 65536) (e.toNat * 256) 16 (by omega) (by omega),
    or_eq_add (a.toNat * 1099511627776 + b.toNat * 4294967296 + c.toNat * 16777216 + d.toNat * 65536 + e.toNat * 256) (f.toNat) 8 (by omega) (by omega)]
  simp
  omega

theorem be64 (a b c d e f g h : UInt8) :
    (((((((((a).toUInt64 <<< (56 : UInt64)) ||| ((b).toUInt64 <<< (48 : UInt64))) ||| ((c).toUInt64 <<< (40 : UInt64))) ||| ((d).toUInt64 <<< (32 : UInt64))) ||| ((e).toUInt64 <<< (24 : UInt64))) ||| ((f).toUInt64 <<< (16 : UInt64))) ||| ((g).toUInt64 <<< (8 : UInt64))) ||| ((h).toUInt64)).toNat =
      beVal [a.toNat, b.toNat, c.toNat, d.toNat, e.toNat, f.toNat, g.toNat, h.toNat] := by
  have ha := a.toNat_lt; have hb := b.toNat_lt; have hc := c.toNat_lt; have hd := d.toNat_lt; have he := e.toNat_lt; have hf := f.toNat_lt; have hg := g.toNat_lt; have hh := h.toNat_lt
  simp only [UInt64.toNat_or, UInt64.toNat_shiftLeft, UInt8.toNat_toUInt64, beVal]
  have e56 : (56 : UInt64).toNat % 64 = 56 := rfl
  have e48 : (48 : UInt64).toNat % 64 = 48 := rfl
  have e40 : (40 : UInt64).toNat % 64 = 40 := rfl
  have e32 : (32 : UInt64).toNat % 64 = 32 := rfl
  have e24 : (24 : UInt64).toNat % 64 = 24 := rfl
  have e16 : (16 : UInt64).toNat % 64 = 16 := rfl
  have e8 : (8 : UInt64).toNat % 64 = 8 := rfl
  rw [e56, e48, e40, e32, e24, e16, e8]
  simp only [Nat.shiftLeft_eq, Nat.reducePow] at ha hb hc hd he hf hg hh ⊢
  have ma : a.toNat * 72057594037927936 % 18446744073709551616 = a.toNat * 72057594037927936 := Nat.mod_eq_of_lt (by omega)
  have mb : b.toNat * 281474976710656 % 18446744073709551616 = b.toNat * 281474976710656 := Nat.mod_eq_of_lt (by omega)
  have mc : c.toNat * 1099511627776 % 18446744073709551616 = c.toNat * 1099511627776 := Nat.mod_eq_of_lt (by omega)
  have md : d.toNat * 4294967296 % 18446744073709551616 = d.toNat * 4294967296 := Nat.mod_eq_of_lt (by omega)
  have me : e.toNat * 16777216 % 18446744073709551616 = e.toNat * 16777216 := Nat.mod_eq_of_lt (by omega)
  have mf : f.toNat * 65536 % 18446744073709551616 = f.toNat * 65536 := Nat.mod_eq_of_lt (by omega)
  have mg : g.toNat * 256 % 18446744073709551616 = g.toNat * 256 := Nat.mod_eq_of_lt (by omega)
  rw [ma, mb, mc, md, me, mf, mg]
  rw [or_eq_add (a.toNat * 72057594037927936) (b.toNat * 281474976710656) 56 (by omega) (by omega),
    or_eq_add (a.toNat * 72057594037927936 + b.toNat * 281474976710656) (c.toNat * 1099511627776) 48 (by omega) (by omega),
    or_eq_add (a.toNat * 72057594037927936 + b.toNat * 281474976710656 + c.toNat * 1099511627776) (d.toNat * 4294967296) 40 (by omega) (by omega),
    or_eq_add (a.toNat * 72057594037927936 + b.toNat * 281474976710656 + c.toNat * 1099511627776 + d.toNat * 4294967296) (e.toNat * 16777216) 32 (by omega) (by omega),
    or_eq_add (a.toNat * 72057594037927936 + b.toNat * 281474976710656 + c.toNat * 1099511627776 + d.toNat * 4294967296 + e.toNat * 16777216) (f.toNat * 65536) 24 (by omega) (by omega),
    or_eq_add (a.toNat * 72057594037927936 + b.toNat * 281474976710656 + c.toNat * 1099511627776 + d.toNat * 4294967296 + e.toNat * 16777216 + f.toNat * 65536) (g.toNat * 256) 16 (by omega) (by omega),
    or_eq_add (a.toNat * 72057594037927936 + b.toNat * 281474976710656 + c.toNat * 1099511627776 + d.toNat * 4294967296 + e.toNat * 16777216 + f.toNat * 65536 + g.toNat * 256) (h.toNat) 8 (by omega) (by omega)]
  simp
  omega

/-! ### `byte(x >> 8k)` on uint64 with literal shift counts -/

theorem u64_b7 (x : UInt64) : ((x >>> (56 : UInt64)).toUInt8).toNat = x.toNat / 256 ^ 7 % 256 := by simp [Nat.shiftRight_eq_div_pow]
theorem u64_b6 (x : UInt64) : ((x >>> (48 : UInt64)).toUInt8).toNat = x.toNat / 256 ^ 6 % 256 := by simp [Nat.shiftRight_eq_div_pow]
theorem u64_b5 (x : UInt64) : ((x >>> (40 : UInt64)).toUInt8).toNat = x.toNat / 256 ^ 5 % 256 := by simp [Nat.shiftRight_eq_div_pow]
theorem u64_b4 (x : UInt64) : ((x >>> (32 : UInt64)).toUInt8).toNat = x.toNat / 256 ^ 4 % 256 := by simp [Nat.shiftRight_eq_div_pow]
theorem u64_b3 (x : UInt64) : ((x >>> (24 : UInt64)).toUInt8).toNat = x.toNat / 256 ^ 3 % 256 := by simp [Nat.shiftRight_eq_div_pow]
theorem u64_b2 (x : UInt64) : ((x >>> (16 : UInt64)).toUInt8).toNat = x.toNat / 256 ^ 2 % 256 := by simp [Nat.shiftRight_eq_div_pow]
theorem u64_b1 (x : UInt64) : ((x >>> (8 : UInt64)).toUInt8).toNat = x.toNat / 256 ^ 1 % 256 := by simp [Nat.shiftRight_eq_div_pow]
theorem u64_b0 (x : UInt64) : ((x).toUInt8).toNat = x.toNat / 256 ^ 0 % 256 := by simp

end ScionTime.LeafBytes
