/-
  Byte-level lemmas for the ties of the wire codecs (leaf translator, seventh generation): what
  Go's `byte(x >> 8k)` and `uintN(b0)<<… | … | uintN(bk)` are over the naturals. Core Lean only.
-/
import ScionTime.Model.WireFields
namespace ScionTime.LeafBytes
open ScionTime.Wire

theorem forall_int8 (P : Int8 → Prop) (h : ∀ n : Fin 256, P (UInt8.ofNat n.val).toInt8) : ∀ x, P x := by
  intro x
  have := h ⟨x.toUInt8.toNat, x.toUInt8.toNat_lt⟩
  simpa using this

/-- `A | B = A + B` when `B` fits below the lowest set bit of `A` -/
theorem or_eq_add (A B i : Nat) (hB : B < 2 ^ i) (hA : 2 ^ i ∣ A) : A ||| B = A + B := by
  obtain ⟨k, rfl⟩ := hA
  rw [Nat.mul_comm, ← Nat.shiftLeft_eq]
  exact (Nat.shiftLeft_add_eq_or_of_lt hB k).symm

/-! ### encoders: `byte(x >> 8k)` -/

theorem u16_b1 (x : UInt16) : (((x >>> (8 : UInt16))).toUInt64.toUInt8).toNat = x.toNat / 256 ^ 1 % 256 := by
  simp [Nat.shiftRight_eq_div_pow]
theorem u16_b0 (x : UInt16) : ((x).toUInt64.toUInt8).toNat = x.toNat / 256 ^ 0 % 256 := by simp
theorem u32_b3 (x : UInt32) : (((x >>> (24 : UInt32))).toUInt64.toUInt8).toNat = x.toNat / 256 ^ 3 % 256 := by
  simp [Nat.shiftRight_eq_div_pow]
theorem u32_b2 (x : UInt32) : (((x >>> (16 : UInt32))).toUInt64.toUInt8).toNat = x.toNat / 256 ^ 2 % 256 := by
  simp [Nat.shiftRight_eq_div_pow]
theorem u32_b1 (x : UInt32) : (((x >>> (8 : UInt32))).toUInt64.toUInt8).toNat = x.toNat / 256 ^ 1 % 256 := by
  simp [Nat.shiftRight_eq_div_pow]
theorem u32_b0 (x : UInt32) : ((x).toUInt64.toUInt8).toNat = x.toNat / 256 ^ 0 % 256 := by simp
theorem u64_b (x : UInt64) (k : Nat) (hk : k < 8) :
    (((x >>> (UInt64.ofNat (8 * k)))).toUInt8).toNat = x.toNat / 256 ^ k % 256 := by
  have : k = 0 ∨ k = 1 ∨ k = 2 ∨ k = 3 ∨ k = 4 ∨ k = 5 ∨ k = 6 ∨ k = 7 := by omega
  rcases this with rfl | rfl | rfl | rfl | rfl | rfl | rfl | rfl <;> simp [Nat.shiftRight_eq_div_pow]
theorem i8_b (x : Int8) : ((x).toInt64.toUInt64.toUInt8).toNat = toU 8 x.toInt :=
  forall_int8 (fun x => ((x).toInt64.toUInt64.toUInt8).toNat = toU 8 x.toInt) (by decide +kernel) x
theorem u8_i8 (x : UInt8) : ((x).toUInt64.toInt64.toInt8).toInt = ofU 8 x.toNat := by
  revert x
  exact fun x => by
    have h : ∀ n : Fin 256, ((UInt8.ofNat n.val).toUInt64.toInt64.toInt8).toInt = ofU 8 (UInt8.ofNat n.val).toNat := by
      decide +kernel
    have := h ⟨x.toNat, x.toNat_lt⟩
    simpa using this

/-! ### decoders: `uintN(b0)<<8(n-1) | … | uintN(b(n-1))` -/

theorem be16 (a b : UInt8) :
    (((a).toUInt64.toUInt16 <<< (8 : UInt16)) ||| ((b).toUInt64.toUInt16)).toNat = beVal [a.toNat, b.toNat] := by
  have ha := a.toNat_lt; have hb := b.toNat_lt
  simp only [UInt16.toNat_or, UInt16.toNat_shiftLeft, UInt64.toNat_toUInt16, UInt8.toNat_toUInt64, beVal]
  have e : (8 : UInt16).toNat % 16 = 8 := rfl
  rw [e, Nat.shiftLeft_eq]
  have e1 : a.toNat % 2 ^ 16 * 2 ^ 8 % 2 ^ 16 = a.toNat * 256 := by omega
  have e2 : b.toNat % 2 ^ 16 = b.toNat := by omega
  rw [e1, e2, or_eq_add _ _ 8 (by omega) (by omega)]
  simp

theorem be32 (a b c d : UInt8) :
    ((((a).toUInt64.toUInt32 <<< (24 : UInt32)) ||| ((b).toUInt64.toUInt32 <<< (16 : UInt32))) |||
      ((c).toUInt64.toUInt32 <<< (8 : UInt32)) ||| ((d).toUInt64.toUInt32)).toNat =
      beVal [a.toNat, b.toNat, c.toNat, d.toNat] := by
  have ha := a.toNat_lt; have hb := b.toNat_lt; have hc := c.toNat_lt; have hd := d.toNat_lt
  simp only [UInt32.toNat_or, UInt32.toNat_shiftLeft, UInt64.toNat_toUInt32, UInt8.toNat_toUInt64, beVal]
  have e24 : (24 : UInt32).toNat % 32 = 24 := rfl
  have e16 : (16 : UInt32).toNat % 32 = 16 := rfl
  have e8 : (8 : UInt32).toNat % 32 = 8 := rfl
  rw [e24, e16, e8]
  simp only [Nat.shiftLeft_eq, Nat.reducePow] at ha hb hc hd ⊢
  have ma : a.toNat % 4294967296 = a.toNat := Nat.mod_eq_of_lt (by omega)
  have mb : b.toNat % 4294967296 = b.toNat := Nat.mod_eq_of_lt (by omega)
  have mc : c.toNat % 4294967296 = c.toNat := Nat.mod_eq_of_lt (by omega)
  have ed : d.toNat % 4294967296 = d.toNat := Nat.mod_eq_of_lt (by omega)
  have ea : a.toNat % 4294967296 * 16777216 % 4294967296 = a.toNat * 16777216 := by
    rw [ma]; exact Nat.mod_eq_of_lt (by omega)
  have eb : b.toNat % 4294967296 * 65536 % 4294967296 = b.toNat * 65536 := by
    rw [mb]; exact Nat.mod_eq_of_lt (by omega)
  have ec : c.toNat % 4294967296 * 256 % 4294967296 = c.toNat * 256 := by
    rw [mc]; exact Nat.mod_eq_of_lt (by omega)
  rw [ea, eb, ec, ed, or_eq_add (a.toNat * 16777216) (b.toNat * 65536) 24 (by omega) (by omega),
    or_eq_add (a.toNat * 16777216 + b.toNat * 65536) (c.toNat * 256) 16 (by omega) (by omega),
    or_eq_add (a.toNat * 16777216 + b.toNat * 65536 + c.toNat * 256) d.toNat 8 (by omega) (by omega)]
  simp
  omega

end ScionTime.LeafBytes
