/-
  Byte-level lemmas for the ties of the wire codecs (leaf translator, seventh generation): what
  Go's `byte(x >> 8k)` and `uintN(b0)<<… | … | uintN(bk)` are over the naturals. Core Lean only.
-/
import ScionTime.Model.WireFields
import ScionTime.Proofs.GoPrelude
import ScionTime.Model.GoPrelude2
import ScionTime.Proofs.WireFields
namespace ScionTime.LeafBytes
open ScionTime ScionTime.Wire ScionTime.GoLemmas

theorem forall_int8 (P : Int8 → Prop) (h : ∀ n : Fin 256, P (UInt8.ofNat n.val).toInt8) : ∀ x, P x := by
  intro x
  have := h ⟨x.toUInt8.toNat, x.toUInt8.toNat_lt⟩
  simpa using this

/-- `A | B = A + B` when `B` fits below the lowest set bit of `A` -/
theorem or_eq_add (A B i : Nat) (hB : B < 2 ^ i) (hA : 2 ^ i ∣ A) : A ||| B = A + B := by
  obtain ⟨k, rfl⟩ := hA
  rw [Nat.mul_comm, ← Nat.shiftLeft_eq]
  exact (Nat.shiftLeft_add_eq_or_of_lt hB k).symm

/-! ### encoders: `byte(x >> 8k)` -/

theorem u16_b1 (x : UInt16) : (((x >>> (8 : UInt16))).toUInt64.toUInt8).toNat = x.toNat / 256 ^ 1 % 256 := by
  simp [Nat.shiftRight_eq_div_pow]
theorem u16_b0 (x : UInt16) : ((x).toUInt64.toUInt8).toNat = x.toNat / 256 ^ 0 % 256 := by simp
theorem u32_b3 (x : UInt32) : (((x >>> (24 : UInt32))).toUInt64.toUInt8).toNat = x.toNat / 256 ^ 3 % 256 := by
  simp [Nat.shiftRight_eq_div_pow]
theorem u32_b2 (x : UInt32) : (((x >>> (16 : UInt32))).toUInt64.toUInt8).toNat = x.toNat / 256 ^ 2 % 256 := by
  simp [Nat.shiftRight_eq_div_pow]
theorem u32_b1 (x : UInt32) : (((x >>> (8 : UInt32))).toUInt64.toUInt8).toNat = x.toNat / 256 ^ 1 % 256 := by
  simp [Nat.shiftRight_eq_div_pow]
theorem u32_b0 (x : UInt32) : ((x).toUInt64.toUInt8).toNat = x.toNat / 256 ^ 0 % 256 := by simp
theorem u64_b (x : UInt64) (k : Nat) (hk : k < 8) :
    (((x >>> (UInt64.ofNat (8 * k)))).toUInt8).toNat = x.toNat / 256 ^ k % 256 := by
  have : k = 0 ∨ k = 1 ∨ k = 2 ∨ k = 3 ∨ k = 4 ∨ k = 5 ∨ k = 6 ∨ k = 7 := by omega
  rcases this with rfl | rfl | rfl | rfl | rfl | rfl | rfl | rfl <;> simp [Nat.shiftRight_eq_div_pow]
theorem i8_b (x : Int8) : ((x).toInt64.toUInt64.toUInt8).toNat = toU 8 x.toInt :=
  forall_int8 (fun x => ((x).toInt64.toUInt64.toUInt8).toNat = toU 8 x.toInt) (by decide +kernel) x
theorem u8_i8 (x : UInt8) : ((x).toUInt64.toInt64.toInt8).toInt = ofU 8 x.toNat := by
  revert x
  exact fun x => by
    have h : ∀ n : Fin 256, ((UInt8.ofNat n.val).toUInt64.toInt64.toInt8).toInt = ofU 8 (UInt8.ofNat n.val).toNat := by
      decide +kernel
    have := h ⟨x.toNat, x.toNat_lt⟩
    simpa using this

/-! ### decoders: `uintN(b0)<<8(n-1) | … | uintN(b(n-1))` -/

theorem be16 (a b : UInt8) :
    (((a).toUInt64.toUInt16 <<< (8 : UInt16)) ||| ((b).toUInt64.toUInt16)).toNat = beVal [a.toNat, b.toNat] := by
  have ha := a.toNat_lt; have hb := b.toNat_lt
  simp only [UInt16.toNat_or, UInt16.toNat_shiftLeft, UInt64.toNat_toUInt16, UInt8.toNat_toUInt64, beVal]
  have e : (8 : UInt16).toNat % 16 = 8 := rfl
  rw [e, Nat.shiftLeft_eq]
  have e1 : a.toNat % 2 ^ 16 * 2 ^ 8 % 2 ^ 16 = a.toNat * 256 := by omega
  have e2 : b.toNat % 2 ^ 16 = b.toNat := by omega
  rw [e1, e2, or_eq_add _ _ 8 (by omega) (by omega)]
  simp

theorem be32 (a b c d : UInt8) :
    ((((a).toUInt64.toUInt32 <<< (24 : UInt32)) ||| ((b).toUInt64.toUInt32 <<< (16 : UInt32))) |||
      ((c).toUInt64.toUInt32 <<< (8 : UInt32)) ||| ((d).toUInt64.toUInt32)).toNat =
      beVal [a.toNat, b.toNat, c.toNat, d.toNat] := by
  have ha := a.toNat_lt; have hb := b.toNat_lt; have hc := c.toNat_lt; have hd := d.toNat_lt
  simp only [UInt32.toNat_or, UInt32.toNat_shiftLeft, UInt64.toNat_toUInt32, UInt8.toNat_toUInt64, beVal]
  have e24 : (24 : UInt32).toNat % 32 = 24 := rfl
  have e16 : (16 : UInt32).toNat % 32 = 16 := rfl
  have e8 : (8 : UInt32).toNat % 32 = 8 := rfl
  rw [e24, e16, e8]
  simp only [Nat.shiftLeft_eq, Nat.reducePow] at ha hb hc hd ⊢
  have ma : a.toNat % 4294967296 = a.toNat := Nat.mod_eq_of_lt (by omega)
  have mb : b.toNat % 4294967296 = b.toNat := Nat.mod_eq_of_lt (by omega)
  have mc : c.toNat % 4294967296 = c.toNat := Nat.mod_eq_of_lt (by omega)
  have ed : d.toNat % 4294967296 = d.toNat := Nat.mod_eq_of_lt (by omega)
  have ea : a.toNat % 4294967296 * 16777216 % 4294967296 = a.toNat * 16777216 := by
    rw [ma]; exact Nat.mod_eq_of_lt (by omega)
  have eb : b.toNat % 4294967296 * 65536 % 4294967296 = b.toNat * 65536 := by
    rw [mb]; exact Nat.mod_eq_of_lt (by omega)
  have ec : c.toNat % 4294967296 * 256 % 4294967296 = c.toNat * 256 := by
    rw [mc]; exact Nat.mod_eq_of_lt (by omega)
  rw [ea, eb, ec, ed, or_eq_add (a.toNat * 16777216) (b.toNat * 65536) 24 (by omega) (by omega),
    or_eq_add (a.toNat * 16777216 + b.toNat * 65536) (c.toNat * 256) 16 (by omega) (by omega),
    or_eq_add (a.toNat * 16777216 + b.toNat * 65536 + c.toNat * 256) d.toNat 8 (by omega) (by omega)]
  simp
  omega

theorem be48 (a b c d e f : UInt8) :
    (((((((a).toUInt64 <<< (40 : UInt64)) ||| ((b).toUInt64 <<< (32 : UInt64))) ||| ((c).toUInt64 <<< (24 : UInt64))) ||| ((d).toUInt64 <<< (16 : UInt64))) ||| ((e).toUInt64 <<< (8 : UInt64))) ||| ((f).toUInt64)).toNat =
      beVal [a.toNat, b.toNat, c.toNat, d.toNat, e.toNat, f.toNat] := by
  have ha := a.toNat_lt; have hb := b.toNat_lt; have hc := c.toNat_lt; have hd := d.toNat_lt; have he := e.toNat_lt; have hf := f.toNat_lt
  simp only [UInt64.toNat_or, UInt64.toNat_shiftLeft, UInt8.toNat_toUInt64, beVal]
  have e40 : (40 : UInt64).toNat % 64 = 40 := rfl
  have e32 : (32 : UInt64).toNat % 64 = 32 := rfl
  have e24 : (24 : UInt64).toNat % 64 = 24 := rfl
  have e16 : (16 : UInt64).toNat % 64 = 16 := rfl
  have e8 : (8 : UInt64).toNat % 64 = 8 := rfl
  rw [e40, e32, e24, e16, e8]
  simp only [Nat.shiftLeft_eq, Nat.reducePow] at ha hb hc hd he hf ⊢
  have ma : a.toNat * 1099511627776 % 18446744073709551616 = a.toNat * 1099511627776 := Nat.mod_eq_of_lt (by omega)
  have mb : b.toNat * 4294967296 % 18446744073709551616 = b.toNat * 4294967296 := Nat.mod_eq_of_lt (by omega)
  have mc : c.toNat * 16777216 % 18446744073709551616 = c.toNat * 16777216 := Nat.mod_eq_of_lt (by omega)
  have md : d.toNat * 65536 % 18446744073709551616 = d.toNat * 65536 := Nat.mod_eq_of_lt (by omega)
  have me : e.toNat * 256 % 18446744073709551616 = e.toNat * 256 := Nat.mod_eq_of_lt (by omega)
  rw [ma, mb, mc, md, me]
  rw [or_eq_add (a.toNat * 1099511627776) (b.toNat * 4294967296) 40 (by omega) (by omega),
    or_eq_add (a.toNat * 1099511627776 + b.toNat * 4294967296) (c.toNat * 16777216) 32 (by omega) (by omega),
    or_eq_add (a.toNat * 1099511627776 + b.toNat * 4294967296 + c.toNat * 16777216) (d.toNat * 65536) 24 (by omega) (by omega),
    or_eq_add (a.toNat * 1099511627776 + b.toNat * 4294967296 + c.toNat * 16777216 + d.toNat * 65536) (e.toNat * 256) 16 (by omega) (by omega),
    or_eq_add (a.toNat * 1099511627776 + b.toNat * 4294967296 + c.toNat * 16777216 + d.toNat * 65536 + e.toNat * 256) (f.toNat) 8 (by omega) (by omega)]
  simp
  omega

theorem be64 (a b c d e f g h : UInt8) :
    (((((((((a).toUInt64 <<< (56 : UInt64)) ||| ((b).toUInt64 <<< (48 : UInt64))) ||| ((c).toUInt64 <<< (40 : UInt64))) ||| ((d).toUInt64 <<< (32 : UInt64))) ||| ((e).toUInt64 <<< (24 : UInt64))) ||| ((f).toUInt64 <<< (16 : UInt64))) ||| ((g).toUInt64 <<< (8 : UInt64))) ||| ((h).toUInt64)).toNat =
      beVal [a.toNat, b.toNat, c.toNat, d.toNat, e.toNat, f.toNat, g.toNat, h.toNat] := by
  have ha := a.toNat_lt; have hb := b.toNat_lt; have hc := c.toNat_lt; have hd := d.toNat_lt; have he := e.toNat_lt; have hf := f.toNat_lt; have hg := g.toNat_lt; have hh := h.toNat_lt
  simp only [UInt64.toNat_or, UInt64.toNat_shiftLeft, UInt8.toNat_toUInt64, beVal]
  have e56 : (56 : UInt64).toNat % 64 = 56 := rfl
  have e48 : (48 : UInt64).toNat % 64 = 48 := rfl
  have e40 : (40 : UInt64).toNat % 64 = 40 := rfl
  have e32 : (32 : UInt64).toNat % 64 = 32 := rfl
  have e24 : (24 : UInt64).toNat % 64 = 24 := rfl
  have e16 : (16 : UInt64).toNat % 64 = 16 := rfl
  have e8 : (8 : UInt64).toNat % 64 = 8 := rfl
  rw [e56, e48, e40, e32, e24, e16, e8]
  simp only [Nat.shiftLeft_eq, Nat.reducePow] at ha hb hc hd he hf hg hh ⊢
  have ma : a.toNat * 72057594037927936 % 18446744073709551616 = a.toNat * 72057594037927936 := Nat.mod_eq_of_lt (by omega)
  have mb : b.toNat * 281474976710656 % 18446744073709551616 = b.toNat * 281474976710656 := Nat.mod_eq_of_lt (by omega)
  have mc : c.toNat * 1099511627776 % 18446744073709551616 = c.toNat * 1099511627776 := Nat.mod_eq_of_lt (by omega)
  have md : d.toNat * 4294967296 % 18446744073709551616 = d.toNat * 4294967296 := Nat.mod_eq_of_lt (by omega)
  have me : e.toNat * 16777216 % 18446744073709551616 = e.toNat * 16777216 := Nat.mod_eq_of_lt (by omega)
  have mf : f.toNat * 65536 % 18446744073709551616 = f.toNat * 65536 := Nat.mod_eq_of_lt (by omega)
  have mg : g.toNat * 256 % 18446744073709551616 = g.toNat * 256 := Nat.mod_eq_of_lt (by omega)
  rw [ma, mb, mc, md, me, mf, mg]
  rw [or_eq_add (a.toNat * 72057594037927936) (b.toNat * 281474976710656) 56 (by omega) (by omega),
    or_eq_add (a.toNat * 72057594037927936 + b.toNat * 281474976710656) (c.toNat * 1099511627776) 48 (by omega) (by omega),
    or_eq_add (a.toNat * 72057594037927936 + b.toNat * 281474976710656 + c.toNat * 1099511627776) (d.toNat * 4294967296) 40 (by omega) (by omega),
    or_eq_add (a.toNat * 72057594037927936 + b.toNat * 281474976710656 + c.toNat * 1099511627776 + d.toNat * 4294967296) (e.toNat * 16777216) 32 (by omega) (by omega),
    or_eq_add (a.toNat * 72057594037927936 + b.toNat * 281474976710656 + c.toNat * 1099511627776 + d.toNat * 4294967296 + e.toNat * 16777216) (f.toNat * 65536) 24 (by omega) (by omega),
    or_eq_add (a.toNat * 72057594037927936 + b.toNat * 281474976710656 + c.toNat * 1099511627776 + d.toNat * 4294967296 + e.toNat * 16777216 + f.toNat * 65536) (g.toNat * 256) 16 (by omega) (by omega),
    or_eq_add (a.toNat * 72057594037927936 + b.toNat * 281474976710656 + c.toNat * 1099511627776 + d.toNat * 4294967296 + e.toNat * 16777216 + f.toNat * 65536 + g.toNat * 256) (h.toNat) 8 (by omega) (by omega)]
  simp
  omega

/-! ### `byte(x >> 8k)` on uint64 with literal shift counts -/

theorem u64_b7 (x : UInt64) : ((x >>> (56 : UInt64)).toUInt8).toNat = x.toNat / 256 ^ 7 % 256 := by simp [Nat.shiftRight_eq_div_pow]
theorem u64_b6 (x : UInt64) : ((x >>> (48 : UInt64)).toUInt8).toNat = x.toNat / 256 ^ 6 % 256 := by simp [Nat.shiftRight_eq_div_pow]
theorem u64_b5 (x : UInt64) : ((x >>> (40 : UInt64)).toUInt8).toNat = x.toNat / 256 ^ 5 % 256 := by simp [Nat.shiftRight_eq_div_pow]
theorem u64_b4 (x : UInt64) : ((x >>> (32 : UInt64)).toUInt8).toNat = x.toNat / 256 ^ 4 % 256 := by simp [Nat.shiftRight_eq_div_pow]
theorem u64_b3 (x : UInt64) : ((x >>> (24 : UInt64)).toUInt8).toNat = x.toNat / 256 ^ 3 % 256 := by simp [Nat.shiftRight_eq_div_pow]
theorem u64_b2 (x : UInt64) : ((x >>> (16 : UInt64)).toUInt8).toNat = x.toNat / 256 ^ 2 % 256 := by simp [Nat.shiftRight_eq_div_pow]
theorem u64_b1 (x : UInt64) : ((x >>> (8 : UInt64)).toUInt8).toNat = x.toNat / 256 ^ 1 % 256 := by simp [Nat.shiftRight_eq_div_pow]
theorem u64_b0 (x : UInt64) : ((x).toUInt8).toNat = x.toNat / 256 ^ 0 % 256 := by simp

/-! ### int16 -/

theorem i16_b0 (x : Int16) : ((x).toInt64.toUInt64.toUInt8).toNat = toU 16 x.toInt / 256 ^ 0 % 256 := by
  have h := toNat_toUInt64 x.toInt64
  have hx : x.toInt64.toInt = x.toInt := by simp
  have hl := Int16.le_toInt x
  have hu := Int16.toInt_lt x
  have : (x.toInt64.toUInt64.toUInt8).toNat = x.toInt64.toUInt64.toNat % 256 := by simp
  rw [this]
  unfold toU
  simp only [Nat.reducePow] at *
  omega
theorem i16_b1 (x : Int16) : (((x >>> (8 : Int16))).toInt64.toUInt64.toUInt8).toNat = toU 16 x.toInt / 256 ^ 1 % 256 := by
  have hs : (x >>> (8 : Int16)).toInt = x.toInt / 256 := by
    rw [← Int16.toInt_toBitVec, Int16.toBitVec_shiftRight, BitVec.toInt_sshiftRight']
    have : ((8 : Int16).toBitVec.smod 16).toNat = 8 := by decide
    rw [this, Int16.toInt_toBitVec, Int.shiftRight_eq_div_pow]
    rfl
  have h := toNat_toUInt64 (x >>> (8 : Int16)).toInt64
  have hx : (x >>> (8 : Int16)).toInt64.toInt = (x >>> (8 : Int16)).toInt := by simp
  have hl := Int16.le_toInt x
  have hu := Int16.toInt_lt x
  have : ((x >>> (8 : Int16)).toInt64.toUInt64.toUInt8).toNat = (x >>> (8 : Int16)).toInt64.toUInt64.toNat % 256 := by simp
  rw [this]
  unfold toU
  simp only [Nat.reducePow] at *
  omega

theorem widen16 (u : UInt16) : (u.toUInt64.toInt64).toInt = u.toNat := by
  have h2 : (u.toUInt64.toInt64).toInt = (u.toUInt64.toInt64).toBitVec.toInt := rfl
  have h3 : (u.toUInt64.toInt64).toBitVec.toNat = u.toNat := by simp
  rw [h2, BitVec.toInt_eq_toNat_cond, h3]
  have := u.toNat_lt
  split <;> omega
theorem u16_i16 (u : UInt16) : (u.toUInt64.toInt64.toInt16).toInt = ofU 16 u.toNat := by
  have := u.toNat_lt
  rw [Int64.toInt_toInt16, widen16]
  unfold ofU
  simp only [Nat.reducePow, Nat.reduceSub] at *
  split
  · apply Int.bmod_eq_of_le <;> omega
  · rename_i h
    have : ((u.toNat : Int)).bmod 65536 = ((u.toNat : Int) - 65536).bmod 65536 := by
      have := Int.sub_bmod_right (u.toNat : Int) 65536
      simpa using this.symm
    rw [this, Int.bmod_eq_of_le (by omega) (by omega)]
    omega

/-! ### decoders without destructuring the input: fields read at absolute positions -/

/-- the fields of a layout read at absolute positions -/
def fieldsAt : List Nat → List Nat → Nat → List Nat
  | [], _, _ => []
  | w :: ws, l, k => beVal ((List.range w).map (fun i => l.getD (k + i) 0)) :: fieldsAt ws l (k + w)

theorem take_drop_range (l : List Nat) (k w : Nat) (h : k + w ≤ l.length) :
    (l.drop k).take w = (List.range w).map (fun i => l.getD (k + i) 0) := by
  apply List.ext_getElem
  · simp; omega
  · intro i h1 h2
    simp only [List.getElem_take, List.getElem_drop, List.getElem_map, List.getElem_range]
    simp only [List.length_take, List.length_drop] at h1
    simp only [List.getD_eq_getElem?_getD, List.getElem?_eq_getElem (show k + i < l.length by omega), Option.getD_some]

theorem fieldsOf_at : ∀ (ws : List Nat) (l : List Nat) (k : Nat), k + layoutLen ws ≤ l.length →
    fieldsOf ws (l.drop k) = fieldsAt ws l k
  | [], _, _, _ => rfl
  | w :: ws, l, k, h => by
    simp only [layoutLen] at h
    simp only [fieldsOf, fieldsAt, List.drop_drop]
    rw [take_drop_range l k w (by omega), fieldsOf_at ws l (k + w) (by omega)]

theorem getK_getD (b : List UInt8) (k : Nat) (h : k < b.length) : Go.getK? b k = some (b.getD k 0) := by
  unfold Go.getK?
  simp only [List.getD_eq_getElem?_getD, List.getElem?_eq_getElem h, Option.getD_some]

theorem getD_bytes (b : List UInt8) (k : Nat) : (b.map UInt8.toNat).getD k 0 = (b.getD k 0).toNat := by
  simp only [List.getD_eq_getElem?_getD, List.getElem?_map]
  cases b[k]? <;> rfl

theorem fieldsOf_at0 (ws : List Nat) (l : List Nat) (h : layoutLen ws ≤ l.length) : fieldsOf ws l = fieldsAt ws l 0 := by
  have := fieldsOf_at ws l 0 (by omega)
  simpa using this

theorem range1 : List.range 1 = [0] := rfl
theorem range2 : List.range 2 = [0, 1] := rfl
theorem range3 : List.range 3 = [0, 1, 2] := rfl
theorem range4 : List.range 4 = [0, 1, 2, 3] := rfl
theorem range6 : List.range 6 = [0, 1, 2, 3, 4, 5] := rfl
theorem range8 : List.range 8 = [0, 1, 2, 3, 4, 5, 6, 7] := rfl

end ScionTime.LeafBytes
