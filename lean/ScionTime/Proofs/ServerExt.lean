/-
  The order of the association list `State.items` is not observable: two states with the
  same heap array whose maps have distinct keys and agree on every lookup (and on the
  number of entries) are taken by every operation of the model to states related in the
  same way, with equal outputs. (Used for the closed form of the fill, Props/C07Fill.)
-/
import ScionTime.Proofs.ServerHeap
namespace ScionTime.Server
open ScionTime.Time64

structure MExt (m m' : Map) : Prop where
  find : ∀ k, m.find k = m'.find k
  len : m.length = m'.length
  nd : (Map.keys m).Nodup
  nd' : (Map.keys m').Nodup

structure SExt (st st' : State) : Prop where
  heap : st.heap = st'.heap
  items : MExt st.items st'.items

theorem MExt.refl (m : Map) (h : (Map.keys m).Nodup) : MExt m m := ⟨fun _ => rfl, rfl, h, h⟩
theorem SExt.refl (st : State) (h : (Map.keys st.items).Nodup) : SExt st st := ⟨rfl, MExt.refl _ h⟩

theorem MExt.modify {m m' : Map} (h : MExt m m') (k : Nat) (f : Item → Item) :
    MExt (m.modify k f) (m'.modify k f) where
  find k' := by rw [Map.find_modify, Map.find_modify, h.find]
  len := by rw [Map.length_modify, Map.length_modify, h.len]
  nd := by rw [Map.keys_modify]; exact h.nd
  nd' := by rw [Map.keys_modify]; exact h.nd'

theorem Map.erase_of_find_none (m : Map) (k : Nat) (h : m.find k = none) : m.erase k = m := by
  induction m with
  | nil => rfl
  | cons p m ih =>
    obtain ⟨k0, it⟩ := p
    rw [Map.find_cons] at h
    by_cases h0 : k0 = k
    · simp [h0] at h
    · simp only [h0, if_false] at h
      unfold Map.erase
      simp only [h0, if_false]
      rw [ih h]

theorem MExt.erase {m m' : Map} (h : MExt m m') (k : Nat) : MExt (m.erase k) (m'.erase k) where
  find k' := by rw [Map.find_erase m h.nd, Map.find_erase m' h.nd', h.find]
  len := by
    cases hf : m.find k with
    | none =>
      rw [Map.erase_of_find_none m k hf, Map.erase_of_find_none m' k (by rw [← h.find]; exact hf)]
      exact h.len
    | some it =>
      have h1 := Map.length_erase m k it hf
      have h2 := Map.length_erase m' k it (by rw [← h.find]; exact hf)
      have := h.len
      omega
  nd := Map.nodup_erase m h.nd k
  nd' := Map.nodup_erase m' h.nd' k

theorem MExt.cons {m m' : Map} (h : MExt m m') (k : Nat) (it : Item) (hf : m.find k = none) :
    MExt ((k, it) :: m) ((k, it) :: m') where
  find k' := by rw [Map.find_cons, Map.find_cons, h.find]
  len := by simp [h.len]
  nd := by
    have := (Map.find_none_iff m k).1 hf
    unfold Map.keys at *; simp only [List.map_cons, List.nodup_cons]; exact ⟨this, h.nd⟩
  nd' := by
    have := (Map.find_none_iff m' k).1 (by rw [← h.find]; exact hf)
    unfold Map.keys at *; simp only [List.map_cons, List.nodup_cons]; exact ⟨this, h.nd'⟩

theorem qv_ext {m m' : Map} (h : MExt m m') (k : Nat) : qv m k = qv m' k := by
  unfold qv; rw [h.find]

theorem hkey_ext {st st' : State} (h : SExt st st') (i : Nat) : hkey st i = hkey st' i := by
  unfold hkey; rw [h.heap]

theorem kv_ext {st st' : State} (h : SExt st st') (i : Nat) : kv st i = kv st' i := by
  unfold kv; rw [hkey_ext h, qv_ext h.items]

theorem less_ext {st st' : State} (h : SExt st st') (i j : Nat) : less st i j = less st' i j := by
  unfold less; rw [kv_ext h, kv_ext h]

theorem swap_ext {st st' : State} (h : SExt st st') (i j : Nat) : SExt (swap st i j) (swap st' i j) := by
  unfold swap
  simp only [hkey_ext h]
  exact ⟨by simp only [h.heap], by unfold setQidx; exact (h.items.modify _ _).modify _ _⟩

theorem up_ext (f : Nat) : ∀ {st st' : State} (_ : SExt st st') (j : Nat), SExt (up st j f) (up st' j f) := by
  induction f with
  | zero => intro st st' h j; exact h
  | succ f ih =>
    intro st st' h j
    unfold up
    simp only [less_ext h]
    split
    · exact h
    · exact ih (swap_ext h _ _) _

theorem child_ext {st st' : State} (h : SExt st st') (i n : Nat) : child st i n = child st' i n := by
  unfold child; rw [less_ext h]

theorem down_ext (f : Nat) : ∀ {st st' : State} (_ : SExt st st') (i n : Nat),
    SExt (down st i n f).1 (down st' i n f).1 ∧ (down st i n f).2 = (down st' i n f).2 := by
  induction f with
  | zero => intro st st' h i n; exact ⟨h, rfl⟩
  | succ f ih =>
    intro st st' h i n
    unfold down
    simp only [child_ext h, less_ext h]
    split
    · exact ⟨h, rfl⟩
    · split
      · exact ⟨h, rfl⟩
      · exact ih (swap_ext h _ _) _ _

theorem fix_ext {st st' : State} (h : SExt st st') (i : Nat) : SExt (fix st i) (fix st' i) := by
  unfold fix
  simp only [h.heap]
  have hd := down_ext st'.heap.size h i st'.heap.size
  rw [hd.2]
  split
  · exact hd.1
  · exact up_ext _ hd.1 _

theorem fixQval_ext {st st' : State} (h : SExt st st') (id : Nat) (v : T64) (q : Nat) :
    SExt (fixQval st id v q) (fixQval st' id v q) := by
  unfold fixQval
  apply fix_ext
  exact ⟨h.heap, by unfold setQval; exact h.items.modify _ _⟩

theorem push_ext {st st' : State} (h : SExt st st') (k : Nat) : SExt (push st k) (push st' k) := by
  unfold push
  simp only [h.heap]
  apply up_ext
  exact ⟨rfl, by unfold setQidx; exact h.items.modify _ _⟩

theorem popMin_ext {st st' : State} (h : SExt st st') :
    SExt (popMin st).1 (popMin st').1 ∧ (popMin st).2 = (popMin st').2 := by
  unfold popMin
  simp only [h.heap]
  have hd := down_ext (st'.heap.size - 1) (swap_ext h 0 (st'.heap.size - 1)) 0 (st'.heap.size - 1)
  simp only [hkey_ext hd.1]
  exact ⟨⟨by simp only [hd.1.heap], hd.1.items.erase _⟩, trivial⟩

theorem remove_ext {st st' : State} (h : SExt st st') (i key : Nat) :
    SExt (remove st i key) (remove st' i key) := by
  unfold remove
  simp only [h.heap]
  have hs := swap_ext h i (st'.heap.size - 1)
  have hd := down_ext (st'.heap.size - 1) hs i (st'.heap.size - 1)
  have hin : SExt
      (if st'.heap.size - 1 ≠ i then
        if (down (swap st i (st'.heap.size - 1)) i (st'.heap.size - 1) (st'.heap.size - 1)).2 > i then
          (down (swap st i (st'.heap.size - 1)) i (st'.heap.size - 1) (st'.heap.size - 1)).1
        else up (down (swap st i (st'.heap.size - 1)) i (st'.heap.size - 1) (st'.heap.size - 1)).1 i (i + 1)
      else st)
      (if st'.heap.size - 1 ≠ i then
        if (down (swap st' i (st'.heap.size - 1)) i (st'.heap.size - 1) (st'.heap.size - 1)).2 > i then
          (down (swap st' i (st'.heap.size - 1)) i (st'.heap.size - 1) (st'.heap.size - 1)).1
        else up (down (swap st' i (st'.heap.size - 1)) i (st'.heap.size - 1) (st'.heap.size - 1)).1 i (i + 1)
      else st') := by
    split
    · rw [hd.2]
      split
      · exact hd.1
      · exact up_ext _ hd.1 _
    · exact h
  exact ⟨by simp only [hin.heap], hin.items.erase _⟩

theorem hrFix_ext {st st' : State} (h : SExt st st') (id q : Nat) (mx : Option (Nat × T64)) (v : T64) :
    SExt (hrFix st id q mx v) (hrFix st' id q mx v) := by
  unfold hrFix
  split
  · split
    · exact fixQval_ext h _ _ _
    · exact h
  · exact h

theorem evict_ext {st st' : State} (h : SExt st st') (cap : Nat) (v : T64) :
    SExt (evict cap st v).1 (evict cap st' v).1 ∧ (evict cap st v).2 = (evict cap st' v).2 := by
  unfold evict
  simp only [h.items.len, kv_ext h]
  have hp := popMin_ext h
  split
  · exact ⟨hp.1, by simp only [hp.2]⟩
  · exact ⟨h, rfl⟩

/-- keys only disappear through `evict` -/
theorem find_none_swap (st : State) (i j k : Nat) (h : st.items.find k = none) :
    (swap st i j).items.find k = none := by
  rw [Map.find_none_iff] at *; rw [keys_swap]; exact h

theorem find_none_down (f : Nat) : ∀ (st : State) (i n k : Nat), st.items.find k = none →
    (down st i n f).1.items.find k = none := by
  induction f with
  | zero => intro st i n k h; exact h
  | succ f ih =>
    intro st i n k h
    unfold down
    split
    · exact h
    · split
      · exact h
      · exact ih _ _ _ _ (find_none_swap _ _ _ _ h)

theorem find_none_evict (cap : Nat) (st : State) (v : T64) (k : Nat) (h : st.items.find k = none) :
    (evict cap st v).1.items.find k = none := by
  unfold evict
  split
  · unfold popMin
    simp only
    rw [Map.find_none_iff]
    intro hm
    have hsub := (Map.keys_erase_sublist
      (down (swap st 0 (st.heap.size - 1)) 0 (st.heap.size - 1) (st.heap.size - 1)).1.items
      (hkey (down (swap st 0 (st.heap.size - 1)) 0 (st.heap.size - 1) (st.heap.size - 1)).1 (st.heap.size - 1))).subset hm
    have := find_none_down (st.heap.size - 1) (swap st 0 (st.heap.size - 1)) 0 (st.heap.size - 1) k
      (find_none_swap _ _ _ _ h)
    rw [Map.find_none_iff] at this
    exact this hsub
  · exact h

/-- `handleRequest` does not observe the order of the association list: the states after -/
theorem handleRequestG_ext_st (strict : Bool) (cap icap : Nat) {st st' : State} (h : SExt st st')
    (id : Nat) (req : Req) (rxt now : Int) :
    SExt (handleRequestG strict cap icap st id req rxt now).st (handleRequestG strict cap icap st' id req rxt now).st := by
  unfold handleRequestG
  have hf := h.items.find id
  cases hc : st.items.find id with
  | some it =>
    rw [hc] at hf
    rw [← hf]
    simp only
    have h1 := hrFix_ext h id it.qidx (scan it.buf req.org).mx
      (ofTime (uniq it.buf rxt (if (strict && !decide (rxt < now)) = true then rxt + 1 else now) (it.buf.length + 1)).1)
    exact ⟨h1.heap, by unfold setBuf; exact h1.items.modify _ _⟩
  | none =>
    rw [hc] at hf
    rw [← hf]
    simp only
    have he := evict_ext h cap (ofTime rxt)
    have hn := find_none_evict cap st (ofTime rxt) id hc
    rw [he.1.items.len]
    split
    · exact he.1
    · have hp := push_ext (st := { (evict cap st (ofTime rxt)).1 with
                    items := (id, ({ buf := [], qval := ofTime rxt, qidx := 0 } : Item)) :: (evict cap st (ofTime rxt)).1.items })
                  (st' := { (evict cap st' (ofTime rxt)).1 with
                    items := (id, ({ buf := [], qval := ofTime rxt, qidx := 0 } : Item)) :: (evict cap st' (ofTime rxt)).1.items })
                  ⟨he.1.heap, he.1.items.cons id _ hn⟩ id
      exact ⟨hp.heap, by unfold setBuf; exact hp.items.modify _ _⟩

/-- … and everything it returns -/
theorem handleRequestG_ext_out (strict : Bool) (cap icap : Nat) {st st' : State} (h : SExt st st')
    (id : Nat) (req : Req) (rxt now : Int) :
    (handleRequestG strict cap icap st id req rxt now).reply = (handleRequestG strict cap icap st' id req rxt now).reply ∧
    (handleRequestG strict cap icap st id req rxt now).rxt = (handleRequestG strict cap icap st' id req rxt now).rxt ∧
    (handleRequestG strict cap icap st id req rxt now).txt = (handleRequestG strict cap icap st' id req rxt now).txt ∧
    (handleRequestG strict cap icap st id req rxt now).evicted = (handleRequestG strict cap icap st' id req rxt now).evicted := by
  unfold handleRequestG
  have hf := h.items.find id
  cases hc : st.items.find id with
  | some it =>
    rw [hc] at hf
    rw [← hf]
    exact ⟨rfl, rfl, rfl, rfl⟩
  | none =>
    rw [hc] at hf
    rw [← hf]
    have he := evict_ext h cap (ofTime rxt)
    simp only [he.1.items.len, he.2]
    split <;> simp

theorem utxFix_ext {st st' : State} (h : SExt st st') (id q : Nat) (m0 m1 : Option (Nat × T64)) (v : T64) :
    SExt (utxFix st id q m0 m1 v) (utxFix st' id q m0 m1 v) := by
  unfold utxFix
  split
  · split
    · exact fixQval_ext h _ _ _
    · exact h
  · exact h

/-- `updateTXTimestamp` does not observe the order of the association list -/
theorem updateTX_ext {st st' : State} (h : SExt st st') (id : Nat) (rxt txt1 : Int) :
    SExt (updateTX st id rxt txt1).1 (updateTX st' id rxt txt1).1 ∧
    (updateTX st id rxt txt1).2 = (updateTX st' id rxt txt1).2 := by
  unfold updateTX
  have hf := h.items.find id
  cases hc : st.items.find id with
  | none => rw [hc] at hf; rw [← hf]; exact ⟨h, rfl⟩
  | some it =>
    rw [hc] at hf
    rw [← hf]
    simp only
    have h1 := utxFix_ext h id it.qidx
      (scan2 it.buf (ofTime rxt)).m0 (scan2 it.buf (ofTime rxt)).m1 (ofTime rxt)
    repeat' split
    all_goals first
      | exact ⟨h, rfl⟩
      | exact ⟨⟨h.heap, by unfold setBuf; exact h.items.modify _ _⟩, rfl⟩
      | exact ⟨remove_ext h _ _, rfl⟩
      | exact ⟨⟨h1.heap, by unfold setBuf; exact h1.items.modify _ _⟩, rfl⟩

theorem stepOp_ext (cap icap : Nat) {st st' : State} (h : SExt st st') (op : Op) :
    SExt (stepOp cap icap st op) (stepOp cap icap st' op) := by
  cases op with
  | hr id req rxt now => exact handleRequestG_ext_st true cap icap h id req rxt now
  | utx id rxt txt1 => exact (updateTX_ext h id rxt txt1).1

theorem run_ext (cap icap : Nat) (ops : List Op) : ∀ {st st' : State}, SExt st st' →
    SExt (run cap icap st ops) (run cap icap st' ops) := by
  induction ops with
  | nil => intro st st' h; exact h
  | cons op ops ih => intro st st' h; exact ih (stepOp_ext cap icap h op)

end ScionTime.Server
