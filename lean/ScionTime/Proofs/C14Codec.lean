/-
  Helper lemmas for Props/C14.lean: the generic layout round trips (Proofs/WireFields.lean)
  instantiated for the NTP header and the CSPTP message and TLVs.
-/
import ScionTime.Proofs.WireFields
import ScionTime.Model.NtpPacket
import ScionTime.Model.CsptpCodec
namespace ScionTime.C14
open ScionTime.Wire

section Ntp
open ScionTime.NtpPacket

theorem ntp_toFields_ok (p : Packet) (h : p.Valid) : FieldsOk layout (toFields p) := by
  obtain ⟨h1, h2, h3, h4, h5, h6, h7, h8, h9, h10, h11, h12, h13, h14, h15, h16, h17⟩ := h
  have := toU_lt8 p.poll
  have := toU_lt8 p.precision
  simp only [layout, toFields, FieldsOk, Nat.reducePow, and_true]
  omega

theorem ntp_ofFields_toFields (p : Packet) (h : p.Valid) : ofFields (toFields p) = p := by
  obtain ⟨_, _, h3, h4, _⟩ := h
  simp only [toFields, ofFields, ofU_toU8 _ h3, ofU_toU8 _ h4]

theorem ntp_toFields_ofFields (vs : List Nat) (h : FieldsOk layout vs) :
    toFields (ofFields vs) = vs ∧ (ofFields vs).Valid := by
  unfold layout at h
  iterate 17 (rcases vs with _ | ⟨_, vs⟩; exact absurd h (by simp [FieldsOk]))
  rcases vs with _ | ⟨_, vs⟩
  · simp only [FieldsOk, Nat.reducePow, and_true] at h
    obtain ⟨h1, h2, h3, h4, h5, h6, h7, h8, h9, h10, h11, h12, h13, h14, h15, h16, h17⟩ := h
    constructor
    · simp only [ofFields, toFields, toU_ofU8 _ h3, toU_ofU8 _ h4]
    · simp only [ofFields, Packet.Valid]
      unfold ofU
      simp only [Nat.reducePow, Nat.reduceSub]
      refine ⟨h1, h2, ?_, ?_, h5, h6, h7, h8, h9, h10, h11, h12, h13, h14, h15, h16, h17⟩ <;>
        (split <;> omega)
  · simp [FieldsOk] at h

theorem ntp_encode_length (p : Packet) : (encodePacket p).length = 48 := by
  unfold encodePacket
  rw [encodeFields_length layout (toFields p) (by rfl)]
  rfl

theorem ntp_decode_encode (p : Packet) (rest : List Nat) (h : p.Valid) :
    decodePacket (encodePacket p ++ rest) = .ok p := by
  have hl := ntp_encode_length p
  have hlay : layoutLen layout = 48 := by decide
  unfold decodePacket
  rw [if_neg (by simp [hl, packetLen]), readFields_ok _ _ (by simp [hl, hlay])]
  unfold encodePacket
  simp only [fieldsOf_encodeFields layout (toFields p) rest (ntp_toFields_ok p h),
    ntp_ofFields_toFields p h]

theorem ntp_encode_decode (b : List Nat) (hlen : 48 ≤ b.length) (hb : AllBytes b) :
    ∃ p, decodePacket b = .ok p ∧ p.Valid ∧ encodePacket p = b.take 48 := by
  have hlay : layoutLen layout = 48 := by decide
  refine ⟨ofFields (fieldsOf layout b), ?_, ?_, ?_⟩
  · unfold decodePacket
    rw [if_neg (by simp [packetLen]; omega), readFields_ok _ _ (by omega)]
  · exact (ntp_toFields_ofFields _ (fieldsOf_ok layout b hb)).2
  · unfold encodePacket
    rw [(ntp_toFields_ofFields _ (fieldsOf_ok layout b hb)).1,
      encodeFields_fieldsOf layout b (by omega) hb, hlay]

theorem ntp_decode_total (b : List Nat) :
    (b.length < 48 ∧ decodePacket b = .err "size") ∨
    (48 ≤ b.length ∧ ∃ p, decodePacket b = .ok p) := by
  have hlay : layoutLen layout = 48 := by decide
  by_cases h : b.length < 48
  · left; refine ⟨h, ?_⟩; unfold decodePacket; rw [if_pos (by simpa [packetLen] using h)]
  · right; refine ⟨by omega, ofFields (fieldsOf layout b), ?_⟩
    unfold decodePacket
    rw [if_neg (by simpa [packetLen] using h), readFields_ok _ _ (by omega)]

theorem ntp_decode_lvm (x : Nat) (t : List Nat) (p : Packet)
    (h : decodePacket (x :: t) = .ok p) : p.lvm = x := by
  have hlay : layoutLen layout = 48 := by decide
  rcases ntp_decode_total (x :: t) with ⟨_, h'⟩ | ⟨hl, _⟩
  · rw [h'] at h; cases h
  · unfold decodePacket at h
    rw [if_neg (by simp [packetLen]; simp at hl; omega), readFields_ok _ _ (by omega)] at h
    simp only [Outcome.ok.injEq] at h
    subst h
    simp [layout, fieldsOf, ofFields, beVal]

end Ntp

section Csptp
open ScionTime.Csptp

/-! ### message header -/

theorem msg_toFields_ok (m : Message) (h : m.Valid) : FieldsOk msgLayout (msgToFields m) := by
  obtain ⟨h1, h2, h3, h4, h5, h6, h7, h8, h9, h10, h11, h12, h13, h14, h15⟩ := h
  have := toU_lt64 m.correctionField
  have := toU_lt8 m.logMessageInterval
  simp only [msgLayout, msgToFields, FieldsOk, Nat.reducePow, and_true]
  omega

theorem msg_ofFields_toFields (m : Message) (h : m.Valid) : msgOfFields (msgToFields m) = m := by
  obtain ⟨_, _, _, _, _, _, h7, _, _, _, _, _, h13, _⟩ := h
  simp only [msgToFields, msgOfFields, ofU_toU64 _ h7, ofU_toU8 _ h13]

theorem msg_toFields_ofFields (vs : List Nat) (h : FieldsOk msgLayout vs) :
    msgToFields (msgOfFields vs) = vs ∧ (msgOfFields vs).Valid := by
  unfold msgLayout at h
  iterate 15 (rcases vs with _ | ⟨_, vs⟩; exact absurd h (by simp [FieldsOk]))
  rcases vs with _ | ⟨_, vs⟩
  · simp only [FieldsOk, Nat.reducePow, and_true] at h
    obtain ⟨h1, h2, h3, h4, h5, h6, h7, h8, h9, h10, h11, h12, h13, h14, h15⟩ := h
    constructor
    · simp only [msgOfFields, msgToFields, toU_ofU64 _ h7, toU_ofU8 _ h13]
    · simp only [msgOfFields, Message.Valid]
      unfold ofU
      simp only [Nat.reducePow, Nat.reduceSub]
      refine ⟨h1, h2, h3, h4, h5, h6, ?_, h8, h9, h10, h11, h12, ?_, h14, h15⟩ <;>
        (split <;> omega)
  · simp [FieldsOk] at h

theorem msg_bytes_length (m : Message) : (messageBytes m).length = 44 := by
  unfold messageBytes
  rw [encodeFields_length msgLayout (msgToFields m) (by rfl)]
  rfl

theorem msg_decode_bytes (m : Message) (rest : List Nat) (h : m.Valid) :
    decodeMessage (messageBytes m ++ rest) = .ok m := by
  have hl := msg_bytes_length m
  have hlay : layoutLen msgLayout = 44 := by decide
  unfold decodeMessage
  rw [if_neg (by simp [hl, minMessageLength]), readFields_ok _ _ (by simp [hl, hlay])]
  unfold messageBytes
  simp only [fieldsOf_encodeFields msgLayout (msgToFields m) rest (msg_toFields_ok m h),
    msg_ofFields_toFields m h]

theorem msg_encode_ok (buf : List Nat) (m : Message) (hb : 44 ≤ buf.length) :
    encodeMessage buf m = .ok (messageBytes m ++ buf.drop 44) := by
  unfold encodeMessage
  rw [writeInto_ok _ _ _ (by simpa [minMessageLength] using hb), msg_bytes_length]

theorem msg_encode_short (buf : List Nat) (m : Message) (hb : buf.length < 44) :
    encodeMessage buf m = .panic "index" := by
  unfold encodeMessage writeInto
  rw [if_pos (by simpa [minMessageLength] using hb)]

theorem msg_decode_total (b : List Nat) :
    (b.length < 44 ∧ decodeMessage b = .err "size") ∨
    (44 ≤ b.length ∧ decodeMessage b = .ok (msgOfFields (fieldsOf msgLayout b))) := by
  have hlay : layoutLen msgLayout = 44 := by decide
  by_cases h : b.length < 44
  · left; refine ⟨h, ?_⟩; unfold decodeMessage; rw [if_pos (by simpa [minMessageLength] using h)]
  · right; refine ⟨by omega, ?_⟩
    unfold decodeMessage
    rw [if_neg (by simpa [minMessageLength] using h), readFields_ok _ _ (by omega)]

theorem msg_encode_decode (b : List Nat) (hlen : 44 ≤ b.length) (hb : AllBytes b) :
    ∃ m, decodeMessage b = .ok m ∧ m.Valid ∧ messageBytes m = b.take 44 ∧
      encodeMessage b m = .ok b := by
  have hlay : layoutLen msgLayout = 44 := by decide
  have hf := msg_toFields_ofFields _ (fieldsOf_ok msgLayout b hb)
  have hbytes : messageBytes (msgOfFields (fieldsOf msgLayout b)) = b.take 44 := by
    unfold messageBytes
    rw [hf.1, encodeFields_fieldsOf msgLayout b (by omega) hb, hlay]
  refine ⟨msgOfFields (fieldsOf msgLayout b), ?_, hf.2, hbytes, ?_⟩
  · rcases msg_decode_total b with ⟨h, _⟩ | ⟨_, h⟩
    · omega
    · exact h
  · rw [msg_encode_ok _ _ hlen, hbytes, List.take_append_drop]

/-! ### TLV head (first 14 bytes, shared) -/

theorem tlvHead_layoutLen : layoutLen tlvHeadLayout = 14 := by decide

theorem zeros_length (n : Nat) : (zeros n).length = n := by simp [zeros]

theorem encodedTLVLength_cases (f : Nat) :
    (hasServerStateDS f = true ∧ encodedTLVLength f = 54) ∨
    (hasServerStateDS f = false ∧ encodedTLVLength f = 36) := by
  unfold encodedTLVLength
  cases h : hasServerStateDS f <;> simp [tlvShortLen]

/-! ### request TLV -/

theorem req_toFields_ok (t : RequestTLV) (h : t.Valid) : FieldsOk tlvHeadLayout (reqToFields t) := by
  obtain ⟨h1, h2, h3, h4, h5⟩ := h
  simp only [tlvHeadLayout, reqToFields, FieldsOk, Nat.reducePow, and_true]
  omega

theorem req_toFields_ofFields (vs : List Nat) (h : FieldsOk tlvHeadLayout vs) :
    reqToFields (reqOfFields vs) = vs ∧ (reqOfFields vs).Valid := by
  unfold tlvHeadLayout at h
  iterate 5 (rcases vs with _ | ⟨_, vs⟩; exact absurd h (by simp [FieldsOk]))
  rcases vs with _ | ⟨_, vs⟩
  · simp only [FieldsOk, Nat.reducePow, and_true] at h
    exact ⟨rfl, h⟩
  · simp [FieldsOk] at h

theorem req_head_length (t : RequestTLV) :
    (encodeFields tlvHeadLayout (reqToFields t)).length = 14 := by
  rw [encodeFields_length tlvHeadLayout (reqToFields t) (by rfl)]; rfl

theorem req_bytes_length (t : RequestTLV) :
    (requestTLVBytes t).length = encodedTLVLength t.flagField := by
  unfold requestTLVBytes
  rcases encodedTLVLength_cases t.flagField with ⟨hf, hl⟩ | ⟨hf, hl⟩ <;>
    simp [hf, hl, req_head_length, zeros_length]

theorem req_decode_bytes (t : RequestTLV) (rest : List Nat) (h : t.Valid) :
    decodeRequestTLV (requestTLVBytes t ++ rest) = .ok t := by
  have hl := req_bytes_length t
  have hge : 36 ≤ encodedTLVLength t.flagField := by
    rcases encodedTLVLength_cases t.flagField with ⟨_, e⟩ | ⟨_, e⟩ <;> omega
  unfold decodeRequestTLV
  rw [if_neg (by simp [hl, tlvHeadLen]; omega),
    readFields_ok _ _ (by simp [hl, tlvHead_layoutLen]; omega)]
  have hfields : fieldsOf tlvHeadLayout (requestTLVBytes t ++ rest) = reqToFields t := by
    unfold requestTLVBytes
    simp only [List.append_assoc]
    exact fieldsOf_encodeFields tlvHeadLayout (reqToFields t) _ (req_toFields_ok t h)
  simp only [hfields]
  have : reqOfFields (reqToFields t) = t := rfl
  rw [this, if_neg (by simp [hl])]

theorem req_encode_ok (buf : List Nat) (t : RequestTLV) (hb : encodedTLVLength t.flagField ≤ buf.length) :
    encodeRequestTLV buf t = .ok (requestTLVBytes t ++ buf.drop (encodedTLVLength t.flagField)) := by
  have hge : 36 ≤ encodedTLVLength t.flagField := by
    rcases encodedTLVLength_cases t.flagField with ⟨_, e⟩ | ⟨_, e⟩ <;> omega
  unfold encodeRequestTLV
  rw [if_neg (by simp [tlvShortLen]; omega), writeInto_ok _ _ _ hb, req_bytes_length]

theorem req_encode_short (buf : List Nat) (t : RequestTLV) (hb : buf.length < encodedTLVLength t.flagField) :
    encodeRequestTLV buf t = .panic "index" := by
  unfold encodeRequestTLV writeInto
  split <;> first | rfl | rw [if_pos hb]

/-- decoder outcome in closed form -/
theorem req_decode_eq (b : List Nat) :
    decodeRequestTLV b =
      if b.length < 14 then .err "size"
      else if b.length < encodedTLVLength (reqOfFields (fieldsOf tlvHeadLayout b)).flagField
        then .err "size"
      else .ok (reqOfFields (fieldsOf tlvHeadLayout b)) := by
  unfold decodeRequestTLV
  by_cases h : b.length < 14
  · have h' : b.length < tlvHeadLen := h
    rw [if_pos h', if_pos h]
  · have h' : ¬ b.length < tlvHeadLen := h
    rw [if_neg h', if_neg h, readFields_ok _ _ (by rw [tlvHead_layoutLen]; omega)]

theorem req_encode_decode (b : List Nat) (t : RequestTLV) (hb : AllBytes b)
    (hd : decodeRequestTLV b = .ok t) :
    t.Valid ∧ encodedTLVLength t.flagField ≤ b.length ∧
    requestTLVBytes t = b.take 14 ++ zeros (encodedTLVLength t.flagField - 14) := by
  rw [req_decode_eq] at hd
  split at hd
  · cases hd
  · split at hd
    · cases hd
    · rename_i h1 h2
      simp only [Outcome.ok.injEq] at hd
      have hf := req_toFields_ofFields _ (fieldsOf_ok tlvHeadLayout b hb)
      rw [hd] at hf h2
      refine ⟨hf.2, by omega, ?_⟩
      unfold requestTLVBytes
      rw [hf.1, encodeFields_fieldsOf tlvHeadLayout b (by rw [tlvHead_layoutLen]; omega) hb,
        tlvHead_layoutLen]
      rcases encodedTLVLength_cases t.flagField with ⟨hfl, hl⟩ | ⟨hfl, hl⟩ <;>
        simp [hfl, hl, zeros, List.append_assoc]

/-! ### response TLV -/

theorem respBody_layoutLen : layoutLen respBodyLayout = 22 := by decide
theorem ds_layoutLen : layoutLen dsLayout = 18 := by decide

theorem resp_head_ok (t : ResponseTLV) (h : t.Valid) : FieldsOk tlvHeadLayout (respHeadFields t) := by
  obtain ⟨h1, h2, h3, h4, h5, _⟩ := h
  simp only [tlvHeadLayout, respHeadFields, FieldsOk, Nat.reducePow, and_true]
  omega

theorem resp_body_ok (t : ResponseTLV) (h : t.Valid) : FieldsOk respBodyLayout (respBodyFields t) := by
  obtain ⟨_, _, _, _, _, h6, h7, h8, h9, h10, _⟩ := h
  have := toU_lt64 t.requestCorrectionField
  have := toU_lt16 t.utcOffset
  simp only [respBodyLayout, respBodyFields, FieldsOk, Nat.reducePow, and_true]
  omega

theorem ds_ok (d : ServerStateDS) (h : d.Valid) : FieldsOk dsLayout (dsToFields d) := by
  obtain ⟨h1, h2, h3, h4, h5, h6, h7, h8, h9⟩ := h
  simp only [dsLayout, dsToFields, FieldsOk, Nat.reducePow, and_true]
  omega

theorem ds_toFields_ofFields (vs : List Nat) (h : FieldsOk dsLayout vs) :
    dsToFields (dsOfFields vs) = vs ∧ (dsOfFields vs).Valid := by
  unfold dsLayout at h
  iterate 9 (rcases vs with _ | ⟨_, vs⟩; exact absurd h (by simp [FieldsOk]))
  rcases vs with _ | ⟨_, vs⟩
  · simp only [FieldsOk, Nat.reducePow, and_true] at h
    exact ⟨rfl, h⟩
  · simp [FieldsOk] at h

theorem resp_head_length (t : ResponseTLV) :
    (encodeFields tlvHeadLayout (respHeadFields t)).length = 14 := by
  rw [encodeFields_length tlvHeadLayout (respHeadFields t) (by rfl)]; rfl
theorem resp_body_length (t : ResponseTLV) :
    (encodeFields respBodyLayout (respBodyFields t)).length = 22 := by
  rw [encodeFields_length respBodyLayout (respBodyFields t) (by rfl)]; rfl
theorem ds_length (d : ServerStateDS) : (encodeFields dsLayout (dsToFields d)).length = 18 := by
  rw [encodeFields_length dsLayout (dsToFields d) (by rfl)]; rfl

theorem resp_bytes_length (t : ResponseTLV) :
    (responseTLVBytes t).length = encodedTLVLength t.flagField := by
  unfold responseTLVBytes
  rcases encodedTLVLength_cases t.flagField with ⟨hf, hl⟩ | ⟨hf, hl⟩ <;>
    simp [hf, hl, resp_head_length, resp_body_length, ds_length]

theorem resp_ofFields_fields (t : ResponseTLV) (h : t.Valid) (ds : ServerStateDS) :
    respOfFields (respHeadFields t) (respBodyFields t) ds = { t with serverStateDS := ds } := by
  obtain ⟨_, _, _, _, _, _, _, _, h9, h10, _⟩ := h
  simp only [respOfFields, respHeadFields, respBodyFields, ofU_toU64 _ h9, ofU_toU16 _ h10]

theorem resp_decode_bytes (t : ResponseTLV) (rest : List Nat) (h : t.Valid) :
    decodeResponseTLV (responseTLVBytes t ++ rest) = .ok t.normalize := by
  have hl := resp_bytes_length t
  have hH := resp_head_length t
  have hB := resp_body_length t
  unfold decodeResponseTLV
  have hge : 36 ≤ encodedTLVLength t.flagField := by
    rcases encodedTLVLength_cases t.flagField with ⟨_, e⟩ | ⟨_, e⟩ <;> omega
  rw [if_neg (by simp [hl, tlvHeadLen]; omega),
    readFields_ok _ _ (by simp [hl, tlvHead_layoutLen]; omega)]
  have hhead : fieldsOf tlvHeadLayout (responseTLVBytes t ++ rest) = respHeadFields t := by
    unfold responseTLVBytes
    simp only [List.append_assoc]
    exact fieldsOf_encodeFields tlvHeadLayout (respHeadFields t) _ (resp_head_ok t h)
  simp only [hhead]
  have hflag : (reqOfFields (respHeadFields t)).flagField = t.flagField := rfl
  rw [hflag, if_neg (by simp [hl])]
  have hdrop14 : (responseTLVBytes t ++ rest).drop tlvHeadLen =
      encodeFields respBodyLayout (respBodyFields t) ++
        ((if hasServerStateDS t.flagField then encodeFields dsLayout (dsToFields t.serverStateDS)
          else []) ++ rest) := by
    unfold responseTLVBytes
    simp only [List.append_assoc, tlvHeadLen]
    rw [List.drop_left' hH]
  have hdrop36 : (responseTLVBytes t ++ rest).drop tlvShortLen =
      ((if hasServerStateDS t.flagField then encodeFields dsLayout (dsToFields t.serverStateDS)
          else []) ++ rest) := by
    have : tlvShortLen = tlvHeadLen + 22 := rfl
    rw [this, ← List.drop_drop, hdrop14, List.drop_left' hB]
  rw [hdrop14, readFields_ok _ _ (by simp [hB, respBody_layoutLen]),
    fieldsOf_encodeFields respBodyLayout (respBodyFields t) _ (resp_body_ok t h)]
  simp only
  rw [hdrop36]
  unfold ResponseTLV.normalize
  cases hf : hasServerStateDS t.flagField
  · simp only [Bool.false_eq_true, if_false]
    rw [resp_ofFields_fields t h]
  · simp only [if_true]
    have hds : FieldsOk dsLayout (dsToFields t.serverStateDS) := ds_ok _ h.2.2.2.2.2.2.2.2.2.2
    rw [readFields_ok _ _ (by simp [ds_length, ds_layoutLen]),
      fieldsOf_encodeFields dsLayout (dsToFields t.serverStateDS) rest hds]
    simp only
    have : dsOfFields (dsToFields t.serverStateDS) = t.serverStateDS := rfl
    rw [this, resp_ofFields_fields t h]

theorem resp_encode_ok (buf : List Nat) (t : ResponseTLV) (hb : encodedTLVLength t.flagField ≤ buf.length) :
    encodeResponseTLV buf t = .ok (responseTLVBytes t ++ buf.drop (encodedTLVLength t.flagField)) := by
  have hge : 36 ≤ encodedTLVLength t.flagField := by
    rcases encodedTLVLength_cases t.flagField with ⟨_, e⟩ | ⟨_, e⟩ <;> omega
  unfold encodeResponseTLV
  rw [if_neg (by simp [tlvShortLen]; omega), writeInto_ok _ _ _ hb, resp_bytes_length]

theorem resp_encode_short (buf : List Nat) (t : ResponseTLV) (hb : buf.length < encodedTLVLength t.flagField) :
    encodeResponseTLV buf t = .panic "index" := by
  unfold encodeResponseTLV writeInto
  split <;> first | rfl | rw [if_pos hb]

/-- the value a response TLV decodes to, when it decodes -/
def respDecoded (b : List Nat) : ResponseTLV :=
  respOfFields (fieldsOf tlvHeadLayout b) (fieldsOf respBodyLayout (b.drop tlvHeadLen))
    (if hasServerStateDS (reqOfFields (fieldsOf tlvHeadLayout b)).flagField
      then dsOfFields (fieldsOf dsLayout (b.drop tlvShortLen)) else zeroDS)

/-- decoder outcome in closed form -/
theorem resp_decode_eq (b : List Nat) :
    decodeResponseTLV b =
      if b.length < 14 then .err "size"
      else if b.length < encodedTLVLength (reqOfFields (fieldsOf tlvHeadLayout b)).flagField
        then .err "size"
      else .ok (respDecoded b) := by
  unfold decodeResponseTLV respDecoded
  have e14 : tlvHeadLen = 14 := rfl
  have e36 : tlvShortLen = 36 := rfl
  by_cases h : b.length < 14
  · have h' : b.length < tlvHeadLen := h
    rw [if_pos h', if_pos h]
  · have h' : ¬ b.length < tlvHeadLen := h
    rw [if_neg h', if_neg h, readFields_ok _ _ (by rw [tlvHead_layoutLen]; omega)]
    simp only
    rcases encodedTLVLength_cases (reqOfFields (fieldsOf tlvHeadLayout b)).flagField with
      ⟨hf, hl⟩ | ⟨hf, hl⟩
    · by_cases h2 : b.length < 54
      · rw [hl, if_pos h2, if_pos h2]
      · rw [hl, if_neg h2, if_neg h2,
          readFields_ok _ _ (by rw [respBody_layoutLen, e14]; simp; omega)]
        simp only [hf, if_true]
        rw [readFields_ok _ _ (by rw [ds_layoutLen, e36]; simp; omega)]
    · by_cases h2 : b.length < 36
      · rw [hl, if_pos h2, if_pos h2]
      · rw [hl, if_neg h2, if_neg h2,
          readFields_ok _ _ (by rw [respBody_layoutLen, e14]; simp; omega)]
        simp [hf]

theorem resp_fields_ofFields (hd body : List Nat) (ds : ServerStateDS)
    (h1 : FieldsOk tlvHeadLayout hd) (h2 : FieldsOk respBodyLayout body) :
    respHeadFields (respOfFields hd body ds) = hd ∧ respBodyFields (respOfFields hd body ds) = body ∧
    (respOfFields hd body ds).serverStateDS = ds ∧
    (respOfFields hd body ds).flagField = (reqOfFields hd).flagField ∧
    (ds.Valid → (respOfFields hd body ds).Valid) := by
  unfold tlvHeadLayout at h1
  unfold respBodyLayout at h2
  iterate 5 (rcases hd with _ | ⟨_, hd⟩; exact absurd h1 (by simp [FieldsOk]))
  rcases hd with _ | ⟨_, hd⟩
  · iterate 5 (rcases body with _ | ⟨_, body⟩; exact absurd h2 (by simp [FieldsOk]))
    rcases body with _ | ⟨_, body⟩
    · simp only [FieldsOk, Nat.reducePow, and_true] at h1 h2
      obtain ⟨a1, a2, a3, a4, a5⟩ := h1
      obtain ⟨b1, b2, b3, b4, b5⟩ := h2
      refine ⟨rfl, ?_, rfl, rfl, ?_⟩
      · simp only [respOfFields, respBodyFields, toU_ofU64 _ b4, toU_ofU16 _ b5]
      · intro hds
        simp only [respOfFields, ResponseTLV.Valid]
        unfold ofU
        simp only [Nat.reducePow, Nat.reduceSub]
        refine ⟨a1, a2, a3, a4, a5, b1, b2, b3, ?_, ?_, hds⟩ <;> (split <;> omega)
    · simp [FieldsOk] at h2
  · simp [FieldsOk] at h1

theorem zeroDS_valid : zeroDS.Valid := by decide

theorem take_split2 (b : List Nat) : b.take 14 ++ (b.drop 14).take 22 = b.take 36 :=
  (List.take_add (l := b) (i := 14) (j := 22)).symm
theorem take_split3 (b : List Nat) : b.take 36 ++ (b.drop 36).take 18 = b.take 54 :=
  (List.take_add (l := b) (i := 36) (j := 18)).symm

theorem resp_encode_decode (b : List Nat) (t : ResponseTLV) (hb : AllBytes b)
    (hd : decodeResponseTLV b = .ok t) :
    t.Valid ∧ encodedTLVLength t.flagField ≤ b.length ∧
    responseTLVBytes t = b.take (encodedTLVLength t.flagField) ∧ t.normalize = t := by
  rw [resp_decode_eq] at hd
  split at hd
  · cases hd
  · split at hd
    · cases hd
    · rename_i h1 h2
      simp only [Outcome.ok.injEq] at hd
      have hbd14 : AllBytes (b.drop tlvHeadLen) := fun x hx => hb x (List.mem_of_mem_drop hx)
      have hbd36 : AllBytes (b.drop tlvShortLen) := fun x hx => hb x (List.mem_of_mem_drop hx)
      have hH := fieldsOf_ok tlvHeadLayout b hb
      have hB := fieldsOf_ok respBodyLayout _ hbd14
      have hD := ds_toFields_ofFields _ (fieldsOf_ok dsLayout _ hbd36)
      unfold respDecoded at hd
      simp only [tlvHeadLen, tlvShortLen] at hd hbd14 hbd36 hB hD
      generalize hds : (if hasServerStateDS (reqOfFields (fieldsOf tlvHeadLayout b)).flagField = true
        then dsOfFields (fieldsOf dsLayout (List.drop 36 b)) else zeroDS) = ds at hd
      obtain ⟨f1, f2, f3, f4, f5⟩ := resp_fields_ofFields _ _ ds hH hB
      rw [hd] at f1 f2 f3 f4 f5
      rw [← f4] at h2 hds
      have hhead : encodeFields tlvHeadLayout (fieldsOf tlvHeadLayout b) = b.take 14 := by
        rw [encodeFields_fieldsOf tlvHeadLayout b (by rw [tlvHead_layoutLen]; omega) hb,
          tlvHead_layoutLen]
      rcases encodedTLVLength_cases t.flagField with ⟨hfl, hl⟩ | ⟨hfl, hl⟩
      · rw [hl] at h2
        simp only [hfl, if_true] at hds
        have hbody : encodeFields respBodyLayout (fieldsOf respBodyLayout (b.drop 14))
            = (b.drop 14).take 22 := by
          rw [encodeFields_fieldsOf respBodyLayout _ (by rw [respBody_layoutLen]; simp; omega) hbd14,
            respBody_layoutLen]
        have hdsb : encodeFields dsLayout (fieldsOf dsLayout (b.drop 36))
            = (b.drop 36).take 18 := by
          rw [encodeFields_fieldsOf dsLayout _ (by rw [ds_layoutLen]; simp; omega) hbd36,
            ds_layoutLen]
        refine ⟨f5 (by rw [← hds]; exact hD.2), by omega, ?_, ?_⟩
        · unfold responseTLVBytes
          rw [f1, f2, f3, hfl, if_pos rfl, ← hds, hD.1, hhead, hbody, hdsb, hl,
            take_split2, take_split3]
        · unfold ResponseTLV.normalize; rw [hfl, if_pos rfl]
      · rw [hl] at h2
        simp only [hfl, Bool.false_eq_true, if_false] at hds
        have hbody : encodeFields respBodyLayout (fieldsOf respBodyLayout (b.drop 14))
            = (b.drop 14).take 22 := by
          rw [encodeFields_fieldsOf respBodyLayout _ (by rw [respBody_layoutLen]; simp; omega) hbd14,
            respBody_layoutLen]
        refine ⟨f5 (by rw [← hds]; exact zeroDS_valid), by omega, ?_, ?_⟩
        · unfold responseTLVBytes
          rw [f1, f2, hfl, if_neg (by simp), hhead, hbody, hl, List.append_nil, take_split2]
        · unfold ResponseTLV.normalize
          rw [hfl, if_neg (by simp)]
          cases t
          simp only at f3
          simp only [f3, ← hds]

theorem resp_decoded_flag (b : List Nat) :
    (respDecoded b).flagField = (reqOfFields (fieldsOf tlvHeadLayout b)).flagField := by
  unfold respDecoded
  simp only [tlvHeadLayout, respBodyLayout, fieldsOf, respOfFields, reqOfFields]

end Csptp
end ScionTime.C14
