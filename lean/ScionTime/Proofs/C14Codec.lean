/-
  Helper lemmas for Props/C14.lean: the generic layout round trips (Proofs/WireFields.lean)
  instantiated for the NTP header and the CSPTP message and TLVs.
-/
import ScionTime.Proofs.WireFields
import ScionTime.Model.NtpPacket
namespace ScionTime.C14
open ScionTime.Wire

section Ntp
open ScionTime.NtpPacket

theorem ntp_toFields_ok (p : Packet) (h : p.Valid) : FieldsOk layout (toFields p) := by
  obtain ⟨h1, h2, h3, h4, h5, h6, h7, h8, h9, h10, h11, h12, h13, h14, h15, h16, h17⟩ := h
  have := toU_lt8 p.poll
  have := toU_lt8 p.precision
  simp only [layout, toFields, FieldsOk, Nat.reducePow, and_true]
  omega

theorem ntp_ofFields_toFields (p : Packet) (h : p.Valid) : ofFields (toFields p) = p := by
  obtain ⟨_, _, h3, h4, _⟩ := h
  simp only [toFields, ofFields, ofU_toU8 _ h3, ofU_toU8 _ h4]

theorem ntp_toFields_ofFields (vs : List Nat) (h : FieldsOk layout vs) :
    toFields (ofFields vs) = vs ∧ (ofFields vs).Valid := by
  unfold layout at h
  iterate 17 (rcases vs with _ | ⟨_, vs⟩; exact absurd h (by simp [FieldsOk]))
  rcases vs with _ | ⟨_, vs⟩
  · simp only [FieldsOk, Nat.reducePow, and_true] at h
    obtain ⟨h1, h2, h3, h4, h5, h6, h7, h8, h9, h10, h11, h12, h13, h14, h15, h16, h17⟩ := h
    constructor
    · simp only [ofFields, toFields, toU_ofU8 _ h3, toU_ofU8 _ h4]
    · simp only [ofFields, Packet.Valid]
      unfold ofU
      simp only [Nat.reducePow, Nat.reduceSub]
      refine ⟨h1, h2, ?_, ?_, h5, h6, h7, h8, h9, h10, h11, h12, h13, h14, h15, h16, h17⟩ <;>
        (split <;> omega)
  · simp [FieldsOk] at h

theorem ntp_encode_length (p : Packet) : (encodePacket p).length = 48 := by
  unfold encodePacket
  rw [encodeFields_length layout (toFields p) (by rfl)]
  rfl

theorem ntp_decode_encode (p : Packet) (rest : List Nat) (h : p.Valid) :
    decodePacket (encodePacket p ++ rest) = .ok p := by
  have hl := ntp_encode_length p
  have hlay : layoutLen layout = 48 := by decide
  unfold decodePacket
  rw [if_neg (by simp [hl, packetLen]), readFields_ok _ _ (by simp [hl, hlay])]
  unfold encodePacket
  simp only [fieldsOf_encodeFields layout (toFields p) rest (ntp_toFields_ok p h),
    ntp_ofFields_toFields p h]

theorem ntp_encode_decode (b : List Nat) (hlen : 48 ≤ b.length) (hb : AllBytes b) :
    ∃ p, decodePacket b = .ok p ∧ p.Valid ∧ encodePacket p = b.take 48 := by
  have hlay : layoutLen layout = 48 := by decide
  refine ⟨ofFields (fieldsOf layout b), ?_, ?_, ?_⟩
  · unfold decodePacket
    rw [if_neg (by simp [packetLen]; omega), readFields_ok _ _ (by omega)]
  · exact (ntp_toFields_ofFields _ (fieldsOf_ok layout b hb)).2
  · unfold encodePacket
    rw [(ntp_toFields_ofFields _ (fieldsOf_ok layout b hb)).1,
      encodeFields_fieldsOf layout b (by omega) hb, hlay]

theorem ntp_decode_total (b : List Nat) :
    (b.length < 48 ∧ decodePacket b = .err "size") ∨
    (48 ≤ b.length ∧ ∃ p, decodePacket b = .ok p) := by
  have hlay : layoutLen layout = 48 := by decide
  by_cases h : b.length < 48
  · left; refine ⟨h, ?_⟩; unfold decodePacket; rw [if_pos (by simpa [packetLen] using h)]
  · right; refine ⟨by omega, ofFields (fieldsOf layout b), ?_⟩
    unfold decodePacket
    rw [if_neg (by simpa [packetLen] using h), readFields_ok _ _ (by omega)]

theorem ntp_decode_lvm (x : Nat) (t : List Nat) (p : Packet)
    (h : decodePacket (x :: t) = .ok p) : p.lvm = x := by
  have hlay : layoutLen layout = 48 := by decide
  rcases ntp_decode_total (x :: t) with ⟨_, h'⟩ | ⟨hl, _⟩
  · rw [h'] at h; cases h
  · unfold decodePacket at h
    rw [if_neg (by simp [packetLen]; simp at hl; omega), readFields_ok _ _ (by omega)] at h
    simp only [Outcome.ok.injEq] at h
    subst h
    simp [layout, fieldsOf, ofFields, beVal]

end Ntp
end ScionTime.C14
