/-! Helpers for the leaf ties: quantification over all 256 values of a byte by a complete table. -/
namespace ScionTime.LeafUtil

theorem forall_uint8 (P : UInt8 → Prop) (h : ∀ n : Fin 256, P (UInt8.ofNat n.val)) : ∀ x, P x := by
  intro x
  have := h ⟨x.toNat, x.toNat_lt⟩
  simpa using this

end ScionTime.LeafUtil
