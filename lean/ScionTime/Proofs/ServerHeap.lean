/-
  Lemmas about the transcribed container/heap functions of Model/Server.lean:
  map/heap agreement (`WF`) and heap order are preserved.
-/
import ScionTime.Proofs.ServerMap
namespace ScionTime.Server
open ScionTime.Time64

def pos (m : Map) (k : Nat) : Option Nat := (m.find k).map (·.qidx)

/-- map/heap agreement: same number of entries, no duplicate map keys, every heap slot's
    id is in the map with `qidx` = the slot, every map item's `qidx` is a slot holding its id. -/
structure WF (st : State) : Prop where
  nodup : (Map.keys st.items).Nodup
  len : st.items.length = st.heap.size
  fwd : ∀ i, i < st.heap.size → pos st.items (hkey st i) = some i
  bwd : ∀ k q, pos st.items k = some q → q < st.heap.size ∧ hkey st q = k

theorem WF.inj {st : State} (h : WF st) {i j : Nat} (hi : i < st.heap.size) (hj : j < st.heap.size)
    (e : hkey st i = hkey st j) : i = j := by
  have a := h.fwd i hi
  have b := h.fwd j hj
  rw [e] at a; rw [a] at b; exact Option.some.inj b

theorem pos_setQidx (m : Map) (k i k' : Nat) :
    pos (setQidx m k i) k' = if k = k' then (m.find k').map (fun _ => i) else pos m k' := by
  unfold pos setQidx
  rw [Map.find_modify]
  by_cases h : k = k'
  · simp only [h, if_true, Option.map_map]; rfl
  · simp [h]

theorem hkey_swap (st : State) (i j x : Nat) (hi : i < st.heap.size) (hj : j < st.heap.size) :
    hkey (swap st i j) x = if x = j then hkey st i else if x = i then hkey st j else hkey st x := by
  unfold swap hkey
  simp only [Array.getD_eq_getD_getElem?, Array.getElem?_setIfInBounds, Array.size_setIfInBounds]
  by_cases h1 : x = j
  · subst h1; simp [hj]
  · by_cases h2 : x = i
    · subst h2; simp [hi, h1, Ne.symm h1]
    · simp [h1, h2, Ne.symm h1, Ne.symm h2]

@[simp] theorem size_swap (st : State) (i j : Nat) : (swap st i j).heap.size = st.heap.size := by
  unfold swap; simp

theorem same_swap (st : State) (i j : Nat) : Same st.items (swap st i j).items := by
  unfold swap
  exact (same_setQidx _ _ _).trans (same_setQidx _ _ _)

theorem keys_swap (st : State) (i j : Nat) : Map.keys (swap st i j).items = Map.keys st.items := by
  unfold swap setQidx; simp [Map.keys_modify]

theorem length_swap (st : State) (i j : Nat) : (swap st i j).items.length = st.items.length := by
  unfold swap setQidx; simp [Map.length_modify]

theorem pos_swap (st : State) (h : WF st) (i j : Nat) (hi : i < st.heap.size) (hj : j < st.heap.size)
    (k : Nat) :
    pos (swap st i j).items k =
      if k = hkey st i then some j else if k = hkey st j then some i else pos st.items k := by
  have fi := h.fwd i hi
  have fj := h.fwd j hj
  unfold swap
  simp only
  rw [pos_setQidx]
  by_cases h1 : hkey st i = k
  · subst h1
    simp only [if_true]
    unfold setQidx
    rw [Map.find_modify]
    unfold pos at fi
    cases hf : Map.find st.items (hkey st i) with
    | none => simp [hf] at fi
    | some it => by_cases h2 : hkey st j = hkey st i <;> simp [h2]
  · have h1' : ¬ k = hkey st i := fun e => h1 e.symm
    simp only [h1, h1', if_false]
    rw [pos_setQidx]
    by_cases h2 : hkey st j = k
    · subst h2
      simp only [if_true]
      unfold pos at fj
      cases hf : Map.find st.items (hkey st j) with
      | none => simp [hf] at fj
      | some it => simp
    · have h2' : ¬ k = hkey st j := fun e => h2 e.symm
      simp [h2, h2']

theorem wf_swap (st : State) (h : WF st) (i j : Nat) (hi : i < st.heap.size) (hj : j < st.heap.size) :
    WF (swap st i j) := by
  refine ⟨?_, ?_, ?_, ?_⟩
  · rw [keys_swap]; exact h.nodup
  · rw [length_swap, size_swap]; exact h.len
  · intro x hx
    rw [size_swap] at hx
    rw [pos_swap st h i j hi hj, hkey_swap st i j x hi hj]
    by_cases h1 : x = j
    · subst h1; simp
    · simp only [h1, if_false]
      by_cases h2 : x = i
      · subst h2
        simp only [if_true]
        by_cases h3 : hkey st j = hkey st x
        · have := h.inj hj hx h3; omega
        · simp [h3]
      · simp only [h2, if_false]
        have n1 : ¬ hkey st x = hkey st i := fun e => h2 (h.inj hx hi e)
        have n2 : ¬ hkey st x = hkey st j := fun e => h1 (h.inj hx hj e)
        simp only [n1, n2, if_false]
        exact h.fwd x hx
  · intro k q hq
    rw [size_swap]
    rw [pos_swap st h i j hi hj] at hq
    rw [hkey_swap st i j q hi hj]
    by_cases h1 : k = hkey st i
    · simp only [h1, if_true, Option.some.injEq] at hq
      subst hq; simp [h1, hj]
    · simp only [h1, if_false] at hq
      by_cases h2 : k = hkey st j
      · simp only [h2, if_true, Option.some.injEq] at hq
        subst hq
        refine ⟨hi, ?_⟩
        by_cases h3 : i = j
        · subst h3; exact absurd h2 h1
        · simp [h3, h2]
      · simp only [h2, if_false] at hq
        obtain ⟨a, b⟩ := h.bwd k q hq
        refine ⟨a, ?_⟩
        have n1 : ¬ q = j := fun e => h2 (by rw [← b, e])
        have n2 : ¬ q = i := fun e => h1 (by rw [← b, e])
        simp [n1, n2, b]

theorem kv_swap (st : State) (i j x : Nat) (hi : i < st.heap.size) (hj : j < st.heap.size) :
    kv (swap st i j) x = if x = j then kv st i else if x = i then kv st j else kv st x := by
  unfold kv
  rw [hkey_swap st i j x hi hj]
  have hs : ∀ k, qv (swap st i j).items k = qv st.items k := fun k => (qv_same (same_swap st i j) k).symm
  rw [hs]
  by_cases h1 : x = j
  · simp [h1]
  · by_cases h2 : x = i
    · subst h2; simp [h1]
    · simp [h1, h2]

theorem child_cases (st : State) (i n : Nat) (h : 2 * i + 1 < n) :
    child st i n < n ∧ (child st i n = 2 * i + 1 ∨ child st i n = 2 * i + 2) := by
  unfold child
  split
  · rename_i hc; simp at hc; omega
  · omega

/-! ### up / down preserve WF, sizes and item contents -/

/-- what every heap routine preserves -/
structure Keeps (st st' : State) : Prop where
  wf : WF st'
  size : st'.heap.size = st.heap.size
  same : Same st.items st'.items

theorem Keeps.refl {st : State} (h : WF st) : Keeps st st := ⟨h, rfl, Same.refl _⟩
theorem Keeps.trans {a b c : State} (h1 : Keeps a b) (h2 : Keeps b c) : Keeps a c :=
  ⟨h2.wf, h2.size.trans h1.size, h1.same.trans h2.same⟩

theorem keeps_swap (st : State) (h : WF st) (i j : Nat) (hi : i < st.heap.size) (hj : j < st.heap.size) :
    Keeps st (swap st i j) := ⟨wf_swap st h i j hi hj, size_swap st i j, same_swap st i j⟩

theorem keeps_up (f : Nat) : ∀ (st : State) (j : Nat), WF st → j < st.heap.size → Keeps st (up st j f) := by
  induction f with
  | zero => intro st j h _; exact Keeps.refl h
  | succ f ih =>
    intro st j h hj
    unfold up
    simp only
    split
    · exact Keeps.refl h
    · have hi : (j - 1) / 2 < st.heap.size := by omega
      have k1 := keeps_swap st h ((j - 1) / 2) j hi hj
      exact k1.trans (ih _ _ k1.wf (by rw [k1.size]; exact hi))

theorem keeps_down (f : Nat) : ∀ (st : State) (i n : Nat), WF st → n ≤ st.heap.size →
    Keeps st (down st i n f).1 := by
  induction f with
  | zero => intro st i n h _; exact Keeps.refl h
  | succ f ih =>
    intro st i n h hn
    unfold down
    split
    · exact Keeps.refl h
    · rename_i hj1
      split
      · exact Keeps.refl h
      · have hc := child_cases st i n (by omega)
        have k1 := keeps_swap st h i (child st i n) (by omega) (by omega)
        exact k1.trans (ih _ _ _ k1.wf (by rw [k1.size]; exact hn))

theorem down_ge (f : Nat) : ∀ (st : State) (i n : Nat), i ≤ (down st i n f).2 := by
  induction f with
  | zero => intro st i n; exact Nat.le_refl _
  | succ f ih =>
    intro st i n
    unfold down
    split
    · exact Nat.le_refl _
    · split
      · exact Nat.le_refl _
      · have hc := child_cases st i n (by omega)
        refine Nat.le_trans ?_ (ih _ _ _)
        omega

end ScionTime.Server
