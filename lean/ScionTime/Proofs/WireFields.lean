/-
  Lemmas about fixed-layout big-endian fields (Model/WireFields.lean): the two round trips
  for arbitrary layouts, by induction on the layout, and the exactness of the bounds guard.
-/
import ScionTime.Model.WireFields
namespace ScionTime.Wire

theorem beBytes_length (w v : Nat) : (beBytes w v).length = w := by
  induction w with
  | zero => rfl
  | succ w ih => simp [beBytes, ih]

theorem beBytes_allBytes (w v : Nat) : AllBytes (beBytes w v) := by
  induction w with
  | zero => intro x hx; simp [beBytes] at hx
  | succ w ih =>
    intro x hx
    simp only [beBytes, List.mem_cons] at hx
    rcases hx with rfl | hx
    · exact Nat.mod_lt _ (by decide)
    · exact ih x hx

theorem pow256_pos (n : Nat) : 0 < 256 ^ n := Nat.pow_pos (by decide)

theorem beVal_lt (bs : List Nat) (h : AllBytes bs) : beVal bs < 256 ^ bs.length := by
  induction bs with
  | nil => simp [beVal]
  | cons b t ih =>
    have hb : b < 256 := h b (by simp)
    have ht : beVal t < 256 ^ t.length := ih (fun x hx => h x (by simp [hx]))
    simp only [beVal, List.length_cons, Nat.pow_succ]
    have : b * 256 ^ t.length ≤ 255 * 256 ^ t.length := Nat.mul_le_mul_right _ (by omega)
    omega

/-- decoding the bytes of a value gives the value back (modulo the field width) -/
theorem beVal_beBytes_mod (w v : Nat) : beVal (beBytes w v) = v % 256 ^ w := by
  induction w with
  | zero => simp [beBytes, beVal, Nat.mod_one]
  | succ w ih =>
    simp only [beBytes, beVal, beBytes_length, ih]
    rw [Nat.pow_succ, Nat.mod_mul, Nat.mul_comm, Nat.add_comm]

theorem beVal_beBytes (w v : Nat) (h : v < 256 ^ w) : beVal (beBytes w v) = v := by
  rw [beVal_beBytes_mod, Nat.mod_eq_of_lt h]

/-- encoding the value of a byte string gives the byte string back -/
theorem beBytes_beVal_aux (bs : List Nat) (h : AllBytes bs) :
    ∀ k, beBytes bs.length (k * 256 ^ bs.length + beVal bs) = bs := by
  induction bs with
  | nil => intro k; rfl
  | cons b t ih =>
    intro k
    have hb : b < 256 := h b (by simp)
    have ht : AllBytes t := fun x hx => h x (by simp [hx])
    have hlt := beVal_lt t ht
    have hpos := pow256_pos t.length
    simp only [List.length_cons, beBytes, beVal]
    have e : k * 256 ^ (t.length + 1) + (b * 256 ^ t.length + beVal t)
        = (k * 256 + b) * 256 ^ t.length + beVal t := by
      rw [Nat.pow_succ, Nat.add_mul, Nat.mul_assoc, Nat.mul_comm (256 ^ t.length) 256]
      omega
    rw [e, ih ht (k * 256 + b)]
    congr 1
    rw [Nat.add_comm, Nat.add_mul_div_right _ _ hpos, Nat.div_eq_of_lt hlt]
    omega

theorem beBytes_beVal (bs : List Nat) (h : AllBytes bs) : beBytes bs.length (beVal bs) = bs := by
  have := beBytes_beVal_aux bs h 0
  simpa using this

theorem encodeFields_length : ∀ (ws vs : List Nat), vs.length = ws.length →
    (encodeFields ws vs).length = layoutLen ws
  | [], [], _ => rfl
  | [], _ :: _, h => by simp at h
  | _ :: _, [], h => by simp at h
  | w :: ws, v :: vs, h => by
    simp only [encodeFields, List.length_append, beBytes_length, layoutLen]
    rw [encodeFields_length ws vs (by simpa using h)]

theorem encodeFields_allBytes : ∀ (ws vs : List Nat), AllBytes (encodeFields ws vs)
  | [], _ => by intro x hx; simp [encodeFields] at hx
  | _ :: _, [] => by intro x hx; simp [encodeFields] at hx
  | w :: ws, v :: vs => by
    intro x hx
    simp only [encodeFields, List.mem_append] at hx
    rcases hx with hx | hx
    · exact beBytes_allBytes w v x hx
    · exact encodeFields_allBytes ws vs x hx

theorem FieldsOk.length_eq : ∀ {ws vs : List Nat}, FieldsOk ws vs → vs.length = ws.length
  | [], [], _ => rfl
  | [], _ :: _, h => by simp [FieldsOk] at h
  | _ :: _, [], h => by simp [FieldsOk] at h
  | _ :: ws, _ :: vs, h => by
    simp only [FieldsOk] at h
    simp [FieldsOk.length_eq h.2]

/-- **decode ∘ encode** for every layout: the fields read back from the encoding (followed by
    anything) are the fields written, provided each value fits its width. -/
theorem fieldsOf_encodeFields : ∀ (ws vs rest : List Nat), FieldsOk ws vs →
    fieldsOf ws (encodeFields ws vs ++ rest) = vs
  | [], [], _, _ => rfl
  | [], _ :: _, _, h => by simp [FieldsOk] at h
  | _ :: _, [], _, h => by simp [FieldsOk] at h
  | w :: ws, v :: vs, rest, h => by
    simp only [FieldsOk] at h
    simp only [encodeFields, fieldsOf, List.append_assoc]
    have hl := beBytes_length w v
    rw [List.take_left' hl, List.drop_left' hl, beVal_beBytes w v h.1,
      fieldsOf_encodeFields ws vs rest h.2]

/-- **encode ∘ decode** for every layout: re-encoding the fields read from a byte string that is
    long enough reproduces its first `layoutLen ws` bytes. -/
theorem encodeFields_fieldsOf : ∀ (ws b : List Nat), layoutLen ws ≤ b.length → AllBytes b →
    encodeFields ws (fieldsOf ws b) = b.take (layoutLen ws)
  | [], b, _, _ => by simp [encodeFields, layoutLen]
  | w :: ws, b, hlen, hb => by
    simp only [layoutLen] at hlen
    simp only [fieldsOf, encodeFields, layoutLen]
    have hw : (b.take w).length = w := by simp; omega
    have hbt : AllBytes (b.take w) := fun x hx => hb x (List.mem_of_mem_take hx)
    have hbd : AllBytes (b.drop w) := fun x hx => hb x (List.mem_of_mem_drop hx)
    have h1 := beBytes_beVal (b.take w) hbt
    rw [hw] at h1
    rw [h1, encodeFields_fieldsOf ws (b.drop w) (by simp; omega) hbd, List.take_add]

/-- the fields read from bytes fit their widths -/
theorem fieldsOf_ok : ∀ (ws b : List Nat), AllBytes b → FieldsOk ws (fieldsOf ws b)
  | [], _, _ => by simp [fieldsOf, FieldsOk]
  | w :: ws, b, hb => by
    simp only [fieldsOf, FieldsOk]
    have hbt : AllBytes (b.take w) := fun x hx => hb x (List.mem_of_mem_take hx)
    have hbd : AllBytes (b.drop w) := fun x hx => hb x (List.mem_of_mem_drop hx)
    refine ⟨?_, fieldsOf_ok ws _ hbd⟩
    have := beVal_lt _ hbt
    have hle : 256 ^ (b.take w).length ≤ 256 ^ w :=
      Nat.pow_le_pow_right (by decide) (by simp; omega)
    omega

/-- the bounds guard is sufficient: with at least `layoutLen ws` bytes no index is out of range -/
theorem readFields_ok : ∀ (ws b : List Nat), layoutLen ws ≤ b.length →
    readFields ws b = .ok (fieldsOf ws b)
  | [], _, _ => rfl
  | w :: ws, b, h => by
    simp only [layoutLen] at h
    simp only [readFields, fieldsOf]
    rw [if_neg (by omega), readFields_ok ws (b.drop w) (by simp; omega)]

/-- … and necessary: with fewer bytes Go's indexing panics -/
theorem readFields_short : ∀ (ws b : List Nat), b.length < layoutLen ws →
    readFields ws b = .panic "index"
  | [], _, h => by simp [layoutLen] at h
  | w :: ws, b, h => by
    simp only [layoutLen] at h
    simp only [readFields]
    by_cases hw : b.length < w
    · rw [if_pos hw]
    · rw [if_neg hw, readFields_short ws (b.drop w) (by simp; omega)]

/-- two's complement round trips at the widths the codecs use -/
theorem ofU_toU8 (x : Int) (h : -128 ≤ x ∧ x ≤ 127) : ofU 8 (toU 8 x) = x := by
  unfold ofU toU; simp only [Nat.reducePow, Nat.reduceSub]; split <;> omega
theorem toU_ofU8 (v : Nat) (h : v < 256) : toU 8 (ofU 8 v) = v := by
  unfold ofU toU; simp only [Nat.reducePow, Nat.reduceSub]; split <;> omega
theorem ofU_toU16 (x : Int) (h : -32768 ≤ x ∧ x ≤ 32767) : ofU 16 (toU 16 x) = x := by
  unfold ofU toU; simp only [Nat.reducePow, Nat.reduceSub]; split <;> omega
theorem toU_ofU16 (v : Nat) (h : v < 65536) : toU 16 (ofU 16 v) = v := by
  unfold ofU toU; simp only [Nat.reducePow, Nat.reduceSub]; split <;> omega
theorem ofU_toU64 (x : Int) (h : -9223372036854775808 ≤ x ∧ x ≤ 9223372036854775807) :
    ofU 64 (toU 64 x) = x := by
  unfold ofU toU; simp only [Nat.reducePow, Nat.reduceSub]; split <;> omega
theorem toU_ofU64 (v : Nat) (h : v < 18446744073709551616) : toU 64 (ofU 64 v) = v := by
  unfold ofU toU; simp only [Nat.reducePow, Nat.reduceSub]; split <;> omega
theorem toU_lt8 (x : Int) : toU 8 x < 256 := by unfold toU; omega
theorem toU_lt16 (x : Int) : toU 16 x < 65536 := by unfold toU; omega
theorem toU_lt64 (x : Int) : toU 64 x < 18446744073709551616 := by
  unfold toU; omega

theorem writeInto_ok (b bytes : List Nat) (need : Nat) (h : need ≤ b.length) :
    writeInto b need bytes = .ok (bytes ++ b.drop bytes.length) := by
  unfold writeInto; rw [if_neg (by omega)]

end ScionTime.Wire
