/- the fill of the store in closed form (helper lemmas for Props/C07) -/
import ScionTime.Model.ServerFill
import ScionTime.Proofs.ServerMap
namespace ScionTime.Server
open ScionTime.Time64

theorem fillItems_succ (n idbase : Nat) (base step d : Int) :
    ((List.range (n + 1)).map (fillItem idbase base step d)).reverse =
      fillItem idbase base step d n :: ((List.range n).map (fillItem idbase base step d)).reverse := by
  simp [List.range_succ]

theorem fillHeap_succ (n idbase : Nat) : fillHeap (n + 1) idbase = (fillHeap n idbase).push (idbase + n) := by
  simp [fillHeap, List.range_succ]

theorem fillHeap_size (n idbase : Nat) : (fillHeap n idbase).size = n := by simp [fillHeap]

theorem fillHeap_getD (n idbase i : Nat) (h : i < n) : (fillHeap n idbase).getD i 0 = idbase + i := by
  simp [fillHeap, h]

theorem find_fillRev (n idbase : Nat) (base step d : Int) (k : Nat) :
    Map.find ((List.range n).map (fillItem idbase base step d)).reverse k =
      if idbase ≤ k ∧ k < idbase + n then some (fillItem idbase base step d (k - idbase)).2 else none := by
  induction n with
  | zero => simp
  | succ n ih =>
    rw [fillItems_succ, Map.find_cons, ih]
    by_cases h : (fillItem idbase base step d n).1 = k
    · have : k = idbase + n := by simpa [fillItem] using h.symm
      subst this
      simp [fillItem]
    · have : ¬ k = idbase + n := by intro e; apply h; simp [fillItem, e]
      rw [if_neg h]
      by_cases h2 : idbase ≤ k ∧ k < idbase + n
      · rw [if_pos h2, if_pos (by omega)]
      · rw [if_neg h2, if_neg (by omega)]

theorem fillRev_length (n idbase : Nat) (base step d : Int) :
    ((List.range n).map (fillItem idbase base step d)).reverse.length = n := by simp

theorem find_append_of_not_mem (m m' : Map) (k : Nat) (h : k ∉ Map.keys m) :
    Map.find (m ++ m') k = Map.find m' k := by
  induction m with
  | nil => rfl
  | cons p m ih =>
    obtain ⟨k0, it⟩ := p
    have h0 : k0 ≠ k := by intro e; apply h; simp [Map.keys, e]
    have h1 : k ∉ Map.keys m := by intro e; apply h; unfold Map.keys at *; simp [e]
    simp only [List.cons_append, Map.find_cons, if_neg h0]
    exact ih h1

theorem find_append_of_mem (m m' : Map) (k : Nat) (h : k ∈ Map.keys m) :
    Map.find (m ++ m') k = Map.find m k := by
  induction m with
  | nil => simp [Map.keys] at h
  | cons p m ih =>
    obtain ⟨k0, it⟩ := p
    simp only [List.cons_append, Map.find_cons]
    by_cases h0 : k0 = k
    · simp [h0]
    · simp only [if_neg h0]
      apply ih
      unfold Map.keys at *; simp at h
      rcases h with h | h
      · exact absurd h.symm h0
      · simpa using h

/-- with distinct keys, lookups do not depend on the order of the association list -/
theorem find_reverse_of_nodup (m : Map) (hn : (Map.keys m).Nodup) (k : Nat) :
    Map.find m.reverse k = Map.find m k := by
  induction m with
  | nil => rfl
  | cons p m ih =>
    obtain ⟨k0, it⟩ := p
    have hn' : (Map.keys m).Nodup := by unfold Map.keys at *; simp at hn; exact hn.2
    have hk0 : k0 ∉ Map.keys m := by unfold Map.keys at *; simp at hn; simpa using hn.1
    have hkr : Map.keys m.reverse = (Map.keys m).reverse := by unfold Map.keys; simp
    simp only [List.reverse_cons, Map.find_cons]
    by_cases h0 : k0 = k
    · subst h0
      rw [find_append_of_not_mem _ _ _ (by rw [hkr]; simpa using hk0)]
      simp [Map.find_cons]
    · simp only [if_neg h0]
      by_cases hm : k ∈ Map.keys m
      · rw [find_append_of_mem _ _ _ (by rw [hkr]; simpa using hm)]; exact ih hn'
      · rw [find_append_of_not_mem _ _ _ (by rw [hkr]; simpa using hm)]
        simp only [Map.find_cons, if_neg h0, Map.find_nil]
        exact ((Map.find_none_iff m k).2 hm).symm

theorem fill_keys (n idbase : Nat) (base step d : Int) :
    Map.keys ((List.range n).map (fillItem idbase base step d)) = (List.range n).map (idbase + ·) := by
  unfold Map.keys; simp [fillItem, Function.comp_def]

theorem fill_keys_nodup (n idbase : Nat) (base step d : Int) :
    (Map.keys ((List.range n).map (fillItem idbase base step d))).Nodup := by
  rw [fill_keys]
  unfold List.Nodup
  rw [List.pairwise_map]
  exact (List.nodup_range (n := n)).imp (fun h e => h (by omega))

/-- one step of the fill in closed form -/
theorem fill_step (cap icap n idbase : Nat) (base step d : Int) (hn : n < cap)
    (hmono : ∀ i, i < n → before (ofTime (fillRxt base step n)) (ofTime (fillRxt base step i)) = false) :
    (handleRequest cap icap (fillStateRev n idbase base step d) (idbase + n) zeroReq
        (fillRxt base step n) (fillRxt base step n + d)).st = fillStateRev (n + 1) idbase base step d := by
  have hfind : Map.find (fillStateRev n idbase base step d).items (idbase + n) = none := by
    unfold fillStateRev; simp only; rw [find_fillRev]; rw [if_neg (by omega)]
  have hlen : (fillStateRev n idbase base step d).items.length = n := by
    unfold fillStateRev; simp
  unfold handleRequest handleRequestG
  simp only [hfind]
  have hev : evict cap (fillStateRev n idbase base step d) (ofTime (fillRxt base step n)) =
      (fillStateRev n idbase base step d, none) := by
    unfold evict
    have : ((fillStateRev n idbase base step d).items.length = cap) = False := by
      rw [hlen]; simp; omega
    simp [this]
  rw [hev]
  simp only
  have hne : ¬ (fillStateRev n idbase base step d).items.length = cap := by rw [hlen]; omega
  rw [if_neg hne]
  simp only
  -- the push
  have hpush : ∀ it : Item, it.qval = ofTime (fillRxt base step n) →
      push { fillStateRev n idbase base step d with
             items := (idbase + n, it) :: (fillStateRev n idbase base step d).items } (idbase + n) =
      { items := (idbase + n, { it with qidx := n }) :: (fillStateRev n idbase base step d).items,
        heap := (fillHeap n idbase).push (idbase + n) } := by
    intro it hq
    unfold push
    simp only
    have hsz : (fillStateRev n idbase base step d).heap.size = n := by
      unfold fillStateRev; simp [fillHeap_size]
    rw [hsz]
    have hset : setQidx ((idbase + n, it) :: (fillStateRev n idbase base step d).items) (idbase + n) n =
        (idbase + n, { it with qidx := n }) :: (fillStateRev n idbase base step d).items := by
      unfold setQidx Map.modify; simp
    rw [hset]
    have hh : (fillStateRev n idbase base step d).heap = fillHeap n idbase := rfl
    rw [hh]
    unfold up
    simp only
    by_cases h0 : (n - 1) / 2 = n
    · simp [h0]
    · have hi : (n - 1) / 2 < n := by omega
      have hless : less { items := (idbase + n, { it with qidx := n }) :: (fillStateRev n idbase base step d).items,
                          heap := (fillHeap n idbase).push (idbase + n) } n ((n - 1) / 2) = false := by
        unfold less kv hkey qv
        simp only
        have e1 : ((fillHeap n idbase).push (idbase + n)).getD n 0 = idbase + n := by
          simp [Array.getD_eq_getD_getElem?, fillHeap_size, Array.getElem_push]
        have e2 : ((fillHeap n idbase).push (idbase + n)).getD ((n - 1) / 2) 0 = idbase + (n - 1) / 2 := by
          have := fillHeap_getD n idbase ((n - 1) / 2) hi
          simp only [Array.getD_eq_getD_getElem?, Array.getElem?_push, fillHeap_size] at this ⊢
          rw [if_neg (by omega)]; exact this
        rw [e1, e2, Map.find_cons, if_pos rfl, Map.find_cons, if_neg (by omega)]
        unfold fillStateRev; simp only
        rw [find_fillRev, if_pos (by omega)]
        simp only [fillItem, Nat.add_sub_cancel_left, hq]
        exact hmono _ hi
      simp [h0, hless]
  rw [hpush _ rfl]
  unfold fillStateRev
  simp only [fillItems_succ, fillHeap_succ]
  congr 1
  unfold setBuf Map.modify
  simp [fillItem, fillTxt]
  -- the clock reading
  by_cases h : fillRxt base step n < fillRxt base step n + d
  · have h' : ¬ (fillRxt base step n + d ≤ fillRxt base step n) := by omega
    simp [h, h']
  · have h' : fillRxt base step n + d ≤ fillRxt base step n := by omega
    simp [h, h']

/-- `Time64FromTime` is monotone within one NTP era -/
theorem ofTime_mono_in_era (r t : Int) (h : r ≤ t)
    (hr : -2208988800 * 1000000000 ≤ r) (ht : t < (-2208988800 + 4294967296) * 1000000000) :
    before (ofTime t) (ofTime r) = false := by
  rw [before_false_iff]
  unfold ofTime unixSec nanosecond
  simp only
  t64c
  have hs : r / 1000000000 ≤ t / 1000000000 := by omega
  have h1 : -2208988800 ≤ r / 1000000000 := by omega
  have h2 : t / 1000000000 < -2208988800 + 4294967296 := by omega
  have e1 : (r / 1000000000 - -2208988800) % 4294967296 = r / 1000000000 + 2208988800 := by omega
  have e2 : (t / 1000000000 - -2208988800) % 4294967296 = t / 1000000000 + 2208988800 := by omega
  rw [e1, e2]
  by_cases hc : r / 1000000000 = t / 1000000000
  · right
    refine ⟨by omega, ?_⟩
    have : r % 1000000000 ≤ t % 1000000000 := by omega
    apply Int.ediv_le_ediv (by omega)
    omega
  · left; omega

end ScionTime.Server
