/-
  Helper lemmas for the cookie TLV codec (C10 cookie_roundtrip, C14Nts cookie round trips).
-/
import ScionTime.Model.Cookies
namespace ScionTime.Nts

theorem drop4' (a b c e : Nat) (l : Bytes) (n : Nat) : (a :: b :: c :: e :: l).drop (4 + n) = l.drop n := by
  have : 4 + n = n + 1 + 1 + 1 + 1 := by omega
  rw [this]; rfl

theorem tlv_step_num (chk : Bool) (t0 t1 t2 fuel num : Nat) (tail : Bytes) (st : TlvSt)
    (h0 : t0 < 65536) (hn : num < 65536) :
    tlvLoop chk t0 t1 t2 (fuel + 1) (be16 t0 ++ be16 2 ++ be16 num ++ tail) st =
      tlvLoop chk t0 t1 t2 fuel tail { st with num := some num } := by
  have e : be16 t0 ++ be16 2 ++ be16 num ++ tail =
      (t0 / 256 % 256) :: (t0 % 256) :: 0 :: 2 :: (num / 256 % 256) :: (num % 256) :: tail := by
    simp [be16]
  rw [e]
  simp only [tlvLoop, u16_be16 t0 h0, show u16 0 2 = 2 from rfl, if_true, u16_be16 num hn]
  simp
  have a : ¬ (tail.length + 1 + 1 < 2) := by omega
  simp [a]

theorem tlv_step_x (chk : Bool) (t0 t1 t2 fuel : Nat) (v tail : Bytes) (st : TlvSt)
    (h1 : t1 < 65536) (h10 : t1 ≠ t0) (hv : v.length < 65536) :
    tlvLoop chk t0 t1 t2 (fuel + 1) (be16 t1 ++ be16 v.length ++ v ++ tail) st =
      tlvLoop chk t0 t1 t2 fuel tail { st with x := some v } := by
  have e : be16 t1 ++ be16 v.length ++ v ++ tail =
      (t1 / 256 % 256) :: (t1 % 256) :: (v.length / 256 % 256) :: (v.length % 256) :: (v ++ tail) := by
    simp [be16]
  rw [e]
  simp only [tlvLoop, u16_be16 t1 h1, u16_be16 v.length hv, if_false, if_true, h10]
  simp
  have a : ¬ (v.length + tail.length < v.length) := by omega
  simp [a]

theorem tlv_step_y (chk : Bool) (t0 t1 t2 fuel : Nat) (v tail : Bytes) (st : TlvSt)
    (h2 : t2 < 65536) (h20 : t2 ≠ t0) (h21 : t2 ≠ t1) (hv : v.length < 65536) :
    tlvLoop chk t0 t1 t2 (fuel + 1) (be16 t2 ++ be16 v.length ++ v ++ tail) st =
      tlvLoop chk t0 t1 t2 fuel tail { st with y := some v } := by
  have e : be16 t2 ++ be16 v.length ++ v ++ tail =
      (t2 / 256 % 256) :: (t2 % 256) :: (v.length / 256 % 256) :: (v.length % 256) :: (v ++ tail) := by
    simp [be16]
  rw [e]
  simp only [tlvLoop, u16_be16 t2 h2, u16_be16 v.length hv, if_false, if_true, h20, h21]
  simp
  have a : ¬ (v.length + tail.length < v.length) := by omega
  simp [a]

/-- Decode ∘ Encode = id for both cookie forms (either code version). -/
theorem decodeTLV_encodeTLV (chk : Bool) (t0 t1 t2 : Nat) (c : Triple)
    (h0 : t0 < 65536) (h1 : t1 < 65536) (h2 : t2 < 65536) (h10 : t1 ≠ t0) (h20 : t2 ≠ t0) (h21 : t2 ≠ t1)
    (hn : c.num < 65536) (hx : c.x.length < 65536) (hy : c.y.length < 65536) :
    decodeTLV chk t0 t1 t2 (encodeTLV t0 t1 t2 c) = .ok c := by
  have hlen : (encodeTLV t0 t1 t2 c).length + 1 = (c.x.length + c.y.length + 11) + 1 + 1 + 1 + 1 := by
    simp [encodeTLV, be16]; omega
  unfold decodeTLV
  rw [hlen]
  have e : encodeTLV t0 t1 t2 c =
      be16 t0 ++ be16 2 ++ be16 c.num ++ (be16 t1 ++ be16 c.x.length ++ c.x ++ (be16 t2 ++ be16 c.y.length ++ c.y ++ [])) := by
    simp [encodeTLV, Nat.mod_eq_of_lt hx, Nat.mod_eq_of_lt hy]
  rw [e, tlv_step_num chk t0 t1 t2 _ c.num _ _ h0 hn, tlv_step_x chk t0 t1 t2 _ c.x _ _ h1 h10 hx,
    tlv_step_y chk t0 t1 t2 _ c.y _ _ h2 h20 h21 hy]
  simp [tlvLoop]

theorem encodeTLV_length (t0 t1 t2 : Nat) (c : Triple) :
    (encodeTLV t0 t1 t2 c).length = 14 + c.x.length + c.y.length := by
  simp [encodeTLV, be16]; omega

end ScionTime.Nts
