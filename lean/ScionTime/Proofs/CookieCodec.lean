/-
  Helper lemmas for the cookie TLV codec (C10 cookie_roundtrip, C14Nts cookie round trips).
-/
import ScionTime.Model.Cookies
namespace ScionTime.Nts

theorem drop4' (a b c e : Nat) (l : Bytes) (n : Nat) : (a :: b :: c :: e :: l).drop (4 + n) = l.drop n := by
  have : 4 + n = n + 1 + 1 + 1 + 1 := by omega
  rw [this]; rfl

theorem tlv_step_num (chk : Bool) (t0 t1 t2 fuel num : Nat) (tail : Bytes) (st : TlvSt)
    (h0 : t0 < 65536) (hn : num < 65536) :
    tlvLoop chk t0 t1 t2 (fuel + 1) (be16 t0 ++ be16 2 ++ be16 num ++ tail) st =
      tlvLoop chk t0 t1 t2 fuel tail { st with num := some num } := by
  have e : be16 t0 ++ be16 2 ++ be16 num ++ tail =
      (t0 / 256 % 256) :: (t0 % 256) :: 0 :: 2 :: (num / 256 % 256) :: (num % 256) :: tail := by
    simp [be16]
  rw [e]
  simp only [tlvLoop, u16_be16 t0 h0, show u16 0 2 = 2 from rfl, if_true, u16_be16 num hn]
  simp
  have a : ¬ (tail.length + 1 + 1 < 2) := by omega
  simp [a]

theorem tlv_step_x (chk : Bool) (t0 t1 t2 fuel : Nat) (v tail : Bytes) (st : TlvSt)
    (h1 : t1 < 65536) (h10 : t1 ≠ t0) (hv : v.length < 65536) :
    tlvLoop chk t0 t1 t2 (fuel + 1) (be16 t1 ++ be16 v.length ++ v ++ tail) st =
      tlvLoop chk t0 t1 t2 fuel tail { st with x := some v } := by
  have e : be16 t1 ++ be16 v.length ++ v ++ tail =
      (t1 / 256 % 256) :: (t1 % 256) :: (v.length / 256 % 256) :: (v.length % 256) :: (v ++ tail) := by
    simp [be16]
  rw [e]
  simp only [tlvLoop, u16_be16 t1 h1, u16_be16 v.length hv, if_false, if_true, h10]
  simp
  have a : ¬ (v.length + tail.length < v.length) := by omega
  simp [a]

theorem tlv_step_y (chk : Bool) (t0 t1 t2 fuel : Nat) (v tail : Bytes) (st : TlvSt)
    (h2 : t2 < 65536) (h20 : t2 ≠ t0) (h21 : t2 ≠ t1) (hv : v.length < 65536) :
    tlvLoop chk t0 t1 t2 (fuel + 1) (be16 t2 ++ be16 v.length ++ v ++ tail) st =
      tlvLoop chk t0 t1 t2 fuel tail { st with y := some v } := by
  have e : be16 t2 ++ be16 v.length ++ v ++ tail =
      (t2 / 256 % 256) :: (t2 % 256) :: (v.length / 256 % 256) :: (v.length % 256) :: (v ++ tail) := by
    simp [be16]
  rw [e]
  simp only [tlvLoop, u16_be16 t2 h2, u16_be16 v.length hv, if_false, if_true, h20, h21]
  simp
  have a : ¬ (v.length + tail.length < v.length) := by omega
  simp [a]

/-- Decode ∘ Encode = id for both cookie forms (either code version). -/
theorem decodeTLV_encodeTLV (chk : Bool) (t0 t1 t2 : Nat) (c : Triple)
    (h0 : t0 < 65536) (h1 : t1 < 65536) (h2 : t2 < 65536) (h10 : t1 ≠ t0) (h20 : t2 ≠ t0) (h21 : t2 ≠ t1)
    (hn : c.num < 65536) (hx : c.x.length < 65536) (hy : c.y.length < 65536) :
    decodeTLV chk t0 t1 t2 (encodeTLV t0 t1 t2 c) = .ok c := by
  have hlen : (encodeTLV t0 t1 t2 c).length + 1 = (c.x.length + c.y.length + 11) + 1 + 1 + 1 + 1 := by
    simp [encodeTLV, be16]; omega
  unfold decodeTLV
  rw [hlen]
  have e : encodeTLV t0 t1 t2 c =
      be16 t0 ++ be16 2 ++ be16 c.num ++ (be16 t1 ++ be16 c.x.length ++ c.x ++ (be16 t2 ++ be16 c.y.length ++ c.y ++ [])) := by
    simp [encodeTLV, Nat.mod_eq_of_lt hx, Nat.mod_eq_of_lt hy]
  rw [e, tlv_step_num chk t0 t1 t2 _ c.num _ _ h0 hn, tlv_step_x chk t0 t1 t2 _ c.x _ _ h1 h10 hx,
    tlv_step_y chk t0 t1 t2 _ c.y _ _ h2 h20 h21 hy]
  simp [tlvLoop]

theorem encodeTLV_length (t0 t1 t2 : Nat) (c : Triple) :
    (encodeTLV t0 t1 t2 c).length = 14 + c.x.length + c.y.length := by
  simp [encodeTLV, be16]; omega

end ScionTime.Nts

namespace ScionTime.Nts

/-- bytes a decoder state accounts for: 6 for the 2-byte field, 4 + length for each byte string -/
def TlvSt.size (st : TlvSt) : Nat :=
  (match st.num with | some _ => 6 | none => 0) +
  (match st.x with | some x => 4 + x.length | none => 0) +
  (match st.y with | some y => 4 + y.length | none => 0)

/-- every decoded field was read from its own TLV: the fields of the result fit in the input -/
theorem tlvLoop_size (t0 t1 t2 : Nat) :
    ∀ (fuel : Nat) (rest : Bytes) (st r : TlvSt), tlvLoop true t0 t1 t2 fuel rest st = .ok r →
      r.size ≤ st.size + rest.length := by
  intro fuel
  induction fuel with
  | zero => intro rest st r h; simp [tlvLoop] at h
  | succ fuel ih =>
    intro rest st r h
    match rest, h with
    | [], h => simp only [tlvLoop, Res.ok.injEq] at h; subst h; simp
    | [_], h => simp [tlvLoop] at h
    | [_, _], h => simp [tlvLoop] at h
    | [_, _, _], h => simp [tlvLoop] at h
    | a :: b :: c :: d :: v, h =>
      simp only [tlvLoop, Bool.true_and, decide_eq_true_eq] at h
      by_cases hl : u16 c d > v.length
      · simp [hl] at h
      · simp only [hl, if_false] at h
        have hdl : (v.drop (u16 c d)).length = v.length - u16 c d := by simp
        by_cases h0 : u16 a b = t0
        · simp only [h0, if_true] at h
          by_cases h2 : u16 c d < 2
          · simp [h2] at h
          · simp only [h2, if_false] at h
            match v, hl, h2, hdl, h with
            | n1 :: n0 :: v', hl, h2, hdl, h =>
              have := ih _ _ _ h
              have hs : ({ st with num := some (u16 n1 n0) } : TlvSt).size ≤ st.size + 6 := by
                simp only [TlvSt.size]; cases st.num <;> simp <;> omega
              simp only [List.length_cons] at *
              omega
            | [], hl, h2, _, _ => simp at hl; omega
            | [_], hl, h2, _, _ => simp at hl; omega
        · simp only [h0, if_false] at h
          by_cases h1 : u16 a b = t1
          · simp only [h1, if_true] at h
            have := ih _ _ _ h
            have hs : ({ st with x := some (v.take (u16 c d)) } : TlvSt).size ≤ st.size + 4 + u16 c d := by
              simp only [TlvSt.size, List.length_take]; cases st.x <;> simp <;> omega
            simp only [List.length_cons] at *
            omega
          · simp only [h1, if_false] at h
            by_cases h2 : u16 a b = t2
            · simp only [h2, if_true] at h
              have := ih _ _ _ h
              have hs : ({ st with y := some (v.take (u16 c d)) } : TlvSt).size ≤ st.size + 4 + u16 c d := by
                simp only [TlvSt.size, List.length_take]; cases st.y <;> simp <;> omega
              simp only [List.length_cons] at *
              omega
            · simp only [h2, if_false] at h
              have := ih _ _ _ h
              simp only [List.length_cons] at *
              omega

/-- a cookie that decodes is at least as long as its three TLVs -/
theorem decodeTLV_size (t0 t1 t2 : Nat) (b : Bytes) (c : Triple) (h : decodeTLV true t0 t1 t2 b = .ok c) :
    14 + c.x.length + c.y.length ≤ b.length := by
  unfold decodeTLV at h
  cases hl : tlvLoop true t0 t1 t2 (b.length + 1) b {} with
  | ok st =>
    rw [hl] at h
    have hs := tlvLoop_size t0 t1 t2 _ _ _ _ hl
    simp only at h
    cases hn : st.num <;> cases hx : st.x <;> cases hy : st.y <;> simp only [hn, hx, hy] at h <;> try (simp at h)
    rename_i n x y
    subst h
    simp only [TlvSt.size, hn, hx, hy] at hs
    show 14 + x.length + y.length ≤ b.length
    omega
  | err e => rw [hl] at h; simp at h
  | panic p => rw [hl] at h; simp at h
  | hang => rw [hl] at h; simp at h

end ScionTime.Nts
