/-
  `handleRequest` and `updateTX` preserve heap order.
-/
import ScionTime.Proofs.ServerOps
import ScionTime.Proofs.ServerHeapOrd
namespace ScionTime.Server
open ScionTime.Time64

/-- the whole heap array is in heap order w.r.t. the items' qvals -/
def HeapOk (st : State) : Prop := HeapOrd st st.heap.size

theorem qv_setBuf (m : Map) (id : Nat) (g : List Entry → List Entry) (k : Nat) :
    qv (setBuf m id g) k = qv m k := by
  unfold qv
  rw [find_setBuf]
  by_cases e : id = k
  · subst e
    simp only [if_true]
    cases Map.find m id <;> rfl
  · rw [if_neg e]

theorem kv_setBuf (st : State) (id : Nat) (g : List Entry → List Entry) (x : Nat) :
    kv { st with items := setBuf st.items id g } x = kv st x := by
  unfold kv
  exact qv_setBuf _ _ _ _

theorem heapOk_setBuf (st : State) (id : Nat) (g : List Entry → List Entry) (h : HeapOk st) :
    HeapOk { st with items := setBuf st.items id g } := by
  unfold HeapOk at *
  exact heapOrd_congr (fun x _ => kv_setBuf st id g x) h

theorem heapOk_handleRequestG (strict : Bool) (cap icap : Nat) (hcap : 1 ≤ cap) (st : State)
    (h : WF st) (ho : HeapOk st) (id : Nat) (req : Req) (rxt now : Int) :
    HeapOk (handleRequestG strict cap icap st id req rxt now).st := by
  unfold handleRequestG
  simp only
  split
  · rename_i it hit
    apply heapOk_setBuf
    obtain ⟨q', _, _, _, _, hq'⟩ := hr_fix_spec st h id it hit
      (scan it.buf req.org).mx (ofTime (uniq it.buf rxt (if (strict && !decide (rxt < now)) = true then rxt + 1 else now) (it.buf.length + 1)).1)
    rcases hq' with ⟨_, e, _⟩ | ⟨_, e, _⟩
    · rw [e]; exact ho
    · rw [e]; exact fixQval_heap st h ho id it hit _
  · rename_i hnone
    -- after the optional eviction
    have hev : WF (evict cap st (ofTime rxt)).1 ∧ HeapOk (evict cap st (ofTime rxt)).1 ∧
        (evict cap st (ofTime rxt)).1.items.find id = none := by
      unfold evict
      split
      · rename_i hc
        simp only [Bool.and_eq_true, decide_eq_true_eq] at hc
        have hpos : 0 < st.heap.size := by have := h.len; omega
        obtain ⟨a, b, c, d⟩ := popMin_spec st h hpos
        refine ⟨a, ?_, ?_⟩
        · unfold HeapOk
          have hs : (popMin st).1.heap.size = st.heap.size - 1 := by
            have := a.len; have := h.len; omega
          simp only
          rw [hs]
          exact popMin_heap st h hpos ho
        · simp only
          by_cases e : id = (popMin st).2
          · rw [e]; exact d
          · have := c id e
            rw [hnone] at this
            cases hf : Map.find (popMin st).1.items id <;> simp [hf] at this ⊢
      · exact ⟨h, ho, hnone⟩
    generalize (evict cap st (ofTime rxt)) = ev at hev ⊢
    obtain ⟨w1, o1, n1⟩ := hev
    split
    · exact o1
    · apply heapOk_setBuf
      obtain ⟨w2, l2, _⟩ := push_spec ev.1 w1 id { buf := [], qval := ofTime rxt, qidx := 0 } n1
      have hp := push_heap ev.1 w1 o1 id { buf := [], qval := ofTime rxt, qidx := 0 } n1
      unfold HeapOk
      have hs : (push { items := (id, { buf := [], qval := ofTime rxt, qidx := 0 }) :: ev.1.items, heap := ev.1.heap } id).heap.size
          = ev.1.heap.size + 1 := by
        have := w2.len; have := w1.len; omega
      rw [hs]; exact hp

theorem heapOk_updateTX (st : State) (h : WF st) (ho : HeapOk st) (id : Nat) (rxt txt1 : Int) :
    HeapOk (updateTX st id rxt txt1).1 := by
  unfold updateTX
  simp only
  split
  · exact ho
  · rename_i it hit
    generalize (if ¬ rxt < txt1 then rxt + 1 else txt1) = txt
    split
    · exact ho
    · split
      · exact heapOk_setBuf st id _ ho
      · split
        · obtain ⟨a, b, _, _⟩ := remove_spec st h id it hit
          have hr := remove_heap st h ho id it hit
          unfold HeapOk
          simp only
          have hs : (remove st it.qidx id).heap.size = st.heap.size - 1 := by
            have := a.len; have := h.len; omega
          rw [hs]; exact hr
        · apply heapOk_setBuf
          obtain ⟨q', _, _, _, _, hq'⟩ := utx_fix_spec st h id it hit
            (scan2 it.buf (ofTime rxt)).m0 (scan2 it.buf (ofTime rxt)).m1 (ofTime rxt)
          rcases hq' with ⟨_, e⟩ | ⟨_, _, _, _, e⟩
          · rw [e]; exact ho
          · rw [e]; exact fixQval_heap st h ho id it hit _

/-- in a heap-ordered array every slot is at least the root -/
theorem root_le (st : State) (n : Nat) (ho : HeapOrd st n) : ∀ c, c < n → le64 (kv st 0) (kv st c) := by
  intro c
  induction c using Nat.strongRecOn with
  | _ c ih =>
    intro hc
    by_cases h0 : c = 0
    · subst h0; exact le64_refl _
    · have hp : (c - 1) / 2 < c := by omega
      exact le64_trans (ih _ hp (by omega)) (ho c (by omega) hc)

end ScionTime.Server
