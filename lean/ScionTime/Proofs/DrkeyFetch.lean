/-
  Proofs/DrkeyFetch.lean — the Fetcher's cache (Model/DrkeyFetch.lean) as a map: lookup / insert
  lemmas and the characterisation of the refetch test. Used by Props/C13Keys.lean. Core Lean only.
-/
import ScionTime.Model.DrkeyFetch
namespace ScionTime.Drkey

theorem lookup_mem {f : Fetcher} {a : Nat} {k : HostASKey} (h : f.lookup a = some k) : (a, k) ∈ f.haks := by
  unfold Fetcher.lookup at h
  cases hf : f.haks.find? (fun e => e.1 == a) with
  | none => simp [hf] at h
  | some e =>
    simp only [hf, Option.map_some, Option.some.injEq] at h
    have hp := List.find?_some hf
    have hm := List.mem_of_find?_eq_some hf
    have : e.1 = a := by simpa using hp
    obtain ⟨e1, e2⟩ := e
    simp only at this h
    subst this; subst h
    exact hm

theorem lookup_insert_same (f : Fetcher) (a : Nat) (k : HostASKey) : (f.insert a k).lookup a = some k := by
  simp [Fetcher.lookup, Fetcher.insert]

theorem lookup_insert_other (f : Fetcher) (a a' : Nat) (k : HostASKey) (h : a' ≠ a) :
    (f.insert a k).lookup a' = f.lookup a' := by
  unfold Fetcher.lookup Fetcher.insert
  have h1 : ((a, k).1 == a') = false := by simpa using fun e => h e.symm
  simp only [List.find?_cons, h1]
  congr 1
  induction f.haks with
  | nil => rfl
  | cons e es ih =>
    by_cases he : e.1 = a
    · have : (e.1 != a) = false := by simp [he]
      have h2 : (e.1 == a') = false := by simpa [he] using fun e' => h e'.symm
      simp [this, h2, ih]
    · have : (e.1 != a) = true := by simpa using he
      simp only [List.filter_cons, this, if_true, List.find?_cons]
      split
      · rfl
      · exact ih

theorem mem_insert {f : Fetcher} {a : Nat} {k : HostASKey} {e : Nat × HostASKey}
    (h : e ∈ (f.insert a k).haks) : e = (a, k) ∨ (e ∈ f.haks ∧ e.1 ≠ a) := by
  simp only [Fetcher.insert, List.mem_cons, List.mem_filter] at h
  rcases h with h | ⟨h1, h2⟩
  · exact .inl h
  · exact .inr ⟨h1, by simpa using h2⟩

/-- the refetch test is false exactly for a cached key of the asked identity whose epoch
    contains the asked instant -/
theorem stale_false_iff (hit : Option HostASKey) (m : HostASMeta) :
    stale hit m = false ↔ ∃ k, hit = some k ∧ k.id = m.id ∧ k.epoch.contains m.validity = true := by
  cases hit with
  | none => simp [stale]
  | some k =>
    obtain ⟨⟨p, s, d, h⟩, ep, key⟩ := k
    obtain ⟨⟨p', s', d', h'⟩, v⟩ := m
    simp only [stale, Bool.or_eq_false_iff, Bool.not_eq_false', bne_eq_false_iff_eq, Option.some.injEq,
      exists_eq_left', KeyId.mk.injEq]
    constructor
    · rintro ⟨⟨⟨⟨h1, h2⟩, h3⟩, h4⟩, h5⟩; exact ⟨⟨h2, h3, h4, h5⟩, h1⟩
    · rintro ⟨⟨h2, h3, h4, h5⟩, h1⟩; exact ⟨⟨⟨⟨h1, h2⟩, h3⟩, h4⟩, h5⟩

end ScionTime.Drkey
