/-
  Proofs/C01.lean — helper lemmas for Props/C01.lean (synchronization loop, Model/Sync.lean).
  Part A: int64 facts (Abs, Sgn, Midpoint), F64 comparisons — core Lean only.
  Part B: the clamp, using the rounding lemmas of Proofs/F64.lean (builder f64proofs).
-/
import ScionTime.Model.Sync
import ScionTime.Proofs.F64

namespace ScionTime.Sync
open ScionTime.F64

/-! ### Int -/

theorem bmod_id {a : Int} (h1 : -2^63 ≤ a) (h2 : a < 2^63) : a.bmod (2^64) = a := by
  rw [Int.bmod_def]; omega

theorem tdiv2_spec (x : Int) :
    (0 ≤ x → 0 ≤ x.tdiv 2 ∧ 2 * x.tdiv 2 ≤ x ∧ x ≤ 2 * x.tdiv 2 + 1) ∧
    (x ≤ 0 → x.tdiv 2 ≤ 0 ∧ x ≤ 2 * x.tdiv 2 ∧ 2 * x.tdiv 2 ≤ x + 1) := by
  constructor
  · intro h; rw [Int.tdiv_eq_ediv_of_nonneg h]; omega
  · intro h
    have : x.tdiv 2 = -((-x) / 2) := by
      rw [← Int.tdiv_eq_ediv_of_nonneg (by omega), Int.neg_tdiv, Int.neg_neg]
    omega

/-! ### Int64: `Abs`, `Sgn`, `Midpoint` in terms of `toInt` -/

theorem toInt_range (x : Int64) : -2^63 ≤ x.toInt ∧ x.toInt < 2^63 :=
  ⟨Int64.le_toInt x, Int64.toInt_lt x⟩

theorem toInt_two : (2 : Int64).toInt = 2 := by decide

theorem absDur_toInt (x : Int64) :
    (absDur x).toInt = if x.toInt = -2^63 then 2^63 - 1 else (x.toInt.natAbs : Int) := by
  have hr := toInt_range x
  unfold absDur
  split
  · rename_i h
    have h' : (0 : Int64).toInt ≤ x.toInt := Int64.le_iff_toInt_le.mp h
    rw [Int64.toInt_zero] at h'
    split <;> omega
  · rename_i h
    have h' : ¬ (0 : Int64).toInt ≤ x.toInt := fun hh => h (Int64.le_iff_toInt_le.mpr hh)
    rw [Int64.toInt_zero] at h'
    split
    · rename_i he
      subst he
      rw [Int64.toInt_maxValue, Int64.toInt_minValue]; simp
    · rename_i he
      have hne : x.toInt ≠ -2^63 := by
        intro hh; apply he; apply Int64.toInt_inj.mp; rw [hh, Int64.toInt_minValue]
      rw [Int64.toInt_neg, bmod_id (by omega) (by omega)]
      split <;> omega

theorem absDur_nonneg (x : Int64) : 0 ≤ (absDur x).toInt := by
  rw [absDur_toInt]; split <;> omega

theorem absDur_le_natAbs (x : Int64) : (absDur x).toInt ≤ x.toInt.natAbs := by
  rw [absDur_toInt]; split <;> omega

theorem absDur_eq_natAbs {x : Int64} (h : x.toInt ≠ -2^63) : (absDur x).toInt = x.toInt.natAbs := by
  rw [absDur_toInt]; split <;> omega

theorem absDur_zero_iff (x : Int64) : (absDur x).toInt = 0 ↔ x.toInt = 0 := by
  rw [absDur_toInt]; split <;> omega

theorem sgn_eq (x : Int64) :
    sgn x = if x.toInt < 0 then -1 else if x.toInt > 0 then 1 else 0 := by
  unfold sgn
  have e1 : (x < 0) ↔ x.toInt < 0 := by rw [Int64.lt_iff_toInt_lt, Int64.toInt_zero]
  have e2 : (x > 0) ↔ x.toInt > 0 := by
    show (0 < x) ↔ _; rw [Int64.lt_iff_toInt_lt, Int64.toInt_zero]
  simp only [e1, e2]

/-- `timemath.Midpoint` without wrap-around: when both arguments are below `2^62` in
    magnitude, the result is `x + (y - x) quot 2` over the integers. -/
theorem midpoint_toInt {x y : Int64} (hx : x.toInt.natAbs < 2^62) (hy : y.toInt.natAbs < 2^62) :
    (midpoint x y).toInt = x.toInt + (y.toInt - x.toInt).tdiv 2 := by
  unfold midpoint
  have hs := tdiv2_spec (y.toInt - x.toInt)
  rw [Int64.toInt_add, Int64.toInt_div, Int64.toInt_sub, toInt_two,
    bmod_id (a := y.toInt - x.toInt) (by omega) (by omega),
    bmod_id (a := (y.toInt - x.toInt).tdiv 2) (by omega) (by omega),
    bmod_id (by omega) (by omega)]

/-- the midpoint lies between its arguments (no-wrap range) -/
theorem midpoint_between {x y : Int64} (hx : x.toInt.natAbs < 2^62) (hy : y.toInt.natAbs < 2^62) :
    (x.toInt ≤ (midpoint x y).toInt ∧ (midpoint x y).toInt ≤ y.toInt) ∨
    (y.toInt ≤ (midpoint x y).toInt ∧ (midpoint x y).toInt ≤ x.toInt) := by
  rw [midpoint_toInt hx hy]
  have hs := tdiv2_spec (y.toInt - x.toInt)
  omega

/-- `|Midpoint a b| ≤ max |a| |b|` (no-wrap range) -/
theorem midpoint_natAbs_le {x y : Int64} (hx : x.toInt.natAbs < 2^62) (hy : y.toInt.natAbs < 2^62) :
    (midpoint x y).toInt.natAbs ≤ max x.toInt.natAbs y.toInt.natAbs := by
  have := midpoint_between hx hy
  omega

/-! ### F64 comparisons -/

theorem ofInt_ne_nan (i : Int) : ofInt i ≠ .nan := roundNE_ne_nan _

theorem gt_false_imp_le {a b : F64} (ha : a ≠ .nan) (hb : b ≠ .nan) (h : F64.gt a b = false) :
    F64.le a b = true := by
  unfold F64.gt at h
  cases a <;> cases b <;> simp_all [F64.lt, F64.le, toRat] <;> grind

theorem le_trans' {a b c : F64} (h1 : F64.le a b = true) (h2 : F64.le b c = true) :
    F64.le a c = true := by
  cases a <;> cases b <;> cases c <;> simp_all [F64.le, toRat] <;> grind

theorem lt_imp_le {a b : F64} (h : F64.lt a b = true) : F64.le a b = true := by
  cases a <;> cases b <;> simp_all [F64.lt, F64.le, toRat] <;> grind

theorem lt_of_lt_of_le' {a b c : F64} (h1 : F64.lt a b = true) (h2 : F64.le b c = true) :
    F64.lt a c = true := by
  cases a <;> cases b <;> cases c <;> simp_all [F64.lt, F64.le, toRat] <;> grind

theorem le_fin_iff {p q : Rat} : F64.le (.fin p) (.fin q) = true ↔ p ≤ q := by
  unfold F64.le; simp only [toRat]; exact decide_eq_true_iff

theorem lt_fin_iff {p q : Rat} : F64.lt (.fin p) (.fin q) = true ↔ p < q := by
  unfold F64.lt; simp only [toRat]; exact decide_eq_true_iff

/-- `a > +0` for a double means: `+Inf` or a positive finite value -/
theorem gt_zero_iff (a : F64) :
    F64.gt a fzero = true ↔ a = .inf false ∨ ∃ q, a = .fin q ∧ 0 < q := by
  unfold F64.gt fzero
  cases a with
  | nan => simp [F64.lt]
  | inf n => cases n <;> simp [F64.lt]
  | zero n => simp [F64.lt, toRat]
  | fin q =>
    simp only [F64.lt, toRat, reduceCtorEq, false_or, F64.fin.injEq, exists_eq_left']
    exact decide_eq_true_iff

/-! ### Part B: truncation and the clamp -/

theorem size_eq : Int64.size = 2^64 := by decide

/-- `time.Duration(f)` followed by `Abs()` never exceeds `|trunc f|`, including the
    "integer indefinite" result for out-of-range values -/
theorem absDur_ofInt_sat (t : Int) :
    (absDur (Int64.ofInt (if t < -9223372036854775808 ∨ t > 9223372036854775807
        then -9223372036854775808 else t))).toInt ≤ t.natAbs := by
  split
  · have : (Int64.ofInt (-9223372036854775808)).toInt = -2^63 := by decide
    rw [absDur_toInt, this]; simp; omega
  · rename_i h
    have e : (Int64.ofInt t).toInt = t := by
      rw [Int64.toInt_ofInt, size_eq, bmod_id (by omega) (by omega)]
    have := absDur_le_natAbs (Int64.ofInt t)
    rw [e] at this; exact this

theorem floor_nonneg {m : Rat} (h : 0 ≤ m) : 0 ≤ m.floor :=
  Rat.le_floor_iff.mpr (by simpa using h)

/-- `|time.Duration(±m)| ≤ m` for a positive double `m` (whatever its size) -/
theorem absDur_durOfF64_pos {m : Rat} (hm : 0 < m) :
    ((absDur (durOfF64 (.fin m))).toInt : Rat) ≤ m := by
  have hf := floor_nonneg (Rat.le_of_lt hm)
  have h := absDur_ofInt_sat m.floor
  have e : durOfF64 (.fin m) = Int64.ofInt (if m.floor < -9223372036854775808 ∨ m.floor > 9223372036854775807
        then -9223372036854775808 else m.floor) := by
    unfold durOfF64 toInt64
    simp only [if_neg (show ¬ m < 0 by grind)]
  rw [e]
  have h2 : (absDur (Int64.ofInt (if m.floor < -9223372036854775808 ∨ m.floor > 9223372036854775807
        then -9223372036854775808 else m.floor))).toInt ≤ m.floor := by omega
  exact Rat.le_trans (Rat.intCast_le_intCast.mpr h2) (Rat.floor_le m)

theorem absDur_durOfF64_neg {m : Rat} (hm : 0 < m) :
    ((absDur (durOfF64 (.fin (-m)))).toInt : Rat) ≤ m := by
  have hf := floor_nonneg (Rat.le_of_lt hm)
  have h := absDur_ofInt_sat (-(m.floor))
  have e : durOfF64 (.fin (-m)) = Int64.ofInt (if -(m.floor) < -9223372036854775808 ∨ -(m.floor) > 9223372036854775807
        then -9223372036854775808 else -(m.floor)) := by
    unfold durOfF64 toInt64
    simp only [if_pos (show -m < 0 by grind), Rat.neg_neg]
  rw [e]
  have h2 : (absDur (Int64.ofInt (if -(m.floor) < -9223372036854775808 ∨ -(m.floor) > 9223372036854775807
        then -9223372036854775808 else -(m.floor)))).toInt ≤ m.floor := by omega
  exact Rat.le_trans (Rat.intCast_le_intCast.mpr h2) (Rat.floor_le m)

theorem lt_inf_false (b : F64) : F64.lt (.inf false) b = false := by
  cases b <;> simp [F64.lt]

/-- what the clamp does, structurally -/
theorem clamp_cases (M : F64) (x : Int64) :
    (F64.gt (f64OfDur (absDur x)) M = false ∧ clamp M x = x) ∨
    (F64.gt (f64OfDur (absDur x)) M = true ∧
      clamp M x = durOfF64 (F64.mul (F64.ofInt (sgn x)) M)) := by
  unfold clamp
  cases h : F64.gt (f64OfDur (absDur x)) M <;> simp

/-- In the clamped branch with a positive finite cap `m`: the new value is
    `time.Duration(±m)`, and its magnitude is at most `m`. -/
theorem clamped_le {m : Rat} (hW : WF (.fin m)) (hm : 0 < m) {x : Int64}
    (hgt : F64.gt (f64OfDur (absDur x)) (.fin m) = true) :
    ((absDur (durOfF64 (F64.mul (F64.ofInt (sgn x)) (.fin m)))).toInt : Rat) ≤ m := by
  rw [sgn_eq]
  split
  · rw [mul_negone_left hW]; exact absDur_durOfF64_neg hm
  · split
    · rw [mul_one_left hW]; exact absDur_durOfF64_pos hm
    · exfalso
      have hz : x.toInt = 0 := by omega
      have : (absDur x).toInt = 0 := (absDur_zero_iff x).mpr hz
      unfold f64OfDur at hgt
      rw [this, ofInt_zero] at hgt
      simp only [F64.gt, F64.lt, toRat] at hgt
      have := of_decide_eq_true hgt
      grind

/-- the bound "in the float sense": `float64(|x|) <= M` as doubles -/
def FBound (M : F64) (x : Int64) : Prop := F64.le (f64OfDur (absDur x)) M = true

/-- **the clamp bounds** (float sense): for every well-formed cap `M > 0` and every int64 `x` -/
theorem clamp_fbound {M : F64} (hW : WF M) (hpos : F64.gt M fzero = true) (x : Int64) :
    FBound M (clamp M x) := by
  unfold FBound
  have hMn : M ≠ .nan := by intro h; subst h; simp [F64.gt, F64.lt, fzero] at hpos
  rcases clamp_cases M x with ⟨hg, e⟩ | ⟨hg, e⟩
  · rw [e]; exact gt_false_imp_le (ofInt_ne_nan _) hMn hg
  · rcases (gt_zero_iff M).mp hpos with hi | ⟨m, rfl, hm⟩
    · subst hi; unfold F64.gt at hg; rw [lt_inf_false] at hg; exact absurd hg (by simp)
    · rw [e]
      have h := clamped_le hW hm hg
      have := le_roundNE_of_le h
      rw [roundNE_of_WF hW] at this
      exact this

theorem FBound_zero {M : F64} (hpos : F64.gt M fzero = true) : FBound M 0 := by
  unfold FBound f64OfDur
  have : (absDur 0).toInt = 0 := by decide
  rw [this, ofInt_zero]
  rcases (gt_zero_iff M).mp hpos with hi | ⟨m, rfl, hm⟩
  · subst hi; rfl
  · simp only [F64.le, toRat]; exact decide_eq_true (Rat.le_of_lt hm)

theorem ofInt_pow53 : ofInt (2^53) = .fin ((2^53 : Int) : Rat) := ofInt_exact (by decide) (by decide)
theorem ofInt_pow62 : ofInt (2^62) = .fin ((2^62 : Int) : Rat) := by decide +kernel

/-- below `2^53` the float comparison is the exact one -/
theorem le_of_fle_exact {A : Int} {m : Rat} (hA : 0 ≤ A) (hm : m < ((2^53 : Int) : Rat))
    (h : F64.le (ofInt A) (.fin m) = true) : (A : Rat) ≤ m := by
  by_cases hA2 : A ≤ 2^53
  · by_cases h0 : A = 0
    · subst h0; rw [ofInt_zero] at h
      simp only [F64.le, toRat] at h
      simpa using of_decide_eq_true h
    · rw [ofInt_exact h0 (by omega)] at h
      exact le_fin_iff.mp h
  · exfalso
    have h1 := ofInt_mono (show (2^53 : Int) ≤ A by omega)
    rw [ofInt_pow53] at h1
    have := le_fin_iff.mp (le_trans' h1 h)
    grind

/-- a float-sense bound by a cap below `2^62` keeps the integer below `2^62` -/
theorem lt_pow62_of_fle {A : Int} {m : Rat} (hm : m < ((2^62 : Int) : Rat))
    (h : F64.le (ofInt A) (.fin m) = true) : A < 2^62 := by
  by_cases hA2 : A < 2^62
  · exact hA2
  · exfalso
    have h1 := ofInt_mono (show (2^62 : Int) ≤ A by omega)
    rw [ofInt_pow62] at h1
    have := le_fin_iff.mp (le_trans' h1 h)
    grind

/-- **the clamp bounds** (exact sense): for a cap below `2^53` ns the result satisfies
    `|x| ≤ M` over the rationals. -/
theorem clamp_exact {m : Rat} (hW : WF (.fin m)) (hm : 0 < m) (hm53 : m < ((2^53 : Int) : Rat))
    (x : Int64) : (((clamp (.fin m) x).toInt.natAbs : Int) : Rat) ≤ m := by
  have hpos : F64.gt (.fin m) fzero = true := (gt_zero_iff _).mpr (Or.inr ⟨m, rfl, hm⟩)
  have hb := clamp_fbound hW hpos x
  unfold FBound f64OfDur at hb
  have h1 := le_of_fle_exact (absDur_nonneg _) hm53 hb
  have hne : (clamp (.fin m) x).toInt ≠ -2^63 := by
    intro hh
    rw [absDur_toInt, if_pos hh] at h1
    have : (((2^63 - 1 : Int)) : Rat) < ((2^53 : Int) : Rat) := by grind
    have := Rat.intCast_lt_intCast.mp this
    omega
  rw [absDur_eq_natAbs hne] at h1
  exact h1

/-! ### Part C: the loop body -/

theorem FBound_mono {M : F64} {x y : Int64} (h : (absDur x).toInt ≤ (absDur y).toInt)
    (hy : FBound M y) : FBound M x := by
  unfold FBound f64OfDur at *
  exact le_trans' (ofInt_mono h) hy

theorem FBound_weaken {M N : F64} {x : Int64} (h : F64.le M N = true) (hx : FBound M x) :
    FBound N x := le_trans' hx h

theorem natAbs_lt_of_FBound {m : Rat} {x : Int64} (hm : m < ((2^62 : Int) : Rat))
    (h : FBound (.fin m) x) : x.toInt.natAbs < 2^62 := by
  unfold FBound f64OfDur at h
  have h1 := lt_pow62_of_fle hm h
  have hr := toInt_range x
  rw [absDur_toInt] at h1
  split at h1 <;> omega

/-- exact form of a float-sense bound by a cap below `2^53` -/
theorem exact_of_FBound {m : Rat} {x : Int64} (hm : m < ((2^53 : Int) : Rat))
    (h : FBound (.fin m) x) : ((x.toInt.natAbs : Int) : Rat) ≤ m := by
  unfold FBound f64OfDur at h
  have h1 := le_of_fle_exact (absDur_nonneg _) hm h
  have hne : x.toInt ≠ -2^63 := by
    intro hh
    rw [absDur_toInt, if_pos hh] at h1
    have : (((2^63 - 1 : Int)) : Rat) < ((2^53 : Int) : Rat) := by grind
    have := Rat.intCast_lt_intCast.mp this
    omega
  rw [absDur_eq_natAbs hne] at h1
  exact h1

theorem peerPart_within_cutoff {M : F64} {cutoff x : Int64} (hp : Bool)
    (h : absDur x ≤ cutoff) : peerPart M cutoff hp x = (x, false) := by
  unfold peerPart
  have : ¬ absDur x > cutoff := by
    intro hh
    have := Int64.lt_iff_toInt_lt.mp hh
    have := Int64.le_iff_toInt_le.mp h
    omega
  rw [if_neg this]

theorem peerPart_beyond_cutoff {M : F64} {cutoff x : Int64} (hp : Bool)
    (h : absDur x > cutoff) : peerPart M cutoff hp x = (clamp M x, hp) := by
  unfold peerPart; rw [if_pos h]

/-- the midpoint of two values bounded (float sense) by caps below `2^62` is bounded by one
    of the two caps -/
theorem midpoint_FBound {mr mp : Rat} {a b : Int64}
    (hr62 : mr < ((2^62 : Int) : Rat)) (hp62 : mp < ((2^62 : Int) : Rat))
    (ha : FBound (.fin mr) a) (hb : FBound (.fin mp) b) :
    FBound (.fin mr) (midpoint a b) ∨ FBound (.fin mp) (midpoint a b) := by
  have ha2 := natAbs_lt_of_FBound hr62 ha
  have hb2 := natAbs_lt_of_FBound hp62 hb
  have hm := midpoint_natAbs_le ha2 hb2
  have hmid := absDur_le_natAbs (midpoint a b)
  have ea : (absDur a).toInt = a.toInt.natAbs := absDur_eq_natAbs (by omega)
  have eb : (absDur b).toInt = b.toInt.natAbs := absDur_eq_natAbs (by omega)
  by_cases hc : (midpoint a b).toInt.natAbs ≤ a.toInt.natAbs
  · exact Or.inl (FBound_mono (by omega) ha)
  · exact Or.inr (FBound_mono (by omega) hb)

/-- **one round, float sense**: whatever the two measured offsets are, the argument of
    `adj.Do` is bounded by the reference cap or by the peer cap. -/
theorem correction_FBound (c : Cfg) {mr mp : Rat}
    (er : refCap c = .fin mr) (ep : peerCap c = .fin mp) (hr : 0 < mr) (hp : 0 < mp)
    (hr62 : mr < ((2^62 : Int) : Rat)) (hp62 : mp < ((2^62 : Int) : Rat))
    (haveRefs havePeers : Bool) (refOff peerOff : Int64) :
    FBound (refCap c) (correction c haveRefs havePeers refOff peerOff) ∨
    FBound (peerCap c) (correction c haveRefs havePeers refOff peerOff) := by
  have wr : WF (refCap c) := WF_mul _ _
  have wp : WF (peerCap c) := WF_mul _ _
  have gr : F64.gt (refCap c) fzero = true := (gt_zero_iff _).mpr (Or.inr ⟨mr, er, hr⟩)
  have gp : F64.gt (peerCap c) fzero = true := (gt_zero_iff _).mpr (Or.inr ⟨mp, ep, hp⟩)
  have ha := clamp_fbound wr gr refOff
  have hb := clamp_fbound wp gp peerOff
  unfold correction
  by_cases hcut : absDur peerOff > c.cutoff
  · rw [peerPart_beyond_cutoff _ hcut]
    cases haveRefs <;> cases havePeers <;> simp only [combine]
    · exact Or.inl (FBound_zero gr)
    · exact Or.inr hb
    · exact Or.inl ha
    · rw [er, ep] at *
      exact midpoint_FBound hr62 hp62 ha hb
  · have hle : absDur peerOff ≤ c.cutoff := by
      apply Int64.le_iff_toInt_le.mpr
      have : ¬ c.cutoff.toInt < (absDur peerOff).toInt := fun hh => hcut (Int64.lt_iff_toInt_lt.mpr hh)
      omega
    rw [peerPart_within_cutoff _ hle]
    cases haveRefs <;> simp only [combine]
    · exact Or.inl (FBound_zero gr)
    · exact Or.inl ha

/-! ### Part D: start-up -/

theorem one_eq : one = .fin 1 := by
  unfold one; rw [ofInt_exact (by decide) (by decide)]; simp

theorem gt_one_iff (a : F64) :
    F64.gt a one = true ↔ a = .inf false ∨ ∃ q, a = .fin q ∧ 1 < q := by
  rw [one_eq]; unfold F64.gt
  cases a with
  | nan => simp [F64.lt]
  | inf n => cases n <;> simp [F64.lt]
  | zero n =>
    simp only [F64.lt, toRat, reduceCtorEq, false_and, exists_false, or_self, iff_false]
    exact (by decide : ¬ decide ((1 : Rat) < 0) = true)
  | fin q =>
    simp only [F64.lt, toRat, reduceCtorEq, false_or, F64.fin.injEq, exists_eq_left']
    exact decide_eq_true_iff

/-- literal reading of the repaired prologue -/
theorem admissible_iff_literal (c : Cfg) : admissible c = true ↔
    F64.gt c.refImpact one = true ∧ F64.gt c.peerImpact one = true ∧
    F64.gt (F64.sub c.peerImpact one) c.refImpact = true ∧
    ¬ c.interval ≤ 0 ∧ ¬ (c.timeout < 0 ∨ c.timeout > c.interval / 2) ∧
    F64.gt (refCap c) fzero = true ∧ refCap c ≠ .inf false ∧
    F64.gt (peerCap c) fzero = true ∧ peerCap c ≠ .inf false := by
  unfold admissible startup
  repeat' split
  all_goals simp_all
  all_goals grind

theorem gt_pos_fin {a : F64} (h : F64.gt a fzero = true) (hi : a ≠ .inf false) :
    ∃ q, a = .fin q ∧ 0 < q := by
  rcases (gt_zero_iff a).mp h with h | h
  · exact absurd h hi
  · exact h

theorem roundNE_pos_arg {q : Rat} (h : F64.gt (roundNE q) fzero = true) : 0 < q := by
  rcases (gt_zero_iff _).mp h with hi | ⟨v, e, hv⟩
  · rcases roundNE_class q with ⟨_, _, h0⟩ | ⟨e', _⟩ | ⟨hf, _⟩
    · exact h0
    · rw [hi] at e'; exact F64.noConfusion e' (fun h => by cases h)
    · rw [hi] at hf; exact Bool.noConfusion hf
  · by_cases hq : 0 < q
    · exact hq
    · exfalso
      have := roundNE_nonpos (show q ≤ 0 by grind)
      rw [e] at this; simp only [toRat] at this; grind

/-- the interval/timeout tests over the integers -/
theorem interval_timeout_int {interval timeout : Int64}
    (h1 : ¬ interval ≤ 0) (h2 : ¬ (timeout < 0 ∨ timeout > interval / 2)) :
    0 < interval.toInt ∧ 0 ≤ timeout.toInt ∧ 2 * timeout.toInt ≤ interval.toInt := by
  have hi : 0 < interval.toInt := by
    have : ¬ interval.toInt ≤ (0 : Int64).toInt := fun hh => h1 (Int64.le_iff_toInt_le.mpr hh)
    rw [Int64.toInt_zero] at this; omega
  have ht : 0 ≤ timeout.toInt := by
    have : ¬ timeout.toInt < (0 : Int64).toInt := fun hh => h2 (Or.inl (Int64.lt_iff_toInt_lt.mpr hh))
    rw [Int64.toInt_zero] at this; omega
  have hr := toInt_range interval
  have hs := (tdiv2_spec interval.toInt).1 (by omega)
  have hd : (interval / 2).toInt = interval.toInt.tdiv 2 := by
    rw [Int64.toInt_div, toInt_two, bmod_id (by omega) (by omega)]
  have : ¬ (interval / 2).toInt < timeout.toInt := fun hh => h2 (Or.inr (Int64.lt_iff_toInt_lt.mpr hh))
  rw [hd] at this
  omega

/-- What an accepted configuration satisfies, over the rationals / integers: the
    inequalities of the property statement, positive finite ordered caps. -/
structure AdmissibleReal (c : Cfg) (r p d mr mp : Rat) : Prop where
  refImpact : c.refImpact = .fin r
  peerImpact : c.peerImpact = .fin p
  ref_gt_one : 1 < r
  peer_gt_one : 1 < p
  gap : r < p - 1
  drift_f : f64OfDur c.drift = .fin d
  drift_pos : 0 < c.drift.toInt
  d_pos : 0 < d
  interval_pos : 0 < c.interval.toInt
  timeout_nonneg : 0 ≤ c.timeout.toInt
  timeout_le : 2 * c.timeout.toInt ≤ c.interval.toInt
  refCap : refCap c = .fin mr
  peerCap : peerCap c = .fin mp
  refCap_eq : F64.fin mr = roundNE (r * d)
  peerCap_eq : F64.fin mp = roundNE (p * d)
  mr_pos : 0 < mr
  caps_le : mr ≤ mp

theorem admissible_real (c : Cfg) (wr : WF c.refImpact)
    (h : admissible c = true) : ∃ r p d mr mp, AdmissibleReal c r p d mr mp := by
  obtain ⟨h1, h2, h3, h4, h5, h6, h7, h8, h9⟩ := (admissible_iff_literal c).mp h
  obtain ⟨hi, ht, ht2⟩ := interval_timeout_int h4 h5
  -- the reference factor is finite
  rcases (gt_one_iff _).mp h1 with e | ⟨r, er, hr⟩
  · rw [e] at h3; unfold F64.gt at h3; rw [lt_inf_false] at h3; exact absurd h3 (by simp)
  obtain ⟨mr, emr, hmr⟩ := gt_pos_fin h6 h7
  obtain ⟨mp, emp, hmp⟩ := gt_pos_fin h8 h9
  -- the peer factor is finite
  rcases (gt_one_iff _).mp h2 with e | ⟨p, ep, hp⟩
  · exfalso
    unfold peerCap at emp; rw [e] at emp
    cases hD : f64OfDur c.drift <;> rw [hD] at emp <;> simp [F64.mul] at emp
  -- the drift as a double
  have hD : ∃ d, f64OfDur c.drift = .fin d := by
    unfold refCap at emr; rw [er] at emr
    cases hD : f64OfDur c.drift <;> rw [hD] at emr <;> simp [F64.mul] at emr
    exact ⟨_, rfl⟩
  obtain ⟨d, ed⟩ := hD
  have emr' : F64.fin mr = roundNE (r * d) := by
    rw [← emr]; unfold refCap; rw [er, ed]; rfl
  have emp' : F64.fin mp = roundNE (p * d) := by
    rw [← emp]; unfold peerCap; rw [ep, ed]; rfl
  have hrd : 0 < r * d := roundNE_pos_arg (by rw [← emr']; exact (gt_zero_iff _).mpr (Or.inr ⟨mr, rfl, hmr⟩))
  have hd : 0 < d := by
    by_cases hd : 0 < d
    · exact hd
    · exfalso
      have : r * d ≤ 0 := by
        have := Rat.mul_le_mul_of_nonneg_left (show d ≤ 0 by grind) (show 0 ≤ r by grind)
        simpa using this
      grind
  have hdrift : 0 < c.drift.toInt := by
    by_cases hh : 0 < c.drift.toInt
    · exact hh
    · exfalso
      have := ofInt_mono (show c.drift.toInt ≤ 0 by omega)
      unfold f64OfDur at ed
      rw [ed, ofInt_zero] at this
      simp only [F64.le, toRat] at this
      have := of_decide_eq_true this
      grind
  -- peer − 1 > ref over the rationals
  have hgap : r < p - 1 := by
    by_cases hg : r < p - 1
    · exact hg
    · exfalso
      rw [er, ep, one_eq] at h3
      have e3 : F64.sub (.fin p) (.fin 1) = roundNE (p + -1) := rfl
      rw [e3] at h3
      have hle := le_roundNE_of_le (show p + -1 ≤ r by grind)
      rw [er] at wr
      rw [roundNE_of_WF wr] at hle
      have := lt_of_lt_of_le' h3 hle
      exact Rat.lt_irrefl (lt_fin_iff.mp this)
  have hcaps : mr ≤ mp := by
    have := mul_mono_left (Rat.le_of_lt hd) (show r ≤ p by grind)
    rw [← emr', ← emp'] at this
    exact le_fin_iff.mp this
  exact ⟨r, p, d, mr, mp, ⟨er, ep, hr, hp, hgap, ed, hdrift, hd, hi, ht, ht2, emr, emp, emr', emp', hmr, hcaps⟩⟩

/-! ### Part E: histories, bookkeeping -/

theorem runFrom_forall (c : Cfg) (P : Int64 → Prop) (hP : ∀ st i, P (round c st i).2) :
    ∀ (h : List RoundInput) (st : State), ∀ x ∈ runFrom c st h, P x := by
  intro h
  induction h with
  | nil => intro st x hx; simp [runFrom] at hx
  | cons i is ih =>
    intro st x hx
    simp only [runFrom, List.mem_cons] at hx
    rcases hx with rfl | hx
    · exact hP st i
    · exact ih _ x hx

theorem correction_no_peers (c : Cfg) (haveRefs : Bool) (r p : Int64) :
    correction c haveRefs false r p = if haveRefs then clamp (refCap c) r else 0 := by
  unfold correction peerPart
  split <;> cases haveRefs <;> rfl

theorem insertSorted_length (x : Int64) (l : List Int64) : (insertSorted x l).length = l.length + 1 := by
  induction l with
  | nil => rfl
  | cons y ys ih => unfold insertSorted; split <;> simp [ih]

theorem sortOffsets_length (l : List Int64) : (sortOffsets l).length = l.length := by
  induction l with
  | nil => rfl
  | cons x xs ih => simp [sortOffsets, insertSorted_length, ih]


/-! ### Part F: the caps and the real product -/

theorem fin_roundNE_eq_rnd {m q : Rat} (h : F64.fin m = roundNE q) : m = rnd q := by
  rcases roundNE_class q with ⟨e, _⟩ | ⟨e, _⟩ | ⟨_, e, _⟩
  · rw [e] at h; cases h
  · rw [e] at h; cases h
  · rw [← h] at e; exact e

/-- the cap is the real product up to one rounding: relative error at most 2^-53 -/
theorem cap_rel_err {f d m : Rat} (hf : 1 < f) (hd : 1 ≤ d) (h : F64.fin m = roundNE (f * d)) :
    (m - f * d).abs ≤ (f * d) / pow2 53 := by
  have e := fin_roundNE_eq_rnd h
  have hpos : 1 ≤ f * d := by
    have := Rat.mul_le_mul_of_nonneg_left hd (show (0:Rat) ≤ f by grind)
    grind
  have habs : (f * d).abs = f * d := by
    simp only [Rat.abs]; split <;> grind
  have hsmall : pow2 (-1022) ≤ (f * d).abs := by
    rw [habs]
    have : pow2 (-1022) ≤ pow2 0 := pow2_mono (by decide)
    rw [pow2_zero] at this
    grind
  have := rnd_err_rel hsmall
  rw [habs, ← e] at this
  exact this

theorem drift_d_ge_one {x : Int64} {d : Rat} (h : f64OfDur x = .fin d) (hx : 0 < x.toInt) : 1 ≤ d := by
  have := ofInt_mono (show (1 : Int) ≤ x.toInt by omega)
  unfold f64OfDur at h
  rw [h, ofInt_exact (by decide) (by decide)] at this
  simpa using le_fin_iff.mp this

theorem drift_d_exact {x : Int64} {d : Rat} (h : f64OfDur x = .fin d) (hx : 0 < x.toInt)
    (h53 : x.toInt ≤ 2^53) : d = (x.toInt : Rat) := by
  unfold f64OfDur at h
  rw [ofInt_exact (by omega) (by omega)] at h
  cases h; rfl

end ScionTime.Sync
