/-
  Proofs/CollectRounds.lean — the product of measurement rounds (Model/CollectRounds.lean):
  every round of every global schedule satisfies the single-round invariant `Collect.Inv` with
  respect to ITS OWN arguments. Helper lemmas for Props/C16Rounds.
-/
import ScionTime.Model.CollectRounds
import ScionTime.Proofs.Collect
namespace ScionTime.CollectRounds
open ScionTime.Collect

/-- a step of a goroutine (anything but a tick) does not move the clock -/
theorem step_now {s s' : St} {c : Choice} (h : step s c = some s') (hc : isTick c = false) :
    s'.now = s.now := by
  cases c with
  | tick t => simp [isTick] at hc
  | finish id =>
    simp only [step] at h
    split at h
    · split at h
      · cases h; rfl
      · cases h
    · cases h
  | abort id =>
    simp only [step] at h
    split at h
    · split at h
      · cases h; rfl
      · cases h
    · cases h
  | cancel =>
    simp only [step] at h
    split at h
    · cases h; rfl
    · cases h
  | recv id =>
    cases hp : s.phase with
    | done left => simp [step, hp] at h
    | loop =>
      cases hf : findMsg s.sending id with
      | none => simp [step, hp, hf] at h
      | some m =>
        simp only [step, hp, hf] at h
        split at h
        · cases h
          exact (collectorRecv_lists _ m).2.2.2.2.2.1
        · cases h
  | observeCancel =>
    simp only [step] at h
    split at h
    · split at h
      · cases h; rfl
      · cases h
    · cases h
  | retFull =>
    simp only [step] at h
    split at h
    · split at h
      · cases h; rfl
      · cases h
    · cases h
  | drain id =>
    cases hp : s.phase with
    | loop => simp [step, hp] at h
    | done left =>
      cases hf : findMsg s.sending id with
      | none => simp [step, hp, hf] at h
      | some m =>
        simp only [step, hp, hf] at h
        split at h
        · cases h; rfl
        · cases h

/-- time passing over a round in which nothing can run, not beyond its earliest timer (a tick of
    the product seen from one round), preserves the round's invariant -/
theorem inv_idle {t0 d : Int} {ms0 : List Msg} {ids : List Nat} {s : St} (h : Inv t0 d ms0 ids s)
    (t : Int) (hb : busy s = false) (hall : ∀ u ∈ timers s, t ≤ u) :
    Inv t0 d ms0 ids { s with now := t } := by
  refine ⟨⟨h.slice.len, h.slice.len0, h.slice.iEq, h.slice.jEq, h.slice.iLe, h.slice.front, h.slice.tail⟩,
    h.cons, ⟨h.drain.cnt, h.drain.loopDr⟩, ⟨h.time.dl, fun hp => ?_, h.time.ret⟩, h.nIds⟩
  simp only at hp ⊢
  have hnd : s.ctxDone = false := by
    cases hc : s.ctxDone with
    | false => rfl
    | true => simp [busy, hp, hc] at hb
  have hmemd : s.deadline ∈ timers s := by simp [timers, hnd]
  have := hall _ hmemd
  have := h.time.dl
  omega

/-- the invariant of the product: every round carries the shared clock, was entered with
    `len(ms) = len(refclks)`, and satisfies the single-round invariant for its own arguments -/
def RoundInv (now : Int) (r : Round) : Prop :=
  r.st.now = now ∧ r.spec.ms0.length = r.spec.senders.length ∧
  Inv r.t0 r.spec.deadline r.spec.ms0 (r.spec.senders.map (·.id)) r.st

def MInv (m : Multi) : Prop := ∀ r ∈ m.rounds, RoundInv m.now r

theorem minv_init (t : Int) : MInv (minit t) := by
  intro r hr; simp [minit] at hr

theorem mem_flatMap_timers {m : Multi} {r : Round} (hr : r ∈ m.rounds) {u : Int} (hu : u ∈ timers r.st) :
    u ∈ mtimers m := by
  unfold mtimers
  exact List.mem_flatMap.mpr ⟨r, hr, hu⟩

theorem minv_step {m m' : Multi} {c : MChoice} (h : MInv m) (hs : mstep m c = some m') : MInv m' := by
  cases c with
  | start spec =>
    simp only [mstep] at hs
    split at hs
    · rename_i hc
      cases hs
      intro r hr
      simp only [List.mem_append, List.mem_singleton] at hr
      rcases hr with hr | rfl
      · exact h r hr
      · exact ⟨rfl, hc.2, inv_init _ _ _ _ hc.2⟩
    · cases hs
  | inRound k c =>
    simp only [mstep] at hs
    split at hs
    · cases hs
    · rename_i hnt
      split at hs
      · rename_i r hk
        split at hs
        · rename_i s' hst
          cases hs
          intro r' hr'
          have hmem : r ∈ m.rounds := List.mem_of_getElem? hk
          obtain ⟨h1, h2, h3⟩ := h r hmem
          rcases List.mem_or_eq_of_mem_set hr' with hr' | rfl
          · exact h r' hr'
          · refine ⟨?_, h2, inv_step h3 (step_sound hst)⟩
            simp only
            rw [step_now hst (by simpa using hnt)]; exact h1
        · cases hs
      · cases hs
  | tick t =>
    simp only [mstep] at hs
    split at hs
    · rename_i hc
      cases hs
      intro r' hr'
      simp only [List.mem_map] at hr'
      obtain ⟨r, hr, rfl⟩ := hr'
      obtain ⟨h1, h2, h3⟩ := h r hr
      have hb : busy r.st = false := by
        have := hc.1
        simp only [mbusy, List.any_eq_true, not_exists, not_and, Bool.not_eq_true] at this
        exact this r hr
      have hall : ∀ u ∈ timers r.st, t ≤ u := by
        intro u hu
        have := List.all_eq_true.mp hc.2.2 u (mem_flatMap_timers hr hu)
        simpa using this
      exact ⟨rfl, h2, inv_idle h3 t hb hall⟩
    · cases hs

theorem minv_run {m m' : Multi} {sched : List MChoice} (h : MInv m) (hr : mrun m sched = some m') : MInv m' := by
  induction sched generalizing m with
  | nil => simp only [mrun, Option.some.injEq] at hr; subst hr; exact h
  | cons c rest ih =>
    simp only [mrun] at hr
    split at hr
    · rename_i m1 hs
      exact ih (minv_step h hs) hr
    · cases hr

end ScionTime.CollectRounds
