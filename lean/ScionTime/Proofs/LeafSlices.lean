/-
  Lemmas for the ties of the slice-valued leaves (third generation of the leaf translator):
  the prelude's sort is the model's, lengths, `len`, bounds-checked indexing. Core Lean only.
-/
import ScionTime.Model.GoPrelude
import ScionTime.Model.Timemath
import ScionTime.Proofs.GoPrelude
namespace ScionTime.LeafSlices
open ScionTime ScionTime.GoLemmas

theorem insertI64_eq (a : Int64) (l : List Int64) : Go.insertI64 a l = Timemath.insertBy Int64.toInt a l := by
  induction l with
  | nil => rfl
  | cons b l ih => simp [Go.insertI64, Timemath.insertBy, ih]

theorem sortI64_eq (l : List Int64) : Go.sortI64 l = Timemath.sort64 l := by
  induction l with
  | nil => rfl
  | cons a l ih =>
    simp only [Go.sortI64, Timemath.sort64, Timemath.sortBy, insertI64_eq]
    rw [ih]; rfl

theorem length_insertBy {α : Type} (key : α → Int) (a : α) (l : List α) :
    (Timemath.insertBy key a l).length = l.length + 1 := by
  induction l with
  | nil => rfl
  | cons b l ih => simp only [Timemath.insertBy]; split <;> simp [ih]

theorem length_sort64 (l : List Int64) : (Timemath.sort64 l).length = l.length := by
  unfold Timemath.sort64
  induction l with
  | nil => rfl
  | cons a l ih => simp [Timemath.sortBy, length_insertBy, ih]

theorem len_toInt {α : Type} (l : List α) (h : l.length < 4611686018427387904) : (Go.len l).toInt = l.length := by
  unfold Go.len
  have : Int64.ofNat l.length = Int64.ofInt (l.length : Int) := by
    simp [Int64.ofNat, Int64.ofInt]
  rw [this]; apply toInt_ofInt_of_fits <;> omega

theorem idx_in (s : List Int64) (i : Int64) (k : Nat) (hi : i.toInt = k) (hk : k < s.length) :
    Go.idx? s i = some (s.getD k 0) := by
  unfold Go.idx?
  have : 0 ≤ i.toInt ∧ i.toInt < s.length := by omega
  rw [if_pos this]
  have : i.toInt.toNat = k := by omega
  rw [this]
  simp [List.getD, hk]

end ScionTime.LeafSlices
