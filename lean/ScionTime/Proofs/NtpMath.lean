/-
  Helper lemmas for Model/NtpMath.lean: the int64 formulas equal the integer formulas
  when nothing saturates or wraps.
-/
import ScionTime.Model.NtpMath
namespace ScionTime.NtpMath

theorem sub64_toInt (t u : Int) (hlo : -9223372036854775808 ≤ t - u)
    (hhi : t - u ≤ 9223372036854775807) : (sub64 t u).toInt = t - u := by
  unfold sub64
  rw [if_neg (by omega), if_neg (by omega)]
  exact Int64.toInt_ofInt_of_le (by omega) (by omega)

/-- saturating `Sub` always has the sign of the exact difference -/
theorem sub64_neg_iff (t u : Int) : (sub64 t u < 0) ↔ t - u < 0 := by
  rw [Int64.lt_iff_toInt_lt]
  show (sub64 t u).toInt < 0 ↔ _
  unfold sub64
  split
  · rw [Int64.toInt_minValue]; omega
  · split
    · rw [Int64.toInt_maxValue]; omega
    · rw [Int64.toInt_ofInt_of_le (by omega) (by omega)]

theorem tdiv2_bounds (x : Int) : 2 * Int.tdiv x 2 ≤ x + 1 ∧ x - 1 ≤ 2 * Int.tdiv x 2 ∧
    (0 ≤ x → 2 * Int.tdiv x 2 ≤ x) ∧ (x ≤ 0 → x ≤ 2 * Int.tdiv x 2) := by
  rcases Int.le_total 0 x with h | h
  · rw [Int.tdiv_eq_ediv_of_nonneg h]; omega
  · have : Int.tdiv x 2 = -((-x) / 2) := by
      rw [← Int.tdiv_eq_ediv_of_nonneg (by omega), Int.neg_tdiv, Int.neg_neg]
    rw [this]; omega

theorem clockOffset64_eq (t0 t1 t2 t3 : Int) (h : InRange t0 t1 t2 t3) :
    (clockOffset64 t0 t1 t2 t3).toInt = clockOffset t0 t1 t2 t3 := by
  obtain ⟨a1, a2, b1, b2, _, _, _, _⟩ := h
  unfold clockOffset64 clockOffset
  have h2 : (2 : Int64).toInt = 2 := by decide
  rw [Int64.toInt_div, Int64.toInt_add, sub64_toInt _ _ (by omega) (by omega),
    sub64_toInt _ _ (by omega) (by omega), h2]
  rw [Int.bmod_eq_of_le (n := (t1 - t0 + (t2 - t3))) (by omega) (by omega)]
  have := tdiv2_bounds (t1 - t0 + (t2 - t3))
  exact Int.bmod_eq_of_le (by omega) (by omega)

theorem roundTripDelay64_eq (t0 t1 t2 t3 : Int) (h : InRange t0 t1 t2 t3) :
    (roundTripDelay64 t0 t1 t2 t3).toInt = roundTripDelay t0 t1 t2 t3 := by
  obtain ⟨_, _, _, _, c1, c2, d1, d2⟩ := h
  unfold roundTripDelay64 roundTripDelay
  rw [Int64.toInt_sub, sub64_toInt _ _ (by omega) (by omega),
    sub64_toInt _ _ (by omega) (by omega)]
  exact Int.bmod_eq_of_le (by omega) (by omega)

end ScionTime.NtpMath
