/-
  Proofs/C17.lean — helper lemmas for property C17 (offset filters).
  Core Lean only.
-/
import ScionTime.Model.Filters
namespace ScionTime.Filters
open List ScionTime.F64

/-! ## Sorting: `sortBy` is a permutation and sorts -/

def SortedBy (key : Meas → Int64) (l : List Meas) : Prop :=
  l.Pairwise (fun a b => key a ≤ key b)

theorem insertBy_perm (key : Meas → Int64) (x : Meas) :
    ∀ l, (insertBy key x l).Perm (x :: l)
  | [] => Perm.refl _
  | y :: ys => by
    unfold insertBy
    split
    · exact Perm.refl _
    · exact ((insertBy_perm key x ys).cons y).trans (Perm.swap x y ys)

theorem foldl_insertBy_perm (key : Meas → Int64) :
    ∀ (l acc : List Meas), (l.foldl (fun acc x => insertBy key x acc) acc).Perm (l ++ acc)
  | [], _ => Perm.refl _
  | x :: xs, acc => by
    simp only [List.foldl_cons]
    refine (foldl_insertBy_perm key xs (insertBy key x acc)).trans ?_
    exact ((insertBy_perm key x acc).append_left xs).trans perm_middle

theorem sortBy_perm (key : Meas → Int64) (l : List Meas) : (sortBy key l).Perm l := by
  have := foldl_insertBy_perm key l []
  simpa [sortBy] using this

theorem insertBy_sorted (key : Meas → Int64) (x : Meas) :
    ∀ l, SortedBy key l → SortedBy key (insertBy key x l)
  | [], _ => by simp [insertBy, SortedBy]
  | y :: ys, h => by
    unfold insertBy
    have hc := List.pairwise_cons.mp h
    split
    · rename_i hlt
      refine List.pairwise_cons.mpr ⟨?_, h⟩
      intro z hz
      rcases List.mem_cons.mp hz with rfl | hz
      · exact Int64.le_of_lt hlt
      · exact Int64.le_of_lt (Int64.lt_of_lt_of_le hlt (hc.1 z hz))
    · rename_i hnlt
      refine List.pairwise_cons.mpr ⟨?_, insertBy_sorted key x ys hc.2⟩
      intro z hz
      have hz' := (insertBy_perm key x ys).subset hz
      rcases List.mem_cons.mp hz' with rfl | hz''
      · exact Int64.not_lt.mp hnlt
      · exact hc.1 z hz''

theorem foldl_insertBy_sorted (key : Meas → Int64) :
    ∀ (l acc : List Meas), SortedBy key acc →
      SortedBy key (l.foldl (fun acc x => insertBy key x acc) acc)
  | [], _, h => h
  | x :: xs, acc, h => by
    simp only [List.foldl_cons]
    exact foldl_insertBy_sorted key xs _ (insertBy_sorted key x acc h)

theorem sortBy_sorted (key : Meas → Int64) (l : List Meas) : SortedBy key (sortBy key l) :=
  foldl_insertBy_sorted key l [] List.Pairwise.nil

theorem sortBy_length (key : Meas → Int64) (l : List Meas) : (sortBy key l).length = l.length :=
  (sortBy_perm key l).length_eq

/-- Sorting by offset and projecting gives a sorted list of offsets. -/
theorem sortBy_off_sorted (l : List Meas) :
    ((sortBy Meas.off l).map Meas.off).Pairwise (· ≤ ·) := by
  have h := sortBy_sorted Meas.off l
  unfold SortedBy at h
  exact List.pairwise_map.mpr h

/-! ## The selection made by the code is a "k lowest delays" selection -/

/-- `luckySelect pick w` and the rest of the window. -/
def luckyRest (pick : Nat) (w : List Meas) : List Meas :=
  if pick < w.length then (sortBy Meas.rtd w).drop pick else []

theorem luckySelect_perm (pick : Nat) (w : List Meas) :
    (luckySelect pick w ++ luckyRest pick w).Perm w := by
  unfold luckySelect luckyRest
  split
  · rw [List.take_append_drop]; exact sortBy_perm _ _
  · simp

theorem luckySelect_length (pick : Nat) (w : List Meas) :
    (luckySelect pick w).length = min pick w.length := by
  unfold luckySelect
  split
  · rw [List.length_take, sortBy_length]
  · omega

theorem luckySelect_low (pick : Nat) (w : List Meas) :
    ∀ a ∈ luckySelect pick w, ∀ b ∈ luckyRest pick w, a.rtd ≤ b.rtd := by
  unfold luckySelect luckyRest
  split
  · have h := sortBy_sorted Meas.rtd w
    unfold SortedBy at h
    rw [← List.take_append_drop pick (sortBy Meas.rtd w)] at h
    exact (List.pairwise_append.mp h).2.2
  · intro a _ b hb; simp at hb

/-! ## Uniqueness of the selection for distinct delays -/

/-- With pairwise distinct delays, membership in a "lowest delays" selection is decided by
    counting the samples of smaller delay: the selection is `w.filter P` up to order. -/
theorem selection_perm_filter (w sel rest : List Meas)
    (hperm : (sel ++ rest).Perm w)
    (hdist : w.Pairwise (fun a b => a.rtd ≠ b.rtd))
    (hlow : ∀ a ∈ sel, ∀ b ∈ rest, a.rtd ≤ b.rtd) :
    sel.Perm (w.filter (fun x => decide (w.countP (fun y => decide (y.rtd < x.rtd)) < sel.length))) := by
  have hd' : (sel ++ rest).Pairwise (fun a b => a.rtd ≠ b.rtd) :=
    hperm.symm.pairwise hdist (fun h => fun e => h e.symm)
  obtain ⟨hds, hdr, hcross⟩ := List.pairwise_append.mp hd'
  have hcount : ∀ x : Meas, w.countP (fun y => decide (y.rtd < x.rtd))
      = sel.countP (fun y => decide (y.rtd < x.rtd)) + rest.countP (fun y => decide (y.rtd < x.rtd)) := by
    intro x
    rw [← hperm.countP_eq, List.countP_append]
  -- every member of sel satisfies P
  have hsel : ∀ x ∈ sel, decide (w.countP (fun y => decide (y.rtd < x.rtd)) < sel.length) = true := by
    intro x hx
    have h0 : rest.countP (fun y => decide (y.rtd < x.rtd)) = 0 := by
      apply List.countP_eq_zero.mpr
      intro b hb
      have := hlow x hx b hb
      simp only [decide_eq_true_eq]
      exact Int64.not_lt.mpr this
    have h1 : sel.countP (fun y => decide (y.rtd < x.rtd)) < sel.length := by
      apply Nat.lt_of_le_of_ne List.countP_le_length
      intro he
      have := (List.countP_eq_length.mp he) x hx
      simp only [decide_eq_true_eq] at this
      have := Int64.lt_iff_toInt_lt.mp this
      omega
    rw [hcount x, h0]
    simpa using h1
  -- no member of rest satisfies P
  have hrest : ∀ x ∈ rest, ¬ decide (w.countP (fun y => decide (y.rtd < x.rtd)) < sel.length) = true := by
    intro x hx
    have h1 : sel.countP (fun y => decide (y.rtd < x.rtd)) = sel.length := by
      apply List.countP_eq_length.mpr
      intro a ha
      have hle := hlow a ha x hx
      have hne := hcross a ha x hx
      simp only [decide_eq_true_eq]
      rw [Int64.lt_iff_toInt_lt]
      rw [Int64.le_iff_toInt_le] at hle
      have : a.rtd.toInt ≠ x.rtd.toInt := fun e => hne (Int64.toInt_inj.mp e)
      omega
    rw [hcount x, h1]
    simp
  have hf := (hperm.filter (fun x => decide (w.countP (fun y => decide (y.rtd < x.rtd)) < sel.length))).symm
  rw [List.filter_append, List.filter_eq_self.mpr hsel, List.filter_eq_nil_iff.mpr hrest, List.append_nil] at hf
  exact hf.symm

theorem selection_unique (w sel rest sel' rest' : List Meas)
    (hdist : w.Pairwise (fun a b => a.rtd ≠ b.rtd))
    (hperm : (sel ++ rest).Perm w) (hlow : ∀ a ∈ sel, ∀ b ∈ rest, a.rtd ≤ b.rtd)
    (hperm' : (sel' ++ rest').Perm w) (hlow' : ∀ a ∈ sel', ∀ b ∈ rest', a.rtd ≤ b.rtd)
    (hlen : sel.length = sel'.length) : sel.Perm sel' := by
  have h1 := selection_perm_filter w sel rest hperm hdist hlow
  have h2 := selection_perm_filter w sel' rest' hperm' hdist hlow'
  rw [hlen] at h1
  exact h1.trans h2.symm

/-- Two sorted lists of `Int64` that are permutations of each other are equal. -/
theorem sorted_perm_unique (s s' : List Int64)
    (hs : s.Pairwise (· ≤ ·)) (hs' : s'.Pairwise (· ≤ ·)) (hp : s.Perm s') : s = s' :=
  List.Perm.eq_of_pairwise (fun _ _ _ _ h1 h2 => Int64.le_antisymm h1 h2) hs hs' hp

/-! ## The FIFO window -/

/-- The last `n` elements. -/
def lastN {α : Type} (n : Nat) (l : List α) : List α := l.drop (l.length - n)

theorem lastN_length {α : Type} (n : Nat) (l : List α) : (lastN n l).length = min n l.length := by
  unfold lastN; rw [List.length_drop]; omega

/-- Dropping the oldest sample of a full window and appending is "the last `cap`". -/
theorem push_window {α : Type} (cap : Nat) (hcap : 1 ≤ cap) (h : List α) (m : α) :
    (if (lastN cap h).length = cap then (lastN cap h).drop 1 else lastN cap h) ++ [m]
      = lastN cap (h ++ [m]) := by
  rw [lastN_length]
  unfold lastN
  by_cases hl : cap ≤ h.length
  · have h1 : min cap h.length = cap := by omega
    rw [if_pos h1, List.drop_drop, List.length_append, List.length_singleton]
    rw [List.drop_append_of_le_length (by omega)]
    congr 2; omega
  · have h1 : ¬ min cap h.length = cap := by omega
    rw [if_neg h1, List.length_append, List.length_singleton]
    have e1 : h.length - cap = 0 := by omega
    have e2 : h.length + 1 - cap = 0 := by omega
    rw [e1, e2]; simp

/-- The median of a non-empty slice exists (no index panic). -/
theorem medianI64_isSome (s : List Int64) (h : 0 < s.length) : ∃ v, medianI64 s = some v := by
  unfold medianI64
  simp only
  split
  · have : s.length / 2 < s.length := by omega
    exact ⟨s[s.length/2], List.getElem?_eq_getElem this⟩
  · have h1 : s.length / 2 - 1 < s.length := by omega
    have h2 : s.length / 2 < s.length := by omega
    rw [List.getElem?_eq_getElem h1, List.getElem?_eq_getElem h2]
    have : ¬ s.length / 2 = 0 := by omega
    simp [this]

/-! ## Lifting `Int64` arithmetic to `Int` on the no-overflow domain -/

theorem bmod_id (x : Int) (h1 : -9223372036854775808 ≤ x) (h2 : x ≤ 9223372036854775807) :
    x.bmod (2 ^ 64) = x := by
  have : (2:Nat)^64 = 18446744073709551616 := by decide
  rw [this]
  unfold Int.bmod
  simp only []
  omega

theorem toInt_range (a : Int64) : -9223372036854775808 ≤ a.toInt ∧ a.toInt ≤ 9223372036854775807 := by
  have h1 := Int64.le_toInt a
  have h2 := Int64.toInt_lt a
  constructor <;> omega

theorem toInt_two : (2 : Int64).toInt = 2 := by decide

/-- `x + (y-x)/2` computed in `int64` is the integer midpoint (truncating) when
    `|x|, |y| < 2^62`. -/
theorem midpoint64_toInt (x y : Int64)
    (hx1 : -4611686018427387904 < x.toInt) (hx2 : x.toInt < 4611686018427387904)
    (hy1 : -4611686018427387904 < y.toInt) (hy2 : y.toInt < 4611686018427387904)
    (hxy : x.toInt ≤ y.toInt) :
    (midpoint64 x y).toInt = x.toInt + (y.toInt - x.toInt) / 2 := by
  unfold midpoint64
  rw [Int64.toInt_add, Int64.toInt_div, Int64.toInt_sub, toInt_two]
  rw [bmod_id (y.toInt - x.toInt) (by omega) (by omega)]
  rw [Int.tdiv_eq_ediv_of_nonneg (by omega)]
  rw [bmod_id ((y.toInt - x.toInt) / 2) (by omega) (by omega)]
  rw [bmod_id _ (by omega) (by omega)]

theorem timeSub_toInt (t u : Int) (h1 : minI64 ≤ t - u) (h2 : t - u ≤ maxI64) :
    (timeSub t u).toInt = t - u := by
  unfold timeSub
  unfold minI64 maxI64 at *
  simp only
  rw [if_neg (by omega), if_neg (by omega), Int64.toInt_ofInt]
  exact bmod_id _ h1 h2

/-- `ntp.ClockOffset` is the truncated half-sum over the integers when both legs are below
    `2^62` in magnitude. -/
theorem clockOffset_toInt (t0 t1 t2 t3 : Int)
    (ha1 : -4611686018427387904 ≤ t1 - t0) (ha2 : t1 - t0 ≤ 4611686018427387904)
    (hb1 : -4611686018427387904 ≤ t2 - t3) (hb2 : t2 - t3 ≤ 4611686018427387903) :
    (clockOffset t0 t1 t2 t3).toInt = Int.tdiv ((t1 - t0) + (t2 - t3)) 2 := by
  unfold clockOffset
  rw [Int64.toInt_div, Int64.toInt_add, toInt_two]
  rw [timeSub_toInt t1 t0 (by unfold minI64; omega) (by unfold maxI64; omega)]
  rw [timeSub_toInt t2 t3 (by unfold minI64; omega) (by unfold maxI64; omega)]
  rw [bmod_id (t1 - t0 + (t2 - t3)) (by omega) (by omega)]
  apply bmod_id
  · rcases Int.le_total 0 (t1 - t0 + (t2 - t3)) with h | h
    · rw [Int.tdiv_eq_ediv_of_nonneg h]; omega
    · have : (t1 - t0 + (t2 - t3)) = -(-(t1 - t0 + (t2 - t3))) := by omega
      rw [this, Int.neg_tdiv, Int.tdiv_eq_ediv_of_nonneg (by omega)]; omega
  · rcases Int.le_total 0 (t1 - t0 + (t2 - t3)) with h | h
    · rw [Int.tdiv_eq_ediv_of_nonneg h]; omega
    · have : (t1 - t0 + (t2 - t3)) = -(-(t1 - t0 + (t2 - t3))) := by omega
      rw [this, Int.neg_tdiv, Int.tdiv_eq_ediv_of_nonneg (by omega)]; omega

/-! ## Ntimed: structure of `Do` -/

/-- The float value of a small sample count. -/
def natF (n : Nat) : F64 := if n = 0 then .zero false else .fin (n : Rat)

/-- Counting up to `filterAverage` is exact: complete table over `0..19`. -/
theorem navg_table : ∀ i : Fin 20,
    lt (natF i.val) c20 = true ∧ add (natF i.val) c1 = natF (i.val + 1) := by decide +kernel

/-- `navg > 3.0` is false for the counts 1, 2, 3 (and 0). -/
theorem navg_le3_table : ∀ i : Fin 4, gt (natF i.val) c3 = false := by decide +kernel

theorem ntimedReset_navg (e : Nat) (f : Ntimed) : (ntimedReset e f).navg = natF 0 := rfl
theorem ntimedReset_epoch (e : Nat) (f : Ntimed) : (ntimedReset e f).epoch = e := rfl

/-- `Reset` does not depend on the state it is applied to. -/
theorem ntimedReset_const (e : Nat) (f g : Ntimed) : ntimedReset e f = ntimedReset e g := rfl

theorem ntimedEnter_same (e : Nat) (f : Ntimed) (h : f.epoch = e) : ntimedEnter e f = f := by
  unfold ntimedEnter; simp [h]

theorem ntimedEnter_change (e : Nat) (f : Ntimed) (h : f.epoch ≠ e) :
    ntimedEnter e f = ntimedReset e f := by
  unfold ntimedEnter; simp [h]

theorem ntimedEnter_reset (e : Nat) (f : Ntimed) :
    ntimedEnter e (ntimedReset e f) = ntimedReset e f := by
  unfold ntimedEnter; simp [ntimedReset_epoch]

theorem ntimedEnter_idem (e : Nat) (f : Ntimed) :
    ntimedEnter e (ntimedEnter e f) = ntimedEnter e f := by
  unfold ntimedEnter
  split
  · simp [ntimedReset_epoch]
  · rename_i h; simp at h; simp

theorem ntimedEnter_epoch (e : Nat) (f : Ntimed) : (ntimedEnter e f).epoch = e := by
  unfold ntimedEnter
  split
  · rfl
  · rename_i h; simpa using h

/-- `Do` only looks at the state through `ntimedEnter`. -/
theorem ntimedDoFull_enter (e : Nat) (f : Ntimed) (x : Sample) :
    ntimedDoFull e (ntimedEnter e f) x = ntimedDoFull e f x := by
  unfold ntimedDoFull
  simp only [ntimedEnter_idem]

theorem ntimedDoFull_state_epoch (e : Nat) (f : Ntimed) (x : Sample) :
    (ntimedDoFull e f x).state.epoch = e := by
  unfold ntimedDoFull
  exact ntimedEnter_epoch e f

theorem ntimedDoFull_state_navg (e : Nat) (f : Ntimed) (x : Sample) :
    (ntimedDoFull e f x).state.navg = ntimedNavg (ntimedEnter e f) := rfl

/-- The value returned is `Inv(Duration(mid))` for the `mid` the branch chain leaves. -/
theorem ntimedDoFull_out (e : Nat) (f : Ntimed) (x : Sample) :
    (ntimedDoFull e f x).out = inv64 (toDuration (ntimedDoFull e f x).mid) := rfl

theorem ntimedBranch_cases (f : Ntimed) (navg lo hi mid : F64) (failLo failHi : Bool) :
    let bm := ntimedBranch f navg lo hi mid failLo failHi
    (bm.1 = 1 ∧ failLo = true ∧ failHi = true ∧ bm.2 = mid) ∨
    (bm.1 = 2 ∧ gt navg c3 = true ∧ failLo = true ∧ failHi = false ∧ bm.2 = add f.amid (sub hi f.ahi)) ∨
    (bm.1 = 3 ∧ gt navg c3 = true ∧ failLo = false ∧ failHi = true ∧ bm.2 = add f.amid (sub lo f.alo)) ∨
    (bm.1 = 4 ∧ ¬ (failLo = true ∧ failHi = true) ∧ (gt navg c3 = false ∨ (failLo = false ∧ failHi = false))
       ∧ bm.2 = mid) := by
  unfold ntimedBranch
  cases failLo <;> cases failHi <;> cases gt navg c3 <;> simp

/-- After `n` samples since a reset (same epoch, `n + k ≤ 20`), `navg` is exactly `n + k`. -/
theorem navg_after (e : Nat) : ∀ (xs : List Sample) (f : Ntimed) (n : Nat),
    f.epoch = e → f.navg = natF n → n + xs.length ≤ 20 →
    (ntimedFinal f (xs.map (NOp.sample e))).epoch = e ∧
    (ntimedFinal f (xs.map (NOp.sample e))).navg = natF (n + xs.length)
  | [], f, n, he, hn, _ => ⟨he, by simpa [ntimedFinal] using hn⟩
  | x :: xs, f, n, he, hn, hlen => by
    simp only [List.map_cons, ntimedFinal, ntimedStep, ntimedDo]
    have hlen' : n + 1 + xs.length ≤ 20 := by simp only [List.length_cons] at hlen; omega
    have h1 : (ntimedDoFull e f x).state.navg = natF (n + 1) := by
      rw [ntimedDoFull_state_navg, ntimedEnter_same e f he]
      unfold ntimedNavg
      have ht := navg_table ⟨n, by omega⟩
      simp only at ht
      rw [hn, ht.1, if_pos rfl, ht.2]
    have := navg_after e xs (ntimedDoFull e f x).state (n + 1) (ntimedDoFull_state_epoch e f x) h1 hlen'
    simp only [List.length_cons]
    have e2 : n + (xs.length + 1) = n + 1 + xs.length := by omega
    rw [e2]; exact this

/-! ## Runs split at any position -/

theorem ntimedRun_append (s : Ntimed) : ∀ (pre ops : List NOp),
    ntimedRun s (pre ++ ops) = ntimedRun s pre ++ ntimedRun (ntimedFinal s pre) ops
  | [], _ => rfl
  | op :: pre, ops => by
    simp only [List.cons_append, ntimedRun, ntimedFinal]
    cases (ntimedStep s op).2 with
    | none => exact ntimedRun_append _ pre ops
    | some o => simp only [List.cons_append]; rw [ntimedRun_append _ pre ops]

theorem luckyRun_append (f : Lucky) : ∀ (pre ops : List LOp),
    luckyRun f (pre ++ ops) = luckyRun f pre ++ luckyRun (luckyFinal f pre) ops
  | [], _ => rfl
  | op :: pre, ops => by
    simp only [List.cons_append, luckyRun, luckyFinal]
    cases (luckyStep f op).2 with
    | none => exact luckyRun_append _ pre ops
    | some o => simp only [List.cons_append]; rw [luckyRun_append _ pre ops]

theorem luckyStep_config (f : Lucky) (op : LOp) :
    (luckyStep f op).1.cap = f.cap ∧ (luckyStep f op).1.pick = f.pick := by
  cases op with
  | sample x =>
    simp only [luckyStep, luckyDo]
    split <;> exact ⟨rfl, rfl⟩
  | reset => exact ⟨rfl, rfl⟩

theorem luckyFinal_config (f : Lucky) : ∀ ops : List LOp,
    (luckyFinal f ops).cap = f.cap ∧ (luckyFinal f ops).pick = f.pick
  | [] => ⟨rfl, rfl⟩
  | op :: ops => by
    have h := luckyFinal_config (luckyStep f op).1 ops
    have h' := luckyStep_config f op
    simp only [luckyFinal]
    exact ⟨h.1.trans h'.1, h.2.trans h'.2⟩

end ScionTime.Filters
