/-
  Proofs/F64.lean — lemmas about the software binary64 model (Model/F64.lean).
  Core Lean only (`grind` does the ordered-field reasoning over `Rat`).
-/
import ScionTime.Model.F64
namespace ScionTime.F64

/-! ### 0. small `Rat` helpers -/

theorem abs_le_iff {x b : Rat} : x.abs ≤ b ↔ -b ≤ x ∧ x ≤ b := by
  simp only [Rat.abs]; split <;> grind

theorem abs_lt_iff {x b : Rat} : x.abs < b ↔ -b < x ∧ x < b := by
  simp only [Rat.abs]; split <;> grind

theorem abs_mul (x y : Rat) : (x * y).abs = x.abs * y.abs := by
  by_cases hx : 0 ≤ x <;> by_cases hy : 0 ≤ y
  · rw [Rat.abs_of_nonneg (Rat.mul_nonneg hx hy), Rat.abs_of_nonneg hx, Rat.abs_of_nonneg hy]
  · have hy' : y ≤ 0 := by grind
    have h := Rat.mul_nonneg hx (show 0 ≤ -y by grind)
    rw [Rat.mul_neg] at h
    rw [Rat.abs_of_nonpos (show x * y ≤ 0 by grind), Rat.abs_of_nonneg hx, Rat.abs_of_nonpos hy',
      Rat.mul_neg]
  · have hx' : x ≤ 0 := by grind
    have h := Rat.mul_nonneg (show 0 ≤ -x by grind) hy
    rw [Rat.neg_mul] at h
    rw [Rat.abs_of_nonpos (show x * y ≤ 0 by grind), Rat.abs_of_nonpos hx', Rat.abs_of_nonneg hy,
      Rat.neg_mul]
  · have hx' : x ≤ 0 := by grind
    have hy' : y ≤ 0 := by grind
    have h := Rat.mul_nonneg (show 0 ≤ -x by grind) (show 0 ≤ -y by grind)
    rw [Rat.neg_mul, Rat.mul_neg, Rat.neg_neg] at h
    rw [Rat.abs_of_nonneg h, Rat.abs_of_nonpos hx', Rat.abs_of_nonpos hy', Rat.neg_mul, Rat.mul_neg,
      Rat.neg_neg]

/-! ### 1. powers of two -/

theorem pow2_eq_zpow (e : Int) : pow2 e = (2 : Rat) ^ e := by
  unfold pow2
  split
  · rename_i h
    obtain ⟨n, rfl⟩ := Int.eq_ofNat_of_zero_le h
    simp [Rat.zpow_natCast]
  · rename_i h
    obtain ⟨n, hn⟩ := Int.eq_ofNat_of_zero_le (show 0 ≤ -e by omega)
    have : e = -(n : Int) := by omega
    subst this
    simp [Rat.zpow_neg, Rat.zpow_natCast, Rat.div_def]

theorem pow2_pos (e : Int) : 0 < pow2 e := by
  rw [pow2_eq_zpow]; exact Rat.zpow_pos (by decide)

theorem pow2_ne_zero (e : Int) : pow2 e ≠ 0 := Rat.ne_of_gt (pow2_pos e)

theorem pow2_add (a b : Int) : pow2 (a + b) = pow2 a * pow2 b := by
  simp only [pow2_eq_zpow]; exact Rat.zpow_add (by decide) a b

theorem pow2_zero : pow2 0 = 1 := by decide
theorem pow2_one : pow2 1 = 2 := by decide

theorem pow2_neg (a : Int) : pow2 (-a) = 1 / pow2 a := by
  have h := pow2_add a (-a)
  have h0 := pow2_ne_zero a
  rw [show a + -a = 0 by omega, pow2_zero] at h
  grind

theorem pow2_sub (a b : Int) : pow2 (a - b) = pow2 a / pow2 b := by
  rw [Int.sub_eq_add_neg, pow2_add, pow2_neg]; grind

theorem pow2_succ (a : Int) : pow2 (a + 1) = 2 * pow2 a := by
  rw [pow2_add, pow2_one]; grind

theorem pow2_natCast (n : Nat) : pow2 (n : Int) = ((2 ^ n : Nat) : Rat) := by
  unfold pow2; simp

theorem one_le_pow2 {k : Int} (h : 0 ≤ k) : 1 ≤ pow2 k := by
  obtain ⟨n, rfl⟩ := Int.eq_ofNat_of_zero_le h
  rw [pow2_natCast]
  have : 1 ≤ 2 ^ n := Nat.one_le_two_pow
  exact_mod_cast this

theorem one_lt_pow2 {k : Int} (h : 0 < k) : 1 < pow2 k := by
  have := one_le_pow2 (show 0 ≤ k - 1 by omega)
  have h2 := pow2_succ (k - 1)
  rw [show k - 1 + 1 = k by omega] at h2
  grind

theorem pow2_mono {a b : Int} (h : a ≤ b) : pow2 a ≤ pow2 b := by
  have h1 := pow2_add a (b - a)
  rw [show a + (b - a) = b by omega] at h1
  have h2 := one_le_pow2 (show 0 ≤ b - a by omega)
  have h3 := pow2_pos a
  rw [h1]
  have := Rat.mul_le_mul_of_nonneg_left h2 (Rat.le_of_lt h3)
  grind

theorem pow2_strictMono {a b : Int} (h : a < b) : pow2 a < pow2 b := by
  have h1 := pow2_add a (b - a)
  rw [show a + (b - a) = b by omega] at h1
  have h2 := one_lt_pow2 (show 0 < b - a by omega)
  have h3 := pow2_pos a
  rw [h1]
  have := Rat.mul_lt_mul_of_pos_left h2 h3
  grind

theorem pow2_le_iff {a b : Int} : pow2 a ≤ pow2 b ↔ a ≤ b := by
  constructor
  · intro h
    by_cases hab : a ≤ b
    · exact hab
    · have := pow2_strictMono (show b < a by omega); grind
  · exact pow2_mono

theorem pow2_lt_iff {a b : Int} : pow2 a < pow2 b ↔ a < b := by
  constructor
  · intro h
    by_cases hab : a < b
    · exact hab
    · have := pow2_mono (show b ≤ a by omega); grind
  · exact pow2_strictMono

/-! ### 2. `floorLog2` -/

theorem le_div_iff {a b c : Rat} (hc : 0 < c) : a ≤ b / c ↔ a * c ≤ b := by
  have := @Rat.div_lt_iff b c a hc
  grind

theorem div_le_iff {a b c : Rat} (hb : 0 < b) : a / b ≤ c ↔ a ≤ c * b := by
  have := @Rat.lt_div_iff c a b hb
  grind

private theorem fl_core (N D A B P : Rat) (hA : A ≤ N) (hA2 : N < 2 * A) (hB : B ≤ D)
    (hB2 : D < 2 * B) (hP : P * B = A) (hPpos : 0 < P) (hDpos : 0 < D) :
    (P * D ≤ N → P ≤ N / D ∧ N / D < 2 * P) ∧ (N < P * D → P / 2 ≤ N / D ∧ N / D < P) := by
  have h1 := Rat.mul_le_mul_of_nonneg_left hB (Rat.le_of_lt hPpos)
  have h2 := Rat.mul_lt_mul_of_pos_left hB2 hPpos
  constructor
  · intro h
    rw [le_div_iff hDpos, Rat.div_lt_iff hDpos]
    grind
  · intro h
    rw [le_div_iff hDpos, Rat.div_lt_iff hDpos]
    grind

theorem natCast_log2_bounds {n : Nat} (hn : 0 < n) :
    pow2 (n.log2 : Int) ≤ (n : Rat) ∧ (n : Rat) < 2 * pow2 (n.log2 : Int) := by
  have h1 := Nat.log2_self_le (n := n) (by omega)
  have h2 := Nat.lt_log2_self (n := n)
  rw [pow2_natCast]
  constructor
  · exact_mod_cast h1
  · have : ((n : Nat) : Rat) < ((2 ^ (n.log2 + 1) : Nat) : Rat) := by exact_mod_cast h2
    rw [Nat.pow_succ] at this
    simp only [Rat.natCast_mul] at this
    grind

theorem floorLog2_spec {n d : Nat} (hn : 0 < n) (hd : 0 < d) :
    pow2 (floorLog2 n d) ≤ (n : Rat) / (d : Rat) ∧
    (n : Rat) / (d : Rat) < pow2 (floorLog2 n d + 1) := by
  obtain ⟨hA, hA2⟩ := natCast_log2_bounds hn
  obtain ⟨hB, hB2⟩ := natCast_log2_bounds hd
  have hD : (0 : Rat) < (d : Rat) := by exact_mod_cast hd
  have hP := pow2_add ((n.log2 : Int) - (d.log2 : Int)) (d.log2 : Int)
  rw [show (n.log2 : Int) - (d.log2 : Int) + (d.log2 : Int) = (n.log2 : Int) by omega] at hP
  have core := fl_core n d _ _ (pow2 ((n.log2 : Int) - (d.log2 : Int))) hA hA2 hB hB2 hP.symm
    (pow2_pos _) hD
  unfold floorLog2
  simp only []
  generalize (n.log2 : Int) - (d.log2 : Int) = l at *
  -- translate the Boolean test
  have hge : (if l ≥ 0 then decide (n ≥ d * 2 ^ l.toNat) else decide (n * 2 ^ (-l).toNat ≥ d)) = true
      ↔ pow2 l * (d : Rat) ≤ (n : Rat) := by
    by_cases hl : l ≥ 0
    · rw [if_pos hl, decide_eq_true_iff]
      unfold pow2; rw [if_pos hl]
      rw [← Rat.natCast_mul, Rat.natCast_le_natCast, Nat.mul_comm]
    · rw [if_neg hl, decide_eq_true_iff]
      unfold pow2; rw [if_neg hl]
      have hq : (0 : Rat) < ((2 ^ (-l).toNat : Nat) : Rat) := by
        exact_mod_cast Nat.two_pow_pos _
      rw [show (1 / ((2 ^ (-l).toNat : Nat) : Rat)) * (d : Rat) = (d : Rat) / ((2 ^ (-l).toNat : Nat) : Rat) by grind]
      rw [div_le_iff hq, ← Rat.natCast_mul, Rat.natCast_le_natCast]
  generalize (if l ≥ 0 then decide (n ≥ d * 2 ^ l.toNat) else decide (n * 2 ^ (-l).toNat ≥ d)) = b
    at hge
  cases b
  · have h' : (n : Rat) < pow2 l * (d : Rat) := by
      have := mt hge.2 (by decide); grind
    have := core.2 h'
    simp only [Bool.false_eq_true, if_false]
    rw [show l - 1 + 1 = l by omega]
    have h2 := pow2_succ (l - 1)
    rw [show l - 1 + 1 = l by omega] at h2
    grind
  · have := core.1 (hge.1 rfl)
    simp only [if_true]
    rw [pow2_succ]; exact this

theorem floorLog2_unique {n d : Nat} (hn : 0 < n) (hd : 0 < d) {k : Int}
    (h1 : pow2 k ≤ (n : Rat) / (d : Rat)) (h2 : (n : Rat) / (d : Rat) < pow2 (k + 1)) :
    floorLog2 n d = k := by
  obtain ⟨s1, s2⟩ := floorLog2_spec hn hd
  have a : k < floorLog2 n d + 1 := pow2_lt_iff.1 (by grind)
  have b : floorLog2 n d < k + 1 := pow2_lt_iff.1 (by grind)
  omega

/-- lower bounds transfer: `2^k ≤ n/d → k ≤ floorLog2 n d` -/
theorem le_floorLog2 {n d : Nat} (hn : 0 < n) (hd : 0 < d) {k : Int}
    (h : pow2 k ≤ (n : Rat) / (d : Rat)) : k ≤ floorLog2 n d := by
  obtain ⟨_, s2⟩ := floorLog2_spec hn hd
  have a : k < floorLog2 n d + 1 := pow2_lt_iff.1 (by grind)
  omega

/-- upper bounds transfer: `n/d < 2^k → floorLog2 n d < k` -/
theorem floorLog2_lt {n d : Nat} (hn : 0 < n) (hd : 0 < d) {k : Int}
    (h : (n : Rat) / (d : Rat) < pow2 k) : floorLog2 n d < k := by
  obtain ⟨s1, _⟩ := floorLog2_spec hn hd
  exact pow2_lt_iff.1 (by grind)

/-! ### 3. `roundHalfEven` -/

/-- the integer chosen by `roundHalfEven` before `toNat` -/
def rheInt (x : Rat) : Int :=
  let f := x.floor
  let r := x - (f : Rat)
  if r > 1/2 then f + 1 else if r < 1/2 then f else if f % 2 = 0 then f else f + 1

theorem roundHalfEven_eq (x : Rat) : roundHalfEven x = (rheInt x).toNat := rfl

theorem rheInt_err (x : Rat) :
    -(1/2) ≤ (rheInt x : Rat) - x ∧ (rheInt x : Rat) - x ≤ 1/2 := by
  have h1 := Rat.floor_le x
  have h2 := Rat.lt_floor_add_one x
  unfold rheInt
  simp only []
  split
  · simp only [Rat.intCast_add] at *; grind
  · split
    · grind
    · split
      · grind
      · simp only [Rat.intCast_add] at *; grind

theorem rheInt_nonneg {x : Rat} (hx : 0 ≤ x) : 0 ≤ rheInt x := by
  have h0 : (0 : Int) ≤ x.floor := Rat.le_floor_iff.2 (by simpa using hx)
  unfold rheInt
  simp only []
  split
  · omega
  · split
    · omega
    · split <;> omega

theorem roundHalfEven_cast {x : Rat} (hx : 0 ≤ x) : ((roundHalfEven x : Nat) : Rat) = (rheInt x : Rat) := by
  rw [roundHalfEven_eq, ← Rat.intCast_natCast, Int.toNat_of_nonneg (rheInt_nonneg hx)]

/-- item 3: the rounding error is at most one half -/
theorem roundHalfEven_err {x : Rat} (hx : 0 ≤ x) :
    -(1/2) ≤ ((roundHalfEven x : Nat) : Rat) - x ∧ ((roundHalfEven x : Nat) : Rat) - x ≤ 1/2 := by
  rw [roundHalfEven_cast hx]; exact rheInt_err x

theorem roundHalfEven_abs_err {x : Rat} (hx : 0 ≤ x) :
    (((roundHalfEven x : Nat) : Rat) - x).abs ≤ 1/2 := by
  rw [abs_le_iff]; exact roundHalfEven_err hx

theorem rheInt_mono {x y : Rat} (h : x ≤ y) : rheInt x ≤ rheInt y := by
  have ex := rheInt_err x
  have ey := rheInt_err y
  by_cases hc : rheInt x ≤ rheInt y
  · exact hc
  · exfalso
    have h1 : rheInt y + 1 ≤ rheInt x := by omega
    have h2 : ((rheInt y + 1 : Int) : Rat) ≤ (rheInt x : Rat) := Rat.intCast_le_intCast.2 h1
    simp only [Rat.intCast_add] at h2
    have hxy : x = y := by grind
    subst hxy
    omega

/-- item 3: monotone -/
theorem roundHalfEven_mono {x y : Rat} (h : x ≤ y) : roundHalfEven x ≤ roundHalfEven y := by
  rw [roundHalfEven_eq, roundHalfEven_eq]
  exact Int.toNat_le_toNat (rheInt_mono h)

theorem rheInt_intCast (k : Int) : rheInt (k : Rat) = k := by
  have e := rheInt_err (k : Rat)
  have h1 : ((rheInt (k : Rat) - k : Int) : Rat) < ((1 : Int) : Rat) := by
    simp only [Rat.intCast_sub]; grind
  have h2 : ((-1 : Int) : Rat) < ((rheInt (k : Rat) - k : Int) : Rat) := by
    simp only [Rat.intCast_sub, Rat.intCast_neg]; grind
  have h1' := Rat.intCast_lt_intCast.1 h1
  have h2' := Rat.intCast_lt_intCast.1 h2
  omega

theorem roundHalfEven_natCast (k : Nat) : roundHalfEven (k : Rat) = k := by
  rw [roundHalfEven_eq, ← Rat.intCast_natCast, rheInt_intCast]; simp

/-- integers below `x` stay below the rounded value -/
theorem le_roundHalfEven {x : Rat} {k : Nat} (h : (k : Rat) ≤ x) : k ≤ roundHalfEven x := by
  have := roundHalfEven_mono h; rwa [roundHalfEven_natCast] at this

/-- integers above `x` stay above the rounded value -/
theorem roundHalfEven_le {x : Rat} {k : Nat} (h : x ≤ (k : Rat)) : roundHalfEven x ≤ k := by
  have := roundHalfEven_mono h; rwa [roundHalfEven_natCast] at this

end ScionTime.F64
